(* A small deep-embedded language for the *wrapper* metric functions: validate, handle empty inputs, call a
   matcher / helper, turn a hit count into precision / recall / F (transcription, transcription_velocity,
   onset, beat, segment.detection). Definitions only.

   translator/wrapfuncs.py maps the syntax of a body to a [wprog] (Gen/WrapFuncs.v) and copies the *signature*
   (parameter names in order, literal defaults) of every function that is called; what the body means is
   decided here; Proofs/WrapFuncsTie.v proves each program equal to the hand-written model with the callees
   instantiated by the model's own functions.

   Calls. A call site is kept as written: the positional arguments and the (name, value) keyword arguments.
   [bind_args] binds them to the callee's parameters exactly as Python does (positionals first, then keywords
   by name, then defaults; too many positionals, an unknown keyword, a parameter given twice, a missing
   required parameter make the program meaningless, [TBad]). The callee then receives one value per parameter,
   in the order of its signature, so that an argument that is no longer forwarded shows up as the default
   value in its place.
   Values of calls are bound once ([TCall] pushes the result; [WRes i] reads it), the rest of the body is pure
   and is flattened to a decision tree by substitution, as in Model/VecExp.v. *)
From Coq Require Import String.
From Coq Require Import List Bool Arith ZArith QArith.
From ME Require Import Model.Prelude.
Import ListNotations.
Open Scope Q_scope.

Inductive wout (A : Type) := WOK (a : A) | WEXN (e : exn) | WFUEL | WUNM.
  (* WFUEL: the matcher ran out of fuel (the models' [None]); WUNM: outside the modelled fragment *)
Arguments WOK {A}. Arguments WEXN {A}. Arguments WFUEL {A}. Arguments WUNM {A}.
Definition wbind {A B} (r : wout A) (f : A -> wout B) : wout B :=
  match r with WOK a => f a | WEXN e => WEXN e | WFUEL => WFUEL | WUNM => WUNM end.

Inductive wcmp := WEq | WNe | WLt | WLe | WGt | WGe.
(* the functions that may be called (which Python function each denotes: [callee_names]) *)
Inductive extfn :=
| X_tr_validate | X_tr_validate_intervals | X_tr_match_notes | X_tr_match_note_onsets | X_tr_match_note_offsets
| X_tr_average_overlap_ratio
| X_tv_validate | X_tv_match_notes | X_tv_match_notes_tail
| X_util_f_measure | X_util_match_events | X_util_intervals_to_boundaries
| X_onset_validate | X_beat_validate | X_segment_validate_boundary
| X_mp_compute_accuracy | X_mp_compute_err_score.
Local Open Scope string_scope.
Definition callee_names : list (string * extfn) :=
  [("transcription.validate", X_tr_validate); ("transcription.validate_intervals", X_tr_validate_intervals);
   ("transcription.match_notes", X_tr_match_notes); ("transcription.match_note_onsets", X_tr_match_note_onsets);
   ("transcription.match_note_offsets", X_tr_match_note_offsets);
   ("transcription.average_overlap_ratio", X_tr_average_overlap_ratio);
   ("transcription_velocity.validate", X_tv_validate); ("transcription_velocity.match_notes", X_tv_match_notes);
   ("transcription_velocity.match_notes#tail", X_tv_match_notes_tail);
   ("util.f_measure", X_util_f_measure); ("util.match_events", X_util_match_events);
   ("util.intervals_to_boundaries", X_util_intervals_to_boundaries);
   ("onset.validate", X_onset_validate); ("beat.validate", X_beat_validate);
   ("segment.validate_boundary", X_segment_validate_boundary);
   ("multipitch.compute_accuracy", X_mp_compute_accuracy); ("multipitch.compute_err_score", X_mp_compute_err_score)].
Local Close Scope string_scope.

Inductive wexp :=
| WVar (x : string) | WArg (i : nat) | WRes (i : nat)     (* local; i-th parameter; value of the i-th call *)
| WInt (z : Z) | WFloat (q : Q) | WBool (b : bool) | WNoneE
| WLen (a : wexp) | WSize (a : wexp)                      (* len(a); a.size *)
| WPyFloat (a : wexp)                                     (* float(a) *)
| WDiv (a b : wexp)                                       (* a / b on Python numbers *)
| WCmp (op : wcmp) (a b : wexp)
| WOr (a b : wexp) | WAnd (a b : wexp) | WNot (a : wexp)  (* Python or / and / not *)
| WTrim (a : wexp).                                       (* a[1:-1] *)

Inductive stmt :=
| SLet (x : string) (e : wexp)
| SCallLet (x : option string) (f : string) (pos : list wexp) (kws : list (string * wexp))   (* [x =] f(pos, kws) *)
| SCallLetN (xs : list string) (f : string) (pos : list wexp) (kws : list (string * wexp))    (* x1, ..., xk = f(pos, kws) *)
| SIf (c : wexp) (a b : list stmt)
| SReturn (es : list wexp)
| SRaise (e : exn).
Definition sigt := list (string * option wexp).            (* parameters in order, with their literal defaults *)
Record wprog := { wp_params : list string; wp_body : list stmt }.

Inductive rtree :=
| TRet (es : list wexp) | TRaise (e : exn) | TNone | TBad
| TIf (c : wexp) (a b : rtree) | TSeq (e : wexp) (t : rtree)
| TCall (f : extfn) (args : list wexp) (t : rtree)        (* the result becomes the next [WRes] *)
| TCallN (k : nat) (f : extfn) (args : list wexp) (t : rtree).   (* the result is a k-tuple; its components become the next k [WRes] *)

(* ---- Python's binding of the arguments of a call to the parameters of the callee ---- *)
Fixpoint kw_lookup (p : string) (kws : list (string * wexp)) : option wexp :=
  match kws with [] => None | (k, a) :: t => if String.eqb p k then Some a else kw_lookup p t end.
Fixpoint mem_str (p : string) (l : list string) : bool :=
  match l with [] => false | k :: t => String.eqb p k || mem_str p t end.
Fixpoint nodup_str (l : list string) : bool :=
  match l with [] => true | k :: t => negb (mem_str k t) && nodup_str t end.
Fixpoint bind_params (ps : sigt) (pos : list wexp) (kws : list (string * wexp)) : option (list wexp) :=
  match ps with
  | [] => match pos with [] => Some [] | _ => None end                          (* too many positional arguments *)
  | (p, d) :: ps' =>
      match pos with
      | a :: pos' => match kw_lookup p kws with
                     | Some _ => None                                           (* multiple values for p *)
                     | None => option_map (cons a) (bind_params ps' pos' kws) end
      | [] => match kw_lookup p kws, d with
              | Some a, _ => option_map (cons a) (bind_params ps' [] kws)
              | None, Some dv => option_map (cons dv) (bind_params ps' [] kws)
              | None, None => None                                              (* missing required argument *)
              end
      end
  end.
Definition bind_args (ps : sigt) (pos : list wexp) (kws : list (string * wexp)) : option (list wexp) :=
  if forallb (fun kw => mem_str (fst kw) (map fst ps)) kws && nodup_str (map fst kws)   (* unexpected / repeated keyword *)
  then bind_params ps pos kws else None.
Fixpoint assoc {A} (x : string) (l : list (string * A)) : option A :=
  match l with [] => None | (y, a) :: t => if String.eqb x y then Some a else assoc x t end.

(* ---- flattening ---- *)
Definition env := list (string * wexp).
Fixpoint subst (en : env) (a : wexp) : wexp :=
  match a with
  | WVar x => match assoc x en with Some b => b | None => WVar x end
  | WLen a => WLen (subst en a)
  | WSize a => WSize (subst en a)
  | WPyFloat a => WPyFloat (subst en a)
  | WDiv a b => WDiv (subst en a) (subst en b)
  | WCmp op a b => WCmp op (subst en a) (subst en b)
  | WOr a b => WOr (subst en a) (subst en b)
  | WAnd a b => WAnd (subst en a) (subst en b)
  | WNot a => WNot (subst en a)
  | WTrim a => WTrim (subst en a)
  | WArg _ | WRes _ | WInt _ | WFloat _ | WBool _ | WNoneE => a
  end.
Section Flat.
Variable sigs : list (string * sigt).          (* the signatures read from the source (Gen/WrapFuncs.v) *)
(* k: the rest of the body, given the environment and the number of calls made so far *)
Fixpoint flat_stmt (s : stmt) (k : env -> nat -> rtree) (en : env) (n : nat) : rtree :=
  match s with
  | SLet x e => let e' := subst en e in TSeq e' (k ((x, e') :: en) n)
  | SCallLet x f pos kws =>
      match assoc f sigs, assoc f callee_names with
      | Some ps, Some id =>
          match bind_args ps (map (subst en) pos) (map (fun kw => (fst kw, subst en (snd kw))) kws) with
          | Some args => TCall id args (k (match x with Some y => (y, WRes n) :: en | None => en end) (S n))
          | None => TBad end
      | _, _ => TBad
      end
  | SCallLetN xs f pos kws =>
      match assoc f sigs, assoc f callee_names with
      | Some ps, Some id =>
          match bind_args ps (map (subst en) pos) (map (fun kw => (fst kw, subst en (snd kw))) kws) with
          | Some args =>
              TCallN (length xs) id args
                     (k ((fix bindn (xs : list string) (i : nat) : env :=
                            match xs with [] => en | x :: t => (x, WRes i) :: bindn t (S i) end) xs n) (length xs + n)%nat)
          | None => TBad end
      | _, _ => TBad
      end
  | SIf c a b =>
      let fb := fix fb (l : list stmt) (k : env -> nat -> rtree) : env -> nat -> rtree :=
                  match l with [] => k | s :: t => flat_stmt s (fb t k) end in
      TIf (subst en c) (fb a k en n) (fb b k en n)
  | SReturn es => TRet (map (subst en) es)
  | SRaise e => TRaise e
  end.
Fixpoint flat_block (l : list stmt) (k : env -> nat -> rtree) : env -> nat -> rtree :=
  match l with [] => k | s :: t => flat_stmt s (flat_block t k) end.
Fixpoint arg_env (ps : list string) (i : nat) : env :=
  match ps with [] => [] | p :: t => (p, WArg i) :: arg_env t (S i) end.
Definition wp_tree (p : wprog) : rtree := flat_block (wp_body p) (fun _ _ => TNone) (arg_env (wp_params p) 0) 0%nat.
End Flat.

(* ---- values ---- *)
Inductive wval :=
| WNone | WB (b : bool) | WZ (z : Z) | WQ (q : Q) | WX (x : xval)      (* None, bool, int, float, float result that may be nan *)
| WIvs (l : list (Q * Q))            (* an (n,2) array of intervals *)
| WPs (l : list (Q * Q))             (* pitches: (Hz, np.log2 Hz) as in Model/Transcription.v *)
| WQs (l : list Q)                   (* a 1-d float array *)
| WM (m : list (nat * nat))          (* a matching: list of index pairs *)
| WZs (l : list Z)                   (* a 1-d int array (per-frame counts) *)
| WTup (l : list wval).              (* a tuple returned by a callee *)
Definition cond := (bool * exn)%type.
Definition evr := option (wval * list cond).
Definition ret (v : wval) : evr := Some (v, []).
Definition as_q (v : wval) : option Q := match v with WZ z => Some (inject_Z z) | WQ q => Some q | _ => None end.
Definition w_truth (v : wval) : option bool :=
  match v with WB b => Some b | WZ z => Some (negb (Z.eqb z 0)) | WQ q => Some (negb (qeqb q 0)) | WNone => Some false | _ => None end.
Definition w_len (v : wval) : evr :=
  match v with
  | WIvs l => ret (WZ (Z.of_nat (length l))) | WPs l => ret (WZ (Z.of_nat (length l)))
  | WQs l => ret (WZ (Z.of_nat (length l))) | WM l => ret (WZ (Z.of_nat (length l)))
  | _ => None end.
Definition w_size (v : wval) : evr :=
  match v with
  | WQs l => ret (WZ (Z.of_nat (length l))) | WPs l => ret (WZ (Z.of_nat (length l)))
  | WIvs l => ret (WZ (2 * Z.of_nat (length l)))
  | _ => None end.
Definition w_float (v : wval) : evr := match as_q v with Some q => ret (WQ q) | None => None end.
Definition w_div (a b : wval) : evr :=      (* Python numbers: a zero divisor raises *)
  match as_q a, as_q b with
  | Some x, Some y => Some (WQ (x / y), [(negb (qeqb y 0), ZeroDivisionError)])
  | _, _ => None end.
Definition w_cmp (op : wcmp) (a b : wval) : evr :=
  match a, b with
  | WZ x, WZ y => ret (WB (match op with WEq => Z.eqb x y | WNe => negb (Z.eqb x y) | WLt => Z.ltb x y | WLe => Z.leb x y
                                     | WGt => Z.ltb y x | WGe => Z.leb y x end))
  | _, _ => match as_q a, as_q b with
            | Some x, Some y => ret (WB (match op with WEq => qeqb x y | WNe => negb (qeqb x y) | WLt => qltb x y
                                                  | WLe => qleb x y | WGt => qltb y x | WGe => qleb y x end))
            | _, _ => None end
  end.
Definition w_trim (v : wval) : evr := match v with WQs l => ret (WQs (removelast (tl l))) | _ => None end.
Definition ebind (a : evr) (f : wval -> evr) : evr :=
  match a with Some (x, ca) => match f x with Some (y, cf) => Some (y, ca ++ cf) | None => None end | None => None end.
Definition ebind2 (a b : evr) (f : wval -> wval -> evr) : evr :=
  match a with
  | Some (x, ca) => match b with
                    | Some (y, cb) => match f x y with Some (z, cf) => Some (z, ca ++ cb ++ cf) | None => None end
                    | None => None end
  | None => None end.
Definition pure_only (a : evr) : evr := match a with Some (x, []) => Some (x, []) | _ => None end.

Section Eval.
Variable args : list wval.
Variable ext : extfn -> list wval -> wout wval.
Section Ev.
Variable results : list wval.
Fixpoint ev (a : wexp) : evr :=
  match a with
  | WVar _ => None
  | WArg i => match nth_error args i with Some v => ret v | None => None end
  | WRes i => match nth_error results i with Some v => ret v | None => None end
  | WInt z => ret (WZ z) | WFloat q => ret (WQ q) | WBool b => ret (WB b) | WNoneE => ret WNone
  | WLen a => ebind (ev a) w_len
  | WSize a => ebind (ev a) w_size
  | WPyFloat a => ebind (ev a) w_float
  | WDiv a b => ebind2 (ev a) (ev b) w_div
  | WCmp op a b => ebind2 (ev a) (ev b) (w_cmp op)
  | WOr a b => ebind (ev a) (fun x => match w_truth x, pure_only (ev b) with
                                      | Some t, Some (y, _) => ret (if t then x else y) | _, _ => None end)
  | WAnd a b => ebind (ev a) (fun x => match w_truth x, pure_only (ev b) with
                                       | Some t, Some (y, _) => ret (if t then y else x) | _, _ => None end)
  | WNot a => ebind (ev a) (fun x => match w_truth x with Some t => ret (WB (negb t)) | None => None end)
  | WTrim a => ebind (ev a) w_trim
  end.
Fixpoint ev_list (l : list wexp) : option (list wval * list cond) :=
  match l with
  | [] => Some ([], [])
  | x :: t => match ev x, ev_list t with Some (v, c), Some (vs, cs) => Some (v :: vs, c ++ cs) | _, _ => None end
  end.
End Ev.
Fixpoint chk {A} (cs : list cond) (k : wout A) : wout A :=
  match cs with [] => k | (b, e) :: t => if b then chk t k else WEXN e end.
Fixpoint run_tree (t : rtree) (results : list wval) : wout (list wval) :=
  match t with
  | TRet es => match ev_list results es with Some (vs, cs) => chk cs (WOK vs) | None => WUNM end
  | TRaise e => WEXN e
  | TNone => WOK [WNone]
  | TBad => WUNM
  | TIf c a b => match ev results c with
                 | Some (v, cs) => match w_truth v with
                                   | Some t => chk cs (if t then run_tree a results else run_tree b results)
                                   | None => WUNM end
                 | None => WUNM end
  | TSeq e t => match ev results e with Some (_, cs) => chk cs (run_tree t results) | None => WUNM end
  | TCall f es t => match ev_list results es with
                    | Some (vs, cs) => chk cs (wbind (ext f vs) (fun v => run_tree t (results ++ [v])))
                    | None => WUNM end
  | TCallN k f es t => match ev_list results es with
                       | Some (vs, cs) =>
                           chk cs (wbind (ext f vs) (fun v => match v with
                                                              | WTup l => if (length l =? k)%nat then run_tree t (results ++ l)
                                                                          else WEXN ValueError       (* unpacking *)
                                                              | _ => WUNM end))
                       | None => WUNM end
  end.
End Eval.

Definition wrun (sigs : list (string * sigt)) (p : wprog) (ext : extfn -> list wval -> wout wval) (args : list wval)
  : wout (list wval) := run_tree args ext (wp_tree sigs p) [].
