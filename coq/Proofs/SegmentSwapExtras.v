(* Exchanging reference and estimate, further cases:
     * segment.nmi / segment.vmeasure on the contingency table (Proofs/SegmentEntropy.v, real-valued: these three theorems
       -- nmi_sym, vmeasure_swap, vmeasure_swap_any_beta -- depend on the axioms of the Coq Reals library, as everything in
       SegmentEntropy.v does);
     * hierarchy.lmeasure (Model/Hierarchy.v, over Q): lmeasure_swap, lmeasure_swap_F1, and the F part of tmeasure_swap
       (tmeasure_swap_F1) -- closed under the global context. *)
From Coq Require Import List Arith Lia Bool ZArith QArith Lqa Reals Lra.
From ME Require Import Model.Prelude Model.Events Model.Hierarchy Model.SegmentCluster.
From ME Require Import Proofs.SegmentEntropy Proofs.EventsSpec Proofs.HierarchyProps.
Import ListNotations.

(* ------------------------------------------------------------------------------------------------ *)
(* NMI and V-measure (Reals)                                                                           *)
(* ------------------------------------------------------------------------------------------------ *)
Section RealValued.
Local Open Scope R_scope.

(* segment.nmi(ref, est) = segment.nmi(est, ref): the table is transposed, the two entropies change places under the
   square root, the mutual information is symmetric (mi_sym), and the "one cluster each / no cluster" shortcut tests a
   symmetric condition *)
Theorem nmi_sym n nr nc nlabels : nmi (swap n) nc nr nlabels = nmi n nr nc nlabels.
Proof.
  unfold nmi. rewrite mi_sym.
  assert (Eg : ((nc =? nr)%nat && (nr =? 1)%nat || (nc =? nr)%nat && (nr =? 0)%nat)%bool
             = ((nr =? nc)%nat && (nc =? 1)%nat || (nr =? nc)%nat && (nc =? 0)%nat)%bool).
  { rewrite (Nat.eqb_sym nc nr). destruct (Nat.eqb_spec nr nc) as [->|]; reflexivity. }
  rewrite Eg. clear Eg. destruct (_ || _)%bool; [reflexivity|]. cbv zeta. unfold swap. f_equal. f_equal. f_equal. apply Rmult_comm.
Qed.
Example nmi_sym_ex : let n : tabfn := fun i j => nth j (nth i [[2; 0; 1]; [0; 3; 0]]%nat []) 0%nat in
  nmi (swap n) 3 2 6 = nmi n 2 3 6.
Proof. cbv zeta. apply nmi_sym. Qed.

(* nce / vmeasure return (over, under, F) = (V-precision, V-recall, V-F): exchanging the annotations exchanges the
   first two for every beta ... *)
Theorem vmeasure_swap_any_beta n nr nc nframes beta :
  fst (fst (vmeasure (swap n) nc nr nframes beta)) = snd (fst (vmeasure n nr nc nframes beta)) /\
  snd (fst (vmeasure (swap n) nc nr nframes beta)) = fst (fst (vmeasure n nr nc nframes beta)).
Proof. split; reflexivity. Qed.
(* ... and keeps F at beta = 1 *)
Theorem vmeasure_swap n nr nc nframes :
  let '(p, r, f) := vmeasure n nr nc nframes 1 in vmeasure (swap n) nc nr nframes 1 = (r, p, f).
Proof.
  unfold vmeasure, nce. cbv zeta. rewrite (nce_swap_F n nr nc nframes true).
  destruct (nce_swap n nr nc nframes true) as [E1 E2]. rewrite E1, E2. reflexivity.
Qed.
(* the same for nce with either normalisation *)
Theorem nce_full_swap n nr nc nframes marginal :
  let '(o, u, f) := nce n nr nc nframes 1 marginal in nce (swap n) nc nr nframes 1 marginal = (u, o, f).
Proof.
  unfold nce. cbv zeta. rewrite (nce_swap_F n nr nc nframes marginal).
  destruct (nce_swap n nr nc nframes marginal) as [E1 E2]. rewrite E1, E2. reflexivity.
Qed.
End RealValued.

(* ------------------------------------------------------------------------------------------------ *)
(* hierarchy.lmeasure (Q)                                                                              *)
(* ------------------------------------------------------------------------------------------------ *)
(* exchanging the two labelled hierarchies exchanges L-precision and L-recall *)
Theorem lmeasure_swap : forall a b fs beta p r f,
  lmeasure a b fs beta = Ok (p, r, f) -> exists f', lmeasure b a fs beta = Ok (r, p, f') /\ f' = f_measure r p beta /\ f = f_measure p r beta.
Proof.
  intros a b fs beta p r f H. unfold lmeasure in *.
  destruct (qleb fs 0); [discriminate H|].
  destruct (validate_hier (lh_intervals a)) as [[]|]; cbn [bind] in *; [|discriminate H].
  destruct (validate_hier (lh_intervals b)) as [[]|]; cbn [bind] in *; [|discriminate H].
  destruct (meet a fs) as [ma|]; cbn [bind] in *; [|discriminate H].
  destruct (meet b fs) as [mb|]; cbn [bind] in *; [|discriminate H].
  destruct (gauc ma mb true None) as [r'|]; cbn [bind] in *; [|discriminate H].
  destruct (gauc mb ma true None) as [p'|]; cbn [bind] in *; [|discriminate H].
  inversion H; subst. eexists. split; [reflexivity|]. split; reflexivity.
Qed.
(* ... and keeps L-F at beta = 1 (the default) *)
Theorem lmeasure_swap_F1 : forall a b fs p r f,
  lmeasure a b fs 1%Q = Ok (p, r, f) -> exists f', lmeasure b a fs 1%Q = Ok (r, p, f') /\ (f' == f)%Q.
Proof.
  intros a b fs p r f H. destruct (lmeasure_swap a b fs 1%Q p r f H) as (f' & E & -> & ->). exists (f_measure r p 1%Q).
  split; [exact E|]. apply f_measure_sym.
Qed.
(* the same complement for the existing tmeasure_swap *)
Theorem tmeasure_swap_F1 : forall a b tr window fs p r f,
  tmeasure a b tr window fs 1%Q = Ok (p, r, f) -> exists f', tmeasure b a tr window fs 1%Q = Ok (r, p, f') /\ (f' == f)%Q.
Proof.
  intros a b tr window fs p r f H. unfold tmeasure in *.
  destruct (qleb fs 0); [discriminate H|]. destruct (window_frames window fs) as [wf|]; cbn [bind] in *; [|discriminate H].
  destruct (validate_hier a) as [[]|]; cbn [bind] in *; [|discriminate H].
  destruct (validate_hier b) as [[]|]; cbn [bind] in *; [|discriminate H].
  destruct (lca a fs) as [la|]; cbn [bind] in *; [|discriminate H].
  destruct (lca b fs) as [lb|]; cbn [bind] in *; [|discriminate H].
  destruct (gauc la lb tr wf) as [r'|]; cbn [bind] in *; [|discriminate H].
  destruct (gauc lb la tr wf) as [p'|]; cbn [bind] in *; [|discriminate H].
  inversion H; subst. eexists. split; [reflexivity|]. apply f_measure_sym.
Qed.
(* a reference with a different second level than the estimate: the hypothesis is satisfiable and the swap is visible *)
Example lmeasure_swap_ex :
  let ref := [[(0%Q, 2%Q, [97]); (2%Q, 4%Q, [98])]; [(0%Q, 1%Q, [120]); (1%Q, 2%Q, [121]); (2%Q, 3%Q, [88]); (3%Q, 4%Q, [122])]]%nat in
  let est := [[(0%Q, 2%Q, [97]); (2%Q, 4%Q, [98])]; [(0%Q, 2%Q, [120]); (2%Q, 4%Q, [122])]]%nat in
  exists p r f f', lmeasure ref est 1%Q 1%Q = Ok (p, r, f) /\ lmeasure est ref 1%Q 1%Q = Ok (r, p, f') /\ ~ (p == r)%Q.
Proof.
  cbv zeta. do 4 eexists. split; [vm_compute; reflexivity|]. split; [vm_compute; reflexivity|]. intros E. vm_compute in E. discriminate E.
Qed.

Print Assumptions nmi_sym.
Print Assumptions vmeasure_swap.
Print Assumptions vmeasure_swap_any_beta.
Print Assumptions nce_full_swap.
Print Assumptions lmeasure_swap.
Print Assumptions lmeasure_swap_F1.
Print Assumptions tmeasure_swap_F1.
