(* The frame helpers of mir_eval/multipitch.py, tied to the hand-written model by TRANSLATION.

   translator/framefuncs.py turns the bodies of compute_num_freqs, compute_num_true_positives, midi_to_chroma,
   frequencies_to_midi, resample_multipitch and the part of `metrics` before the final assembly into programs of the
   Python / NumPy sub-language of Model/FrameExp.v (Gen/FrameGen.v, regenerated on every check). This file proves, for ALL
   inputs, that running each generated program gives what the model function of Model/Multipitch.v gives, including
   which exception is raised:
     compute_num_freqs_tie            program = counts_val (Multipitch.compute_num_freqs fs)   (np.array of an empty list is float64)
     midi_to_chroma_tie               program = Multipitch.midi_to_chroma                      (nan entries included)
     frequencies_to_midi_tie          program = Multipitch.frequencies_to_midi (hz2midi_of ref), hz2midi_of ref f = 69 + 12 * flog2 (f / ref),
                                      flog2 = np.log2 arbitrary; ref > 0; no frequency is 0 (log2 0 = -inf is outside the value domain)
     compute_num_true_positives_tie   program = Multipitch.compute_num_true_positives (the per-frame loop by induction; util.match_events
                                      is the model's matcher, with distance=util._outer_distance_mod_n selecting the chroma distance)
     resample_multipitch_tie          program = Multipitch.resample_multipitch on non-decreasing time bases (interp1d nearest / fill value
                                      as the primitive FrameExp.interp1d_prim; index arithmetic and the extra empty frame proved)
   (FrameTieMetrics.v: the prefix of multipitch.metrics.)
   The first three and resample_multipitch_tie hold for every instantiation [ext] of the opaque callees. *)
From Coq Require Import String.
From Coq Require Import List Bool Arith ZArith QArith Qabs Qminmax Qround Lia Lqa.
From ME Require Import Model.Prelude Model.Events Model.FrameExp Gen.FrameGen.
From ME Require Model.Multipitch.
Import ListNotations.
Open Scope Q_scope.

Definition frame_sigs : list (string * option sigv) := sigs_of (fun_params frame_funs ++ frame_prims).
(* the signatures of the opaque callees the ties rely on (parameter names, order, literal defaults), as read from the source *)
Theorem frame_sigs_expected :
  map (fun f => assoc_sig f frame_sigs) ["multipitch.validate"; "util.match_events"; "util._outer_distance_mod_n"]%string
  = [Some [("ref_time", None); ("ref_freqs", None); ("est_time", None); ("est_freqs", None)];
     Some [("ref", None); ("est", None); ("window", None); ("distance", Some VNone)];
     Some [("ref", None); ("est", None); ("modulus", Some (VInt 12))]]%string.
Proof. vm_compute. reflexivity. Qed.

Lemma run_block_cons f s r en : run_block f (s :: r) en = match f s en with SNorm en' => run_block f r en' | o => o end.
Proof. reflexivity. Qed.
Lemma run_block_nil f en : run_block f [] en = SNorm en.
Proof. reflexivity. Qed.
Ltac sigs := repeat match goal with |- context [lookup_sig frame_sigs ?f] =>
  let v := eval vm_compute in (lookup_sig frame_sigs f) in change (lookup_sig frame_sigs f) with v end.
Ltac rb := rewrite ?run_block_cons, ?run_block_nil.
Ltac go := repeat (progress (rb; cbn; unfold call_ext, call_filtered; sigs)).
(* ---------- generic lemmas ---------- *)
Lemma mapM_ok {A B} (f : A -> out B) (g : A -> B) l : (forall x, In x l -> f x = OK (g x)) -> mapM f l = OK (map g l).
Proof.
  induction l as [|a t IH]; intros H; [reflexivity|]. cbn [mapM map].
  rewrite (H a (or_introl eq_refl)). cbn [obind]. rewrite IH by (intros x Hx; apply H; right; exact Hx). reflexivity.
Qed.
Lemma all_ints_map {A} (g : A -> Z) l : all_ints (map (fun x => VInt (g x)) l) = Some (map g l).
Proof. induction l as [|a t IH]; [reflexivity|]. cbn [map all_ints]. rewrite IH. reflexivity. Qed.

Definition is_arr (v : fv) : Prop := arr_len v <> None.
Definition size_of (v : fv) : nat := match arr_len v with Some n => n | None => 0 end.
(* np.array of a list of Python ints: an int64 array, or the empty float64 array *)
Definition counts_val (ns : list nat) : fv :=
  match ns with [] => VArrQ [] | _ => VArrZ (map Z.of_nat ns) end.
Definition v_frames (fs : list (list Q)) : fv := VList (map VArrQ fs).
Definition v_mframes (fs : list (list Multipitch.mv)) : fv := VList (map VArrM fs).

Section Ties.
Variable ext : string -> list fv -> out fv.
Variable flog2 : Q -> Q.
Definition runx (f : fdef) (args : list fv) : out fv := run_fun frame_sigs ext flog2 f args.

(* ================================================================== compute_num_freqs *)
Theorem compute_num_freqs_tie_gen : forall l : list fv, Forall is_arr l ->
  runx gen_mp_compute_num_freqs [VList l] = OK (counts_val (map size_of l)).
Proof.
  intros l Hl. unfold runx, run_fun. cbn.
  rewrite (mapM_ok _ (fun el => VInt (Z.of_nat (size_of el)))).
  2:{ intros x Hx. rewrite Forall_forall in Hl. specialize (Hl x Hx). unfold is_arr in Hl. unfold attr, size_of.
      destruct x; cbn in Hl |- *; try reflexivity; exfalso; apply Hl; reflexivity. }
  cbn. destruct l as [|a t]; [reflexivity|].
  cbn [map]. change (VInt (Z.of_nat (size_of a)) :: map (fun el => VInt (Z.of_nat (size_of el))) t)
    with (map (fun el => VInt (Z.of_nat (size_of el))) (a :: t)).
  rewrite (all_ints_map (fun el => Z.of_nat (size_of el))). cbn [map counts_val]. rewrite map_map. reflexivity.
Qed.

Corollary compute_num_freqs_tie : forall fs : list (list Multipitch.mv),
  runx gen_mp_compute_num_freqs [v_mframes fs] = OK (counts_val (Multipitch.compute_num_freqs fs)).
Proof.
  intros. unfold v_mframes. rewrite compute_num_freqs_tie_gen.
  - rewrite map_map. reflexivity.
  - apply Forall_forall. intros x Hx. apply in_map_iff in Hx. destruct Hx as [y [<- _]]. discriminate.
Qed.

(* ================================================================== midi_to_chroma *)
Theorem midi_to_chroma_tie : forall fs : list (list Multipitch.mv),
  runx gen_mp_midi_to_chroma [v_mframes fs] = OK (v_mframes (Multipitch.midi_to_chroma fs)).
Proof.
  intros. unfold runx, run_fun. cbn.
  rewrite (mapM_ok _ (fun el => match el with VArrM l => VArrM (map (option_map (fun x => qmod x 12)) l) | _ => VNone end)).
  2:{ intros x Hx. apply in_map_iff in Hx. destruct Hx as [y [<- _]]. reflexivity. }
  cbn. unfold v_mframes, Multipitch.midi_to_chroma. rewrite !map_map. reflexivity.
Qed.

(* ================================================================== frequencies_to_midi *)
(* the map the code applies to every frequency, np.log2 being [flog2] *)
Definition hz2midi_of (ref f : Q) : Q := (69#1) + (12#1) * flog2 (f / ref).
Definition no_zero (fs : list (list Q)) : Prop := Forall (Forall (fun f => ~ f == 0)) fs.
Lemma existsb_zero_div (l : list Q) (r : Q) : ~ r == 0 -> Forall (fun f => ~ f == 0) l ->
  existsb (fun x => qeqb x 0) (map (fun x => x / r) l) = false.
Proof.
  intros Hr H. induction H as [|a t Ha Ht IH]; [reflexivity|]. cbn [map existsb]. rewrite IH, orb_false_r.
  unfold qeqb. destruct (Qeq_bool (a / r) 0) eqn:E; [|reflexivity]. exfalso. apply Qeq_bool_iff in E.
  apply Ha. assert (X : a == a / r * r) by (field; exact Hr). rewrite X, E. ring.
Qed.

Lemma qltb_div_pos (f r : Q) : 0 < r -> qltb (f / r) 0 = qltb f 0.
Proof.
  intros Hr. unfold qltb. f_equal. destruct (Qle_bool 0 f) eqn:E.
  - apply Qle_bool_iff. apply Qle_bool_iff in E. apply Qle_shift_div_l; [exact Hr|]. lra.
  - destruct (Qle_bool 0 (f / r)) eqn:E2; [|reflexivity]. apply Qle_bool_iff in E2.
    assert (X : f == f / r * r) by (field; lra). assert (0 <= f / r * r) by (apply Qmult_le_0_compat; lra).
    assert (Y : Qle_bool 0 f = true) by (apply Qle_bool_iff; lra). congruence.
Qed.
Theorem frequencies_to_midi_tie : forall (fs : list (list Q)) (ref : Q), 0 < ref -> no_zero fs ->
  runx gen_mp_frequencies_to_midi [v_frames fs; VFlt ref] = OK (v_mframes (Multipitch.frequencies_to_midi (hz2midi_of ref) fs)).
Proof.
  intros fs ref Hr Hz. unfold runx, run_fun. cbn.
  rewrite (mapM_ok _ (fun el => match el with VArrQ l => VArrM (map (Multipitch.to_midi (hz2midi_of ref)) l) | _ => VNone end)).
  2:{ intros x Hx. apply in_map_iff in Hx. destruct Hx as [y [<- Hy]]. cbn.
      assert (Hq : qeqb ref 0 = false).
      { unfold qeqb. destruct (Qeq_bool ref 0) eqn:E; [|reflexivity]. apply Qeq_bool_iff in E. lra. }
      rewrite Hq. cbn. unfold no_zero in Hz. rewrite Forall_forall in Hz. specialize (Hz y Hy).
      rewrite existsb_zero_div by (try exact Hz; lra). cbn. rewrite !map_map. do 2 f_equal.
      apply map_ext. intros f. unfold lg, Multipitch.to_midi, hz2midi_of. rewrite qltb_div_pos by exact Hr.
      destruct (qltb f 0); reflexivity. }
  cbn. unfold v_mframes, Multipitch.frequencies_to_midi. rewrite !map_map. reflexivity.
Qed.
End Ties.

(* ================================================================== the callees, given by the model *)
Fixpoint frames_of_l (l : list fv) : option (list (list Q)) :=
  match l with [] => Some [] | VArrQ a :: t => option_map (cons a) (frames_of_l t) | _ => None end.
Definition frames_of (v : fv) : option (list (list Q)) := match v with VList l => frames_of_l l | _ => None end.
Fixpoint mframes_of_l (l : list fv) : option (list (list Multipitch.mv)) :=
  match l with [] => Some [] | VArrM a :: t => option_map (cons a) (mframes_of_l t) | _ => None end.
Definition mframes_of (v : fv) : option (list (list Multipitch.mv)) := match v with VList l => mframes_of_l l | _ => None end.
Lemma frames_of_v fs : frames_of (v_frames fs) = Some fs.
Proof. unfold frames_of, v_frames. induction fs as [|a t IH]; [reflexivity|]. cbn [map frames_of_l]. rewrite IH. reflexivity. Qed.
Lemma mframes_of_v fs : mframes_of (v_mframes fs) = Some fs.
Proof. unfold mframes_of, v_mframes. induction fs as [|a t IH]; [reflexivity|]. cbn [map mframes_of_l]. rewrite IH. reflexivity. Qed.

Definition lift_unit (r : res unit) : out fv := match r with Ok _ => OK VNone | Raise e => EXN e end.
Definition cnt (l : list nat) : list Q := map (fun n => inject_Z (Z.of_nat n)) l.
Definition lift_counts (r : res (list nat)) : out fv := match r with Ok l => OK (VArrQ (cnt l)) | Raise e => EXN e end.
(* util.match_events(ref, est, window, distance) on one frame; fuel exhaustion (never happens: bipartite_match_total)
   is the model's OtherExn *)
Definition frame_matching (chroma : bool) (w : Q) (r e : list Multipitch.mv) : option (list (nat * nat)) :=
  if chroma then match_hits (Multipitch.hits_by_distance_x (outer_distance_mod_n 12) r e w)
  else match_hits (Multipitch.fast_hit_windows_x r e w).
Definition lift_matching (o : option (list (nat * nat))) : out fv :=
  match o with Some m => OK (VMatching m) | None => EXN OtherExn end.
Definition any_zero (fs : list (list Q)) : bool := existsb (existsb (fun f => qeqb f 0)) fs.

Section Ext.
Variable flog2 : Q -> Q.
Local Open Scope string_scope.
Definition mp_ext (f : string) (vs : list fv) : out fv :=
  if f =? "util.match_events" then
    match vs with
    | [VArrM r; VArrM e; VFlt w; d] =>
        match d with
        | VNone => lift_matching (frame_matching false w r e)
        | VFun g => if g =? "util._outer_distance_mod_n" then lift_matching (frame_matching true w r e) else UNM
        | _ => UNM end
    | _ => UNM end
  else if f =? "multipitch.validate" then
    match vs with
    | [VArrQ rt; rf; VArrQ et; ef] =>
        match frames_of rf, frames_of ef with
        | Some rfs, Some efs => lift_unit (Multipitch.validate rt rfs et efs)
        | _, _ => UNM end
    | _ => UNM end
  else if f =? "multipitch.resample_multipitch" then
    match vs with
    | [VArrQ t; fr; VArrQ tg] =>
        match frames_of fr with
        | Some fs => if Multipitch.nondecreasing t then
                       match Multipitch.resample_multipitch t fs tg with Ok r => OK (v_frames r) | Raise e => EXN e end
                     else UNM
        | None => UNM end
    | _ => UNM end
  else if f =? "multipitch.frequencies_to_midi" then
    match vs with
    | [fr; VFlt ref] =>
        match frames_of fr with
        | Some fs => if qltb 0 ref && negb (any_zero fs)
                     then OK (v_mframes (Multipitch.frequencies_to_midi (hz2midi_of flog2 ref) fs)) else UNM
        | None => UNM end
    | _ => UNM end
  else if f =? "multipitch.midi_to_chroma" then
    match vs with
    | [fr] => match mframes_of fr with Some fs => OK (v_mframes (Multipitch.midi_to_chroma fs)) | None => UNM end
    | _ => UNM end
  else if f =? "multipitch.compute_num_freqs" then
    match vs with
    | [fr] => match mframes_of fr with Some fs => OK (counts_val (Multipitch.compute_num_freqs fs)) | None => UNM end
    | _ => UNM end
  else if f =? "multipitch.compute_num_true_positives" then
    match vs with
    | [r; e; VFlt w; VBool c] =>
        match mframes_of r, mframes_of e with
        | Some rs, Some es => lift_counts (Multipitch.compute_num_true_positives w c rs es)
        | _, _ => UNM end
    | _ => UNM end
  else UNM.
Local Close Scope string_scope.
Definition run (f : fdef) (args : list fv) : out fv := run_fun frame_sigs mp_ext flog2 f args.

(* ================================================================== compute_num_true_positives *)
Local Open Scope string_scope.
Definition tp_env (R E : fv) (w : Q) (c : bool) (n : fv) (A : list Q) (vi vr ve vm : fv) : env :=
  [("ref_freqs", R); ("est_freqs", E); ("window", VFlt w); ("chroma", VBool c); ("n_frames", n);
   ("true_positives", VArrQ A); ("i", vi); ("ref_frame", vr); ("est_frame", ve); ("matching", vm)].
Local Close Scope string_scope.
Definition ret_tp (r : sres) : out fv :=
  match r with
  | SNorm en => match lookup "true_positives" en with Some v => OK v | None => UNM end
  | SExn e => EXN e
  | _ => UNM
  end.
Definition tp_step_spec (step : fv -> env -> sres) : Prop :=
  forall R E w c n A vi vr ve vm i r e,
    step (VTup [VInt i; VTup [VArrM r; VArrM e]]) (tp_env R E w c n A vi vr ve vm) =
    match frame_matching c w r e with
    | None => SExn OtherExn
    | Some m => match norm_idx i (length A) with
                | Some k => SNorm (tp_env R E w c n (set_nth A k (inject_Z (Z.of_nat (length m)))) (VInt i) (VArrM r) (VArrM e) (VMatching m))
                | None => SExn IndexError
                end
    end.
Lemma norm_idx_nat k n : (k < n)%nat -> norm_idx (Z.of_nat k) n = Some k.
Proof.
  intros H. destruct k as [|k]; cbn [Z.of_nat norm_idx].
  - destruct n; [lia|reflexivity].
  - rewrite SuccNat2Pos.id_succ. destruct (Nat.ltb_spec (S k) n); [reflexivity|lia].
Qed.
Lemma set_nth_app {A} (pre : list A) x t v : set_nth (pre ++ x :: t) (length pre) v = pre ++ v :: t.
Proof. induction pre as [|a p IH]; [reflexivity|]. cbn [app length set_nth]. rewrite IH. reflexivity. Qed.
Lemma tp_loop : forall step, tp_step_spec step ->
  forall R E w c n ref est pre vi vr ve vm,
  ret_tp (for_loop step (enum_from (Z.of_nat (length pre)) (zip2 (map VArrM ref) (map VArrM est)))
                   (tp_env R E w c n (cnt pre ++ repeat 0 (length ref)) vi vr ve vm))
  = match Multipitch.compute_num_true_positives w c ref est with
    | Ok l => OK (VArrQ (cnt pre ++ cnt l))
    | Raise e => EXN e
    end.
Proof.
  intros step Hs R E w c n ref. induction ref as [|r ref IH]; intros est pre vi vr ve vm.
  - cbn. reflexivity.
  - destruct est as [|e est].
    + cbn [map zip2 enum_from for_loop ret_tp Multipitch.compute_num_true_positives]. cbn [tp_env lookup String.eqb Ascii.eqb Bool.eqb].
      do 3 f_equal. change (0%nat :: map (fun _ : list Multipitch.mv => 0%nat) ref) with (map (fun _ : list Multipitch.mv => 0%nat) (r :: ref)).
      generalize (r :: ref). intros l. unfold cnt. rewrite map_map. cbn [Z.of_nat inject_Z].
      induction l as [|a l IHl]; [reflexivity|]. cbn [length repeat map]. rewrite IHl. reflexivity.
    + cbn [map zip2 enum_from for_loop Multipitch.compute_num_true_positives]. rewrite Hs.
      unfold Multipitch.tp_frame. change (if c then _ else _) with (frame_matching c w r e).
      destruct (frame_matching c w r e) as [m|]; [|reflexivity]. cbn [option_map].
      rewrite app_length, repeat_length. unfold cnt at 1. rewrite map_length.
      rewrite norm_idx_nat by (cbn [length]; lia).
      cbn [length repeat]. replace (length pre) with (length (cnt pre)) at 2 by (unfold cnt; apply map_length).
      rewrite set_nth_app.
      replace (Z.of_nat (length pre) + 1)%Z with (Z.of_nat (length (pre ++ [length m]))) by (rewrite app_length; cbn [length]; lia).
      replace (cnt pre ++ inject_Z (Z.of_nat (length m)) :: repeat 0 (length ref)) with (cnt (pre ++ [length m]) ++ repeat 0 (length ref))
        by (unfold cnt; rewrite map_app, <- app_assoc; reflexivity).
      rewrite IH. destruct (Multipitch.compute_num_true_positives w c ref est) as [l|x]; cbn [bind]; [|reflexivity].
      unfold cnt. rewrite map_app, <- app_assoc. reflexivity.
Qed.

Lemma leb_0_nat n : (0 <=? Z.of_nat n)%Z = true.
Proof. apply Z.leb_le. lia. Qed.
Local Arguments for_loop : simpl never.
Local Arguments for_step : simpl never.
Local Arguments run_block : simpl never.
Local Arguments frame_sigs : simpl never.

Theorem compute_num_true_positives_tie : forall (w : Q) (chroma : bool) (ref est : list (list Multipitch.mv)),
  run gen_mp_compute_num_true_positives [v_mframes ref; v_mframes est; VFlt w; VBool chroma]
  = lift_counts (Multipitch.compute_num_true_positives w chroma ref est).
Proof.
  intros. unfold run, run_fun, exec_block, v_mframes. cbn. rb. cbn. rb. cbn.
  rewrite map_length, leb_0_nat, Nat2Z.id. cbn. rb. cbn.
  match goal with |- context [for_loop ?S ?L ?E] => assert (Hs : tp_step_spec S) end.
  { intros R E w0 c n A vi vr ve vm i r e. unfold for_step. cbn. rb. cbn. unfold call_ext. sigs. cbn.
    destruct c; cbn; rb; cbn; unfold call_ext; sigs; cbn;
      (match goal with |- context [lift_matching ?X] => destruct X as [m|] end; cbn; [|reflexivity]); go;
      (destruct (norm_idx i (length A)); go; reflexivity). }
  match goal with |- context [for_loop ?S ?l ?E] => remember (for_loop S l E) as FL eqn:EFL end.
  assert (L : ret_tp FL = match Multipitch.compute_num_true_positives w chroma ref est with Ok l => OK (VArrQ (cnt l)) | Raise e => EXN e end).
  { subst FL. exact (tp_loop _ Hs (VList (map VArrM ref)) (VList (map VArrM est)) w chroma (VInt (Z.of_nat (length ref))) ref est []
                      VUnbound VUnbound VUnbound VUnbound). }
  clear EFL Hs.
  destruct FL as [en'|v|x|]; cbn [ret_tp] in L.
  - rb. cbn. revert L. destruct (lookup "true_positives" en') as [v|]; intros L;
      [|destruct (Multipitch.compute_num_true_positives w chroma ref est); discriminate].
    destruct (Multipitch.compute_num_true_positives w chroma ref est); inversion L; subst; reflexivity.
  - destruct (Multipitch.compute_num_true_positives w chroma ref est); discriminate.
  - rewrite L. destruct (Multipitch.compute_num_true_positives w chroma ref est); reflexivity.
  - destruct (Multipitch.compute_num_true_positives w chroma ref est); discriminate.
Qed.
End Ext.

(* ================================================================== resample_multipitch *)
Lemma nondecreasing_eq l : FrameExp.nondecreasing l = Multipitch.nondecreasing l.
Proof. induction l as [|a t IH]; [reflexivity|]. destruct t as [|b t]; [reflexivity|]. cbn [FrameExp.nondecreasing Multipitch.nondecreasing] in *. rewrite IH. reflexivity. Qed.
Lemma midpoints_eq l : FrameExp.midpoints l = Multipitch.midpoints l.
Proof. induction l as [|a t IH]; [reflexivity|]. destruct t as [|b t]; [reflexivity|]. cbn [FrameExp.midpoints Multipitch.midpoints] in *. rewrite IH. reflexivity. Qed.
Lemma qtrunc_nat n : qtrunc (inject_Z (Z.of_nat n)) = Z.of_nat n.
Proof.
  unfold qtrunc. assert (H : qltb (inject_Z (Z.of_nat n)) 0 = false).
  { unfold qltb. apply negb_false_iff. apply Qle_bool_iff. change 0 with (inject_Z 0). rewrite <- Zle_Qle. lia. }
  rewrite H. apply Qfloor_Z.
Qed.
Lemma zrange_length n : length (zrange 0 (Z.of_nat n)) = n.
Proof. unfold zrange. rewrite map_length, seq_length. lia. Qed.
Lemma nth_zrange k n d : (k < n)%nat -> nth k (map inject_Z (zrange 0 (Z.of_nat n))) d = inject_Z (Z.of_nat k).
Proof.
  intros H. unfold zrange. rewrite map_map. rewrite Z.sub_0_r, Nat2Z.id.
  rewrite (nth_indep _ d (inject_Z (0 + Z.of_nat 0))) by (rewrite map_length, seq_length; exact H).
  rewrite (map_nth (fun i => inject_Z (0 + Z.of_nat i)) (seq 0 n) 0%nat k). rewrite seq_nth by exact H. reflexivity.
Qed.
(* the index the interpolator returns, converted by astype(int), is the model's nearest_index *)
Lemma nearest_sample_index times n t : length times = n -> times <> [] ->
  qtrunc (nearest_sample times (map inject_Z (zrange 0 (Z.of_nat n))) (inject_Z (Z.of_nat n)) t)
  = Z.of_nat (Multipitch.nearest_index times n t).
Proof.
  intros Hn Hne. unfold nearest_sample, Multipitch.nearest_index. destruct times as [|t0 tl]; [congruence|].
  destruct (qltb t t0 || qltb (last (t0 :: tl) t0) t); [apply qtrunc_nat|].
  rewrite midpoints_eq. rewrite nth_zrange by (rewrite <- Hn; cbn [length]; lia). apply qtrunc_nat.
Qed.
Lemma nearest_index_le times n t : length times = n -> (Multipitch.nearest_index times n t <= n)%nat.
Proof.
  intros Hn. unfold Multipitch.nearest_index. destruct times as [|t0 tl]; [lia|].
  destruct (qltb t t0 || qltb (last (t0 :: tl) t0) t); [lia|]. rewrite <- Hn. cbn [length]. lia.
Qed.
Lemma nth_error_frames (fs : list (list Q)) k : (k <= length fs)%nat ->
  nth_error (map VArrQ fs ++ [VArrQ []]) k = Some (VArrQ (nth k (fs ++ [[]]) [])).
Proof.
  revert k. induction fs as [|a t IH]; intros k H.
  - cbn [length] in H. assert (k = 0%nat) by lia. subst. reflexivity.
  - destruct k as [|k]; [reflexivity|]. cbn [map app nth_error nth]. apply IH. cbn [length] in H. lia.
Qed.
Lemma concat_repeat_1 {A} (x : A) n : concat (repeat [x] n) = repeat x n.
Proof. induction n as [|n IH]; [reflexivity|]. cbn [repeat concat app]. rewrite IH. reflexivity. Qed.
Lemma map_const_repeat {A B} (c : B) (l : list A) : map (fun _ => c) l = repeat c (length l).
Proof. induction l as [|a t IH]; [reflexivity|]. cbn [map length repeat]. rewrite IH. reflexivity. Qed.

Lemma map_repeat' {A B} (f : A -> B) x n : map f (repeat x n) = repeat (f x) n.
Proof. induction n as [|n IH]; [reflexivity|]. cbn [repeat map]. rewrite IH. reflexivity. Qed.
Section R.
Variable ext : string -> list fv -> out fv.
Variable flog2 : Q -> Q.
Local Arguments for_loop : simpl never.
Local Arguments for_step : simpl never.
Local Arguments run_block : simpl never.
Local Arguments frame_sigs : simpl never.
Local Arguments nearest_sample : simpl never.
Local Arguments zrange : simpl never.
Local Arguments qtrunc : simpl never.

Theorem resample_multipitch_tie : forall (times : list Q) (fs : list (list Q)) (targets : list Q),
  Multipitch.nondecreasing times = true ->
  runx ext flog2 gen_mp_resample_multipitch [VArrQ times; v_frames fs; VArrQ targets]
  = match Multipitch.resample_multipitch times fs targets with Ok r => OK (v_frames r) | Raise e => EXN e end.
Proof.
  intros times fs targets Hnd.
  remember (Multipitch.resample_multipitch times fs targets) as M eqn:EM.
  unfold runx, run_fun, exec_block, v_frames. cbn. rb. cbn.
  destruct targets as [|g0 gs]; [subst M; reflexivity|].
  cbn [length Z.of_nat Z.eqb]. rb. cbn. rb. cbn.
  destruct times as [|t0 ts].
  { subst M. cbn. rb. cbn. rewrite SuccNat2Pos.id_succ. cbn [repeat concat app]. rewrite concat_repeat_1.
    unfold v_frames. cbn [map]. rewrite (map_const_repeat (@nil Q)), map_repeat'. reflexivity. }
  cbn [length Z.of_nat Z.eqb]. rb. cbn. rb. cbn. rb. cbn.
  unfold Multipitch.resample_multipitch in EM.
  remember (t0 :: ts) as T eqn:ET. remember (g0 :: gs) as G eqn:EG.
  assert (HT : T <> []) by (subst T; discriminate).
  rewrite map_length. rewrite run_block_cons. cbn.
  rewrite map_length, zrange_length.
  destruct (Nat.eqb (length T) (length fs)) eqn:EL; cbn [negb] in EM |- *; [|subst M; reflexivity].
  apply Nat.eqb_eq in EL.
  destruct T as [|t0' ts']; [congruence|]. rewrite <- nondecreasing_eq in Hnd. rewrite Hnd.
  remember (t0' :: ts') as T' eqn:ET'. cbn. rb. cbn. rb. cbn.
  rewrite (mapM_ok _ (fun v => match v with VInt z => VArrQ (nth (Z.to_nat z) (fs ++ [[]]) []) | _ => VNone end)).
  2:{ intros x Hx. rewrite !map_map in Hx. apply in_map_iff in Hx. destruct Hx as [t [<- _]].
      rewrite nearest_sample_index by (try exact EL; subst T'; discriminate). cbn.
      pose proof (nearest_index_le T' (length fs) t EL) as Hle.
      rewrite app_length, map_length. cbn [length].
      rewrite norm_idx_nat by lia. rewrite nth_error_frames by exact Hle. cbn. rewrite Nat2Z.id. reflexivity. }
  cbn. rb. cbn. subst M. cbn. f_equal. f_equal. rewrite !map_map. apply map_ext. intros t.
  rewrite nearest_sample_index by (try exact EL; subst T'; discriminate). rewrite Nat2Z.id. reflexivity.
Qed.
End R.

Print Assumptions frame_sigs_expected.
Print Assumptions compute_num_freqs_tie.
Print Assumptions midi_to_chroma_tie.
Print Assumptions frequencies_to_midi_tie.
Print Assumptions compute_num_true_positives_tie.
Print Assumptions resample_multipitch_tie.
