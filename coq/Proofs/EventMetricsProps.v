(* Properties of the hit-based event metrics (Model.EventMetrics): range, ref/est swap, window monotonicity,
   perfect estimate, time-shift and order invariance; segment.deviation.
   All statements about hit counts are "whenever the model returns Some" (partial correctness w.r.t. the fuel of
   the Hopcroft-Karp transcription) and go through `max_size` (Proofs.MaxMatching). *)
From Coq Require Import List Bool Arith ZArith QArith Qabs Qminmax Lia Lqa Permutation Sorted.
From ME Require Import Model.Prelude Model.Dict Model.Matching Model.Events Model.EventMetrics.
From ME Require Import Proofs.HKRecurse Proofs.HKLayering Proofs.HKCorrect Proofs.MaxMatching Proofs.EventsSpec.
Import ListNotations.
Open Scope Q_scope.

(* ------------------------------------------------------------------------------------------ *)
(* the hit count                                                                               *)
(* ------------------------------------------------------------------------------------------ *)
Theorem nhits_max_size ref est w h : nhits ref est w = Some h -> max_size (hitrel ref est w) h.
Proof. unfold nhits. destruct (match_events ref est w) as [m|] eqn:E; [|discriminate]. simpl.
  intros H; inversion H; subst. now apply match_events_size_max_size. Qed.

Theorem hits_le_min ref est w h : nhits ref est w = Some h -> (h <= Nat.min (length ref) (length est))%nat.
Proof. intros H. apply nhits_max_size in H. rewrite Nat.min_comm. eapply max_size_le_min; [|exact H].
  intros u v Hh. apply hit_in_range in Hh. tauto. Qed.

Lemma hit_sym ref est w i j : hit ref est w i j <-> hit est ref w j i.
Proof. unfold hit. split; intros (a & b & Ha & Hb & Hab); exists b, a; repeat split; auto; now rewrite Qabs_Qminus. Qed.
Lemma hit_mono ref est w1 w2 i j : w1 <= w2 -> hit ref est w1 i j -> hit ref est w2 i j.
Proof. intros Hw (r & e & Hr & He & Hab). exists r, e. repeat split; auto. lra. Qed.

(* match size ref est w = match size est ref w *)
Theorem nhits_swap ref est w h1 h2 : nhits ref est w = Some h1 -> nhits est ref w = Some h2 -> h1 = h2.
Proof. intros H1 H2. apply nhits_max_size in H1. apply nhits_max_size in H2.
  apply max_size_transpose in H1. eapply max_size_unique; [exact H1|].
  eapply max_size_ext; [|exact H2]. intros u v. unfold hitrel. apply hit_sym. Qed.

Theorem nhits_window_mono ref est w1 w2 h1 h2 : w1 <= w2 ->
  nhits ref est w1 = Some h1 -> nhits ref est w2 = Some h2 -> (h1 <= h2)%nat.
Proof. intros Hw H1 H2. apply nhits_max_size in H1. apply nhits_max_size in H2.
  eapply max_size_mono; [|exact H1|exact H2]. intros u v. unfold hitrel. now apply hit_mono. Qed.

(* est = ref: the diagonal is feasible (also with duplicate values) *)
Theorem nhits_self ref w h : 0 <= w -> nhits ref ref w = Some h -> h = length ref.
Proof. intros Hw H. apply nhits_max_size in H. eapply max_size_unique; [exact H|].
  apply max_size_diag.
  - intros u v Hh. apply hit_in_range in Hh. tauto.
  - intros i Hi. unfold hitrel, hit. destruct (nth_error ref i) as [r|] eqn:E.
    + exists r, r. repeat split; auto. assert (E0 : r - r == 0) by ring. rewrite E0. exact Hw.
    + apply nth_error_None in E. lia. Qed.

Definition shift (s : Q) (l : list Q) : list Q := map (fun x => x + s) l.
Lemma hit_shift s ref est w i j : hit (shift s ref) (shift s est) w i j <-> hit ref est w i j.
Proof. unfold hit, shift. split.
  - intros (r' & e' & Hr & He & Hab). rewrite nth_error_map in Hr, He.
    destruct (nth_error ref i) as [r|]; [|discriminate]. destruct (nth_error est j) as [e|]; [|discriminate].
    simpl in Hr, He. inversion Hr; inversion He; subst. exists r, e. repeat split; auto.
    assert (E0 : r + s - (e + s) == r - e) by ring. rewrite E0 in Hab. exact Hab.
  - intros (r & e & Hr & He & Hab). exists (r + s), (e + s). rewrite !nth_error_map, Hr, He. repeat split; auto.
    assert (E0 : r + s - (e + s) == r - e) by ring. rewrite E0. exact Hab. Qed.
Theorem nhits_shift s ref est w h1 h2 : nhits (shift s ref) (shift s est) w = Some h1 -> nhits ref est w = Some h2 -> h1 = h2.
Proof. intros H1 H2. apply nhits_max_size in H1. apply nhits_max_size in H2.
  eapply max_size_unique; [exact H1|]. eapply max_size_ext; [|exact H2].
  intros u v. unfold hitrel. symmetry. apply hit_shift. Qed.

(* order independence: re-indexing reference and estimate by bijections of the indices *)
Theorem hits_reindex_invariant ref est ref' est' w (f f' g g' : nat -> nat) h h' :
  (forall a, f' (f a) = a) -> (forall b, f (f' b) = b) -> (forall a, g' (g a) = a) -> (forall b, g (g' b) = b) ->
  (forall i, nth_error ref' (f i) = nth_error ref i) -> (forall j, nth_error est' (g j) = nth_error est j) ->
  nhits ref est w = Some h -> nhits ref' est' w = Some h' -> h = h'.
Proof. intros F1 F2 G1 G2 Hf Hg H H'. apply nhits_max_size in H. apply nhits_max_size in H'.
  eapply max_size_unique; [|exact H'].
  apply (max_size_iso (hitrel ref est w) (hitrel ref' est' w) g g' f f' h G1 G2 F1 F2); [|exact H].
  intros u v. unfold hitrel, hit. rewrite Hf, Hg. reflexivity. Qed.
Open Scope nat_scope.
Lemma perm_bij {A} (l l' : list A) : Permutation l l' ->
  exists f f' : nat -> nat, (forall a, f' (f a) = a) /\ (forall b, f (f' b) = b) /\ forall i, nth_error l' (f i) = nth_error l i.
Proof. induction 1 as [|x l l' P IH|x y l|l l' l'' P1 IH1 P2 IH2].
  - exists (fun i => i), (fun i => i). auto.
  - destruct IH as (f & f' & F1 & F2 & Hf).
    exists (fun i => match i with 0 => 0 | S k => S (f k) end), (fun i => match i with 0 => 0 | S k => S (f' k) end).
    repeat split.
    + intros [|a]; [reflexivity|]. now rewrite F1.
    + intros [|b]; [reflexivity|]. now rewrite F2.
    + intros [|i]; [reflexivity|]. simpl. apply Hf.
  - exists (fun i => match i with 0 => 1 | 1 => 0 | _ => i end), (fun i => match i with 0 => 1 | 1 => 0 | _ => i end).
    repeat split.
    + intros [|[|a]]; reflexivity.
    + intros [|[|a]]; reflexivity.
    + intros [|[|i]]; reflexivity.
  - destruct IH1 as (f1 & f1' & A1 & A2 & Hf1). destruct IH2 as (f2 & f2' & B1 & B2 & Hf2).
    exists (fun i => f2 (f1 i)), (fun i => f1' (f2' i)). repeat split.
    + intros a. now rewrite B1, A1.
    + intros b. now rewrite A2, B2.
    + intros i. now rewrite Hf2, Hf1. Qed.
Open Scope Q_scope.
Theorem hits_perm_invariant ref est ref' est' w h h' : Permutation ref ref' -> Permutation est est' ->
  nhits ref est w = Some h -> nhits ref' est' w = Some h' -> h = h'.
Proof. intros Pr Pe. destruct (perm_bij _ _ Pr) as (f & f' & F1 & F2 & Hf). destruct (perm_bij _ _ Pe) as (g & g' & G1 & G2 & Hg).
  now apply (hits_reindex_invariant ref est ref' est' w f f' g g'). Qed.
Example hits_perm_invariant_ex : nhits [1; 2; 5] [(3#2); 5] (1#2) = Some 2%nat /\ nhits [5; 1; 2] [5; (3#2)] (1#2) = Some 2%nat.
Proof. split; vm_compute; reflexivity. Qed.

(* ------------------------------------------------------------------------------------------ *)
(* precision / recall / F from a hit count                                                     *)
(* ------------------------------------------------------------------------------------------ *)
Lemma qnat_nonneg n : 0 <= qnat n.
Proof. unfold qnat. change 0 with (inject_Z 0). rewrite <- Zle_Qle. lia. Qed.
Lemma qnat_pos n : (0 < n)%nat -> 0 < qnat n.
Proof. intros H. unfold qnat. change 0 with (inject_Z 0). rewrite <- Zlt_Qlt. lia. Qed.
Lemma qnat_le a b : (a <= b)%nat -> qnat a <= qnat b.
Proof. intros H. unfold qnat. rewrite <- Zle_Qle. lia. Qed.
Lemma ratio_range h n : (h <= n)%nat -> (0 < n)%nat -> 0 <= qnat h / qnat n <= 1.
Proof. intros H Hn. assert (P := qnat_pos n Hn). assert (N := qnat_nonneg h). assert (L := qnat_le h n H). split.
  - apply Qle_shift_div_l; [exact P|]. lra.
  - apply Qle_shift_div_r; [exact P|]. lra. Qed.
Lemma ratio_mono h1 h2 n : (h1 <= h2)%nat -> (0 < n)%nat -> qnat h1 / qnat n <= qnat h2 / qnat n.
Proof. intros H Hn. assert (P := qnat_pos n Hn). assert (L := qnat_le h1 h2 H).
  apply Qdiv_le_cross; auto. apply Qmult_le_compat_r; [exact L|lra]. Qed.
Lemma ratio_one n : (0 < n)%nat -> qnat n / qnat n == 1.
Proof. intros Hn. assert (P := qnat_pos n Hn). field. lra. Qed.
Lemma f_measure_ones p r beta : p == 1 -> r == 1 -> f_measure p r beta == 1.
Proof. intros Hp Hr. rewrite f_measure_pos_p by lra. rewrite Hp, Hr. field. nra. Qed.
Lemma nonempty_length {A} (l : list A) : is_empty l = false -> (0 < length l)%nat.
Proof. destruct l; simpl; [discriminate|lia]. Qed.

(* the common core of the three P/R/F metrics *)
Definition prf_opt (ref est : list Q) (w beta : Q) : option (Q * Q * Q) :=
  if is_empty ref || is_empty est then Some (0, 0, 0)
  else option_map (fun h => prf h (length ref) (length est) beta) (nhits ref est w).
Lemma beat_f_measure_prf ref est w : beat_f_measure ref est w = option_map snd (prf_opt ref est w 1).
Proof. unfold beat_f_measure, prf_opt. rewrite orb_comm. destruct (is_empty ref || is_empty est); [reflexivity|].
  destruct (nhits ref est w); reflexivity. Qed.
Lemma onset_f_measure_prf ref est w :
  onset_f_measure ref est w = option_map (fun t => let '(p, r, f) := t in (f, p, r)) (prf_opt ref est w 1).
Proof. unfold onset_f_measure, prf_opt. destruct (is_empty ref || is_empty est); [reflexivity|].
  destruct (nhits ref est w); reflexivity. Qed.
Lemma detection_b_prf rb eb w beta trim : detection_b rb eb w beta trim = prf_opt (trimmed trim rb) (trimmed trim eb) w beta.
Proof. reflexivity. Qed.

Lemma prf_opt_inv ref est w beta p r f : prf_opt ref est w beta = Some (p, r, f) ->
  ((ref = [] \/ est = []) /\ p = 0 /\ r = 0 /\ f = 0) \/
  exists h, (0 < length ref)%nat /\ (0 < length est)%nat /\ nhits ref est w = Some h /\
            p = qnat h / qnat (length est) /\ r = qnat h / qnat (length ref) /\ f = f_measure p r beta.
Proof. unfold prf_opt. destruct (is_empty ref) eqn:Er; simpl.
  - intros H; inversion H; subst. left. destruct ref; [|discriminate]. auto.
  - destruct (is_empty est) eqn:Ee; simpl.
    + intros H; inversion H; subst. left. destruct est; [|discriminate]. auto.
    + destruct (nhits ref est w) as [h|] eqn:Eh; [|discriminate]. simpl. unfold prf. intros H; inversion H; subst.
      right. exists h. repeat split; auto using nonempty_length. Qed.

Theorem prf_opt_range ref est w beta p r f : 0 < beta -> prf_opt ref est w beta = Some (p, r, f) ->
  0 <= p <= 1 /\ 0 <= r <= 1 /\ 0 <= f <= 1.
Proof. intros Hb H. apply prf_opt_inv in H. destruct H as [(_ & -> & -> & ->)|(h & Lr & Le & Hh & Hp & Hr & Hf)]; [lra|].
  apply hits_le_min in Hh.
  assert (Rp : 0 <= p <= 1) by (subst p; apply ratio_range; lia).
  assert (Rr : 0 <= r <= 1) by (subst r; apply ratio_range; lia).
  split; [exact Rp|]. split; [exact Rr|]. subst f. now apply f_measure_range. Qed.

(* swapping reference and estimate exchanges precision and recall; F is unchanged at beta = 1 *)
Theorem prf_opt_swap ref est w beta p r f p' r' f' :
  prf_opt ref est w beta = Some (p, r, f) -> prf_opt est ref w beta = Some (p', r', f') -> p' = r /\ r' = p.
Proof. intros H H'. apply prf_opt_inv in H. apply prf_opt_inv in H'.
  destruct H as [(E & -> & -> & ->)|(h & Lr & Le & Hh & Hp & Hr & Hf)];
  destruct H' as [(E' & -> & -> & ->)|(h' & Lr' & Le' & Hh' & Hp' & Hr' & Hf')]; auto.
  - exfalso. destruct E as [->| ->]; simpl in *; lia.
  - exfalso. destruct E' as [->| ->]; simpl in *; lia.
  - assert (h = h') by exact (nhits_swap ref est w h h' Hh Hh'). subst h'. subst. auto. Qed.
Theorem prf_opt_swap_f ref est w p r f p' r' f' :
  prf_opt ref est w 1 = Some (p, r, f) -> prf_opt est ref w 1 = Some (p', r', f') -> f' == f.
Proof. intros H H'. destruct (prf_opt_swap _ _ _ _ _ _ _ _ _ _ H H') as [A B].
  apply prf_opt_inv in H. apply prf_opt_inv in H'.
  destruct H as [(E & Hp & Hr & Hf)|(h & _ & _ & _ & Hp & Hr & Hf)];
  destruct H' as [(E' & Hp' & Hr' & Hf')|(h' & _ & _ & _ & Hp' & Hr' & Hf')].
  - subst f f'. reflexivity.
  - rewrite Hf', Hf. apply f_measure_p0. rewrite A, Hr. reflexivity.
  - rewrite Hf', Hf. symmetry. apply f_measure_r0. rewrite <- A, Hp'. reflexivity.
  - rewrite Hf', Hf, A, B. apply f_measure_sym. Qed.

Theorem prf_opt_window_mono ref est w1 w2 beta p1 r1 f1 p2 r2 f2 : 0 < beta -> w1 <= w2 ->
  prf_opt ref est w1 beta = Some (p1, r1, f1) -> prf_opt ref est w2 beta = Some (p2, r2, f2) ->
  p1 <= p2 /\ r1 <= r2 /\ f1 <= f2.
Proof. intros Hb Hw H1 H2.
  destruct (prf_opt_range _ _ _ _ _ _ _ Hb H1) as (Rp1 & Rr1 & _). destruct (prf_opt_range _ _ _ _ _ _ _ Hb H2) as (Rp2 & Rr2 & _).
  apply prf_opt_inv in H1. apply prf_opt_inv in H2.
  destruct H1 as [(E & -> & -> & ->)|(h & Lr & Le & Hh & Hp & Hr & Hf)].
  - destruct H2 as [(E' & -> & -> & ->)|(h' & Lr' & Le' & Hh' & Hp' & Hr' & Hf')]; [lra|].
    exfalso. destruct E as [->| ->]; simpl in *; lia.
  - destruct H2 as [(E' & -> & -> & ->)|(h' & Lr' & Le' & Hh' & Hp' & Hr' & Hf')].
    + exfalso. destruct E' as [->| ->]; simpl in *; lia.
    + assert (Hle : (h <= h')%nat) by exact (nhits_window_mono ref est w1 w2 h h' Hw Hh Hh').
      assert (P : p1 <= p2) by (subst p1 p2; now apply ratio_mono).
      assert (R : r1 <= r2) by (subst r1 r2; now apply ratio_mono).
      split; [exact P|]. split; [exact R|]. subst f1 f2.
      apply Qle_trans with (f_measure p2 r1 beta).
      * apply f_measure_mono_p; tauto.
      * apply f_measure_mono_r; tauto. Qed.

Theorem prf_opt_self ref w beta p r f : 0 <= w -> ref <> [] -> prf_opt ref ref w beta = Some (p, r, f) ->
  p == 1 /\ r == 1 /\ f == 1.
Proof. intros Hw Hne H. apply prf_opt_inv in H. destruct H as [([E|E] & _)|(h & Lr & _ & Hh & Hp & Hr & Hf)]; try contradiction.
  apply nhits_self in Hh; [|exact Hw]. subst h.
  assert (P : p == 1) by (subst p; now apply ratio_one). assert (R : r == 1) by (subst r; now apply ratio_one).
  split; [exact P|]. split; [exact R|]. subst f. now apply f_measure_ones. Qed.

Lemma shift_length s l : length (shift s l) = length l.
Proof. apply map_length. Qed.
Lemma is_empty_shift s l : is_empty (shift s l) = is_empty l.
Proof. destruct l; reflexivity. Qed.
Theorem prf_opt_shift s ref est w beta t1 t2 :
  prf_opt (shift s ref) (shift s est) w beta = Some t1 -> prf_opt ref est w beta = Some t2 -> t1 = t2.
Proof. unfold prf_opt. rewrite !is_empty_shift, !shift_length. destruct (is_empty ref || is_empty est); [congruence|].
  destruct (nhits (shift s ref) (shift s est) w) as [h1|] eqn:E1; [|discriminate].
  destruct (nhits ref est w) as [h2|] eqn:E2; [|discriminate]. simpl.
  assert (h1 = h2) by exact (nhits_shift s ref est w h1 h2 E1 E2). congruence. Qed.

(* ------------------------------------------------------------------------------------------ *)
(* beat.f_measure                                                                              *)
(* ------------------------------------------------------------------------------------------ *)
Lemma beat_inv ref est w f : beat_f_measure ref est w = Some f -> exists p r, prf_opt ref est w 1 = Some (p, r, f).
Proof. rewrite beat_f_measure_prf. destruct (prf_opt ref est w 1) as [[[p r] f']|]; [|discriminate]. simpl.
  intros H; inversion H; subst. eauto. Qed.
Theorem beat_f_range ref est w f : beat_f_measure ref est w = Some f -> 0 <= f <= 1.
Proof. intros H. apply beat_inv in H. destruct H as (p & r & H). eapply prf_opt_range in H; [tauto|lra]. Qed.
Theorem beat_f_swap ref est w f f' : beat_f_measure ref est w = Some f -> beat_f_measure est ref w = Some f' -> f' == f.
Proof. intros H H'. apply beat_inv in H. apply beat_inv in H'. destruct H as (p & r & H). destruct H' as (p' & r' & H').
  exact (prf_opt_swap_f ref est w p r f p' r' f' H H'). Qed.
Theorem beat_f_window_mono ref est w1 w2 f1 f2 : w1 <= w2 ->
  beat_f_measure ref est w1 = Some f1 -> beat_f_measure ref est w2 = Some f2 -> f1 <= f2.
Proof. intros Hw H1 H2. apply beat_inv in H1. apply beat_inv in H2. destruct H1 as (p1 & r1 & H1). destruct H2 as (p2 & r2 & H2).
  assert (Hb : 0 < 1) by lra. destruct (prf_opt_window_mono _ _ _ _ _ _ _ _ _ _ _ Hb Hw H1 H2) as (_ & _ & H). exact H. Qed.
Theorem beat_f_self ref w f : 0 <= w -> ref <> [] -> beat_f_measure ref ref w = Some f -> f == 1.
Proof. intros Hw Hne H. apply beat_inv in H. destruct H as (p & r & H). eapply prf_opt_self in H; tauto. Qed.
Theorem beat_f_shift s ref est w f1 f2 :
  beat_f_measure (shift s ref) (shift s est) w = Some f1 -> beat_f_measure ref est w = Some f2 -> f1 = f2.
Proof. intros H1 H2. apply beat_inv in H1. apply beat_inv in H2. destruct H1 as (p1 & r1 & H1). destruct H2 as (p2 & r2 & H2).
  assert (E := prf_opt_shift _ _ _ _ _ _ _ H1 H2). congruence. Qed.
Theorem beat_f_empty ref est w : ref = [] \/ est = [] -> beat_f_measure ref est w = Some 0.
Proof. intros [->| ->]; unfold beat_f_measure; [now rewrite orb_true_r|reflexivity]. Qed.
Example beat_f_ex : option_map (Qeq_bool (2#3)) (beat_f_measure [1; 2; 3] [1; (207#100); 5] (7#100)) = Some true
                    /\ option_map (Qeq_bool 1) (beat_f_measure [1; 2; 3] [1; 2; 3] 0) = Some true.
Proof. split; vm_compute; reflexivity. Qed.

(* ------------------------------------------------------------------------------------------ *)
(* onset.f_measure : (F, P, R)                                                                 *)
(* ------------------------------------------------------------------------------------------ *)
Lemma onset_inv ref est w f p r : onset_f_measure ref est w = Some (f, p, r) -> prf_opt ref est w 1 = Some (p, r, f).
Proof. rewrite onset_f_measure_prf. destruct (prf_opt ref est w 1) as [[[p0 r0] f0]|]; [|discriminate]. simpl.
  intros H; inversion H; subst. reflexivity. Qed.
Theorem onset_prf_range ref est w f p r : onset_f_measure ref est w = Some (f, p, r) ->
  0 <= f <= 1 /\ 0 <= p <= 1 /\ 0 <= r <= 1.
Proof. intros H. apply onset_inv in H. eapply prf_opt_range in H; [tauto|lra]. Qed.
Theorem onset_prf_swap ref est w f p r f' p' r' :
  onset_f_measure ref est w = Some (f, p, r) -> onset_f_measure est ref w = Some (f', p', r') -> p' = r /\ r' = p /\ f' == f.
Proof. intros H H'. apply onset_inv in H. apply onset_inv in H'.
  destruct (prf_opt_swap _ _ _ _ _ _ _ _ _ _ H H') as [A B]. split; [exact A|]. split; [exact B|]. exact (prf_opt_swap_f ref est w p r f p' r' f' H H'). Qed.
Theorem onset_prf_window_mono ref est w1 w2 f1 p1 r1 f2 p2 r2 : w1 <= w2 ->
  onset_f_measure ref est w1 = Some (f1, p1, r1) -> onset_f_measure ref est w2 = Some (f2, p2, r2) ->
  f1 <= f2 /\ p1 <= p2 /\ r1 <= r2.
Proof. intros Hw H1 H2. apply onset_inv in H1. apply onset_inv in H2. assert (Hb : 0 < 1) by lra.
  destruct (prf_opt_window_mono _ _ _ _ _ _ _ _ _ _ _ Hb Hw H1 H2) as (A & B & C). auto. Qed.
Theorem onset_prf_self ref w f p r : 0 <= w -> ref <> [] -> onset_f_measure ref ref w = Some (f, p, r) ->
  f == 1 /\ p == 1 /\ r == 1.
Proof. intros Hw Hne H. apply onset_inv in H. eapply prf_opt_self in H; tauto. Qed.
Theorem onset_prf_shift s ref est w t1 t2 :
  onset_f_measure (shift s ref) (shift s est) w = Some t1 -> onset_f_measure ref est w = Some t2 -> t1 = t2.
Proof. destruct t1 as [[f1 p1] r1]. destruct t2 as [[f2 p2] r2]. intros H1 H2. apply onset_inv in H1. apply onset_inv in H2.
  assert (E := prf_opt_shift _ _ _ _ _ _ _ H1 H2). congruence. Qed.
Theorem onset_prf_empty ref est w : ref = [] \/ est = [] -> onset_f_measure ref est w = Some (0, 0, 0).
Proof. intros [->| ->]; unfold onset_f_measure; [reflexivity|now rewrite orb_true_r]. Qed.

(* ------------------------------------------------------------------------------------------ *)
(* segment.detection : (P, R, F)                                                               *)
(* ------------------------------------------------------------------------------------------ *)
Theorem detection_prf_range rb eb w beta trim p r f : 0 < beta -> detection_b rb eb w beta trim = Some (p, r, f) ->
  0 <= p <= 1 /\ 0 <= r <= 1 /\ 0 <= f <= 1.
Proof. rewrite detection_b_prf. apply prf_opt_range. Qed.
Theorem detection_swap rb eb w beta trim p r f p' r' f' :
  detection_b rb eb w beta trim = Some (p, r, f) -> detection_b eb rb w beta trim = Some (p', r', f') -> p' = r /\ r' = p.
Proof. rewrite !detection_b_prf. apply prf_opt_swap. Qed.
Theorem detection_swap_f rb eb w trim p r f p' r' f' :
  detection_b rb eb w 1 trim = Some (p, r, f) -> detection_b eb rb w 1 trim = Some (p', r', f') -> f' == f.
Proof. rewrite !detection_b_prf. apply prf_opt_swap_f. Qed.
Theorem detection_window_mono rb eb w1 w2 beta trim p1 r1 f1 p2 r2 f2 : 0 < beta -> w1 <= w2 ->
  detection_b rb eb w1 beta trim = Some (p1, r1, f1) -> detection_b rb eb w2 beta trim = Some (p2, r2, f2) ->
  p1 <= p2 /\ r1 <= r2 /\ f1 <= f2.
Proof. rewrite !detection_b_prf. apply prf_opt_window_mono. Qed.
Theorem detection_self rb w beta trim p r f : 0 <= w -> trimmed trim rb <> [] ->
  detection_b rb rb w beta trim = Some (p, r, f) -> p == 1 /\ r == 1 /\ f == 1.
Proof. rewrite detection_b_prf. apply prf_opt_self. Qed.
Lemma tl_map {A B} (g : A -> B) l : tl (map g l) = map g (tl l).
Proof. destruct l; reflexivity. Qed.
Lemma removelast_map {A B} (g : A -> B) l : removelast (map g l) = map g (removelast l).
Proof. induction l as [|x l IH]; [reflexivity|]. destruct l as [|y l]; [reflexivity|].
  change (g x :: removelast (map g (y :: l)) = g x :: map g (removelast (y :: l))). now rewrite IH. Qed.
Lemma trimmed_shift trim s l : trimmed trim (shift s l) = shift s (trimmed trim l).
Proof. destruct trim; [|reflexivity]. unfold trimmed, trim_ends, shift. now rewrite tl_map, removelast_map. Qed.
Theorem detection_shift s rb eb w beta trim t1 t2 :
  detection_b (shift s rb) (shift s eb) w beta trim = Some t1 -> detection_b rb eb w beta trim = Some t2 -> t1 = t2.
Proof. rewrite !detection_b_prf, !trimmed_shift. apply prf_opt_shift. Qed.
Theorem detection_empty rb eb w beta trim : trimmed trim rb = [] \/ trimmed trim eb = [] ->
  detection_b rb eb w beta trim = Some (0, 0, 0).
Proof. rewrite detection_b_prf. unfold prf_opt. intros [->| ->]; [reflexivity|now rewrite orb_true_r]. Qed.
Definition q3eqb (a b : Q * Q * Q) : bool :=
  let '(a1, a2, a3) := a in let '(b1, b2, b3) := b in Qeq_bool a1 b1 && Qeq_bool a2 b2 && Qeq_bool a3 b3.
Example detection_ex :
  res_eqb (fun a b => match a, b with Some x, Some y => q3eqb x y | _, _ => false end)
    (detection [(0, 10); (10, 20); (20, 30)] [(0, (21#2)); ((21#2), 22); (22, 30)] (1#2) 1 false) (Ok (Some ((3#4), (3#4), (3#4)))) = true
  /\ res_eqb (fun a b => match a, b with Some x, Some y => q3eqb x y | _, _ => false end)
    (detection [(0, 10); (10, 20); (20, 30)] [(0, (21#2)); ((21#2), 22); (22, 30)] (1#2) 1 true) (Ok (Some ((1#2), (1#2), (1#2)))) = true.
Proof. split; vm_compute; reflexivity. Qed.

(* on intervals (validators + intervals_to_boundaries in front) *)
Lemma validate_boundary_swap ref est : validate_boundary ref est = Ok tt -> validate_boundary est ref = Ok tt.
Proof. unfold validate_boundary, bind. destruct (validate_intervals ref) as [[]|]; [|discriminate].
  destruct (validate_intervals est) as [[]|]; [reflexivity|discriminate]. Qed.
Lemma detection_Ok ref est w beta trim x : detection ref est w beta trim = Ok x ->
  validate_boundary ref est = Ok tt /\ x = detection_b (intervals_to_boundaries ref) (intervals_to_boundaries est) w beta trim.
Proof. unfold detection, bind. destruct (validate_boundary ref est) as [[]|]; [|discriminate]. intros H; inversion H. auto. Qed.
Theorem detection_intervals_range ref est w beta trim p r f : 0 < beta -> detection ref est w beta trim = Ok (Some (p, r, f)) ->
  0 <= p <= 1 /\ 0 <= r <= 1 /\ 0 <= f <= 1.
Proof. intros Hb H. apply detection_Ok in H. destruct H as [_ H]. symmetry in H. exact (detection_prf_range _ _ w beta trim p r f Hb H). Qed.
Theorem detection_intervals_swap ref est w beta trim p r f p' r' f' :
  detection ref est w beta trim = Ok (Some (p, r, f)) -> detection est ref w beta trim = Ok (Some (p', r', f')) ->
  p' = r /\ r' = p /\ (beta = 1 -> f' == f).
Proof. intros H H'. apply detection_Ok in H. apply detection_Ok in H'. destruct H as [_ H]. destruct H' as [_ H']. symmetry in H, H'.
  destruct (detection_swap _ _ _ _ _ _ _ _ _ _ _ H H') as [A B]. split; [exact A|]. split; [exact B|].
  intros ->. exact (detection_swap_f _ _ w trim p r f p' r' f' H H'). Qed.
Theorem detection_intervals_window_mono ref est w1 w2 beta trim p1 r1 f1 p2 r2 f2 : 0 < beta -> w1 <= w2 ->
  detection ref est w1 beta trim = Ok (Some (p1, r1, f1)) -> detection ref est w2 beta trim = Ok (Some (p2, r2, f2)) ->
  p1 <= p2 /\ r1 <= r2 /\ f1 <= f2.
Proof. intros Hb Hw H1 H2. apply detection_Ok in H1. apply detection_Ok in H2. destruct H1 as [_ H1]. destruct H2 as [_ H2].
  symmetry in H1, H2. exact (detection_window_mono _ _ w1 w2 beta trim _ _ _ _ _ _ Hb Hw H1 H2). Qed.
Theorem detection_intervals_self ref w beta trim p r f : 0 <= w -> trimmed trim (intervals_to_boundaries ref) <> [] ->
  detection ref ref w beta trim = Ok (Some (p, r, f)) -> p == 1 /\ r == 1 /\ f == 1.
Proof. intros Hw Hne H. apply detection_Ok in H. destruct H as [_ H]. symmetry in H. exact (detection_self _ w beta trim p r f Hw Hne H). Qed.

(* ------------------------------------------------------------------------------------------ *)
(* np.unique commutes with a time shift (np.round does not: see the note in Model.EventMetrics) *)
(* ------------------------------------------------------------------------------------------ *)
Lemma qltb_shift s x y : qltb (x + s) (y + s) = qltb x y.
Proof. destruct (qltb x y) eqn:E.
  - apply qltb_true in E. apply qltb_true. lra.
  - apply qltb_false in E. apply qltb_false. lra. Qed.
Lemma qeqb_shift s x y : qeqb (x + s) (y + s) = qeqb x y.
Proof. destruct (qeqb x y) eqn:E.
  - apply qeqb_true in E. apply qeqb_true. lra.
  - apply qeqb_false in E. apply qeqb_false. intros H. apply E. lra. Qed.
Lemma ins_uniq_shift s x l : ins_uniq (x + s) (shift s l) = shift s (ins_uniq x l).
Proof. induction l as [|y l IH]; [reflexivity|]. cbn [shift map ins_uniq]. rewrite qltb_shift, qeqb_shift.
  destruct (qltb x y); [reflexivity|]. destruct (qeqb x y); [reflexivity|]. cbn [map]. f_equal. exact IH. Qed.
Theorem sort_unique_shift s l : sort_unique (shift s l) = shift s (sort_unique l).
Proof. unfold sort_unique. change (@nil Q) with (shift s []) at 1. generalize (@nil Q) as acc.
  induction l as [|x l IH]; intros acc; [reflexivity|]. cbn [shift map fold_left]. fold (shift s l).
  rewrite ins_uniq_shift. apply IH. Qed.

(* ------------------------------------------------------------------------------------------ *)
(* segment.deviation                                                                           *)
(* ------------------------------------------------------------------------------------------ *)
Lemma fold_min_le_acc l : forall a, fold_left Qmin l a <= a.
Proof. induction l as [|x l IH]; intros a; simpl; [lra|]. eapply Qle_trans; [apply IH|apply Q.le_min_l]. Qed.
Lemma fold_min_le_in l : forall a x, In x l -> fold_left Qmin l a <= x.
Proof. induction l as [|y l IH]; intros a x H; simpl in *; [contradiction|]. destruct H as [->|H]; [|now apply IH].
  eapply Qle_trans; [apply fold_min_le_acc|apply Q.le_min_r]. Qed.
Lemma fold_min_glb l : forall a lo, lo <= a -> (forall x, In x l -> lo <= x) -> lo <= fold_left Qmin l a.
Proof. induction l as [|y l IH]; intros a lo Ha H; simpl; [exact Ha|]. apply IH.
  - apply Q.min_glb; [exact Ha|apply H; now left].
  - intros x Hx. apply H. now right. Qed.
Lemma min_over_le f y0 yt y : In y (y0 :: yt) -> min_over f y0 yt <= f y.
Proof. unfold min_over. intros [->|H]; [apply fold_min_le_acc|]. apply fold_min_le_in. now apply in_map. Qed.
Lemma min_over_ge f y0 yt lo : (forall y, In y (y0 :: yt) -> lo <= f y) -> lo <= min_over f y0 yt.
Proof. unfold min_over. intros H. apply fold_min_glb; [apply H; now left|].
  intros x Hx. apply in_map_iff in Hx. destruct Hx as (y & <- & Hy). apply H. now right. Qed.
Lemma min_over_ext f g y0 yt : (forall y, f y = g y) -> min_over f y0 yt = min_over g y0 yt.
Proof. intros H. unfold min_over. rewrite (map_ext f g H), H. reflexivity. Qed.

Lemma qins_perm x l : Permutation (qins x l) (x :: l).
Proof. induction l as [|y l IH]; simpl; [reflexivity|]. destruct (qltb x y); [reflexivity|]. rewrite IH. apply perm_swap. Qed.
Lemma qsort_fold xs : forall acc, Permutation (fold_left (fun acc x => qins x acc) xs acc) (xs ++ acc).
Proof. induction xs as [|x xs IH]; intros acc; simpl; [reflexivity|]. rewrite IH, qins_perm. symmetry. apply Permutation_middle. Qed.
Lemma qsort_perm l : Permutation (qsort l) l.
Proof. unfold qsort. rewrite qsort_fold. now rewrite app_nil_r. Qed.
(* the median of a non-empty list lies between any bounds of its elements *)
Lemma median_ne_bounds (P : Q -> Prop) l : l <> [] -> (forall a b, P a -> P b -> P ((a + b) / 2)) ->
  (forall x, In x l -> P x) -> P (median_ne l).
Proof. intros Hne Hmid H. unfold median_ne. assert (Pm := qsort_perm l). set (s := qsort l) in *.
  assert (Hs : forall x, In x s -> P x) by (intros x Hx; apply H; eapply Permutation_in; eauto).
  assert (Hn : (0 < length s)%nat).
  { rewrite (Permutation_length Pm). destruct l; [contradiction|simpl; lia]. }
  assert (H2 : (length s / 2 < length s)%nat) by (apply Nat.div_lt; lia).
  destruct (Nat.even (length s)).
  - apply Hmid; apply Hs; apply nth_In; lia.
  - apply Hs. apply nth_In. exact H2. Qed.
Lemma median_ne_ge l lo : l <> [] -> (forall x, In x l -> lo <= x) -> lo <= median_ne l.
Proof. intros Hne H. apply (median_ne_bounds (fun x => lo <= x)); auto. intros a b Ha Hb. apply Qle_shift_div_l; lra. Qed.
Lemma median_ne_le l hi : l <> [] -> (forall x, In x l -> x <= hi) -> median_ne l <= hi.
Proof. intros Hne H. apply (median_ne_bounds (fun x => x <= hi)); auto. intros a b Ha Hb. apply Qle_shift_div_r; lra. Qed.

Definition rows (rb : list Q) (e0 : Q) (et : list Q) : list Q := map (fun r => min_over (fun e => Qabs (r - e)) e0 et) rb.
Definition cols (r0 : Q) (rt : list Q) (eb : list Q) : list Q := map (fun e => min_over (fun r => Qabs (r - e)) r0 rt) eb.
Lemma deviation_b_cons rb eb trim r0 rt e0 et : trimmed trim rb = r0 :: rt -> trimmed trim eb = e0 :: et ->
  deviation_b rb eb trim = (Fin (median_ne (rows (r0 :: rt) e0 et)), Fin (median_ne (cols r0 rt (e0 :: et)))).
Proof. intros Hr He. unfold deviation_b. rewrite Hr, He. reflexivity. Qed.
Lemma rows_nonneg rb e0 et x : In x (rows rb e0 et) -> 0 <= x.
Proof. unfold rows. intros H. apply in_map_iff in H. destruct H as (r & <- & _). apply min_over_ge. intros e _. apply Qabs_nonneg. Qed.
Lemma cols_nonneg r0 rt eb x : In x (cols r0 rt eb) -> 0 <= x.
Proof. unfold cols. intros H. apply in_map_iff in H. destruct H as (e & <- & _). apply min_over_ge. intros r _. apply Qabs_nonneg. Qed.

Theorem deviation_nonneg rb eb trim a b : deviation_b rb eb trim = (Fin a, Fin b) -> 0 <= a /\ 0 <= b.
Proof. destruct (trimmed trim rb) as [|r0 rt] eqn:Er; [unfold deviation_b; rewrite Er; discriminate|].
  destruct (trimmed trim eb) as [|e0 et] eqn:Ee; [unfold deviation_b; rewrite Er, Ee; discriminate|].
  rewrite (deviation_b_cons _ _ _ _ _ _ _ Er Ee). intros H. injection H as Ha Hb. subst a b. split.
  - apply (median_ne_ge (rows (r0 :: rt) e0 et)); [discriminate|]. intros x Hx. exact (rows_nonneg _ _ _ x Hx).
  - apply (median_ne_ge (cols r0 rt (e0 :: et))); [discriminate|]. intros x Hx. exact (cols_nonneg _ _ _ x Hx). Qed.

(* NaN exactly when a side is empty (after trimming); otherwise both components are finite *)
Theorem deviation_nan_iff rb eb trim :
  (fst (deviation_b rb eb trim) = NaN <-> trimmed trim rb = [] \/ trimmed trim eb = []) /\
  (snd (deviation_b rb eb trim) = NaN <-> trimmed trim rb = [] \/ trimmed trim eb = []).
Proof. destruct (trimmed trim rb) as [|r0 rt] eqn:Er.
  - unfold deviation_b. rewrite Er. simpl. tauto.
  - destruct (trimmed trim eb) as [|e0 et] eqn:Ee.
    + unfold deviation_b. rewrite Er, Ee. simpl. tauto.
    + rewrite (deviation_b_cons _ _ _ _ _ _ _ Er Ee). cbn [fst snd]. split; split; try discriminate; intros [H|H]; discriminate. Qed.
Theorem deviation_finite rb eb trim : trimmed trim rb <> [] -> trimmed trim eb <> [] ->
  exists a b, deviation_b rb eb trim = (Fin a, Fin b).
Proof. intros Hr He. destruct (trimmed trim rb) as [|r0 rt] eqn:Er; [contradiction|].
  destruct (trimmed trim eb) as [|e0 et] eqn:Ee; [contradiction|]. rewrite (deviation_b_cons _ _ _ _ _ _ _ Er Ee). eauto. Qed.

(* reference_to_estimated of (a, b) is estimated_to_reference of (b, a) *)
Theorem deviation_swap rb eb trim :
  fst (deviation_b rb eb trim) = snd (deviation_b eb rb trim) /\ snd (deviation_b rb eb trim) = fst (deviation_b eb rb trim).
Proof. destruct (trimmed trim rb) as [|r0 rt] eqn:Er.
  - unfold deviation_b. rewrite Er. destruct (trimmed trim eb); auto.
  - destruct (trimmed trim eb) as [|e0 et] eqn:Ee.
    + unfold deviation_b. rewrite Er, Ee. auto.
    + rewrite (deviation_b_cons _ _ _ _ _ _ _ Er Ee), (deviation_b_cons _ _ _ _ _ _ _ Ee Er). cbn [fst snd].
      unfold rows, cols. split; do 2 f_equal; apply map_ext; intros x; apply min_over_ext; intros y; apply Qabs_Qminus. Qed.

Theorem deviation_self rb trim : trimmed trim rb <> [] ->
  exists a b, deviation_b rb rb trim = (Fin a, Fin b) /\ a == 0 /\ b == 0.
Proof. intros Hne. destruct (trimmed trim rb) as [|r0 rt] eqn:Er; [contradiction|].
  rewrite (deviation_b_cons _ _ _ _ _ _ _ Er Er). eexists; eexists. split; [reflexivity|].
  assert (Z : forall x, Qabs (x - x) == 0).
  { intros x. assert (E0 : x - x == 0) by ring. rewrite E0. reflexivity. }
  split.
  - apply Qle_antisym; [|apply median_ne_ge; [discriminate|apply rows_nonneg]].
    apply median_ne_le; [discriminate|]. intros x Hx. unfold rows in Hx. apply in_map_iff in Hx. destruct Hx as (r & <- & Hr).
    rewrite <- (Z r). apply (min_over_le (fun e => Qabs (r - e)) r0 rt r Hr).
  - apply Qle_antisym; [|apply median_ne_ge; [discriminate|apply cols_nonneg]].
    apply median_ne_le; [discriminate|]. intros x Hx. unfold cols in Hx. apply in_map_iff in Hx. destruct Hx as (e & <- & He).
    rewrite <- (Z e). apply (min_over_le (fun r => Qabs (r - e)) r0 rt e He). Qed.


Lemma deviation_Ok ref est trim x : deviation ref est trim = Ok x ->
  validate_boundary ref est = Ok tt /\ x = deviation_b (intervals_to_boundaries ref) (intervals_to_boundaries est) trim.
Proof. unfold deviation, bind. destruct (validate_boundary ref est) as [[]|]; [|discriminate]. intros H; inversion H. auto. Qed.
Theorem deviation_intervals_swap ref est trim a b : deviation ref est trim = Ok (a, b) -> deviation est ref trim = Ok (b, a).
Proof. intros H. apply deviation_Ok in H. destruct H as [V H]. unfold deviation, bind. rewrite (validate_boundary_swap _ _ V).
  f_equal. destruct (deviation_swap (intervals_to_boundaries ref) (intervals_to_boundaries est) trim) as [A B].
  rewrite <- H in A, B. simpl in A, B. rewrite (surjective_pairing (deviation_b _ _ _)). now rewrite <- A, <- B. Qed.
Example deviation_ex :
  res_eqb (fun x y => xval_eqb 0 (fst x) (fst y) && xval_eqb 0 (snd x) (snd y))
    (deviation [(0, 10); (10, 20); (20, 30)] [(0, (21#2)); ((21#2), 22); (22, 30)] false) (Ok (Fin (1#4), Fin (1#4))) = true
  /\ deviation [(0, 10)] [(0, 5); (5, 10)] true = Ok (NaN, NaN).
Proof. split; vm_compute; reflexivity. Qed.

Print Assumptions hits_le_min.
Print Assumptions nhits_swap.
Print Assumptions nhits_window_mono.
Print Assumptions nhits_self.
Print Assumptions nhits_shift.
Print Assumptions hits_perm_invariant.
Print Assumptions hits_reindex_invariant.
Print Assumptions beat_f_range.
Print Assumptions beat_f_swap.
Print Assumptions beat_f_window_mono.
Print Assumptions beat_f_self.
Print Assumptions beat_f_shift.
Print Assumptions onset_prf_range.
Print Assumptions onset_prf_swap.
Print Assumptions onset_prf_window_mono.
Print Assumptions onset_prf_self.
Print Assumptions onset_prf_shift.
Print Assumptions detection_prf_range.
Print Assumptions detection_swap.
Print Assumptions detection_swap_f.
Print Assumptions detection_window_mono.
Print Assumptions detection_self.
Print Assumptions detection_shift.
Print Assumptions detection_intervals_range.
Print Assumptions detection_intervals_swap.
Print Assumptions detection_intervals_window_mono.
Print Assumptions detection_intervals_self.
Print Assumptions sort_unique_shift.
Print Assumptions deviation_nonneg.
Print Assumptions deviation_nan_iff.
Print Assumptions deviation_swap.
Print Assumptions deviation_self.
Print Assumptions deviation_intervals_swap.
