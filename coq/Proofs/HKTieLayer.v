(* _bipartite_match, step 2 of the tie: the layering `while layer and not unmatched` loop of one phase (scan of a layer through
   new_layer.setdefault(v, []).append(u) = Matching.add_new, then the absorb loop) equals Model/Matching.layering:
   for every loop fuel the program reports FUEL or ends in a heap representing the model's result, for every model fuel >= it. *)
From Coq Require Import String.
From Coq Require Import List Bool Arith ZArith Lia.
From ME Require Import Model.Prelude Model.Dict Model.Matching Model.HeapPy Gen.MatchGen Model.HeapPyMatch Proofs.HeapPyLemmas
  Proofs.HKRecurse Proofs.HKLayering Proofs.HKCorrect Proofs.HKTotal Proofs.MatchTieHK Proofs.HKTieRec.
Import ListNotations.
Local Open Scope nat_scope.
Local Arguments hget : simpl never.
Local Arguments hset : simpl never.
Local Arguments for_loop : simpl never.
Local Arguments while_loop : simpl never.
Local Arguments comp_loop : simpl never.
Local Arguments Z.of_nat : simpl never.
Local Arguments Z.to_nat : simpl never.
Local Arguments Z.leb : simpl never.
Local Arguments as_key : simpl never.
Local Arguments dget : simpl never.
Local Arguments dset : simpl never.
Local Arguments dmem : simpl never.
Local Arguments ddel : simpl never.
Local Arguments map_vals : simpl never.
Local Arguments run : simpl never.

(* the statements of the phase loop *)
Definition phase_while : stmt := nth 2 (f_body gen_bipartite_match) SPass.
Definition phase_body : list stmt := match phase_while with SWhile _ b => b | _ => [] end.
Definition lay_while : stmt := nth 5 phase_body SPass.
Definition lay_body : list stmt := match lay_while with SWhile _ b => b | _ => [] end.
Definition lay_cond : exp := match lay_while with SWhile c _ => c | _ => ENone end.
Definition scan_for : stmt := nth 1 lay_body SPass.
Definition scan_inner : stmt := match scan_for with SFor _ _ [s] => s | _ => SPass end.
Definition absorb_for : stmt := nth 3 lay_body SPass.

Lemma dmem_rep h dr G k : dl_rep h dr G -> dmem dr k = dmem G k.
Proof. intros H. pose proof (dl_rep_get h dr G k H) as X. unfold dmem. destruct (dget dr k).
  - destruct X as (L & -> & _). reflexivity. - now rewrite X. Qed.
Lemma Forall_snd_dset {V} (P : V -> Prop) (d : dict V) k a : Forall P (map snd d) -> P a -> Forall P (map snd (dset d k a)).
Proof. intros H Ha. induction d as [|[k' v'] t IH]; [constructor; auto|]. unfold dset; fold (@dset V).
  inversion H; subst. destruct (Nat.eqb k k'); constructor; auto. Qed.

Section Lay.
Variable ext : string -> heap -> list val -> out (heap * val).
Variable clos : string -> heap -> frame -> list val -> out (heap * val).
Variable wf : nat.
Variables (g : graph) (aM aP aU aD : nat) (vX vR : val).
Hypothesis Hord : aM < aP /\ aP < aU /\ aU < aD.
Definition lenv vu vv aL (vN : val) : env := benv (graph_val g) aM vu vv (VRef aP) (VRef aU) (VRef aD) (VRef aL) vN vX vR.

Definition NInv (h : heap) (aN : nat) (nr : dict nat) (nl : dict (list nat)) : Prop :=
  hget h aN = Some (refs_obj nr) /\ dl_rep h nr nl /\ NoDup (map snd nr) /\ Forall (fun r => aN < r) (map snd nr).

Lemma scan_v_ok aL aN u (pr : dict nat) (preds : dict (list nat)) all : (forall k, dmem pr k = dmem preds k) -> aP < aN ->
  forall vs vv h nr nl, NInv h aN nr nl -> hget h aP = Some (refs_obj pr) ->
  exists h' nr' vv', for_loop (loop_step ext clos wf scan_inner) None all (nats_val vs) h (lenv (VNat u) vv aL (VRef aN))
      = SNorm h' (lenv (VNat u) vv' aL (VRef aN)) /\
    NInv h' aN nr' (fold_left (fun nl v => if dmem preds v then nl else add_new nl v u) vs nl) /\
    length h <= length h' /\ (forall x, x < aN -> hget h' x = hget h x).
Proof.
  intros Hmem HPN. induction vs as [|v t IH]; intros vv h nr nl HN HP.
  - exists h, nr, vv. unfold for_loop. cbn. auto.
  - pose proof HN as (HA & HR & ND & HF). pose proof (hget_lt _ _ _ HA) as LA. pose proof (dl_rep_lt _ _ _ HR) as LR.
    cbn [nats_val map fold_left]. unfold for_loop; fold for_loop. cbn [unchanged]. unfold lenv, benv, bm_env.
    step. unfold refs_obj. step. rewrite Hmem. destruct (dmem preds v) eqn:Ep; step.
    + destruct (IH (VNat v) h nr nl HN HP) as (h' & nr' & vv' & S & K). exists h', nr', vv'. split; [exact S|exact K].
    + unfold refs_obj. step. unfold add_new. pose proof (dl_rep_get h nr nl v HR) as Hg. destruct (dget nr v) as [a|] eqn:Ea.
      * destruct Hg as (L & EL & Ha). rewrite EL. pose proof (LR a (dget_In_snd _ _ _ Ea)) as La.
        assert (Hra : aN < a) by (rewrite Forall_forall in HF; apply HF; eapply dget_In_snd; eauto).
        step.
        match goal with |- context [for_loop _ None all _ ?hh _] =>
          assert (HN1 : NInv hh aN nr (dset nl v (L ++ [u]))) end.
        { unfold NInv. hsimp. split; [exact HA|]. split; [|split; [exact ND|exact HF]].
          change [VNat u] with (nats_val [u]). rewrite <- nats_val_app. eapply dl_rep_append; eauto.
          eapply dl_rep_frame; [exact HR|]. intros b Hb. pose proof (LR b Hb). hsimp. reflexivity. }
        match goal with |- context [for_loop _ None all _ ?hh _] =>
          destruct (IH (VNat v) hh nr _ HN1 ltac:(hsimp; exact HP)) as (h' & nr' & vv' & S & K1 & K2 & K3) end.
        exists h', nr', vv'. split; [exact S|]. split; [exact K1|]. split; [revert K2; hlen; lia|].
        intros x Hx. rewrite K3 by exact Hx. hsimp. reflexivity.
      * rewrite Hg. step.
        match goal with |- context [for_loop _ None all _ ?hh _] =>
          assert (HN1 : NInv hh aN (dset nr v (length h)) (dset nl v [u])) end.
        { unfold NInv. hsimp. change (VRef (length h)) with ((@id (nat -> val) VRef) (length h)). rewrite dset_map_vals. unfold id.
          split; [reflexivity|].
          assert (Hs : map snd (dset nr v (length h)) = map snd nr ++ [length h]) by (rewrite dset_new by exact Ea; now rewrite map_app).
          split; [|split].
          - eapply dl_rep_new; eauto.
            + intros b Hb. pose proof (LR b Hb). assert (aN < b) by (rewrite Forall_forall in HF; auto). hsimp. reflexivity.
            + hsimp. reflexivity.
          - rewrite Hs. apply NoDup_snoc; [exact ND|]. intros Hi. apply LR in Hi. lia.
          - rewrite Hs. apply Forall_app. split; [exact HF|constructor; [lia|constructor]]. }
        match goal with |- context [for_loop _ None all _ ?hh _] =>
          destruct (IH (VNat v) hh _ _ HN1 ltac:(hsimp; exact HP)) as (h' & nr' & vv' & S & K1 & K2 & K3) end.
        exists h', nr', vv'. split; [exact S|]. split; [exact K1|]. split; [revert K2; hlen; lia|].
        intros x Hx. rewrite K3 by exact Hx. hsimp. reflexivity.
Qed.

Lemma scan_u_ok aL aN (pr : dict nat) (preds : dict (list nat)) Lfull : (forall k, dmem pr k = dmem preds k) -> aP < aN -> aL < aN ->
  forall us vu vv h nr nl, NInv h aN nr nl -> hget h aP = Some (refs_obj pr) -> hget h aL = Some (OList (nats_val Lfull)) ->
  (forall u, In u us -> dmem g u = true) ->
  exists h' nr' vu' vv', for_loop (loop_step ext clos wf scan_for) (Some aL) (nats_val Lfull) (nats_val us) h (lenv vu vv aL (VRef aN))
      = SNorm h' (lenv vu' vv' aL (VRef aN)) /\
    NInv h' aN nr' (fold_left (scan_u g preds) us nl) /\
    length h <= length h' /\ (forall x, x < aN -> hget h' x = hget h x).
Proof.
  intros Hmem HPN HLN. induction us as [|u t IH]; intros vu vv h nr nl HN HP HL Hg.
  - exists h, nr, vu, vv. unfold for_loop. cbn [nats_val map unchanged]. rewrite HL. cbn [obj_elems]. rewrite list_veqb_nats. cbn. auto.
  - cbn [nats_val map fold_left]. unfold for_loop; fold for_loop. cbn [unchanged]. rewrite HL. cbn [obj_elems]. rewrite list_veqb_nats.
    assert (Hu : dmem g u = true) by (apply Hg; now left). unfold dmem in Hu. destruct (dget g u) as [vs|] eqn:Eg; [|discriminate].
    unfold lenv, benv, bm_env, graph_val. step. rewrite dget_graph_val, Eg. step.
    match goal with |- context [for_loop ?f None ?al ?els ?hh ?en] =>
      destruct (scan_v_ok aL aN u pr preds al Hmem HPN vs vv h nr nl HN HP) as (h1 & nr1 & vv1 & S1 & N1 & L1 & F1);
      assert (E : for_loop f None al els hh en = SNorm h1 (lenv (VNat u) vv1 aL (VRef aN))) by exact S1;
      rewrite E; clear E S1 end.
    destruct (IH (VNat u) vv1 h1 nr1 _ N1 ltac:(rewrite F1 by lia; exact HP) ltac:(rewrite F1 by lia; exact HL) (fun u' Hu' => Hg u' (or_intror Hu')))
      as (h' & nr' & vu' & vv' & S2 & N2 & L2 & F2).
    exists h', nr', vu', vv'. split; [exact S2|]. split; [|split; [lia|intros x Hx; rewrite F2, F1 by lia; reflexivity]].
    unfold scan_u at 2. unfold nbrs. rewrite Eg. exact N2.
Qed.

Lemma elems_refs (nr : dict nat) : map (fun kv : nat * val => VNat (fst kv)) (map_vals VRef nr) = nats_val (keys nr).
Proof. unfold map_vals, nats_val, keys. rewrite !map_map. reflexivity. Qed.
Lemma elems_mobj (m : matching) : map (fun kv : nat * val => VNat (fst kv)) (map_vals VNat m) = nats_val (keys m).
Proof. unfold map_vals, nats_val, keys. rewrite !map_map. reflexivity. Qed.

Variable m : matching.
Definition AInv (aL2 : nat) (h : heap) (st : lstate) (pr : dict nat) : Prop :=
  let '(preds, pred, layer, unm) := st in
  hget h aP = Some (refs_obj pr) /\ dl_rep h pr preds /\ Forall (fun r => aD < r /\ r < aL2) (map snd pr) /\
  hget h aD = Some (pred_obj aU pred) /\ hget h aL2 = Some (OList (nats_val layer)) /\ hget h aU = Some (OList (nats_val unm)).
Definition aframe (aL2 : nat) (h h' : heap) : Prop :=
  length h' = length h /\ forall x, x <> aP -> x <> aD -> x <> aL2 -> x <> aU -> hget h' x = hget h x.

Lemma dl_rep_frame_rng h h' dr G lo hi : dl_rep h dr G -> Forall (fun r => lo < r /\ r < hi) (map snd dr) ->
  (forall x, lo < x -> x < hi -> hget h' x = hget h x) -> dl_rep h' dr G.
Proof. intros H F E. eapply dl_rep_frame; [exact H|]. intros a Ha. rewrite Forall_forall in F. destruct (F a Ha). auto. Qed.

Lemma absorb_ok aL2 aN (nrfull : dict nat) vu : aD < aN -> aN < aL2 ->
  forall (sr : dict nat) (sl : dict (list nat)) h st pr vv,
  dl_rep h sr sl -> Forall (fun r => aD < r /\ r < aL2) (map snd sr) -> (forall e, In e sr -> dget nrfull (fst e) = Some (snd e)) ->
  AInv aL2 h st pr -> hget h aM = Some (mobj m) -> hget h aN = Some (refs_obj nrfull) ->
  exists h' pr' vv',
    for_loop (loop_step ext clos wf absorb_for) (Some aN) (nats_val (keys nrfull)) (nats_val (keys sr)) h (lenv vu vv aL2 (VRef aN))
      = SNorm h' (lenv vu vv' aL2 (VRef aN)) /\
    AInv aL2 h' (fold_left (absorb m) sl st) pr' /\ aframe aL2 h h'.
Proof.
  intros HDN HNL. induction sr as [|[v r] t IH]; intros sl h st pr vv HR HF Hin HA HM HN.
  - inversion HR; subst. exists h, pr, vv. unfold for_loop. cbn [keys nats_val map unchanged]. rewrite HN. cbn [obj_elems refs_obj].
    rewrite elems_refs, list_veqb_nats. cbn. split; [reflexivity|]. split; [exact HA|]. split; auto.
  - inversion HR as [|? [v2 L] ? sl' [E1 E2] HR']; subst. cbn in E1. subst v2. cbn [snd] in E2.
    destruct st as [[[preds pred] layer] unm]. destruct HA as (HP & HRp & HFp & HD & HL & HU).
    pose proof (hget_lt _ _ _ HP) as LP. pose proof (hget_lt _ _ _ HD) as LD. pose proof (hget_lt _ _ _ HL) as LL.
    pose proof (hget_lt _ _ _ HU) as LU. pose proof (hget_lt _ _ _ HM) as LM. pose proof (hget_lt _ _ _ HN) as LN.
    inversion HF as [|? ? [Hr1 Hr2] HF']; subst.
    pose proof (Hin (v, r) (or_introl eq_refl)) as Ev. cbn [fst snd] in Ev.
    cbn [keys nats_val map fold_left]. unfold for_loop; fold for_loop. cbn [unchanged]. rewrite HN. cbn [obj_elems refs_obj].
    rewrite elems_refs, list_veqb_nats. unfold lenv, benv, bm_env. step. unfold refs_obj. step. 
    destruct (dget m v) as [u|] eqn:Em.
    + assert (Emm : dmem m v = true) by (unfold dmem; now rewrite Em). unfold mobj. step.
      match goal with |- context [for_loop _ (Some aN) _ _ ?hh _] => set (h1 := hh) end.
      assert (Fr : forall x, aD < x -> x < aL2 -> hget h1 x = hget h x) by (intros x A B; unfold h1; hsimp; reflexivity).
      assert (HA1 : AInv aL2 h1 (dset preds v L, dset pred u (Via v), layer ++ [u], unm) (dset pr v r)).
      { unfold AInv. split; [unfold h1; hsimp; unfold refs_obj; now rewrite dset_map_vals|]. split.
        - apply dl_rep_dset; [eapply dl_rep_frame_rng; eauto|rewrite Fr by lia; exact E2].
        - split; [apply Forall_snd_dset; auto|]. split.
          + unfold h1. hsimp. unfold pred_obj. change (VNat v) with (pu_val aU (Via v)). now rewrite dset_map_vals.
          + split; [unfold h1; hsimp; now rewrite nats_val_app|unfold h1; hsimp; exact HU]. }
      destruct (IH sl' h1 _ _ (VNat v) ltac:(eapply dl_rep_frame_rng; eauto) HF' (fun e He => Hin e (or_intror He)) HA1
                  ltac:(unfold h1; hsimp; exact HM) ltac:(unfold h1; hsimp; exact HN)) as (h' & pr' & vv' & S & A2 & [L2 F2]).
      exists h', pr', vv'. split; [exact S|]. split; [cbn [absorb fst snd]; rewrite ?Em; exact A2|].
      split; [rewrite L2; unfold h1; hlen; reflexivity|]. intros x X1 X2 X3 X4. rewrite F2 by auto. unfold h1. hsimp. reflexivity.
    + assert (Emm : dmem m v = false) by (unfold dmem; now rewrite Em). unfold mobj. step.
      match goal with |- context [for_loop _ (Some aN) _ _ ?hh _] => set (h1 := hh) end.
      assert (Fr : forall x, aD < x -> x < aL2 -> hget h1 x = hget h x) by (intros x A B; unfold h1; hsimp; reflexivity).
      assert (HA1 : AInv aL2 h1 (dset preds v L, pred, layer, unm ++ [v]) (dset pr v r)).
      { unfold AInv. split; [unfold h1; hsimp; unfold refs_obj; now rewrite dset_map_vals|]. split.
        - apply dl_rep_dset; [eapply dl_rep_frame_rng; eauto|rewrite Fr by lia; exact E2].
        - split; [apply Forall_snd_dset; auto|]. split; [unfold h1; hsimp; exact HD|].
          split; [unfold h1; hsimp; exact HL|unfold h1; hsimp; now rewrite nats_val_app]. }
      destruct (IH sl' h1 _ _ (VNat v) ltac:(eapply dl_rep_frame_rng; eauto) HF' (fun e He => Hin e (or_intror He)) HA1
                  ltac:(unfold h1; hsimp; exact HM) ltac:(unfold h1; hsimp; exact HN)) as (h' & pr' & vv' & S & A2 & [L2 F2]).
      exists h', pr', vv'. split; [exact S|]. split; [cbn [absorb fst snd]; rewrite ?Em; exact A2|].
      split; [rewrite L2; unfold h1; hlen; reflexivity|]. intros x X1 X2 X3 X4. rewrite F2 by auto. unfold h1. hsimp. reflexivity.
Qed.

Hypothesis Hmg : forall v u, dget m v = Some u -> dmem g u = true.
Definition st_layer (st : lstate) : list nat := snd (fst st).
Lemma absorb_layer (P : nat -> Prop) : (forall v u, dget m v = Some u -> P u) ->
  forall nl st, (forall u, In u (st_layer st) -> P u) -> forall u, In u (st_layer (fold_left (absorb m) nl st)) -> P u.
Proof. intros HP. induction nl as [|e t IH]; intros st Hs; [exact Hs|]. cbn [fold_left]. apply IH.
  destruct st as [[[preds pred] layer] unm]. unfold absorb. cbn [fst snd]. destruct (dget m (fst e)) eqn:E; unfold st_layer; cbn [fst snd].
  - intros u Hu. apply in_app_iff in Hu. destruct Hu as [Hu|[<-|[]]]; [apply Hs; exact Hu|eapply HP; eauto].
  - exact Hs. Qed.

Definition LS (h : heap) (aL : nat) (st : lstate) : Prop :=
  hget h aM = Some (mobj m) /\ aD < aL /\ exists pr, AInv aL h st pr.
Definition lay_run (k : nat) (h : heap) (en : env) : sres :=
  while_loop k (eval_truth ext clos lay_cond) (run_block (exec ext clos wf) lay_body) h en.

Lemma lay_tie : forall k h aL vu vv vN preds pred layer unm,
  LS h aL (preds, pred, layer, unm) -> (forall u, In u layer -> dmem g u = true) ->
  (lay_run k h (lenv vu vv aL vN) = SFuel /\ layering k g m preds pred layer unm = None) \/
  exists h' aL' vu' vv' vN' preds' pred' layer' unm',
    lay_run k h (lenv vu vv aL vN) = SNorm h' (lenv vu' vv' aL' vN') /\
    (forall f', k <= f' -> layering f' g m preds pred layer unm = Some (preds', pred', unm')) /\
    LS h' aL' (preds', pred', layer', unm') /\ length h <= length h' /\ (forall x, x < aP -> hget h' x = hget h x).
Proof.
  induction k as [|k IH]; intros h aL vu vv vN preds pred layer unm HS Hlg; [left; split; reflexivity|].
  pose proof HS as (HM & HDL & pr & HP & HRp & HFp & HD & HL & HU).
  pose proof (hget_lt _ _ _ HP) as LP. pose proof (hget_lt _ _ _ HD) as LD. pose proof (hget_lt _ _ _ HL) as LL.
  pose proof (hget_lt _ _ _ HU) as LU. pose proof (hget_lt _ _ _ HM) as LM.
  unfold lay_run, while_loop; fold while_loop. unfold lenv, benv, bm_env. step.
  destruct layer as [|u0 lt].
  - step. right. exists h, aL, vu, vv, vN, preds, pred, [], unm. split; [reflexivity|]. split; [|split; [exact HS|split; auto]].
    intros [|f'] Hf; [lia|]. reflexivity.
  - cbn [nats_val map obj_truth]. step. destruct unm as [|x0 xt].
    + cbn [nats_val map obj_truth]. step.
      assert (Hmem : forall k0, dmem pr k0 = dmem preds k0) by (intros k0; eapply dmem_rep; eauto).
      set (aN := length h). set (h0 := h ++ [ODict []]).
      assert (N0 : NInv h0 aN [] []).
      { unfold NInv, h0, aN. split; [hsimp; reflexivity|]. split; [constructor|]. split; constructor. }
      match goal with |- context [for_loop ?f (Some aL) ?al ?els h0 ?en] =>
        destruct (scan_u_ok aL aN pr preds (u0 :: lt) Hmem ltac:(unfold aN; lia) ltac:(unfold aN; lia) (u0 :: lt) vu vv h0 [] [] N0
                    ltac:(unfold h0; hsimp; exact HP) ltac:(unfold h0; hsimp; exact HL) Hlg) as (h1 & nr1 & vu1 & vv1 & S1 & N1 & L1 & F1);
        assert (E : for_loop f (Some aL) al els h0 en = SNorm h1 (lenv vu1 vv1 aL (VRef aN))) by exact S1;
        rewrite E; clear E S1 end.
      set (nl1 := fold_left (scan_u g preds) (u0 :: lt) []) in *.
      destruct N1 as (HA1 & HR1 & ND1 & HF1). pose proof (hget_lt _ _ _ HA1) as LA1. pose proof (dl_rep_lt _ _ _ HR1) as LR1.
      assert (Lh0 : length h0 = S (length h)) by (unfold h0; hlen; reflexivity).
      assert (Fh : forall x, x < aN -> hget h1 x = hget h x) by (intros x Hx; rewrite F1 by exact Hx; unfold h0, aN in *; hsimp; reflexivity).
      unfold lenv, benv, bm_env. step. unfold refs_obj. cbn [obj_elems]. rewrite elems_refs.
      set (aL2 := length h1). set (h2 := h1 ++ [OList []]).
      assert (NDk : NoDup (keys nr1)).
      { rewrite (dl_rep_keys _ _ _ HR1). unfold nl1. apply scan_layer_nodup. constructor. }
      assert (A2 : AInv aL2 h2 (preds, pred, [], []) pr).
      { unfold AInv, h2, aL2. split; [hsimp; rewrite Fh by (unfold aN; lia); exact HP|]. split.
        - eapply dl_rep_frame; [exact HRp|]. intros b Hb. rewrite Forall_forall in HFp. destruct (HFp b Hb). hsimp. apply Fh. unfold aN. lia.
        - split; [eapply Forall_impl; [|exact HFp]; cbn; intros b [B1 B2]; unfold aN in *; lia|].
          split; [hsimp; rewrite Fh by (unfold aN; lia); exact HD|]. split; [hsimp; reflexivity|].
          hsimp. rewrite Fh by (unfold aN; lia). exact HU. }
      match goal with |- context [for_loop ?f (Some aN) ?al ?els h2 ?en] =>
        destruct (absorb_ok aL2 aN nr1 vu1 ltac:(unfold aN; lia) ltac:(unfold aL2; lia) nr1 nl1 h2 _ pr vv1
                    ltac:(eapply dl_rep_frame; [exact HR1|]; intros b Hb; pose proof (LR1 b Hb); unfold h2; hsimp; reflexivity)
                    ltac:(rewrite Forall_forall in *; intros b Hb; pose proof (HF1 b Hb); pose proof (LR1 b Hb); unfold aL2, aN in *; lia)
                    ltac:(intros [kk aa] He; apply In_dget; [exact NDk|exact He]) A2
                    ltac:(unfold h2; hsimp; rewrite Fh by (unfold aN; lia); exact HM)
                    ltac:(unfold h2; hsimp; exact HA1)) as (h3 & pr3 & vv3 & S3 & A3 & [L3 F3]);
        assert (E : for_loop f (Some aN) al els h2 en = SNorm h3 (lenv vu1 vv3 aL2 (VRef aN))) by exact S3;
        rewrite E; clear E S3 end.
      destruct (fold_left (absorb m) nl1 (preds, pred, [], [])) as [[[p1 q1] l1] u1] eqn:EA.
      assert (Lh2 : length h2 = S (length h1)) by (unfold h2; hlen; reflexivity).
      assert (HS3 : LS h3 aL2 (p1, q1, l1, u1)).
      { split; [|split; [unfold aL2, aN in *; lia|exists pr3; exact A3]].
        rewrite F3 by (unfold aL2, aN in *; lia). unfold h2. hsimp. rewrite Fh by (unfold aN; lia). exact HM. }
      assert (Hl1 : forall u, In u l1 -> dmem g u = true).
      { intros u Hu. apply (absorb_layer (fun u => dmem g u = true) Hmg nl1 (preds, pred, [], [])); [intros ? []|]. rewrite EA. exact Hu. }
      destruct (IH h3 aL2 vu1 vv3 (VRef aN) p1 q1 l1 u1 HS3 Hl1) as [[EF EN] | (h' & aL' & vu' & vv' & vN' & preds' & pred' & layer' & unm' & SW & MW & LW & LLW & FW)].
      * left. split; [exact EF|]. cbn [layering fold_left]. unfold nl1 in EA. cbn [fold_left] in EA. rewrite EA. exact EN.
      * right. exists h', aL', vu', vv', vN', preds', pred', layer', unm'. split; [exact SW|]. split; [|split; [exact LW|split]].
        -- intros [|f'] Hf; [lia|]. cbn [layering]. fold nl1. rewrite EA. apply MW. lia.
        -- lia.
        -- intros x Hx. rewrite FW by exact Hx. rewrite F3 by (unfold aL2, aN in *; lia). unfold h2. hsimp. apply Fh. unfold aN. lia.
    + cbn [nats_val map obj_truth]. step. right. exists h, aL, vu, vv, vN, preds, pred, (u0 :: lt), (x0 :: xt).
      split; [reflexivity|]. split; [|split; [exact HS|split; auto]]. intros [|f'] Hf; [lia|]. reflexivity.
Qed.
End Lay.
