(* The adjusted mutual information of mir_eval.segment._adjusted_mutual_info_score as a real-valued formula over the exact
   contingency table, in the style of Proofs/SegmentEntropy.v:
     EMI = sum_ij sum_{k = max(a_i + b_j - N, 1)}^{min(a_i, b_j)}  k/N * (ln (N k) - ln (a_i b_j)) * P(k),
     P(k) = a! b! (N-a)! (N-b)! / (N! k! (a-k)! (b-k)! (N-a-b+k)!)         (the code's exp of a sum of gammaln's)
     AMI = (MI - EMI) / (max(H(ref), H(est)) - EMI),   1.0 when both labellings have one class (or none).
   Theorems: ami_sym (exchanging the annotations), ami_perm_rows / ami_perm_cols / ami_relabel (renaming the classes of
   either annotation: any permutation of the rows and of the columns of the table), and the same for mi (mi_relabel) and
   emi (emi_sym, emi_relabel).
   THIS FILE USES Coq's Reals (standard axioms of the real numbers, listed by the Print Assumptions at the end). *)
From Coq Require Import List Arith Lia Reals Lra Bool Permutation.
From ME Require Import Model.Prelude Model.SegmentCluster Proofs.SegmentClusterProps Proofs.SegmentEntropy Proofs.SegmentEntropyBounds.
Import ListNotations.
Local Open Scope R_scope.

(* ================================================================================================== *)
(* 1. the formula                                                                                       *)
(* ================================================================================================== *)
(* class counts as integers (the code: np.sum(contingency, axis=..).astype(np.int32)) *)
Definition rcount (n : tabfn) (nc i : nat) : nat := nsumf (fun j => n i j) nc.
Definition ccount (n : tabfn) (nr j : nat) : nat := nsumf (fun i => n i j) nr.

(* term3 = exp(gln): gammaln (m + 1) = ln m!  *)
Definition hyp (N a b k : nat) : R :=
  INR (fact a) * INR (fact b) * INR (fact (N - a)) * INR (fact (N - b))
  / (INR (fact N) * INR (fact k) * INR (fact (a - k)) * INR (fact (b - k)) * INR (fact (N + k - a - b))).
(* term1[nij] * term2 * term3 *)
Definition emi_term (N a b k : nat) : R := INR k / INR N * (ln (INR N * INR k) - ln (INR a * INR b)) * hyp N a b k.
(* for nij in range(start[i, j], end[i, j]) *)
Definition emi_start (N a b : nat) : nat := Nat.max (a + b - N) 1.
Definition emi_stop (N a b : nat) : nat := Nat.min a b + 1.
Definition emi_cell (N a b : nat) : R := rsum (fun d => emi_term N a b (emi_start N a b + d)) (emi_stop N a b - emi_start N a b).
Definition emi (n : tabfn) (nr nc N : nat) : R := rsum (fun i => rsum (fun j => emi_cell N (rcount n nc i) (ccount n nr j)) nc) nr.
(* N = n_samples = len(reference_indices) = nlabels *)
Definition ami (n : tabfn) (nr nc nlabels : nat) : R :=
  if ((nr =? nc) && (nc =? 1) || (nr =? nc) && (nc =? 0))%bool then 1
  else let h_true := entropy (rcount n nc) nr nlabels in
       let h_pred := entropy (ccount n nr) nc nlabels in
       (mi n nr nc - emi n nr nc nlabels) / (Rmax h_true h_pred - emi n nr nc nlabels).

(* the entropies are the ones of nmi *)
Lemma ami_entropies_are_nmi's n nr nc nlabels :
  entropy (rcount n nc) nr nlabels = entropy (fun i => nsumf (fun j => n i j) nc) nr nlabels /\
  entropy (ccount n nr) nc nlabels = entropy (fun j => nsumf (fun i => n i j) nr) nc nlabels.
Proof. split; reflexivity. Qed.

(* ================================================================================================== *)
(* 2. exchanging the annotations                                                                        *)
(* ================================================================================================== *)
Lemma hyp_sym N a b k : hyp N b a k = hyp N a b k.
Proof. unfold hyp. replace (N + k - b - a)%nat with (N + k - a - b)%nat by lia. unfold Rdiv. f_equal; [ring|f_equal; ring]. Qed.
Lemma emi_cell_sym N a b : emi_cell N b a = emi_cell N a b.
Proof. unfold emi_cell, emi_start, emi_stop. rewrite (Nat.add_comm b a), (Nat.min_comm b a). apply rsum_ext. intros d _.
  unfold emi_term. rewrite hyp_sym, (Rmult_comm (INR b) (INR a)). reflexivity. Qed.
Theorem emi_sym n nr nc N : emi (swap n) nc nr N = emi n nr nc N.
Proof. unfold emi.
  rewrite (rsum_swap (fun j i => emi_cell N (rcount (swap n) nr j) (ccount (swap n) nc i)) nc nr).
  apply rsum_ext. intros i _. apply rsum_ext. intros j _. apply emi_cell_sym. Qed.

(* ami_sym: AMI(est, ref) = AMI(ref, est) *)
Theorem ami_sym n nr nc nlabels : ami (swap n) nc nr nlabels = ami n nr nc nlabels.
Proof. unfold ami. rewrite mi_sym, emi_sym.
  assert (Eg : ((nc =? nr)%nat && (nr =? 1)%nat || (nc =? nr)%nat && (nr =? 0)%nat)%bool
             = ((nr =? nc)%nat && (nc =? 1)%nat || (nr =? nc)%nat && (nc =? 0)%nat)%bool).
  { rewrite (Nat.eqb_sym nc nr). destruct (Nat.eqb_spec nr nc) as [->|]; reflexivity. }
  rewrite Eg. clear Eg. destruct (_ || _)%bool; [reflexivity|]. cbv zeta.
  change (rcount (swap n) nr) with (ccount n nr). change (ccount (swap n) nc) with (rcount n nc).
  rewrite (Rmax_comm (entropy (ccount n nr) nc nlabels)). reflexivity. Qed.

(* ================================================================================================== *)
(* 3. renaming classes: permutations of rows and columns                                                *)
(* ================================================================================================== *)
(* s permutes 0 .. n-1 *)
Definition is_perm (s : nat -> nat) (n : nat) : Prop := Permutation (map s (seq 0 n)) (seq 0 n).

Fixpoint lsumR (l : list R) : R := match l with [] => 0 | x :: l' => x + lsumR l' end.
Lemma lsumR_app l1 l2 : lsumR (l1 ++ l2) = lsumR l1 + lsumR l2.
Proof. induction l1 as [|x l1 IH]; cbn [lsumR app]; [lra|]. rewrite IH. lra. Qed.
Lemma rsum_list f n : rsum f n = lsumR (map f (seq 0 n)).
Proof. induction n as [|n IH]; [reflexivity|]. rewrite seq_S, map_app, lsumR_app. cbn [rsum map lsumR plus]. rewrite IH. lra. Qed.
Lemma lsumR_perm l l' : Permutation l l' -> lsumR l = lsumR l'.
Proof. induction 1 as [|x l l' _ IH|x y l|l l' l'' _ IH1 _ IH2]; cbn [lsumR] in *; try lra. Qed.
Lemma rsum_perm f s n : is_perm s n -> rsum (fun i => f (s i)) n = rsum f n.
Proof. intros H. rewrite (rsum_list (fun i => f (s i))), (rsum_list f). rewrite <- (map_map s f). apply lsumR_perm. apply Permutation_map. exact H. Qed.

Lemma nsumf_list f n : nsumf f n = nsum (map f (seq 0 n)).
Proof. induction n as [|n IH]; [reflexivity|]. rewrite seq_S, map_app, nsum_app. cbn [nsumf map nsum fold_right plus]. rewrite IH. lia. Qed.
Lemma nsum_perm l l' : Permutation l l' -> nsum l = nsum l'.
Proof. induction 1 as [|x l l' _ IH|x y l|l l' l'' _ IH1 _ IH2]; unfold nsum in *; cbn [fold_right] in *; try lia. Qed.
Lemma nsumf_perm f s n : is_perm s n -> nsumf (fun i => f (s i)) n = nsumf f n.
Proof. intros H. rewrite (nsumf_list (fun i => f (s i))), (nsumf_list f). rewrite <- (map_map s f). apply nsum_perm. apply Permutation_map. exact H. Qed.

Definition permr (s : nat -> nat) (n : tabfn) : tabfn := fun i j => n (s i) j.
Definition permc (t : nat -> nat) (n : tabfn) : tabfn := fun i j => n i (t j).

Lemma ccount_permr s n nr j : is_perm s nr -> ccount (permr s n) nr j = ccount n nr j.
Proof. intros H. unfold ccount, permr. apply (nsumf_perm (fun i => n i j) s nr H). Qed.
Lemma colsum_permr s n nr j : is_perm s nr -> colsum (permr s n) nr j = colsum n nr j.
Proof. intros H. unfold colsum, permr. apply (rsum_perm (fun i => INR (n i j)) s nr H). Qed.
Lemma total_permr s n nr nc : is_perm s nr -> total (permr s n) nr nc = total n nr nc.
Proof. intros H. unfold total. apply (rsum_perm (fun i => rowsum n nc i) s nr H). Qed.

Theorem mi_perm_rows s n nr nc : is_perm s nr -> mi (permr s n) nr nc = mi n nr nc.
Proof. intros H.
  set (G := fun i => rsum (fun j => mi_cell (total n nr nc) (rsum (fun i0 => rowsum n nc i0) nr) (rsum (fun j0 => colsum n nr j0) nc)
                                       (rowsum n nc i) (colsum n nr j) (n i j)) nc).
  transitivity (rsum (fun i => G (s i)) nr); [|apply (rsum_perm G s nr H)].
  unfold mi. cbv zeta.
  assert (E1 : total (permr s n) nr nc = total n nr nc) by (apply total_permr; exact H).
  assert (E2 : rsum (fun i => rowsum (permr s n) nc i) nr = rsum (fun i => rowsum n nc i) nr) by (exact E1).
  assert (E3 : rsum (fun j => colsum (permr s n) nr j) nc = rsum (fun j => colsum n nr j) nc) by (apply rsum_ext; intros j _; apply colsum_permr; exact H).
  rewrite E1, E2, E3. apply rsum_ext. intros i _. unfold G. apply rsum_ext. intros j _. rewrite (colsum_permr s n nr j H). reflexivity. Qed.

Lemma entropy_ext c c' K nl : (forall i, (i < K)%nat -> c i = c' i) -> entropy c K nl = entropy c' K nl.
Proof. intros H. unfold entropy. destruct (nl =? 0)%nat; [reflexivity|]. cbv zeta.
  rewrite (rsum_ext (fun i => INR (c i)) (fun i => INR (c' i)) K) by (intros i Hi; rewrite (H i Hi); reflexivity).
  f_equal. apply rsum_ext. intros i Hi. rewrite (H i Hi). reflexivity. Qed.
Lemma entropy_perm c s K nl : is_perm s K -> entropy (fun i => c (s i)) K nl = entropy c K nl.
Proof. intros H. unfold entropy. destruct (nl =? 0)%nat; [reflexivity|]. cbv zeta.
  rewrite (rsum_perm (fun i => INR (c i)) s K H). f_equal.
  apply (rsum_perm (fun i => if (c i =? 0)%nat then 0 else INR (c i) / rsum (fun i0 => INR (c i0)) K * (ln (INR (c i)) - ln (rsum (fun i0 => INR (c i0)) K))) s K H). Qed.

Theorem emi_perm_rows s n nr nc N : is_perm s nr -> emi (permr s n) nr nc N = emi n nr nc N.
Proof. intros H. unfold emi.
  rewrite <- (rsum_perm (fun i => rsum (fun j => emi_cell N (rcount n nc i) (ccount n nr j)) nc) s nr H).
  apply rsum_ext. intros i _. apply rsum_ext. intros j _. rewrite (ccount_permr s n nr j H). reflexivity. Qed.

(* ami_perm_rows: renaming the reference classes *)
Theorem ami_perm_rows s n nr nc nlabels : is_perm s nr -> ami (permr s n) nr nc nlabels = ami n nr nc nlabels.
Proof. intros H. unfold ami. destruct (_ || _)%bool; [reflexivity|]. cbv zeta.
  rewrite (mi_perm_rows s n nr nc H), (emi_perm_rows s n nr nc nlabels H).
  change (rcount (permr s n) nc) with (fun i => rcount n nc (s i)). rewrite (entropy_perm (rcount n nc) s nr nlabels H).
  rewrite (entropy_ext (ccount (permr s n) nr) (ccount n nr) nc nlabels) by (intros j _; apply ccount_permr; exact H).
  reflexivity. Qed.

(* columns: through the transposition *)
Lemma permc_swap t n : permc t n = swap (permr t (swap n)).
Proof. reflexivity. Qed.
Theorem ami_perm_cols t n nr nc nlabels : is_perm t nc -> ami (permc t n) nr nc nlabels = ami n nr nc nlabels.
Proof. intros H. rewrite permc_swap. rewrite (ami_sym (permr t (swap n)) nc nr). rewrite (ami_perm_rows t (swap n) nc nr nlabels H). apply ami_sym. Qed.
Theorem mi_perm_cols t n nr nc : is_perm t nc -> mi (permc t n) nr nc = mi n nr nc.
Proof. intros H. rewrite permc_swap. rewrite (mi_sym (permr t (swap n)) nc nr). rewrite (mi_perm_rows t (swap n) nc nr H). apply mi_sym. Qed.
Theorem emi_perm_cols t n nr nc N : is_perm t nc -> emi (permc t n) nr nc N = emi n nr nc N.
Proof. intros H. rewrite permc_swap. rewrite (emi_sym (permr t (swap n)) nc nr). rewrite (emi_perm_rows t (swap n) nc nr N H). apply emi_sym. Qed.

(* ami_relabel: AMI does not depend on how the classes of the two annotations are numbered *)
Theorem ami_relabel s t n nr nc nlabels : is_perm s nr -> is_perm t nc ->
  ami (fun i j => n (s i) (t j)) nr nc nlabels = ami n nr nc nlabels.
Proof. intros Hs Ht. change (fun i j => n (s i) (t j)) with (permr s (permc t n)).
  rewrite (ami_perm_rows s (permc t n) nr nc nlabels Hs). apply ami_perm_cols. exact Ht. Qed.
Theorem mi_relabel s t n nr nc : is_perm s nr -> is_perm t nc -> mi (fun i j => n (s i) (t j)) nr nc = mi n nr nc.
Proof. intros Hs Ht. change (fun i j => n (s i) (t j)) with (permr s (permc t n)).
  rewrite (mi_perm_rows s (permc t n) nr nc Hs). apply mi_perm_cols. exact Ht. Qed.
Theorem emi_relabel s t n nr nc N : is_perm s nr -> is_perm t nc -> emi (fun i j => n (s i) (t j)) nr nc N = emi n nr nc N.
Proof. intros Hs Ht. change (fun i j => n (s i) (t j)) with (permr s (permc t n)).
  rewrite (emi_perm_rows s (permc t n) nr nc N Hs). apply emi_perm_cols. exact Ht. Qed.

(* the hypothesis is satisfiable: exchanging classes 0 and 2 of three *)
Example is_perm_ex : is_perm (fun i => match i with 0 => 2 | 2 => 0 | _ => i end)%nat 3.
Proof. unfold is_perm. cbn [map seq]. apply perm_trans with [2; 0; 1]%nat; [apply perm_skip; apply perm_swap|].
  apply perm_trans with [0; 2; 1]%nat; [apply perm_swap|apply perm_skip; apply perm_swap]. Qed.

Print Assumptions emi_sym.
Print Assumptions ami_sym.
Print Assumptions ami_perm_rows.
Print Assumptions ami_perm_cols.
Print Assumptions ami_relabel.
Print Assumptions mi_relabel.
Print Assumptions emi_relabel.
