(* The default parameter values in force (signatures translated from /repo on this run) are the documented ones. *)
From Coq Require Import List String ZArith Bool Arith.
From ME Require Import Model.DefaultsSpec Gen.Defaults.
Import ListNotations.
Open Scope string_scope.

Theorem defaults_as_documented : forallb (key_default_ok signature_defaults) documented_defaults = true.
Proof. vm_compute. reflexivity. Qed.
Theorem docstring_defaults_consistent : forallb (doc_row_ok signature_defaults) docstring_defaults = true.
Proof. vm_compute. reflexivity. Qed.
Theorem defaults_not_vacuous : Nat.leb 150 (List.length signature_defaults) = true /\ Nat.leb 40 (List.length docstring_defaults) = true
  /\ Nat.leb 70 (List.length documented_defaults) = true.
Proof. vm_compute. repeat split; reflexivity. Qed.
