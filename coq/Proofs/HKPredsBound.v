(* A size bound for the `preds` dict produced by Matching.layering: its keys are distinct right vertices of the graph. *)
From Coq Require Import List Arith Bool Lia.
From ME Require Import Model.Dict Model.Matching.
Import ListNotations.

Definition esize (g : graph) : nat := length (concat (map snd g)).
Definition inV (g : graph) (v : nat) : Prop := In v (concat (map snd g)).
Definition keys_in {V} (g : graph) (d : dict V) : Prop := forall v, In v (keys d) -> inV g v.

Lemma nbrs_inV g u v : In v (nbrs g u) -> inV g v.
Proof. unfold nbrs. destruct (dget g u) as [l|] eqn:E; [|intros []]. intros H. apply dget_In in E.
  unfold inV. apply in_concat. exists l. split; [|exact H]. change l with (snd (u, l)). now apply in_map. Qed.
Lemma keys_in_dset {V} g (d : dict V) k x : keys_in g d -> inV g k -> keys_in g (dset d k x).
Proof. intros H Hk v Hv. rewrite keys_dset in Hv. destruct (dmem d k); [auto|]. apply in_app_iff in Hv. destruct Hv as [Hv|[<-|[]]]; auto. Qed.
Lemma add_new_in g nl v u : keys_in g nl -> inV g v -> keys_in g (add_new nl v u).
Proof. intros H Hv. unfold add_new. destruct (dget nl v); now apply keys_in_dset. Qed.
Lemma scan_u_in g preds u : forall nl, keys_in g nl -> keys_in g (scan_u g preds nl u).
Proof. unfold scan_u. pose proof (nbrs_inV g u) as HV. revert HV. generalize (nbrs g u). intros vs. induction vs as [|v t IH]; intros HV nl H; [exact H|].
  cbn [fold_left]. apply IH; [intros x Hx; apply HV; now right|]. destruct (dmem preds v); [exact H|]. apply add_new_in; [exact H|apply HV; now left]. Qed.
Lemma scan_layer_in g preds layer : forall nl, keys_in g nl -> keys_in g (fold_left (scan_u g preds) layer nl).
Proof. induction layer as [|u t IH]; intros nl H; [exact H|]. cbn [fold_left]. apply IH. now apply scan_u_in. Qed.

Definition st_preds4 (st : lstate) : dict (list nat) := fst (fst (fst st)).
Lemma absorb_fold_in g m nl : forall st, (forall e, In e nl -> inV g (fst e)) ->
  NoDup (keys (st_preds4 st)) /\ keys_in g (st_preds4 st) ->
  NoDup (keys (st_preds4 (fold_left (absorb m) nl st))) /\ keys_in g (st_preds4 (fold_left (absorb m) nl st)).
Proof. induction nl as [|e t IH]; intros st Hn H; [exact H|]. cbn [fold_left]. apply IH; [intros e' He'; apply Hn; now right|].
  destruct st as [[[preds pred] layer] unm]. destruct H as [H1 H2]. unfold absorb. cbn [fst snd]. destruct (dget m (fst e)); unfold st_preds4; cbn [fst snd];
  (split; [apply NoDup_keys_dset; exact H1|apply keys_in_dset; [exact H2|apply Hn; now left]]). Qed.

Lemma layering_preds_in g m : forall f preds pred layer unm preds' pred' unm',
  NoDup (keys preds) -> keys_in g preds -> layering f g m preds pred layer unm = Some (preds', pred', unm') ->
  NoDup (keys preds') /\ keys_in g preds'.
Proof. induction f as [|f IH]; intros preds pred layer unm preds' pred' unm' H1 H2 E; [discriminate|]. cbn [layering] in E.
  destruct layer as [|u l]; [injection E as <- <- <-; auto|]. destruct unm as [|x xs]; [|injection E as <- <- <-; auto].
  set (nl := fold_left (scan_u g preds) (u :: l) []) in E.
  assert (Hnl : keys_in g nl) by (apply scan_layer_in; intros v []).
  pose proof (absorb_fold_in g m nl (preds, pred, [], []) (fun e He => Hnl (fst e) (in_map fst _ _ He)) (conj H1 H2)) as [A B].
  destruct (fold_left (absorb m) nl (preds, pred, [], [])) as [[[p1 q1] l1] u1]. unfold st_preds4 in A, B. cbn [fst] in A, B.
  eapply IH; eauto. Qed.

Theorem layering_preds_bound g m f pred layer preds' pred' unm' :
  layering f g m [] pred layer [] = Some (preds', pred', unm') -> length preds' <= esize g.
Proof. intros E. destruct (layering_preds_in g m f [] pred layer [] preds' pred' unm' (NoDup_nil _) (fun v (H : In v []) => match H with end) E) as [A B].
  unfold esize. rewrite <- (map_length fst preds'). apply NoDup_incl_length; [exact A|exact B]. Qed.
