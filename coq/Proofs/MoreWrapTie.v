(* Second group of wrapper ties (programs of Gen/WrapFuncs.v over the table callee_sigs2; meaning: Model/WrapExp.v):
     chord.overseg / underseg / seg                                 = Model.ChordPipeline
     util.intervals_to_boundaries / intervals_to_durations / boundaries_to_intervals = Model.Intervals
     segment.deviation                                              = Model.EventMetrics.deviation
     chord.merge_chord_intervals (with its loop)                    = Model.ChordPipeline.merge_chord_intervals
   Callees: the models' own functions; the NumPy functions met in these bodies (np.round, np.ravel, np.unique, np.diff,
   np.abs, x.flatten(), np.allclose, np.subtract.outer, x.min(axis), np.median) are primitives whose meaning is fixed in
   [more_ext] below by the same list functions the models use (round_dec, flat, sort_uniq, isclose, median ...); what
   is proved is the composition: which primitive is applied to what, in which order, with which arguments. *)
From Coq Require Import String.
From Coq Require Import List Bool Arith ZArith QArith Qabs Qminmax Lia.
From ME Require Import Model.Prelude Model.WrapExp.
From ME Require Model.Events Model.EventMetrics Model.Intervals Model.ChordPipeline.
From ME Require Import Gen.WrapFuncs Proofs.WrapFuncsTie.
Import ListNotations.
Open Scope Q_scope.

(* ---------- the callees of the second group ---------- *)
Definition lift_x (r : res xval) : wout wval := match r with Ok x => WOK (WX x) | Raise e => WEXN e end.
Definition z2n (z : Z) : option nat := if (0 <=? z)%Z then Some (Z.to_nat z) else None.
Definition rnd2 (q : nat) (v : Q * Q) : Q * Q := (Intervals.round_dec q (fst v), Intervals.round_dec q (snd v)).
(* np.allclose(a, b) on 1-d arrays, with NumPy's broadcasting *)
Definition np_allclose (a b : list Q) : res bool :=
  if Nat.eqb (length b) (length a) then Ok (Intervals.all2 Intervals.isclose a b)
  else match b with
       | [b0] => Ok (forallb (fun x => Intervals.isclose x b0) a)
       | _ => match a with [a0] => Ok (forallb (fun y => Intervals.isclose a0 y) b) | _ => Raise ValueError end
       end.
(* x.min(axis): a zero-size reduction raises ValueError *)
Definition rowmin (row : list Q) : option Q := match row with [] => None | x :: t => Some (fold_left Qmin t x) end.
Fixpoint all_some {A} (l : list (option A)) : option (list A) :=
  match l with [] => Some [] | Some x :: t => option_map (cons x) (all_some t) | None :: _ => None end.
Definition mcol (m : list (list Q)) (j : nat) : list Q := map (fun row => nth j row 0) m.
Definition min_axis (m : list (list Q)) (axis : Z) : option (list Q) :=
  if (axis =? 1)%Z then all_some (map rowmin m)
  else match m with [] => None | r0 :: _ => all_some (map (fun j => rowmin (mcol m j)) (seq 0 (length r0))) end.
Definition more_ext (f : extfn) (vs : list wval) : wout wval :=
  match f, vs with
  | X_chord_dhd, [WIvs r; WIvs e] => lift_x (ChordPipeline.directional_hamming_distance r e)
  | X_chord_overseg, [WIvs r; WIvs e] => lift_x (ChordPipeline.overseg r e)
  | X_chord_underseg, [WIvs r; WIvs e] => lift_x (ChordPipeline.underseg r e)
  | X_util_validate_intervals, [WIvs l] => lift_u (Intervals.validate_intervals l)
  | X_util_intervals_to_boundaries, [WIvs l; WZ 5%Z] => WOK (WQs (EventMetrics.intervals_to_boundaries l))
  | X_segment_validate_boundary, [WIvs r; WIvs e; WB _] => lift_u (EventMetrics.validate_boundary r e)
  | X_np_round, [WIvs l; WZ q] => match z2n q with Some n => WOK (WIvs (map (rnd2 n) l)) | None => WUNM end
  | X_np_round, [WQs l; WZ q] => match z2n q with Some n => WOK (WQs (map (Intervals.round_dec n) l)) | None => WUNM end
  | X_np_ravel, [WIvs l] => WOK (WQs (Intervals.flat l))
  | X_np_ravel, [WQs l] => WOK (WQs l)
  | X_np_unique, [WQs l] => WOK (WQs (Intervals.sort_uniq l))
  | X_np_unique, [WIvs l] => WOK (WQs (Intervals.sort_uniq (Intervals.flat l)))
  | X_np_diff, [WIvs l; WZ 1%Z; WZ (-1)%Z] => WOK (WCol (map (fun v => snd v - fst v) l))
  | X_np_abs, [WCol l] => WOK (WCol (map Qabs l))
  | X_np_abs, [WQs l] => WOK (WQs (map Qabs l))
  | X_np_abs, [WMat m] => WOK (WMat (map (map Qabs) m))
  | X_nd_flatten, [WCol l] => WOK (WQs l)
  | X_nd_flatten, [WIvs l] => WOK (WQs (Intervals.flat l))
  | X_np_allclose, [WQs a; WQs b] => match np_allclose a b with Ok c => WOK (WB c) | Raise e => WEXN e end
  | X_np_subtract_outer, [WQs a; WQs b] => WOK (WMat (map (fun x => map (fun y => x - y) b) a))
  | X_nd_min, [WMat m; WZ ax] => match min_axis m ax with Some l => WOK (WQs l) | None => WEXN ValueError end
  | X_np_median, [WQs l] => WOK (WX (EventMetrics.median l))
  | _, _ => WUNM
  end.
Theorem callee_sigs2_expected :
  map (fun s => (fst s, map fst (snd s))) callee_sigs2 =
  [("chord.directional_hamming_distance", ["reference_intervals"; "estimated_intervals"]);
   ("chord.overseg", ["reference_intervals"; "estimated_intervals"]);
   ("chord.underseg", ["reference_intervals"; "estimated_intervals"]);
   ("util.validate_intervals", ["intervals"]);
   ("util.intervals_to_boundaries", ["intervals"; "q"]);
   ("segment.validate_boundary", ["reference_intervals"; "estimated_intervals"; "trim"]);
   ("chord.encode_many", ["chord_labels"; "reduce_extended_chords"]);
   ("ndarray.flatten", ["self"]); ("ndarray.min", ["self"; "axis"]); ("np.abs", ["x"]); ("np.allclose", ["a"; "b"]);
   ("np.diff", ["a"; "n"; "axis"]); ("np.median", ["a"]); ("np.ravel", ["a"]); ("np.round", ["a"; "decimals"]);
   ("np.subtract.outer", ["A"; "B"]); ("np.unique", ["ar"])]%string.
Proof. vm_compute. reflexivity. Qed.
Ltac ev_cbv ::=
  cbv [run_tree ev ev_list chk wbind ebind ebind2 pure_only ret nth_error app
       w_len w_size w_float w_div w_cmp w_trim w_truth as_q more_ext to_oq of_oq lift_u lift_m lift_x
       w_init w_tail w_sub w_min w_pairs as_x xsubx].
Ltac start2 g :=
  unfold wrun;
  (let t := eval vm_compute in (wp_tree callee_sigs2 g) in change (wp_tree callee_sigs2 g) with t);
  ev_cbv.
Ltac atom_of c ::=
  lazymatch c with
  | match ?a with _ => _ end => atom_of a
  | bind ?a _ => atom_of a
  | option_map _ ?a => atom_of a
  | (?a || _)%bool => atom_of a
  | (?a && _)%bool => atom_of a
  | negb ?a => atom_of a
  | _ => c
  end.

Definition lift_x1 (r : res xval) : wout (list wval) := match r with Ok x => WOK [WX x] | Raise e => WEXN e end.
Ltac xleaf := repeat (apply Forall2_cons; [first [apply weq_refl | cbv [weq v_x xeq]; first [reflexivity | exact I]] |]); apply Forall2_nil.
Theorem chord_overseg_tie : forall r e,
  wout_eq (wrun callee_sigs2 gen_chord_overseg more_ext [WIvs r; WIvs e]) (lift_x1 (ChordPipeline.overseg r e)).
Proof.
  intros. start2 gen_chord_overseg. unfold ChordPipeline.overseg, lift_x1.
  destruct (ChordPipeline.directional_hamming_distance r e) as [x|x]; simp; [|reflexivity].
  destruct x; xleaf.
Qed.
Theorem chord_underseg_tie : forall r e,
  wout_eq (wrun callee_sigs2 gen_chord_underseg more_ext [WIvs r; WIvs e]) (lift_x1 (ChordPipeline.underseg r e)).
Proof.
  intros. start2 gen_chord_underseg. unfold ChordPipeline.underseg, lift_x1.
  destruct (ChordPipeline.directional_hamming_distance e r) as [x|x]; simp; [|reflexivity].
  destruct x; xleaf.
Qed.
Theorem chord_seg_tie : forall r e,
  wout_eq (wrun callee_sigs2 gen_chord_seg more_ext [WIvs r; WIvs e]) (lift_x1 (ChordPipeline.seg r e)).
Proof.
  intros. start2 gen_chord_seg. unfold ChordPipeline.seg, lift_x1.
  destruct (ChordPipeline.underseg r e) as [u|x]; simp; [|reflexivity].
  destruct (ChordPipeline.overseg r e) as [o|x]; simp; [|reflexivity].
  unfold ChordPipeline.py_min. change ChordPipeline.xltb with xltb. destruct (xltb o u); xleaf.
Qed.

(* ---------- util.intervals_to_boundaries / intervals_to_durations / boundaries_to_intervals ---------- *)
Lemma flat_rnd q l : Intervals.flat (map (rnd2 q) l) = map (Intervals.round_dec q) (Intervals.flat l).
Proof. induction l as [|v l IH]; [reflexivity|]. unfold Intervals.flat in *. cbn [map flat_map app]. now rewrite IH. Qed.
Definition lift_qs (l : list Q) : wout (list wval) := WOK [WQs l].
Theorem util_intervals_to_boundaries_tie : forall (l : list (Q * Q)) (q : nat),
  wout_eq (wrun callee_sigs2 gen_util_intervals_to_boundaries more_ext [WIvs l; WZ (Z.of_nat q)])
          (lift_qs (Intervals.intervals_to_boundaries q l)).
Proof.
  intros. start2 gen_util_intervals_to_boundaries. unfold z2n.
  assert (H : (0 <=? Z.of_nat q)%Z = true) by (apply Z.leb_le; lia). rewrite H, Nat2Z.id. simp.
  unfold Intervals.intervals_to_boundaries, lift_qs. rewrite flat_rnd. cbn [wout_eq]. xleaf.
Qed.
Definition lift_qsr (r : res (list Q)) : wout (list wval) := match r with Ok l => WOK [WQs l] | Raise e => WEXN e end.
Theorem util_intervals_to_durations_tie : forall l : list (Q * Q),
  wout_eq (wrun callee_sigs2 gen_util_intervals_to_durations more_ext [WIvs l]) (lift_qsr (Intervals.intervals_to_durations l)).
Proof.
  intros. start2 gen_util_intervals_to_durations. unfold Intervals.intervals_to_durations, lift_qsr.
  destruct (Intervals.validate_intervals l) as [[]|x]; simp; [|reflexivity]. rewrite map_map. cbn [wout_eq]. xleaf.
Qed.
Definition lift_ivs (r : res (list (Q * Q))) : wout (list wval) := match r with Ok l => WOK [WIvs l] | Raise e => WEXN e end.
Theorem util_boundaries_to_intervals_tie : forall b : list Q,
  wout_eq (wrun callee_sigs2 gen_util_boundaries_to_intervals more_ext [WQs b]) (lift_ivs (Intervals.boundaries_to_intervals b)).
Proof.
  intros. start2 gen_util_boundaries_to_intervals. unfold Intervals.boundaries_to_intervals, Intervals.adjacent_pairs, lift_ivs, np_allclose.
  destruct b as [|a0 [|a1 b']].
  - cbn [Intervals.sort_uniq fold_right length Nat.eqb Intervals.all2]. simp. cbn [bind wout_eq]. xleaf.
  - cbn [Intervals.sort_uniq fold_right Intervals.ins_uniq length Nat.eqb]. simp. repeat (split_atom; simp); cbn [bind wout_eq]; first [reflexivity | xleaf].
  - set (b := a0 :: a1 :: b'). destruct (Intervals.sort_uniq b) as [|u0 [|u1 u']]; simp;
      repeat (split_atom; simp); cbn [bind wout_eq]; first [reflexivity | xleaf].
Qed.

(* ---------- segment.deviation ---------- *)
Definition lift_xx (r : res (xval * xval)) : wout (list wval) :=
  match r with Ok (a, b) => WOK [WX a; WX b] | Raise e => WEXN e end.
Lemma rowmin_map (f : Q -> Q) e0 et : rowmin (map f (e0 :: et)) = Some (EventMetrics.min_over f e0 et).
Proof. reflexivity. Qed.
Lemma all_some_map {A B} (g : A -> B) l : all_some (map (fun x => Some (g x)) l) = Some (map g l).
Proof. induction l; cbn; [reflexivity|]. now rewrite IHl. Qed.
Lemma rows_min (f : Q -> Q -> Q) e0 et : forall rs,
  all_some (map rowmin (map (fun r => map (f r) (e0 :: et)) rs)) = Some (map (fun r => EventMetrics.min_over (f r) e0 et) rs).
Proof.
  intros rs. rewrite map_map.
  rewrite (map_ext _ (fun r => Some (EventMetrics.min_over (f r) e0 et))) by (intros; apply rowmin_map). apply all_some_map.
Qed.
Lemma outer_abs es rs : map (map Qabs) (map (fun x : Q => map (fun y => x - y) es) rs) = map (fun x => map (fun y => Qabs (x - y)) es) rs.
Proof. rewrite map_map. apply map_ext. intros x. apply map_map. Qed.
Lemma map_nth_seq {A B} (h : A -> B) (d : A) : forall l, map (fun j => h (nth j l d)) (seq 0 (length l)) = map h l.
Proof.
  induction l as [|x l IH]; [reflexivity|]. cbn [length seq map nth]. f_equal.
  rewrite <- seq_shift, map_map. exact IH.
Qed.
Lemma cols_min (f : Q -> Q -> Q) r0 rt es :
  all_some (map (fun j => rowmin (mcol (map (fun r => map (f r) es) (r0 :: rt)) j)) (seq 0 (length es)))
  = Some (map (fun e => EventMetrics.min_over (fun r => f r e) r0 rt) es).
Proof.
  rewrite <- (all_some_map (fun e => EventMetrics.min_over (fun r => f r e) r0 rt)).
  rewrite <- (map_nth_seq (fun e => Some (EventMetrics.min_over (fun r => f r e) r0 rt)) 0 es).
  f_equal. apply map_ext_in. intros j Hj. apply in_seq in Hj.
  unfold mcol. rewrite map_map.
  replace (map (fun x => nth j (map (f x) es) 0) (r0 :: rt)) with (map (fun r => f r (nth j es 0)) (r0 :: rt)).
  - reflexivity.
  - apply map_ext. intros r. rewrite (nth_indep (map (f r) es) 0 (f r 0)) by (rewrite map_length; lia). symmetry. apply map_nth.
Qed.
Lemma min_axis0_outer (f : Q -> Q -> Q) r0 rt es :
  min_axis (map (fun r => map (f r) es) (r0 :: rt)) 0 = Some (map (fun e => EventMetrics.min_over (fun r => f r e) r0 rt) es).
Proof. unfold min_axis. change (0 =? 1)%Z with false. cbv iota. cbn [map]. rewrite map_length. exact (cols_min f r0 rt es). Qed.
Lemma min_axis1_outer (f : Q -> Q -> Q) e0 et rs :
  min_axis (map (fun r => map (f r) (e0 :: et)) rs) 1 = Some (map (fun r => EventMetrics.min_over (f r) e0 et) rs).
Proof. unfold min_axis. change (1 =? 1)%Z with true. cbv iota. apply rows_min. Qed.
Theorem segment_deviation_tie : forall r e trim,
  wout_eq (wrun callee_sigs2 gen_segment_deviation more_ext [WIvs r; WIvs e; WB trim])
          (lift_xx (EventMetrics.deviation r e trim)).
Proof.
  intros. start2 gen_segment_deviation. unfold EventMetrics.deviation, EventMetrics.deviation_b, EventMetrics.trimmed, EventMetrics.trim_ends, lift_xx.
  destruct (EventMetrics.validate_boundary r e) as [[]|x]; simp; [|reflexivity].
  assert (K : forall R E : list Q,
    wout_eq
      match match (if (Z.of_nat (length R) =? 0)%Z then WB (Z.of_nat (length R) =? 0)%Z else WB (Z.of_nat (length E) =? 0)%Z) with
            | WNone => Some false | WB b => Some b | WZ z => Some (negb (z =? 0)%Z) | WQ q => Some (negb (qeqb q 0)) | _ => None end with
      | Some true => WOK [WX NaN; WX NaN]
      | Some false =>
          wbind (match min_axis (map (map Qabs) (map (fun x : Q => map (fun y : Q => x - y) E) R)) 0 with Some l => WOK (WQs l) | None => WEXN ValueError end)
            (fun a => wbind (match a with WQs l => WOK (WX (EventMetrics.median l)) | _ => WUNM end)
            (fun a0 => wbind (match min_axis (map (map Qabs) (map (fun x : Q => map (fun y : Q => x - y) E) R)) 1 with Some l => WOK (WQs l) | None => WEXN ValueError end)
            (fun a1 => wbind (match a1 with WQs l => WOK (WX (EventMetrics.median l)) | _ => WUNM end)
            (fun a2 => WOK [a2; a0]))))
      | None => WUNM end
      match Ok match R, E with
               | r0 :: rt, e0 :: et =>
                   (EventMetrics.median (map (fun r1 => EventMetrics.min_over (fun e1 => Qabs (r1 - e1)) e0 et) (r0 :: rt)),
                    EventMetrics.median (map (fun e1 => EventMetrics.min_over (fun r1 => Qabs (r1 - e1)) r0 rt) (e0 :: et)))
               | _, _ => (NaN, NaN) end with
      | Ok (a, b) => WOK [WX a; WX b] | Raise e0 => WEXN e0 end).
  { intros R E. destruct R as [|r0 rt]; [cbn; xleaf|]. destruct E as [|e0 et]; [cbn; xleaf|].
    rewrite outer_abs.
    rewrite (min_axis0_outer (fun x y => Qabs (x - y)) r0 rt (e0 :: et)), (min_axis1_outer (fun x y => Qabs (x - y)) e0 et (r0 :: rt)).
    cbn [length Z.of_nat Z.eqb wbind wout_eq]. xleaf. }
  destruct trim; apply K.
Qed.


(* ---------- chord.merge_chord_intervals ---------- *)
Definition enc_root (e : ChordParse.enc) : Z := fst (fst e).
Definition enc_bm (e : ChordParse.enc) : list Z := snd (fst e).
Definition enc_bass (e : ChordParse.enc) : Z := snd e.
Definition merge_ext (f : extfn) (vs : list wval) : wout wval :=
  match f, vs with
  | X_chord_encode_many, [WStrs labels; WB red] =>
      match ChordPipeline.encode_many labels red with
      | Ok encs => WOK (WTup [WZs (map enc_root encs); WZss (map enc_bm encs); WZs (map enc_bass encs)])
      | Raise e => WEXN e end
  | _, _ => WUNM
  end.
Ltac ev_cbv ::=
  cbv [run_tree ev ev_list chk wbind ebind ebind2 pure_only ret nth_error app
       w_len w_size w_float w_div w_cmp w_trim w_truth as_q merge_ext to_oq of_oq lift_u lift_m lift_x
       w_init w_tail w_sub w_min w_pairs as_x xsubx
       w_column w_neany w_append_pair w_set_last_snd w_asarray all_elems w_elems].
Definition row_of (p : (Q * Q) * ChordParse.enc) : list wval :=
  [WQ (fst (fst p)); WQ (snd (fst p)); WZ (enc_root (snd p)); WZs (enc_bm (snd p)); WZ (enc_bass (snd p))].
Lemma zip5 : forall (ivs : list (Q * Q)) (encs : list ChordParse.enc) n, (length ivs <= n)%nat ->
  zip_rows [map WQ (map fst ivs); map WQ (map snd ivs); map WZ (map enc_root encs); map WZs (map enc_bm encs);
            map WZ (map enc_bass encs)] n = map row_of (combine ivs encs).
Proof.
  induction ivs as [|v ivs IH]; intros encs n L.
  - destruct n; [reflexivity|]. reflexivity.
  - destruct n; [cbn in L; lia|]. destruct encs as [|e encs]; [reflexivity|].
    cbn [map zip_rows combine]. f_equal. apply IH. cbn in L. lia.
Qed.
Lemma zneq_leqb : forall a b, zneq_any a b = negb (ChordCmp.leqb a b).
Proof. induction a as [|x a IH]; destruct b as [|y b]; cbn; try reflexivity. rewrite IH. now destruct (x =? y)%Z. Qed.
Lemma set_last_snd_app d c q : set_last_snd (d ++ [c]) q = d ++ [(fst c, q)].
Proof. induction d as [|x d IH]; [reflexivity|]. cbn [app set_last_snd]. rewrite IH. destruct (d ++ [c]) eqn:E; [destruct d; discriminate|]. reflexivity. Qed.

Theorem chord_merge_chord_intervals_tie : forall (ivs : list (Q * Q)) (labels : list str),
  wout_eq (wrun callee_sigs2 gen_chord_merge_chord_intervals merge_ext [WIvs ivs; WStrs labels])
          (lift_ivs (ChordPipeline.merge_chord_intervals ivs labels)).
Proof.
  intros. start2 gen_chord_merge_chord_intervals. unfold ChordPipeline.merge_chord_intervals, lift_ivs.
  destruct (ChordPipeline.encode_many labels true) as [encs|x]; simp; [|reflexivity].
  cbn [length Nat.eqb]. simp.
  match goal with |- context [loop_run ?f ?rows ?st0] => set (STEP := f); set (ROWS := rows) end.
  assert (HR : ROWS = map row_of (combine ivs encs)) by (unfold ROWS; apply zip5; rewrite !map_length; lia).
  rewrite HR. clear HR ROWS.
  (* one step from a state whose previous chord is known *)
  assert (S1 : forall v e m pr pb ps, (length m =? 0)%nat = false ->
            STEP (row_of (v, e) ++ [WIvs m; WZ pr; WZs pb; WZ ps]) =
            if ChordPipeline.enc_eqb e (pr, pb, ps) then WOK [WIvs (set_last_snd m (snd v)); WZ pr; WZs pb; WZ ps]
            else WOK [WIvs (m ++ [v]); WZ (enc_root e); WZs (enc_bm e); WZ (enc_bass e)]).
  { intros [v1 v2] [[r b] s] m pr pb ps Hm. subst STEP. unfold row_of, enc_root, enc_bm, enc_bass, ChordPipeline.enc_eqb.
    cbn [fst snd app]. cbv beta iota. rewrite zneq_leqb, Hm.
    destruct (r =? pr)%Z, (ChordCmp.leqb b pb), (s =? ps)%Z; cbn [negb andb orb]; cbv beta iota; reflexivity. }
  (* the loop once a first group is open *)
  assert (L1 : forall rows pr pb ps cur done,
            exists a b c, loop_run STEP (map row_of rows) [WIvs (done ++ [cur]); WZ pr; WZs pb; WZ ps]
                          = WOK [WIvs (done ++ ChordPipeline.fuse (pr, pb, ps) cur rows); a; b; c]).
  { induction rows as [|[v e] rows IH]; intros pr pb ps cur done; [cbn; eauto|].
    cbn [map loop_run ChordPipeline.fuse]. rewrite S1 by (rewrite app_length; cbn; destruct (length done); reflexivity).
    destruct (ChordPipeline.enc_eqb e (pr, pb, ps)); cbn [wbind].
    - rewrite set_last_snd_app. apply (IH pr pb ps (fst cur, snd v) done).
    - destruct e as [[r b] s]. unfold enc_root, enc_bm, enc_bass. cbn [fst snd].
      destruct (IH r b s v (done ++ [cur])) as (a' & b' & c' & E). rewrite E, <- app_assoc. cbn [app]. eauto. }
  unfold Intervals.iv, ChordParse.enc in *. destruct (combine ivs encs) as [|[v e] rows].
  - cbn [map loop_run wbind]. cbv beta iota. cbn [app]. cbv beta iota. cbn [wout_eq ChordPipeline.fuse_rows]. xleaf.
  - cbn [map loop_run ChordPipeline.fuse_rows].
    assert (S0 : STEP (row_of (v, e) ++ [WIvs []; WNone; WNone; WNone]) = WOK [WIvs ([] ++ [v]); WZ (enc_root e); WZs (enc_bm e); WZ (enc_bass e)]).
    { destruct e as [[r b] s]. destruct v as [v1 v2]. subst STEP. unfold row_of, enc_root, enc_bm, enc_bass. cbn [fst snd app]. cbv beta iota. reflexivity. }
    rewrite S0. cbn [wbind]. destruct e as [[r b] s]. unfold enc_root, enc_bm, enc_bass. cbn [fst snd].
    destruct (L1 rows r b s v []) as (a' & b' & c' & E). rewrite E. cbn [wbind app]. cbv beta iota. cbn [app].
    cbv beta iota. cbn [wout_eq]. xleaf.
Qed.

Print Assumptions callee_sigs2_expected.
Print Assumptions chord_overseg_tie.
Print Assumptions chord_underseg_tie.
Print Assumptions chord_seg_tie.
Print Assumptions util_intervals_to_boundaries_tie.
Print Assumptions util_intervals_to_durations_tie.
Print Assumptions util_boundaries_to_intervals_tie.
Print Assumptions segment_deviation_tie.
Print Assumptions chord_merge_chord_intervals_tie.
