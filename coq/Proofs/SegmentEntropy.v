(* C16, real-valued layer: the entropic scores of mir_eval/segment.py (MI, entropy, NMI, NCE over/under/F, V) as
   R-valued formulas over the contingency table, written the way the code computes them (guards for the
   0 ln 0 = 0 cells, ln a - ln b instead of ln (a / b), scipy.stats.entropy's column normalisation), and the
   identities MI(a,b) = MI(b,a), over(a,b) = under(b,a), vmeasure = nce(marginal=True), V = harmonic mean.
   THIS FILE USES Coq's Reals: its theorems depend on the standard axioms of the real numbers (listed by the
   Print Assumptions at the end); nothing outside this file depends on it. *)
From Coq Require Import List Arith Lia Reals Lra.
From ME Require Import Model.Prelude Model.SegmentCluster Proofs.SegmentClusterProps.
Import ListNotations.
Local Open Scope R_scope.

(* ------------------------------------------------------------------------------------------------ *)
(* finite sums                                                                                        *)
(* ------------------------------------------------------------------------------------------------ *)
Fixpoint rsum (f : nat -> R) (n : nat) : R := match n with O => 0 | S k => rsum f k + f k end.
Lemma rsum_ext f g n : (forall i, (i < n)%nat -> f i = g i) -> rsum f n = rsum g n.
Proof. induction n as [|n IH]; intros H; [reflexivity|]. cbn [rsum]. rewrite IH by (intros i Hi; apply H; lia). rewrite (H n) by lia. reflexivity. Qed.
Lemma rsum_plus f g n : rsum (fun i => f i + g i) n = rsum f n + rsum g n.
Proof. induction n as [|n IH]; cbn [rsum]; [lra|]. rewrite IH. lra. Qed.
Lemma rsum_swap (f : nat -> nat -> R) nr nc : rsum (fun i => rsum (fun j => f i j) nc) nr = rsum (fun j => rsum (fun i => f i j) nr) nc.
Proof. induction nr as [|nr IH]; cbn [rsum].
  - induction nc as [|nc IHC]; cbn [rsum]; [reflexivity|]. rewrite <- IHC. lra.
  - rewrite IH. rewrite <- rsum_plus. reflexivity. Qed.

(* ------------------------------------------------------------------------------------------------ *)
(* the table as a function  n i j  (i < nr reference classes, j < nc estimated classes)                  *)
(* ------------------------------------------------------------------------------------------------ *)
Definition tabfn := nat -> nat -> nat.
Definition swap (n : tabfn) : tabfn := fun j i => n i j.
Definition rowsum (n : tabfn) (nc : nat) (i : nat) : R := rsum (fun j => INR (n i j)) nc.        (* pi = sum(axis=1) *)
Definition colsum (n : tabfn) (nr : nat) (j : nat) : R := rsum (fun i => INR (n i j)) nr.        (* pj = sum(axis=0) *)
Definition total (n : tabfn) (nr nc : nat) : R := rsum (fun i => rowsum n nc i) nr.                (* np.sum(contingency) *)

(* _mutual_info_score: over the non-zero cells,
     c/N * (ln c - ln N)  +  c/N * (-ln (pi_i * pj_j) + ln (sum pi) + ln (sum pj)) *)
Definition mi_cell (N sa sb a b : R) (c : nat) : R :=
  if (c =? 0)%nat then 0
  else INR c / N * (ln (INR c) - ln N) + INR c / N * (- ln (a * b) + ln sa + ln sb).
Definition mi (n : tabfn) (nr nc : nat) : R :=
  let N := total n nr nc in
  let sa := rsum (fun i => rowsum n nc i) nr in
  let sb := rsum (fun j => colsum n nr j) nc in
  rsum (fun i => rsum (fun j => mi_cell N sa sb (rowsum n nc i) (colsum n nr j) (n i j)) nc) nr.

(* _entropy on the class counts (all positive: pi = pi[pi > 0]); 1.0 for an empty labelling *)
Definition entropy (cnt : nat -> nat) (K : nat) (nlabels : nat) : R :=
  if (nlabels =? 0)%nat then 1
  else let N := rsum (fun i => INR (cnt i)) K in
       - rsum (fun i => if (cnt i =? 0)%nat then 0 else INR (cnt i) / N * (ln (INR (cnt i)) - ln N)) K.
(* _normalized_mutual_info_score (entropies of the two labellings = entropies of the table margins) *)
Fixpoint nsumf (f : nat -> nat) (k : nat) : nat := match k with O => O | S k' => (nsumf f k' + f k')%nat end.
Definition nmi (n : tabfn) (nr nc : nat) (nlabels : nat) : R :=
  if ((nr =? nc) && (nc =? 1) || (nr =? nc) && (nc =? 0))%bool then 1
  else let h_true := entropy (fun i => nsumf (fun j => n i j) nc) nr nlabels in
       let h_pred := entropy (fun j => nsumf (fun i => n i j) nr) nc nlabels in
       mi n nr nc / Rmax (sqrt (h_true * h_pred)) (1 / 10000000000).

(* scipy.special.entr and scipy.stats.entropy(pk, base=2) along one axis: pk is normalised by its sum first *)
Definition entr (x : R) : R := if Req_EM_T x 0 then 0 else - x * ln x.
Definition entropy2 (p : nat -> R) (K : nat) : R := rsum (fun i => entr (p i / rsum p K)) K / ln 2.

(* nce: contingency / len(y_ref), marginals, conditional entropies, normalisers, the two guarded scores and F *)
Section NCE.
Variables (n : tabfn) (nr nc : nat) (nframes : R) (beta : R) (marginal : bool).
Definition pcell (i j : nat) : R := INR (n i j) / nframes.
Definition p_ref (i : nat) : R := rsum (fun j => pcell i j) nc.
Definition p_est (j : nat) : R := rsum (fun i => pcell i j) nr.
Definition true_given_est : R := rsum (fun j => p_est j * entropy2 (fun i => pcell i j) nr) nc.
Definition pred_given_ref : R := rsum (fun i => p_ref i * entropy2 (fun j => pcell i j) nc) nr.
Definition z_ref : R := if marginal then entropy2 p_ref nr else ln (INR nr) / ln 2.
Definition z_est : R := if marginal then entropy2 p_est nc else ln (INR nc) / ln 2.
Definition score_under : R := if Rlt_dec 0 z_ref then 1 - true_given_est / z_ref else 0.
Definition score_over : R := if Rlt_dec 0 z_est then 1 - pred_given_ref / z_est else 0.
End NCE.
(* util.f_measure *)
Definition f_measure_R (p r beta : R) : R :=
  if Req_EM_T p 0 then (if Req_EM_T r 0 then 0 else (1 + beta ^ 2) * p * r / (beta ^ 2 * p + r))
  else (1 + beta ^ 2) * p * r / (beta ^ 2 * p + r).
Definition nce (n : tabfn) (nr nc : nat) (nframes beta : R) (marginal : bool) : R * R * R :=
  let o := score_over n nr nc nframes marginal in
  let u := score_under n nr nc nframes marginal in
  (o, u, f_measure_R o u beta).
Definition vmeasure (n : tabfn) (nr nc : nat) (nframes beta : R) : R * R * R := nce n nr nc nframes beta true.

(* ------------------------------------------------------------------------------------------------ *)
(* identities                                                                                         *)
(* ------------------------------------------------------------------------------------------------ *)
Lemma mi_cell_sym N sa sb a b c : mi_cell N sb sa b a c = mi_cell N sa sb a b c.
Proof. unfold mi_cell. destruct (c =? 0)%nat; [reflexivity|]. rewrite (Rmult_comm b a). ring. Qed.
Lemma total_swap n nr nc : total (swap n) nc nr = total n nr nc.
Proof. unfold total, rowsum, swap. apply (rsum_swap (fun j i => INR (n i j)) nc nr). Qed.

(* mi_sym: the mutual information of the transposed table (estimate and reference exchanged) is the same *)
Theorem mi_sym n nr nc : mi (swap n) nc nr = mi n nr nc.
Proof. unfold mi. rewrite total_swap.
  change (rsum (fun i => rowsum (swap n) nr i) nc) with (rsum (fun j => colsum n nr j) nc).
  change (rsum (fun j => colsum (swap n) nc j) nr) with (rsum (fun i => rowsum n nc i) nr).
  rewrite (rsum_swap (fun i j => mi_cell (total n nr nc) (rsum (fun j0 => colsum n nr j0) nc) (rsum (fun i0 => rowsum n nc i0) nr)
                                   (rowsum (swap n) nr i) (colsum (swap n) nc j) (swap n i j)) nc nr).
  apply rsum_ext. intros i _. apply rsum_ext. intros j _. apply mi_cell_sym. Qed.

Lemma ln_div' x y : 0 < x -> 0 < y -> ln (x / y) = ln x - ln y.
Proof. intros Hx Hy. unfold Rdiv. rewrite ln_mult by (try assumption; apply Rinv_0_lt_compat; assumption). rewrite ln_Rinv by assumption. ring. Qed.
(* on a cell with positive counts, with both marginal totals equal to N, the code's expression is the textbook
   p ln (p / (p_a p_b)) *)
Theorem mi_cell_textbook N a b c : 0 < N -> 0 < a -> 0 < b -> (0 < c)%nat ->
  mi_cell N N N a b c = INR c / N * ln ((INR c / N) / ((a / N) * (b / N))).
Proof. intros HN Ha Hb Hc. unfold mi_cell. destruct (Nat.eqb_spec c 0) as [E|_]; [lia|].
  assert (Hc' : 0 < INR c) by (apply lt_0_INR; exact Hc).
  assert (HcN : 0 < INR c / N) by (apply Rdiv_lt_0_compat; assumption).
  assert (HaN : 0 < a / N) by (apply Rdiv_lt_0_compat; assumption).
  assert (HbN : 0 < b / N) by (apply Rdiv_lt_0_compat; assumption).
  rewrite (ln_div' (INR c / N) (a / N * (b / N)) HcN (Rmult_lt_0_compat _ _ HaN HbN)).
  rewrite (ln_mult (a / N) (b / N) HaN HbN), (ln_div' (INR c) N Hc' HN), (ln_div' a N Ha HN), (ln_div' b N Hb HN), (ln_mult a b Ha Hb). ring. Qed.

(* nce_swap: exchanging the annotations exchanges the over- and under-segmentation scores *)
Theorem nce_swap n nr nc nframes marginal :
  score_over (swap n) nc nr nframes marginal = score_under n nr nc nframes marginal /\
  score_under (swap n) nc nr nframes marginal = score_over n nr nc nframes marginal.
Proof. split; reflexivity. Qed.
Theorem nce_swap_F n nr nc nframes marginal :
  f_measure_R (score_over (swap n) nc nr nframes marginal) (score_under (swap n) nc nr nframes marginal) 1
  = f_measure_R (score_over n nr nc nframes marginal) (score_under n nr nc nframes marginal) 1.
Proof. destruct (nce_swap n nr nc nframes marginal) as [-> ->]. set (o := score_over n nr nc nframes marginal). set (u := score_under n nr nc nframes marginal).
  clearbody o u. unfold f_measure_R. replace (1 ^ 2 * u + o) with (1 ^ 2 * o + u) by ring.
  destruct (Req_EM_T u 0) as [Eu|Eu], (Req_EM_T o 0) as [Eo|Eo]; try reflexivity; unfold Rdiv; try (subst u; ring); try (subst o; ring); ring. Qed.

(* vmeasure is nce(marginal=True) *)
Theorem vmeasure_is_nce_marginal n nr nc nframes beta : vmeasure n nr nc nframes beta = nce n nr nc nframes beta true.
Proof. reflexivity. Qed.

(* V_F is util.f_measure of (V_precision, V_recall); for beta = 1 and positive scores that is their harmonic mean *)
Theorem v_is_f_measure n nr nc nframes beta :
  let '(p, r, f) := vmeasure n nr nc nframes beta in f = f_measure_R p r beta.
Proof. reflexivity. Qed.
Theorem v_is_harmonic_mean n nr nc nframes :
  let '(p, r, f) := vmeasure n nr nc nframes 1 in 0 < p -> 0 < r -> f = 2 / (/ p + / r).
Proof. unfold vmeasure, nce. set (p := score_over _ _ _ _ _). set (r := score_under _ _ _ _ _). intros Hp Hr.
  unfold f_measure_R. destruct (Req_EM_T p 0) as [E|_]; [lra|]. field. lra. Qed.

(* ------------------------------------------------------------------------------------------------ *)
(* link with the skeleton: the table function of two frame index sequences                             *)
(* ------------------------------------------------------------------------------------------------ *)
Definition tab_fn (m : list (list nat)) : tabfn := fun i j => nth j (nth i m []) 0%nat.
Definition mi_of (yr ye : list nat) : R := mi (tab_fn (contingency_tab yr ye)) (length (uniq yr)) (length (uniq ye)).
Lemma tab_fn_transpose nc m i j : (j < nc)%nat -> tab_fn (transpose nc m) j i = tab_fn m i j.
Proof. intros Hj. unfold tab_fn, transpose.
  rewrite (nth_indep _ [] ((fun j0 => map (fun r => nth j0 r 0%nat) m) 0%nat)) by (rewrite map_length, seq_length; exact Hj).
  rewrite (map_nth (fun j0 => map (fun r => nth j0 r 0%nat) m) (seq 0 nc) 0%nat j). rewrite seq_nth by exact Hj. cbn [plus].
  destruct (Nat.lt_ge_cases i (length m)) as [Hi|Hi].
  - rewrite (nth_indep _ 0%nat ((fun r => nth j r 0%nat) [])) by (rewrite map_length; exact Hi). apply (map_nth (fun r => nth j r 0%nat) m [] i).
  - rewrite nth_overflow by (rewrite map_length; exact Hi). rewrite (nth_overflow m) by exact Hi. destruct j; reflexivity. Qed.
Lemma mi_ext n n' nr nc : (forall i j, (i < nr)%nat -> (j < nc)%nat -> n i j = n' i j) -> mi n nr nc = mi n' nr nc.
Proof. intros H. unfold mi, total, rowsum, colsum.
  assert (Er : forall i, (i < nr)%nat -> rsum (fun j => INR (n i j)) nc = rsum (fun j => INR (n' i j)) nc) by (intros i Hi; apply rsum_ext; intros j Hj; rewrite H by assumption; reflexivity).
  assert (Ec : forall j, (j < nc)%nat -> rsum (fun i => INR (n i j)) nr = rsum (fun i => INR (n' i j)) nr) by (intros j Hj; apply rsum_ext; intros i Hi; rewrite H by assumption; reflexivity).
  rewrite (rsum_ext _ _ nr Er). rewrite (rsum_ext (fun j => rsum (fun i => INR (n i j)) nr) _ nc Ec).
  apply rsum_ext. intros i Hi. apply rsum_ext. intros j Hj. rewrite (Er i Hi), (Ec j Hj), (H i j Hi Hj). reflexivity. Qed.
(* MI(ref, est) = MI(est, ref) on the frame index sequences *)
Theorem mi_sym_sequences yr ye : mi_of ye yr = mi_of yr ye.
Proof. unfold mi_of. rewrite contingency_swap. rewrite <- (mi_sym (tab_fn (contingency_tab yr ye))).
  apply mi_ext. intros j i Hj Hi. unfold swap. apply tab_fn_transpose. exact Hj. Qed.

Print Assumptions mi_sym.
Print Assumptions mi_sym_sequences.
Print Assumptions mi_cell_textbook.
Print Assumptions nce_swap.
Print Assumptions nce_swap_F.
Print Assumptions vmeasure_is_nce_marginal.
Print Assumptions v_is_harmonic_mean.
