(* melody.to_cent_voicing, tied to Model/Melody.v by TRANSLATION (translator/framefuncs.py -> Gen/FrameGen.v, language
   Model/FrameExp.v; see FrameTie.v and FrameTieMelody.v).
     to_cent_voicing_tie   for all time / frequency arrays, est_voicing / ref_reward = None or an array, base_frequency, hop = None or a
                           float, kind = 'linear':  program = snd (Melody.to_cent_voicing ...) (result or exception; warnings are not part
                           of the program's value). The callees are opaque and given by the model (mel_ext): freq_to_voicing (tied to its
                           own body in FrameTieMelody.v), resample_melody_series (kind='linear'), constant_hop_timebase; hz2cents is an
                           ARBITRARY elementwise function [cents] of (base_frequency, f) - the model pairs every frequency with the
                           value hz2cents returns for its absolute value, which is what [fc] builds.
   Proved: the time-0 padding of both series (to_cent_voicing_pad_*_partial of FrameTieMelody.v), the est_voicing / ref_reward
   forwarding to freq_to_voicing, the abs'd frequencies handed to hz2cents, evaluation order and exception propagation of the
   hop / no-hop resampling calls (ref_time.max() / est_time.max() on the padded time bases), the final length adjustment
   (np.append of zeros / truncation to the reference length, with ref_voicing's length for est_voicing). *)
From Coq Require Import String.
From Coq Require Import List Bool Arith ZArith QArith Qabs Qminmax Qround Lia Lqa.
From ME Require Import Model.Prelude Model.Events Model.FrameExp Gen.FrameGen Proofs.FrameTie Proofs.FrameTieMelody.
From ME Require Model.Melody.
Import ListNotations.
Open Scope Q_scope.
Definition lift_arr (r : res (list Q)) : out fv := match r with Ok a => OK (VArrQ a) | Raise e => EXN e end.
Definition of_optv (v : fv) : option (option (list Q)) :=
  match v with VNone => Some None | VArrQ l => Some (Some l) | _ => None end.
Lemma of_optv_optv o : of_optv (optv o) = Some o.
Proof. destruct o; reflexivity. Qed.
Lemma ftv_fst fr o a b : Melody.freq_to_voicing fr o = Ok (a, b) -> a = map Qabs fr.
Proof.
  unfold Melody.freq_to_voicing. destruct o as [v|].
  - destruct fr as [|f t]; cbn [Melody.is_nil]; [intros H; inversion H; reflexivity|].
    destruct (Nat.eqb _ _); intros H; inversion H; reflexivity.
  - intros H; inversion H; reflexivity.
Qed.
Lemma py_slice_firstn {A} (l : list A) n : py_slice 0 (Z.of_nat n) l = firstn n l.
Proof.
  unfold py_slice, py_norm. cbn [Z.ltb Z.compare].
  replace (Z.of_nat n <? 0)%Z with false by (symmetry; apply Z.ltb_ge; lia).
  rewrite (Z.min_l 0) by lia. cbn [Z.to_nat skipn]. rewrite Z.sub_0_r.
  destruct (Nat.le_ge_cases n (length l)).
  - rewrite Z.min_l by lia. rewrite Nat2Z.id. reflexivity.
  - rewrite Z.min_r by lia. rewrite Nat2Z.id. rewrite !firstn_all2 by lia. reflexivity.
Qed.

Section E.
Variable cents : Q -> Q -> Q.      (* hz2cents(f, base_frequency) elementwise (f >= 0) *)
Local Open Scope string_scope.
Definition mel_ext (f : string) (vs : list fv) : out fv :=
  if f =? "melody.freq_to_voicing" then
    match vs with
    | [VArrQ fr; v] => match of_optv v with Some o => lift_pair (Melody.freq_to_voicing fr o) | None => UNM end
    | _ => UNM end
  else if f =? "melody.hz2cents" then
    match vs with [VArrQ fr; VFlt b] => OK (VArrQ (map (cents b) fr)) | _ => UNM end
  else if f =? "melody.constant_hop_timebase" then
    match vs with [VFlt h; VFlt e] => lift_arr (Melody.constant_hop_timebase h e) | _ => UNM end
  else if f =? "melody.resample_melody_series" then
    match vs with
    | [VArrQ t; VArrQ fr; VArrQ v; VArrQ tn; VStr k] =>
        if k =? "linear" then lift_pair (snd (Melody.resample_melody_series t fr v tn)) else UNM
    | _ => UNM end
  else UNM.
Local Close Scope string_scope.
Variable flog2 : Q -> Q.
Definition run_mel (f : fdef) (args : list fv) : out fv := run_fun frame_sigs mel_ext flog2 f args.
Definition opth (h : option Q) : fv := match h with Some q => VFlt q | None => VNone end.
(* every frequency paired with the value hz2cents returns for its absolute value (the convention of Model/Melody.v) *)
Definition fc (base : Q) (l : list Q) : list (Q * Q) := map (fun f => (f, cents base (Qabs f))) l.
Lemma map_fst_fc b l : map fst (fc b l) = l.
Proof. unfold fc. rewrite map_map. cbn [fst]. apply map_id. Qed.
Lemma map_snd_fc b l : map snd (fc b l) = map (cents b) (map Qabs l).
Proof. unfold fc. rewrite !map_map. reflexivity. Qed.
Definition lift4 (r : res (list Q * list Q * list Q * list Q)) : out fv :=
  match r with Ok (a, b, c, d) => OK (VTup [VArrQ a; VArrQ b; VArrQ c; VArrQ d]) | Raise e => EXN e end.

Local Arguments run_block : simpl never.
Local Arguments frame_sigs : simpl never.
Local Arguments Melody.freq_to_voicing : simpl never.
Local Arguments Melody.resample_melody_series : simpl never.
Local Arguments Melody.constant_hop_timebase : simpl never.
Local Arguments py_slice : simpl never.
Local Arguments fc : simpl never.
Local Arguments meth : simpl never.

(* the part of to_cent_voicing after the two padding statements, on the padded arrays *)
Definition tcv_rest : list stmt := skipn 2 (f_body gen_mel_to_cent_voicing).
Definition rest_spec (rt : list Q) (rfc : list (Q * Q)) (et : list Q) (efc : list (Q * Q)) (ev rr : option (list Q)) (hop : option Q)
  : list Melody.mwarn * res (list Q * list Q * list Q * list Q) :=
  match Melody.freq_to_voicing (map fst rfc) rr with Raise e => ([], Raise e) | Ok (_, ref_voicing) =>
  match Melody.freq_to_voicing (map fst efc) ev with Raise e => ([], Raise e) | Ok (_, est_voicing) =>
  let ref_cent := map snd rfc in
  let est_cent := map snd efc in
  let finish (w : list Melody.mwarn) (rc rv ec ev : list Q) :=
    (w, Ok (rv, rc,
            (if (length ec <=? length rc)%nat then ev ++ repeat 0 (length rc - length ec) else firstn (length rv) ev),
            (if (length ec <=? length rc)%nat then ec ++ repeat 0 (length rc - length ec) else firstn (length rc) ec))) in
  match hop with
  | Some h =>
      match Melody.constant_hop_timebase h (Melody.tmax rt) with Raise e => ([], Raise e) | Ok tb_r =>
      match Melody.resample_melody_series rt ref_cent ref_voicing tb_r with
      | (w1, Raise e) => (w1, Raise e)
      | (w1, Ok (rc, rv)) =>
        match Melody.constant_hop_timebase h (Melody.tmax et) with Raise e => (w1, Raise e) | Ok tb_e =>
        match Melody.resample_melody_series et est_cent est_voicing tb_e with
        | (w2, Raise e) => (w1 ++ w2, Raise e)
        | (w2, Ok (ec, ev)) => finish (w1 ++ w2) rc rv ec ev
        end end
      end end
  | None =>
      match Melody.resample_melody_series et est_cent est_voicing rt with
      | (w, Raise e) => (w, Raise e)
      | (w, Ok (ec, ev)) => finish w ref_cent ref_voicing ec ev
      end
  end end end.
Lemma to_cent_voicing_unfold rt rfc et efc ev rr hop :
  Melody.to_cent_voicing rt rfc et efc ev rr hop =
  match Melody.add_time0 rt rfc rr with Raise e => ([], Raise e) | Ok (rt', rfc', rr') =>
  match Melody.add_time0 et efc ev with Raise e => ([], Raise e) | Ok (et', efc', ev') =>
  rest_spec rt' rfc' et' efc' ev' rr' hop end end.
Proof.
  unfold Melody.to_cent_voicing, rest_spec.
  destruct (Melody.add_time0 rt rfc rr) as [[[rt' rfc'] rr']|]; [|reflexivity].
  destruct (Melody.add_time0 et efc ev) as [[[et' efc'] ev']|]; reflexivity.
Qed.

Lemma add_time0_fc b rt rf (rr : option (list Q)) :
  Melody.add_time0 rt (fc b rf) rr
  = match Melody.add_time0 rt rf rr with Ok (t, f, x) => Ok (t, fc b f, x) | Raise e => Raise e end.
Proof.
  unfold Melody.add_time0. destruct rt as [|t0 rt']; [reflexivity|]. destruct (qltb 0 t0); [|reflexivity].
  destruct rf as [|f0 rf']; [reflexivity|]. destruct rr as [[|e r]|]; reflexivity.
Qed.
Lemma add_time0_ne {A B} rt (rf : list A) (rr : option (list B)) t f x : Melody.add_time0 rt rf rr = Ok (t, f, x) -> t <> [].
Proof.
  unfold Melody.add_time0. destruct rt as [|t0 rt']; [discriminate|]. destruct (qltb 0 t0).
  - destruct rf; [discriminate|]. destruct rr as [[|e r]|]; try discriminate; intros H; inversion H; discriminate.
  - intros H; inversion H; discriminate.
Qed.
Definition ret_of (r : sres) : out fv := match r with SNorm _ => OK VNone | SRet v => OK v | SExn e => EXN e | SUnm => UNM end.
Lemma zge_nat a b : (Z.of_nat a - Z.of_nat b >=? 0)%Z = (b <=? a)%nat.
Proof. destruct (Nat.leb_spec b a); [apply Z.geb_le; lia|]. rewrite Z.geb_leb. apply Z.leb_gt. lia. Qed.
Lemma zleb_nat a b : (0 <=? Z.of_nat a - Z.of_nat b)%Z = (b <=? a)%nat.
Proof. destruct (Nat.leb_spec b a); [apply Z.leb_le; lia|]. apply Z.leb_gt. lia. Qed.

Lemma rest_tie : forall rt rf et ef (ev rr : option (list Q)) (base : Q) (hop : option Q), rt <> [] -> et <> [] ->
  ret_of (run_block (exec frame_sigs mel_ext flog2) tcv_rest
            (tcv_env (VArrQ rt) (VArrQ rf) (VArrQ et) (VArrQ ef) (optv ev) (optv rr) (VFlt base) (opth hop) (VStr "linear")
                     VUnbound VUnbound VUnbound VUnbound))
  = lift4 (snd (rest_spec rt (fc base rf) et (fc base ef) ev rr hop)).
Proof.
  intros rt rf et ef ev rr base hop Hrt Het. unfold rest_spec. rewrite !map_fst_fc, !map_snd_fc.
  unfold tcv_rest. cbn [skipn f_body gen_mel_to_cent_voicing]. unfold tcv_env.
  assert (Hmax : forall l : list Q, l <> [] -> meth (VArrQ l) "max" [] = OK (VFlt (Melody.tmax l))).
  { intros l Hl. unfold meth, Melody.tmax. cbn. destruct l; [congruence|reflexivity]. }
  
  destruct rr as [rr|]; destruct ev as [ev|]; cbn [optv]; go.
  all: match goal with |- context [lift_pair (Melody.freq_to_voicing ?x ?o)] =>
         let F := fresh "F" in destruct (Melody.freq_to_voicing x o) as [[ra rv]|] eqn:F; cbn [lift_pair]; go; [|reflexivity];
         apply ftv_fst in F; subst ra end.
  all: match goal with |- context [lift_pair (Melody.freq_to_voicing ?x ?o)] =>
         let F := fresh "F" in destruct (Melody.freq_to_voicing x o) as [[ea ev']|] eqn:F; cbn [lift_pair]; go; [|reflexivity];
         apply ftv_fst in F; subst ea end.
  all: generalize (map (cents base) (map Qabs rf)); intros rc0; generalize (map (cents base) (map Qabs ef)); intros ec0.
  all: destruct hop as [h|]; cbn [opth]; go; rewrite ?(Hmax _ Hrt), ?(Hmax _ Het); go.
  all: repeat match goal with
       | |- context [lift_arr (Melody.constant_hop_timebase ?h ?e)] =>
           destruct (Melody.constant_hop_timebase h e) as [?tb|]; cbn [lift_arr]; go; rewrite ?(Hmax _ Hrt), ?(Hmax _ Het); go;
           [|try reflexivity]
       | |- context [lift_pair (snd (Melody.resample_melody_series ?a ?b ?c ?d))] =>
           destruct (Melody.resample_melody_series a b c d) as [?ww [[?xc ?xv]|]]; cbn [lift_pair snd]; go;
           rewrite ?(Hmax _ Hrt), ?(Hmax _ Het); go; [|try reflexivity]
       end.
  all: rewrite zleb_nat;
       match goal with |- context [(?a <=? ?b)%nat] => destruct (Nat.leb_spec a b) as [Hle|Hgt] end; go.
  all: rewrite ?zleb_nat.
  all: try (match goal with |- context [(?a <=? ?b)%nat] => replace (a <=? b)%nat with true by (symmetry; apply Nat.leb_le; lia) end;
            go; rewrite ?zleb_nat;
            match goal with |- context [(?a <=? ?b)%nat] => replace (a <=? b)%nat with true by (symmetry; apply Nat.leb_le; lia) end;
            go;
            match goal with |- context [Z.to_nat (Z.of_nat ?a - Z.of_nat ?b)] =>
              replace (Z.to_nat (Z.of_nat a - Z.of_nat b)) with (a - b)%nat by lia end; reflexivity).
  all: rewrite !py_slice_firstn; reflexivity.
Qed.

Theorem to_cent_voicing_tie : forall rt rfq et efq (ev rr : option (list Q)) (base : Q) (hop : option Q),
  run_mel gen_mel_to_cent_voicing [VArrQ rt; VArrQ rfq; VArrQ et; VArrQ efq; optv ev; optv rr; VFlt base; opth hop; VStr "linear"]
  = lift4 (snd (Melody.to_cent_voicing rt (fc base rfq) et (fc base efq) ev rr hop)).
Proof.
  intros. rewrite to_cent_voicing_unfold, !add_time0_fc.
  unfold run_mel, run_fun, exec_block.
  change (Nat.eqb _ _) with true. cbv iota.
  change (f_body gen_mel_to_cent_voicing)
    with (nth 0 (f_body gen_mel_to_cent_voicing) SPass :: nth 1 (f_body gen_mel_to_cent_voicing) SPass :: tcv_rest).
  change (init_env gen_mel_to_cent_voicing _)
    with (tcv_env (VArrQ rt) (VArrQ rfq) (VArrQ et) (VArrQ efq) (optv ev) (optv rr) (VFlt base) (opth hop) (VStr "linear")
                  VUnbound VUnbound VUnbound VUnbound).
  rewrite run_block_cons, to_cent_voicing_pad_ref_partial.
  destruct (Melody.add_time0 rt rfq rr) as [[[rt' rf'] rr']|] eqn:A1; [|reflexivity].
  rewrite run_block_cons, to_cent_voicing_pad_est_partial.
  destruct (Melody.add_time0 et efq ev) as [[[et' ef'] ev']|] eqn:A2; [|reflexivity].
  exact (rest_tie rt' rf' et' ef' ev' rr' base hop (add_time0_ne _ _ _ _ _ _ A1) (add_time0_ne _ _ _ _ _ _ A2)).
Qed.
End E.

Print Assumptions to_cent_voicing_tie.
