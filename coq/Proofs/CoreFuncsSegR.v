(* Reals reading of the float terms of Proofs/CoreFuncsTie.v: with FLog = ln (and exp, sqrt, Rmax; gammaln arbitrary) the terms the
   TRANSLATED _mutual_info_score / _entropy compute are exactly the real-valued formulas of Proofs/SegmentEntropy.v:
     mi_val_denotes        den (mi_val c tab) = SegmentEntropy.mi (the table as a function) (rows) c   for every rectangular table
     entropy_val_denotes   den (_entropy's term) = SegmentEntropy.entropy over SegmentCluster.class_counts
     ami_start_is_emi_start / ami_end_is_emi_stop   the limits of CoreFuncsAmiTie.v are SegmentAMI.emi_start / emi_stop
   so the chain  source -> Gen/CoreFuncsGen.v -> mi_val / entropy_val -> mi / entropy (the objects of the C16 / C08 / C06 theorems)
   is closed by proofs.  THIS FILE USES Coq's Reals (standard axioms, listed by Print Assumptions below). *)
From Coq Require Import List Arith Lia Reals Lra QArith Qreals ZArith.
From ME Require Import Model.Prelude Model.SegExp Proofs.CoreFuncsTie Proofs.CoreFuncsAmiTie.
From ME Require Model.SegmentCluster Proofs.SegmentClusterProps.
Module SP := ME.Proofs.SegmentClusterProps.
From ME Require Import Proofs.SegmentEntropy Proofs.SegmentAMI.
Import ListNotations.
Local Open Scope R_scope.

Section Denote.
Variable gln : R -> R.                       (* scipy.special.gammaln: arbitrary *)
Fixpoint den (a : fl) : R :=
  match a with
  | FQ q => Q2R q
  | FLog a => ln (den a) | FExp a => Rtrigo_def.exp (den a) | FGln a => gln (den a) | FSqrt a => sqrt (den a)
  | FAdd a b => den a + den b | FSub a b => den a - den b | FMul a b => den a * den b | FDiv a b => den a / den b
  | FNeg a => - den a | FMax a b => Rmax (den a) (den b)
  end.
Lemma den_fadd a b : den (fadd a b) = den a + den b.
Proof. destruct a, b; cbn [fadd den]; try reflexivity. apply Q2R_plus. Qed.
Lemma den_fsum l : den (fsum l) = lsumR (map den l).
Proof. induction l as [|x l IH]; cbn [fsum fold_right map lsumR]; [unfold Q2R; cbn; lra|]. fold (fsum l). rewrite den_fadd, IH. reflexivity. Qed.
Lemma den_fneg a : den (fneg a) = - den a.
Proof. destruct a; cbn [fneg den]; try reflexivity. apply Q2R_opp. Qed.

Lemma Q2R_nQ n : Q2R (nQ n) = INR n.
Proof. unfold nQ, Q2R, inject_Z. cbn [Qnum Qden]. rewrite INR_IZR_INZ. lra. Qed.
Lemma Q2R_qsumr l : Q2R (qsumr l) = lsumR (map Q2R l).
Proof. induction l as [|x l IH]; cbn [qsumr fold_right map lsumR]; [unfold Q2R; cbn; lra|]. rewrite Q2R_plus. fold (qsumr l). rewrite IH. reflexivity. Qed.

(* a rectangular table as a function *)
Definition tabfn_of (tab : list (list nat)) : tabfn := fun i j => nth j (nth i tab []) 0%nat.
Lemma list_as_nth {A} (l : list A) d : l = map (fun i => nth i l d) (seq 0 (length l)).
Proof. rewrite (SP.map_seq_nth (fun x => x) l d). symmetry. apply map_id. Qed.
Lemma tab_as_fn c tab : rect c tab -> tab = map (fun i => map (fun j => tabfn_of tab i j) (seq 0 c)) (seq 0 (length tab)).
Proof.
  intros H. rewrite (list_as_nth tab []) at 1. apply map_ext_in. intros i Hi. apply in_seq in Hi.
  assert (Hl : length (nth i tab []) = c). { unfold rect in H. rewrite Forall_forall in H. apply H. apply nth_In. lia. }
  rewrite (list_as_nth (nth i tab []) 0%nat) at 1. rewrite Hl. reflexivity.
Qed.

Lemma lsumR_filter {A} (p : A -> bool) (h : A -> R) l : lsumR (map h (filter p l)) = lsumR (map (fun x => if p x then h x else 0) l).
Proof. induction l as [|x l IH]; [reflexivity|]. cbn [filter map lsumR]. destruct (p x); cbn [map lsumR]; rewrite IH; lra. Qed.
Lemma lsumR_concat_map {A B} (h : B -> R) (F : A -> list B) l1 :
  lsumR (map h (concat (map F l1))) = lsumR (map (fun i => lsumR (map h (F i))) l1).
Proof. induction l1 as [|i l1 IH]; [reflexivity|]. cbn [map concat lsumR]. rewrite map_app, lsumR_app, IH. reflexivity. Qed.
Lemma combine_app' {A B} (a b : list A) (c d : list B) : length a = length c -> combine (a ++ b) (c ++ d) = combine a c ++ combine b d.
Proof. revert c. induction a as [|x a IH]; intros [|y c] H; try discriminate; [reflexivity|]. cbn [app combine]. rewrite IH by (cbn in H; lia). reflexivity. Qed.
Lemma combine_concat_map {A B I J} (f : I -> J -> A) (g : I -> J -> B) l1 l2 :
  combine (concat (map (fun i => map (f i) l2) l1)) (concat (map (fun i => map (g i) l2) l1))
  = concat (map (fun i => map (fun j => (f i j, g i j)) l2) l1).
Proof.
  induction l1 as [|i l1 IH]; [reflexivity|]. cbn [map concat]. rewrite combine_app' by (rewrite !map_length; reflexivity).
  rewrite IH. f_equal. clear. induction l2 as [|j l2 IH]; [reflexivity|]. cbn [map combine]. rewrite IH. reflexivity.
Qed.
Lemma rsum_lsum f n : rsum f n = lsumR (map f (seq 0 n)). Proof. apply rsum_list. Qed.

Lemma lsumR_ext_in {A} (f g : A -> R) l : (forall x, In x l -> f x = g x) -> lsumR (map f l) = lsumR (map g l).
Proof. intros H. rewrite (map_ext_in f g l H). reflexivity. Qed.

Section Table.
Variables (n : tabfn) (nr c : nat).
Let T := map (fun i => map (fun j => n i j) (seq 0 c)) (seq 0 nr).
Let P (i : nat) : Q := qsumr (map (fun j => nQ (n i j)) (seq 0 c)).
Let Pj (j : nat) : Q := qsumr (map (fun i => nQ (n i j)) (seq 0 nr)).
Lemma rowQ_T : rowQ T = map P (seq 0 nr).
Proof. unfold rowQ, T, P. rewrite map_map. apply map_ext. intros i. rewrite map_map. reflexivity. Qed.
Lemma colQ_T : colQ c T = map Pj (seq 0 c).
Proof.
  unfold colQ, T, Pj. apply map_ext_in. intros j Hj. apply in_seq in Hj. rewrite map_map. f_equal. apply map_ext. intros i.
  f_equal. apply nth_map_seq. lia.
Qed.
Lemma Q2R_P i : Q2R (P i) = rowsum n c i.
Proof. unfold P, rowsum. rewrite Q2R_qsumr, map_map, rsum_lsum. apply lsumR_ext_in. intros j _. apply Q2R_nQ. Qed.
Lemma Q2R_Pj j : Q2R (Pj j) = colsum n nr j.
Proof. unfold Pj, colsum. rewrite Q2R_qsumr, map_map, rsum_lsum. apply lsumR_ext_in. intros i _. apply Q2R_nQ. Qed.
Lemma Q2R_N : Q2R (qsumr (map nQ (concat T))) = total n nr c.
Proof.
  unfold total. rewrite Q2R_qsumr, map_map. unfold T. rewrite lsumR_concat_map, rsum_lsum. apply lsumR_ext_in. intros i _.
  unfold rowsum. rewrite map_map, rsum_lsum. apply lsumR_ext_in. intros j _. apply Q2R_nQ.
Qed.
Lemma Q2R_sa : Q2R (qsumr (rowQ T)) = rsum (fun i => rowsum n c i) nr.
Proof. rewrite rowQ_T, Q2R_qsumr, map_map, rsum_lsum. apply lsumR_ext_in. intros i _. apply Q2R_P. Qed.
Lemma Q2R_sb : Q2R (qsumr (colQ c T)) = rsum (fun j => colsum n nr j) c.
Proof. rewrite colQ_T, Q2R_qsumr, map_map, rsum_lsum. apply lsumR_ext_in. intros j _. apply Q2R_Pj. Qed.
Lemma cell_in i j : (i < nr)%nat -> (j < c)%nat -> In (n i j) (concat T).
Proof.
  intros Hi Hj. apply in_concat. exists (map (fun j => n i j) (seq 0 c)). split.
  - unfold T. apply in_map_iff. exists i. split; [reflexivity|apply in_seq; lia].
  - apply in_map_iff. exists j. split; [reflexivity|apply in_seq; lia].
Qed.

Theorem mi_val_denotes_T : den (mi_val c T) = mi n nr c.
Proof.
  unfold mi_val, mi_sel. rewrite den_fsum, map_map.
  rewrite rowQ_T, colQ_T. rewrite (map_map P), (map_ext _ (fun i => map (fun j => (P i * Pj j)%Q) (seq 0 c))) by (intros i; apply map_map).
  set (N := qsumr (map nQ (concat T))). unfold T at 1. rewrite (combine_concat_map (fun i j => n i j) (fun i j => (P i * Pj j)%Q)).
  rewrite lsumR_filter, lsumR_concat_map.
  unfold mi. rewrite rsum_lsum. apply lsumR_ext_in. intros i Hi. apply in_seq in Hi. rewrite map_map, rsum_lsum. apply lsumR_ext_in.
  intros j Hj. apply in_seq in Hj. cbn [fst snd]. unfold SegmentEntropy.mi_cell.
  destruct (n i j =? 0)%nat eqn:E0; cbn [negb]; [reflexivity|].
  assert (HN0 : ~ (qsumr (map nQ (concat T)) == 0)%Q).
  { apply (qsumr_In_pos _ (n i j)); [apply cell_in; lia|]. apply Nat.eqb_neq in E0. lia. }
  unfold CoreFuncsTie.mi_cell. cbn [den fnat]. subst N. rewrite (Q2R_div _ _ HN0), Q2R_nQ, Q2R_N, Q2R_mult, Q2R_P, Q2R_Pj.
  fold T. rewrite <- rowQ_T, <- colQ_T, Q2R_sa, Q2R_sb. reflexivity.
Qed.
End Table.

(* for every rectangular table (in particular every contingency table) *)
Theorem mi_val_denotes c tab : rect c tab -> den (mi_val c tab) = mi (tabfn_of tab) (length tab) c.
Proof. intros H. rewrite (tab_as_fn c tab H) at 1. apply mi_val_denotes_T. Qed.

(* _entropy *)
Lemma lsumR_nth (f : nat -> R) l : lsumR (map f l) = rsum (fun i => f (nth i l 0%nat)) (length l).
Proof. rewrite rsum_lsum, (SP.map_seq_nth f l 0%nat). reflexivity. Qed.
Definition fl_of (v : sv) : fl := match v with VFlt _ x => x | _ => FQ 0 end.
Theorem entropy_val_denotes y :
  den (fl_of (entropy_val y)) = entropy (fun i => nth i (SC.class_counts y) 0%nat) (length (SC.class_counts y)) (length y).
Proof.
  unfold entropy_val, entropy. destruct (length y =? 0)%nat; [cbn; unfold Q2R; cbn; lra|]. cbn [fl_of].
  rewrite pos_counts_class_counts. set (Pc := SC.class_counts y).
  assert (Hpos : forall x, In x Pc -> (0 < x)%nat).
  { intros x Hx. assert (H := SP.sizes_pos y x Hx). lia. }
  rewrite den_fneg, den_fsum, map_map. f_equal.
  assert (HNR : Q2R (qsumr (map nQ Pc)) = rsum (fun i => INR (nth i Pc 0%nat)) (length Pc)).
  { rewrite Q2R_qsumr, map_map, (lsumR_nth (fun x => Q2R (nQ x))). apply rsum_ext. intros i _. apply Q2R_nQ. }
  rewrite lsumR_nth. apply rsum_ext. intros i Hi.
  assert (Hin : In (nth i Pc 0%nat) Pc) by (apply nth_In; lia). specialize (Hpos _ Hin).
  destruct (nth i Pc 0 =? 0)%nat eqn:E0; [apply Nat.eqb_eq in E0; lia|].
  unfold entropy_cell. cbn [den fnat].
  assert (HN0 : ~ (qsumr (map nQ Pc) == 0)%Q) by (apply (qsumr_In_pos _ _ Hin); exact Hpos).
  rewrite (Q2R_div _ _ HN0), Q2R_nQ, HNR. reflexivity.
Qed.
End Denote.

(* the limits of the AMI summation are SegmentAMI.emi_start / emi_stop *)
Lemma ami_start_is_emi_start N A B :
  ami_start N A B = map (fun a => map (fun b => Z.of_nat (emi_start N a b)) B) A.
Proof. unfold ami_start, emi_start. apply map_ext. intros a. apply map_ext. intros b. lia. Qed.
Lemma ami_end_is_emi_stop A B : ami_end A B = map (fun a => map (fun b => emi_stop 0 a b) B) A.
Proof. reflexivity. Qed.
Check mi_val_denotes.
Print Assumptions mi_val_denotes.
Check entropy_val_denotes.
Print Assumptions entropy_val_denotes.
Print Assumptions ami_start_is_emi_start.

