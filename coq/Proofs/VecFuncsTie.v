(* The vector metric functions translated from the source (Gen/VecFuncs.v, translator/vecfuncs.py; meaning:
   Model/VecExp.v) compute the hand-written models:
     melody.voicing_recall / voicing_false_alarm / raw_pitch_accuracy / raw_chroma_accuracy / overall_accuracy
                                                                      = Model.Melody (all inputs)
     multipitch.compute_accuracy / compute_err_score                  = Model.Multipitch (count vectors of equal length)
     chord.weighted_accuracy                                          = Model.ChordScore.wa_q (all inputs, nan included)
     tempo.detection                                                  = Model.Tempo.detection (finite tempi)
   The proofs mention nothing of the generated text except the names gen_X: the decision tree of the program is
   computed ([vp_tree], vm_compute), evaluated on symbolic arrays by cbv on a whitelist of evaluator definitions,
   length side conditions are discharged from what the validators / guards establish, maps are fused, the atomic
   tests are split, and at the leaves two list expressions over arrays of equal lengths are proved equal by a
   generic simultaneous induction ([list_eq]). A source with a different meaning leaves a leaf unprovable. *)
From Coq Require Import String.
From Coq Require Import List Bool Arith ZArith QArith Qabs Qminmax Qround Lia ZifyBool Lqa.
From ME Require Import Model.Prelude Model.VecExp.
From ME Require Model.Melody Model.Multipitch Model.ChordScore Model.Tempo.
From ME Require Import Gen.VecFuncs.
Import ListNotations.
Open Scope Q_scope.

Definition xeq (a b : xval) : Prop :=
  match a, b with Fin x, Fin y => x == y | PInf, PInf | NInf, NInf | NaN, NaN => True | _, _ => False end.
Definition out_eq (a b : out (list xval)) : Prop :=
  match a, b with OK l, OK m => Forall2 xeq l m | EXN e, EXN f => e = f | _, _ => False end.
Definition lift_q (r : res Q) : out (list xval) := match r with Ok q => OK [Fin q] | Raise e => EXN e end.
Definition lift_unit (r : res unit) : out unit := match r with Ok _ => OK tt | Raise e => EXN e end.

(* ---------- lists ---------- *)
Lemma len0 {A} (l : list A) : (Z.of_nat (length l) =? 0)%Z = Melody.is_nil l.
Proof. destruct l; reflexivity. Qed.
Lemma vmap2_length {A B C} (f : A -> B -> C) : forall a b, length (vmap2 f a b) = Nat.min (length a) (length b).
Proof. induction a; destruct b; cbn; auto. Qed.
Lemma vselect_length {A} : forall (m : list bool) (l : list A), length m = length l -> length (vselect m l) = length (filter (fun b => b) m).
Proof. induction m as [|b m IH]; destruct l; cbn; try discriminate; auto. intros [= H]. destruct b; cbn; auto. Qed.
Lemma bcv_eq {A B C} (f : A -> B -> C) a b : length a = length b -> bcv f a b = vmap2 f a b.
Proof. intros H. unfold bcv. now rewrite H, Nat.eqb_refl. Qed.
Lemma bc_ok_eq {A B} (a : list A) (b : list B) : length a = length b -> bc_ok a b = true.
Proof. intros H. unfold bc_ok. now rewrite H, Nat.eqb_refl. Qed.
Lemma eqb_len {A B} (a : list A) (b : list B) : length a = length b -> (length a =? length b)%nat = true.
Proof. intros ->. apply Nat.eqb_refl. Qed.
Lemma np_mul_bc a b : Melody.np_mul a b = if bc_ok a b then Ok (bcv Qmult a b) else Raise ValueError.
Proof.
  unfold Melody.np_mul, bc_ok, bcv. destruct (length a =? length b)%nat eqn:E; [reflexivity|]. cbn [orb].
  destruct a as [|x [|x' a]]; cbn [length Nat.eqb orb].
  - destruct b as [|y [|y' b]]; try reflexivity; discriminate.
  - reflexivity.
  - destruct b as [|y [|y' b]]; reflexivity.
Qed.
Lemma vmap2_map_l {A A' B C} (f : A' -> B -> C) (g : A -> A') : forall a b, vmap2 f (map g a) b = vmap2 (fun x y => f (g x) y) a b.
Proof. induction a; destruct b; cbn; auto. now rewrite IHa. Qed.
Lemma vmap2_map_r {A B B' C} (f : A -> B' -> C) (g : B -> B') : forall a b, vmap2 f a (map g b) = vmap2 (fun x y => f x (g y)) a b.
Proof. induction a; destruct b; cbn; auto. now rewrite IHa. Qed.
Lemma map_vmap2 {A B C D} (h : C -> D) (f : A -> B -> C) : forall a b, map h (vmap2 f a b) = vmap2 (fun x y => h (f x y)) a b.
Proof. induction a; destruct b; cbn; auto. now rewrite IHa. Qed.
Lemma qlen0 {A} (l : list A) : qeqb (inject_Z (Z.of_nat (length l))) 0 = Melody.is_nil l.
Proof. destruct l; [reflexivity|]. cbn [length Melody.is_nil]. unfold qeqb. destruct (Qeq_bool _ _) eqn:E; [|reflexivity]. apply Qeq_bool_iff in E. unfold Qeq, inject_Z in E. cbn [Qnum Qden] in E. lia. Qed.
Lemma qeqb_inj0 z : qeqb (inject_Z z) 0 = (z =? 0)%Z.
Proof. unfold qeqb. destruct (Qeq_bool _ _) eqn:E.
  - apply Qeq_bool_iff in E. unfold Qeq, inject_Z in E. cbn [Qnum Qden] in E. lia.
  - apply Qeq_bool_neq in E. unfold Qeq, inject_Z in E. cbn [Qnum Qden] in E. lia. Qed.
Lemma vcount0 l : (vcount l =? 0)%Z = (Melody.count_true l =? 0)%nat.
Proof. unfold vcount, Melody.count_true. destruct (length (filter (fun b => b) l)); reflexivity. Qed.

Lemma qsum_map_ext {A} (f g : A -> Q) l : (forall x, f x == g x) -> qsum (map f l) == qsum (map g l).
Proof. intros E. induction l; unfold qsum in *; cbn [map fold_right]; [reflexivity|]. now rewrite IHl, E. Qed.
Lemma qsum_vmap2_ext {A B} (f g : A -> B -> Q) : (forall x y, f x y == g x y) -> forall a b, qsum (vmap2 f a b) == qsum (vmap2 g a b).
Proof. intros E. induction a; destruct b; unfold qsum in *; cbn [vmap2 fold_right]; try reflexivity. now rewrite IHa, E. Qed.
Lemma qsum_bcv_ext {A B} (f g : A -> B -> Q) a b : (forall x y, f x y == g x y) -> qsum (bcv f a b) == qsum (bcv g a b).
Proof.
  intros E. unfold bcv. destruct (length a =? length b)%nat; [now apply qsum_vmap2_ext|].
  destruct a as [|x [|? ?]]; destruct b as [|y [|? ?]]; try reflexivity; apply qsum_map_ext; intros; apply E.
Qed.
Lemma bc_ok_sym {A B} (a : list A) (b : list B) : bc_ok a b = bc_ok b a.
Proof. unfold bc_ok. rewrite (Nat.eqb_sym (length a)). destruct (length b =? length a)%nat, (length a =? 1)%nat, (length b =? 1)%nat; reflexivity. Qed.
Lemma vmap2_flip {A B C} (f : A -> B -> C) : forall a b, vmap2 f a b = vmap2 (fun y x => f x y) b a.
Proof. induction a; destruct b; cbn; auto. now rewrite IHa. Qed.
Lemma bcv_flip {A B C} (f : A -> B -> C) a b : bcv f a b = bcv (fun y x => f x y) b a.
Proof.
  unfold bcv. rewrite (Nat.eqb_sym (length b)). destruct (length a =? length b)%nat eqn:E; [apply vmap2_flip|].
  destruct a as [|x [|? ?]]; destruct b as [|y [|? ?]]; try reflexivity; cbn in E; discriminate.
Qed.
Lemma Qeq_refl' (a b : Q) : a = b -> a == b. Proof. now intros ->. Qed.

(* ---------- tactics ---------- *)
Ltac ev_cbv :=
  cbv [run_tree ev ev_list scalars obind ebind ebind2 pure_only argn nth_error ret chk bc app rev
       v_bin v_cmp v_logic v_un v_red v_astype v_pyfloat v_pybool v_mask v_where v_list v_item list_bools list_qs
       s_bin s_cmp s_py s_x s_fin s_truth as_qs xbin xadd xsub xmul xdivx xneg xscale qbin zbin q_un
       option_map andb orb negb].
Ltac atom_of c :=
  lazymatch c with
  | match ?a with _ => _ end => atom_of a
  | lift_q ?a => atom_of a
  | lift_unit ?a => atom_of a
  | let '(_, _) := ?a in _ => atom_of a
  | bind ?a _ => atom_of a
  | obind ?a _ => atom_of a
  | _ => c
  end.
Ltac split_atom :=
  match goal with
  | |- context [match ?c with _ => _ end] => let a := atom_of c in destruct a eqn:?
  end.
Ltac simp := cbv beta iota; cbn [bind lift_q lift_unit out_eq map s_x obind].
(* length goals, all lengths being expressed in that of the base list by oriented hypotheses *)
Ltac len :=
  repeat first [ rewrite map_length | rewrite vmap2_length | rewrite vselect_length by len ];
  repeat match goal with H : length _ = length _ |- _ => rewrite H end;
  rewrite ?Nat.min_id; reflexivity.
Ltac lens :=
  repeat match goal with
  | |- context [bcv ?f ?a ?b] => rewrite (bcv_eq f a b) by len
  | |- context [bc_ok ?a ?b] => rewrite (bc_ok_eq a b) by len
  | |- context [(length ?a =? length ?b)%nat] => rewrite (eqb_len a b) by len
  end.
(* two list expressions over lists of equal lengths are equal: simultaneous induction *)
Ltac list_eq :=
  repeat match goal with H : ?T |- _ =>
    match type of T with Prop => lazymatch T with (@length _ _ = @length _ _) => fail | _ => clear H end end end;
  lazymatch goal with
  | H : length _ = length ?base |- _ =>
      repeat match goal with H' : length ?l = length base |- _ => revert l H' end;
      induction base as [|x0 base IH]; intros;
      [ repeat match goal with H' : length ?l = length [] |- _ => destruct l; [clear H' | discriminate H'] end; reflexivity
      | repeat match goal with H' : length ?l = length (_ :: _) |- _ =>
          destruct l; [discriminate H' | cbn [length] in H'; apply Nat.succ_inj in H'] end;
        cbn [map vmap2 vselect Multipitch.zip2 Multipitch.zip3];
        repeat (match goal with |- context [if ?c then _ else _] => destruct c eqn:? end;
                cbn [map vmap2 vselect Multipitch.zip2 Multipitch.zip3]);
        first [ reflexivity | f_equal; first [reflexivity | ring | lia | eapply IH; eassumption] | eapply IH; eassumption ] ]
  | _ => reflexivity
  end.
Ltac q_congr :=
  first [ reflexivity
        | lazymatch goal with
          | |- qsum _ = qsum _ => apply (f_equal qsum); list_eq
          | |- vzsum _ = vzsum _ => apply (f_equal vzsum); list_eq
          | |- ?op _ _ = ?op _ _ => apply f_equal2; q_congr
          | |- ?op _ = ?op _ => apply f_equal; q_congr
          end ].
(* qsum A == qsum B for two list expressions over arrays of equal lengths, elements compared up to ring *)
Ltac qsum_eq :=
  (* a total that occurs inside the elements is a fixed number for the induction *)
  repeat match goal with |- qsum ?A == _ => match A with context [qsum ?X] => let t := fresh "t" in set (t := qsum X) in *; clearbody t end end;
  repeat match goal with H : ?T |- _ =>
    match type of T with Prop => lazymatch T with (@length _ _ = @length _ _) => fail | _ => clear H end end end;
  lazymatch goal with
  | H : length _ = length ?base |- _ =>
      repeat match goal with H' : length ?l = length base |- _ => revert l H' end;
      induction base as [|x0 base IH]; intros;
      [ repeat match goal with H' : length ?l = length [] |- _ => destruct l; [clear H' | discriminate H'] end; reflexivity
      | repeat match goal with H' : length ?l = length (_ :: _) |- _ =>
          destruct l; [discriminate H' | cbn [length] in H'; apply Nat.succ_inj in H'] end;
        cbn [map vmap2 vselect];
        repeat (match goal with |- context [if ?c then _ else _] => destruct c eqn:? end; cbn [map vmap2 vselect]);
        first [ reflexivity
              | eapply IH; eassumption
              | unfold qsum; cbn [fold_right]; apply Qplus_comp; [first [reflexivity | ring] | eapply IH; eassumption] ] ]
  | _ => reflexivity
  end.
Ltac qeq_congr :=
  first [ reflexivity
        | lazymatch goal with
          | |- qsum (bcv _ ?a ?b) == qsum (bcv _ ?a ?b) => apply qsum_bcv_ext; intros; ring
          | |- qsum _ == qsum _ => qsum_eq
          | |- _ / _ == _ / _ => apply Qdiv_comp; qeq_congr
          | |- _ * _ == _ * _ => apply Qmult_comp; qeq_congr
          | |- _ + _ == _ + _ => apply Qplus_comp; qeq_congr
          | |- _ - _ == _ - _ => apply Qminus_comp; qeq_congr
          end
        | ring
        | apply Qeq_refl'; q_congr ].
Ltac leaf :=
  lazymatch goal with
  | |- Forall2 _ _ _ => first [ repeat (apply Forall2_cons; [cbn [xeq]; first [reflexivity | qeq_congr ] |]); apply Forall2_nil | exfalso; lia ]
  | |- @eq exn _ _ => reflexivity
  | |- True => exact I
  | |- False => lia
  end.
(* sums written differently by the model and by the program are identified before the case analysis *)
Ltac unify_sums :=
  repeat match goal with
  | |- context [Multipitch.zsum ?Y] =>
      match goal with
      | |- context [vzsum ?X] =>
          let H := fresh in
          assert (H : Multipitch.zsum Y = vzsum X) by (first [reflexivity | apply (f_equal vzsum); list_eq]);
          rewrite H; clear H
      end
  end.

(* tests on closed rationals are computed *)
Ltac closed_tests :=
  repeat match goal with
  | |- context [qeqb ?a ?b] =>
      let v := eval vm_compute in (qeqb a b) in
      lazymatch v with true => change (qeqb a b) with true | false => change (qeqb a b) with false end
  end.
Ltac start g :=
  unfold vrun_x, vrun;
  (let t := eval vm_compute in (vp_tree g) in change (vp_tree g) with t);
  ev_cbv; repeat (progress closed_tests; ev_cbv).
Ltac norm :=
  cbv [qcmp zcmp Melody.voiced_ind Melody.unvoiced_ind Melody.chroma_diff Melody.octave_of Melody.qlen]; unfold xdiv;
  rewrite ?qlen0, ?qeqb_inj0; cbv [inject_Z];
  change @Melody.map2 with @vmap2; change @Melody.select with @vselect; change Melody.b2q with b2q;
  rewrite ?len0, ?vcount0, ?map_map, ?vmap2_map_l, ?vmap2_map_r, ?map_vmap2;
  cbv [andb orb negb]; simp.
Ltac bc_orient :=
  try match goal with
  | |- context [bc_ok ?a ?b] =>
      match goal with |- context [bc_ok b a] => rewrite (bc_ok_sym a b); repeat rewrite (bcv_flip _ a b) end
  end.
Ltac finish := repeat (split_atom; simp); leaf.

(* ---------- melody ---------- *)
Theorem voicing_recall_tie : forall rv ev : list Q,
  out_eq (vrun_x gen_voicing_recall no_ext [VQ rv; VQ ev]) (lift_q (Melody.voicing_recall rv ev)).
Proof.
  intros. start gen_voicing_recall.
  unfold Melody.voicing_recall, Melody.voicing_rate. rewrite np_mul_bc. norm. bc_orient. finish.
Qed.
Theorem voicing_false_alarm_tie : forall rv ev : list Q,
  out_eq (vrun_x gen_voicing_false_alarm no_ext [VQ rv; VQ ev]) (lift_q (Melody.voicing_false_alarm rv ev)).
Proof.
  intros. start gen_voicing_false_alarm.
  unfold Melody.voicing_false_alarm, Melody.voicing_rate. rewrite np_mul_bc. norm. bc_orient. finish.
Qed.

Definition melody_ext (f : extfn) (vs : list val) : out unit :=
  match f, vs with
  | X_melody_validate_voicing, [VQ rv; VQ ev] => lift_unit (Melody.validate_voicing rv ev)
  | X_melody_validate, [VQ rv; VQ rc; VQ ev; VQ ec] => lift_unit (Melody.validate rv rc ev ec)
  | _, _ => UNM
  end.
Lemma validate_voicing_len rv ev u : Melody.validate_voicing rv ev = Ok u -> length ev = length rv.
Proof. unfold Melody.validate_voicing. destruct (length rv =? length ev)%nat eqn:E; [|discriminate]. intros _. symmetry. now apply Nat.eqb_eq. Qed.
Lemma validate_len rv rc ev ec u : Melody.validate rv rc ev ec = Ok u -> length rc = length rv /\ length ec = length rv.
Proof.
  unfold Melody.validate.
  destruct (length rv =? length rc)%nat eqn:E1; [|discriminate].
  destruct (length ev =? length ec)%nat eqn:E2; [|discriminate].
  destruct (length rc =? length ec)%nat eqn:E3; [|discriminate]. intros _.
  apply Nat.eqb_eq in E1, E2, E3. split; congruence.
Qed.
Ltac melody_validated rv rc ev ec :=
  cbv [melody_ext]; simp;
  destruct (Melody.validate_voicing rv ev) as [[]|?x] eqn:V1; simp; [|leaf];
  destruct (Melody.validate rv rc ev ec) as [[]|?x] eqn:V2; simp; [|leaf];
  pose proof (validate_voicing_len _ _ _ V1) as Lev; destruct (validate_len _ _ _ _ _ V2) as [Lrc Lec]; clear V1 V2.

Theorem raw_pitch_accuracy_tie : forall (rv rc ev ec : list Q) (tol : Q) (py : bool),
  out_eq (vrun_x gen_raw_pitch_accuracy melody_ext [VQ rv; VQ rc; VQ ev; VQ ec; VS (SF py (Fin tol))])
         (lift_q (Melody.raw_pitch_accuracy rv rc ev ec tol)).
Proof.
  intros. start gen_raw_pitch_accuracy.
  unfold Melody.raw_pitch_accuracy, Melody.raw_accuracy, Melody.freq_diff_cents, Melody.nonzero_freqs.
  melody_validated rv rc ev ec. lens. norm. finish.
Qed.

Theorem raw_chroma_accuracy_tie : forall (rv rc ev ec : list Q) (tol : Q) (py : bool),
  out_eq (vrun_x gen_raw_chroma_accuracy melody_ext [VQ rv; VQ rc; VQ ev; VQ ec; VS (SF py (Fin tol))])
         (lift_q (Melody.raw_chroma_accuracy rv rc ev ec tol)).
Proof.
  intros. start gen_raw_chroma_accuracy.
  unfold Melody.raw_chroma_accuracy, Melody.raw_accuracy, Melody.freq_diff_cents, Melody.nonzero_freqs.
  melody_validated rv rc ev ec. lens. norm. finish.
Qed.
Theorem overall_accuracy_tie : forall (rv rc ev ec : list Q) (tol : Q) (py : bool),
  out_eq (vrun_x gen_overall_accuracy melody_ext [VQ rv; VQ rc; VQ ev; VQ ec; VS (SF py (Fin tol))])
         (lift_q (Melody.overall_accuracy rv rc ev ec tol)).
Proof.
  intros. start gen_overall_accuracy.
  unfold Melody.overall_accuracy, Melody.freq_diff_cents, Melody.nonzero_freqs.
  melody_validated rv rc ev ec. lens. norm. finish.
Qed.

(* the default tolerance is the Python int 50 *)
Theorem raw_pitch_accuracy_tie_int : forall (rv rc ev ec : list Q) (tol : Z) (py : bool),
  out_eq (vrun_x gen_raw_pitch_accuracy melody_ext [VQ rv; VQ rc; VQ ev; VQ ec; VS (SI py tol)])
         (lift_q (Melody.raw_pitch_accuracy rv rc ev ec (inject_Z tol))).
Proof.
  intros. start gen_raw_pitch_accuracy.
  unfold Melody.raw_pitch_accuracy, Melody.raw_accuracy, Melody.freq_diff_cents, Melody.nonzero_freqs.
  melody_validated rv rc ev ec. lens. norm. finish.
Qed.
Theorem raw_chroma_accuracy_tie_int : forall (rv rc ev ec : list Q) (tol : Z) (py : bool),
  out_eq (vrun_x gen_raw_chroma_accuracy melody_ext [VQ rv; VQ rc; VQ ev; VQ ec; VS (SI py tol)])
         (lift_q (Melody.raw_chroma_accuracy rv rc ev ec (inject_Z tol))).
Proof.
  intros. start gen_raw_chroma_accuracy.
  unfold Melody.raw_chroma_accuracy, Melody.raw_accuracy, Melody.freq_diff_cents, Melody.nonzero_freqs.
  melody_validated rv rc ev ec. lens. norm. finish.
Qed.
Theorem overall_accuracy_tie_int : forall (rv rc ev ec : list Q) (tol : Z) (py : bool),
  out_eq (vrun_x gen_overall_accuracy melody_ext [VQ rv; VQ rc; VQ ev; VQ ec; VS (SI py tol)])
         (lift_q (Melody.overall_accuracy rv rc ev ec (inject_Z tol))).
Proof.
  intros. start gen_overall_accuracy.
  unfold Melody.overall_accuracy, Melody.freq_diff_cents, Melody.nonzero_freqs.
  melody_validated rv rc ev ec. lens. norm. finish.
Qed.

(* ---------- multipitch ---------- *)
Theorem compute_accuracy_tie : forall tp nr ne : list Z, length nr = length tp -> length ne = length tp ->
  out_eq (vrun_x gen_compute_accuracy no_ext [VZ tp; VZ nr; VZ ne])
         (let '(p, r, a) := Multipitch.compute_accuracy tp nr ne in OK [Fin p; Fin r; Fin a]).
Proof.
  intros tp nr ne Lnr Lne. start gen_compute_accuracy.
  unfold Multipitch.compute_accuracy, Multipitch.zq. lens. norm. unify_sums. change Multipitch.zsum with vzsum. finish.
Qed.
Theorem compute_err_score_tie : forall tp nr ne : list Z, length nr = length tp -> length ne = length tp ->
  out_eq (vrun_x gen_compute_err_score no_ext [VZ tp; VZ nr; VZ ne])
         (let '(s, m, f, t) := Multipitch.compute_err_score tp nr ne in OK [Fin s; Fin m; Fin f; Fin t]).
Proof.
  intros tp nr ne Lnr Lne. start gen_compute_err_score.
  unfold Multipitch.compute_err_score, Multipitch.zq. lens. norm. unify_sums. change Multipitch.zsum with vzsum. finish.
Qed.

(* ---------- chord.weighted_accuracy ---------- *)
Lemma zof_eqb a b : (Z.of_nat a =? Z.of_nat b)%Z = (a =? b)%nat.
Proof. destruct (a =? b)%nat eqn:E; [apply Nat.eqb_eq in E|apply Nat.eqb_neq in E]; lia. Qed.
Lemma existsb_map_id {A} (f : A -> bool) l : existsb (fun b => b) (map f l) = existsb f l.
Proof. induction l; cbn; [reflexivity|]. now rewrite IHl. Qed.
Lemma wa_keep_select : forall c w, length w = length c ->
  ChordScore.wa_keep c w = combine (vselect (map ChordScore.wa_valid c) c) (vselect (map ChordScore.wa_valid c) w).
Proof. induction c as [|x c IH]; destruct w as [|y w]; cbn; try discriminate; auto. intros [= H]. destruct (ChordScore.wa_valid x); cbn; now rewrite IH. Qed.
Lemma combine_nil_count {A} : forall (m : list bool) (a b : list A), length a = length m -> length b = length m ->
  combine (vselect m a) (vselect m b) = [] -> (vcount m =? 0)%Z = true.
Proof. induction m as [|x m IH]; destruct a, b; cbn; try discriminate; auto. intros [= Ha] [= Hb]. destruct x; [discriminate|]. intros E. apply (IH _ _ Ha Hb E). Qed.
Lemma count_combine_nil {A} : forall (m : list bool) (a b : list A), (vcount m =? 0)%Z = true -> combine (vselect m a) (vselect m b) = [].
Proof.
  induction m as [|x m IH]; intros a b E; [destruct a, b; reflexivity|].
  destruct x; [exfalso; unfold vcount in E; cbn [filter length] in E; lia|].
  destruct a as [|x a], b as [|y b]; cbn [vselect combine]; auto; try (destruct (vselect m a); reflexivity); try (apply IH; exact E).
Qed.
Lemma map_snd_combine {A B} : forall (a : list A) (b : list B), length a = length b -> map snd (combine a b) = b.
Proof. induction a; destruct b; cbn; try discriminate; auto. intros [= H]. now rewrite IHa. Qed.
Lemma map_combine {A B C} (f : A * B -> C) : forall a b, map f (combine a b) = vmap2 (fun x y => f (x, y)) a b.
Proof. induction a; destruct b; cbn; auto. now rewrite IHa. Qed.
(* the model, with the kept rows as two masked arrays *)
Definition wa_alt (c w : list Q) : res xval :=
  if negb (length w =? length c)%nat then Raise ValueError
  else if existsb (fun x => qltb x 0) w then Raise ValueError
  else if qeqb (qsum w) 0 then Ok (Fin 0)
  else let m := map (fun x => qleb 0 x) c in
       if (vcount m =? 0)%Z then Ok (Fin 0)
       else let cs := vselect m c in let ws := vselect m w in
            if qeqb (qsum ws) 0 then Ok NaN else Ok (Fin (qsum (vmap2 (fun x y => x * (y / qsum ws)) cs ws))).
Lemma wa_q_alt c w : ChordScore.wa_q c w = wa_alt c w.
Proof.
  unfold ChordScore.wa_q, wa_alt. destruct (length w =? length c)%nat eqn:L; [|reflexivity]. cbn [negb]. apply Nat.eqb_eq in L.
  destruct (existsb _ w); [reflexivity|]. destruct (qeqb (qsum w) 0); [reflexivity|].
  rewrite (wa_keep_select c w L). change (map ChordScore.wa_valid c) with (map (fun x => qleb 0 x) c). cbv zeta.
  set (m := map (fun x => qleb 0 x) c).
  assert (Lc : length c = length m) by (unfold m; now rewrite map_length).
  assert (Lw : length w = length m) by congruence.
  destruct (vcount m =? 0)%Z eqn:E.
  - now rewrite (count_combine_nil m c w E).
  - destruct (combine (vselect m c) (vselect m w)) as [|r rows] eqn:K.
    + rewrite (combine_nil_count m c w Lc Lw K) in E. discriminate.
    + rewrite <- K. clear K r rows. unfold ChordScore.wa_total, ChordScore.wa_score, ChordScore.wa_total.
      assert (LL : length (vselect m c) = length (vselect m w)) by (rewrite !vselect_length; congruence).
      rewrite (map_snd_combine _ _ LL), map_combine. cbn [fst snd]. reflexivity.
Qed.
(* nan: every kept weight is 0 when they are non-negative and sum to 0 *)
Lemma qsum_nonneg l : Forall (fun x => 0 <= x) l -> 0 <= qsum l.
Proof. induction 1; unfold qsum in *; cbn [fold_right]; lra. Qed.
Lemma nonneg_sum0 : forall l, Forall (fun x => 0 <= x) l -> qsum l == 0 -> Forall (fun x => x == 0) l.
Proof.
  induction l as [|x l IH]; intros F S; constructor; inversion F as [|? ? Hx Hl]; subst; pose proof (qsum_nonneg l Hl) as P; unfold qsum in *; cbn [fold_right] in S; [lra|apply IH; [assumption|lra]].
Qed.
Definition lift_x (r : res xval) : out (list xval) := match r with Ok x => OK [x] | Raise e => EXN e end.
Lemma Forall_vselect {A} (P : A -> Prop) : forall m l, Forall P l -> Forall P (vselect m l).
Proof. induction m as [|b m IH]; intros l F; [constructor|]. destruct l; [constructor|]. inversion F; subst. cbn. destruct b; [constructor|]; auto. Qed.
Lemma no_neg_nonneg l : existsb (fun x => qltb x 0) l = false -> Forall (fun x => 0 <= x) l.
Proof.
  induction l as [|x l IH]; cbn; [constructor|]. intros E. apply orb_false_iff in E as [E1 E2]. constructor; [|auto].
  unfold qltb in E1. apply negb_false_iff, Qle_bool_iff in E1. exact E1.
Qed.
Lemma kept_zero (m : list bool) (c w : list Q) : length w = length c -> length m = length c -> existsb (fun x => qltb x 0) w = false ->
  qeqb (qsum (vselect m w)) 0 = true -> (Melody.count_true m =? 0)%nat = false ->
  length (vselect m c) = length (vselect m w) /\ vselect m w <> [] /\ Forall (fun x => x == 0) (vselect m w).
Proof.
  intros L Lm E S C. assert (LL : length (vselect m c) = length (vselect m w)) by (rewrite !vselect_length; congruence).
  split; [exact LL|]. split.
  - intros N. rewrite N in LL. rewrite vselect_length in LL by congruence. cbn in LL. unfold Melody.count_true in C.
    apply Nat.eqb_neq in C. lia.
  - apply nonneg_sum0; [apply Forall_vselect, no_neg_nonneg, E|]. apply Qeq_bool_iff. exact S.
Qed.
Lemma xsum_all_nan (g : Q -> Q -> xval) : forall cs ws, length cs = length ws -> ws <> [] ->
  (forall x y, y == 0 -> g x y = NaN) -> Forall (fun w => w == 0) ws -> xsum (vmap2 g cs ws) = NaN.
Proof.
  intros cs ws L N Hg F. destruct ws as [|w ws]; [congruence|]. destruct cs as [|x cs]; [discriminate|].
  inversion F as [|? ? Hw _]; subst. cbn [vmap2 xsum fold_right]. now rewrite (Hg x w Hw).
Qed.
Lemma xsum_all_nan' (g : Q -> Q -> xval) : forall cs ws, length cs = length ws -> ws <> [] ->
  (forall x y, y == 0 -> g y x = NaN) -> Forall (fun w => w == 0) ws -> xsum (vmap2 g ws cs) = NaN.
Proof.
  intros cs ws L N Hg F. destruct ws as [|w ws]; [congruence|]. destruct cs as [|x cs]; [discriminate|].
  inversion F as [|? ? Hw _]; subst. cbn [vmap2 xsum fold_right]. now rewrite (Hg x w Hw).
Qed.

Theorem weighted_accuracy_tie : forall c w : list Q,
  out_eq (vrun_x gen_weighted_accuracy no_ext [VQ c; VQ w]) (lift_x (ChordScore.wa_q c w)).
Proof.
  intros c w. rewrite wa_q_alt. start gen_weighted_accuracy. unfold wa_alt, lift_x.
  cbv [zcmp qcmp]. rewrite ?zof_eqb, ?existsb_map_id.
  destruct (length w =? length c)%nat eqn:L; cbv [negb]; simp; [apply Nat.eqb_eq in L|reflexivity].
  lens. norm.
  repeat (match goal with |- context [if ?t then VX _ else VQ _] => destruct t eqn:? end; ev_cbv; lens; norm).
  all: repeat (split_atom; simp); try leaf.
  (* zero total weight of the comparable rows: nan *)
  match goal with
  | H1 : existsb _ w = false, H2 : qeqb (qsum (vselect ?m w)) 0 = true, H3 : (Melody.count_true ?m =? 0)%nat = false |- _ =>
      destruct (kept_zero m c w L ltac:(now rewrite map_length) H1 H2 H3) as (LL & NE & Z0)
  end.
  apply Forall2_cons; [|constructor].
  first [ rewrite (xsum_all_nan _ _ _ LL NE) | rewrite (xsum_all_nan' _ _ _ LL NE) ];
    [exact I | intros x y Hy; apply Qeq_bool_iff in Hy; unfold qeqb; rewrite Hy; reflexivity | exact Z0].
Qed.

(* ---------- tempo.detection ---------- *)
Definition tempo_ext (f : extfn) (vs : list val) : out unit :=
  match f, vs with
  | X_tempo_validate, [VQ r; VS (SF _ (Fin w)); VQ e] =>
      match Tempo.validate (map Fin r) w (map Fin e) with Ok _ => OK tt | Raise x => EXN x end
  | _, _ => UNM
  end.
Lemma all_fin_map l : Tempo.all_fin (map Fin l) = Some l.
Proof. induction l; cbn; [reflexivity|]. now rewrite IHl. Qed.
Lemma validate_tempi_fin l b qs : Tempo.validate_tempi (map Fin l) b = Ok qs -> qs = l /\ length l = 2%nat.
Proof.
  unfold Tempo.validate_tempi. rewrite map_length, all_fin_map. destruct (length l =? 2)%nat eqn:E; [|discriminate]. cbn [negb].
  destruct (existsb _ l); [discriminate|]. destruct (b && _); [discriminate|]. intros [= <-]. split; [reflexivity|now apply Nat.eqb_eq].
Qed.
Lemma validate_fin r w e p : Tempo.validate (map Fin r) w (map Fin e) = Ok p -> p = (r, e) /\ length r = 2%nat /\ length e = 2%nat.
Proof.
  unfold Tempo.validate. destruct (Tempo.validate_tempi (map Fin r) true) as [qr|] eqn:R; [|discriminate].
  destruct (Tempo.validate_tempi (map Fin e) false) as [qe|] eqn:E; [|discriminate]. cbn [bind].
  destruct (_ || _); [discriminate|]. intros [= <-].
  apply validate_tempi_fin in R as [-> Lr]. apply validate_tempi_fin in E as [-> Le]. auto.
Qed.
Lemma qltb_true a b : qltb a b = true -> a < b.
Proof. unfold qltb. intros H. apply negb_true_iff in H. apply Qnot_le_lt. intros L. apply Qle_bool_iff in L. congruence. Qed.
Lemma qeqb_true a b : qeqb a b = true -> a == b. Proof. apply Qeq_bool_iff. Qed.
Ltac q_contra :=
  exfalso;
  repeat match goal with
  | H : qltb _ _ = true |- _ => apply qltb_true in H
  | H : qeqb _ _ = true |- _ => apply qeqb_true in H
  end; lra.

Definition lift_det (r : res (Q * bool * bool)) : out (list xval) :=
  match r with Ok (p, o, b) => OK [Fin p; Fin (b2q o); Fin (b2q b)] | Raise x => EXN x end.
Ltac tempo_cbn :=
  cbn [nth length Nat.ltb Nat.leb Z.of_nat Pos.of_succ_nat Pos.succ zcmp Z.eqb Pos.eqb map
       qmin_list qmax_list fold_left existsb forallb is_nil].
Theorem detection_tie : forall (r e : list Q) (w tol : Q) (pw pt : bool),
  out_eq (vrun_x gen_detection tempo_ext [VQ r; VS (SF pw (Fin w)); VQ e; VS (SF pt (Fin tol))])
         (lift_det (Tempo.detection (map Fin r) w (map Fin e) tol)).
Proof.
  intros. unfold Tempo.detection.
  destruct (Tempo.validate (map Fin r) w (map Fin e)) as [p|x] eqn:V.
  - destruct (validate_fin _ _ _ _ V) as (-> & Lr & Le).
    destruct r as [|r0 [|r1 [|? ?]]]; try discriminate. destruct e as [|e0 [|e1 [|? ?]]]; try discriminate. clear Lr Le.
    start gen_detection. cbv [tempo_ext]. rewrite V. simp. tempo_cbn.
    repeat (match goal with |- context [if ?t then VX _ else VQ _] => destruct t eqn:? end; ev_cbv; tempo_cbn).
    all: cbv [Tempo.hit Tempo.rel_err lift_det]; change Tempo.b2q with b2q; norm.
    all: repeat (split_atom; simp).
    all: first [leaf | q_contra].
  - start gen_detection. cbv [tempo_ext]. rewrite V. simp. reflexivity.
Qed.

Print Assumptions voicing_recall_tie.
Print Assumptions voicing_false_alarm_tie.
Print Assumptions raw_pitch_accuracy_tie.
Print Assumptions raw_chroma_accuracy_tie.
Print Assumptions overall_accuracy_tie.
Print Assumptions compute_accuracy_tie.
Print Assumptions compute_err_score_tie.
Print Assumptions weighted_accuracy_tie.
Print Assumptions detection_tie.
Print Assumptions raw_pitch_accuracy_tie_int.
Print Assumptions raw_chroma_accuracy_tie_int.
Print Assumptions overall_accuracy_tie_int.
