From Coq Require Import List Arith Bool Lia.
From ME Require Import Model.Dict Model.Matching Proofs.HKRecurse Proofs.HKLayering.
Import ListNotations.

Definition valid g (m : matching) := NoDup (keys m) /\ inj m /\ edges_ok g m.
Definition matching_ok g (l : list (nat * nat)) :=
  NoDup (map fst l) /\ NoDup (map snd l) /\ forall v u, In (v, u) l -> edge g u v.

(* ---------- generic list facts ---------- *)
Lemma filter_split_length {A} (p : A -> bool) l : length (filter p l) + length (filter (fun x => negb (p x)) l) = length l.
Proof. induction l as [|x t IH]; simpl; [reflexivity|]. destruct (p x); simpl; lia. Qed.
Lemma NoDup_map_filter {A B} (f : A -> B) p l : NoDup (map f l) -> NoDup (map f (filter p l)).
Proof. induction l as [|x t IH]; simpl; intros H; [constructor|]. inversion H; subst. destruct (p x); simpl; auto.
  constructor; auto. intros Hin. apply in_map_iff in Hin. destruct Hin as (y & Hy & Hf). apply filter_In in Hf.
  apply H2. rewrite <- Hy. apply in_map. tauto. Qed.

Lemma konig g (l : list (nat * nat)) CU CV : matching_ok g l ->
  (forall u v, edge g u v -> In u CU \/ In v CV) -> length l <= length CU + length CV.
Proof. intros (N1 & N2 & He) Hc.
  set (p := fun e : nat * nat => existsb (Nat.eqb (snd e)) CU).
  rewrite <- (filter_split_length p l).
  assert (length (filter p l) <= length CU).
  { rewrite <- (map_length snd). apply NoDup_incl_length; [now apply NoDup_map_filter|].
    intros u Hu. apply in_map_iff in Hu. destruct Hu as ([v u'] & <- & Hf). apply filter_In in Hf. destruct Hf as (_ & Hp).
    unfold p in Hp. apply existsb_exists in Hp. destruct Hp as (x & Hx & E). apply Nat.eqb_eq in E. simpl in *. now subst. }
  assert (length (filter (fun x => negb (p x)) l) <= length CV).
  { rewrite <- (map_length fst). apply NoDup_incl_length; [now apply NoDup_map_filter|].
    intros v Hv. apply in_map_iff in Hv. destruct Hv as ([v' u] & <- & Hf). apply filter_In in Hf. destruct Hf as (Hin & Hp).
    simpl. destruct (Hc u v' (He _ _ Hin)) as [H1|H1]; [|exact H1]. exfalso.
    apply negb_true_iff in Hp. unfold p in Hp. simpl in Hp.
    assert (existsb (Nat.eqb u) CU = true) by (apply existsb_exists; exists u; split; [auto|apply Nat.eqb_refl]). congruence. }
  lia. Qed.

Lemma valid_list g m : valid g m -> matching_ok g m.
Proof. intros (Hk & Hi & He). split; [exact Hk|]. split.
  - assert (Hi' : forall v1 v2 u, In (v1, u) m -> In (v2, u) m -> v1 = v2)
      by (intros v1 v2 u H1 H2; eapply Hi; apply In_dget; eauto).
    clear Hi He. induction m as [|[v u] t IH]; simpl; [constructor|]. inversion Hk; subst. constructor.
    + intros Hin. apply in_map_iff in Hin. destruct Hin as ([v' u'] & E & Hin). simpl in E; subst u'.
      assert (v' = v) by (eapply Hi'; [right; eauto| now left]). subst. apply H1. change v with (fst (v, u)). now apply in_map.
    + apply IH; auto. intros v1 v2 u0 A B. eapply Hi'; right; eauto.
  - intros v u Hin. apply He. now apply In_dget. Qed.

(* ---------- init_pred ---------- *)
Lemma dget_freemap (g : graph) u : dget (map (fun e => (fst e, Free)) g) u = if dmem g u then Some Free else None.
Proof. unfold dmem. induction g as [|[k vs] t IH]; simpl; [reflexivity|]. destruct (Nat.eqb u k); auto. Qed.
Lemma dget_delall (l : matching) : forall (p : dict pu) u,
  dget (fold_left (fun p e => ddel p (snd e)) l p) u = if existsb (fun e => Nat.eqb (snd e) u) l then None else dget p u.
Proof. induction l as [|[v u'] t IH]; intros p u; simpl; [reflexivity|]. rewrite IH.
  destruct (existsb _ t); [now rewrite orb_true_r|]. rewrite orb_false_r.
  destruct (Nat.eqb u' u) eqn:E; [apply Nat.eqb_eq in E; subst; apply dget_ddel_same|].
  apply dget_ddel_other. apply Nat.eqb_neq in E. congruence. Qed.
Lemma init_pred_spec g m u : dget (init_pred g m) u =
  if existsb (fun e => Nat.eqb (snd e) u) m then None else if dmem g u then Some Free else None.
Proof. unfold init_pred. now rewrite dget_delall, dget_freemap. Qed.

Lemma init_LInv g m : valid g m ->
  LInv g m ([], init_pred g m, keys (init_pred g m), []) /\ Lfront g ([], init_pred g m, keys (init_pred g m), []).
Proof. intros (Hk & Hi & He). split; [|intros u Hu; left; now apply dget_keys].
  unfold LInv. repeat split.
  - intros u Hu v Hv. rewrite init_pred_spec in Hu.
    assert (existsb (fun e => Nat.eqb (snd e) u) m = true).
    { apply existsb_exists. exists (v, u). split; [now apply dget_In| apply Nat.eqb_refl]. }
    rewrite H in Hu. discriminate.
  - intros u v Hu. rewrite init_pred_spec in Hu. destruct (existsb _ m); [discriminate|]. destruct (dmem g u); discriminate.
  - intros v L u H. discriminate.
  - intros u Hg Hn. rewrite init_pred_spec in Hn. destruct (existsb (fun e => Nat.eqb (snd e) u) m) eqn:E.
    + apply existsb_exists in E. destruct E as ([v u'] & Hin & E). apply Nat.eqb_eq in E. simpl in E; subst. exists v. now apply In_dget.
    + apply dget_keys in Hg. unfold dmem in Hn. destruct (dget g u); [discriminate|congruence].
  - intros v H. exfalso. apply H. reflexivity.
  - intros v [].
Qed.

(* ---------- one phase of augmentations ---------- *)
Lemma phase_fold g F unm : forall st pred0, Inv g st -> sub (snd (fst st)) pred0 -> (forall v, In v unm -> noptr pred0 v) ->
  Inv g (fold_left (fun st v => fst (recurse F v st)) unm st).
Proof. induction unm as [|v unm IH]; intros st pred0 HI Hs Hn; cbn [fold_left]; [exact HI|].
  assert (Hnv : noptr (snd (fst st)) v) by (eapply noptr_sub; eauto; apply Hn; now left).
  pose proof (recurse_spec g F v st HI Hnv) as Hp. destruct st as [[preds pred] m0]. unfold post in Hp.
  destruct (recurse F v (preds, pred, m0)) as [[[preds' pred'] m'] b]. destruct Hp as (S1 & S2 & Hf & Ht). cbn [fst snd] in *.
  apply (IH _ pred0); [|cbn [fst snd]; eapply sub_trans; eauto|intros; apply Hn; now right].
  destruct b; [now apply Ht|]. rewrite (Hf eq_refl). eapply Inv_sub; eauto. Qed.

(* ---------- greedy initialisation ---------- *)
Lemma greedy_u_valid g u vs : forall m, (forall v, In v vs -> edge g u v) -> valid g m -> (forall v, dget m v <> Some u) ->
  valid g (greedy_u vs u m) /\ (forall v u', dget (greedy_u vs u m) v = Some u' -> dget m v = Some u' \/ u' = u).
Proof. induction vs as [|v vs IH]; intros m Hvs Hv Hu; cbn [greedy_u]; [split; auto|].
  destruct (dmem m v) eqn:E; [apply IH; auto; intros; apply Hvs; now right|].
  destruct Hv as (Hk & Hi & He). unfold dmem in E. destruct (dget m v) eqn:Ev; [discriminate|]. split.
  - split; [now apply NoDup_keys_dset|]. split.
    + intros v1 v2 u' H1 H2. destruct (Nat.eq_dec v1 v) as [->|N1], (Nat.eq_dec v2 v) as [->|N2]; auto.
      * rewrite dget_dset_same in H1. injection H1 as <-. rewrite dget_dset_other in H2 by auto. exfalso; eapply Hu; eauto.
      * rewrite dget_dset_same in H2. injection H2 as <-. rewrite dget_dset_other in H1 by auto. exfalso; eapply Hu; eauto.
      * rewrite dget_dset_other in H1, H2 by auto. eauto.
    + intros v' u' H. destruct (Nat.eq_dec v' v) as [->|N].
      * rewrite dget_dset_same in H. injection H as <-. apply Hvs. now left.
      * rewrite dget_dset_other in H by auto. auto.
  - intros v' u' H. destruct (Nat.eq_dec v' v) as [->|N].
    + rewrite dget_dset_same in H. injection H as <-. now right.
    + rewrite dget_dset_other in H by auto. now left. Qed.
Lemma greedy_fold_valid g rest : forall m, (forall e, In e rest -> dget g (fst e) = Some (snd e)) -> NoDup (keys rest) ->
  valid g m -> (forall v u, dget m v = Some u -> ~ In u (keys rest)) ->
  valid g (fold_left (fun m e => greedy_u (snd e) (fst e) m) rest m).
Proof. induction rest as [|[u vs] rest IH]; intros m Hr Hnd Hv Hfresh; cbn [fold_left]; [exact Hv|].
  cbn [fst snd]. inversion Hnd as [|? ? Hnin Hnd']; subst.
  assert (Hvs : forall v, In v vs -> edge g u v).
  { intros v Hin. unfold edge, nbrs. pose proof (Hr (u, vs) (or_introl eq_refl)) as E. cbn [fst snd] in E. rewrite E. exact Hin. }
  assert (Hu : forall v, dget m v <> Some u) by (intros v H; apply (Hfresh _ _ H); now left).
  destruct (greedy_u_valid g u vs m Hvs Hv Hu) as (Hv' & Hnew).
  apply IH; auto; [intros; apply Hr; now right|].
  intros v u' H Hin. destruct (Hnew _ _ H) as [H0|H0]; [apply (Hfresh _ _ H0); now right| subst; auto]. Qed.
Lemma greedy_valid g : NoDup (keys g) -> valid g (greedy g).
Proof. intros Hnd. unfold greedy. apply greedy_fold_valid; auto.
  - intros [u vs] Hin. now apply In_dget.
  - split; [constructor|]. split; [intros v1 v2 u H; discriminate| intros v u H; discriminate].
  - intros v u H; discriminate. Qed.

(* ---------- the main theorem ---------- *)
Lemma phases_spec g fuel : NoDup (keys g) -> forall m mf, valid g m -> phases fuel g m = Some mf ->
  valid g mf /\ forall l, matching_ok g l -> length l <= length mf.
Proof. intros Hg. induction fuel as [|f IH]; intros m mf Hv; cbn [phases]; [discriminate|].
  destruct (init_LInv g m Hv) as (HI0 & HF0). destruct Hv as (Hk & Hi & He).
  destruct (layering (S (length g)) g m [] (init_pred g m) (keys (init_pred g m)) []) as [[[preds pred] unm]|] eqn:El; [|discriminate].
  destruct (layering_spec g m _ _ _ _ _ _ _ _ HI0 HF0 El) as (layer' & HI & HF & Hex).
  destruct HI as (HA & HB & HC & H1 & H2 & H5).
  destruct unm as [|v0 unm0] eqn:Eu.
  - (* no augmenting path: Koenig certificate *)
    intros [= <-]. split; [now repeat split|]. intros l Hl. rewrite (Hex eq_refl) in HF. clear Hex.
    set (CU := filter (fun u => negb (dmem pred u)) (keys g)). set (CV := nodup Nat.eq_dec (keys preds)).
    assert (Hcov : forall u v, edge g u v -> In u CU \/ In v CV).
    { intros u v Huv. destruct (dget pred u) eqn:Ep.
      - right. apply nodup_In, dget_keys. destruct (HF u) as [[]|Hall]; [unfold isin; congruence| now apply Hall].
      - left. apply filter_In. split; [|unfold dmem; now rewrite Ep].
        apply dget_keys. unfold edge, nbrs in Huv. destruct (dget g u); [congruence|destruct Huv]. }
    pose proof (konig g l CU CV Hl Hcov) as Hle.
    set (p := fun e : nat * nat => dmem pred (snd e)).
    assert (length CU <= length (filter (fun e => negb (p e)) m)).
    { rewrite <- (map_length snd). apply NoDup_incl_length; [apply NoDup_filter; exact Hg|].
      intros u Hu. apply filter_In in Hu. destruct Hu as (Hin & Hp). destruct (H1 u Hin) as (v & Hm).
      - unfold dmem in Hp. destruct (dget pred u); [discriminate|reflexivity].
      - apply in_map_iff. exists (v, u). split; [reflexivity|]. apply filter_In. split; [now apply dget_In| exact Hp]. }
    assert (length CV <= length (filter p m)).
    { rewrite <- (map_length fst). apply NoDup_incl_length; [apply NoDup_nodup|].
      intros v Hv. apply nodup_In, dget_keys in Hv. destruct (H2 v Hv) as [[]|(u & Hm & Hu)].
      apply in_map_iff. exists (v, u). split; [reflexivity|]. apply filter_In. split; [now apply dget_In|].
      unfold p, dmem. simpl. unfold isin in Hu. destruct (dget pred u); congruence. }
    pose proof (filter_split_length p m). lia.
  - (* augment along a maximal set of shortest paths, then iterate *)
    assert (HInv : Inv g (preds, pred, m)) by (unfold Inv; repeat split; auto).
    assert (Hn : forall v, In v (v0 :: unm0) -> noptr pred v).
    { intros v Hin u Hu. apply HB in Hu. rewrite (H5 v Hin) in Hu. discriminate. }
    pose proof (phase_fold g (S (length preds)) (v0 :: unm0) (preds, pred, m) pred HInv (sub_refl _) Hn) as HI'.
    match goal with |- context [fold_left ?ff ?l ?s] => destruct (fold_left ff l s) as [[p1 q1] m'] end.
    intros Hph. apply (IH m'); auto.
    destruct HI' as (a & b & c & _). now repeat split.
Qed.

Theorem bipartite_match_correct g m : NoDup (keys g) -> bipartite_match g = Some m ->
  matching_ok g m /\ forall l, matching_ok g l -> length l <= length m.
Proof. intros Hg H. unfold bipartite_match in H. destruct (phases_spec g _ Hg _ _ (greedy_valid g Hg) H) as (Hv & Hmax).
  split; [now apply valid_list|exact Hmax]. Qed.
