(* Tie of mir_eval/io.py::load_delimited (translated by translator/iofuncs.py into Gen/IOGen.v, a program of Model/IoExp.v)
   to the hand-written model IO.load_delimited, for ALL file contents, converter lists, supported delimiters and comment
   expressions: same columns / same exception class and the same row number in the message.

   load_delimited_tie : supported d = true ->
     io_run gen_load_delimited [PPath text; PList (map PFun convs); PSrc (PDelim d); emb_comment cm]
     = (emb_rres emb_ld (IO.load_delimited convs d cm text), [])

   Method: the inner loop (zip(data, columns, converters), one append per heap cell) and the outer loop
   (enumerate(input_file, 1)) are proved by induction against IO.convert_row / IO.load_rows; the heap after the loops is
   the transpose of the converted rows (add_rows_transpose); the returned value is resolved through the heap (deep_refs). *)
From Coq Require Import String.
From Coq Require Import List Bool Arith ZArith QArith Lia.
From ME Require Import Model.Prelude Model.Regex Model.Key Model.IO Model.IoExp Gen.IOGen Model.IoExpInst Proofs.IOProps.
Import ListNotations.
Close Scope Q_scope.
Local Open Scope string_scope.
Local Open Scope list_scope.

Definition ld_body : list stmt := f_body gen_load_delimited.
Definition ld_outer : list stmt := match nth 4 ld_body SPass with SWith _ _ [SFor _ _ b] => b | _ => [] end.
Definition ld_inner : list stmt := match nth 3 ld_outer SPass with SFor _ _ b => b | _ => [] end.

Section Tie.
Variable num : Type.
Variable conv convv : str -> option num.
Variable val : num -> xval.
Notation pv := (pv num).
Notation run_block := (run_block num).
Notation exec := (exec num conv convv val (io_sigs num) (io_ext num conv val)).
Notation for_loop := (for_loop num).
Notation for_step := (for_step num).
Notation mk := (Build_st num).

Definition ld_env (fnm cvs dlm cmt ncol cols spl cmr inf row line data value column converter cvd : pv) : env num :=
  [("filename", fnm); ("converters", cvs); ("delimiter", dlm); ("comment", cmt); ("n_columns", ncol); ("columns", cols);
   ("splitter", spl); ("commenter", cmr); ("input_file", inf); ("row", row); ("line", line); ("data", data);
   ("value", value); ("column", column); ("converter", converter); ("converted_value", cvd)].

Fixpoint app_row (h : heap num) (vs : list pv) : heap num :=
  match h, vs with c :: h', v :: vs' => (c ++ [v]) :: app_row h' vs' | _, _ => [] end.

Lemma set_nth_mid : forall {A} (a : list A) x y b, set_nth (a ++ x :: b) (length a) y = a ++ y :: b.
Proof. induction a as [|z a IH]; intros; cbn; [reflexivity|]. f_equal. apply IH. Qed.
Lemma nth_error_mid : forall {A} (a : list A) x b, nth_error (a ++ x :: b) (length a) = Some x.
Proof. induction a as [|z a IH]; intros; cbn; [reflexivity|apply IH]. Qed.

Local Arguments lines : simpl never.
Local Arguments pystrip : simpl never.
Local Arguments re_split : simpl never.
Local Arguments prefix_match : simpl never.
Local Arguments load_rows : simpl never.
Local Arguments convert_row : simpl never.
Local Arguments transpose : simpl never.
Local Arguments Z.sub : simpl never.
Local Arguments Z.add : simpl never.
Local Arguments Z.of_nat : simpl never.
Local Arguments Z.to_nat : simpl never.
Local Arguments Z.eqb : simpl never.
Local Arguments IoExp.for_loop : simpl never.
Local Arguments seq : simpl never.
Local Arguments nth_error : simpl never.
Local Arguments set_nth : simpl never.
Local Arguments io_sigs : simpl never.

Lemma inner_step : forall tok i c fnm cvs dlm cmt ncol cols spl cmr inf r l data v1 v2 v3 v4 done cell todo w,
  i = length done ->
  for_step (run_block exec) ["value"; "column"; "converter"] ld_inner (PTup num [PStr num tok; PRef num i; PFun num c])
    (mk (ld_env (PPath num fnm) cvs dlm cmt ncol cols spl cmr inf (PInt num r) (PStr num l) data v1 v2 v3 v4) (done ++ cell :: todo) w)
  = match convert num conv c tok with
    | Some v => SNorm num (mk (ld_env (PPath num fnm) cvs dlm cmt ncol cols spl cmr inf (PInt num r) (PStr num l) data
                                 (PStr num tok) (PRef num i) (PFun num c) (emb_value num v))
                              (done ++ (cell ++ [emb_value num v]) :: todo) w)
    | None => SExn num ValueError (XRows [r]) w
    end.
Proof.
  intros. subst i. unfold for_step. cbn.
  destruct c; cbn.
  - destruct (conv tok) as [x|]; cbn.
    + rewrite nth_error_mid. rewrite set_nth_mid. reflexivity.
    + reflexivity.
  - rewrite nth_error_mid. rewrite set_nth_mid. reflexivity.
Qed.

Lemma for_loop_cons : forall step v t s,
  for_loop step (v :: t) s = match step v s with SNorm _ s' | SCnt _ s' => for_loop step t s' | r => r end.
Proof. reflexivity. Qed.
Lemma for_loop_nil : forall step s, for_loop step [] s = SNorm num s.
Proof. reflexivity. Qed.
Lemma seq_S : forall a n, seq a (S n) = a :: seq (S a) n.
Proof. reflexivity. Qed.

Lemma convert_row_cons : forall c cs t ts, convert_row num conv (c :: cs) (t :: ts) =
  match convert num conv c t with Some v => option_map (cons v) (convert_row num conv cs ts) | None => None end.
Proof. reflexivity. Qed.
Lemma inner_loop : forall cs toks done todo fnm cvs dlm cmt ncol cols spl cmr inf r l data v1 v2 v3 v4 w,
  length toks = length cs -> length todo = length cs ->
  match convert_row num conv cs toks with
  | Some vs => exists v1' v2' v3' v4',
      for_loop (for_step (run_block exec) ["value"; "column"; "converter"] ld_inner)
        (zipn num (map (PStr num) toks) [map (PRef num) (seq (length done) (length cs)); map (PFun num) cs])
        (mk (ld_env (PPath num fnm) cvs dlm cmt ncol cols spl cmr inf (PInt num r) (PStr num l) data v1 v2 v3 v4) (done ++ todo) w)
      = SNorm num (mk (ld_env (PPath num fnm) cvs dlm cmt ncol cols spl cmr inf (PInt num r) (PStr num l) data v1' v2' v3' v4')
                      (done ++ app_row todo (map (emb_value num) vs)) w)
  | None =>
      for_loop (for_step (run_block exec) ["value"; "column"; "converter"] ld_inner)
        (zipn num (map (PStr num) toks) [map (PRef num) (seq (length done) (length cs)); map (PFun num) cs])
        (mk (ld_env (PPath num fnm) cvs dlm cmt ncol cols spl cmr inf (PInt num r) (PStr num l) data v1 v2 v3 v4) (done ++ todo) w)
      = SExn num ValueError (XRows [r]) w
  end.
Proof.
  induction cs as [|c cs IH]; intros [|tok toks] done [|cell todo] fnm cvs dlm cmt ncol cols spl cmr inf r l data v1 v2 v3 v4 w Ht Hd;
    try discriminate.
  - change (convert_row num conv [] []) with (Some (@nil (value num))). cbv beta iota. exists v1, v2, v3, v4. reflexivity.
  - rewrite convert_row_cons. cbn [length map]. rewrite seq_S. cbn [map zipn heads_tails].
    rewrite !for_loop_cons.
    pose proof (inner_step tok (length done) c fnm cvs dlm cmt ncol cols spl cmr inf r l data v1 v2 v3 v4 done cell todo w eq_refl) as E.
    rewrite E. clear E.
    destruct (convert num conv c tok) as [v|]; [|cbv beta iota; reflexivity].
    cbn in Ht, Hd.
    specialize (IH toks (done ++ [cell ++ [emb_value num v]]) todo fnm cvs dlm cmt ncol cols spl cmr inf r l data
                  (PStr num tok) (PRef num (length done)) (PFun num c) (emb_value num v) w ltac:(lia) ltac:(lia)).
    rewrite app_length in IH. cbn [length] in IH. rewrite Nat.add_1_r in IH. rewrite <- !app_assoc in IH. cbn [app] in IH.
    destruct (convert_row num conv cs toks) as [vs|]; cbn [option_map].
    + destruct IH as (a & b & c' & d' & IH). exists a, b, c', d'. rewrite IH. rewrite <- app_assoc. reflexivity.
    + exact IH.
Qed.

Lemma run_block_cons_eq : forall s r st res, exec s st = res ->
  run_block exec (s :: r) st = match res with SNorm _ s' => run_block exec r s' | o => o end.
Proof. intros; subst. unfold IoExp.run_block. destruct (exec s st); reflexivity. Qed.
Lemma zeqb_nat : forall a b, Z.eqb (Z.of_nat a) (Z.of_nat b) = Nat.eqb a b.
Proof. intros. destruct (Nat.eqb_spec a b); [subst; apply Z.eqb_refl|]. apply Z.eqb_neq. lia. Qed.

Definition cmr_val (cm : option re) : pv := match cm with None => PNone num | Some r => PRe num (PAnch r) end.
Definition out_env text convs d cm row line data v1 v2 v3 v4 : env num :=
  ld_env (PPath num text) (PList num (map (PFun num) convs)) (PSrc num (PDelim d)) (emb_comment num cm)
         (PInt num (Z.of_nat (length convs))) (PTup num (map (PRef num) (seq 0 (length convs)))) (PRe num (PDelim d))
         (cmr_val cm) (PFile num text) row line data v1 v2 v3 v4.

Ltac lit_outer := let b := eval vm_compute in ld_outer in change ld_outer with b.
Ltac step tac := erewrite run_block_cons_eq by (cbn; tac; reflexivity); cbv beta iota.

Ltac stepH H tac := erewrite run_block_cons_eq in H by (cbn; tac; reflexivity); cbv beta iota in H.
Lemma app_row_length : forall (h : heap num) vs, length vs = length h -> length (app_row h vs) = length h.
Proof. induction h as [|c h IH]; intros [|v vs] H; try discriminate; cbn; [reflexivity|]. f_equal. apply IH. cbn in H. lia. Qed.

Lemma outer_step : forall text convs d cm k line row0 line0 data0 v1 v2 v3 v4 cells R,
  length cells = length convs ->
  R = for_step (run_block exec) ["row"; "line"] ld_outer (PTup num [PInt num (Z.of_nat k); PStr num line])
             (mk (out_env text convs d cm row0 line0 data0 v1 v2 v3 v4) cells []) ->
  if is_comment cm line then R = SCnt num (mk (out_env text convs d cm (PInt num (Z.of_nat k)) (PStr num line) data0 v1 v2 v3 v4) cells [])
  else match re_split d (Z.of_nat (length convs) - 1) (pystrip line) with
       | None => True
       | Some data =>
           if negb (Nat.eqb (length convs) (length data)) then R = SExn num ValueError (XRows [Z.of_nat k]) []
           else match convert_row num conv convs data with
                | None => R = SExn num ValueError (XRows [Z.of_nat k]) []
                | Some vs => exists data' v1' v2' v3' v4',
                    R = SNorm num (mk (out_env text convs d cm (PInt num (Z.of_nat k)) (PStr num line) data' v1' v2' v3' v4')
                                      (app_row cells (map (emb_value num) vs)) [])
                end
       end.
Proof.
  intros text convs d cm k line row0 line0 data0 v1 v2 v3 v4 cells R Hc HR.
  unfold for_step in HR. cbn [bind_target unpack elems lift_e s_heap s_warn set_all] in HR.
  unfold out_env, ld_env in HR. cbn [set1 update s_env s_heap s_warn String.eqb Ascii.eqb Bool.eqb option_map] in HR.
  let b := eval vm_compute in ld_outer in change ld_outer with b in HR.
  destruct (is_comment cm line) eqn:Ec.
  - destruct cm as [r|]; [|discriminate]. cbn [is_comment] in Ec. subst R.
    step ltac:(rewrite Ec). reflexivity.
  - assert (E1 : exists st', exec (SIf (EAnd (EIsNotNone (ELoc "comment")) (EMeth (ELoc "commenter") "match" [ELoc "line"])) [SContinue] [])
                 (mk (out_env text convs d cm (PInt num (Z.of_nat k)) (PStr num line) data0 v1 v2 v3 v4) cells []) = SNorm num st'
                 /\ st' = mk (out_env text convs d cm (PInt num (Z.of_nat k)) (PStr num line) data0 v1 v2 v3 v4) cells []).
    { eexists. split; [|reflexivity]. destruct cm as [r|]; cbn; [cbn [is_comment] in Ec; rewrite Ec|]; reflexivity. }
    destruct E1 as (st' & E1 & ->). unfold out_env, ld_env in E1.
    rewrite (run_block_cons_eq _ _ _ _ E1) in HR. cbv beta iota in HR. clear E1.
    destruct (re_split d (Z.of_nat (length convs) - 1) (pystrip line)) as [data|] eqn:Es; [|exact I].
    stepH HR ltac:(rewrite Es; cbn).
    destruct (Nat.eqb (length convs) (length data)) eqn:El; cbn [negb].
    2:{ stepH HR ltac:(rewrite map_length, zeqb_nat, El; cbn). exact HR. }
    stepH HR ltac:(rewrite map_length, zeqb_nat, El; cbn).
    apply Nat.eqb_eq in El.
    pose proof (inner_loop convs data [] cells text (PList num (map (PFun num) convs)) (PSrc num (PDelim d)) (emb_comment num cm)
                    (PInt num (Z.of_nat (length convs))) (PTup num (map (PRef num) (seq 0 (length convs)))) (PRe num (PDelim d))
                    (cmr_val cm) (PFile num text) (Z.of_nat k) line (PList num (map (PStr num) data)) v1 v2 v3 v4 []
                    (eq_sym El) Hc) as IL.
    cbn [length app] in IL. unfold ld_env in IL.
    let b := eval vm_compute in ld_inner in change ld_inner with b in IL.
    destruct (convert_row num conv convs data) as [vs|].
    + destruct IL as (a & b & c & e & IL).
      stepH HR ltac:(rewrite IL). exists (PList num (map (PStr num) data)), a, b, c, e. exact HR.
    + stepH HR ltac:(rewrite IL). exact HR.
Qed.

Lemma load_rows_cons : forall convs d cm row line rest,
  load_rows num conv convs d cm row (line :: rest) =
  if is_comment cm line then load_rows num conv convs d cm (S row) rest else
  match re_split d (Z.of_nat (length convs) - 1) (pystrip line) with
  | None => RaiseNoRow OtherExn
  | Some data =>
      if negb (Nat.eqb (length convs) (length data)) then RaiseAt row ValueError else
      match convert_row num conv convs data with
      | None => RaiseAt row ValueError
      | Some vs => match load_rows num conv convs d cm (S row) rest with ROk vss => ROk (vs :: vss) | e => e end
      end
  end.
Proof. reflexivity. Qed.

Definition add_rows (rows : list (list (value num))) (cells : heap num) : heap num :=
  fold_left (fun h vs => app_row h (map (emb_value num) vs)) rows cells.

Lemma outer_loop : forall text convs d cm, supported d = true -> forall ls k cells row0 line0 data0 v1 v2 v3 v4,
  length cells = length convs ->
  match load_rows num conv convs d cm k ls with
  | ROk rows => exists row' line' data' v1' v2' v3' v4',
      for_loop (for_step (run_block exec) ["row"; "line"] ld_outer) (enum_from num (Z.of_nat k) (map (PStr num) ls))
        (mk (out_env text convs d cm row0 line0 data0 v1 v2 v3 v4) cells [])
      = SNorm num (mk (out_env text convs d cm row' line' data' v1' v2' v3' v4') (add_rows rows cells) [])
  | RaiseAt r e =>
      for_loop (for_step (run_block exec) ["row"; "line"] ld_outer) (enum_from num (Z.of_nat k) (map (PStr num) ls))
        (mk (out_env text convs d cm row0 line0 data0 v1 v2 v3 v4) cells [])
      = SExn num e (XRows [Z.of_nat r]) []
  | RaiseNoRow e =>
      for_loop (for_step (run_block exec) ["row"; "line"] ld_outer) (enum_from num (Z.of_nat k) (map (PStr num) ls))
        (mk (out_env text convs d cm row0 line0 data0 v1 v2 v3 v4) cells [])
      = SExn num e (XRows []) []
  end.
Proof.
  intros text convs d cm Hd. induction ls as [|line ls IH]; intros k cells row0 line0 data0 v1 v2 v3 v4 Hc.
  - change (load_rows num conv convs d cm k []) with (@ROk (list (list (value num))) []). cbv beta iota.
    exists row0, line0, data0, v1, v2, v3, v4. reflexivity.
  - rewrite load_rows_cons. cbn [map enum_from]. rewrite !for_loop_cons.
    replace (Z.of_nat k + 1)%Z with (Z.of_nat (S k)) by lia.
    pose proof (outer_step text convs d cm k line row0 line0 data0 v1 v2 v3 v4 cells _ Hc eq_refl) as OS.
    destruct (is_comment cm line).
    + rewrite OS. apply IH. exact Hc.
    + destruct (re_split d (Z.of_nat (length convs) - 1) (pystrip line)) as [data|] eqn:Es.
      2:{ destruct d; discriminate. }
      destruct (negb (Nat.eqb (length convs) (length data))) eqn:El.
      * rewrite OS. reflexivity.
      * destruct (convert_row num conv convs data) as [vs|] eqn:Ecr.
        2:{ rewrite OS. reflexivity. }
        destruct OS as (data' & a & b & c & e & OS). rewrite OS.
        assert (Hl : length (app_row cells (map (emb_value num) vs)) = length convs).
        { rewrite app_row_length; [exact Hc|]. rewrite map_length, Hc.
          apply negb_false_iff, Nat.eqb_eq in El. eapply convert_row_length; [symmetry|]; eassumption. }
        specialize (IH (S k) (app_row cells (map (emb_value num) vs)) (PInt num (Z.of_nat k)) (PStr num line) data' a b c e Hl).
        destruct (load_rows num conv convs d cm (S k) ls) as [vss| |]; exact IH.
Qed.

Lemma alloc_lists : forall en els h,
  alloc_each num conv convv val (io_sigs num) (io_ext num conv val) en "_" (EBuiltin "list" []) els h
  = OK (map (PRef num) (seq (length h) (length els)), h ++ repeat [] (length els)).
Proof.
  intros en. induction els as [|el els IH]; intros h.
  - cbn. rewrite app_nil_r. reflexivity.
  - cbn [alloc_each]. unfold eval_alloc at 1. cbn. rewrite IH. cbn. rewrite app_length. cbn [length]. rewrite Nat.add_1_r.
    rewrite seq_S. rewrite <- app_assoc. reflexivity.
Qed.
Lemma sig_open : lookup_sig num (io_sigs num) "_open" = Some [("file_or_str", None); ("mode", None)].
Proof. vm_compute. reflexivity. Qed.

Ltac step tac ::= erewrite run_block_cons_eq by (cbn; tac; reflexivity); cbv beta iota.

Fixpoint zipapp (h t : heap num) : heap num :=
  match h, t with c :: h', x :: t' => (c ++ x) :: zipapp h' t' | _, _ => [] end.
Lemma zipapp_app_row : forall h r T,
  zipapp (app_row h (map (emb_value num) r)) (map (map (emb_value num)) T) = zipapp h (map (map (emb_value num)) (zipcons r T)).
Proof.
  induction h as [|c h IH]; intros [|x r] [|t T]; cbn; try reflexivity.
  rewrite <- app_assoc. cbn. f_equal. apply IH.
Qed.
Lemma zipapp_nil_r : forall h, zipapp h (repeat [] (length h)) = h.
Proof. induction h as [|c h IH]; cbn; [reflexivity|]. rewrite app_nil_r, IH. reflexivity. Qed.
Lemma zipapp_nil_l : forall X, zipapp (repeat [] (length X)) X = X.
Proof. induction X as [|c h IH]; cbn; [reflexivity|]. rewrite IH. reflexivity. Qed.
Lemma transpose_cons : forall {A} n (r : list A) rs, transpose n (r :: rs) = zipcons r (transpose n rs).
Proof. reflexivity. Qed.
Lemma map_repeat' : forall {A B} (f : A -> B) x n, map f (repeat x n) = repeat (f x) n.
Proof. induction n; cbn; [reflexivity|]. f_equal. assumption. Qed.
Lemma add_rows_gen : forall rows h, Forall (fun r => length r = length h) rows ->
  add_rows rows h = zipapp h (map (map (emb_value num)) (transpose (length h) rows)).
Proof.
  induction rows as [|r rs IH]; intros h HF.
  - unfold add_rows. cbn [fold_left]. change (transpose (length h) (@nil (list (value num)))) with (repeat (@nil (value num)) (length h)).
    rewrite map_repeat'. cbn [map]. symmetry. apply zipapp_nil_r.
  - inversion HF as [|? ? Hr HF']; subst. unfold add_rows. cbn [fold_left]. fold (add_rows rs (app_row h (map (emb_value num) r))).
    assert (Hl : length (app_row h (map (emb_value num) r)) = length h) by (apply app_row_length; rewrite map_length; exact Hr).
    rewrite IH by (rewrite Hl; exact HF'). rewrite Hl. rewrite transpose_cons. apply zipapp_app_row.
Qed.
Lemma add_rows_transpose : forall n rows, Forall (fun r => length r = n) rows ->
  add_rows rows (repeat [] n) = map (map (emb_value num)) (transpose n rows).
Proof.
  intros n rows HF. rewrite add_rows_gen by (rewrite repeat_length; exact HF). rewrite repeat_length.
  rewrite <- (zipapp_nil_l (map (map (emb_value num)) (transpose n rows))) at 2.
  rewrite map_length, transpose_length by exact HF. reflexivity.
Qed.

Lemma omap_deep_cell : forall f h c, omap (deep num (S f) h) (map (emb_value num) c) = Some (map (emb_value num) c).
Proof. induction c as [|v c IH]; [reflexivity|]. cbn [map omap]. rewrite IH. destruct v; reflexivity. Qed.
Lemma deep_ref_eq : forall f h n, deep num (S f) h (PRef num n) =
  match nth_error h n with Some l => option_map (PList num) (omap (deep num f h) l) | None => None end.
Proof. reflexivity. Qed.
Lemma deep_tup_eq : forall f h l, deep num (S f) h (PTup num l) = option_map (PTup num) (omap (deep num f h) l).
Proof. reflexivity. Qed.
Lemma deep_refs : forall f cols pre,
  omap (deep num (S (S f)) (map (map (emb_value num)) (pre ++ cols))) (map (PRef num) (seq (length pre) (length cols)))
  = Some (map (emb_col num) cols).
Proof.
  induction cols as [|c cols IH]; intros pre; [reflexivity|].
  cbn [length]. rewrite seq_S. cbn [map omap]. 
  replace (deep num (S (S f)) (map (map (emb_value num)) (pre ++ c :: cols)) (PRef num (length pre)))
    with (Some (emb_col num c)).
  2:{ rewrite deep_ref_eq. rewrite map_app. cbn [map]. rewrite <- (map_length (map (emb_value num)) pre). rewrite nth_error_mid.
      rewrite omap_deep_cell. reflexivity. }
  specialize (IH (pre ++ [c])). rewrite <- app_assoc in IH. cbn [app] in IH. rewrite app_length in IH. cbn [length] in IH.
  rewrite Nat.add_1_r in IH. rewrite IH. reflexivity.
Qed.

Lemma compile_delim : forall d, supported d = true ->
  match d with DUnsupported => @UNM pv | _ => OK (PRe num (PDelim d)) end = OK (PRe num (PDelim d)).
Proof. intros [| |] H; try reflexivity; discriminate. Qed.
Theorem load_delimited_tie : forall text convs d cm, supported d = true ->
  io_run num conv convv val gen_load_delimited
    [PPath num text; PList num (map (PFun num) convs); PSrc num (PDelim d); emb_comment num cm]
  = (emb_rres num (emb_ld num) (load_delimited num conv convs d cm text), []).
Proof.
  intros text convs d cm Hd. unfold io_run, run_fun.
  change (Nat.eqb _ _) with true. cbv iota. unfold exec_block.
  let b := eval vm_compute in (f_body gen_load_delimited) in change (f_body gen_load_delimited) with b.
  remember (PList num (map (PFun num) convs)) as cv eqn:Ecv. remember (emb_comment num cm) as cmv eqn:Ecm.
  let b := eval vm_compute in (init_env num gen_load_delimited [PPath num text; cv; PSrc num (PDelim d); cmv]) in
    change (init_env num gen_load_delimited [PPath num text; cv; PSrc num (PDelim d); cmv]) with b.
  subst cv cmv.
  step ltac:(rewrite map_length).
  step ltac:(rewrite alloc_lists; cbn; rewrite ?map_length, ?seq_length, ?Nat2Z.id).
  step ltac:(rewrite (compile_delim _ Hd); cbn).
  set (U := PUnbound num).
  assert (E4 : exec (SIf (EIsNone (ELoc "comment")) [SAssign "commenter" ENone]
        [SAssign "commenter" (EBuiltin "re.compile" [EMeth (EStr [94; 123; 125]) "format" [ELoc "comment"]])])
        (mk (ld_env (PPath num text) (PList num (map (PFun num) convs)) (PSrc num (PDelim d)) (emb_comment num cm)
         (PInt num (Z.of_nat (length convs))) (PTup num (map (PRef num) (seq 0 (length convs)))) (PRe num (PDelim d))
         U U U U U U U U U) (repeat [] (length convs)) [])
       = SNorm num (mk (ld_env (PPath num text) (PList num (map (PFun num) convs)) (PSrc num (PDelim d)) (emb_comment num cm)
         (PInt num (Z.of_nat (length convs))) (PTup num (map (PRef num) (seq 0 (length convs)))) (PRe num (PDelim d))
         (cmr_val cm) U U U U U U U U) (repeat [] (length convs)) [])).
  { destruct cm; reflexivity. }
  unfold ld_env in E4. rewrite (run_block_cons_eq _ _ _ _ E4). cbv beta iota. clear E4.
  pose proof (outer_loop text convs d cm Hd (lines text) 1 (repeat [] (length convs)) U U U U U U U (repeat_length _ _)) as OL.
  change (Z.of_nat 1) with 1%Z in OL. unfold out_env, ld_env in OL.
  let b := eval vm_compute in ld_outer in change ld_outer with b in OL.
  assert (ED : load_delimited num conv convs d cm text =
               match load_rows num conv convs d cm 1 (lines text) with
               | ROk rows => ROk (pack num (length convs) (transpose (length convs) rows))
               | RaiseAt r e => RaiseAt r e | RaiseNoRow e => RaiseNoRow e end)
    by (destruct d; [reflexivity|reflexivity|discriminate]).
  rewrite ED. clear ED.
  pose proof (load_rows_lengths num conv convs d cm (lines text) 1) as HL.
  destruct (load_rows num conv convs d cm 1 (lines text)) as [rows|r e|e].
  - destruct OL as (a & b & c & e1 & e2 & e3 & e4 & OL). specialize (HL rows eq_refl).
    step ltac:(rewrite sig_open; cbn; rewrite OL; cbn).
    rewrite add_rows_transpose by exact HL.
    pose proof (transpose_length (length convs) rows HL) as HT.
    pose proof (deep_refs 5 (transpose (length convs) rows) []) as DR. cbn [app length] in DR. rewrite HT in DR.
    pose proof (deep_refs 6 (transpose (length convs) rows) []) as DR6. cbn [app length] in DR6. rewrite HT in DR6.
    destruct (Nat.eqb (length convs) 1) eqn:E1.
    + apply Nat.eqb_eq in E1. unfold pack. rewrite E1 in *. change (Nat.eqb 1 1) with true. cbv iota.
      destruct (transpose 1 rows) as [|col [|? ?]]; try discriminate.
      change (seq 0 1) with [0] in *.
      step ltac:(change (Z.of_nat 1) with 1%Z; change (Z.eqb 1 1) with true; cbn; change (norm_idx 0 1) with (Some 0%nat); cbv iota; change (nth_error [PRef num 0] 0) with (Some (PRef num 0)); cbn).
      cbn [s_heap s_warn]. unfold deep_fuel.
      assert (Ex : deep num 8 [map (emb_value num) col] (PRef num 0) = Some (emb_col num col))
        by (cbn [map omap option_map] in DR6 |- *; destruct (deep num 8 [map (emb_value num) col] (PRef num 0)); cbn in DR6; congruence).
      rewrite Ex. reflexivity.
    + step ltac:(change 1%Z with (Z.of_nat 1); rewrite zeqb_nat, E1; cbn).
      cbn [s_heap s_warn]. unfold deep_fuel. rewrite deep_tup_eq, DR. unfold pack. rewrite E1. reflexivity.
  - step ltac:(rewrite sig_open; cbn; rewrite OL; cbn). reflexivity.
  - step ltac:(rewrite sig_open; cbn; rewrite OL; cbn). reflexivity.
Qed.
End Tie.
Check load_delimited_tie.
Print Assumptions load_delimited_tie.
