(* _bipartite_match, steps 1 and 4 of the tie: the start of a phase (preds / unmatched / pred = dict([...]) / the del loop =
   Matching.init_pred, using valid g m so that del never raises; layer = list(pred)), the dead `unlayered` loops, the augmentation
   loop `for v in unmatched: recurse(v)`, and the `while True` phase loop = Matching.phases, by induction on the loop fuel. *)
From Coq Require Import String.
From Coq Require Import List Bool Arith ZArith Lia.
From ME Require Import Model.Prelude Model.Dict Model.Matching Model.HeapPy Gen.MatchGen Model.HeapPyMatch Proofs.HeapPyLemmas
  Proofs.HKRecurse Proofs.HKLayering Proofs.HKCorrect Proofs.HKTotal Proofs.HKPredsBound Proofs.MatchTieHK Proofs.HKTieRec Proofs.HKTieLayer.
Import ListNotations.
Local Open Scope nat_scope.
Local Arguments hget : simpl never.
Local Arguments hset : simpl never.
Local Arguments for_loop : simpl never.
Local Arguments while_loop : simpl never.
Local Arguments comp_loop : simpl never.
Local Arguments Z.of_nat : simpl never.
Local Arguments Z.to_nat : simpl never.
Local Arguments Z.leb : simpl never.
Local Arguments as_key : simpl never.
Local Arguments dget : simpl never.
Local Arguments dset : simpl never.
Local Arguments dmem : simpl never.
Local Arguments ddel : simpl never.
Local Arguments map_vals : simpl never.
Local Arguments run : simpl never.

Definition del_for : stmt := nth 3 phase_body SPass.
Definition comp_body : exp :=
  match nth 2 phase_body SPass with SAssign _ (EPrim _ [EComp b _ _] _) => b | _ => ENone end.
Definition unlay_if : stmt := nth 6 phase_body SPass.
Definition unlay_for : stmt := match unlay_if with SIf _ [_; s; _] _ => s | _ => SPass end.
Definition unlay_inner : stmt := match unlay_for with SFor _ _ [s] => s | _ => SPass end.
Definition aug_for : stmt := nth 8 phase_body SPass.

(* ---- generic facts *)
Lemma omap_as_pair a ks : omap as_pair (map (fun k => VTup [VNat k; VRef a]) ks) = Some (map (fun k => (k, VRef a)) ks).
Proof. induction ks as [|k t IH]; [reflexivity|]. cbn [map omap]. rewrite IH. unfold as_pair. rewrite as_key_nat. reflexivity. Qed.
Lemma fold_dset_nodup {V} (ps : list (nat * V)) : forall acc, NoDup (keys acc ++ keys ps) ->
  fold_left (fun d p => dset d (fst p) (snd p)) ps acc = acc ++ ps.
Proof. induction ps as [|[k v] t IH]; intros acc ND; cbn [fold_left fst snd]; [now rewrite app_nil_r|].
  assert (Hn : dget acc k = None).
  { destruct (dget acc k) eqn:E; [|reflexivity]. exfalso. assert (In k (keys acc)) by (apply dget_keys; congruence).
    cbn [keys map fst] in ND. apply NoDup_remove_2 in ND. apply ND. apply in_app_iff. now left. }
  rewrite (dset_new acc k v Hn). rewrite IH; [now rewrite <- app_assoc|].
  unfold keys in *. rewrite map_app. cbn [map fst] in *. rewrite <- app_assoc. exact ND. Qed.
Lemma elems_pred aU (pred : dict pu) : map (fun kv : nat * val => VNat (fst kv)) (map_vals (pu_val aU) pred) = nats_val (keys pred).
Proof. unfold map_vals, nats_val, keys. rewrite !map_map. reflexivity. Qed.
Lemma dmem_ddel_other {V} (d : dict V) k k' : k' <> k -> dmem (ddel d k) k' = dmem d k'.
Proof. intros H. unfold dmem. now rewrite dget_ddel_other. Qed.
Lemma run_block_app f l1 l2 h en :
  run_block f (l1 ++ l2) h en = match run_block f l1 h en with SNorm h' en' => run_block f l2 h' en' | o => o end.
Proof. revert h en. induction l1 as [|s t IH]; intros h en; [reflexivity|]. cbn [app run_block]. destruct (f s h en); auto. Qed.

(* ---- model-side fuel facts *)
Lemma layering_mono g m : forall f preds pred layer unm r, layering f g m preds pred layer unm = Some r ->
  forall f2, f <= f2 -> layering f2 g m preds pred layer unm = Some r.
Proof. induction f as [|f IH]; intros preds pred layer unm r H f2 Hf; [discriminate|]. destruct f2 as [|f2]; [lia|].
  cbn [layering] in *. destruct layer as [|u l]; [exact H|]. destruct unm as [|x xs]; [|exact H].
  destruct (fold_left (absorb m) _ _) as [[[p1 q1] l1] u1]. apply IH with (f2 := f2) in H; [exact H|lia]. Qed.
Lemma phases_mono g : forall f m r, phases f g m = Some r -> forall f2, f <= f2 -> phases f2 g m = Some r.
Proof. induction f as [|f IH]; intros m r H f2 Hf; [discriminate|]. destruct f2 as [|f2]; [lia|].
  cbn [phases] in *. destruct (layering _ g m _ _ _ _) as [[[preds pred] unm]|]; [|discriminate].
  destruct unm as [|v0 unm]; [exact H|].
  destruct (fold_left (fun st v => fst (recurse (S (length preds)) v st)) (v0 :: unm) (preds, pred, m)) as [[p1 q1] m']. apply IH with (f2 := f2) in H; [exact H|lia]. Qed.
Lemma phases_S f g m : phases (S f) g m =
  match layering (S (length g)) g m [] (init_pred g m) (keys (init_pred g m)) [] with
  | None => None
  | Some (preds, pred, unm) =>
      match unm with
      | [] => Some m
      | _ => let '(_, _, m') := fold_left (fun st v => fst (recurse (S (length preds)) v st)) unm (preds, pred, m) in phases f g m'
      end
  end.
Proof. reflexivity. Qed.
Lemma fold_recurse_irrel F F' unm : F <= F' -> forall st, length (st_preds st) < F ->
  fold_left (fun st v => fst (recurse F v st)) unm st = fold_left (fun st v => fst (recurse F' v st)) unm st.
Proof. intros HF. induction unm as [|v t IH]; intros st Hl; [reflexivity|]. cbn [fold_left].
  rewrite (recurse_fuel_irrel F F' v st Hl HF). apply IH. pose proof (recurse_len F' v st). lia. Qed.

Section Phase.
Variable ext : string -> heap -> list val -> out (heap * val).
Variable n : nat.
Variables (g : graph) (aM : nat).
Hypothesis HNDg : NoDup (keys g).
Notation clos := (rec_clos ext n).
Definition genv vu vv vP vU vD vL vN vX vR : env := benv (graph_val g) aM vu vv vP vU vD vL vN vX vR.

Lemma comp_ok vu vv vP aU vD vL vN vX vR all : forall ks h,
  comp_loop (fun h el => eval ext clos h (mkEnv (("u"%string, el) :: e_loc (genv vu vv vP (VRef aU) vD vL vN vX vR)) None) comp_body)
            None all (nats_val ks) h = OK (h, map (fun k => VTup [VNat k; VRef aU]) ks).
Proof. induction ks as [|k t IH]; intros h; [reflexivity|]. cbn [nats_val map]. unfold comp_loop; fold comp_loop. cbn [unchanged].
  unfold genv, benv, bm_env. ev. unfold genv, benv, bm_env, nats_val in IH. cbn [app combine e_loc] in IH. rewrite IH. reflexivity. Qed.

Lemma del_ok (mfull : matching) aD aU vu vP vU vL vN vX vR : aM <> aD ->
  forall sm h p vv, hget h aM = Some (mobj mfull) -> hget h aD = Some (pred_obj aU p) ->
  (forall e, In e sm -> dget mfull (fst e) = Some (snd e)) -> NoDup (map snd sm) -> (forall e, In e sm -> dmem p (snd e) = true) ->
  exists h' vv', for_loop (loop_step ext clos n del_for) (Some aM) (nats_val (keys mfull)) (nats_val (keys sm)) h
                   (genv vu vv vP vU (VRef aD) vL vN vX vR) = SNorm h' (genv vu vv' vP vU (VRef aD) vL vN vX vR) /\
    hget h' aD = Some (pred_obj aU (fold_left (fun p e => ddel p (snd e)) sm p)) /\ length h' = length h /\
    (forall x, x <> aD -> hget h' x = hget h x).
Proof.
  intros Hne. induction sm as [|[v u] t IH]; intros h p vv HM HD Hin ND Hp.
  - exists h, vv. unfold for_loop. cbn [keys nats_val map unchanged]. rewrite HM. cbn [obj_elems mobj]. rewrite elems_mobj, list_veqb_nats.
    cbn. auto.
  - pose proof (hget_lt _ _ _ HM) as LM. pose proof (hget_lt _ _ _ HD) as LD.
    pose proof (Hin (v, u) (or_introl eq_refl)) as Ev. cbn [fst snd] in Ev.
    pose proof (Hp (v, u) (or_introl eq_refl)) as Eu. cbn [fst snd] in Eu.
    cbn [keys nats_val map fold_left fst snd]. unfold for_loop; fold for_loop. cbn [unchanged]. rewrite HM. cbn [obj_elems mobj].
    rewrite elems_mobj, list_veqb_nats. unfold genv, benv, bm_env. unfold mobj, pred_obj in *. step. rewrite ddel_map_vals.
    inversion ND as [|? ? Hnu ND']; subst.
    match goal with |- context [for_loop _ (Some aM) _ _ ?hh _] =>
      destruct (IH hh (ddel p u) (VNat v) ltac:(hsimp; exact HM) ltac:(hsimp; reflexivity) (fun e He => Hin e (or_intror He)) ND')
        as (h' & vv' & S & K1 & K2 & K3) end.
    { intros [v' u'] He. cbn [snd]. rewrite dmem_ddel_other; [apply (Hp (v', u')); now right|].
      intros ->. apply Hnu. change u with (snd (v', u)). now apply in_map. }
    exists h', vv'. split; [exact S|]. split; [exact K1|]. split; [rewrite K2; hlen; reflexivity|].
    intros x Hx. rewrite K3 by exact Hx. hsimp. reflexivity.
Qed.

Lemma unlay_inner_ok aP aX (pr : dict nat) u vU vD vL vN vR all : aX <> aP ->
  forall vs h d vv, hget h aX = Some (ODict d) -> hget h aP = Some (refs_obj pr) ->
  exists h' d' vv', for_loop (loop_step ext clos n unlay_inner) None all (nats_val vs) h (genv (VNat u) vv (VRef aP) vU vD vL vN (VRef aX) vR)
      = SNorm h' (genv (VNat u) vv' (VRef aP) vU vD vL vN (VRef aX) vR) /\
    hget h' aX = Some (ODict d') /\ length h' = length h /\ (forall x, x <> aX -> hget h' x = hget h x).
Proof.
  intros Hne. induction vs as [|v t IH]; intros h d vv HX HP.
  - exists h, d, vv. unfold for_loop. cbn. auto.
  - pose proof (hget_lt _ _ _ HX) as LX. cbn [nats_val map]. unfold for_loop; fold for_loop. cbn [unchanged].
    unfold genv, benv, bm_env, refs_obj in *. step. destruct (dmem pr v); step.
    + destruct (IH h d (VNat v) HX HP) as (h' & d' & vv' & S & K). exists h', d', vv'. split; [exact S|exact K].
    + match goal with |- context [for_loop _ None all _ ?hh _] =>
        destruct (IH hh _ (VNat v) ltac:(hsimp; reflexivity) ltac:(hsimp; exact HP)) as (h' & d' & vv' & S & K1 & K2 & K3) end.
      exists h', d', vv'. split; [exact S|]. split; [exact K1|]. split; [rewrite K2; hlen; reflexivity|].
      intros x Hx. rewrite K3 by exact Hx. hsimp. reflexivity.
Qed.

Lemma unlay_outer_ok aP aX (pr : dict nat) vU vD vL vN vR all : aX <> aP ->
  forall rest h d vu vv, (forall e, In e rest -> dget g (fst e) = Some (snd e)) ->
  hget h aX = Some (ODict d) -> hget h aP = Some (refs_obj pr) ->
  exists h' d' vu' vv', for_loop (loop_step ext clos n unlay_for) None all (nats_val (keys rest)) h (genv vu vv (VRef aP) vU vD vL vN (VRef aX) vR)
      = SNorm h' (genv vu' vv' (VRef aP) vU vD vL vN (VRef aX) vR) /\
    hget h' aX = Some (ODict d') /\ length h' = length h /\ (forall x, x <> aX -> hget h' x = hget h x).
Proof.
  intros Hne. induction rest as [|[u vs] t IH]; intros h d vu vv Hin HX HP.
  - exists h, d, vu, vv. unfold for_loop. cbn. auto.
  - pose proof (Hin (u, vs) (or_introl eq_refl)) as Hu. cbn [fst snd] in Hu.
    cbn [keys nats_val map fst]. unfold for_loop; fold for_loop. cbn [unchanged]. unfold genv, benv, bm_env, graph_val.
    step. rewrite dget_graph_val, Hu. step.
    match goal with |- context [for_loop ?f None ?al ?els ?hh ?en] =>
      destruct (unlay_inner_ok aP aX pr u vU vD vL vN vR al Hne vs h d vv HX HP) as (h1 & d1 & vv1 & S1 & X1 & L1 & F1);
      assert (E : for_loop f None al els hh en = SNorm h1 (genv (VNat u) vv1 (VRef aP) vU vD vL vN (VRef aX) vR)) by exact S1;
      rewrite E; clear E S1 end.
    destruct (IH h1 d1 (VNat u) vv1 (fun e He => Hin e (or_intror He)) X1 ltac:(rewrite F1 by auto; exact HP))
      as (h' & d' & vu' & vv' & S2 & X2 & L2 & F2).
    exists h', d', vu', vv'. split; [exact S2|]. split; [exact X2|]. split; [congruence|]. intros x Hx. rewrite F2, F1; auto.
Qed.

Lemma aug_ok aP aU aD vL vN vX Ufull : aM < aP /\ aP < aU /\ aU < aD ->
  forall us vu vv h st, RS aM aP aU aD h st -> hget h aU = Some (OList (nats_val Ufull)) ->
  let res := for_loop (loop_step ext clos n aug_for) (Some aU) (nats_val Ufull) (nats_val us) h
               (genv vu vv (VRef aP) (VRef aU) (VRef aD) vL vN vX (VClos rec_name)) in
  (res = SFuel /\ n <= length (st_preds st)) \/
  exists h' st' vv', res = SNorm h' (genv vu vv' (VRef aP) (VRef aU) (VRef aD) vL vN vX (VClos rec_name)) /\
    (forall f', n <= f' -> fold_left (fun st v => fst (recurse f' v st)) us st = st') /\
    RS aM aP aU aD h' st' /\ frame_ok aM aP aD h h'.
Proof.
  intros Hord. induction us as [|x t IH]; intros vu vv h st HS HU; cbv zeta.
  - right. exists h, st, vv. unfold for_loop. cbn [nats_val map unchanged]. rewrite HU. cbn [obj_elems]. rewrite list_veqb_nats.
    split; [reflexivity|]. split; [reflexivity|]. split; [exact HS|apply frame_ok_refl].
  - cbn [nats_val map]. unfold for_loop; fold for_loop. cbn [unchanged]. rewrite HU. cbn [obj_elems]. rewrite list_veqb_nats.
    unfold genv, benv, bm_env. step.
    match goal with |- context [rec_clos ext n rec_name h ?o [VNat x]] =>
      change (rec_clos ext n rec_name h o [VNat x]) with (rec_run ext (graph_val g) vu (VNat x) vL vN vX aM aP aU aD n h x) end.
    destruct (recurse_tie ext (graph_val g) vu (VNat x) vL vN vX aM aP aU aD Hord n x st h HS) as [[EF EB] | (h1 & st1 & b & E1 & M1 & RS1 & F1)].
    + rewrite EF. left. split; [reflexivity|exact EB].
    + rewrite E1. step.
      assert (HU1 : hget h1 aU = Some (OList (nats_val Ufull))) by (destruct F1 as [_ F1]; rewrite F1 by lia; exact HU).
      destruct (IH vu (VNat x) h1 st1 RS1 HU1) as [[EF2 EB2] | (h' & st' & vv' & S2 & M2 & RS2 & F2)].
      * left. split; [exact EF2|]. pose proof (recurse_len n x st) as RL. rewrite (M1 n (le_n _)) in RL. cbn [fst] in RL. lia.
      * right. exists h', st', vv'. split; [exact S2|]. split; [|split; [exact RS2|eapply frame_ok_trans; eauto]].
        intros f' Hf. cbn [fold_left]. rewrite (M1 f' Hf). cbn [fst]. apply M2. exact Hf.
Qed.

Lemma elems_graph : map (fun kv : nat * val => VNat (fst kv)) (map (fun e : nat * list nat => (fst e, VTup (nats_val (snd e)))) g) = nats_val (keys g).
Proof. unfold nats_val, keys. rewrite !map_map. reflexivity. Qed.
Lemma freemap_obj a : map (fun k => (k, VRef a)) (keys g) = map_vals (pu_val a) (map (fun e : nat * list nat => (fst e, Free)) g).
Proof. unfold map_vals, keys. rewrite !map_map. reflexivity. Qed.
Lemma valid_mg m : valid g m -> forall v u, dget m v = Some u -> dmem g u = true.
Proof. intros (_ & _ & He) v u H. apply He in H. unfold edge, nbrs in H. unfold dmem. destruct (dget g u); [reflexivity|destruct H]. Qed.
Definition ph_run (k : nat) (h : heap) (en : env) : sres :=
  while_loop k (eval_truth ext clos (EBool true)) (run_block (exec ext clos n) phase_body) h en.

Lemma phases_tie : forall k h m vu vv vP vU vD vL vN vX vR, hget h aM = Some (mobj m) -> valid g m ->
  (ph_run k h (genv vu vv vP vU vD vL vN vX vR) = SFuel /\ (phases k g m = None \/ n <= length g \/ n <= esize g)) \/
  exists h' m', ph_run k h (genv vu vv vP vU vD vL vN vX vR) = SRet h' (VRef aM) /\
    (forall f', k <= f' -> phases f' g m = Some m') /\ hget h' aM = Some (mobj m') /\ length h <= length h' /\
    (forall x, x < aM -> hget h' x = hget h x).
Proof.
  induction k as [|k IH]; intros h m vu vv vP vU vD vL vN vX vR HM Hv; [left; split; [reflexivity|left; reflexivity]|].
  pose proof (hget_lt _ _ _ HM) as LM. pose proof (valid_mg m Hv) as Hmg.
  unfold ph_run, while_loop; fold while_loop. unfold genv, benv, bm_env. step. rewrite elems_graph. hlen.
  set (aP := length h). set (aU := S aP). set (aD := S (S aU)).
  match goal with |- context [comp_loop ?f None ?al ?els ?hh] =>
    assert (E : comp_loop f None al els hh = OK (hh, map (fun k => VTup [VNat k; VRef aU]) (keys g)))
      by exact (comp_ok vu vv (VRef aP) aU vD vL vN vX vR al (keys g) hh);
    rewrite E; clear E end.
  step. hlen. rewrite omap_as_pair. step. hlen. rewrite fold_dset_nodup by (cbn [keys map app]; unfold keys; rewrite map_map; cbn [fst]; rewrite map_id; exact HNDg).
  cbn [app]. rewrite freemap_obj. fold aP. fold aU. fold aD. rewrite ?elems_mobj.
  assert (EP : aP = length h) by reflexivity. assert (EU : aU = S aP) by reflexivity. assert (ED : aD = S (S aU)) by reflexivity.
  clearbody aP aU aD.
  destruct Hv as (Hk & Hi & He). pose proof (conj Hk (conj Hi He) : valid g m) as Hv.
  set (p0 := map (fun e : nat * list nat => (fst e, Free)) g).
  assert (Hp0 : forall u, dmem p0 u = dmem g u).
  { intros u. unfold dmem at 1, p0. rewrite dget_freemap. destruct (dmem g u); reflexivity. }
  match goal with |- context [for_loop ?f (Some aM) ?al ?els ?hh ?en] =>
    destruct (del_ok m aD aU vu (VRef aP) (VRef aU) vL vN vX vR ltac:(lia) m hh p0 vv
                ltac:(hsimp; exact HM) ltac:(hsimp; reflexivity)
                (fun e He' => In_dget m (fst e) (snd e) Hk ltac:(destruct e; exact He'))
                ltac:(destruct (valid_list g m Hv) as (_ & X & _); exact X)
                ltac:(intros [v' u'] He'; cbn [snd]; rewrite Hp0; apply (Hmg v' u'); apply In_dget; [exact Hk|exact He']))
      as (h1 & vv1 & S1 & D1 & L1 & F1);
    assert (E : for_loop f (Some aM) al els hh en = SNorm h1 (genv vu vv1 (VRef aP) (VRef aU) (VRef aD) vL vN vX vR)) by exact S1;
    rewrite E; clear E S1; set (h0 := hh) in * end.
  change (fold_left (fun p e => ddel p (snd e)) m p0) with (init_pred g m) in D1.
  assert (L0 : length h0 = S (S (S (S (length h))))) by (unfold h0; hlen; reflexivity).
  assert (LD1 : aD < length h1) by (eapply hget_lt; eauto).
  unfold genv, benv, bm_env. step. unfold pred_obj. cbn [obj_elems]. rewrite elems_pred.
  set (aL := length h1). set (h2 := h1 ++ [OList (nats_val (keys (init_pred g m)))]).
  assert (EL : aL = length h1) by reflexivity. clearbody aL.
  assert (Hord : aM < aP /\ aP < aU /\ aU < aD) by lia.
  assert (H2old : forall x, x < length h -> hget h2 x = hget h x).
  { intros x Hx. unfold h2. hsimp. rewrite F1 by lia. unfold h0. hsimp. reflexivity. }
  assert (HS2 : LS aM aP aU aD m h2 aL ([], init_pred g m, keys (init_pred g m), [])).
  { split; [rewrite H2old by lia; exact HM|]. split; [lia|]. exists []. unfold AInv.
    split; [unfold h2; hsimp; rewrite F1 by lia; unfold h0; hsimp; reflexivity|]. split; [constructor|]. split; [constructor|].
    split; [unfold h2; hsimp; exact D1|]. split; [unfold h2; hsimp; reflexivity|].
    unfold h2. hsimp. rewrite F1 by lia. unfold h0. hsimp. reflexivity. }
  assert (Hlg : forall u, In u (keys (init_pred g m)) -> dmem g u = true).
  { intros u Hu. apply dget_keys in Hu. rewrite init_pred_spec in Hu. destruct (existsb _ m); [congruence|].
    destruct (dmem g u); [reflexivity|congruence]. }
  match goal with |- context [while_loop n ?c ?b h2 ?en] => set (W := while_loop n c b h2 en) end.
  pose proof (lay_tie ext clos n g aM aP aU aD vX vR Hord m Hmg n h2 aL vu vv1 vN _ _ _ _ HS2 Hlg) as T.
  change (lay_run ext clos n n h2 (lenv g aM aP aU aD vX vR vu vv1 aL vN)) with W in T. clearbody W.
  destruct T as [[-> EN] | (h3 & aL3 & vu3 & vv3 & vN3 & preds3 & pred3 & layer3 & unm3 & -> & ML & LS3 & LL3 & FL3)].
  { left. split; [reflexivity|]. right; left. destruct (le_lt_dec n (length g)) as [Hle|Hlt]; [exact Hle|]. exfalso.
    destruct (layering_total g m Hv) as (p9 & q9 & u9 & El9 & _).
    rewrite (layering_mono g m _ _ _ _ _ _ El9 n ltac:(lia)) in EN. discriminate. }
  destruct LS3 as (HM3 & HDL3 & pr3 & HP3 & HR3 & HF3 & HD3 & HLy3 & HU3).
  pose proof (hget_lt _ _ _ HM3) as LM3. pose proof (hget_lt _ _ _ HP3) as LP3. pose proof (hget_lt _ _ _ HD3) as LD3. pose proof (hget_lt _ _ _ HU3) as LU3.
  (* the model's layering result *)
  destruct (layering_total g m Hv) as (preds0 & pred0 & unm0 & El0 & _).
  assert (Eres : (preds0, pred0, unm0) = (preds3, pred3, unm3)).
  { pose proof (ML (Nat.max n (S (length g))) (Nat.le_max_l _ _)) as A.
    pose proof (layering_mono g m _ _ _ _ _ _ El0 (Nat.max n (S (length g))) (Nat.le_max_r _ _)) as B. congruence. }
  injection Eres as -> -> ->.
  unfold lenv, benv, bm_env. step. destruct unm3 as [|x0 xs]; cbn [nats_val map obj_truth]; step.
  - rewrite elems_graph.
    match goal with |- context [for_loop ?f None ?al ?els ?hh ?en] =>
      destruct (unlay_outer_ok aP (length h3) pr3 (VRef aU) (VRef aD) (VRef aL3) vN3 vR al ltac:(lia) g hh [] vu3 vv3
                  (fun e He' => In_dget g (fst e) (snd e) HNDg ltac:(destruct e; exact He'))
                  ltac:(hsimp; reflexivity) ltac:(hsimp; exact HP3)) as (h5 & d5 & vu5 & vv5 & S5 & X5 & L5 & F5);
      assert (E : for_loop f None al els hh en = SNorm h5 (genv vu5 vv5 (VRef aP) (VRef aU) (VRef aD) (VRef aL3) vN3 (VRef (length h3)) vR)) by exact S5;
      rewrite E; clear E S5 end.
    unfold genv, benv, bm_env. step. right. exists h5, m. split; [reflexivity|].
    assert (L2 : length h2 = S (length h1)) by (unfold h2; hlen; reflexivity).
    split; [|split; [|split]].
    + intros [|f'] Hf; [lia|]. cbn [phases]. rewrite El0. reflexivity.
    + rewrite F5 by lia. hsimp. exact HM3.
    + rewrite L5. hlen. lia.
    + intros x Hx. rewrite F5 by lia. hsimp. rewrite FL3 by lia. apply H2old. lia.
  - assert (RS3 : RS aM aP aU aD h3 (preds3, pred3, m)).
    { split; [exact HM3|]. split; [exact HD3|]. exists pr3. split; [exact HP3|]. split; [exact HR3|].
      eapply Forall_impl; [|exact HF3]. cbn. intros r [A _]. exact A. }
    match goal with |- context [for_loop ?f (Some aU) ?al ?els h3 ?en] => set (FL := for_loop f (Some aU) al els h3 en) end.
    pose proof (aug_ok aP aU aD (VRef aL3) vN3 vX (x0 :: xs) Hord (x0 :: xs) vu3 vv3 h3 _ RS3 HU3) as T. cbv zeta in T.
    change (for_loop _ _ _ _ _ _) with FL in T. clearbody FL.
    destruct T as [[-> EB] | (h4 & [[p4 q4] m4] & vv4 & -> & M4 & RS4 & [L4 F4])].
    { left. split; [reflexivity|]. right; right. pose proof (layering_preds_bound g m _ _ _ _ _ _ El0). unfold st_preds in EB. cbn [fst] in EB. lia. }
    (* the model's augmentation *)
    set (F := S (length preds3)).
    assert (EF : fold_left (fun st v => fst (recurse F v st)) (x0 :: xs) (preds3, pred3, m) = (p4, q4, m4)).
    { rewrite (fold_recurse_irrel F (Nat.max n F) (x0 :: xs) (Nat.le_max_r _ _)) by (unfold st_preds, F; cbn; lia).
      apply M4. apply Nat.le_max_l. }
    pose proof (phases_progress g m preds3 pred3 x0 xs Hv El0) as PP. cbv zeta in PP. fold F in PP. rewrite EF in PP.
    unfold st_m in PP. cbn [snd] in PP. destruct PP as (Hv4 & _).
    destruct RS4 as (HM4 & _).
    unfold genv, benv, bm_env. 
    match goal with |- context [while_loop k ?c ?b h4 ?en] => set (W := while_loop k c b h4 en) end.
    pose proof (IH h4 m4 vu3 vv4 (VRef aP) (VRef aU) (VRef aD) (VRef aL3) vN3 vX (VClos rec_name) HM4 Hv4) as T.
    change (ph_run k h4 _) with W in T. clearbody W.
    assert (L2 : length h2 = S (length h1)) by (unfold h2; hlen; reflexivity).
    destruct T as [[-> EB] | (h' & m' & -> & MP & HM' & LL' & FF')].
    { left. split; [reflexivity|]. destruct EB as [EB|EB]; [left; change (phases (S k) g m = None)|right; exact EB]. rewrite phases_S, El0. fold F. rewrite EF. exact EB. }
    right. exists h', m'. split; [reflexivity|]. split; [|split; [exact HM'|split]].
    + intros [|f'] Hf; [lia|]. cbn [phases]. rewrite El0. fold F. rewrite EF. apply MP. lia.
    + lia.
    + intros x Hx. rewrite FF' by exact Hx. rewrite F4 by lia. rewrite FL3 by lia. apply H2old. lia.
Qed.
End Phase.
