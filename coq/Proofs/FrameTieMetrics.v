(* The part of multipitch.metrics before the final assembly (validate, the resample decision with np.allclose, the
   resampling, the MIDI / chroma conversions, the counts and the two filter_kwargs calls of compute_num_true_positives),
   tied to Model/Multipitch.v by TRANSLATION (see FrameTie.v). The generated program ends with a synthetic
   `return (n_ref, n_est, true_positives, true_positives_chroma)`: the variables the rest of the body reads, which are
   the parameters of Gen/WrapFuncs.gen_mp_metrics_assembly (Proofs/WrapFuncsTie.mp_metrics_assembly_tie).
     metrics_prefix_tie   for kwargs = {} (window = 0.5) and kwargs = {'window': w}: the program returns the count vectors of
                          Multipitch.metrics_trace (or raises what it raises), with hz2midi f = 69 + 12 * flog2 (f / 440)
   The callees are the model's functions (mp_ext), each of which is tied to its own translated body in FrameTie.v; the
   side conditions of those ties (non-decreasing est_time, no zero frequency) are derived here from validate. *)
From Coq Require Import String.
From Coq Require Import List Bool Arith ZArith QArith Qabs Qminmax Qround Lia Lqa.
From ME Require Import Model.Prelude Model.Events Model.FrameExp Gen.FrameGen Proofs.FrameTie.
From ME Require Model.Multipitch.
Import ListNotations.
Open Scope Q_scope.
Lemma existsb_false_forall {A} (p : A -> bool) l : existsb p l = false <-> forall x, In x l -> p x = false.
Proof.
  induction l as [|a t IH]; cbn [existsb]; [split; [intros _ x []|reflexivity]|].
  rewrite orb_false_iff, IH. split.
  - intros [Ha Ht] x [<-|Hx]; auto.
  - intros H. split; [apply H; left; reflexivity|intros x Hx; apply H; right; exact Hx].
Qed.
Lemma validate_freqs_nz f : Multipitch.validate_frequencies f Multipitch.MAX_FREQ Multipitch.MIN_FREQ = Ok tt ->
  existsb (fun x => qeqb x 0) f = false.
Proof.
  unfold Multipitch.validate_frequencies. destruct (existsb _ f); [discriminate|].
  destruct (existsb (fun x => qltb (Qabs x) Multipitch.MIN_FREQ) f) eqn:E; [discriminate|]. intros _.
  rewrite existsb_false_forall in E |- *. intros x Hx. specialize (E x Hx).
  unfold qeqb. destruct (Qeq_bool x 0) eqn:E0; [|reflexivity]. apply Qeq_bool_iff in E0.
  unfold qltb in E. apply negb_false_iff in E. apply Qle_bool_iff in E. rewrite E0 in E. unfold Multipitch.MIN_FREQ in E.
  exfalso. change (Qabs 0) with 0 in E. lra.
Qed.
Lemma validate_all_nz fs : Multipitch.validate_all_freqs fs = Ok tt -> any_zero fs = false.
Proof.
  induction fs as [|f t IH]; [reflexivity|]. cbn [Multipitch.validate_all_freqs any_zero existsb].
  destruct (Multipitch.validate_frequencies f _ _) as [[]|] eqn:E; [|discriminate]. cbn [bind]. intros H.
  rewrite (validate_freqs_nz _ E). apply IH. exact H.
Qed.
Lemma validate_ok rt rf et ef : Multipitch.validate rt rf et ef = Ok tt ->
  Multipitch.nondecreasing et = true /\ any_zero rf = false /\ any_zero ef = false.
Proof.
  unfold Multipitch.validate, Multipitch.validate_events.
  destruct (existsb _ rt); [discriminate|]. destruct (negb (Multipitch.nondecreasing rt)); [discriminate|]. cbn [bind].
  destruct (existsb _ et); [discriminate|]. destruct (Multipitch.nondecreasing et); [|discriminate]. cbn [bind negb].
  destruct (negb _); [discriminate|]. destruct (negb _); [discriminate|].
  destruct (Multipitch.validate_all_freqs rf) as [[]|] eqn:E1; [|discriminate]. cbn [bind]. intros E2.
  split; [reflexivity|]. split; apply validate_all_nz; assumption.
Qed.
Lemma any_zero_nth fs k : any_zero fs = false -> existsb (fun f => qeqb f 0) (nth k (fs ++ [[]]) []) = false.
Proof.
  revert k. induction fs as [|a t IH]; intros k H.
  - destruct k as [|[|k]]; reflexivity.
  - cbn [any_zero existsb] in H. apply orb_false_iff in H. destruct H as [Ha Ht]. destruct k as [|k]; [exact Ha|].
    cbn [app nth]. apply IH. exact Ht.
Qed.
Lemma resample_nz t fs tg r : any_zero fs = false -> Multipitch.resample_multipitch t fs tg = Ok r -> any_zero r = false.
Proof.
  intros Hz. unfold Multipitch.resample_multipitch. destruct tg as [|g0 gs]; [intros H; inversion H; reflexivity|].
  generalize (g0 :: gs). intros G.
  destruct t as [|t0 ts].
  - intros H. injection H as <-. unfold any_zero. apply existsb_false_forall. intros x Hx. apply in_map_iff in Hx. destruct Hx as [y [<- _]]. reflexivity.
  - destruct (negb _); [discriminate|]. intros H. injection H as <-. unfold any_zero. apply existsb_false_forall. intros x Hx.
    apply in_map_iff in Hx. destruct Hx as [y [<- _]]. apply any_zero_nth. exact Hz.
Qed.

Lemma frames_of_v' fs : frames_of (VList (map VArrQ fs)) = Some fs.
Proof. exact (frames_of_v fs). Qed.
Lemma mframes_of_v' fs : mframes_of (VList (map VArrM fs)) = Some fs.
Proof. exact (mframes_of_v fs). Qed.
Section M.
Variable flog2 : Q -> Q.
Local Arguments for_loop : simpl never.
Local Arguments for_step : simpl never.
Local Arguments run_block : simpl never.
Local Arguments frame_sigs : simpl never.

Definition prefix_result (h : Q -> Q) (w : Q) rt rf et ef : out fv :=
  match Multipitch.metrics_trace h w rt rf et ef with
  | Ok t => OK (VTup [counts_val (Multipitch.compute_num_freqs (Multipitch.frequencies_to_midi h rf));
                      counts_val (Multipitch.compute_num_freqs (Multipitch.frequencies_to_midi h (Multipitch.est_used t)));
                      VArrQ (cnt (Multipitch.tp_raw t)); VArrQ (cnt (Multipitch.tp_chroma t))])
  | Raise e => EXN e
  end.
Definition prefix_spec (h : Q -> Q) (w : Q) rt rf et ef : out fv :=
  match Multipitch.validate rt rf et ef with Raise e => EXN e | Ok _ =>
  match (if Multipitch.resample_needed et rt then Multipitch.resample_multipitch et ef rt else Ok ef) with Raise e => EXN e | Ok ef' =>
  match Multipitch.compute_num_true_positives w false (Multipitch.frequencies_to_midi h rf) (Multipitch.frequencies_to_midi h ef')
  with Raise e => EXN e | Ok tp =>
  match Multipitch.compute_num_true_positives w true (Multipitch.midi_to_chroma (Multipitch.frequencies_to_midi h rf))
          (Multipitch.midi_to_chroma (Multipitch.frequencies_to_midi h ef'))
  with Raise e => EXN e | Ok tpc =>
    OK (VTup [counts_val (Multipitch.compute_num_freqs (Multipitch.frequencies_to_midi h rf));
              counts_val (Multipitch.compute_num_freqs (Multipitch.frequencies_to_midi h ef'));
              VArrQ (cnt tp); VArrQ (cnt tpc)])
  end end end end.
Lemma prefix_result_spec h w rt rf et ef : prefix_result h w rt rf et ef = prefix_spec h w rt rf et ef.
Proof.
  unfold prefix_result, prefix_spec, Multipitch.metrics_trace.
  destruct (Multipitch.validate rt rf et ef) as [[]|]; [|reflexivity]. cbn [bind].
  destruct (if Multipitch.resample_needed et rt then _ else _) as [ef'|]; [|reflexivity]. cbn [bind].
  destruct (Multipitch.compute_num_true_positives w false _ _); [|reflexivity]. cbn [bind].
  destruct (Multipitch.compute_num_true_positives w true _ _); reflexivity.
Qed.
Lemma zeqb_nat a b : (Z.of_nat a =? Z.of_nat b)%Z = Nat.eqb a b.
Proof. destruct (Nat.eqb_spec a b) as [->|H]; [apply Z.eqb_refl|]. apply Z.eqb_neq. lia. Qed.
Lemma allclose_eq a b : allclose_gen RTOL_DEFAULT ATOL_DEFAULT a b = Multipitch.allclose a b.
Proof. reflexivity. Qed.

Local Arguments Multipitch.validate : simpl never.
Local Arguments Multipitch.resample_multipitch : simpl never.
Local Arguments Multipitch.compute_num_true_positives : simpl never.
Local Arguments Multipitch.frequencies_to_midi : simpl never.
Local Arguments Multipitch.midi_to_chroma : simpl never.
Local Arguments Multipitch.compute_num_freqs : simpl never.
Local Arguments Multipitch.allclose : simpl never.
Local Arguments mframes_of : simpl never.
Local Arguments frames_of : simpl never.
Local Arguments counts_val : simpl never.
Local Arguments any_zero : simpl never.
Local Arguments allclose_gen : simpl never.
Local Arguments cnt : simpl never.

Ltac adv Hzr Hz' := repeat (progress (go; rewrite ?frames_of_v, ?frames_of_v', ?mframes_of_v, ?mframes_of_v', ?Hzr, ?Hz'; cbn [negb andb]; change (qltb 0 440) with true)).
Ltac tail Hzr Hz' :=
  adv Hzr Hz';
  match goal with |- context [Multipitch.compute_num_true_positives ?w false ?a ?b] =>
    destruct (Multipitch.compute_num_true_positives w false a b) as [tp|]; cbn [lift_counts]; adv Hzr Hz'; [|reflexivity] end;
  match goal with |- context [Multipitch.compute_num_true_positives ?w true ?a ?b] =>
    destruct (Multipitch.compute_num_true_positives w true a b) as [tpc|]; cbn [lift_counts]; adv Hzr Hz'; [|reflexivity] end;
  unfold counts_val; repeat match goal with |- context [match ?l with [] => VArrQ [] | _ :: _ => _ end] => destruct l end; reflexivity.

(* kwargs = {} or {'window': w} *)
Definition kw_of (w : option Q) : list (string * fv) := match w with Some q => [("window"%string, VFlt q)] | None => [] end.
Definition window_of (w : option Q) : Q := match w with Some q => q | None => 1#2 end.
Theorem metrics_prefix_tie : forall (w : option Q) rt rf et ef,
  run flog2 gen_mp_metrics [VArrQ rt; v_frames rf; VArrQ et; v_frames ef; VDict (kw_of w)]
  = prefix_result (hz2midi_of flog2 440) (window_of w) rt rf et ef.
Proof.
  intros. rewrite prefix_result_spec. unfold prefix_spec.
  unfold run, run_fun, exec_block, v_frames. go. rewrite !frames_of_v'.
  destruct (Multipitch.validate rt rf et ef) as [[]|x] eqn:V; cbn [bind lift_unit]; [|reflexivity].
  destruct (validate_ok _ _ _ _ V) as [Hnd [Hzr Hze]].
  go. rewrite zeqb_nat. unfold Multipitch.resample_needed.
  destruct (Nat.eqb (length et) (length rt)) eqn:EL; cbn [negb orb].
  - rewrite allclose_eq. destruct (Multipitch.allclose et rt); cbn [negb].
    + destruct w as [w|]; cbn [kw_of window_of]; tail Hzr Hze.
    + go. rewrite frames_of_v', Hnd. destruct (Multipitch.resample_multipitch et ef rt) as [ef'|] eqn:R; go; [|reflexivity].
      pose proof (resample_nz _ _ _ _ Hze R) as Hz'. destruct w as [w|]; cbn [kw_of window_of]; tail Hzr Hz'.
  - go. rewrite frames_of_v', Hnd. destruct (Multipitch.resample_multipitch et ef rt) as [ef'|] eqn:R; go; [|reflexivity].
    pose proof (resample_nz _ _ _ _ Hze R) as Hz'. destruct w as [w|]; cbn [kw_of window_of]; tail Hzr Hz'.
Qed.
End M.
Print Assumptions metrics_prefix_tie.
