From Coq Require Import List Arith Bool Lia.
From ME Require Import Model.Dict Model.Matching.
Import ListNotations.

Definition edge (g : graph) u v := In v (nbrs g u).
Definition inj (m : matching) := forall v1 v2 u, dget m v1 = Some u -> dget m v2 = Some u -> v1 = v2.
Definition edges_ok g (m : matching) := forall v u, dget m v = Some u -> edge g u v.
Definition invA (pred : dict pu) (m : matching) := forall u, dget pred u = Some Free -> forall v, dget m v <> Some u.
Definition invB (pred : dict pu) (m : matching) := forall u v, dget pred u = Some (Via v) -> dget m v = Some u.
Definition invC g (preds : dict (list nat)) := forall v L u, dget preds v = Some L -> In u L -> edge g u v.
Definition Inv g (st : state) := let '(preds, pred, m) := st in
  NoDup (keys m) /\ inj m /\ edges_ok g m /\ invA pred m /\ invB pred m /\ invC g preds.
Definition noptr (pred : dict pu) v := forall u, dget pred u <> Some (Via v).
Definition sub {V} (d' d : dict V) := forall k x, dget d' k = Some x -> dget d k = Some x.

Lemma sub_refl {V} (d : dict V) : sub d d. Proof. now intros k x. Qed.
Lemma sub_trans {V} (a b c : dict V) : sub a b -> sub b c -> sub a c. Proof. intros H1 H2 k x H; auto. Qed.
Lemma sub_ddel {V} (d : dict V) k : sub (ddel d k) d. Proof. intros k' x; apply dget_ddel_sub. Qed.
Lemma sub_none {V} (d' d : dict V) k : sub d' d -> dget d k = None -> dget d' k = None.
Proof. intros H E. destruct (dget d' k) eqn:E'; [apply H in E'; congruence|reflexivity]. Qed.
Lemma sub_notnone {V} (d' d : dict V) k : sub d' d -> dget d' k <> None -> dget d k <> None.
Proof. intros H E. destruct (dget d' k) eqn:E'; [apply H in E'; congruence|congruence]. Qed.

Lemma Inv_sub g preds pred m preds' pred' :
  Inv g (preds, pred, m) -> sub preds' preds -> sub pred' pred -> Inv g (preds', pred', m).
Proof. unfold Inv. intros (Hk & Hi & He & HA & HB & HC) S1 S2. repeat split; auto.
  - intros u Hu. apply HA. auto.
  - intros u v Hu. apply HB. auto.
  - intros v L u HL. eapply HC; eauto. Qed.
Lemma noptr_sub pred pred' v : noptr pred v -> sub pred' pred -> noptr pred' v.
Proof. intros H S u Hu. apply (H u). auto. Qed.

Definition post g (v : nat) (st : state) (r : state * bool) :=
  let '(preds, pred, m) := st in let '((preds', pred', m'), b) := r in
  sub preds' preds /\ sub pred' pred /\
  (b = false -> m' = m) /\
  (b = true -> Inv g (preds', pred', m') /\
     (exists u0, dget m' v = Some u0 /\ dget pred u0 <> None /\ dget pred' u0 = None) /\
     (forall v' u', dget m' v' = Some u' -> dget m v' = Some u' \/ (dget pred u' <> None /\ dget pred' u' = None))).
Definition rec_spec g (rec : nat -> state -> state * bool) :=
  forall v st, Inv g st -> noptr (snd (fst st)) v -> post g v st (rec v st).

(* setting m[v] := u where u is fresh for m and no pred entry points to v *)
Lemma Inv_assign g preds pred m v u :
  Inv g (preds, pred, m) -> noptr pred v -> dget pred u = None ->
  (forall v', dget m v' = Some u -> v' = v) -> edge g u v ->
  Inv g (preds, pred, dset m v u).
Proof.
  unfold Inv. intros (Hk & Hi & He & HA & HB & HC) Hn Hu Hfresh Hedge. split; [now apply NoDup_keys_dset|]. repeat split; auto.
  - intros v1 v2 u' H1 H2.
    destruct (Nat.eq_dec v1 v) as [->|N1], (Nat.eq_dec v2 v) as [->|N2]; auto.
    + rewrite dget_dset_same in H1. injection H1 as <-. rewrite dget_dset_other in H2 by auto. symmetry; auto.
    + rewrite dget_dset_same in H2. injection H2 as <-. rewrite dget_dset_other in H1 by auto. auto.
    + rewrite dget_dset_other in H1, H2 by auto. eauto.
  - intros v' u' H. destruct (Nat.eq_dec v' v) as [->|N].
    + rewrite dget_dset_same in H. now injection H as <-.
    + rewrite dget_dset_other in H by auto. auto.
  - intros u' Hu' v' H. destruct (Nat.eq_dec v' v) as [->|N].
    + rewrite dget_dset_same in H. injection H as <-. congruence.
    + rewrite dget_dset_other in H by auto. eapply HA; eauto.
  - intros u' v' Hu'. destruct (Nat.eq_dec v' v) as [->|N].
    + exfalso. eapply Hn; eauto.
    + rewrite dget_dset_other by auto. auto.
Qed.

Lemma try_us_spec g rec : rec_spec g rec ->
  forall v L st, (forall u, In u L -> edge g u v) -> Inv g st -> noptr (snd (fst st)) v ->
  post g v st (try_us rec v L st).
Proof.
  intros Hrec v L. induction L as [|u L' IH]; intros [[preds pred] m] HL HI Hn; cbn [try_us snd fst] in *.
  - unfold post. repeat split; try apply sub_refl; congruence.
  - destruct (dget pred u) as [p|] eqn:Eu; [|apply IH; auto; intros; apply HL; now right].
    assert (Hedge : edge g u v) by (apply HL; now left).
    assert (HI1 : Inv g (preds, ddel pred u, m)) by (eapply Inv_sub; eauto using sub_refl, sub_ddel).
    assert (Hn1 : noptr (ddel pred u) v) by (eapply noptr_sub; eauto using sub_ddel).
    destruct p as [|w].
    + (* Free *)
      unfold post. split; [apply sub_refl|]. split; [apply sub_ddel|]. split; [congruence|]. intros _.
      assert (HA : forall v', dget m v' <> Some u) by (destruct HI as (_ & _ & _ & HA & _); now apply HA).
      split; [|split].
      * apply Inv_assign; auto using dget_ddel_same. intros v' H; exfalso; eapply HA; eauto.
      * exists u. rewrite dget_dset_same, dget_ddel_same, Eu. repeat split; congruence.
      * intros v' u' H. destruct (Nat.eq_dec v' v) as [->|N].
        -- rewrite dget_dset_same in H. injection H as <-. right. rewrite dget_ddel_same, Eu. split; congruence.
        -- rewrite dget_dset_other in H by auto. now left.
    + (* Via w *)
      assert (Hmw : dget m w = Some u) by (destruct HI as (_ & _ & _ & _ & HB & _); now apply HB).
      assert (Hnw : noptr (ddel pred u) w).
      { intros u' Hu'. assert (dget pred u' = Some (Via w)) by (eapply sub_ddel; eauto).
        assert (dget m w = Some u') by (destruct HI as (_ & _ & _ & _ & HB & _); now apply HB).
        assert (u' = u) by congruence. subst. rewrite dget_ddel_same in Hu'. discriminate. }
      pose proof (Hrec w (preds, ddel pred u, m) HI1 Hnw) as Hp. cbn [post] in Hp.
      destruct (rec w (preds, ddel pred u, m)) as [[[preds2 pred2] m2] ok] eqn:Er.
      destruct Hp as (S1 & S2 & Hf & Ht). destruct ok.
      * (* success *)
        destruct (Ht eq_refl) as (HI2 & (u0 & Hu0 & Hu0a & Hu0b) & Hnew). clear Hf Ht.
        unfold post. split; [exact S1|]. split; [eapply sub_trans; eauto using sub_ddel|]. split; [congruence|]. intros _.
        assert (Hu2 : dget pred2 u = None) by (eapply sub_none; eauto using dget_ddel_same).
        assert (Hfresh : forall v', dget m2 v' = Some u -> v' = v).
        { intros v' H. exfalso. destruct (Hnew _ _ H) as [H0|[H0 _]].
          - assert (v' = w) by (destruct HI as (_ & Hi & _); eapply Hi; eauto). subst v'.
            rewrite Hu0 in H. injection H as ->. rewrite dget_ddel_same in Hu0a. congruence.
          - rewrite dget_ddel_same in H0. congruence. }
        split; [|split].
        -- apply Inv_assign; auto. eapply noptr_sub; eauto.
        -- exists u. rewrite dget_dset_same, Eu. repeat split; congruence.
        -- intros v' u' H. destruct (Nat.eq_dec v' v) as [->|N].
           ++ rewrite dget_dset_same in H. injection H as <-. right. rewrite Eu. split; congruence.
           ++ rewrite dget_dset_other in H by auto. destruct (Hnew _ _ H) as [H0|[H0 H1]]; [now left|right].
              split; [|exact H1]. eapply sub_notnone; [apply sub_ddel|exact H0].
      * (* failure of the recursive call: continue with the rest of L *)
        specialize (Hf eq_refl). subst m2. clear Ht.
        assert (HI2 : Inv g (preds2, pred2, m)) by (eapply Inv_sub; eauto).
        assert (Hn2 : noptr pred2 v) by (eapply noptr_sub; eauto).
        specialize (IH (preds2, pred2, m) (fun u0 H => HL u0 (or_intror H)) HI2 Hn2).
        unfold post in IH |- *. destruct (try_us rec v L' (preds2, pred2, m)) as [[[preds3 pred3] m3] b].
        destruct IH as (T1 & T2 & Tf & Tt).
        assert (S2' : sub pred2 pred) by (eapply sub_trans; eauto using sub_ddel).
        split; [eapply sub_trans; eauto|]. split; [eapply sub_trans; eauto|]. split; [exact Tf|].
        intros Hb. destruct (Tt Hb) as (HI3 & (u0 & A1 & A2 & A3) & Hnew3). split; [exact HI3|]. split.
        -- exists u0. repeat split; auto. eapply sub_notnone; eauto.
        -- intros v' u' H. destruct (Hnew3 _ _ H) as [H0|[H0 H1]]; [now left|right]. split; auto. eapply sub_notnone; eauto.
Qed.

Lemma recurse_spec g fuel : rec_spec g (recurse fuel).
Proof.
  induction fuel as [|f IH]; intros v [[preds pred] m] HI Hn; cbn [recurse].
  - unfold post. repeat split; try apply sub_refl; congruence.
  - destruct (dget preds v) as [L|] eqn:EL.
    + assert (HL : forall u, In u L -> edge g u v) by (destruct HI as (_ & _ & _ & _ & _ & HC); intros; eapply HC; eauto).
      assert (HI1 : Inv g (ddel preds v, pred, m)) by (eapply Inv_sub; eauto using sub_refl, sub_ddel).
      pose proof (try_us_spec g (recurse f) IH v L (ddel preds v, pred, m) HL HI1 Hn) as Hp.
      unfold post in Hp |- *. destruct (try_us (recurse f) v L (ddel preds v, pred, m)) as [[[p1 p2] m'] b].
      destruct Hp as (S1 & S2 & Hf & Ht). split; [eapply sub_trans; eauto using sub_ddel|]. split; [exact S2|]. split; [exact Hf|exact Ht].
    + unfold post. repeat split; try apply sub_refl; congruence.
Qed.
