(* chord.split / chord.join round trip (model in Model/ChordParse.v): joining the parts returned by split
   (the scale degrees, a Python set, taken in any order) re-validates and yields a label with the identical
   encoding.  The label "X" has to be excluded in addition to "N": split "X" = ("X", "maj", {}, "1") and
   join gives "X:maj", which CHORD_RE rejects (split_join_X_counterexample below); encode treats N and X
   before it ever calls split.

   Structure: every accepted label other than N / X is  build rt col dl bo  (root, optional ':'+shorthand,
   degree list, optional '/'+bass) for well-formed parts (harte_inv); conversely every well-formed build is
   accepted (build_lang); split of a well-formed build is computed in closed form (rest_build); the string
   produced by join is again a well-formed build; encode folds a commutative step over the degrees. *)
From Coq Require Import List Bool Arith ZArith Lia Permutation.
From ME Require Import Model.Prelude Model.Regex Model.ChordParse Gen.ChordRe Gen.ChordTables
  Proofs.RegexLang Proofs.RegexEquiv Proofs.ChordRegex Proofs.ChordTotal.
Import ListNotations.
Local Open Scope nat_scope.

(* ---------- strings ---------- *)
Lemma seqb_true_iff : forall a b : str, seqb a b = true <-> a = b.
Proof. induction a as [|x a IH]; destruct b as [|y b]; cbn [seqb]; split; intros H; try discriminate; auto.
  - apply andb_true_iff in H. destruct H as [H1 H2]. apply Nat.eqb_eq in H1. apply IH in H2. congruence.
  - injection H as -> ->. rewrite Nat.eqb_refl. cbn [andb]. apply IH. reflexivity. Qed.

Lemma has_true c s : has c s = true <-> In c s.
Proof. unfold has. rewrite existsb_exists. split.
  - intros (x & Hx & E). apply Nat.eqb_eq in E. subst. exact Hx.
  - intros H. exists c. split; [exact H|apply Nat.eqb_refl]. Qed.
Lemma has_in c s : In c s -> has c s = true. Proof. apply has_true. Qed.
Lemma has_false c s : ~ In c s -> has c s = false.
Proof. intros H. destruct (has c s) eqn:E; [|reflexivity]. apply has_true in E. contradiction. Qed.

Lemma split_on_free c s : ~ In c s -> split_on c s = [s].
Proof. induction s as [|x t IH]; intros H; [reflexivity|]. cbn [split_on]. destruct (Nat.eqb x c) eqn:E.
  - apply Nat.eqb_eq in E. subst. exfalso. apply H. left; reflexivity.
  - rewrite IH; [reflexivity|]. intros Hi. apply H. right; exact Hi. Qed.
Lemma split_on_app c a b : ~ In c a -> split_on c (a ++ c :: b) = a :: split_on c b.
Proof. induction a as [|x t IH]; intros H; cbn [app split_on].
  - rewrite Nat.eqb_refl. reflexivity.
  - destruct (Nat.eqb x c) eqn:E.
    + apply Nat.eqb_eq in E. subst. exfalso. apply H. left; reflexivity.
    + rewrite IH; [reflexivity|]. intros Hi. apply H. right; exact Hi. Qed.

Lemma lstrip_all p s : (forall x, In x s -> p x = false) -> lstrip p s = s.
Proof. destruct s as [|x t]; intros H; [reflexivity|]. cbn [lstrip]. rewrite (H x (or_introl eq_refl)). reflexivity. Qed.
Lemma strip_all p s : (forall x, In x s -> p x = false) -> strip p s = s.
Proof. intros H. unfold strip. rewrite (lstrip_all p s H). rewrite lstrip_all; [apply rev_involutive|].
  intros x Hx. apply H. apply in_rev. exact Hx. Qed.
Lemma strip_rpar J : ~ In c_rpar J -> strip (Nat.eqb c_rpar) (J ++ [c_rpar]) = J.
Proof. intros H.
  assert (Hall : forall x, In x J -> Nat.eqb c_rpar x = false).
  { intros x Hx. apply Nat.eqb_neq. intros E. subst x. contradiction. }
  destruct J as [|x t]; [reflexivity|].
  assert (E1 : lstrip (Nat.eqb c_rpar) ((x :: t) ++ [c_rpar]) = (x :: t) ++ [c_rpar]).
  { cbn [app lstrip]. rewrite (Hall x (or_introl eq_refl)). reflexivity. }
  unfold strip. rewrite E1, rev_unit. cbn [lstrip]. rewrite Nat.eqb_refl.
  rewrite lstrip_all; [apply rev_involutive|]. intros y Hy. apply Hall. apply in_rev. exact Hy. Qed.

Lemma join_with_cons2 c x y t : join_with c (x :: y :: t) = x ++ c :: join_with c (y :: t).
Proof. reflexivity. Qed.
Lemma split_join_with c l : l <> [] -> Forall (fun d => ~ In c d) l -> split_on c (join_with c l) = l.
Proof. induction l as [|x t IH]; intros Hn HF; [congruence|]. inversion HF as [|? ? Hx Ht]; subst. destruct t as [|y t'].
  - cbn [join_with]. apply split_on_free. exact Hx.
  - rewrite join_with_cons2, split_on_app by exact Hx. f_equal. apply IH; [discriminate|exact Ht]. Qed.
Lemma in_join_with c l z : In z (join_with c l) -> z = c \/ exists d, In d l /\ In z d.
Proof. induction l as [|x t IH]; intros H; [destruct H|]. destruct t as [|y t'].
  - right. exists x. split; [left; reflexivity|exact H].
  - rewrite join_with_cons2 in H. apply in_app_or in H. destruct H as [H|[H|H]].
    + right. exists x. split; [left; reflexivity|exact H].
    + left. symmetry. exact H.
    + destruct (IH H) as [E|(d & Hd & Hz)]; [left; exact E|right; exists d; split; [right; exact Hd|exact Hz]]. Qed.
Lemma notin_join c sep l : c <> sep -> Forall (fun d => ~ In c d) l -> ~ In c (join_with sep l).
Proof. intros Hne HF Hi. apply in_join_with in Hi. destruct Hi as [E|(d & Hd & Hz)]; [contradiction|].
  rewrite Forall_forall in HF. exact (HF d Hd Hz). Qed.
Lemma join_with_concat c l : forall d, join_with c (d :: l) = d ++ concat (map (cons c) l).
Proof. induction l as [|y t IH]; intros d.
  - cbn [join_with map concat]. rewrite app_nil_r. reflexivity.
  - rewrite join_with_cons2, IH. reflexivity. Qed.

(* ---------- dedup ---------- *)
Lemma existsb_seqb x l : existsb (seqb x) l = true <-> In x l.
Proof. rewrite existsb_exists. split.
  - intros (y & Hy & E). apply seqb_true_iff in E. subst. exact Hy.
  - intros H. exists x. split; [exact H|apply seqb_true_iff; reflexivity]. Qed.
Lemma dedup_In l x : In x (dedup l) <-> In x l.
Proof. induction l as [|a t IH]; [reflexivity|]. cbn [dedup]. destruct (existsb (seqb a) t) eqn:E.
  - rewrite IH. split; [intros H; right; exact H|]. intros [<-|H]; [apply (proj1 (existsb_seqb a t)); exact E|exact H].
  - cbn [In]. rewrite IH. reflexivity. Qed.
Lemma dedup_NoDup l : NoDup (dedup l).
Proof. induction l as [|a t IH]; [constructor|]. cbn [dedup]. destruct (existsb (seqb a) t) eqn:E; [exact IH|].
  constructor; [|exact IH]. intros H. apply (proj1 (dedup_In t a)) in H. apply (proj2 (existsb_seqb a t)) in H. congruence. Qed.
Lemma dedup_id l : NoDup l -> dedup l = l.
Proof. induction 1 as [|x l Hx Hn IH]; [reflexivity|]. cbn [dedup]. destruct (existsb (seqb x) l) eqn:E.
  - apply (proj1 (existsb_seqb x l)) in E. contradiction.
  - rewrite IH. reflexivity. Qed.
Lemma dedup_nil l : dedup l = [] -> l = [].
Proof. destruct l as [|a t]; [reflexivity|]. intros H. exfalso.
  assert (Hi : In a (dedup (a :: t))) by (apply (proj2 (dedup_In (a :: t) a)); left; reflexivity). rewrite H in Hi. exact Hi. Qed.

(* ---------- regular-language helpers ---------- *)
Lemma lang_Chr c s : lang (Chr c) s -> s = [c]. Proof. intros H. inversion H. reflexivity. Qed.
Lemma notin_lang r s c : lang r s -> memn c (chars r) = false -> ~ In c s.
Proof. intros H E Hi. apply (lang_chars r s H) in Hi.
  assert (Ht : memn c (chars r) = true) by (apply existsb_exists; exists c; split; [exact Hi|apply Nat.eqb_refl]).
  congruence. Qed.
Lemma lit_inv x : forall s, lang (lit x) s -> s = x.
Proof. induction x as [|c t IH]; intros s H; cbn [lit] in H.
  - inversion H. reflexivity.
  - apply lang_Cat in H. destruct H as (s1 & s2 & -> & H1 & H2). apply lang_Chr in H1. subst. apply IH in H2. subst. reflexivity. Qed.
Lemma lit_lang x : lang (lit x) x.
Proof. induction x as [|c t IH]; cbn [lit]; [constructor|]. change (c :: t) with ([c] ++ t). constructor; [constructor|exact IH]. Qed.
Lemma altl_lit_inv l s : lang (altl (map lit l)) s -> In s l.
Proof. induction l as [|x l IH]; intros H.
  - inversion H.
  - destruct l as [|y l'].
    + cbn [map altl] in H. apply lit_inv in H. left. symmetry. exact H.
    + change (lang (Alt (lit x) (altl (map lit (y :: l')))) s) in H. apply lang_Alt in H. destruct H as [H|H].
      * apply lit_inv in H. left. symmetry. exact H.
      * right. apply IH. exact H. Qed.
Lemma star_sep_inv c r w : lang (Star (Cat (Chr c) r)) w -> exists l, Forall (lang r) l /\ w = concat (map (cons c) l).
Proof. intros H. remember (Star (Cat (Chr c) r)) as R eqn:E. induction H; inversion E; subst.
  - exists []. split; [constructor|reflexivity].
  - clear IHlang1. destruct (IHlang2 eq_refl) as (l & Hl & ->). apply lang_Cat in H. destruct H as (u & v & -> & Hu & Hv).
    apply lang_Chr in Hu. subst u. exists (v :: l). split; [constructor; assumption|reflexivity]. Qed.
Lemma star_sep_lang c r l : Forall (lang r) l -> lang (Star (Cat (Chr c) r)) (concat (map (cons c) l)).
Proof. induction 1 as [|v l Hv Hl IH]; cbn [map concat]; [constructor|].
  constructor; [|exact IH]. change (c :: v) with ([c] ++ v). constructor; [constructor|exact Hv]. Qed.

(* ---------- the canonical shape of a label ---------- *)
Definition colpart (col : option str) : str := match col with None => [] | Some q => c_colon :: q end.
Definition degpart (dl : list str) : str := match dl with [] => [] | _ => c_lpar :: join_with c_comma dl ++ [c_rpar] end.
Definition basspart (bo : option str) : str := match bo with None => [] | Some b => c_slash :: b end.
Definition build (rt : str) (col : option str) (dl : list str) (bo : option str) : str :=
  ((rt ++ colpart col) ++ degpart dl) ++ basspart bo.
Definition colwf (col : option str) (dl : list str) : Prop :=
  match col with None => dl = [] | Some q => (q = [] /\ dl <> []) \/ lang h_shorthand q end.
Definition basswf (bo : option str) : Prop := match bo with None => True | Some b => lang h_degree b end.
Definition wf (rt : str) (col : option str) (dl : list str) (bo : option str) : Prop :=
  lang h_root rt /\ colwf col dl /\ Forall (lang h_deg_item) dl /\ basswf bo.

Lemma deglist_inv w : lang h_deglist w ->
  exists d l, lang h_deg_item d /\ Forall (lang h_deg_item) l /\ w = degpart (d :: l).
Proof. unfold h_deglist. intros H.
  apply lang_Cat in H. destruct H as (s1 & w1 & -> & H1 & H). apply lang_Chr in H1. subst s1.
  apply lang_Cat in H. destruct H as (d & w2 & -> & Hd & H).
  apply lang_Cat in H. destruct H as (m & s3 & -> & Hm & H3). apply lang_Chr in H3. subst s3.
  apply star_sep_inv in Hm. destruct Hm as (l & Hl & ->).
  exists d, l. split; [exact Hd|]. split; [exact Hl|].
  unfold degpart. rewrite join_with_concat. cbn [app]. rewrite <- app_assoc. reflexivity. Qed.
Lemma deglist_lang d l : lang h_deg_item d -> Forall (lang h_deg_item) l -> lang h_deglist (degpart (d :: l)).
Proof. intros Hd Hl. unfold degpart. rewrite join_with_concat. rewrite <- app_assoc.
  change (c_lpar :: d ++ concat (map (cons c_comma) l) ++ [c_rpar]) with ([c_lpar] ++ d ++ concat (map (cons c_comma) l) ++ [c_rpar]).
  unfold h_deglist. constructor; [constructor|]. constructor; [exact Hd|]. constructor; [apply star_sep_lang; exact Hl|constructor]. Qed.

Lemma quality_inv qp : lang (opt h_quality) qp ->
  exists col dl, qp = colpart col ++ degpart dl /\ colwf col dl /\ Forall (lang h_deg_item) dl.
Proof. unfold opt. intros H. apply lang_Alt in H. destruct H as [H|H].
  { apply lang_Eps in H. subst. exists None, []. split; [reflexivity|]. split; [reflexivity|constructor]. }
  unfold h_quality in H. apply lang_Alt in H. destruct H as [H|H].
  - apply lang_Cat in H. destruct H as (s1 & w1 & -> & H1 & H). apply lang_Chr in H1. subst s1.
    apply lang_Cat in H. destruct H as (sh & w2 & -> & Hsh & H). unfold opt in H. apply lang_Alt in H. destruct H as [H|H].
    + apply lang_Eps in H. subst. exists (Some sh), []. split; [reflexivity|]. split; [right; exact Hsh|constructor].
    + apply deglist_inv in H. destruct H as (d & l & Hd & Hl & ->). exists (Some sh), (d :: l).
      split; [reflexivity|]. split; [right; exact Hsh|constructor; assumption].
  - apply lang_Cat in H. destruct H as (s1 & w1 & -> & H1 & H). apply lang_Chr in H1. subst s1.
    apply deglist_inv in H. destruct H as (d & l & Hd & Hl & ->). exists (Some []), (d :: l).
    split; [reflexivity|]. split; [left; split; [reflexivity|discriminate]|constructor; assumption]. Qed.
Lemma quality_lang col dl : colwf col dl -> Forall (lang h_deg_item) dl -> lang (opt h_quality) (colpart col ++ degpart dl).
Proof. intros Hc Hd. unfold opt. destruct col as [q|]; cbn [colwf colpart] in *.
  - apply LAltR. unfold h_quality. change ((c_colon :: q) ++ degpart dl) with ([c_colon] ++ q ++ degpart dl).
    destruct Hc as [[-> Hn]|Hq].
    + apply LAltR. constructor; [constructor|]. cbn [app]. destruct dl as [|d l]; [congruence|].
      inversion Hd; subst. apply deglist_lang; assumption.
    + apply LAltL. constructor; [constructor|]. constructor; [exact Hq|]. unfold opt. destruct dl as [|d l].
      * apply LAltL. constructor.
      * apply LAltR. inversion Hd; subst. apply deglist_lang; assumption.
  - subst dl. apply LAltL. constructor. Qed.

Lemma bass_inv bp : lang (opt h_bass) bp -> exists bo, bp = basspart bo /\ basswf bo.
Proof. unfold opt. intros H. apply lang_Alt in H. destruct H as [H|H].
  - apply lang_Eps in H. subst. exists None. split; [reflexivity|exact I].
  - unfold h_bass in H. apply lang_Cat in H. destruct H as (s1 & b & -> & H1 & Hb). apply lang_Chr in H1. subst s1.
    exists (Some b). split; [reflexivity|exact Hb]. Qed.
Lemma bass_lang bo : basswf bo -> lang (opt h_bass) (basspart bo).
Proof. intros H. unfold opt. destruct bo as [b|]; cbn [basspart basswf] in *.
  - apply LAltR. unfold h_bass. change (c_slash :: b) with ([c_slash] ++ b). constructor; [constructor|exact H].
  - apply LAltL. constructor. Qed.

Lemma build_assoc rt col dl bo : build rt col dl bo = rt ++ (colpart col ++ degpart dl) ++ basspart bo.
Proof. unfold build. rewrite <- !app_assoc. reflexivity. Qed.

Lemma harte_inv s : lang harte s -> seqb s NO_CHORD = false -> seqb s X_CHORD = false ->
  exists rt col dl bo, wf rt col dl bo /\ s = build rt col dl bo.
Proof. intros H HN HX. unfold harte in H. apply lang_Alt in H. destruct H as [H|H].
  - apply lang_oneof in H. destruct H as (x & Hx & ->). cbn [In] in Hx.
    destruct Hx as [<-|[<-|[]]]; [vm_compute in HN|vm_compute in HX]; discriminate.
  - apply lang_Cat in H. destruct H as (rt & r1 & -> & Hrt & H). apply lang_Cat in H. destruct H as (qp & bp & -> & Hq & Hb).
    apply quality_inv in Hq. destruct Hq as (col & dl & -> & Hc & Hd). apply bass_inv in Hb. destruct Hb as (bo & -> & Hbo).
    exists rt, col, dl, bo. split; [repeat split; assumption|]. rewrite build_assoc. reflexivity. Qed.
Lemma build_lang rt col dl bo : wf rt col dl bo -> lang harte (build rt col dl bo).
Proof. intros (Hrt & Hc & Hd & Hb). rewrite build_assoc. unfold harte. apply LAltR.
  constructor; [exact Hrt|]. constructor; [apply quality_lang; assumption|apply bass_lang; exact Hb]. Qed.

(* ---------- separator facts of the parts ---------- *)
Lemma root_facts rt : lang h_root rt ->
  ~ In c_slash rt /\ ~ In c_lpar rt /\ ~ In c_colon rt /\ exists x t, rt = x :: t /\ In x [65;66;67;68;69;70;71].
Proof. intros H. split; [|split; [|split]]; try (apply (notin_lang _ _ _ H); reflexivity).
  unfold h_root in H. apply lang_Cat in H. destruct H as (s1 & s2 & -> & H1 & _). apply lang_oneof in H1.
  destruct H1 as (x & Hx & ->). exists x, s2. split; [reflexivity|exact Hx]. Qed.

Definition item_ok (d : str) : Prop :=
  ~ In c_slash d /\ ~ In c_lpar d /\ ~ In c_rpar d /\ ~ In c_comma d /\ (forall x, In x d -> is_ws x = false).
Lemma item_facts d : lang h_deg_item d -> item_ok d.
Proof. intros H. split; [|split; [|split; [|split]]]; try (apply (notin_lang _ _ _ H); reflexivity).
  intros x Hx. apply (lang_chars _ _ H) in Hx.
  assert (Hall : forallb (fun x => negb (is_ws x)) (chars h_deg_item) = true) by reflexivity.
  rewrite forallb_forall in Hall. apply Hall in Hx. apply negb_true_iff in Hx. exact Hx. Qed.

Lemma shorthand_in q : lang h_shorthand q -> In q shorthands.
Proof. apply altl_lit_inv. Qed.
Lemma shorthand_facts q : lang h_shorthand q ->
  q <> [] /\ lower q = q /\ ~ In c_slash q /\ ~ In c_lpar q /\ ~ In c_colon q.
Proof. intros H. split; [|split; [|split; [|split]]]; try (apply (notin_lang _ _ _ H); reflexivity).
  - apply shorthand_in in H. unfold shorthands in H. cbn [In] in H.
    repeat (destruct H as [<-|H]; [discriminate|]). destruct H.
  - apply shorthand_in in H. unfold shorthands in H. cbn [In] in H.
    repeat (destruct H as [<-|H]; [reflexivity|]). destruct H. Qed.
Lemma maj_shorthand : lang h_shorthand s_maj.
Proof. exact (LAltL _ _ _ (lit_lang s_maj)). Qed.

Lemma col_facts col dl : colwf col dl -> forall q, col = Some q -> ~ In c_slash q /\ ~ In c_lpar q /\ ~ In c_colon q.
Proof. intros Hc q ->. cbn [colwf] in Hc. destruct Hc as [[-> _]|Hq].
  - repeat split; intros [].
  - destruct (shorthand_facts q Hq) as (_ & _ & H1 & H2 & H3). auto. Qed.

(* ---------- split of a canonical label, in closed form ---------- *)
Definition dflt (degs : list str) : str := match degs with [] => s_maj | _ => [] end.
Definition qual (col : option str) (degs : list str) : str :=
  match col with None => dflt degs | Some qn => match qn with [] => dflt degs | _ => lower qn end end.
Definition bassof (bo : option str) : str := match bo with None => s_one | Some b => b end.

Lemma tail_build rt col om degs bass :
  ~ In c_colon rt -> (forall q, col = Some q -> ~ In c_colon q) -> (col = None -> om = false) ->
  split_tail (rt ++ colpart col) om degs bass false = Ok (rt, qual col degs, degs, bass).
Proof. intros Hrt Hq Hom. unfold split_tail. destruct col as [q|]; cbn [colpart].
  - rewrite (has_in c_colon (rt ++ c_colon :: q)) by (apply in_or_app; right; left; reflexivity).
    cbn [negb]. rewrite andb_false_r. cbv zeta.
    rewrite split_on_app by exact Hrt. rewrite split_on_free by (apply Hq; reflexivity). cbn [two bind]. reflexivity.
  - rewrite app_nil_r. rewrite (has_false c_colon rt Hrt). rewrite (Hom eq_refl). cbn [andb bind]. reflexivity. Qed.

Lemma mid_build rt col dl bass :
  ~ In c_lpar rt -> ~ In c_colon rt -> (forall q, col = Some q -> ~ In c_lpar q /\ ~ In c_colon q) ->
  (col = None -> dl = []) -> Forall item_ok dl ->
  split_mid ((rt ++ colpart col) ++ degpart dl) bass false = Ok (rt, qual col (dedup dl), dedup dl, bass).
Proof. intros Hrt40 Hrt58 Hq Hnone Hd.
  assert (Ha : ~ In c_lpar (rt ++ colpart col)).
  { intros Hi. apply in_app_or in Hi. destruct Hi as [Hi|Hi]; [contradiction|]. destruct col as [q|]; cbn [colpart] in Hi; [|exact Hi].
    destruct Hi as [Hi|Hi]; [discriminate|]. exact (proj1 (Hq q eq_refl) Hi). }
  assert (Hq58 : forall q, col = Some q -> ~ In c_colon q) by (intros q E; exact (proj2 (Hq q E))).
  unfold split_mid. destruct dl as [|d l].
  - cbn [degpart]. rewrite app_nil_r. rewrite (has_false _ _ Ha). cbn [bind]. cbn [dedup].
    apply tail_build; [exact Hrt58|exact Hq58|reflexivity].
  - remember (d :: l) as dl eqn:Edl.
    assert (Hne : dl <> []) by (subst dl; discriminate).
    assert (Edp : degpart dl = c_lpar :: join_with c_comma dl ++ [c_rpar]) by (subst dl; reflexivity).
    rewrite Edp. set (J := join_with c_comma dl).
    assert (HJ40 : ~ In c_lpar J).
    { apply notin_join; [discriminate|]. eapply Forall_impl; [|exact Hd]. intros x Hx. exact (proj1 (proj2 Hx)). }
    assert (HJ41 : ~ In c_rpar J).
    { apply notin_join; [discriminate|]. eapply Forall_impl; [|exact Hd]. intros x Hx. exact (proj1 (proj2 (proj2 Hx))). }
    assert (HJ40' : ~ In c_lpar (J ++ [c_rpar])).
    { intros Hi. apply in_app_or in Hi. destruct Hi as [Hi|[Hi|[]]]; [contradiction|discriminate]. }
    rewrite (has_in c_lpar) by (apply in_or_app; right; left; reflexivity).
    rewrite split_on_app by exact Ha. rewrite split_on_free by exact HJ40'. cbn [two bind].
    rewrite strip_rpar by exact HJ41. unfold J. rewrite split_join_with; [|exact Hne|].
    2:{ eapply Forall_impl; [|exact Hd]. intros x Hx. exact (proj1 (proj2 (proj2 (proj2 Hx)))). }
    assert (Em : map (strip is_ws) dl = dl).
    { clear - Hd. induction Hd as [|x t Hx Ht IH]; [reflexivity|]. cbn [map]. rewrite IH. f_equal.
      apply strip_all. exact (proj2 (proj2 (proj2 (proj2 Hx)))). }
    rewrite Em. apply tail_build; [exact Hrt58|exact Hq58|]. intros E. apply Hnone in E. congruence. Qed.

Lemma build_head rt col dl bo : lang h_root rt ->
  seqb (build rt col dl bo) NO_CHORD = false /\ seqb (build rt col dl bo) X_CHORD = false.
Proof. intros H. destruct (root_facts rt H) as (_ & _ & _ & x & t & -> & Hx). cbn [In] in Hx.
  repeat (destruct Hx as [<-|Hx]; [split; reflexivity|]). destruct Hx. Qed.

Lemma rest_build rt col dl bo : wf rt col dl bo ->
  split_rest (build rt col dl bo) false = Ok (rt, qual col (dedup dl), dedup dl, bassof bo).
Proof. intros (Hrt & Hc & Hd & Hb).
  destruct (build_head rt col dl bo Hrt) as [HN _].
  destruct (root_facts rt Hrt) as (R47 & R40 & R58 & _).
  pose proof (col_facts col dl Hc) as Hcol.
  assert (Hok : Forall item_ok dl) by (eapply Forall_impl; [|exact Hd]; intros x Hx; apply item_facts; exact Hx).
  assert (Hpre : ~ In c_slash ((rt ++ colpart col) ++ degpart dl)).
  { intros Hi. apply in_app_or in Hi. destruct Hi as [Hi|Hi].
    - apply in_app_or in Hi. destruct Hi as [Hi|Hi]; [contradiction|]. destruct col as [q|]; cbn [colpart] in Hi; [|exact Hi].
      destruct Hi as [Hi|Hi]; [discriminate|]. exact (proj1 (Hcol q eq_refl) Hi).
    - destruct dl as [|d l]; [exact Hi|]. remember (d :: l) as dl0. assert (E : degpart dl0 = c_lpar :: join_with c_comma dl0 ++ [c_rpar]) by (subst dl0; reflexivity).
      rewrite E in Hi. destruct Hi as [Hi|Hi]; [discriminate|]. apply in_app_or in Hi. destruct Hi as [Hi|[Hi|[]]]; [|discriminate].
      revert Hi. apply notin_join; [discriminate|]. eapply Forall_impl; [|exact Hok]. intros x Hx. exact (proj1 Hx). }
  assert (Hmid : forall bass, split_mid ((rt ++ colpart col) ++ degpart dl) bass false = Ok (rt, qual col (dedup dl), dedup dl, bass)).
  { intros bass. apply mid_build; [exact R40|exact R58| |destruct col; [discriminate|intros _; exact Hc]|exact Hok].
    intros q E. destruct (Hcol q E) as (_ & H1 & H2). split; assumption. }
  unfold split_rest. rewrite HN. unfold build. destruct bo as [b|]; cbn [basspart bassof].
  - cbn [basswf] in Hb. assert (Hb47 : ~ In c_slash b).
    { unfold h_degree in Hb. apply (notin_lang _ _ _ Hb). reflexivity. }
    rewrite (has_in c_slash) by (apply in_or_app; right; left; reflexivity).
    rewrite split_on_app by exact Hpre. rewrite split_on_free by exact Hb47. cbn [two bind]. apply Hmid.
  - rewrite app_nil_r. rewrite (has_false _ _ Hpre). cbn [bind]. apply Hmid. Qed.

Lemma split_build rt col dl bo : wf rt col dl bo ->
  split (build rt col dl bo) false = Ok (rt, qual col (dedup dl), dedup dl, bassof bo).
Proof. intros H. rewrite split_unfold.
  assert (Ev : validate_label (build rt col dl bo) = Ok tt) by (apply validate_label_iff_harte, build_lang; exact H).
  rewrite Ev. cbn [bind]. apply rest_build. exact H. Qed.

(* ---------- join produces a canonical label ---------- *)
Definition jstr (rt quality : str) (exts : list str) (bass : str) : str :=
  let l := rt in
  let l := match quality, exts with [], [] => l | _, _ => l ++ c_colon :: quality end in
  let l := match exts with [] => l | _ => l ++ c_lpar :: join_with c_comma exts ++ [c_rpar] end in
  match bass with [] => l | _ => if seqb bass s_one then l else l ++ c_slash :: bass end.
Lemma join_unfold rt q ds b : join rt q ds b = (_ <- validate_label (jstr rt q ds b) ;; Ok (jstr rt q ds b)).
Proof. reflexivity. Qed.
Definition jcol (q : str) (ds : list str) : option str := match q, ds with [], [] => None | _, _ => Some q end.
Definition jbass (b : str) : option str := if seqb b s_one then None else Some b.
Lemma jstr_build rt q ds b : b <> [] -> jstr rt q ds b = build rt (jcol q ds) ds (jbass b).
Proof. intros Hb. unfold jstr, build, jcol, jbass. destruct b as [|b0 b']; [congruence|]. cbv zeta.
  destruct (seqb (b0 :: b') s_one); destruct q as [|q0 q']; destruct ds as [|d l]; cbn [colpart degpart basspart];
    rewrite ?app_nil_r; reflexivity. Qed.

(* ---------- encode after split ---------- *)
Definition degstep0 (acc : res (list Z)) (d : str) : res (list Z) :=
  a <- acc ;; e <- scale_degree_to_bitmap d false ;; Ok (vadd a e).
Definition enc_tail (rt quality : str) (degs : list str) (bass : str) (strict : bool) : res enc :=
  (root <- pitch_class_to_semitone rt ;;
   b <- scale_degree_to_semitone bass ;; let bassn := b mod 12 in
   bm <- quality_to_bitmap quality ;;
   let bm := setnth bm 0%nat 1 in
   bm <- fold_left degstep0 degs (Ok bm) ;;
   let bm := map (fun x => if 0 <? x then 1 else 0) bm in
   if (nth (Z.to_nat bassn) bm 0 =? 0) && strict then Raise InvalidChord
   else Ok (root, setnth bm (Z.to_nat bassn) 1, bassn))%Z.

Lemma encode_build rt col dl bo strict : wf rt col dl bo ->
  encode (build rt col dl bo) false strict = enc_tail rt (qual col (dedup dl)) (dedup dl) (bassof bo) strict.
Proof. intros H. destruct (build_head rt col dl bo (proj1 H)) as [HN HX].
  unfold encode. rewrite HN, HX, (split_build _ _ _ _ H). reflexivity. Qed.

Lemma vadd_swap : forall a e1 e2, vadd (vadd a e1) e2 = vadd (vadd a e2) e1.
Proof. induction a as [|x a IH]; intros e1 e2; [reflexivity|].
  destruct e1 as [|y1 e1]; destruct e2 as [|y2 e2]; cbn [vadd]; try reflexivity.
  f_equal; [lia|apply IH]. Qed.
Lemma degstep_swap acc x y : degstep0 (degstep0 acc x) y = degstep0 (degstep0 acc y) x.
Proof. destruct acc as [a|e]; [|reflexivity].
  destruct (sdb_okic x false) as [[e1 E1]|E1]; destruct (sdb_okic y false) as [[e2 E2]|E2];
    unfold degstep0; repeat (rewrite ?E1, ?E2; cbn [bind]); try reflexivity.
  rewrite vadd_swap. reflexivity. Qed.
Lemma fold_left_perm {A B} (f : A -> B -> A) : (forall a x y, f (f a x) y = f (f a y) x) ->
  forall l l', Permutation l l' -> forall a, fold_left f l a = fold_left f l' a.
Proof. intros Hf l l' HP. induction HP as [|x l l' HP IH|x y l|l l' l'' HP1 IH1 HP2 IH2]; intros a; cbn [fold_left].
  - reflexivity.
  - apply IH.
  - rewrite Hf. reflexivity.
  - rewrite IH1. apply IH2. Qed.
Lemma enc_tail_perm rt q ds ds' b strict : Permutation ds ds' -> enc_tail rt q ds b strict = enc_tail rt q ds' b strict.
Proof. intros HP. unfold enc_tail.
  destruct (pitch_class_to_semitone rt) as [root|e]; cbn [bind]; [|reflexivity].
  destruct (scale_degree_to_semitone b) as [bv|e]; cbn [bind]; [|reflexivity].
  destruct (quality_to_bitmap q) as [bm|e]; cbn [bind]; [|reflexivity]. cbv zeta.
  rewrite (fold_left_perm degstep0 degstep_swap ds ds' HP). reflexivity. Qed.

(* ---------- the theorems ---------- *)
(* the label "X" really has to be excluded *)
Theorem split_join_X_counterexample :
  split X_CHORD false = Ok (X_CHORD, s_maj, [], s_one) /\ join X_CHORD s_maj [] s_one = Raise InvalidChord.
Proof. split; vm_compute; reflexivity. Qed.

Theorem split_join_roundtrip : forall (s : str) (strict : bool) rt q ds b,
  split s false = Ok (rt, q, ds, b) -> seqb s NO_CHORD = false -> seqb s X_CHORD = false ->
  forall ds', Permutation ds ds' ->      (* Python iterates a set: any order *)
  exists s', join rt q ds' b = Ok s' /\ encode s' false strict = encode s false strict.
Proof. intros s strict rt q ds b Hs HN HX ds' HP.
  rewrite split_unfold in Hs. destruct (validate_label s) as [[]|e] eqn:Ev; cbn [bind] in Hs; [|discriminate].
  apply validate_label_iff_harte in Ev. destruct (harte_inv s Ev HN HX) as (rt0 & col & dl & bo & Hwf & ->).
  rewrite (rest_build _ _ _ _ Hwf) in Hs. injection Hs as <- <- <- <-.
  destruct Hwf as (Hrt & Hc & Hd & Hb).
  (* the parts handed to join *)
  assert (Hnd : NoDup ds') by (apply (Permutation_NoDup HP), dedup_NoDup).
  assert (Hd' : Forall (lang h_deg_item) ds').
  { rewrite Forall_forall in *. intros x Hx. apply Hd. apply (proj1 (dedup_In dl x)). apply (Permutation_in x (Permutation_sym HP)). exact Hx. }
  assert (Hnil : ds' = [] -> dl = []).
  { intros ->. apply Permutation_sym, Permutation_nil in HP. apply dedup_nil. exact HP. }
  assert (Hbne : bassof bo <> []).
  { destruct bo as [b|]; cbn [bassof]; [|discriminate]. cbn [basswf] in Hb. intros ->.
    unfold h_degree in Hb. apply lang_Cat in Hb. destruct Hb as (s1 & s2 & E & _ & H2).
    symmetry in E. apply app_eq_nil in E. destruct E as [_ ->]. unfold h_degnum in H2. apply lang_Alt in H2. destruct H2 as [H2|H2].
    - apply lang_oneof in H2. destruct H2 as (x & _ & E). discriminate.
    - apply lang_Cat in H2. destruct H2 as (t1 & t2 & E & H1 & _). apply lang_Chr in H1. subst t1. discriminate. }
  assert (Hq : (qual col (dedup dl) = [] /\ dl <> []) \/ (qual col (dedup dl) <> [] /\ lang h_shorthand (qual col (dedup dl)))).
  { destruct col as [q0|]; cbn [colwf qual] in *.
    - destruct Hc as [[-> Hn]|Hsh].
      + left. split; [|exact Hn]. unfold dflt. destruct (dedup dl) eqn:E; [apply dedup_nil in E; contradiction|reflexivity].
      + right. destruct (shorthand_facts q0 Hsh) as (Hne & Hlow & _). destruct q0 as [|c0 q0']; [congruence|].
        rewrite Hlow. split; [discriminate|exact Hsh].
    - subst dl. right. cbn [dedup dflt]. split; [discriminate|exact maj_shorthand]. }
  set (q := qual col (dedup dl)) in *. set (b := bassof bo) in *.
  assert (Hcol' : jcol q ds' = Some q).
  { unfold jcol. destruct q as [|q0 q']; [|reflexivity]. destruct ds' as [|d l]; [|reflexivity].
    destruct Hq as [[_ Hn]|[Hn _]]; [exfalso; apply Hn, Hnil; reflexivity|congruence]. }
  assert (Hwf' : wf rt0 (jcol q ds') ds' (jbass b)).
  { split; [exact Hrt|]. split; [|split; [exact Hd'|]].
    - rewrite Hcol'. cbn [colwf]. destruct Hq as [[E Hn]|[_ Hsh]]; [left|right; exact Hsh].
      split; [exact E|]. intros E'. apply Hn, Hnil. exact E'.
    - unfold jbass. destruct (seqb b s_one) eqn:E; cbn [basswf]; [exact I|].
      subst b. destruct bo as [b1|]; cbn [bassof basswf] in *; [exact Hb|]. vm_compute in E. discriminate. }
  assert (Hsplit' : split (build rt0 (jcol q ds') ds' (jbass b)) false = Ok (rt0, q, ds', b)).
  { rewrite (split_build _ _ _ _ Hwf'). rewrite (dedup_id ds' Hnd). f_equal. f_equal; [f_equal; f_equal|].
    - rewrite Hcol'. cbn [qual]. destruct Hq as [[E Hn]|[Hn Hsh]].
      + rewrite E. unfold dflt. destruct ds' as [|d l]; [exfalso; apply Hn, Hnil; reflexivity|reflexivity].
      + destruct q as [|q0 q'] eqn:Eq; [congruence|]. exact (proj1 (proj2 (shorthand_facts _ Hsh))).
    - unfold jbass. destruct (seqb b s_one) eqn:E; cbn [bassof]; [|reflexivity]. apply seqb_true_iff in E. symmetry. exact E. }
  exists (build rt0 (jcol q ds') ds' (jbass b)). split.
  - rewrite join_unfold, (jstr_build _ _ _ _ Hbne).
    assert (Ev' : validate_label (build rt0 (jcol q ds') ds' (jbass b)) = Ok tt) by (apply validate_label_iff_harte, build_lang; exact Hwf').
    rewrite Ev'. reflexivity.
  - assert (Hwf0 : wf rt0 col dl bo) by (repeat split; assumption).
    rewrite (encode_build _ _ _ _ strict Hwf0). fold q b.
    destruct (build_head rt0 (jcol q ds') ds' (jbass b) Hrt) as [HN' HX'].
    unfold encode at 1. rewrite HN', HX', Hsplit'. symmetry. apply enc_tail_perm. exact HP. Qed.

Print Assumptions split_join_roundtrip.
