(* Properties of the whole chord.evaluate pipeline (Model/ChordPipeline.v):
     (b) C06  overseg_underseg_swap, seg_symmetric (on Ok results; the error ORDER differs: seg_error_order_refuted)
     (c) C01  dhd_range, overseg/underseg/seg_range, chord_evaluate_range (every finite score lies in [0,1])
     (a) C02  chord_evaluate_self
     (e) C08  chord_evaluate_shift
     (d) C09  chord_evaluate_transpose
   All statements are about the executable model; constructive, no axioms. *)
From Coq Require Import List Bool Arith ZArith QArith Qminmax Qabs Lia Lqa.
From ME Require Import Model.Prelude Model.Regex Model.Intervals Model.ChordParse Model.ChordCmp Model.ChordScore Model.ChordPipeline
  Gen.ChordTables.
From ME Require Import Proofs.RegexLang Proofs.ChordRegex Proofs.ChordTotal Proofs.ChordRoundTrip.
From ME Require Import Proofs.ChordLattice Proofs.ChordSound Proofs.ChordTranspose.
From ME Require Import Proofs.ChordScoreProps Proofs.IntervalsBase Proofs.IntervalsMerge Proofs.IntervalsAdjust Proofs.SplitInvariance.
Import ListNotations.
Open Scope Q_scope.

Ltac bind_inv H :=
  match type of H with bind ?x _ = Ok _ => let E := fresh "E" in destruct x eqn:E; cbn [bind] in H; [|discriminate H] end.
Tactic Notation "bind_invp" hyp(H) "as" simple_intropattern(p) :=
  match type of H with bind ?x _ = Ok _ => let E := fresh "E" in destruct x as [p|] eqn:E; cbn [bind] in H; [|discriminate H] end.

(* ====================================================================================================== *)
(* generalities                                                                                           *)
(* ====================================================================================================== *)
Lemma existsb_false {A} (p : A -> bool) l : existsb p l = false -> forall x, In x l -> p x = false.
Proof.
  intros H x Hx. destruct (p x) eqn:E; [|reflexivity].
  assert (T : existsb p l = true) by (apply existsb_exists; eauto). congruence.
Qed.
Lemma existsb_false_intro {A} (p : A -> bool) l : (forall x, In x l -> p x = false) -> existsb p l = false.
Proof.
  intros H. destruct (existsb p l) eqn:E; [|reflexivity]. apply existsb_exists in E. destruct E as (x & Hx & Px).
  rewrite (H x Hx) in Px. discriminate.
Qed.
Definition iv_ok (v : iv) : Prop := 0 <= fst v /\ 0 <= snd v /\ fst v < snd v.
Lemma validate_intervals_ok ivs : validate_intervals ivs = Ok tt <-> Forall iv_ok ivs.
Proof.
  unfold validate_intervals. split.
  - intros H. match type of H with (if ?b then _ else _) = _ => destruct b eqn:E1; [discriminate H|] end.
    match type of H with (if ?b then _ else _) = _ => destruct b eqn:E2; [discriminate H|] end.
    apply Forall_forall. intros v Hv. pose proof (existsb_false _ _ E1 v Hv) as A. pose proof (existsb_false _ _ E2 v Hv) as B.
    cbn beta in A, B. apply orb_false_iff in A. destruct A as [A1 A2]. qb. unfold iv_ok. auto.
  - intros H. rewrite Forall_forall in H.
    match goal with |- (if ?b then _ else _) = _ => replace b with false end.
    + match goal with |- (if ?b then _ else _) = _ => replace b with false; [reflexivity|] end.
      symmetry. apply existsb_false_intro. intros v Hv. destruct (H v Hv) as (_ & _ & C). apply qleb_false. exact C.
    + symmetry. apply existsb_false_intro. intros v Hv. destruct (H v Hv) as (A & B & _). apply orb_false_iff. split; apply qltb_false; assumption.
Qed.
Lemma validate_intervals_raises ivs e : validate_intervals ivs = Raise e -> e = ValueError.
Proof.
  unfold validate_intervals. intros H.
  match type of H with (if ?b then _ else _) = _ => destruct b; [congruence|] end.
  match type of H with (if ?b then _ else _) = _ => destruct b; congruence end.
Qed.

Lemma overlaps_false_chain : forall l, Forall (fun v : iv => fst v < snd v) l -> overlaps l = false -> chain l.
Proof.
  induction l as [|a [|b t] IH]; intros Hp Ho; [exact I| |].
  - inversion Hp; subst. cbn. repeat split; auto. lra.
  - inversion Hp as [|? ? Ha Hp']; subst. change (overlaps (a :: b :: t)) with (qltb (fst b) (snd a) || overlaps (b :: t)) in Ho.
    apply orb_false_iff in Ho. destruct Ho as [H1 H2]. qb. split; [lra|]. split; [exact H1|]. apply IH; assumption.
Qed.
Lemma chain_overlaps_false : forall l, chain l -> overlaps l = false.
Proof.
  induction l as [|a [|b t] IH]; intros Hc; [reflexivity|reflexivity|].
  destruct Hc as (_ & H1 & H2). change (overlaps (a :: b :: t)) with (qltb (fst b) (snd a) || overlaps (b :: t)).
  apply orb_false_iff. split; [apply qltb_false; exact H1|apply IH; exact H2].
Qed.
Lemma last_cons_indep {A} : forall (l : list A) a d1 d2, last (a :: l) d1 = last (a :: l) d2.
Proof. induction l as [|b t IH]; intros a d1 d2; [reflexivity|]. change (last (b :: t) d1 = last (b :: t) d2). apply IH. Qed.

(* ====================================================================================================== *)
(* directional_hamming_distance lies in [0, 1]                                                            *)
(* ====================================================================================================== *)
Fixpoint incr (a : Q) (l : list Q) : Prop := match l with [] => True | b :: t => a <= b /\ incr b t end.
Lemma diffs_sum : forall l a, qsum (diffs a l) == last l a - a.
Proof.
  induction l as [|b t IH]; intros a; cbn [diffs].
  - cbn. lra.
  - rewrite qsum_cons, IH. destruct t as [|c t']; [cbn; lra|].
    change (last (b :: c :: t') a) with (last (c :: t') a). rewrite (last_cons_indep t' c b a). lra.
Qed.
Lemma diffs_nonneg : forall l a, incr a l -> Forall (fun x => 0 <= x) (diffs a l).
Proof. induction l as [|b t IH]; intros a H; cbn [diffs]; [constructor|]. destruct H as [H1 H2]. constructor; [lra|auto]. Qed.
Lemma incr_app_end : forall l s e, ssorted l -> Forall (fun t => s <= t /\ t <= e) l -> s <= e -> incr s (l ++ [e]).
Proof.
  induction l as [|x r IH]; intros s e Hs Hf Hse; cbn [app incr].
  - split; [exact Hse|exact I].
  - inversion Hf as [|? ? [Hx1 Hx2] Hr]; subst. destruct Hs as [Hs1 Hs2]. split; [exact Hx1|]. apply IH; auto.
    rewrite Forall_forall in *. intros t Ht. specialize (Hr t Ht). specialize (Hs1 t Ht). cbn beta in *. split; lra.
Qed.
Lemma ssorted_filter p : forall l, ssorted l -> ssorted (filter p l).
Proof.
  induction l as [|x r IH]; intros Hs; [exact I|]. destruct Hs as [H1 H2]. cbn [filter]. destruct (p x); [|auto].
  split; [|auto]. rewrite Forall_forall in *. intros y Hy. apply filter_In in Hy. apply H1, Hy.
Qed.
Lemma elem_le_qsum l : Forall (fun x => 0 <= x) l -> forall y, In y l -> y <= qsum l.
Proof.
  induction 1 as [|x l Hx Hl IH]; intros y Hy; [destruct Hy|]. rewrite qsum_cons. destruct Hy as [<-|Hy].
  - apply qsum_nonneg in Hl. lra.
  - specialize (IH y Hy). lra.
Qed.
Lemma max_piece_bounds ts s e : ssorted ts -> s <= e -> 0 <= max_piece ts s e /\ max_piece ts s e <= e - s.
Proof.
  intros Hs Hse. unfold max_piece. set (pts := filter _ ts).
  assert (Hinc : incr s (pts ++ [e])).
  { apply incr_app_end; [apply ssorted_filter; exact Hs| |exact Hse]. apply Forall_forall. intros t Ht. apply filter_In in Ht.
    destruct Ht as [_ Ht]. apply andb_true_iff in Ht. destruct Ht as [A B]. qb. split; lra. }
  pose proof (diffs_nonneg _ _ Hinc) as Hnn. pose proof (diffs_sum (pts ++ [e]) s) as Hsum. rewrite last_last in Hsum.
  destruct (diffs s (pts ++ [e])) as [|d ds] eqn:Ed.
  - rewrite qsum_nil in Hsum. lra.
  - destruct (fold_max_spec ds d) as [Hm [Hge Hall]]. cbv zeta in *. set (m := fold_left Qmax ds d) in *.
    assert (Hin : exists y, In y (d :: ds) /\ m == y).
    { destruct Hm as [Hm|[y [Hy Hm]]]; [exists d|exists y]; cbn [In]; auto. }
    destruct Hin as [y [Hy Hm']]. pose proof (elem_le_qsum _ Hnn y Hy) as Hle. rewrite Forall_forall in Hnn. specialize (Hnn y Hy).
    cbn beta in Hnn. lra.
Qed.

Definition dur_of (v : iv) : Q := snd v - fst v.
Lemma seg_bounds ts : ssorted ts -> forall ref, Forall (fun v : iv => fst v < snd v) ref ->
  0 <= qsum (map (fun v : iv => (snd v - fst v) - max_piece ts (fst v) (snd v)) ref) /\
  qsum (map (fun v : iv => (snd v - fst v) - max_piece ts (fst v) (snd v)) ref) <= qsum (map dur_of ref).
Proof.
  intros Hs. induction 1 as [|v ref Hv Hr IH]; cbn [map]; [rewrite !qsum_nil; lra|]. rewrite !qsum_cons. unfold dur_of at 1.
  destruct (max_piece_bounds ts (fst v) (snd v) Hs ltac:(lra)) as [A B]. lra.
Qed.
Lemma span_bounds : forall r r0, Forall (fun v : iv => fst v < snd v) (r0 :: r) -> chain (r0 :: r) ->
  dur_of r0 <= qsum (map dur_of (r0 :: r)) /\ qsum (map dur_of (r0 :: r)) <= snd (last (r0 :: r) r0) - fst r0.
Proof.
  induction r as [|b t IH]; intros r0 Hp Hc.
  - cbn [map last]. rewrite qsum_cons, qsum_nil. unfold dur_of. lra.
  - inversion Hp as [|? ? H0 Hp']; subst. destruct Hc as (_ & H1 & H2). destruct (IH b Hp' H2) as [A B].
    change (last (r0 :: b :: t) r0) with (last (b :: t) r0). rewrite (last_cons_indep t b r0 b).
    change (map dur_of (r0 :: b :: t)) with (dur_of r0 :: map dur_of (b :: t)). rewrite qsum_cons.
    inversion Hp' as [|? ? Hb _]; subst. unfold dur_of in *. lra.
Qed.

(* C01 for the segmentation distance: whenever it returns, the value is a finite number in [0, 1] *)
Theorem dhd_range ref est x : directional_hamming_distance ref est = Ok x -> exists q, x = Fin q /\ 0 <= q /\ q <= 1.
Proof.
  unfold directional_hamming_distance. intros H.
  destruct (validate_intervals est) as [[]|] eqn:E; cbn [bind] in H; [|discriminate H].
  destruct (validate_intervals ref) as [[]|] eqn:E0; cbn [bind] in H; [|discriminate H].
  destruct (overlaps ref) eqn:Eo; [discriminate H|].
  destruct ref as [|r0 r]; [discriminate H|]. apply validate_intervals_ok in E0.
  assert (Hp : Forall (fun v : iv => fst v < snd v) (r0 :: r)).
  { eapply Forall_impl; [|exact E0]. intros v (_ & _ & C). exact C. }
  pose proof (overlaps_false_chain _ Hp Eo) as Hc. destruct (span_bounds r r0 Hp Hc) as [S1 S2].
  destruct (sort_uniq_spec (flat est)) as [Hs _]. destruct (seg_bounds _ Hs _ Hp) as [G1 G2].
  inversion Hp as [|? ? H0 _]; subst. change (dur_of r0) with (snd r0 - fst r0) in S1.
  set (sg := qsum (map (fun v : iv => (snd v - fst v) - max_piece (sort_uniq (flat est)) (fst v) (snd v)) (r0 :: r))) in *.
  set (span := snd (last (r0 :: r) r0) - fst r0) in *.
  change (Ok (xdiv sg span) = Ok x) in H. assert (Hx : x = xdiv sg span) by congruence. clear H. subst x.
  assert (Hspan : 0 < span) by lra. unfold xdiv, qeqb.
  destruct (Qeq_bool span 0) eqn:Ez; [apply Qeq_bool_iff in Ez; lra|]. eexists. split; [reflexivity|].
  apply div_bounds; try lra.
Qed.
Example dhd_range_ex : exists q, directional_hamming_distance [(0, 2); (2, 4)] [(0, 1); (1, 4)] = Ok (Fin q) /\ q == 1 # 4.
Proof. eexists. split; [vm_compute; reflexivity|reflexivity]. Qed.

Lemma one_minus_range x : (exists q, x = Fin q /\ 0 <= q /\ q <= 1) -> exists q, xone_minus x = Fin q /\ 0 <= q /\ q <= 1.
Proof. intros (q & -> & A & B). exists (1 - q). cbn. repeat split; lra. Qed.
Lemma py_min_range x y : (exists q, x = Fin q /\ 0 <= q /\ q <= 1) -> (exists q, y = Fin q /\ 0 <= q /\ q <= 1) ->
  exists q, py_min x y = Fin q /\ 0 <= q /\ q <= 1.
Proof. intros (p & -> & A & B) (q & -> & C & D). unfold py_min. cbn [xltb]. destruct (qltb q p); eauto. Qed.
Theorem overseg_range a b x : overseg a b = Ok x -> exists q, x = Fin q /\ 0 <= q /\ q <= 1.
Proof. unfold overseg. intros H. bind_inv H. injection H as <-. apply one_minus_range. eapply dhd_range; eauto. Qed.
Theorem underseg_range a b x : underseg a b = Ok x -> exists q, x = Fin q /\ 0 <= q /\ q <= 1.
Proof. unfold underseg. intros H. bind_inv H. injection H as <-. apply one_minus_range. eapply dhd_range; eauto. Qed.
Theorem seg_range a b x : seg a b = Ok x -> exists q, x = Fin q /\ 0 <= q /\ q <= 1.
Proof.
  unfold seg. intros H. bind_inv H. bind_inv H. injection H as <-.
  apply py_min_range; [eapply underseg_range|eapply overseg_range]; eauto.
Qed.

(* ====================================================================================================== *)
(* (b) C06: exchanging the two annotations                                                                *)
(* ====================================================================================================== *)
(* definitional, exceptions included: overseg(ref, est) = 1 - dhd(ref, est) = underseg(est, ref) *)
Theorem overseg_underseg_swap a b : overseg a b = underseg b a.
Proof. reflexivity. Qed.
Theorem underseg_overseg_swap a b : underseg a b = overseg b a.
Proof. reflexivity. Qed.

Lemma py_min_comm_fin p q : xeq (py_min (Fin p) (Fin q)) (py_min (Fin q) (Fin p)).
Proof.
  unfold py_min. cbn [xltb]. destruct (qltb q p) eqn:E1, (qltb p q) eqn:E2; cbn [xeq]; qb; lra.
Qed.
(* seg(a, b) and seg(b, a): both return or both raise, and the returned values are equal.  (The two calls evaluate
   dhd(b, a) and dhd(a, b) in opposite orders, so when both directions are invalid the exception CLASS can differ:
   seg_error_order_refuted.) *)
Theorem seg_symmetric a b :
  match seg a b, seg b a with Ok x, Ok y => xeq x y | Raise _, Raise _ => True | _, _ => False end.
Proof.
  unfold seg, underseg, overseg.
  destruct (directional_hamming_distance b a) as [x|e1] eqn:E1, (directional_hamming_distance a b) as [y|e2] eqn:E2; cbn [bind]; auto.
  destruct (dhd_range _ _ _ E1) as (p & -> & _). destruct (dhd_range _ _ _ E2) as (q & -> & _). cbn [xone_minus].
  apply py_min_comm_fin.
Qed.
Corollary seg_symmetric_ok a b x : seg a b = Ok x -> exists y, seg b a = Ok y /\ xeq x y.
Proof. intros H. pose proof (seg_symmetric a b) as S. rewrite H in S. destruct (seg b a) as [y|]; [eauto|contradiction]. Qed.
Example seg_symmetric_ex : exists p q, seg [(0, 2); (2, 4)] [(0, 1); (1, 4)] = Ok (Fin p) /\ seg [(0, 1); (1, 4)] [(0, 2); (2, 4)] = Ok (Fin q)
                                       /\ p == 3 # 4 /\ q == 3 # 4.
Proof. do 2 eexists. split; [vm_compute; reflexivity|]. split; [vm_compute; reflexivity|]. split; reflexivity. Qed.
(* an empty (0,2) array against overlapping intervals: ValueError one way round, IndexError the other *)
Theorem seg_error_order_refuted : exists a b, seg a b = Raise ValueError /\ seg b a = Raise IndexError.
Proof. exists [], [(0, 2); (1, 3)]. split; vm_compute; reflexivity. Qed.

(* ====================================================================================================== *)
(* inversion of the pipeline                                                                              *)
(* ====================================================================================================== *)
Definition acc_of (encs : list (cenc * cenc)) (durations : list Q) (c : cenc -> cenc -> Z) : res xval :=
  wa (map (fun x => c (fst x) (snd x)) encs) durations.
Lemma chord_scores_inv ri rl ei el l : chord_scores ri rl ei el = Ok l ->
  exists mr me ivs rl2 el2 durations encs accs du dov,
    merge_chord_intervals ri rl = Ok mr /\ merge_chord_intervals ei el = Ok me /\
    merge_labeled_intervals ri rl ei el = Ok (ivs, rl2, el2) /\ intervals_to_durations ivs = Ok durations /\
    encode_pairs rl2 el2 = Ok encs /\ mapM (acc_of encs durations) rules = Ok accs /\
    dhd_arrays me mr = Ok du /\ dhd_arrays mr me = Ok dov /\
    l = accs ++ [xone_minus du; xone_minus dov; py_min (xone_minus dov) (xone_minus du)].
Proof.
  unfold chord_scores. intros H. bind_inv H. bind_inv H. bind_invp H as [[ivs rl2] el2].
  bind_inv H. bind_inv H. bind_inv H. bind_inv H. bind_inv H. injection H as <-.
  do 10 eexists. repeat split; try eassumption; reflexivity.
Qed.
Lemma chord_evaluate_inv ri rl ei el l : chord_evaluate ri rl ei el = Ok l ->
  exists tmin tmax ei' el', qmin_list (flat ri) = Some tmin /\ qmax_list (flat ri) = Some tmax /\
    adjust_intervals NO_CHORD NO_CHORD ei (Some el) (Some tmin) (Some tmax) = Ok (ei', Some el') /\
    chord_scores ri rl ei' el' = Ok l.
Proof.
  unfold chord_evaluate. intros H. destruct (qmin_list (flat ri)) as [tmin|]; [|discriminate H].
  destruct (qmax_list (flat ri)) as [tmax|]; [|discriminate H]. bind_invp H as [ei' oel]. destruct oel as [el'|]; cbn [fst snd] in H; [|discriminate H].
  exists tmin, tmax, ei', el'. auto.
Qed.
Lemma dhd_arrays_inv a b x : dhd_arrays a b = Ok x -> directional_hamming_distance a b = Ok x.
Proof. unfold dhd_arrays. intros H. destruct b, a; try discriminate H; auto. Qed.
Lemma mapM_In_r {A B} (f : A -> res B) : forall l r, mapM f l = Ok r -> forall y, In y r -> exists x, In x l /\ f x = Ok y.
Proof.
  intros l r H. apply mapM_ok in H. induction H as [|x y l r Hxy H IH]; intros z Hz; [destruct Hz|].
  destruct Hz as [<-|Hz]; [exists x; split; [now left|exact Hxy]|]. destruct (IH z Hz) as (x' & Hx' & E). exists x'. split; [now right|exact E].
Qed.

(* ====================================================================================================== *)
(* (c) C01: every finite score of chord.evaluate lies in [0, 1]; the three segmentation scores are finite  *)
(* ====================================================================================================== *)
Definition in_unit (x : xval) : Prop := forall q, x = Fin q -> 0 <= q /\ q <= 1.
Lemma fin_unit x : (exists q, x = Fin q /\ 0 <= q /\ q <= 1) -> in_unit x.
Proof. intros (q & -> & A & B) q' [= <-]. auto. Qed.
Lemma acc_of_range encs durations c a : In c rules -> acc_of encs durations c = Ok a -> in_unit a.
Proof.
  intros Hc H q ->. unfold acc_of in H. eapply wa_range; [|exact H]. apply Forall_forall. intros z Hz.
  apply in_map_iff in Hz. destruct Hz as (x & <- & _). apply cmp_values. exact Hc.
Qed.
Theorem chord_scores_range ri rl ei el l : chord_scores ri rl ei el = Ok l -> length l = 15%nat /\ Forall in_unit l.
Proof.
  intros H. apply chord_scores_inv in H.
  destruct H as (mr & me & ivs & rl2 & el2 & durations & encs & accs & du & dov & _ & _ & _ & _ & _ & Ha & Hu & Ho & ->).
  apply dhd_arrays_inv, dhd_range in Hu. apply dhd_arrays_inv, dhd_range in Ho. split.
  - rewrite app_length. apply mapM_length in Ha. rewrite Ha. reflexivity.
  - apply Forall_app. split.
    + apply Forall_forall. intros a Hin. destruct (mapM_In_r _ _ _ Ha a Hin) as (c & Hc & E). eapply acc_of_range; eauto.
    + apply one_minus_range in Hu. apply one_minus_range in Ho.
      constructor; [apply fin_unit; exact Hu|]. constructor; [apply fin_unit; exact Ho|]. constructor; [|constructor].
      apply fin_unit. apply py_min_range; auto.
Qed.
Theorem chord_evaluate_range ri rl ei el l : chord_evaluate ri rl ei el = Ok l -> length l = 15%nat /\ Forall in_unit l.
Proof. intros H. apply chord_evaluate_inv in H. destruct H as (tmin & tmax & ei' & el' & _ & _ & _ & H). eapply chord_scores_range; eauto. Qed.
(* ... and the last three (underseg, overseg, seg) are always finite *)
Theorem chord_evaluate_seg_finite ri rl ei el l : chord_evaluate ri rl ei el = Ok l ->
  exists accs u o s, l = accs ++ [Fin u; Fin o; Fin s] /\ length accs = 12%nat /\ 0 <= u <= 1 /\ 0 <= o <= 1 /\ 0 <= s <= 1.
Proof.
  intros H. apply chord_evaluate_inv in H. destruct H as (tmin & tmax & ei' & el' & _ & _ & _ & H). apply chord_scores_inv in H.
  destruct H as (mr & me & ivs & rl2 & el2 & durations & encs & accs & du & dov & _ & _ & _ & _ & _ & Ha & Hu & Ho & ->).
  apply dhd_arrays_inv, dhd_range, one_minus_range in Hu. apply dhd_arrays_inv, dhd_range, one_minus_range in Ho.
  destruct (py_min_range _ _ Ho Hu) as (s & Es & S1 & S2). destruct Hu as (u & Eu & U1 & U2). destruct Ho as (o & Eo & O1 & O2).
  exists accs, u, o, s. rewrite Es, Eu, Eo. apply mapM_length in Ha. repeat split; auto.
Qed.
Example chord_evaluate_range_ex :       (* C | G  against  C | A:min *)
  exists l, chord_evaluate [(0, 2); (2, 4)] [[67]; [71]]%nat [(0, 1); (1, 4)] [[67]; [65; 58; 109; 105; 110]]%nat = Ok l.
Proof. eexists. vm_compute. reflexivity. Qed.


(* ====================================================================================================== *)
(* (a) C02: an annotation scored against an exact copy of itself                                          *)
(* ====================================================================================================== *)
(* ---- Leibniz facts: Qmax / Qmin return one of their arguments *)
Lemma qmax_le' t z : le' t z -> Qmax t z = z.
Proof. intros [h| ->]; [apply qmax_r_eq; exact h|]. unfold Qmax, GenericMinMax.gmax. rewrite qcmp_refl. reflexivity. Qed.
Lemma qmin_le' t z : le' z t -> Qmin t z = z.
Proof. intros [h| ->]; [apply qmin_r_eq; exact h|]. unfold Qmin, GenericMinMax.gmin. rewrite qcmp_refl. reflexivity. Qed.
Lemma map_clip_lo_id t : forall ivs : list iv, Forall (fun v : iv => le' t (fst v) /\ le' t (snd v)) ivs ->
  map (fun i : Q * Q => (Qmax t (fst i), Qmax t (snd i))) ivs = ivs.
Proof. induction 1 as [|[a b] l [H1 H2] _ IH]; cbn [map fst snd] in *; [reflexivity|]. rewrite IH, !qmax_le' by assumption. reflexivity. Qed.
Lemma map_clip_hi_id t : forall ivs : list iv, Forall (fun v : iv => le' (fst v) t /\ le' (snd v) t) ivs ->
  map (fun i : Q * Q => (Qmin t (fst i), Qmin t (snd i))) ivs = ivs.
Proof. induction 1 as [|[a b] l [H1 H2] _ IH]; cbn [map fst snd] in *; [reflexivity|]. rewrite IH, !qmin_le' by assumption. reflexivity. Qed.
Lemma find_idx_none_intro {A} (p : A -> bool) : forall l, (forall x, In x l -> p x = false) -> find_idx p l = None.
Proof.
  induction l as [|x l IH]; intros H; [reflexivity|]. cbn [find_idx]. rewrite (H x (or_introl eq_refl)), IH; [reflexivity|].
  intros y Hy. apply H. now right.
Qed.
Lemma ordered_app_last : forall p l, ordered (p ++ [l]) -> Forall (fun v : iv => snd v <= fst l) p.
Proof.
  induction p as [|a p IH]; intros l H; [constructor|]. cbn [app ordered] in H. destruct H as (H1 & H2 & H3).
  constructor; [|apply IH; exact H3]. apply Forall_app in H2. destruct H2 as [_ H2]. inversion H2; auto.
Qed.
Lemma valid_times_lt p l : valid_ivs (p ++ [l]) -> forall y, In y (flat p ++ [fst l]) -> y < snd l.
Proof.
  intros [Ho Hp] y Hy. pose proof (ordered_app_last p l Ho) as Hl. apply Forall_app in Hp. destruct Hp as [Hp Hl'].
  inversion Hl' as [|? ? Hpl _]; subst. rewrite Forall_forall in Hl, Hp. apply in_app_or in Hy. destruct Hy as [Hy|[<-|[]]]; [|exact Hpl].
  apply in_flat in Hy. destruct Hy as (v & Hv & [-> | ->]); specialize (Hl v Hv); specialize (Hp v Hv); cbn beta in *; lra.
Qed.
Lemma valid_times_le' p l : valid_ivs (p ++ [l]) -> Forall (fun v : iv => le' (fst v) (snd l) /\ le' (snd v) (snd l)) (p ++ [l]).
Proof.
  intros H. apply Forall_app. split.
  - apply Forall_forall. intros v Hv. split; left; apply (valid_times_lt p l H); apply in_or_app; left; apply in_flat; exists v; auto.
  - constructor; [|constructor]. split; [left|right; reflexivity]. apply (valid_times_lt p l H). apply in_or_app. right. now left.
Qed.
Lemma valid_times_ge' v0 r : valid_ivs (v0 :: r) -> Forall (fun v : iv => le' (fst v0) (fst v) /\ le' (fst v0) (snd v)) (v0 :: r).
Proof.
  intros [Ho Hp]. destruct Ho as (H1 & H2 & H3). inversion Hp as [|? ? P0 Pr]; subst. constructor.
  - split; [right; reflexivity|left; exact P0].
  - rewrite Forall_forall in *. intros w Hw. specialize (H2 w Hw). specialize (Pr w Hw). cbn beta in *. split; left; lra.
Qed.
Lemma fold_min_first : forall t x, (forall y, In y t -> x <= y) -> fold_left Qmin t x = x.
Proof.
  induction t as [|a t IH]; intros x H; [reflexivity|]. cbn [fold_left]. rewrite (qmin_l_eq x a) by (apply H; now left).
  apply IH. intros y Hy. apply H. now right.
Qed.
Lemma self_tmin v0 r : valid_ivs (v0 :: r) -> qmin_list (flat (v0 :: r)) = Some (fst v0).
Proof.
  intros H. pose proof (valid_times_ge' v0 r H) as Hge. cbn [flat flat_map app qmin_list]. f_equal. apply fold_min_first.
  intros y Hy. assert (Hy' : In y (flat (v0 :: r))) by (cbn [flat flat_map app In]; right; exact Hy).
  apply in_flat in Hy'. destruct Hy' as (w & Hw & Hyw). rewrite Forall_forall in Hge. destruct (Hge w Hw) as [A B].
  destruct Hyw as [-> | ->]; apply le'_le; assumption.
Qed.
Lemma self_tmax p l : valid_ivs (p ++ [l]) -> qmax_list (flat (p ++ [l])) = Some (snd l).
Proof.
  intros H. pose proof (valid_times_lt p l H) as Hlt. rewrite flat_app. change (flat [l]) with ([fst l] ++ [snd l]). rewrite app_assoc.
  destruct (flat p ++ [fst l]) as [|x t] eqn:E; [destruct (flat p); discriminate E|]. cbn [app qmax_list]. f_equal.
  rewrite fold_left_app. cbn [fold_left]. apply qmax_r_eq. destruct (fold_max_spec t x) as [Hm _]. cbv zeta in Hm.
  destruct Hm as [Hm|[y [Hy Hm]]]; rewrite Hm; apply Hlt; cbn [In]; auto.
Qed.

Lemma step_min_self (N : str) v0 r (labs : list str) : valid_ivs (v0 :: r) ->
  step_min N (fst v0) (v0 :: r) (Some labs) = Ok (v0 :: r, Some labs).
Proof.
  intros Hv. pose proof (valid_times_ge' v0 r Hv) as Hge. pose proof (self_tmin v0 r Hv) as Hmin. destruct Hv as [Ho Hp].
  inversion Hp as [|? ? Hp0 _]; subst.
  unfold step_min. cbn [find_idx]. assert (E1 : qltb (fst v0) (snd v0) = true) by (apply qltb_true; lra). rewrite E1.
  cbn [skipn option_map]. rewrite (map_clip_lo_id (fst v0) (v0 :: r) Hge), Hmin.
  assert (E2 : qltb (fst v0) (fst v0) = false) by (apply qltb_false; lra). rewrite E2. reflexivity.
Qed.
Lemma step_max_self (N : str) ivs p l (labs : list str) : ivs = p ++ [l] -> valid_ivs ivs ->
  step_max N (snd l) ivs (Some labs) = Ok (ivs, Some labs).
Proof.
  intros -> H. pose proof (valid_times_le' p l H) as Hle. unfold step_max.
  rewrite (find_idx_none_intro (fun i : Q * Q => Qle_bool (snd l) (fst i)) (p ++ [l])).
  - rewrite (map_clip_hi_id (snd l) (p ++ [l]) Hle), (self_tmax p l H).
    assert (E2 : qltb (snd l) (snd l) = false) by (apply qltb_false; lra). rewrite E2. reflexivity.
  - intros v Hv. apply qleb_false. destruct H as [Ho Hp]. rewrite Forall_forall in Hle, Hp. specialize (Hp v Hv).
    destruct (Hle v Hv) as [_ [A|A]]; [lra|]. rewrite <- A. exact Hp.
Qed.
(* adjust_intervals(est, t_min = ref.min(), t_max = ref.max()) leaves est = ref untouched *)
Theorem adjust_self (N : str) ivs (labs : list str) : valid_ivs ivs -> ivs <> [] ->
  exists tmin tmax, qmin_list (flat ivs) = Some tmin /\ qmax_list (flat ivs) = Some tmax /\
    adjust_intervals N N ivs (Some labs) (Some tmin) (Some tmax) = Ok (ivs, Some labs).
Proof.
  intros Hv Hne. destruct ivs as [|v0 r]; [congruence|]. destruct (@exists_last _ (v0 :: r) Hne) as (p & l & E).
  exists (fst v0), (snd l). split; [apply self_tmin; exact Hv|]. split; [rewrite E; apply self_tmax; rewrite <- E; exact Hv|].
  rewrite adjust_nonempty by exact Hne. cbn [stage1]. rewrite (step_min_self N v0 r labs Hv). cbn [bind fst snd stage2].
  apply (step_max_self N (v0 :: r) p l labs E Hv).
Qed.

(* ---- merge_chord_intervals keeps validity *)
Lemma fuse_valid : forall (rows : list (iv * enc)) prev cur, valid_ivs (cur :: map fst rows) ->
  valid_ivs (fuse prev cur rows) /\ Forall (fun w : iv => fst cur <= fst w) (fuse prev cur rows) /\ fuse prev cur rows <> [].
Proof.
  induction rows as [|[v e] r IH]; intros prev cur [Ho Hp]; cbn [fuse map fst] in *.
  - split; [split; assumption|]. split; [constructor; [lra|constructor]|discriminate].
  - destruct Ho as (O1 & O2 & O3 & O4 & O5). inversion O2 as [|? ? O2a O2b]; subst.
    inversion Hp as [|? ? P1 Hp']; subst. inversion Hp' as [|? ? P2 P3]; subst. destruct (enc_eqb e prev).
    + destruct (IH prev (fst cur, snd v)) as (A & B & C); [|auto].
      split; [cbn [ordered fst snd]; repeat split; auto; lra|]. constructor; [cbn [fst snd]; lra|exact P3].
    + destruct (IH e v) as ([A1 A2] & B & C); [split; [cbn [ordered]; auto|exact Hp']|].
      split; [split|split; [|discriminate]].
      * cbn [ordered]. repeat split; auto. eapply Forall_impl; [|exact B]. cbn beta. intros w Hw. lra.
      * constructor; assumption.
      * constructor; [lra|]. eapply Forall_impl; [|exact B]. cbn beta. intros w Hw. lra.
Qed.
Lemma fuse_rows_valid (ivs : list iv) (encs : list enc) : valid_ivs ivs -> ivs <> [] -> length encs = length ivs ->
  Forall (fun v : iv => 0 <= fst v) ivs ->
  let m := fuse_rows (combine ivs encs) in valid_ivs m /\ m <> [] /\ Forall (fun v : iv => 0 <= fst v) m.
Proof.
  intros Hv Hne Hl Hnn. cbv zeta. destruct ivs as [|v0 r]; [congruence|]. destruct encs as [|e0 es]; [discriminate Hl|].
  cbn [combine fuse_rows]. injection Hl as Hl. destruct (fuse_valid (combine r es) e0 v0) as (A & B & C).
  { rewrite map_fst_combine by exact Hl. exact Hv. }
  split; [exact A|]. split; [exact C|]. inversion Hnn; subst. eapply Forall_impl; [|exact B]. cbn beta. intros w Hw. lra.
Qed.

(* ---- dhd of a valid segmentation against itself is 0 *)
Lemma ordered_sep : forall l, ordered l -> forall v w, In v l -> In w l ->
  (fst w <= fst v \/ snd v <= fst w) /\ (snd w <= fst v \/ snd v <= snd w).
Proof.
  induction l as [|a r IH]; intros Ho v w Hv Hw; [destruct Hv|]. destruct Ho as (H1 & H2 & H3). rewrite Forall_forall in H2.
  destruct Hv as [<-|Hv], Hw as [<-|Hw].
  - split; [left|right]; lra.
  - pose proof (H2 w Hw). pose proof (ordered_in w r H3 Hw). split; right; lra.
  - pose proof (H2 v Hv). split; left; lra.
  - apply IH; assumption.
Qed.
Lemma filter_nil_intro {A} (p : A -> bool) : forall l, (forall y, In y l -> p y = false) -> filter p l = [].
Proof. induction l as [|x l IH]; intros H; [reflexivity|]. cbn [filter]. rewrite (H x (or_introl eq_refl)). apply IH. intros y Hy. apply H. now right. Qed.
Lemma filter_at_most_one (p : Q -> bool) s : forall l, ssorted l -> (forall t, In t l -> p t = true -> t == s) ->
  filter p l = [] \/ exists t, filter p l = [t] /\ t == s.
Proof.
  induction l as [|x r IH]; intros Hs Hp; [left; reflexivity|]. destruct Hs as [H1 H2]. cbn [filter]. destruct (p x) eqn:E.
  - right. exists x. assert (Ex : x == s) by (apply Hp; [now left|exact E]). split; [|exact Ex]. f_equal. apply filter_nil_intro.
    intros y Hy. destruct (p y) eqn:Ey; [|reflexivity]. exfalso. assert (Ey' : y == s) by (apply Hp; [now right|exact Ey]).
    rewrite Forall_forall in H1. specialize (H1 y Hy). cbn beta in H1. lra.
  - apply IH; [exact H2|]. intros t Ht. apply Hp. now right.
Qed.
Lemma max_piece_no_inner ts s e : ssorted ts -> s < e -> (forall t, In t ts -> t <= s \/ e <= t) -> max_piece ts s e == e - s.
Proof.
  intros Hs Hse Hsep. unfold max_piece.
  destruct (filter_at_most_one (fun t => Qle_bool s t && qltb t e) s ts Hs) as [->|(t & -> & Et)].
  { intros t Ht Hp. apply andb_true_iff in Hp. destruct Hp as [A B]. qb. destruct (Hsep t Ht); lra. }
  - cbn. lra.
  - cbn [app diffs fold_left]. destruct (qmax_cases (t - s) (e - t)) as [[E1 L]|[E1 L]]; rewrite E1; lra.
Qed.
Lemma qsum_all_zero l : Forall (fun x => x == 0) l -> qsum l == 0.
Proof. induction 1 as [|x l Hx _ IH]; [reflexivity|]. rewrite qsum_cons, Hx, IH. lra. Qed.
Theorem dhd_self m : valid_ivs m -> m <> [] -> Forall (fun v : iv => 0 <= fst v) m ->
  exists q, directional_hamming_distance m m = Ok (Fin q) /\ q == 0.
Proof.
  intros [Ho Hp] Hne Hnn. unfold directional_hamming_distance.
  assert (Hv : validate_intervals m = Ok tt).
  { apply validate_intervals_ok. rewrite Forall_forall in *. intros v Hin. specialize (Hp v Hin). specialize (Hnn v Hin). cbn beta in *.
    unfold iv_ok. repeat split; lra. }
  rewrite Hv. cbn [bind]. rewrite (chain_overlaps_false m (proj1 (ordered_chain m) Ho)).
  destruct m as [|r0 r]; [congruence|].
  destruct (span_bounds r r0 Hp (proj1 (ordered_chain _) Ho)) as [S1 S2]. inversion Hp as [|? ? H0 _]; subst.
  change (dur_of r0) with (snd r0 - fst r0) in S1.
  destruct (sort_uniq_spec (flat (r0 :: r))) as [Hs Hiff].
  set (sg := qsum (map (fun v : iv => (snd v - fst v) - max_piece (sort_uniq (flat (r0 :: r))) (fst v) (snd v)) (r0 :: r))).
  set (span := snd (last (r0 :: r) r0) - fst r0) in *.
  assert (Hsg : sg == 0).
  { apply qsum_all_zero. apply Forall_forall. intros x Hx. apply in_map_iff in Hx. destruct Hx as (v & <- & Hin).
    rewrite Forall_forall in Hp. specialize (Hp v Hin). cbn beta in Hp. rewrite max_piece_no_inner; [lra|exact Hs|exact Hp|].
    intros t Ht. assert (Hq : InQ t (flat (r0 :: r))) by (apply Hiff; exists t; split; [exact Ht|reflexivity]).
    destruct Hq as (y & Hy & Ety). apply in_flat in Hy. destruct Hy as (w & Hw & Hyw).
    destruct (ordered_sep _ Ho v w Hin Hw) as [A B]. destruct Hyw as [-> | ->]; rewrite Ety; assumption. }
  change (exists q, Ok (xdiv sg span) = Ok (Fin q) /\ q == 0). unfold xdiv, qeqb.
  destruct (Qeq_bool span 0) eqn:Ez; [apply Qeq_bool_iff in Ez; lra|]. eexists. split; [reflexivity|].
  rewrite Hsg. unfold Qdiv. ring.
Qed.

(* ---- merge_labeled_intervals of an annotation with itself *)
Lemma mapM_pair_same {A B} (f : A -> res B) : forall l labs, mapM (fun o => a <- f o ;; b <- f o ;; Ok (a, b)) l = Ok labs ->
  map fst labs = map snd labs /\ Forall2 (fun o a => f o = Ok a) l (map fst labs).
Proof.
  induction l as [|x l IH]; intros labs H; cbn [mapM] in H.
  - injection H as <-. split; [reflexivity|constructor].
  - destruct (f x) as [a|e] eqn:E; cbn [bind] in H; [|discriminate H].
    destruct (mapM _ l) as [r|e] eqn:E2; [|discriminate H]. injection H as <-. destruct (IH r eq_refl) as [HA HB].
    cbn [map fst snd]. split; [f_equal; exact HA|constructor; assumption].
Qed.
Lemma merge_pick_In {L} (ivs : list iv) (labs : list L) t l : merge_pick ivs labs t = Ok l -> In l labs.
Proof.
  unfold merge_pick. intros H. destruct (negb _); [discriminate H|].
  match type of H with match ?x with _ => _ end = _ => destruct x as [k|]; [|discriminate H] end.
  destruct (nth_error labs k) eqn:E; [|discriminate H]. injection H as <-. eapply nth_error_In; eauto.
Qed.
Lemma label_start {L} : forall (ivs : list iv) (labs : list L), valid_ivs ivs -> length labs = length ivs ->
  forall v l, In (v, l) (combine ivs labs) -> label_with c_start ivs labs (fst v) = Some l.
Proof.
  induction ivs as [|a r IH]; intros labs [Ho Hp] Hl v l Hin; [destruct Hin|]. destruct labs as [|l0 ls]; [discriminate Hl|].
  injection Hl as Hl. destruct Ho as (H1 & H2 & H3). inversion Hp as [|? ? Pa Pr]; subst. cbn [combine In] in Hin. cbn [label_with].
  destruct Hin as [[= <- <-]|Hin].
  - rewrite label_with_none.
    + unfold c_start. assert (E : Qle_bool (fst a) (fst a) = true) by (apply qleb_true; lra). rewrite E. reflexivity.
    + eapply Forall_impl; [|exact H2]. cbn beta. intros w Hw. unfold c_start. apply qleb_false. lra.
  - rewrite (IH ls (conj H3 Pr) Hl v l Hin). reflexivity.
Qed.
Lemma in_combine_r_exists {A B} : forall (l : list A) (l' : list B) b, length l' = length l -> In b l' -> exists a, In (a, b) (combine l l').
Proof.
  induction l as [|x l IH]; intros [|y l'] b Hl Hb; try discriminate; [destruct Hb|]. injection Hl as Hl. destruct Hb as [<-|Hb].
  - exists x. now left.
  - destruct (IH l' b Hl Hb) as (a & Ha). exists a. now right.
Qed.
Lemma adjacent_start : forall tb t, ssorted tb -> In t tb -> (exists u, In u tb /\ t < u) -> exists t1, In (t, t1) (adjacent_pairs tb).
Proof.
  induction tb as [|a [|b r] IH]; intros t Hs Ht (u & Hu & Htu); [destruct Ht| |].
  - destruct Ht as [<-|[]]. destruct Hu as [<-|[]]. lra.
  - rewrite adjacent_pairs_cons2. destruct Hs as [H1 H2]. destruct Ht as [<-|Ht].
    + exists b. now left.
    + destruct (IH t H2 Ht) as (t1 & Hin).
      * exists u. split; [|exact Htu]. destruct Hu as [<-|Hu]; [|exact Hu]. rewrite Forall_forall in H1. specialize (H1 t Ht). cbn beta in H1. lra.
      * exists t1. now right.
Qed.

Lemma Forall2_In_l {A B} (R : A -> B -> Prop) l l' : Forall2 R l l' -> forall a, In a l -> exists b, In b l' /\ R a b.
Proof. induction 1 as [|x y l l' Hxy _ IH]; intros a Ha; [destruct Ha|]. destruct Ha as [<-|Ha]; [exists y; split; [now left|exact Hxy]|].
  destruct (IH a Ha) as (b & Hb & Hr). exists b. split; [now right|exact Hr]. Qed.
Lemma Forall2_In_r {A B} (R : A -> B -> Prop) l l' : Forall2 R l l' -> forall b, In b l' -> exists a, In a l /\ R a b.
Proof. induction 1 as [|x y l l' Hxy _ IH]; intros b Hb; [destruct Hb|]. destruct Hb as [<-|Hb]; [exists x; split; [now left|exact Hxy]|].
  destruct (IH b Hb) as (a & Ha & Hr). exists a. split; [now right|exact Hr]. Qed.

Definition encodable (l : str) : Prop := (exists e, encode l false false = Ok e) /\ (exists e, encode l true false = Ok e).
Lemma N_valid : validate_label NO_CHORD = Ok tt. Proof. vm_compute. reflexivity. Qed.
Lemma X_valid : validate_label X_CHORD = Ok tt. Proof. vm_compute. reflexivity. Qed.
Lemma encode_ok_valid s r b e : encode s r b = Ok e -> validate_label s = Ok tt.
Proof.
  unfold encode. destruct (seqb s NO_CHORD) eqn:EN; [apply seqb_eq in EN; subst; intros _; apply N_valid|].
  destruct (seqb s X_CHORD) eqn:EX; [apply seqb_eq in EX; subst; intros _; apply X_valid|].
  unfold split. destruct (validate_label s) as [[]|]; [reflexivity|discriminate].
Qed.

Lemma self_merge (ivs : list iv) (labs : list str) : valid_ivs ivs -> ivs <> [] -> length labs = length ivs ->
  Forall (fun v : iv => 0 <= fst v) ivs ->
  exists out lx, merge_labeled_intervals ivs labs ivs labs = Ok (out, lx, lx) /\ length lx = length out /\
    Forall iv_ok out /\ out <> [] /\ (forall l, In l lx <-> In l labs).
Proof.
  intros [Ho Hp] Hne Hl Hnn. set (d := (0, 0) : iv).
  assert (Hal : aligned d ivs ivs) by (split; reflexivity).
  destruct (merge_ok d ivs labs ivs labs Ho Ho Hne Hne Hal Hl Hl) as (lx & ly & Hm).
  destruct (merge_is_common_refinement d ivs labs ivs labs _ lx ly Ho Ho Hne Hne Hl Hl Hm) as (_ & Hs & Hiff & L1 & L2 & Hrows & _).
  cbv zeta in *. pose proof Hm as Hm0. rewrite (merge_unfold d ivs labs ivs labs Hne Hne) in Hm. destruct Hal as [A1 A2].
  assert (e1 : Qeq_bool (fst (hd d ivs)) (fst (hd d ivs)) = true) by (apply Qeq_bool_iff; reflexivity).
  assert (e2 : Qeq_bool (snd (last ivs d)) (snd (last ivs d)) = true) by (apply Qeq_bool_iff; reflexivity).
  rewrite e1, e2 in Hm. cbn [negb orb] in Hm. set (tb := boundaries ivs ivs) in *.
  match type of Hm with bind ?x _ = _ => destruct x as [pl|] eqn:Em; cbn [bind] in Hm; [|discriminate Hm] end.
  injection Hm as <- <-. destruct (mapM_pair_same _ _ _ Em) as [Esame Hpick]. rewrite <- Esame in Hm0.
  exists (adjacent_pairs tb), (map fst pl). split; [exact Hm0|]. split; [exact L1|].
  assert (Htb_nn : forall z, In z tb -> 0 <= z).
  { intros z Hz. assert (Hq : InQ z (flat ivs)) by (assert (Hq : InQ z tb) by (exists z; split; [exact Hz|reflexivity]); apply Hiff in Hq; tauto).
    destruct Hq as (y & Hy & E). apply in_flat in Hy. destruct Hy as (w & Hw & Hyw). rewrite Forall_forall in Hnn, Hp.
    specialize (Hnn w Hw). specialize (Hp w Hw). cbn beta in *. destruct Hyw as [-> | ->]; lra. }
  (* every interval starts a row, which carries its label *)
  assert (Hstart : forall v l, In (v, l) (combine ivs labs) -> exists o, In o (adjacent_pairs tb) /\ merge_pick ivs labs (fst o) = Ok l).
  { intros v l Hin. pose proof (in_combine_l _ _ _ _ Hin) as Hv. pose proof (proj1 (Forall_forall _ _) Hp v Hv) as Hpv. cbn beta in Hpv.
    assert (Q1 : InQ (fst v) tb) by (apply Hiff; left; exists (fst v); split; [apply in_flat; exists v; auto|reflexivity]).
    assert (Q2 : InQ (snd v) tb) by (apply Hiff; left; exists (snd v); split; [apply in_flat; exists v; auto|reflexivity]).
    destruct Q1 as (t & Ht & Et). destruct Q2 as (u & Hu & Eu).
    destruct (adjacent_start tb t Hs Ht) as (t1 & Hrow); [exists u; split; [exact Hu|lra]|].
    exists (t, t1). split; [exact Hrow|]. cbn [fst]. rewrite (merge_pick_ext ivs labs t (fst v)) by (intros w _; rewrite Et; tauto).
    rewrite (merge_pick_label_with ivs labs (fst v) Hl), (label_start ivs labs (conj Ho Hp) Hl v l Hin). reflexivity. }
  split; [|split].
  - apply Forall_forall. intros [t0 t1] Hin. destruct (adjacent_between tb t0 t1 Hs Hin) as (A & B & C & _).
    pose proof (Htb_nn t0 B). pose proof (Htb_nn t1 C). unfold iv_ok. cbn [fst snd]. auto.
  - destruct ivs as [|v0 r]; [congruence|]. destruct labs as [|l0 ls]; [discriminate Hl|].
    destruct (Hstart v0 l0 (or_introl eq_refl)) as (o & Ho' & _). intros E. rewrite E in Ho'. destruct Ho'.
  - intros l. split.
    + intros Hin. destruct (Forall2_In_r _ _ _ Hpick l Hin) as (o & _ & E). eapply merge_pick_In; eauto.
    + intros Hin. destruct (in_combine_r_exists ivs labs l Hl Hin) as (v & Hvl). destruct (Hstart v l Hvl) as (o & Ho' & E).
      destruct (Forall2_In_l _ _ _ Hpick o Ho') as (a & Ha & E'). congruence.
Qed.

(* ---- the accuracies *)
Lemma map_combine_same {A B} (g : A -> A -> B) (l : list A) : map (fun x => g (fst x) (snd x)) (combine l l) = map (fun a => g a a) l.
Proof. induction l as [|a l IH]; cbn [combine map fst snd]; [reflexivity|f_equal; exact IH]. Qed.
Lemma encode_pairs_self lx : Forall encodable lx ->
  exists er, Forall2 (fun l e => encode l false false = Ok e) lx er /\ encode_pairs lx lx = Ok (combine (map of_enc er) (map of_enc er)).
Proof.
  intros H. rewrite Forall_forall in H. unfold encode_pairs. rewrite Nat.eqb_refl. cbn [negb].
  destruct (mapM_all_ok validate_label lx) as [u Hu].
  { intros x Hx. destruct (H x Hx) as [[e He] _]. exists tt. eapply encode_ok_valid; eauto. }
  rewrite Hu. cbn [bind]. destruct (mapM_all_ok (fun s => encode s false false) lx) as [er Her].
  { intros x Hx. destruct (H x Hx) as [[e He] _]. eauto. }
  unfold encode_many. rewrite Her. cbn [bind]. exists er. split; [apply mapM_ok; exact Her|reflexivity].
Qed.
Lemma wa_keep_all_neg : forall c w, Forall (fun x => x < 0) c -> wa_keep c w = [].
Proof.
  induction c as [|x c IH]; intros [|y w] H; try reflexivity. inversion H; subst. cbn [wa_keep]. unfold wa_valid.
  assert (E : Qle_bool 0 x = false) by (apply qleb_false; assumption). rewrite E. apply IH. assumption.
Qed.
Lemma wa_all_neg c w : length w = length c -> Forall (fun x => 0 <= x) w -> Forall (fun x => x < 0) c -> wa_q c w = Ok (Fin 0).
Proof.
  intros Hl Hw Hc. unfold wa_q. rewrite Hl, Nat.eqb_refl. cbn [negb]. fold negw. rewrite (proj2 (noneg_forall w) Hw).
  destruct (qeqb (qsum w) 0); [reflexivity|]. rewrite (wa_keep_all_neg c w Hc). reflexivity.
Qed.
Lemma cmp_den_pos : forall c w, length c = length w -> Forall (fun x => 0 < x) w -> (exists x, In x c /\ 0 <= x) -> 0 < cmp_den c w.
Proof.
  induction c as [|x c IH]; intros [|y w] Hl Hw (z & Hz & Hz0); try discriminate; [destruct Hz|]. injection Hl as Hl.
  inversion Hw as [|? ? Hy Hw']; subst. cbn [cmp_den].
  assert (Hrest : 0 <= cmp_den c w). { apply den_le_sum. eapply Forall_impl; [|exact Hw']. cbn beta. intros; lra. }
  destruct Hz as [<-|Hz].
  - assert (E : Qle_bool 0 x = true) by (apply qleb_true; exact Hz0). rewrite E. lra.
  - specialize (IH w Hl Hw' (ex_intro _ z (conj Hz Hz0))). destruct (Qle_bool 0 x); lra.
Qed.
(* one rule, every row compares an encoding with itself, every weight positive: 1 if some row is comparable, else 0 *)
Lemma self_accuracy c (E : list cenc) (ws : list Q) : In c rules -> Forall enc_ok E -> length ws = length E -> Forall (fun x => 0 < x) ws ->
  exists a, wa (map (fun e => c e e) E) ws = Ok a /\
    ((exists e, In e E /\ c e e <> (-1)%Z) -> xeq a (Fin 1)) /\ ((forall e, In e E -> c e e = (-1)%Z) -> a = Fin 0).
Proof.
  intros Hc Hok Hl Hw. rewrite Forall_forall in Hok.
  assert (Hvals : forall e, In e E -> c e e = 1%Z \/ c e e = (-1)%Z).
  { intros e He. destruct (cmp_values c e e Hc) as [A|[A|A]]; auto. exfalso. exact (cmp_refl c e (Hok e He) Hc A). }
  assert (Hw0 : Forall (fun x => 0 <= x) ws) by (eapply Forall_impl; [|exact Hw]; cbn beta; intros; lra).
  destruct (existsb (fun e => negb (c e e =? -1)%Z) E) eqn:Ex.
  - apply existsb_exists in Ex. destruct Ex as (e & He & Hne). apply negb_true_iff, Z.eqb_neq in Hne.
    destruct (wa_all_one (map (fun e => c e e) E) ws) as (s & Hs & Es).
    + rewrite map_length. symmetry. exact Hl.
    + exact Hw0.
    + apply Forall_forall. intros z Hz. apply in_map_iff in Hz. destruct Hz as (e' & <- & He'). apply Hvals. exact He'.
    + apply cmp_den_pos; [rewrite !map_length; symmetry; exact Hl|exact Hw|].
      exists (inject_Z (c e e)). split; [apply in_map, (in_map (fun e => c e e)); exact He|].
      destruct (Hvals e He) as [-> | A]; [unfold inject_Z; lra|contradiction].
    + exists (Fin s). split; [exact Hs|]. split; [intros _; exact Es|]. intros Hall. exfalso. apply Hne. apply Hall. exact He.
  - exists (Fin 0). pose proof (existsb_false _ _ Ex) as Hall. split; [|split; [|reflexivity]].
    + unfold wa. apply wa_all_neg; [rewrite !map_length; exact Hl|exact Hw0|].
      apply Forall_forall. intros q Hq. apply in_map_iff in Hq. destruct Hq as (z & <- & Hz). apply in_map_iff in Hz. destruct Hz as (e & <- & He).
      specialize (Hall e He). cbn beta in Hall. apply negb_false_iff, Z.eqb_eq in Hall. rewrite Hall. unfold inject_Z. lra.
    + intros (e & He & Hne). exfalso. specialize (Hall e He). cbn beta in Hall. apply negb_false_iff, Z.eqb_eq in Hall. contradiction.
Qed.
Lemma mapM_Forall2_ex {A B} (f : A -> res B) (P : A -> B -> Prop) : forall l,
  (forall x, In x l -> exists y, f x = Ok y /\ P x y) -> exists r, mapM f l = Ok r /\ Forall2 P l r.
Proof.
  induction l as [|x l IH]; intros H; [exists []; split; [reflexivity|constructor]|].
  destruct (H x (or_introl eq_refl)) as (y & Ey & Py). destruct IH as (r & Er & Pr); [intros z Hz; apply H; now right|].
  exists (y :: r). cbn [mapM]. rewrite Ey, Er. split; [reflexivity|constructor; assumption].
Qed.

(* a label takes part in rule c: the rule does not ignore its encoding as a reference *)
Definition comparable (c : cenc -> cenc -> Z) (labs : list str) : Prop :=
  exists l e, In l labs /\ encode l false false = Ok e /\ c (of_enc e) (of_enc e) <> (-1)%Z.

(* C02.  A valid annotation (time-ordered, positive durations, non-negative times, every label encodable) scored against
   an exact copy of itself: underseg = overseg = seg = 1, and each of the 12 accuracies is 1 if some label is comparable
   under that rule and 0 (the documented convention of weighted_accuracy) when the rule ignores every label. *)
Theorem chord_evaluate_self ivs labs :
  valid_ivs ivs -> ivs <> [] -> Forall (fun v : iv => 0 <= fst v) ivs -> length labs = length ivs -> Forall encodable labs ->
  exists accs u, chord_evaluate ivs labs ivs labs = Ok (accs ++ [Fin u; Fin u; Fin u]) /\ u == 1 /\
    Forall2 (fun c a => (comparable c labs -> xeq a (Fin 1)) /\ (~ comparable c labs -> a = Fin 0)) rules accs.
Proof.
  intros Hv Hne Hnn Hl Henc. destruct (adjust_self NO_CHORD ivs labs Hv Hne) as (tmin & tmax & E1 & E2 & E3).
  unfold chord_evaluate. rewrite E1, E2. unfold str in *. rewrite E3. cbn [bind fst snd]. unfold chord_scores.
  destruct (mapM_all_ok (fun s => encode s true false) labs) as [encs Hencs].
  { intros x Hx. rewrite Forall_forall in Henc. destruct (Henc x Hx) as [_ [e He]]. eauto. }
  unfold merge_chord_intervals, encode_many. rewrite Hencs. cbn [bind].
  destruct (fuse_rows_valid ivs encs Hv Hne) as (Vm & Nm & NNm); [apply mapM_length in Hencs; exact (eq_trans Hencs Hl)|exact Hnn|].
  cbv zeta in Vm, Nm, NNm. set (m := fuse_rows (combine ivs encs)) in *.
  destruct (self_merge ivs labs Hv Hne Hl Hnn) as (out & lx & Em & Ll & Hok & Hone & Hin). rewrite Em. cbn [bind].
  unfold intervals_to_durations. rewrite (proj2 (validate_intervals_ok out) Hok). cbn [bind].
  destruct (encode_pairs_self lx) as (er & Her & Ep).
  { apply Forall_forall. intros l Hlx. rewrite Forall_forall in Henc. apply Henc, Hin, Hlx. }
  rewrite Ep. cbn [bind]. set (E := map of_enc er) in *. set (ws := map (fun v : Q * Q => Qabs (snd v - fst v)) out).
  assert (HE : Forall enc_ok E).
  { apply Forall_forall. intros e He. apply in_map_iff in He. destruct He as (e' & <- & He').
    destruct (Forall2_In_r _ _ _ Her e' He') as (l & _ & El). eapply encode_enc_ok; eauto. }
  assert (Hws : Forall (fun x => 0 < x) ws).
  { apply Forall_forall. intros x Hx. apply in_map_iff in Hx. destruct Hx as (v & <- & Hv'). rewrite Forall_forall in Hok.
    destruct (Hok v Hv') as (_ & _ & C). rewrite Qabs_pos; lra. }
  assert (Hlen : length ws = length E).
  { unfold ws, E. rewrite !map_length. exact (eq_trans (eq_sym Ll) (Forall2_len _ _ _ Her)). }
  assert (Hcomp : forall c, comparable c labs <-> exists e, In e E /\ c e e <> (-1)%Z).
  { intros c. split.
    - intros (l & e0 & Hl0 & El0 & Hne0). apply Hin in Hl0. destruct (Forall2_In_l _ _ _ Her l Hl0) as (e' & He' & El').
      assert (e' = e0) by congruence. subst e'. exists (of_enc e0). split; [apply in_map; exact He'|exact Hne0].
    - intros (e & He & Hne0). apply in_map_iff in He. destruct He as (e' & <- & He').
      destruct (Forall2_In_r _ _ _ Her e' He') as (l & Hl0 & El). exists l, e'. split; [apply Hin; exact Hl0|]. auto. }
  destruct (mapM_Forall2_ex (fun c => wa (map (fun x : cenc * cenc => c (fst x) (snd x)) (combine E E)) ws)
              (fun c a => (comparable c labs -> xeq a (Fin 1)) /\ (~ comparable c labs -> a = Fin 0)) rules) as (accs & Eaccs & Haccs).
  { intros c Hc. rewrite map_combine_same. destruct (self_accuracy c E ws Hc HE Hlen Hws) as (a & Ea & A1 & A2).
    exists a. split; [exact Ea|]. split.
    - intros Hcmp. apply A1. apply Hcomp. exact Hcmp.
    - intros Hn. apply A2. intros e He. destruct (Z.eq_dec (c e e) (-1)%Z) as [Eq|Nq]; [exact Eq|]. exfalso. apply Hn. apply Hcomp. eauto. }
  fold ws. rewrite Eaccs. cbn [bind].
  destruct (dhd_self m Vm Nm NNm) as (q & Eq & Hq).
  assert (Ed : dhd_arrays m m = Ok (Fin q)) by (unfold dhd_arrays; destruct m; [congruence|exact Eq]).
  rewrite Ed. cbn [bind xone_minus]. exists accs, (1 - q).
  assert (Epm : py_min (Fin (1 - q)) (Fin (1 - q)) = Fin (1 - q)) by (unfold py_min; destruct (xltb _ _); reflexivity).
  rewrite Epm. split; [reflexivity|]. split; [lra|exact Haccs].
Qed.
(* "C:maj | N | G:min7/b3 | X" on [0,1) [1,2.5) [2.5,3) [3,5): sevenths ignores nothing here; with only X chords every
   accuracy is 0 *)
Example chord_evaluate_self_ex :
  let ivs := [(0, 1); (1, 5 # 2); (5 # 2, 3); (3, 5)] in
  let labs := [[67; 58; 109; 97; 106]; [78]; [71; 58; 109; 105; 110; 55; 47; 98; 51]; [88]]%nat in
  valid_ivs ivs /\ Forall (fun v : iv => 0 <= fst v) ivs /\ length labs = length ivs /\ Forall encodable labs /\
  sres_eq (chord_evaluate ivs labs ivs labs) (Ok (repeat (Fin 1) 15)) /\
  sres_eq (chord_evaluate [(0, 1); (1, 2)] [[88]; [88]]%nat [(0, 1); (1, 2)] [[88]; [88]]%nat) (Ok (repeat (Fin 0) 12 ++ repeat (Fin 1) 3)).
Proof.
  cbv zeta. split; [split; [cbn; repeat split; try lra; repeat constructor; cbn; lra|repeat constructor; cbn; lra]|].
  split; [repeat constructor; cbn; lra|]. split; [reflexivity|].
  split; [repeat constructor; eexists; vm_compute; reflexivity|]. split; vm_compute; repeat constructor.
Qed.


(* ====================================================================================================== *)
(* (e) C08: adding the same offset to every reference and estimate time                                   *)
(* ====================================================================================================== *)
Definition shq (d x : Q) : Q := x + d.
Definition sh (d : Q) (v : Q * Q) : Q * Q := (fst v + d, snd v + d).

Lemma qcmp_shift a b d : (a + d ?= b + d) = (a ?= b).
Proof.
  destruct (a ?= b) eqn:E.
  - apply (proj2 (Qeq_alt _ _)) in E. apply (proj1 (Qeq_alt _ _)). lra.
  - apply (proj2 (Qlt_alt _ _)) in E. apply (proj1 (Qlt_alt _ _)). lra.
  - apply (proj2 (Qgt_alt _ _)) in E. apply (proj1 (Qgt_alt _ _)). lra.
Qed.
Lemma qmax_shift a b d : Qmax (a + d) (b + d) = Qmax a b + d.
Proof. unfold Qmax, GenericMinMax.gmax. rewrite qcmp_shift. destruct (a ?= b); reflexivity. Qed.
Lemma qmin_shift a b d : Qmin (a + d) (b + d) = Qmin a b + d.
Proof. unfold Qmin, GenericMinMax.gmin. rewrite qcmp_shift. destruct (a ?= b); reflexivity. Qed.
Lemma qleb_shift a b d : Qle_bool (a + d) (b + d) = Qle_bool a b.
Proof. apply qleb_iff_eq. split; intros; lra. Qed.
Lemma qltb_shift a b d : qltb (a + d) (b + d) = qltb a b.
Proof. unfold qltb. now rewrite qleb_shift. Qed.
Lemma qeqb_shift a b d : Qeq_bool (a + d) (b + d) = Qeq_bool a b.
Proof.
  destruct (Qeq_bool a b) eqn:E.
  - apply Qeq_bool_iff in E. apply Qeq_bool_iff. lra.
  - destruct (Qeq_bool (a + d) (b + d)) eqn:E2; [|reflexivity]. apply Qeq_bool_iff in E2. assert (H : a == b) by lra.
    apply Qeq_bool_iff in H. congruence.
Qed.

Lemma flat_shift d : forall l, flat (map (sh d) l) = map (shq d) (flat l).
Proof. induction l as [|v l IH]; [reflexivity|]. cbn [map flat flat_map app] in *. unfold flat in IH. rewrite IH. reflexivity. Qed.
Lemma fold_min_shift d : forall t x, fold_left Qmin (map (shq d) t) (x + d) = fold_left Qmin t x + d.
Proof. induction t as [|a t IH]; intros x; cbn [map fold_left]; [reflexivity|]. change (shq d a) with (a + d). rewrite qmin_shift. apply IH. Qed.
Lemma fold_max_shift d : forall t x, fold_left Qmax (map (shq d) t) (x + d) = fold_left Qmax t x + d.
Proof. induction t as [|a t IH]; intros x; cbn [map fold_left]; [reflexivity|]. change (shq d a) with (a + d). rewrite qmax_shift. apply IH. Qed.
Lemma qmin_list_shift d l : qmin_list (map (shq d) l) = option_map (shq d) (qmin_list l).
Proof. destruct l as [|a t]; [reflexivity|]. cbn [map qmin_list option_map]. f_equal. apply fold_min_shift. Qed.
Lemma qmax_list_shift d l : qmax_list (map (shq d) l) = option_map (shq d) (qmax_list l).
Proof. destruct l as [|a t]; [reflexivity|]. cbn [map qmax_list option_map]. f_equal. apply fold_max_shift. Qed.

Lemma find_idx_map {A B} (p : B -> bool) (f : A -> B) : forall l, find_idx p (map f l) = find_idx (fun x => p (f x)) l.
Proof. induction l as [|x l IH]; [reflexivity|]. cbn [map find_idx]. rewrite IH. reflexivity. Qed.
Lemma find_idx_ext {A} (p q : A -> bool) : (forall x, p x = q x) -> forall l, find_idx p l = find_idx q l.
Proof. intros H. induction l as [|x l IH]; [reflexivity|]. cbn [find_idx]. rewrite H, IH. reflexivity. Qed.

(* ---- adjust_intervals *)
Definition shr {L} (d : Q) (r : list iv * option (list L)) : list iv * option (list L) := (map (sh d) (fst r), snd r).
Definition min_tail {L} (N : L) (t : Q) (ivs : list iv) (labs : option (list L)) : res (list iv * option (list L)) :=
  let ivs := map (fun i : Q * Q => (Qmax t (fst i), Qmax t (snd i))) ivs in
  match qmin_list (flat ivs) with
  | None => Raise ValueError
  | Some mn => if qltb t mn then Ok ((t, mn) :: ivs, option_map (cons N) labs) else Ok (ivs, labs)
  end.
Definition max_tail {L} (N : L) (t : Q) (ivs : list iv) (labs : option (list L)) : res (list iv * option (list L)) :=
  let ivs := map (fun i : Q * Q => (Qmin t (fst i), Qmin t (snd i))) ivs in
  match qmax_list (flat ivs) with
  | None => Raise ValueError
  | Some mx => if qltb mx t then Ok (ivs ++ [(mx, t)], option_map (fun l => l ++ [N]) labs) else Ok (ivs, labs)
  end.
Lemma step_min_tail {L} (N : L) t ivs labs : step_min N t ivs labs =
  match find_idx (fun i : Q * Q => qltb t (snd i)) ivs with
  | Some k => min_tail N t (skipn k ivs) (option_map (skipn k) labs) | None => min_tail N t ivs labs end.
Proof. unfold step_min, min_tail. destruct (find_idx (fun i : Q * Q => qltb t (snd i)) ivs); reflexivity. Qed.
Lemma step_max_tail {L} (N : L) t ivs labs : step_max N t ivs labs =
  match find_idx (fun i : Q * Q => Qle_bool t (fst i)) ivs with
  | Some k => max_tail N t (firstn k ivs) (option_map (firstn k) labs) | None => max_tail N t ivs labs end.
Proof. unfold step_max, max_tail. destruct (find_idx (fun i : Q * Q => Qle_bool t (fst i)) ivs); reflexivity. Qed.
Lemma min_tail_shift {L} (N : L) d t ivs labs : min_tail N (t + d) (map (sh d) ivs) labs = map_res (shr d) (min_tail N t ivs labs).
Proof.
  unfold min_tail. cbv zeta.
  assert (Ec : map (fun i : Q * Q => (Qmax (t + d) (fst i), Qmax (t + d) (snd i))) (map (sh d) ivs)
               = map (sh d) (map (fun i : Q * Q => (Qmax t (fst i), Qmax t (snd i))) ivs)).
  { rewrite !map_map. apply map_ext. intros [x y]. unfold sh. cbn [fst snd]. rewrite !qmax_shift. reflexivity. }
  rewrite Ec, flat_shift, qmin_list_shift. destruct (qmin_list (flat _)) as [mn|]; cbn [option_map map_res]; [|reflexivity].
  unfold shq. rewrite qltb_shift. destruct (qltb t mn); reflexivity.
Qed.
Lemma max_tail_shift {L} (N : L) d t ivs labs : max_tail N (t + d) (map (sh d) ivs) labs = map_res (shr d) (max_tail N t ivs labs).
Proof.
  unfold max_tail. cbv zeta.
  assert (Ec : map (fun i : Q * Q => (Qmin (t + d) (fst i), Qmin (t + d) (snd i))) (map (sh d) ivs)
               = map (sh d) (map (fun i : Q * Q => (Qmin t (fst i), Qmin t (snd i))) ivs)).
  { rewrite !map_map. apply map_ext. intros [x y]. unfold sh. cbn [fst snd]. rewrite !qmin_shift. reflexivity. }
  rewrite Ec, flat_shift, qmax_list_shift. destruct (qmax_list (flat _)) as [mx|]; cbn [option_map map_res]; [|reflexivity].
  unfold shq. rewrite qltb_shift. destruct (qltb mx t); [|reflexivity]. unfold shr. cbn [map_res fst snd]. rewrite map_app. reflexivity.
Qed.
Lemma step_min_shift {L} (N : L) d t ivs labs : step_min N (t + d) (map (sh d) ivs) labs = map_res (shr d) (step_min N t ivs labs).
Proof.
  rewrite !step_min_tail, find_idx_map.
  rewrite (find_idx_ext (fun x : Q * Q => qltb (t + d) (snd (sh d x))) (fun i : Q * Q => qltb t (snd i))) by (intros x; apply qltb_shift).
  destruct (find_idx _ ivs) as [k|]; [rewrite skipn_map|]; apply min_tail_shift.
Qed.
Lemma step_max_shift {L} (N : L) d t ivs labs : step_max N (t + d) (map (sh d) ivs) labs = map_res (shr d) (step_max N t ivs labs).
Proof.
  rewrite !step_max_tail, find_idx_map.
  rewrite (find_idx_ext (fun x : Q * Q => Qle_bool (t + d) (fst (sh d x))) (fun i : Q * Q => Qle_bool t (fst i))) by (intros x; apply qleb_shift).
  destruct (find_idx _ ivs) as [k|]; [rewrite firstn_map|]; apply max_tail_shift.
Qed.
Lemma adjust_shift {L} (N : L) d ivs labs a b :
  adjust_intervals N N (map (sh d) ivs) labs (Some (a + d)) (Some (b + d)) = map_res (shr d) (adjust_intervals N N ivs labs (Some a) (Some b)).
Proof.
  destruct ivs as [|v0 r]; [reflexivity|].
  rewrite (adjust_nonempty N N (map (sh d) (v0 :: r))) by (cbn [map]; discriminate).
  rewrite (adjust_nonempty N N (v0 :: r)) by discriminate. cbn [stage1 stage2]. rewrite step_min_shift.
  destruct (step_min N a (v0 :: r) labs) as [[o ol]|e]; cbn [map_res bind fst snd shr]; [|reflexivity]. apply step_max_shift.
Qed.

(* ---- merge_chord_intervals *)
Lemma fuse_shift d : forall (rows : list (iv * enc)) prev cur,
  fuse prev (sh d cur) (map (fun p => (sh d (fst p), snd p)) rows) = map (sh d) (fuse prev cur rows).
Proof.
  induction rows as [|[v e] r IH]; intros prev cur; [reflexivity|]. cbn [map fuse fst snd]. destruct (enc_eqb e prev).
  - apply (IH prev (fst cur, snd v)).
  - cbn [map]. f_equal. apply IH.
Qed.
Lemma combine_map_l {A B C} (f : A -> C) : forall (l : list A) (l' : list B), combine (map f l) l' = map (fun p => (f (fst p), snd p)) (combine l l').
Proof. induction l as [|x l IH]; intros [|y l']; try reflexivity. cbn [map combine fst snd]. f_equal. apply IH. Qed.
Lemma fuse_rows_shift d (rows : list (iv * enc)) : fuse_rows (map (fun p => (sh d (fst p), snd p)) rows) = map (sh d) (fuse_rows rows).
Proof. destruct rows as [|[v e] r]; [reflexivity|]. cbn [map fuse_rows fst snd]. apply fuse_shift. Qed.
Lemma merge_chord_intervals_shift d ivs labs : merge_chord_intervals (map (sh d) ivs) labs = map_res (map (sh d)) (merge_chord_intervals ivs labs).
Proof.
  unfold merge_chord_intervals. destruct (encode_many labs true) as [encs|]; cbn [bind map_res]; [|reflexivity]. f_equal.
  rewrite combine_map_l. apply fuse_rows_shift.
Qed.

(* ---- merge_labeled_intervals *)
Lemma ins_uniq_shift d x : forall l, ins_uniq (x + d) (map (shq d) l) = map (shq d) (ins_uniq x l).
Proof.
  induction l as [|y t IH]; [reflexivity|]. cbn [map ins_uniq]. change (shq d y) with (y + d). rewrite qltb_shift, qeqb_shift.
  destruct (qltb x y); [reflexivity|]. destruct (Qeq_bool x y); [reflexivity|]. cbn [map]. change (shq d y) with (y + d). f_equal. exact IH.
Qed.
Lemma sort_uniq_shift d : forall l, sort_uniq (map (shq d) l) = map (shq d) (sort_uniq l).
Proof.
  induction l as [|a l IH]; [reflexivity|]. unfold sort_uniq in *. cbn [map fold_right]. rewrite IH. apply ins_uniq_shift.
Qed.
Lemma adjacent_pairs_shift d : forall tb, adjacent_pairs (map (shq d) tb) = map (sh d) (adjacent_pairs tb).
Proof.
  induction tb as [|a [|b r] IH]; [reflexivity|reflexivity|].
  change (map (shq d) (a :: b :: r)) with (shq d a :: shq d b :: map (shq d) r). rewrite !adjacent_pairs_cons2. cbn [map]. f_equal. exact IH.
Qed.
Lemma last_map {A B} (f : A -> B) : forall l d0, last (map f l) (f d0) = f (last l d0).
Proof. induction l as [|x [|y l] IH]; intros d0; [reflexivity|reflexivity|]. change (last (map f (y :: l)) (f d0) = f (last (y :: l) d0)). apply IH. Qed.
Lemma hd_map {A B} (f : A -> B) l d0 : hd (f d0) (map f l) = f (hd d0 l).
Proof. destruct l; reflexivity. Qed.
Lemma last_idx_map {A B} (p : B -> bool) (f : A -> B) : forall l, last_idx p (map f l) = last_idx (fun x => p (f x)) l.
Proof. induction l as [|x l IH]; [reflexivity|]. cbn [map last_idx]. rewrite IH. reflexivity. Qed.
Lemma merge_pick_shift {L} d ivs (labs : list L) t : merge_pick (map (sh d) ivs) labs (t + d) = merge_pick ivs labs t.
Proof.
  unfold merge_pick. rewrite map_length, last_idx_map.
  rewrite (last_idx_ext (fun x : Q * Q => Qle_bool (fst (sh d x)) (t + d)) (fun v : Q * Q => Qle_bool (fst v) t)); [reflexivity|].
  intros x _. apply qleb_shift.
Qed.
Lemma mapM_map {A B C} (f : B -> res C) (g : A -> B) : forall l, mapM f (map g l) = mapM (fun x => f (g x)) l.
Proof. induction l as [|x l IH]; [reflexivity|]. cbn [map mapM]. rewrite IH. reflexivity. Qed.
Lemma mapM_ext {A B} (f g : A -> res B) : (forall x, f x = g x) -> forall l, mapM f l = mapM g l.
Proof. intros H. induction l as [|x l IH]; [reflexivity|]. cbn [mapM]. rewrite H, IH. reflexivity. Qed.
Definition shm {L} (d : Q) (m : list iv * list L * list L) : list iv * list L * list L := (map (sh d) (fst (fst m)), snd (fst m), snd m).
Lemma merge_labeled_shift {L} d xi (xl : list L) yi yl :
  merge_labeled_intervals (map (sh d) xi) xl (map (sh d) yi) yl = map_res (shm d) (merge_labeled_intervals xi xl yi yl).
Proof.
  destruct xi as [|x0 rx]; [reflexivity|]. destruct yi as [|y0 ry]; [reflexivity|].
  set (d0 := (0, 0) : iv).
  rewrite (merge_unfold (sh d d0) (map (sh d) (x0 :: rx)) xl (map (sh d) (y0 :: ry)) yl) by (cbn [map]; discriminate).
  rewrite (merge_unfold d0 (x0 :: rx) xl (y0 :: ry) yl) by discriminate.
  rewrite !hd_map, !last_map. unfold sh at 1 2 3 4. cbn [fst snd]. rewrite !qeqb_shift.
  destruct (negb _ || negb _); [reflexivity|].
  assert (Eb : boundaries (map (sh d) (x0 :: rx)) (map (sh d) (y0 :: ry)) = map (shq d) (boundaries (x0 :: rx) (y0 :: ry))).
  { unfold boundaries. rewrite <- map_app, flat_shift, sort_uniq_shift. reflexivity. }
  rewrite Eb, adjacent_pairs_shift, mapM_map.
  rewrite (mapM_ext _ (fun o : Q * Q => a <- merge_pick (x0 :: rx) xl (fst o) ;; b <- merge_pick (y0 :: ry) yl (fst o) ;; Ok (a, b))).
  - destruct (mapM _ _) as [pl|]; reflexivity.
  - intros o. change (fst (sh d o)) with (fst o + d). rewrite !merge_pick_shift. reflexivity.
Qed.

(* ---- weights that are == give == scores *)
Lemma negw_eq x y : x == y -> negw x = negw y.
Proof. intros H. unfold negw, qltb. f_equal. apply qleb_iff_eq. rewrite H. tauto. Qed.
Lemma Forall2_Qeq_qsum w w' : Forall2 Qeq w w' -> qsum w == qsum w'.
Proof. induction 1 as [|x y w w' Hxy _ IH]; [reflexivity|]. rewrite !qsum_cons, Hxy, IH. reflexivity. Qed.
Lemma cmp_den_eq : forall c w w', Forall2 Qeq w w' -> cmp_den c w == cmp_den c w'.
Proof.
  induction c as [|x c IH]; intros w w' H; [reflexivity|]. destruct H as [|y y' w w' Hy H]; [reflexivity|]. cbn [cmp_den].
  rewrite (IH w w' H). destruct (Qle_bool 0 x); lra.
Qed.
Lemma cmp_num_eq : forall c w w', Forall2 Qeq w w' -> cmp_num c w == cmp_num c w'.
Proof.
  induction c as [|x c IH]; intros w w' H; [reflexivity|]. destruct H as [|y y' w w' Hy H]; [reflexivity|]. cbn [cmp_num].
  rewrite (IH w w' H). destruct (Qle_bool 0 x); [rewrite Hy|]; lra.
Qed.
Lemma wa_keep_nil_eq : forall c (w w' : list Q), length w = length w' -> (wa_keep c w = [] <-> wa_keep c w' = []).
Proof.
  induction c as [|x c IH]; intros [|y w] [|y' w'] H; try discriminate; cbn [wa_keep]; try tauto. injection H as H.
  destruct (wa_valid x); [split; discriminate|apply IH; exact H].
Qed.
Theorem wa_q_weights_eq c w w' : Forall2 Qeq w w' -> req (wa_q c w) (wa_q c w').
Proof.
  intros H. pose proof (Forall2_len _ _ _ H) as HL. apply wa_q_congr.
  - rewrite HL. reflexivity.
  - clear HL. induction H as [|x y w w' Hxy _ IH]; [reflexivity|]. cbn [existsb]. rewrite (negw_eq x y Hxy), IH. reflexivity.
  - rewrite (Forall2_Qeq_qsum _ _ H). tauto.
  - apply wa_keep_nil_eq. exact HL.
  - rewrite !keep_total, (cmp_den_eq c w w' H). tauto.
  - intros _. rewrite !wa_score_eq, !keep_num, !keep_total, (cmp_den_eq c w w' H), (cmp_num_eq c w w' H). reflexivity.
Qed.

(* ---- validate_intervals and directional_hamming_distance *)
Lemma validate_shift d ivs : validate_intervals ivs = Ok tt ->
  validate_intervals (map (sh d) ivs) = Ok tt \/ (validate_intervals (map (sh d) ivs) = Raise ValueError /\ d < 0).
Proof.
  intros H. apply validate_intervals_ok in H. destruct (Qlt_le_dec d 0) as [Hd|Hd].
  - destruct (validate_intervals (map (sh d) ivs)) as [[]|e] eqn:E; [left; reflexivity|right].
    apply validate_intervals_raises in E. subst e. auto.
  - left. apply validate_intervals_ok. rewrite Forall_forall in *. intros v Hv. apply in_map_iff in Hv. destruct Hv as (w & <- & Hw).
    destruct (H w Hw) as (A & B & C). unfold iv_ok, sh. cbn [fst snd]. repeat split; lra.
Qed.
Lemma overlaps_shift d : forall l, overlaps (map (sh d) l) = overlaps l.
Proof.
  induction l as [|a [|b t] IH]; [reflexivity|reflexivity|].
  change (overlaps (map (sh d) (a :: b :: t))) with (qltb (fst (sh d b)) (snd (sh d a)) || overlaps (map (sh d) (b :: t))).
  rewrite IH. unfold sh at 1 2. cbn [fst snd]. rewrite qltb_shift. reflexivity.
Qed.
Lemma filter_map_comm {A B} (p : B -> bool) (q : A -> bool) (f : A -> B) : (forall x, p (f x) = q x) ->
  forall l, filter p (map f l) = map f (filter q l).
Proof. intros H. induction l as [|x l IH]; [reflexivity|]. cbn [map filter]. rewrite H, IH. destruct (q x); reflexivity. Qed.
Lemma diffs_shift d : forall l a, Forall2 Qeq (diffs (a + d) (map (shq d) l)) (diffs a l).
Proof. induction l as [|b t IH]; intros a; cbn [map diffs]; constructor; [unfold shq; ring|apply IH]. Qed.
Lemma fold_max_Qeq : forall ds ds', Forall2 Qeq ds ds' -> forall x x', x == x' -> fold_left Qmax ds x == fold_left Qmax ds' x'.
Proof.
  induction 1 as [|a b ds ds' Hab _ IH]; intros x x' Hx; [exact Hx|]. cbn [fold_left]. apply IH. rewrite Hx, Hab. reflexivity.
Qed.
Lemma max_piece_shift d ts s e : max_piece (map (shq d) ts) (s + d) (e + d) == max_piece ts s e.
Proof.
  unfold max_piece.
  rewrite (filter_map_comm (fun t => Qle_bool (s + d) t && qltb t (e + d)) (fun t => Qle_bool s t && qltb t e) (shq d))
    by (intros x; unfold shq; rewrite qleb_shift, qltb_shift; reflexivity).
  change [e + d] with (map (shq d) [e]). rewrite <- map_app.
  pose proof (diffs_shift d (filter (fun t => Qle_bool s t && qltb t e) ts ++ [e]) s) as H.
  destruct H as [|x y ds ds' Hxy H]; [reflexivity|]. apply fold_max_Qeq; assumption.
Qed.
Lemma xdiv_eq a a' b b' : a == a' -> b == b' -> xeq (xdiv a b) (xdiv a' b').
Proof.
  intros Ha Hb. unfold xdiv, qeqb, qltb.
  assert (E1 : Qeq_bool b 0 = Qeq_bool b' 0).
  { destruct (Qeq_bool b 0) eqn:E, (Qeq_bool b' 0) eqn:E'; auto.
    - apply Qeq_bool_iff in E. assert (H : b' == 0) by lra. apply Qeq_bool_iff in H. congruence.
    - apply Qeq_bool_iff in E'. assert (H : b == 0) by lra. apply Qeq_bool_iff in H. congruence. }
  assert (E2 : Qeq_bool a 0 = Qeq_bool a' 0).
  { destruct (Qeq_bool a 0) eqn:E, (Qeq_bool a' 0) eqn:E'; auto.
    - apply Qeq_bool_iff in E. assert (H : a' == 0) by lra. apply Qeq_bool_iff in H. congruence.
    - apply Qeq_bool_iff in E'. assert (H : a == 0) by lra. apply Qeq_bool_iff in H. congruence. }
  assert (E3 : Qle_bool a 0 = Qle_bool a' 0) by (apply qleb_iff_eq; rewrite Ha; tauto).
  rewrite <- E1, <- E2, <- E3. destruct (Qeq_bool b 0) eqn:Eb; [destruct (Qeq_bool a 0); [exact I|destruct (negb _); exact I]|].
  cbn [xeq]. rewrite Ha, Hb. reflexivity.
Qed.
Lemma seg_sum_shift d ts (l : list (Q * Q)) :
  qsum (map (fun v : Q * Q => (snd v - fst v) - max_piece (map (shq d) ts) (fst v) (snd v)) (map (sh d) l))
  == qsum (map (fun v : Q * Q => (snd v - fst v) - max_piece ts (fst v) (snd v)) l).
Proof.
  rewrite map_map. apply Forall2_Qeq_qsum. induction l as [|v l IH]; cbn [map]; constructor; [|exact IH].
  change (fst (sh d v)) with (fst v + d). change (snd (sh d v)) with (snd v + d). rewrite max_piece_shift. ring.
Qed.
Lemma dhd_shift d ref est x : directional_hamming_distance ref est = Ok x ->
  (exists x', directional_hamming_distance (map (sh d) ref) (map (sh d) est) = Ok x' /\ xeq x' x) \/
  (directional_hamming_distance (map (sh d) ref) (map (sh d) est) = Raise ValueError /\ d < 0).
Proof.
  unfold directional_hamming_distance. intros H.
  destruct (validate_intervals est) as [[]|] eqn:E1; cbn [bind] in H; [|discriminate H].
  destruct (validate_intervals ref) as [[]|] eqn:E2; cbn [bind] in H; [|discriminate H].
  destruct (validate_shift d est E1) as [V1|[V1 Hd]]; rewrite V1; cbn [bind]; [|right; auto].
  destruct (validate_shift d ref E2) as [V2|[V2 Hd]]; rewrite V2; cbn [bind]; [|right; auto].
  rewrite overlaps_shift. destruct (overlaps ref); [discriminate H|]. destruct ref as [|r0 r]; [discriminate H|].
  left. cbn [map]. eexists. split; [reflexivity|]. apply Ok_inj in H. rewrite <- H. clear H.
  rewrite flat_shift, sort_uniq_shift. apply xdiv_eq.
  - apply (seg_sum_shift d (sort_uniq (flat est)) (r0 :: r)).
  - change (sh d r0 :: map (sh d) r) with (map (sh d) (r0 :: r)). rewrite last_map.
    change (fst (sh d r0)) with (fst r0 + d). change (snd (sh d (last (r0 :: r) r0))) with (snd (last (r0 :: r) r0) + d). ring.
Qed.
Lemma dhd_arrays_shift d ref est x : dhd_arrays ref est = Ok x ->
  (exists x', dhd_arrays (map (sh d) ref) (map (sh d) est) = Ok x' /\ xeq x' x) \/
  (dhd_arrays (map (sh d) ref) (map (sh d) est) = Raise ValueError /\ d < 0).
Proof.
  unfold dhd_arrays. destruct est as [|e0 e]; [discriminate|]. destruct ref as [|r0 r]; [discriminate|].
  change (map (sh d) (e0 :: e)) with (sh d e0 :: map (sh d) e). change (map (sh d) (r0 :: r)) with (sh d r0 :: map (sh d) r).
  cbv iota. change (sh d e0 :: map (sh d) e) with (map (sh d) (e0 :: e)). change (sh d r0 :: map (sh d) r) with (map (sh d) (r0 :: r)).
  apply dhd_shift.
Qed.

Lemma xeq_sym a b : xeq a b -> xeq b a.
Proof. destruct a, b; cbn; auto. intros H. symmetry. exact H. Qed.
Lemma xone_minus_xeq a b : xeq a b -> xeq (xone_minus a) (xone_minus b).
Proof. destruct a, b; cbn; auto. intros H. rewrite H. reflexivity. Qed.
Lemma py_min_xeq_fin p p' q q' : p == p' -> q == q' -> xeq (py_min (Fin p) (Fin q)) (py_min (Fin p') (Fin q')).
Proof.
  intros Hp Hq. unfold py_min. cbn [xltb]. assert (E : qltb q p = qltb q' p').
  { unfold qltb. f_equal. apply qleb_iff_eq. rewrite Hp, Hq. tauto. }
  rewrite E. destruct (qltb q' p'); cbn [xeq]; assumption.
Qed.

(* C08.  chord.evaluate on both annotations delayed by d: the same 15 scores (==).  util.validate_intervals rejects
   negative times, so a negative offset can turn a valid input into a ValueError -- nothing else can happen. *)
Theorem chord_evaluate_shift d ri rl ei el s : chord_evaluate ri rl ei el = Ok s ->
  (exists s', chord_evaluate (map (sh d) ri) rl (map (sh d) ei) el = Ok s' /\ Forall2 xeq s' s) \/
  (chord_evaluate (map (sh d) ri) rl (map (sh d) ei) el = Raise ValueError /\ d < 0).
Proof.
  intros H. apply chord_evaluate_inv in H. destruct H as (tmin & tmax & ei' & el' & E1 & E2 & E3 & H). apply chord_scores_inv in H.
  destruct H as (mr & me & ivs & rl2 & el2 & durations & encs & accs & du & dov & Emr & Eme & Em & Edur & Eenc & Eacc & Eu & Eo & ->).
  unfold chord_evaluate. rewrite flat_shift, qmin_list_shift, qmax_list_shift, E1, E2. cbn [option_map]. unfold shq.
  unfold str in *. rewrite adjust_shift, E3. cbn [map_res bind shr fst snd].
  unfold chord_scores. unfold str in *. rewrite !merge_chord_intervals_shift, Emr, Eme. cbn [map_res bind].
  rewrite merge_labeled_shift. unfold str in *. rewrite Em. cbn [map_res bind shm fst snd].
  unfold intervals_to_durations in *. destruct (validate_intervals ivs) as [[]|] eqn:Ev; cbn [bind] in Edur; [|discriminate Edur].
  apply Ok_inj in Edur. subst durations.
  destruct (validate_shift d ivs Ev) as [V|[V Hd]]; rewrite V; cbn [bind]; [|right; auto].
  rewrite Eenc. cbn [bind].
  assert (Hdur : Forall2 Qeq (map (fun v : Q * Q => Qabs (snd v - fst v)) (map (sh d) ivs)) (map (fun v : Q * Q => Qabs (snd v - fst v)) ivs)).
  { rewrite map_map. clear. induction ivs as [|v l IH]; cbn [map]; constructor; [|exact IH]. unfold sh. cbn [fst snd]. apply Qabs_wd. ring. }
  pose proof (mapM_req (acc_of encs (map (fun v : Q * Q => Qabs (snd v - fst v)) ivs))
                       (acc_of encs (map (fun v : Q * Q => Qabs (snd v - fst v)) (map (sh d) ivs))) rules) as Hacc.
  match type of Hacc with ?P -> _ => assert (HP : P) by (intros c _; unfold acc_of, wa; apply wa_q_weights_eq; exact Hdur) end.
  specialize (Hacc HP). fold (acc_of encs (map (fun v : Q * Q => Qabs (snd v - fst v)) (map (sh d) ivs))).
  unfold acc_of in Eacc, Hacc |- *. rewrite Eacc in Hacc.
  match type of Hacc with sres_eq ?m _ => repeat match goal with |- context [bind ?m' _] => progress change m' with m end;
    destruct m as [accs'|] eqn:Eacc' end; cbn [sres_eq] in Hacc; [|contradiction]. cbn [bind].
  destruct (dhd_arrays_shift d me mr du Eu) as [(du' & Eu' & Xu)|[Eu' Hd]]; rewrite Eu'; cbn [bind]; [|right; auto].
  destruct (dhd_arrays_shift d mr me dov Eo) as [(dov' & Eo' & Xo)|[Eo' Hd]]; rewrite Eo'; cbn [bind]; [|right; auto].
  left. eexists. split; [reflexivity|]. apply Forall2_app; [exact Hacc|].
  apply dhd_arrays_inv, dhd_range in Eu. apply dhd_arrays_inv, dhd_range in Eo.
  destruct Eu as (p & -> & _). destruct Eo as (q & -> & _). destruct du' as [p'| | |]; cbn [xeq] in Xu; try contradiction.
  destruct dov' as [q'| | |]; cbn [xeq] in Xo; try contradiction. cbn [xone_minus].
  constructor; [cbn [xeq]; rewrite Xu; reflexivity|]. constructor; [cbn [xeq]; rewrite Xo; reflexivity|]. constructor; [|constructor].
  apply py_min_xeq_fin; [rewrite Xo|rewrite Xu]; reflexivity.
Qed.
(* a later start (d >= 0) never fails *)
Corollary chord_evaluate_shift_later d ri rl ei el s : 0 <= d -> chord_evaluate ri rl ei el = Ok s ->
  exists s', chord_evaluate (map (sh d) ri) rl (map (sh d) ei) el = Ok s' /\ Forall2 xeq s' s.
Proof. intros Hd H. destruct (chord_evaluate_shift d ri rl ei el s H) as [R|[_ Hn]]; [exact R|lra]. Qed.
(* any offset: if both calls return, the scores agree *)
Corollary chord_evaluate_shift_ok d ri rl ei el s s' : chord_evaluate ri rl ei el = Ok s ->
  chord_evaluate (map (sh d) ri) rl (map (sh d) ei) el = Ok s' -> Forall2 xeq s' s.
Proof. intros H H'. destruct (chord_evaluate_shift d ri rl ei el s H) as [(s2 & E & R)|[E _]]; rewrite H' in E; [injection E as <-; exact R|discriminate E]. Qed.
Example chord_evaluate_shift_ex :
  let ri := [(0, 2); (2, 4)] in let rl := [[67]; [71]]%nat in let ei := [(0, 1); (1, 4)] in let el := [[67]; [65; 58; 109; 105; 110]]%nat in
  sres_eq (chord_evaluate (map (sh (7 # 3)) ri) rl (map (sh (7 # 3)) ei) el) (chord_evaluate ri rl ei el)
  /\ (exists s, chord_evaluate ri rl ei el = Ok s)
  /\ chord_evaluate (map (sh (-(1))) ri) rl (map (sh (-(1))) ei) el = Raise ValueError.
Proof. cbv zeta. split; [vm_compute; repeat constructor|]. split; [eexists; vm_compute; reflexivity|vm_compute; reflexivity]. Qed.


(* ====================================================================================================== *)
(* (d) C09: transposing / respelling the roots of all reference and estimate labels by the same interval   *)
(* ====================================================================================================== *)
(* l' is l with its root moved up k semitones (N and X stay): same syntax check, and both encodings (with and without
   reduce_extended_chords) differ by `tr k` only, failures being the same failures *)
Definition tr_label (k : Z) (l l' : str) : Prop :=
  validate_label l' = validate_label l /\
  forall reduce, map_res of_enc (encode l' reduce false) = map_res (fun e => tr k (of_enc e)) (encode l reduce false).

Definition res_rel {A B} (R : A -> B -> Prop) (x : res A) (y : res B) : Prop :=
  match x, y with Ok a, Ok b => R a b | Raise e, Raise e' => e = e' | _, _ => False end.
Definition opt_rel {A B} (R : A -> B -> Prop) (x : option A) (y : option B) : Prop :=
  match x, y with Some a, Some b => R a b | None, None => True | _, _ => False end.
Definition adj_rel {L L'} (R : L -> L' -> Prop) (r : list iv * option (list L)) (r' : list iv * option (list L')) : Prop :=
  fst r = fst r' /\ opt_rel (Forall2 R) (snd r) (snd r').

Lemma Forall2_skipn {A B} (R : A -> B -> Prop) : forall k l l', Forall2 R l l' -> Forall2 R (skipn k l) (skipn k l').
Proof. induction k as [|k IH]; intros l l' H; [exact H|]. destruct H; [constructor|]. cbn [skipn]. apply IH. assumption. Qed.
Lemma Forall2_firstn {A B} (R : A -> B -> Prop) : forall k l l', Forall2 R l l' -> Forall2 R (firstn k l) (firstn k l').
Proof. induction k as [|k IH]; intros l l' H; [constructor|]. destruct H; [constructor|]. cbn [firstn]. constructor; [assumption|]. apply IH. assumption. Qed.
Lemma opt_rel_map {A B} (R : list A -> list B -> Prop) (f : list A -> list A) (g : list B -> list B) x y :
  (forall a b, R a b -> R (f a) (g b)) -> opt_rel R x y -> opt_rel R (option_map f x) (option_map g y).
Proof. intros H. destruct x, y; cbn; auto. Qed.

Section LabelRel.
Context {L L' : Type}.
Variable R : L -> L' -> Prop.
Variables (N : L) (N' : L').
Hypothesis RN : R N N'.

Lemma min_tail_rel t ivs labs labs' : opt_rel (Forall2 R) labs labs' -> res_rel (adj_rel R) (min_tail N t ivs labs) (min_tail N' t ivs labs').
Proof.
  intros H. unfold min_tail. cbv zeta. destruct (qmin_list _) as [mn|]; [|reflexivity]. destruct (qltb t mn); cbn [res_rel]; split; cbn [fst snd]; auto.
  apply opt_rel_map; [|exact H]. intros a b Hab. constructor; assumption.
Qed.
Lemma max_tail_rel t ivs labs labs' : opt_rel (Forall2 R) labs labs' -> res_rel (adj_rel R) (max_tail N t ivs labs) (max_tail N' t ivs labs').
Proof.
  intros H. unfold max_tail. cbv zeta. destruct (qmax_list _) as [mx|]; [|reflexivity]. destruct (qltb mx t); cbn [res_rel]; split; cbn [fst snd]; auto.
  apply opt_rel_map; [|exact H]. intros a b Hab. apply Forall2_app; [assumption|]. constructor; [assumption|constructor].
Qed.
Lemma step_min_rel t ivs labs labs' : opt_rel (Forall2 R) labs labs' -> res_rel (adj_rel R) (step_min N t ivs labs) (step_min N' t ivs labs').
Proof.
  intros H. rewrite !step_min_tail. destruct (find_idx (fun i : Q * Q => qltb t (snd i)) ivs) as [k|]; apply min_tail_rel; [|exact H].
  apply opt_rel_map; [|exact H]. intros a b. apply Forall2_skipn.
Qed.
Lemma step_max_rel t ivs labs labs' : opt_rel (Forall2 R) labs labs' -> res_rel (adj_rel R) (step_max N t ivs labs) (step_max N' t ivs labs').
Proof.
  intros H. rewrite !step_max_tail. destruct (find_idx (fun i : Q * Q => Qle_bool t (fst i)) ivs) as [k|]; apply max_tail_rel; [|exact H].
  apply opt_rel_map; [|exact H]. intros a b. apply Forall2_firstn.
Qed.
Lemma adjust_rel ivs labs labs' a b : Forall2 R labs labs' ->
  res_rel (adj_rel R) (adjust_intervals N N ivs (Some labs) (Some a) (Some b)) (adjust_intervals N' N' ivs (Some labs') (Some a) (Some b)).
Proof.
  intros H. destruct ivs as [|v0 r].
  - cbn. split; cbn; [reflexivity|]. constructor; [exact RN|constructor].
  - rewrite !adjust_nonempty by discriminate. cbn [stage1 stage2].
    pose proof (step_min_rel a (v0 :: r) (Some labs) (Some labs') H) as H1.
    destruct (step_min N a (v0 :: r) (Some labs)) as [[o ol]|e], (step_min N' a (v0 :: r) (Some labs')) as [[o' ol']|e'];
      cbn [res_rel] in H1; try contradiction; cbn [bind fst snd].
    + destruct H1 as [E Hol]. cbn [fst snd] in E, Hol. subst o'. apply step_max_rel. exact Hol.
    + exact H1.
Qed.
End LabelRel.

Lemma Forall2_nth_error {A B} (R : A -> B -> Prop) : forall l l' k, Forall2 R l l' -> opt_rel R (nth_error l k) (nth_error l' k).
Proof. intros l l' k H. revert k. induction H as [|x y l l' Hxy _ IH]; intros [|k]; cbn; auto. Qed.
Lemma merge_pick_rel {L L'} (R : L -> L' -> Prop) ivs labs labs' t : Forall2 R labs labs' ->
  res_rel R (merge_pick ivs labs t) (merge_pick ivs labs' t).
Proof.
  intros H. unfold merge_pick. rewrite <- (Forall2_len _ _ _ H). destruct (negb _); [reflexivity|].
  destruct (last_idx (fun v : Q * Q => Qle_bool (fst v) t) ivs) as [k|]; [|reflexivity]. pose proof (Forall2_nth_error R labs labs' k H) as Hk.
  destruct (nth_error labs k), (nth_error labs' k); cbn in Hk |- *; try contradiction; auto.
Qed.
Lemma mapM_rel {A B B'} (f : A -> res B) (f' : A -> res B') (R : B -> B' -> Prop) : forall l,
  (forall x, In x l -> res_rel R (f x) (f' x)) -> res_rel (Forall2 R) (mapM f l) (mapM f' l).
Proof.
  induction l as [|x l IH]; intros H; [cbn; constructor|]. cbn [mapM].
  pose proof (H x (or_introl eq_refl)) as Hx. specialize (IH (fun y Hy => H y (or_intror Hy))).
  destruct (f x), (f' x); cbn [res_rel] in Hx; try contradiction; [|exact Hx].
  destruct (mapM f l), (mapM f' l); cbn [res_rel] in IH |- *; try contradiction; [constructor; assumption|exact IH].
Qed.
Lemma mapM_rel2 {A A' B B'} (f : A -> res B) (f' : A' -> res B') (P : A -> A' -> Prop) (R : B -> B' -> Prop) : forall l l',
  Forall2 P l l' -> (forall x x', P x x' -> res_rel R (f x) (f' x')) -> res_rel (Forall2 R) (mapM f l) (mapM f' l').
Proof.
  intros l l' HF H. induction HF as [|x x' l l' Hx _ IH]; [cbn; constructor|]. cbn [mapM]. specialize (H x x' Hx).
  destruct (f x), (f' x'); cbn [res_rel] in H; try contradiction; [|exact H].
  destruct (mapM f l), (mapM f' l'); cbn [res_rel] in IH |- *; try contradiction; [constructor; assumption|exact IH].
Qed.
Lemma Forall2_map_fst {A A' B B'} (R : A -> A' -> Prop) (S : B -> B' -> Prop) (l : list (A * B)) (l' : list (A' * B')) :
  Forall2 (fun p p' => R (fst p) (fst p') /\ S (snd p) (snd p')) l l' -> Forall2 R (map fst l) (map fst l') /\ Forall2 S (map snd l) (map snd l').
Proof. induction 1 as [|p p' l l' [H1 H2] _ [IH1 IH2]]; cbn [map]; split; constructor; assumption. Qed.
Definition merged_rel {L L'} (R : L -> L' -> Prop) (m : list iv * list L * list L) (m' : list iv * list L' * list L') : Prop :=
  fst (fst m) = fst (fst m') /\ Forall2 R (snd (fst m)) (snd (fst m')) /\ Forall2 R (snd m) (snd m').
Lemma merge_labeled_rel {L L'} (R : L -> L' -> Prop) xi xl xl' yi yl yl' : Forall2 R xl xl' -> Forall2 R yl yl' ->
  res_rel (merged_rel R) (merge_labeled_intervals xi xl yi yl) (merge_labeled_intervals xi xl' yi yl').
Proof.
  intros Hx Hy. destruct xi as [|x0 rx]; [reflexivity|]. destruct yi as [|y0 ry]; [reflexivity|]. unfold merge_labeled_intervals.
  destruct (negb _ || negb _); [reflexivity|].
  match goal with |- res_rel _ (bind (mapM ?f ?l) _) (bind (mapM ?f' _) _) =>
    pose proof (mapM_rel f f' (fun p p' => R (fst p) (fst p') /\ R (snd p) (snd p')) l) as HM end.
  match type of HM with ?P -> _ => assert (HP : P) end.
  { intros o _. pose proof (merge_pick_rel R (x0 :: rx) xl xl' (fst o) Hx) as H1. pose proof (merge_pick_rel R (y0 :: ry) yl yl' (fst o) Hy) as H2.
    destruct (merge_pick (x0 :: rx) xl (fst o)), (merge_pick (x0 :: rx) xl' (fst o)); cbn [res_rel] in H1; try contradiction; cbn [bind]; [|exact H1].
    destruct (merge_pick (y0 :: ry) yl (fst o)), (merge_pick (y0 :: ry) yl' (fst o)); cbn [res_rel] in H2; try contradiction; cbn [bind res_rel]; auto. }
  specialize (HM HP). destruct (mapM _ _) as [pl|e], (mapM _ _) as [pl'|e']; cbn [res_rel] in HM; try contradiction; cbn [bind res_rel]; [|exact HM].
  destruct (Forall2_map_fst _ _ _ _ HM) as [A B]. split; [reflexivity|]. split; assumption.
Qed.

(* ---- the encodings *)
Definition enc_tr (k : Z) (e e' : enc) : Prop := enc_ok (of_enc e) /\ of_enc e' = tr k (of_enc e).
Lemma tr_label_encode k l l' reduce : tr_label k l l' -> res_rel (enc_tr k) (encode l reduce false) (encode l' reduce false).
Proof.
  intros [_ H]. specialize (H reduce). destruct (encode l reduce false) as [e|x] eqn:E, (encode l' reduce false) as [e'|x']; cbn [map_res] in H; try discriminate H; cbn [res_rel].
  - split; [eapply encode_enc_ok; exact E|congruence].
  - congruence.
Qed.
Lemma encode_many_tr k ls ls' reduce : Forall2 (tr_label k) ls ls' -> res_rel (Forall2 (enc_tr k)) (encode_many ls reduce) (encode_many ls' reduce).
Proof. intros H. unfold encode_many. eapply mapM_rel2; [exact H|]. intros x x' Hx. apply tr_label_encode. exact Hx. Qed.
Lemma enc_eqb_cenc a b : enc_eqb a b = eq_root (of_enc a) (of_enc b) && eq_all (of_enc a) (of_enc b) && eq_bass (of_enc a) (of_enc b).
Proof. destruct a as [[r1 b1] s1], b as [[r2 b2] s2]. reflexivity. Qed.
Lemma enc_eqb_tr k a a' b b' : enc_tr k a a' -> enc_tr k b b' -> enc_eqb a' b' = enc_eqb a b.
Proof.
  intros [Oa Ea] [Ob Eb]. rewrite !enc_eqb_cenc, Ea, Eb, tr_eq_root, tr_eq_all, tr_eq_bass by assumption. reflexivity.
Qed.
Lemma fuse_tr k : forall (ivs : list iv) encs encs' prev prev' cur, Forall2 (enc_tr k) encs encs' -> enc_tr k prev prev' ->
  fuse prev' cur (combine ivs encs') = fuse prev cur (combine ivs encs).
Proof.
  induction ivs as [|v ivs IH]; intros encs encs' prev prev' cur H Hp; [reflexivity|].
  destruct H as [|e e' encs encs' He H]; [reflexivity|]. cbn [combine fuse]. rewrite (enc_eqb_tr k e e' prev prev' He Hp).
  destruct (enc_eqb e prev); [apply IH; assumption|]. f_equal. apply IH; assumption.
Qed.
Lemma merge_chord_intervals_tr k ivs ls ls' : Forall2 (tr_label k) ls ls' -> merge_chord_intervals ivs ls' = merge_chord_intervals ivs ls.
Proof.
  intros H. unfold merge_chord_intervals. pose proof (encode_many_tr k ls ls' true H) as HE.
  destruct (encode_many ls true) as [encs|x], (encode_many ls' true) as [encs'|x']; cbn [res_rel] in HE; try contradiction; cbn [bind]; [|congruence].
  f_equal. destruct ivs as [|v ivs]; [reflexivity|]. destruct HE as [|e e' encs encs' He HE]; [reflexivity|]. cbn [combine fuse_rows].
  apply (fuse_tr k ivs encs encs' e e' v HE He).
Qed.
Lemma mapM_Forall2_eq {A B} (f : A -> res B) : forall l l', Forall2 (fun x x' => f x' = f x) l l' -> mapM f l' = mapM f l.
Proof. induction 1 as [|x x' l l' Hx _ IH]; [reflexivity|]. cbn [mapM]. rewrite Hx, IH. reflexivity. Qed.
Definition pair_tr (k : Z) (p p' : cenc * cenc) : Prop :=
  enc_ok (fst p) /\ enc_ok (snd p) /\ fst p' = tr k (fst p) /\ snd p' = tr k (snd p).
Lemma combine_pair_tr k : forall er er' ee ee', Forall2 (enc_tr k) er er' -> Forall2 (enc_tr k) ee ee' ->
  Forall2 (pair_tr k) (combine (map of_enc er) (map of_enc ee)) (combine (map of_enc er') (map of_enc ee')).
Proof.
  intros er er' ee ee' H. revert ee ee'. induction H as [|a a' er er' [Oa Ea] _ IH]; intros ee ee' H'; [constructor|].
  destruct H' as [|b b' ee ee' [Ob Eb] H']; [constructor|]. cbn [map combine]. constructor; [|apply IH; exact H'].
  unfold pair_tr. cbn [fst snd]. auto.
Qed.
Lemma encode_pairs_tr k rl rl' el el' : Forall2 (tr_label k) rl rl' -> Forall2 (tr_label k) el el' ->
  res_rel (Forall2 (pair_tr k)) (encode_pairs rl el) (encode_pairs rl' el').
Proof.
  intros Hr He. unfold encode_pairs. rewrite <- (Forall2_len _ _ _ Hr), <- (Forall2_len _ _ _ He).
  destruct (negb _); [reflexivity|].
  rewrite (mapM_Forall2_eq validate_label rl rl') by (eapply Forall2_impl_In; [|exact Hr]; intros a b _ [E _]; exact E).
  rewrite (mapM_Forall2_eq validate_label el el') by (eapply Forall2_impl_In; [|exact He]; intros a b _ [E _]; exact E).
  destruct (mapM validate_label rl); [|reflexivity]. cbn [bind]. destruct (mapM validate_label el); [|reflexivity]. cbn [bind].
  pose proof (encode_many_tr k rl rl' false Hr) as H1. pose proof (encode_many_tr k el el' false He) as H2.
  destruct (encode_many rl false), (encode_many rl' false); cbn [res_rel] in H1; try contradiction; cbn [bind]; [|exact H1].
  destruct (encode_many el false), (encode_many el' false); cbn [res_rel] in H2; try contradiction; cbn [bind res_rel]; [|exact H2].
  apply combine_pair_tr; assumption.
Qed.
Lemma comparisons_tr k c encs encs' : In c rules -> Forall2 (pair_tr k) encs encs' ->
  map (fun x : cenc * cenc => c (fst x) (snd x)) encs' = map (fun x : cenc * cenc => c (fst x) (snd x)) encs.
Proof.
  intros Hc H. induction H as [|p p' l l' (O1 & O2 & E1 & E2) _ IH]; [reflexivity|]. cbn [map]. rewrite IH, E1, E2. f_equal.
  apply compare_transpose; assumption.
Qed.
Lemma mapM_ext_in {A B} (f g : A -> res B) : forall l, (forall x, In x l -> f x = g x) -> mapM f l = mapM g l.
Proof.
  induction l as [|x l IH]; intros H; [reflexivity|]. cbn [mapM]. rewrite (H x (or_introl eq_refl)), IH; [reflexivity|].
  intros y Hy. apply H. now right.
Qed.

Theorem chord_scores_transpose k ri rl rl' ei el el' : Forall2 (tr_label k) rl rl' -> Forall2 (tr_label k) el el' ->
  chord_scores ri rl' ei el' = chord_scores ri rl ei el.
Proof.
  intros Hr He. unfold chord_scores. rewrite (merge_chord_intervals_tr k ri rl rl' Hr), (merge_chord_intervals_tr k ei el el' He).
  destruct (merge_chord_intervals ri rl) as [mr|]; [|reflexivity]. cbn [bind].
  destruct (merge_chord_intervals ei el) as [me|]; [|reflexivity]. cbn [bind].
  pose proof (merge_labeled_rel (tr_label k) ri rl rl' ei el el' Hr He) as HM.
  destruct (merge_labeled_intervals ri rl ei el) as [[[ivs rl2] el2]|x], (merge_labeled_intervals ri rl' ei el') as [[[ivs' rl2'] el2']|x'];
    cbn [res_rel] in HM; try contradiction; cbn [bind]; [|congruence].
  destruct HM as (E & H1 & H2). cbn [fst snd] in E, H1, H2. subst ivs'.
  destruct (intervals_to_durations ivs) as [durations|]; [|reflexivity]. cbn [bind].
  pose proof (encode_pairs_tr k rl2 rl2' el2 el2' H1 H2) as HP.
  destruct (encode_pairs rl2 el2) as [encs|x], (encode_pairs rl2' el2') as [encs'|x']; cbn [res_rel] in HP; try contradiction; cbn [bind]; [|congruence].
  rewrite (mapM_ext_in (fun c => wa (map (fun x : cenc * cenc => c (fst x) (snd x)) encs') durations)
                       (fun c => wa (map (fun x : cenc * cenc => c (fst x) (snd x)) encs) durations) rules); [reflexivity|].
  intros c Hc. rewrite (comparisons_tr k c encs encs' Hc HP). reflexivity.
Qed.
Lemma tr_label_N k : tr_label k NO_CHORD NO_CHORD.
Proof. split; [reflexivity|]. intros reduce. rewrite encode_N. reflexivity. Qed.
Lemma tr_label_X k : tr_label k X_CHORD X_CHORD.
Proof. split; [reflexivity|]. intros reduce. rewrite encode_X. reflexivity. Qed.
(* C09: all 15 scores -- and the exception, if any -- are literally the same *)
Theorem chord_evaluate_transpose k ri rl rl' ei el el' : Forall2 (tr_label k) rl rl' -> Forall2 (tr_label k) el el' ->
  chord_evaluate ri rl' ei el' = chord_evaluate ri rl ei el.
Proof.
  intros Hr He. unfold chord_evaluate. destruct (qmin_list (flat ri)) as [tmin|]; [|reflexivity]. destruct (qmax_list (flat ri)) as [tmax|]; [|reflexivity].
  pose proof (adjust_rel (tr_label k) NO_CHORD NO_CHORD (tr_label_N k) ei el el' tmin tmax He) as HA. unfold str in *.
  destruct (adjust_intervals NO_CHORD NO_CHORD ei (Some el) (Some tmin) (Some tmax)) as [[o ol]|x],
           (adjust_intervals NO_CHORD NO_CHORD ei (Some el') (Some tmin) (Some tmax)) as [[o' ol']|x'];
    cbn [res_rel] in HA; try contradiction; cbn [bind fst snd]; [|congruence].
  destruct HA as [E Hol]. cbn [fst snd] in E, Hol. subst o'. destruct ol as [l|], ol' as [l'|]; cbn [opt_rel] in Hol; try contradiction; [|reflexivity].
  apply (chord_scores_transpose k); assumption.
Qed.

(* ---- tr_label holds for every well-formed label whose root is respelt / transposed: the root enters both encodings
   only through pitch_class_to_semitone (ChordTranspose.encode_tr covers reduce = False; here also reduce = True) *)
Definition redq (x : str * str * list str * str) : str * str * list str * str :=
  let '(rt, q, degs, bass) := x in let '(q', add) := reduce_extended_quality q in (rt, q', dedup (degs ++ add), bass).
Lemma split_tail_reduce s om degs bass : split_tail s om degs bass true = map_res redq (split_tail s om degs bass false).
Proof.
  unfold split_tail. destruct (om && negb (has c_colon s)); [reflexivity|]. cbv zeta. destruct (has c_colon s).
  - destruct (two (split_on c_colon s)) as [[rt qn]|]; cbn [bind map_res]; [|reflexivity]. unfold redq.
    destruct (reduce_extended_quality _). reflexivity.
  - cbn [bind map_res]. unfold redq. destruct (reduce_extended_quality _). reflexivity.
Qed.
Lemma split_mid_reduce s bass : split_mid s bass true = map_res redq (split_mid s bass false).
Proof.
  unfold split_mid. destruct (has c_lpar s).
  - destruct (two (split_on c_lpar s)) as [[a sd]|]; cbn [bind map_res]; [apply split_tail_reduce|reflexivity].
  - cbn [bind]. apply split_tail_reduce.
Qed.
Lemma split_reduce s : seqb s NO_CHORD = false -> split s true = map_res redq (split s false).
Proof.
  intros HN. rewrite !split_unfold. destruct (validate_label s) as [[]|]; cbn [bind map_res]; [|reflexivity].
  unfold split_rest. rewrite HN. destruct (has c_slash s).
  - destruct (two (split_on c_slash s)) as [[s' b]|]; cbn [bind map_res]; [apply split_mid_reduce|reflexivity].
  - cbn [bind]. apply split_mid_reduce.
Qed.
Definition enc_after (reduce strict : bool) (x : str * str * list str * str) : res enc :=
  (let '(rt, quality, degs, bass) := x in
   root <- pitch_class_to_semitone rt ;;
   b <- scale_degree_to_semitone bass ;; let bassn := b mod 12 in
   bm <- quality_to_bitmap quality ;;
   let bm := setnth bm 0%nat 1 in
   bm <- fold_left (fun acc d => a <- acc ;; e <- scale_degree_to_bitmap d reduce ;; Ok (vadd a e)) degs (Ok bm) ;;
   let bm := map (fun x => if 0 <? x then 1 else 0) bm in
   if (nth (Z.to_nat bassn) bm 0 =? 0) && strict then Raise InvalidChord
   else Ok (root, setnth bm (Z.to_nat bassn) 1, bassn))%Z.
Lemma encode_after s reduce strict : seqb s NO_CHORD = false -> seqb s X_CHORD = false ->
  encode s reduce strict = (p <- split s reduce ;; enc_after reduce strict p).
Proof. intros HN HX. unfold encode. rewrite HN, HX. destruct (split s reduce) as [[[[rt q] degs] bass]|]; reflexivity. Qed.
Lemma enc_after_root reduce strict rt rt' q degs bs v k :
  pitch_class_to_semitone rt = Ok v -> pitch_class_to_semitone rt' = Ok ((v + k) mod 12)%Z ->
  map_res of_enc (enc_after reduce strict (rt', q, degs, bs)) = map_res (fun e => tr k (of_enc e)) (enc_after reduce strict (rt, q, degs, bs)).
Proof.
  intros Ev Ev'. unfold enc_after. rewrite Ev, Ev'. cbn [bind].
  destruct (scale_degree_to_semitone bs) as [b|]; cbn [bind map_res]; [|reflexivity].
  destruct (quality_to_bitmap q) as [bm0|]; cbn [bind map_res]; [|reflexivity].
  destruct (fold_left _ degs _) as [bm1|]; cbn [bind map_res]; [|reflexivity].
  destruct (_ && strict); cbn [map_res of_enc]; [reflexivity|]. f_equal. unfold tr. cbn [root bm bass].
  pose proof (pcs_range _ _ Ev). destruct (Z.eqb_spec v (-1)); [lia|reflexivity].
Qed.
Theorem tr_label_build rt rt' col dl bo v k : wf rt col dl bo -> lang h_root rt' ->
  pitch_class_to_semitone rt = Ok v -> pitch_class_to_semitone rt' = Ok ((v + k) mod 12)%Z ->
  tr_label k (build rt col dl bo) (build rt' col dl bo).
Proof.
  intros W R' Ev Ev'. assert (W' : wf rt' col dl bo) by (destruct W as (_ & A & B & C); repeat split; assumption).
  destruct (build_head rt col dl bo (proj1 W)) as [HN HX]. destruct (build_head rt' col dl bo R') as [HN' HX']. split.
  - rewrite !(proj2 (validate_label_iff_harte _)) by (apply build_lang; assumption). reflexivity.
  - intros reduce. rewrite !encode_after by assumption. destruct reduce.
    + rewrite !split_reduce, !split_build by assumption. cbn [map_res]. unfold redq. destruct (reduce_extended_quality _) as [q' add]. cbn [bind].
      apply (enc_after_root true false rt rt' _ _ _ v k Ev Ev').
    + rewrite !split_build by assumption. cbn [bind]. apply (enc_after_root false false rt rt' _ _ _ v k Ev Ev').
Qed.
Example tr_label_build_ex :      (* G:maj/3 -> Db:maj/3, a tritone up and respelt *)
  wf [71]%nat (Some [109; 97; 106]%nat) [] (Some [51]%nat) /\ lang h_root [68; 98]%nat /\
  pitch_class_to_semitone [71]%nat = Ok 7%Z /\ pitch_class_to_semitone [68; 98]%nat = Ok ((7 + 6) mod 12)%Z /\
  build [71]%nat (Some [109; 97; 106]%nat) [] (Some [51]%nat) = [71; 58; 109; 97; 106; 47; 51]%nat.
Proof.
  split; [|split; [apply rmatch_iff_lang; vm_compute; reflexivity|repeat split; vm_compute; reflexivity]].
  split; [apply rmatch_iff_lang; vm_compute; reflexivity|]. split; [right; apply rmatch_iff_lang; vm_compute; reflexivity|].
  split; [constructor|]. cbn [basswf]. apply rmatch_iff_lang. vm_compute. reflexivity.
Qed.
(* G:maj/3 | N | E:min7  against  G:maj | E:min7(9), and everything a tritone up and respelt (Db / A#) *)
Example chord_evaluate_transpose_ex :
  let rl := [[71; 58; 109; 97; 106; 47; 51]; [78]; [69; 58; 109; 105; 110; 55]]%nat in
  let rl' := [[68; 98; 58; 109; 97; 106; 47; 51]; [78]; [65; 35; 58; 109; 105; 110; 55]]%nat in
  let el := [[71; 58; 109; 97; 106]; [69; 58; 109; 105; 110; 55; 40; 57; 41]]%nat in
  let el' := [[67; 35; 58; 109; 97; 106]; [66; 98; 58; 109; 105; 110; 55; 40; 57; 41]]%nat in
  Forall2 (tr_label 6) rl rl' /\ Forall2 (tr_label 6) el el' /\
  exists s, chord_evaluate [(0, 2); (2, 3); (3, 5)] rl [(0, 1); (1, 6)] el = Ok s /\
            chord_evaluate [(0, 2); (2, 3); (3, 5)] rl' [(0, 1); (1, 6)] el' = Ok s.
Proof.
  cbv zeta.
  assert (H1 : Forall2 (tr_label 6) [[71; 58; 109; 97; 106; 47; 51]; [78]; [69; 58; 109; 105; 110; 55]]%nat
                                    [[68; 98; 58; 109; 97; 106; 47; 51]; [78]; [65; 35; 58; 109; 105; 110; 55]]%nat).
  { repeat constructor; try (vm_compute; reflexivity); intros [|]; vm_compute; reflexivity. }
  assert (H2 : Forall2 (tr_label 6) [[71; 58; 109; 97; 106]; [69; 58; 109; 105; 110; 55; 40; 57; 41]]%nat
                                    [[67; 35; 58; 109; 97; 106]; [66; 98; 58; 109; 105; 110; 55; 40; 57; 41]]%nat).
  { repeat constructor; try (vm_compute; reflexivity); intros [|]; vm_compute; reflexivity. }
  split; [exact H1|]. split; [exact H2|]. rewrite (chord_evaluate_transpose 6 _ _ _ _ _ _ H1 H2). eexists. split; [vm_compute; reflexivity|reflexivity].
Qed.

Print Assumptions overseg_underseg_swap.
Print Assumptions seg_symmetric.
Print Assumptions seg_error_order_refuted.
Print Assumptions dhd_range.
Print Assumptions seg_range.
Print Assumptions chord_evaluate_range.
Print Assumptions chord_evaluate_seg_finite.
Print Assumptions adjust_self.
Print Assumptions dhd_self.
Print Assumptions chord_evaluate_self.
Print Assumptions wa_q_weights_eq.
Print Assumptions chord_evaluate_shift.
Print Assumptions chord_evaluate_shift_later.
Print Assumptions chord_evaluate_shift_ok.
Print Assumptions tr_label_build.
Print Assumptions chord_scores_transpose.
Print Assumptions chord_evaluate_transpose.
