(* The internals of mir_eval/hierarchy.py tied to the hand-written model by TRANSLATION (translator/hierfuncs.py ->
   Gen/HierGen.v, programs of the Python / NumPy sub-language of Model/HierExp.v, regenerated on every check).

   Proved here for ALL inputs of the stated domain, for every meaning [ext] of the callees, every [argsort] and every fuel:
     _round             [round_tie]             = Model.Hierarchy.hround            (scalar time, frame_size > 0)
     _hierarchy_bounds  [hierarchy_bounds_tie]  = Model.Hierarchy.hier_bounds       (every list of (k,2) float arrays;
                                                                                      ValueError on no boundary at all)
     _count_inversions  [count_inversions_tie]  = Model.Hierarchy.count_inversions  (non-negative integer arrays; the while
                            loop by induction on the model's own fuel, [ci_while_spec]; needs fuel > len(a) + len(b))
     _compare_frame_rankings, PARTIAL [cfr_level_pairs_stmt_partial]: the statement that builds the level pairs
                            (itertools.combinations(levels, 2) / [(i, i + 1) for i in levels]) = Model.Hierarchy.level_pairs,
                            in every environment that binds `transitive` and `levels`.
   The rest is in Proofs/HierTieCfr.v (_compare_frame_rankings, whole body, argsort oracle), Proofs/HierTieGauc.v (_gauc) and
   Proofs/HierTieLca.v (_round on arrays, _lca). _meet is not translated.
   Facts about generated code are obtained by evaluation of the generated terms only. *)
From Coq Require Import String.
From Coq Require Import List Bool Arith ZArith QArith Qabs Qminmax Qround Lia Lqa Permutation.
From ME Require Import Model.Prelude Model.Events Model.Hierarchy Model.HierExp Gen.HierGen.
From ME Require Import Proofs.HierarchyInv.
Import ListNotations.
Local Open Scope nat_scope.

Definition hier_sigs : list (string * option sigv) := sigs_of (fun_params hier_funs).

Local Arguments builtin argsort f args kws : simpl nomatch.
Local Arguments read_loc x en : simpl nomatch.
Local Arguments bin_op op a b : simpl nomatch.
Local Arguments num_op op a b : simpl nomatch.
Local Arguments cmp_op op a b : simpl nomatch.
Local Arguments truth v : simpl nomatch.
Local Arguments get_item a i : simpl nomatch.
Local Arguments set_item a i v : simpl nomatch.
Local Arguments iter_elems v : simpl nomatch.
Local Arguments Z.of_nat : simpl never.
Local Arguments for_loop : simpl never.
Local Arguments while_loop : simpl never.
Local Arguments for_step : simpl never.
Local Arguments Qdiv : simpl never.
Local Arguments Qmult : simpl never.
Local Arguments Qplus : simpl never.
Local Arguments Qminus : simpl never.
Local Arguments Qeq_bool : simpl never.
Local Arguments Qle_bool : simpl never.
Local Arguments qeqb : simpl never.
Local Arguments qleb : simpl never.
Local Arguments qltb : simpl never.
Local Arguments qmod : simpl never.
Local Arguments inject_Z : simpl never.
Local Arguments zq : simpl never.
Local Arguments Z.max : simpl never.
Local Arguments Z.min : simpl never.
Local Arguments Z.add : simpl never.
Local Arguments Z.sub : simpl never.
Local Arguments Z.mul : simpl never.
Local Arguments Z.ltb : simpl never.
Local Arguments Z.leb : simpl never.
Local Arguments Z.eqb : simpl never.
Local Arguments norm_idx : simpl never.
Local Arguments hier_sigs : simpl never.
Local Arguments Nat.ltb : simpl never.
Local Arguments Nat.leb : simpl never.
Local Arguments py_slice : simpl never.
Local Arguments uq_counts : simpl never.
Local Arguments hround : simpl never.
Local Arguments Qmin : simpl never.
Local Arguments Qmax : simpl never.

Section Ties.
Variable argsort : list nat -> list nat.
Variable fuel : nat.
Variable ext : string -> list pv -> out pv.
Local Notation runx := (run_fun argsort fuel hier_sigs ext).

(* ---------- _round ---------- *)
Theorem round_tie : forall t fs : Q, (0 < fs)%Q ->
  runx gen__round [VFloat t; VFloat fs] = OK (VFloat (hround t fs)).
Proof.
  intros t fs H. unfold run_fun. cbn.
  assert (E : qltb 0 fs = true) by (unfold qltb; rewrite negb_true_iff; apply not_true_is_false; rewrite Qle_bool_iff; lra).
  unfold builtin. cbn. rewrite E. cbn. reflexivity.
Qed.

(* ---------- _hierarchy_bounds ---------- *)
(* a hierarchy: a Python list of (k, 2) float arrays *)
Definition v_level (l : list (Q * Q)) : pv := VQMat (map (fun p => [fst p; snd p]) l).
Definition v_hier (H : hier) : pv := VList (map v_level H).
Definition lift_res {A} (f : A -> pv) (r : res A) : out pv := match r with Ok a => OK (f a) | Raise e => EXN e end.
Definition v_pairQ (p : Q * Q) : pv := VTup [VFloat (fst p); VFloat (snd p)].

Lemma iter_all_levels H :
  iter_all (map v_level H) = OK (map (fun l => map VQVec (map (fun p => [fst p; snd p]) l)) H).
Proof. induction H as [|l H IH]; [reflexivity|]. cbn [map iter_all]. rewrite IH. reflexivity. Qed.
Lemma iter_all_rows (rs : list (list Q)) : iter_all (map VQVec rs) = OK (map (map VFloat) rs).
Proof. induction rs as [|r rs IH]; [reflexivity|]. cbn [map iter_all]. rewrite IH. reflexivity. Qed.
Lemma concat_levels (H : hier) :
  concat (map (fun l => map VQVec (map (fun p : Q * Q => [fst p; snd p]) l)) H)
  = map VQVec (concat (map (fun l => map (fun p : Q * Q => [fst p; snd p]) l) H)).
Proof. induction H as [|l H IH]; [reflexivity|]. cbn [map concat]. rewrite map_app, IH. reflexivity. Qed.
Lemma boundaries_concat (H : hier) :
  concat (map (map VFloat) (concat (map (fun l => map (fun p : Q * Q => [fst p; snd p]) l) H))) = map VFloat (boundaries H).
Proof.
  unfold boundaries. induction H as [|l H IH]; [reflexivity|]. cbn [map concat flat_map].
  rewrite map_app, concat_app, map_app, IH. f_equal.
  clear. induction l as [|p l IH]; [reflexivity|]. cbn [map concat flat_map app]. rewrite IH. reflexivity.
Qed.
Lemma omap_floats l : omap (fun v => match v with VFloat q => Some q | _ => None end) (map VFloat l) = Some l.
Proof. induction l as [|x l IH]; [reflexivity|]. cbn [map omap]. rewrite IH. reflexivity. Qed.

Theorem hierarchy_bounds_tie : forall H : hier,
  runx gen__hierarchy_bounds [v_hier H] = lift_res v_pairQ (hier_bounds H).
Proof.
  intros H. unfold run_fun. cbn. unfold builtin. cbn.
  rewrite iter_all_levels. cbn. rewrite concat_levels. cbn. rewrite iter_all_rows. cbn. rewrite boundaries_concat.
  cbn. rewrite omap_floats. unfold hier_bounds. destruct (boundaries H) as [|x t]; reflexivity.
Qed.

(* ---------- generic facts about the evaluator ---------- *)
Lemma run_block_app f a b en :
  run_block f (a ++ b) en = match run_block f a en with SNorm en' => run_block f b en' | o => o end.
Proof. revert en. induction a as [|s r IH]; intros en; [reflexivity|]. cbn [app run_block].
  destruct (f s en); try reflexivity. apply IH. Qed.
Lemma exec_while c b en :
  exec argsort fuel hier_sigs ext (SWhile c b) en
  = while_loop (fun en' => v <~ eval argsort hier_sigs ext en' c ;; truth v) (run_block (exec argsort fuel hier_sigs ext) b) fuel en.
Proof. reflexivity. Qed.
Lemma while_loop_S cond body k en :
  while_loop cond body (S k) en
  = lift_e (cond en) (fun t => if t then match body en with SNorm en' | SCnt en' => while_loop cond body k en' | r => r end else SNorm en).
Proof. reflexivity. Qed.
Lemma zltb_nat i n : (Z.of_nat i <? Z.of_nat n)%Z = (i <? n).
Proof. destruct (Nat.ltb_spec i n); [apply Z.ltb_lt|apply Z.ltb_ge]; lia. Qed.
Lemma zleb_nat i n : (Z.of_nat i <=? Z.of_nat n)%Z = (i <=? n).
Proof. destruct (Nat.leb_spec i n); [apply Z.leb_le|apply Z.leb_gt]; lia. Qed.
Lemma zeqb_nat i n : (Z.of_nat i =? Z.of_nat n)%Z = (i =? n).
Proof. destruct (Nat.eqb_spec i n); [apply Z.eqb_eq|apply Z.eqb_neq]; lia. Qed.
Lemma norm_idx_nat i n : i < n -> norm_idx (Z.of_nat i) n = Some i.
Proof. intros H. unfold norm_idx. replace ((0 <=? Z.of_nat i)%Z && (Z.of_nat i <? Z.of_nat n)%Z) with true.
  - rewrite Nat2Z.id. reflexivity.
  - symmetry. apply andb_true_iff. split; [apply Z.leb_le|apply Z.ltb_lt]; lia. Qed.
Lemma norm_idx_nat_out i n : n <= i -> norm_idx (Z.of_nat i) n = None.
Proof. intros H. unfold norm_idx.
  replace (Z.of_nat i <? Z.of_nat n)%Z with false by (symmetry; apply Z.ltb_ge; lia).
  replace (Z.of_nat i <? 0)%Z with false by (symmetry; apply Z.ltb_ge; lia). rewrite andb_false_r. reflexivity. Qed.
Lemma get_item_nvec l i : i < length l -> get_item (VNVec l) (zn i) = OK (zn (nth i l 0)).
Proof. intros H. unfold get_item, zn. rewrite norm_idx_nat by exact H. reflexivity. Qed.
Lemma norm_bound_nat n i : norm_bound n (Z.of_nat i) = Nat.min i n.
Proof. unfold norm_bound. replace (Z.of_nat i <? 0)%Z with false by (symmetry; apply Z.ltb_ge; lia). rewrite Nat2Z.id. reflexivity. Qed.
Lemma firstn_ge {A} k (l : list A) : length l <= k -> firstn k l = l.
Proof. intros. apply firstn_all2. exact H. Qed.
Lemma py_slice_from {A} i (l : list A) : py_slice (Some (Z.of_nat i)) None l = skipn i l.
Proof.
  unfold py_slice, slice_lo, slice_hi. rewrite norm_bound_nat.
  destruct (Nat.le_ge_cases i (length l)) as [H|H].
  - rewrite Nat.min_l by exact H. apply firstn_ge. rewrite skipn_length. lia.
  - rewrite Nat.min_r by exact H. rewrite !skipn_all2 by lia. destruct (length l - length l); reflexivity.
Qed.
(* l[lo:hi] for non-negative bounds *)
Lemma py_slice_nat {A} lo hi (l : list A) : py_slice (Some (Z.of_nat lo)) (Some (Z.of_nat hi)) l = firstn (hi - lo) (skipn lo l).
Proof.
  unfold py_slice, slice_lo, slice_hi. rewrite !norm_bound_nat.
  destruct (Nat.le_ge_cases lo (length l)) as [H|H].
  - rewrite (Nat.min_l lo) by exact H. destruct (Nat.le_ge_cases hi (length l)) as [H2|H2].
    + rewrite Nat.min_l by exact H2. reflexivity.
    + rewrite Nat.min_r by exact H2. rewrite !firstn_ge; [reflexivity| |]; rewrite skipn_length; lia.
  - rewrite (Nat.min_r lo) by exact H. rewrite !skipn_all2 by lia. rewrite !firstn_nil. reflexivity.
Qed.
Lemma py_slice_to {A} hi (l : list A) : py_slice None (Some (Z.of_nat hi)) l = firstn hi l.
Proof.
  unfold py_slice, slice_lo, slice_hi. rewrite norm_bound_nat, Nat.sub_0_r. cbn [skipn].
  destruct (Nat.le_ge_cases hi (length l)) as [H|H]; [rewrite Nat.min_l by exact H; reflexivity|].
  rewrite Nat.min_r by exact H. rewrite !firstn_ge by lia. reflexivity.
Qed.
Lemma skipn_nil_iff {A} i (l : list A) : skipn i l = [] -> length l <= i.
Proof. intros H. apply (f_equal (@length A)) in H. rewrite skipn_length in H. cbn in H. lia. Qed.
Lemma skipn_cons_inv {A} i (l : list A) x t d : skipn i l = x :: t -> i < length l /\ nth i l d = x /\ skipn (S i) l = t.
Proof.
  revert l. induction i as [|i IH]; intros l H.
  - cbn in H. subst l. cbn. repeat split. lia.
  - destruct l as [|y l]; [discriminate|]. cbn [skipn] in H. destruct (IH l H) as (H1 & H2 & H3). cbn [length nth]. repeat split; [lia|exact H2|exact H3].
Qed.
Lemma nth_fst (l : list (nat * nat)) i : nth i (map fst l) 0 = fst (nth i l (0, 0)).
Proof. exact (map_nth fst l (0, 0) i). Qed.
Lemma nth_snd (l : list (nat * nat)) i : nth i (map snd l) 0 = snd (nth i l (0, 0)).
Proof. exact (map_nth snd l (0, 0) i). Qed.
Lemma uq_counts_eq l : uq_counts l = ucounts l.
Proof. reflexivity. Qed.
Lemma wsum_sum A : fold_right Nat.add 0 (map snd A) = wsum A.
Proof. induction A as [|p A IH]; [reflexivity|]. cbn [map fold_right wsum]. unfold wsum in IH. rewrite IH. reflexivity. Qed.

(* ---------- _count_inversions ---------- *)
Lemma uc_insert_length x l : length (uc_insert x l) <= S (length l).
Proof. induction l as [|[v c] l IH]; cbn [uc_insert length]; [lia|]. destruct (x <? v); [cbn [length]; lia|]. destruct (x =? v); cbn [length]; lia. Qed.
Lemma ucounts_length_le l : length (ucounts l) <= length l.
Proof. induction l as [|x l IH]; [cbn; lia|]. cbn [ucounts fold_right length]. fold (ucounts l). pose proof (uc_insert_length x (ucounts l)). lia. Qed.
Definition ci_pre : list stmt := firstn 5 (f_body gen__count_inversions).
Definition ci_cond : exp := match nth 5 (f_body gen__count_inversions) SPass with SWhile c _ => c | _ => ENone end.
Definition ci_body : list stmt := match nth 5 (f_body gen__count_inversions) SPass with SWhile _ b => b | _ => [] end.
Definition ci_post : list stmt := skipn 6 (f_body gen__count_inversions).
Lemma ci_split : f_body gen__count_inversions = ci_pre ++ SWhile ci_cond ci_body :: ci_post.
Proof. reflexivity. Qed.
Definition ci_env (A B : wl) (acc : Z) (i j : nat) : env :=
  [("a"%string, VNVec (map fst A)); ("b"%string, VNVec (map fst B)); ("a_counts"%string, VNVec (map snd A));
   ("b_counts"%string, VNVec (map snd B)); ("inversions"%string, VInt acc); ("i"%string, zn i); ("j"%string, zn j)].

Lemma ci_while_spec A0 B0 : forall f k i j acc, f < k ->
  length (skipn i A0) + length (skipn j B0) <= f ->
  exists i' j',
    while_loop (fun en' => v <~ eval argsort hier_sigs ext en' ci_cond ;; truth v)
               (run_block (exec argsort fuel hier_sigs ext) ci_body) k (ci_env A0 B0 (Z.of_nat acc) i j)
    = SNorm (ci_env A0 B0 (Z.of_nat (ci_loop f (skipn i A0) (skipn j B0) acc)) i' j').
Proof.
  induction f as [|f IH]; intros k i j acc Hk Hm; (destruct k as [|k]; [lia|]); rewrite while_loop_S.
  - (* both suffixes are empty *)
    assert (Ha : length A0 <= i) by (rewrite skipn_length in Hm; lia).
    exists i, j. unfold ci_cond. cbn. rewrite map_length, zltb_nat.
    replace (i <? length A0) with false by (symmetry; apply Nat.ltb_ge; exact Ha). cbn. reflexivity.
  - destruct (skipn i A0) as [|[a ca] A'] eqn:EA.
    { apply skipn_nil_iff in EA. exists i, j. unfold ci_cond. cbn. rewrite map_length, zltb_nat.
      replace (i <? length A0) with false by (symmetry; apply Nat.ltb_ge; exact EA). cbn. reflexivity. }
    destruct (skipn_cons_inv _ _ _ _ (0, 0) EA) as (Hi & Hn & HA').
    destruct (skipn j B0) as [|[b cb] B'] eqn:EB.
    { apply skipn_nil_iff in EB. exists i, j. unfold ci_cond. cbn. rewrite !map_length, !zltb_nat.
      replace (i <? length A0) with true by (symmetry; apply Nat.ltb_lt; exact Hi). cbn.
      replace (j <? length B0) with false by (symmetry; apply Nat.ltb_ge; exact EB). cbn. reflexivity. }
    destruct (skipn_cons_inv _ _ _ _ (0, 0) EB) as (Hj & Hnb & HB').
    unfold ci_cond. cbn. rewrite !map_length, !zltb_nat.
    replace (i <? length A0) with true by (symmetry; apply Nat.ltb_lt; exact Hi). cbn.
    replace (j <? length B0) with true by (symmetry; apply Nat.ltb_lt; exact Hj). cbn.
    unfold ci_body. cbn.
    rewrite !get_item_nvec by (rewrite map_length; assumption). cbn.
    rewrite !nth_fst, Hn, Hnb. cbn [fst]. rewrite zltb_nat.
    cbn [ci_loop]. destruct (a <? b) eqn:Eab; cbn.
    + (* i += 1 *)
      replace (Z.of_nat i + 1)%Z with (Z.of_nat (S i)) by lia.
      destruct (IH k (S i) j acc) as (i' & j' & E); [lia|rewrite HA', EB; cbn [length] in *; lia|].
      rewrite HA', EB in E. exists i', j'. exact E.
    + rewrite !get_item_nvec by (rewrite map_length; assumption). cbn.
      rewrite !nth_fst, Hn, Hnb. cbn [fst]. rewrite zleb_nat.
      replace (b <=? a) with true by (symmetry; apply Nat.leb_le; apply Nat.ltb_ge in Eab; exact Eab). cbn.
      unfold builtin. cbn. rewrite py_slice_from. rewrite !get_item_nvec by (rewrite map_length; assumption). cbn.
      rewrite nth_snd, Hnb. cbn [snd]. rewrite skipn_map, EA, wsum_sum.
      replace (Z.of_nat acc + Z.of_nat (wsum ((a, ca) :: A')) * Z.of_nat cb)%Z with (Z.of_nat (acc + wsum ((a, ca) :: A') * cb)) by lia.
      replace (Z.of_nat j + 1)%Z with (Z.of_nat (S j)) by lia.
      destruct (IH k i (S j) (acc + wsum ((a, ca) :: A') * cb)) as (i' & j' & E); [lia|rewrite HB', EA; cbn [length] in *; lia|].
      rewrite HB', EA in E. exists i', j'. exact E.
Qed.

Theorem count_inversions_tie : forall a b : list nat, length a + length b < fuel ->
  runx gen__count_inversions [VNVec a; VNVec b] = OK (zn (count_inversions a b)).
Proof.
  intros a b Hf. unfold run_fun. cbn [length f_params gen__count_inversions Nat.eqb].
  change (f_body _) with (f_body gen__count_inversions). rewrite ci_split. unfold exec_block. rewrite run_block_app.
  remember (run_block (exec argsort fuel hier_sigs ext) (SWhile ci_cond ci_body :: ci_post)) as K eqn:HK.
  unfold ci_pre. cbn. unfold builtin. cbn. subst K. cbn [run_block]. rewrite exec_while.
  destruct (ci_while_spec (uq_counts a) (uq_counts b) (length a + length b) fuel 0 0 0 Hf) as (i' & j' & E).
  { pose proof (ucounts_length_le a) as Ha. pose proof (ucounts_length_le b) as Hb. rewrite <- !uq_counts_eq in *. cbn [skipn]. lia. }
  unfold ci_env in E. change (zn 0) with (VInt 0) in E. change (Z.of_nat 0) with 0%Z in E. cbn [skipn] in E. rewrite E. unfold ci_post. cbn.
  unfold count_inversions. cbv zeta. change uq_counts with ucounts.
  pose proof (ucounts_length_le a) as Ha. pose proof (ucounts_length_le b) as Hb.
  rewrite (ci_loop_spec (length a + length b)) by (try apply incr_ucounts; lia).
  rewrite (ci_loop_spec (length (ucounts a) + length (ucounts b))) by (try apply incr_ucounts; lia).
  reflexivity.
Qed.

(* ---------- _compare_frame_rankings (PARTIAL: the statement that builds the level pairs) ---------- *)
(* statement 10 of the body:   if transitive: level_pairs = itertools.combinations(levels, 2)
                                else:          level_pairs = [(i, i + 1) for i in levels]             *)
Definition cfr_level_pairs_stmt : stmt := nth 9 (f_body gen__compare_frame_rankings) SPass.
Definition v_npair (p : nat * nat) : pv := VTup [zn (fst p); zn (snd p)].
Lemma concatM_cons r l : concatM (r :: l) = (a <~ r ;; b <~ concatM l ;; OK (a ++ b)). Proof. reflexivity. Qed.
Lemma concatM_single {A} (g : A -> pv) l : concatM (map (fun x => OK [g x]) l) = OK (map g l).
Proof. induction l as [|x t IH]; [reflexivity|]. cbn [map]. rewrite concatM_cons, IH. reflexivity. Qed.
Lemma combs_map {A B} (f : A -> B) l : combs (map f l) = map (fun p => (f (fst p), f (snd p))) (combs l).
Proof. induction l as [|x t IH]; [reflexivity|]. cbn [map combs]. rewrite map_app, IH, !map_map. reflexivity. Qed.
Lemma combs_combs2 (L : list nat) : combs L = combs2 L.
Proof. induction L as [|x t IH]; [reflexivity|]. cbn [combs combs2]. rewrite IH. reflexivity. Qed.
Local Arguments concatM l : simpl never.
Lemma sres_id r : match r with SNorm en' => SNorm en' | SRet v => SRet v | SExn e => SExn e | SCnt en' => SCnt en' | SUnm => SUnm end = r.
Proof. destruct r; reflexivity. Qed.
Theorem cfr_level_pairs_stmt_partial : forall (en : env) (tr : bool) (L : list nat),
  lookup "transitive" en = Some (VBool tr) -> lookup "levels" en = Some (VNVec L) ->
  exec argsort fuel hier_sigs ext cfr_level_pairs_stmt en
  = set1 "level_pairs" (VList (map v_npair (level_pairs tr L))) en.
Proof.
  intros en tr L Ht Hl. unfold cfr_level_pairs_stmt. cbn. unfold read_loc. rewrite Ht. cbn. destruct tr; cbn.
  - unfold read_loc. rewrite Hl. cbn. unfold builtin. cbn. rewrite combs_map, map_map. cbn [fst snd]. rewrite sres_id, combs_combs2. reflexivity.
  - unfold read_loc. rewrite Hl. cbn. rewrite map_map. cbn.
    rewrite (map_ext _ (fun x => OK [v_npair (x, S x)])).
    2:{ intros x. unfold v_npair. cbn [fst snd]. replace (Z.of_nat x + 1)%Z with (Z.of_nat (S x)) by lia. reflexivity. }
    rewrite (concatM_single (fun x => v_npair (x, S x))). cbn. rewrite map_map, sres_id. reflexivity.
Qed.
End Ties.

(* ---------- the statements, closed ---------- *)
Check round_tie.
Print Assumptions round_tie.
Check hierarchy_bounds_tie.
Print Assumptions hierarchy_bounds_tie.
Check count_inversions_tie.
Print Assumptions count_inversions_tie.
Check cfr_level_pairs_stmt_partial.
Print Assumptions cfr_level_pairs_stmt_partial.

(* the hypotheses are satisfiable; the programs evaluate (values checked against the real interpreter):
   _round(53.25, 0.25) = 53.25, _round(1.75, 0.5) = 1.5; _hierarchy_bounds([[[0,30],[30,60]], [[0,15],[15,60]]]) = (0, 60),
   _hierarchy_bounds([]) raises ValueError; _count_inversions([2,1,1],[1,3]) = 3, _count_inversions([], [1]) = 0 *)
Example round_run :
  run_fun (fun l => l) 0 hier_sigs (fun _ _ => UNM) gen__round [VFloat (7#4); VFloat (1#2)] = OK (VFloat (hround (7#4) (1#2)))
  /\ Qeq_bool (hround (7#4) (1#2)) (3#2) = true.
Proof. split; [apply round_tie; reflexivity|vm_compute; reflexivity]. Qed.
Example hierarchy_bounds_run :
  run_fun (fun l => l) 0 hier_sigs (fun _ _ => UNM) gen__hierarchy_bounds
    [v_hier [[(0%Q, 30#1); (30#1, 60#1)]; [(0%Q, 15#1); (15#1, 60#1)]]] = OK (VTup [VFloat 0%Q; VFloat (60#1)])
  /\ run_fun (fun l => l) 0 hier_sigs (fun _ _ => UNM) gen__hierarchy_bounds [v_hier []] = EXN ValueError.
Proof. split; vm_compute; reflexivity. Qed.
Example count_inversions_run :
  run_fun (fun l => l) 10 hier_sigs (fun _ _ => UNM) gen__count_inversions [VNVec [2; 1; 1]; VNVec [1; 3]] = OK (VInt 3)
  /\ run_fun (fun l => l) 10 hier_sigs (fun _ _ => UNM) gen__count_inversions [VNVec []; VNVec [1]] = OK (VInt 0)
  /\ run_fun (fun l => l) 2 hier_sigs (fun _ _ => UNM) gen__count_inversions [VNVec [2; 1; 1]; VNVec [1; 3]] = UNM.
Proof. repeat split; vm_compute; reflexivity. Qed.
(* the other generated programs run too (not tied by a theorem yet - see the report): _compare_frame_rankings([2,2,1,1],[2,1,1,1])
   = (2, 4.0) in reduced mode, with the stable argsort [2,3,0,1] *)
Example compare_frame_rankings_run :
  run_fun (fun _ => [2; 3; 0; 1]) 20 hier_sigs
    (fun f vs => match vs with [VNVec x; VNVec y] => OK (zn (count_inversions x y)) | _ => UNM end)
    gen__compare_frame_rankings [VNVec [2; 2; 1; 1]; VNVec [2; 1; 1; 1]; VBool false] = OK (VTup [VInt 2; VFloat (4#1)]).
Proof. vm_compute. reflexivity. Qed.
(* _gauc (callee = the model's compare_frame_rankings) and _lca (callees = hround / hier_bounds) on one input each; the
   real interpreter gives 0.0 resp. [[2,2,1,1],[2,2,1,1],[1,1,2,2],[1,1,2,2]] *)
Definition model_ext (f : string) (vs : list pv) : out pv :=
  match vs with
  | [VNVec x; VNVec y] => OK (zn (Hierarchy.count_inversions x y))
  | [VNVec r; VNVec e; VBool t] =>
      match compare_frame_rankings r e t with
      | Ok p => OK (VTup [zn (fst p); VFloat (qnat (snd p))]) | Raise x => EXN x end
  | [VFloat t; VFloat fs] => OK (VFloat (hround t fs))
  | [VQMat m; VFloat fs] => OK (VQMat (map (map (fun t => hround t fs)) m))
  | [VList l] =>
      match omap (fun v => match v with VQMat m => Some (map (fun r => (nth 0 r 0%Q, nth 1 r 0%Q)) m) | _ => None end) l with
      | Some H => lift_res v_pairQ (hier_bounds H) | None => UNM end
  | _ => UNM end.
Example gauc_lca_run :
  (exists q, run_fun (fun l => l) 20 hier_sigs model_ext gen__gauc
     [VSp [[2; 2; 1]; [2; 2; 1]; [1; 1; 2]]; VSp [[1; 1; 1]; [1; 2; 2]; [1; 2; 2]]; VBool true; VNone] = OK (VFloat q)
     /\ Qeq_bool q 0 = true)
  /\ run_fun (fun l => l) 20 hier_sigs model_ext gen__lca [v_hier [[(0%Q, 2#1)]; [(0%Q, 1#1); (1#1, 2#1)]]; VFloat (1#2)]
     = OK (VSp [[2; 2; 1; 1]; [2; 2; 1; 1]; [1; 1; 2; 2]; [1; 1; 2; 2]]).
Proof. split; [eexists; split; [vm_compute; reflexivity|vm_compute; reflexivity]|vm_compute; reflexivity]. Qed.
