(* C15, layer 2: the anchored helpers of mir_eval (transcribed in Model/HeapPrograms.v) do not modify any object of
   their caller - by the soundness theorem of Proofs/HeapSound.v, after checking BY COMPUTATION that every write site
   of every function of the transcribed program is local - and the versions before the fixes DO modify them
   (`*_refuted`: concrete heaps on which the caller's object changes, and `writes_local = false`).

   The transcriptions are tied to /repo in two ways: the write sites the abstract interpretation finds in them are
   exactly the rows the translator emitted for these functions on this run (`*_sites_match_translator`, over
   Gen/WriteSites.v), and harness/units/purity_helpers.py runs them against the real functions. *)
From Coq Require Import List String Bool Arith ZArith QArith Lia.
From ME Require Import Model.Prelude Model.Heap Model.HeapPrograms Model.Purity Gen.WriteSites Proofs.HeapSound.
Import ListNotations.
Open Scope string_scope.
Open Scope list_scope.
Open Scope nat_scope.

(* the returns-only-fresh summaries, computed as the translator does (iteration from the empty set) *)
Definition FS : list fname := fresh_funcs helpers_prog.
Definition FS_old : list fname := fresh_funcs helpers_prog_old.

Theorem helpers_fresh_funcs :
  FS = ["freq_to_voicing"; "hz2cents"; "resample_melody_series"; "to_cent_voicing"; "detection"; "evaluate"] /\
  FS_old = ["hz2cents"; "resample_melody_series"; "detection"; "evaluate"].
Proof. split; vm_compute; reflexivity. Qed.

(* every function of the transcribed program: all write sites local, loop environments invariant, no element loads;
   the summaries are consistent *)
Theorem helpers_prog_ok : prog_ok helpers_prog FS = true.
Proof. vm_compute. reflexivity. Qed.

(* ------------------------------------------------------------------------------------------------ write sites = translator's *)
Definition show_origin (o : origin) : string :=
  match o with Fresh => "Fresh" | Kwargs => "Kwargs" | Param p => "Param:" ++ p | Global n => "Global:" ++ n | Unknown => "Unknown" end.
Definition model_sites (d : fdef) : list (string * list string) :=
  map (fun st => (fst st, map show_origin (snd st))) (asites FS (f_body d) (init_aenv d)).
(* the rows of Gen/WriteSites.v for one function (targets and origins, in source order) *)
Definition gen_sites (m f : string) : list (string * list string) :=
  map (fun s => (s_target s, s_origins s))
      (filter (fun s => String.eqb (s_module s) m && String.eqb (s_function s) f) write_sites).

Theorem adjust_intervals_sites_match_translator : model_sites adjust_intervals_def = gen_sites "util" "adjust_intervals".
Proof. vm_compute. reflexivity. Qed.
Theorem adjust_events_sites_match_translator : model_sites adjust_events_def = gen_sites "util" "adjust_events".
Proof. vm_compute. reflexivity. Qed.
Theorem freq_to_voicing_sites_match_translator : model_sites freq_to_voicing_def = gen_sites "melody" "freq_to_voicing".
Proof. vm_compute. reflexivity. Qed.
Theorem to_cent_voicing_sites_match_translator : model_sites to_cent_voicing_def = gen_sites "melody" "to_cent_voicing".
Proof. vm_compute. reflexivity. Qed.
Theorem hz2cents_sites_match_translator : model_sites hz2cents_def = gen_sites "melody" "hz2cents".
Proof. vm_compute. reflexivity. Qed.
Theorem resample_melody_series_sites_match_translator : model_sites rms_def = gen_sites "melody" "resample_melody_series".
Proof. vm_compute. reflexivity. Qed.
(* segment.evaluate: the stores into its own **kwargs dict *)
Theorem evaluate_kwargs_sites_match_translator :
  filter (fun st => String.eqb (fst st) "kwargs") (model_sites evaluate_def) =
  filter (fun st => String.eqb (fst st) "kwargs") (gen_sites "segment" "evaluate").
Proof. vm_compute. reflexivity. Qed.

(* ------------------------------------------------------------------------------------------------ the helpers are pure *)
Theorem adjust_intervals_writes_local : writes_local FS adjust_intervals_def = true.
Proof. vm_compute. reflexivity. Qed.
Theorem adjust_events_writes_local : writes_local FS adjust_events_def = true.
Proof. vm_compute. reflexivity. Qed.
Theorem freq_to_voicing_writes_local : writes_local FS freq_to_voicing_def = true.
Proof. vm_compute. reflexivity. Qed.
Theorem to_cent_voicing_writes_local : writes_local FS to_cent_voicing_def = true.
Proof. vm_compute. reflexivity. Qed.
Theorem evaluate_writes_local : writes_local FS evaluate_def = true.
Proof. vm_compute. reflexivity. Qed.

(* Called with ANY argument values, keyword items and caller heap, with any outcome (return / exception), every object
   that existed before the call - the interval array, the label list, the voicing / reward arrays, ... - is unchanged. *)
Theorem adjust_intervals_preserves_caller_objects : forall fuel vs items h0 h',
  out_heap (invoke helpers_prog fuel adjust_intervals_def vs items h0) = Some h' ->
  forall l, l < next_loc h0 -> hget h' l = hget h0 l.
Proof. intros fuel vs items h0 h'. apply (caller_objects_preserved helpers_prog FS helpers_prog_ok); vm_compute; reflexivity. Qed.

Theorem adjust_events_preserves_caller_objects : forall fuel vs items h0 h',
  out_heap (invoke helpers_prog fuel adjust_events_def vs items h0) = Some h' ->
  forall l, l < next_loc h0 -> hget h' l = hget h0 l.
Proof. intros fuel vs items h0 h'. apply (caller_objects_preserved helpers_prog FS helpers_prog_ok); vm_compute; reflexivity. Qed.

Theorem freq_to_voicing_preserves_caller_objects : forall fuel vs items h0 h',
  out_heap (invoke helpers_prog fuel freq_to_voicing_def vs items h0) = Some h' ->
  forall l, l < next_loc h0 -> hget h' l = hget h0 l.
Proof. intros fuel vs items h0 h'. apply (caller_objects_preserved helpers_prog FS helpers_prog_ok); vm_compute; reflexivity. Qed.

(* including through its calls of freq_to_voicing, hz2cents and resample_melody_series *)
Theorem to_cent_voicing_preserves_caller_objects : forall fuel vs items h0 h',
  out_heap (invoke helpers_prog fuel to_cent_voicing_def vs items h0) = Some h' ->
  forall l, l < next_loc h0 -> hget h' l = hget h0 l.
Proof. intros fuel vs items h0 h'. apply (caller_objects_preserved helpers_prog FS helpers_prog_ok); vm_compute; reflexivity. Qed.

(* evaluate(ref_intervals, ref_labels, est_intervals, est_labels, **kw): `items` are the caller's keyword items; the
   stores kwargs['window'] = ... go to the dict built for this call, so in particular a dict the caller unpacked with ** survives *)
Theorem evaluate_preserves_caller_objects : forall fuel vs items h0 h',
  out_heap (invoke helpers_prog fuel evaluate_def vs items h0) = Some h' ->
  forall l, l < next_loc h0 -> hget h' l = hget h0 l.
Proof. intros fuel vs items h0 h'. apply (caller_objects_preserved helpers_prog FS helpers_prog_ok); vm_compute; reflexivity. Qed.

(* what these functions return was allocated by them: the caller gets no alias of an argument back *)
Theorem freq_to_voicing_returns_fresh : forall fuel vs items h0 rs h',
  invoke helpers_prog fuel freq_to_voicing_def vs items h0 = OReturn rs h' ->
  Forall (fun v => forall l, vloc v = Some l -> next_loc h0 <= l) rs.
Proof. intros fuel vs items h0 rs h'. apply (returns_fresh_sound helpers_prog FS helpers_prog_ok); vm_compute; reflexivity. Qed.
Theorem to_cent_voicing_returns_fresh : forall fuel vs items h0 rs h',
  invoke helpers_prog fuel to_cent_voicing_def vs items h0 = OReturn rs h' ->
  Forall (fun v => forall l, vloc v = Some l -> next_loc h0 <= l) rs.
Proof. intros fuel vs items h0 rs h'. apply (returns_fresh_sound helpers_prog FS helpers_prog_ok); vm_compute; reflexivity. Qed.

(* the theorems are about runs that really happen: concrete calls that return, with the caller's heap intact *)
Definition q (z : Z) : Q := inject_Z z.
Definition lab (n : nat) : str := [n].
(* intervals = [[1,2],[2,3]], labels = ['A','B'], t_min = None, t_max = 4 *)
Definition ai_args : list arg := [AArr [q 1; q 2; q 2; q 3]; AStrs [lab 65; lab 66]; ANone; ANum (q 4); AStr (lab 1); AStr (lab 2)].
Example adjust_intervals_runs :
  observe helpers_prog adjust_intervals_def ai_args =
  Some ([Some (AArr [q 1; q 2; q 2; q 3]); Some (AStrs [lab 65; lab 66]); Some ANone; Some (ANum (q 4)); Some (AStr (lab 1)); Some (AStr (lab 2))],
        Some [Some (AArr [q 1; q 2; q 2; q 3; q 3; q 4]); Some (AStrs [lab 65; lab 66; lab 2])]).
Proof. vm_compute. reflexivity. Qed.
(* frequencies = [0,2,0], voicing = [1,1,1] *)
Definition ftv_args : list arg := [AArr [q 0; q 2; q 0]; AArr [q 1; q 1; q 1]].
Example freq_to_voicing_runs :
  observe helpers_prog freq_to_voicing_def ftv_args =
  Some ([Some (AArr [q 0; q 2; q 0]); Some (AArr [q 1; q 1; q 1])], Some [Some (AArr [q 0; q 2; q 0]); Some (AArr [q 0; q 1; q 0])]).
Proof. vm_compute. reflexivity. Qed.

(* ------------------------------------------------------------------------------------------------ before the fixes *)
Theorem old_helpers_not_local :
  writes_local FS_old adjust_intervals_old_def = false /\
  writes_local FS_old adjust_events_old_def = false /\
  writes_local FS_old freq_to_voicing_old_def = false /\
  prog_ok helpers_prog_old FS_old = false.
Proof. repeat split; vm_compute; reflexivity. Qed.

(* the offending sites, as layer 1 would list them *)
Theorem old_helpers_offending_sites :
  asites FS_old ai_body_old (init_aenv adjust_intervals_old_def) = [("labels", [Fresh; Param "labels"]); ("labels", [Fresh; Param "labels"])] /\
  asites FS_old ae_body_old (init_aenv adjust_events_old_def) = [("labels", [Fresh; Param "labels"]); ("labels", [Fresh; Param "labels"])] /\
  asites FS_old ftv_body_old (init_aenv freq_to_voicing_old_def) = [("voicing", [Param "voicing"])].
Proof. repeat split; vm_compute; reflexivity. Qed.

(* "adjust_intervals never modifies the caller's label list" is FALSE for the code without `labels = list(labels)`:
   adjust_intervals(np.array([[1,2],[2,3]]), ['A','B'], t_min=None, t_max=4) appends end_label to the caller's list *)
Theorem adjust_intervals_old_mutates_labels_refuted :
  exists vs h0 rs h' l,
    invoke helpers_prog_old FUEL adjust_intervals_old_def vs [] h0 = OReturn rs h' /\
    In (VRef l) vs /\ l < next_loc h0 /\
    hget h0 l = Some (OList [VScal (CStr (lab 65)); VScal (CStr (lab 66))]) /\
    hget h' l = Some (OList [VScal (CStr (lab 65)); VScal (CStr (lab 66)); VScal (CStr (lab 2))]).
Proof.
  exists (fst (place ai_args [])), (snd (place ai_args [])). eexists. eexists. exists 1.
  split; [vm_compute; reflexivity|]. split; [vm_compute; tauto|]. split; [vm_compute; lia|]. split; vm_compute; reflexivity.
Qed.

(* adjust_events(np.array([1., 2.]), ['A','B'], t_min=None, t_max=4, label_prefix='_') *)
Definition ae_args : list arg := [AArr [q 1; q 2]; AStrs [lab 65; lab 66]; ANone; ANum (q 4); AStr (lab 95)].
Theorem adjust_events_old_mutates_labels_refuted :
  exists vs h0 rs h' l,
    invoke helpers_prog_old FUEL adjust_events_old_def vs [] h0 = OReturn rs h' /\
    In (VRef l) vs /\ l < next_loc h0 /\
    hget h0 l = Some (OList [VScal (CStr (lab 65)); VScal (CStr (lab 66))]) /\
    hget h' l = Some (OList [VScal (CStr (lab 65)); VScal (CStr (lab 66)); VScal (CStr (lab 95 ++ s_T_MAX))]).
Proof.
  exists (fst (place ae_args [])), (snd (place ae_args [])). eexists. eexists. exists 1.
  split; [vm_compute; reflexivity|]. split; [vm_compute; tauto|]. split; [vm_compute; lia|]. split; vm_compute; reflexivity.
Qed.

(* freq_to_voicing(np.array([0., 2., 0.]), voicing=np.array([1., 1., 1.])) without the np.array copy zeroes the caller's array *)
Theorem freq_to_voicing_old_mutates_voicing_refuted :
  exists vs h0 rs h' l,
    invoke helpers_prog_old FUEL freq_to_voicing_old_def vs [] h0 = OReturn rs h' /\
    In (VRef l) vs /\ l < next_loc h0 /\
    hget h0 l = Some (OArr [q 1; q 1; q 1]) /\ hget h' l = Some (OArr [0%Q; q 1; 0%Q]).
Proof.
  exists (fst (place ftv_args [])), (snd (place ftv_args [])). eexists. eexists. exists 1.
  split; [vm_compute; reflexivity|]. split; [vm_compute; tauto|]. split; [vm_compute; lia|]. split; vm_compute; reflexivity.
Qed.

(* ... and the damage travels: to_cent_voicing itself has no write site at all (its own sites are trivially local), yet
   with the old freq_to_voicing in the program it zeroes the est_voicing array of ITS caller. This is why the theorem
   asks for prog_ok of the whole program, as layer 1 checks every function. *)
Definition tcv_args : list arg :=
  [AArr [q 0; q 1; q 2]; AArr [q 0; q 2; q 0]; AArr [q 0; q 1; q 2]; AArr [q 0; q 2; q 0]; AArr [q 1; q 1; q 1]; ANone;
   ANum (q 10); ANone; AStr [108; 105; 110; 101; 97; 114]].
Theorem to_cent_voicing_old_mutates_est_voicing_refuted :
  writes_local FS_old to_cent_voicing_def = true /\
  exists vs h0 rs h' l,
    invoke helpers_prog_old FUEL to_cent_voicing_def vs [] h0 = OReturn rs h' /\
    In (VRef l) vs /\ l < next_loc h0 /\
    hget h0 l = Some (OArr [q 1; q 1; q 1]) /\ hget h' l = Some (OArr [0%Q; q 1; 0%Q]).
Proof.
  split; [vm_compute; reflexivity|].
  exists (fst (place tcv_args [])), (snd (place tcv_args [])). eexists. eexists. exists 4.
  split; [vm_compute; reflexivity|]. split; [vm_compute; tauto|]. split; [vm_compute; lia|]. split; vm_compute; reflexivity.
Qed.
(* the same call on the current program leaves est_voicing alone *)
Example to_cent_voicing_runs :
  option_map fst (observe helpers_prog to_cent_voicing_def tcv_args) = Some (map Some tcv_args).
Proof. vm_compute. reflexivity. Qed.

Print Assumptions helpers_prog_ok.
Print Assumptions adjust_intervals_preserves_caller_objects.
Print Assumptions adjust_events_preserves_caller_objects.
Print Assumptions freq_to_voicing_preserves_caller_objects.
Print Assumptions to_cent_voicing_preserves_caller_objects.
Print Assumptions evaluate_preserves_caller_objects.
Print Assumptions to_cent_voicing_returns_fresh.
Print Assumptions adjust_intervals_old_mutates_labels_refuted.
Print Assumptions adjust_events_old_mutates_labels_refuted.
Print Assumptions freq_to_voicing_old_mutates_voicing_refuted.
Print Assumptions to_cent_voicing_old_mutates_est_voicing_refuted.
Print Assumptions adjust_intervals_sites_match_translator.
