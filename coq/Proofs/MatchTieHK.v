(* _bipartite_match (Gen/MatchGen.v: gen_bipartite_match, gen_bipartite_match_recurse) against Model/Matching.v, part 0:
   shared tactics / environment layout, and the greedy initialisation (the first two statements) which leaves, at the
   address of `matching`, exactly [greedy g], with the rest of the heap untouched ([bipartite_match_greedy_tie]).
   The phase loop and the closure `recurse` are tied in Proofs/HKTieRec.v, HKTieLayer.v, HKTiePhases.v; the complete
   theorem is in Proofs/HKTie.v. The closed evaluations at the end of this file are only sanity examples. *)
From Coq Require Import String.
From Coq Require Import List Bool Arith ZArith QArith Qabs Qminmax Lia.
From ME Require Import Model.Prelude Model.Dict Model.Matching Model.Events Model.HeapPy Gen.MatchGen Model.HeapPyMatch Proofs.HeapPyLemmas.
Import ListNotations.
Local Open Scope nat_scope.
Local Arguments hget : simpl never.
Local Arguments hset : simpl never.
Local Arguments qmod : simpl never.
Local Arguments Qminus : simpl never.
Local Arguments Qabs : simpl never.
Local Arguments Qmin : simpl never.
Local Arguments qeqb : simpl never.
Local Arguments zq : simpl never.

Local Arguments argsort : simpl never.
Local Arguments searchsorted_left : simpl never.
Local Arguments searchsorted_right : simpl never.
Local Arguments for_loop : simpl never.
Local Arguments slice : simpl never.
Local Arguments Z.of_nat : simpl never.
Local Arguments Z.to_nat : simpl never.
Local Arguments Z.sub : simpl never.
Local Arguments Z.add : simpl never.
Local Arguments Z.leb : simpl never.
Local Arguments as_key : simpl never.
Local Arguments dget : simpl never.
Local Arguments dset : simpl never.
Local Arguments dmem : simpl never.
Local Arguments ddel : simpl never.
Local Arguments map_vals : simpl never.
Definition loop_step ext clos wf (s : stmt) : val -> heap -> env -> sres :=
  match s with
  | SFor t it body => fun el h en => lift_e (bind_t t el en) (fun en' => run_block (exec ext clos wf) body h en')
  | _ => fun _ _ _ => SUnm end.
Lemma hget_alloc_new' (h : heap) o a : a = length h -> hget (h ++ [o]) a = Some o.
Proof. intros ->. apply hget_alloc_new. Qed.
Ltac hlen := repeat (rewrite length_alloc || rewrite length_hset).
Ltac hsimp := repeat first
  [ rewrite hget_alloc_new' by (hlen; lia)
  | rewrite hget_alloc_old by (hlen; lia)
  | rewrite hget_hset_same by (hlen; lia)
  | rewrite hget_hset_other by (hlen; lia) ].
Ltac ev := repeat (progress (cbn; unfold eval_truth)).

Definition bm_env (vg : val) aM vu vv (rest : list val) : env :=
  mkEnv (app [("graph"%string, vg); ("matching"%string, VRef aM); ("u"%string, vu); ("v"%string, vv)]
         (combine ["preds"; "unmatched"; "pred"; "layer"; "new_layer"; "unlayered"; "recurse"]%string rest)) None.
Definition greedy_outer : stmt := nth 1 (f_body gen_bipartite_match) SPass.
Definition greedy_inner : stmt := match greedy_outer with SFor _ _ [s] => s | _ => SPass end.
Lemma greedy_inner_ok ext clos wf vg aM u all r1 r2 r3 r4 r5 r6 r7 : forall vs vv h m,
  hget h aM = Some (matching_obj m) ->
  exists h' vv', for_loop (loop_step ext clos wf greedy_inner) None all (nats_val vs) h (bm_env vg aM (VNat u) vv [r1;r2;r3;r4;r5;r6;r7])
     = SNorm h' (bm_env vg aM (VNat u) vv' [r1;r2;r3;r4;r5;r6;r7]) /\
    hget h' aM = Some (matching_obj (greedy_u vs u m)) /\ length h' = length h /\ (forall x, x <> aM -> hget h' x = hget h x).
Proof.
  induction vs as [|v t IH]; intros vv h m HM.
  - exists h, vv. unfold for_loop. cbn. auto.
  - pose proof (hget_lt _ _ _ HM) as LM.
    cbn [nats_val map greedy_u]. unfold for_loop; fold for_loop. cbn [unchanged]. unfold bm_env.
    ev. rewrite HM. ev. rewrite as_key_nat. ev. unfold matching_obj. 
    change (map (fun e : nat * nat => (fst e, VNat (snd e))) m) with (map_vals VNat m). rewrite dmem_map_vals.
    destruct (dmem m v) eqn:Ev; ev.
    + destruct (IH (VNat v) h m HM) as (h' & vv' & S & K). exists h', vv'. split; [exact S|exact K].
    + rewrite HM. ev. rewrite as_key_nat. ev. eexists; eexists. split; [reflexivity|]. hsimp.
      change (map (fun e : nat * nat => (fst e, VNat (snd e))) m) with (map_vals VNat m). rewrite dset_map_vals.
      split; [reflexivity|]. split; [hlen; reflexivity|]. intros x Hx. hsimp. reflexivity.
Qed.

Lemma dget_graph_val g u : dget (map (fun e : nat * list nat => (fst e, VTup (nats_val (snd e)))) g) u = option_map (fun vs => VTup (nats_val vs)) (dget g u).
Proof. apply (dget_map_vals (fun vs => VTup (nats_val vs))). Qed.
Lemma greedy_outer_ok ext clos wf g aM all r1 r2 r3 r4 r5 r6 r7 : forall rest vu vv h m,
  (forall e, In e rest -> dget g (fst e) = Some (snd e)) ->
  hget h aM = Some (matching_obj m) ->
  exists h' vu' vv', for_loop (loop_step ext clos wf greedy_outer) None all (nats_val (keys rest)) h (bm_env (graph_val g) aM vu vv [r1;r2;r3;r4;r5;r6;r7])
     = SNorm h' (bm_env (graph_val g) aM vu' vv' [r1;r2;r3;r4;r5;r6;r7]) /\
    hget h' aM = Some (matching_obj (fold_left (fun m e => greedy_u (snd e) (fst e) m) rest m)) /\ length h' = length h /\
    (forall x, x <> aM -> hget h' x = hget h x).
Proof.
  induction rest as [|[u vs] t IH]; intros vu vv h m Hin HM.
  - exists h, vu, vv. unfold for_loop. cbn. auto.
  - cbn [keys nats_val map fold_left fst snd]. unfold for_loop; fold for_loop. cbn [unchanged]. unfold bm_env, graph_val.
    pose proof (Hin (u, vs) (or_introl eq_refl)) as Hu. cbn [fst snd] in Hu.
    ev. rewrite as_key_nat. ev. rewrite dget_graph_val, Hu. ev.
    match goal with |- context [for_loop ?f ?s ?al ?els ?hh ?en] =>
      destruct (greedy_inner_ok ext clos wf (graph_val g) aM u al r1 r2 r3 r4 r5 r6 r7 vs vv h m HM) as (h1 & vv1 & S1 & K1 & L1 & F1);
      assert (E : for_loop f s al els hh en = SNorm h1 (bm_env (graph_val g) aM (VNat u) vv1 [r1;r2;r3;r4;r5;r6;r7])) by exact S1;
      rewrite E; clear E S1 end.
    destruct (IH (VNat u) vv1 h1 _ (fun e He => Hin e (or_intror He)) K1) as (h' & vu' & vv' & S2 & K2 & L2 & F2).
    exists h', vu', vv'. split; [exact S2|]. split; [exact K2|]. split; [congruence|]. intros x Hx. rewrite F2, F1; auto.
Qed.

Theorem bipartite_match_greedy_tie ext clos wf g h : NoDup (keys g) ->
  exists h' vu vv,
    exec_block ext clos wf (firstn 2 (f_body gen_bipartite_match)) h (mkEnv (init_frame gen_bipartite_match [graph_val g]) None)
    = SNorm h' (bm_env (graph_val g) (length h) vu vv (repeat VUnbound 7)) /\
    hget h' (length h) = Some (matching_obj (greedy g)) /\ length h' = S (length h) /\
    (forall x, x < length h -> hget h' x = hget h x).
Proof.
  intros ND. unfold exec_block. ev.
  match goal with |- context [for_loop ?f ?s ?al ?els ?hh ?en] =>
    destruct (greedy_outer_ok ext clos wf g (length h) al VUnbound VUnbound VUnbound VUnbound VUnbound VUnbound VUnbound g VUnbound VUnbound hh []
                (fun e He => In_dget g (fst e) (snd e) ND ltac:(now destruct e)) ltac:(hsimp; reflexivity)) as (h' & vu' & vv' & S & K & L & F);
    assert (E : for_loop f s al els hh en = SNorm h' (bm_env (graph_val g) (length h) vu' vv' (repeat VUnbound 7))) by
      (etransitivity; [|exact S]; unfold graph_val, keys, nats_val; rewrite !map_map; reflexivity);
    rewrite E end.
  exists h', vu', vv'. split; [reflexivity|]. split; [exact K|]. split; [rewrite L; hlen; reflexivity|].
  intros x Hx. rewrite F by lia. hsimp. reflexivity.
Qed.

(* the whole translated function, evaluated on closed graphs (many-phase chains included), against the model *)
Definition hk_agrees (fuel : nat) (g : graph) : bool :=
  match result_obj (run_match no_dist fuel "_bipartite_match" [] [graph_val g]), bipartite_match g with
  | OK (ODict d), Some m => list_veqb (map (fun e => VTup [VNat (fst e); snd e]) d) (map pair_val m)
  | _, _ => false end.
Definition chain (k : nat) (off : nat) : graph :=          (* an augmenting chain of length k *)
  map (fun i => (off + i, if Nat.eqb i (k - 1) then [off + i] else [off + i; off + S i])) (seq 0 k).
Definition hk_examples : list graph :=
  [ []; [(0, [])]; [(0, [0; 1]); (1, [0])]; [(5, [5; 5; 6; 5]); (6, [5; 5])];
    [(0, [0; 1]); (1, [1; 2]); (2, [2; 3]); (3, [0])];
    [(0, [0; 1]); (1, [0; 2]); (2, [0]); (3, [1; 3]); (4, [1])];
    [(3, [0; 0]); (0, [0; 2; 0]); (7, [2]); (1, [2; 0])];
    chain 2 0 ++ chain 3 10 ++ chain 4 20 ++ [(30, [0]); (31, [10]); (32, [20])] ].
Example hk_examples_agree : forallb (hk_agrees 40) hk_examples = true.
Proof. vm_compute. reflexivity. Qed.
(* out of fuel is reported, never a wrong answer *)
Example hk_fuel : result_obj (run_match no_dist 2 "_bipartite_match" [] [graph_val [(0, [0; 1]); (1, [0])]]) = FUEL.
Proof. vm_compute. reflexivity. Qed.

Print Assumptions bipartite_match_greedy_tie.
