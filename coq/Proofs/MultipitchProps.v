(* C18: accounting identities of multipitch.metrics, per-frame true-positive bounds, nearest-frame resampling,
   symmetry / monotonicity / invariance of the true-positive counts.  All statements are about Model.Multipitch. *)
From Coq Require Import List Bool Arith ZArith QArith Qabs Qminmax Qround Lia Lqa Sorting.Sorted.
From ME Require Import Model.Prelude Model.Dict Model.Matching Model.Events Model.Multipitch.
From ME Require Import Proofs.MaxMatching Proofs.MultipitchMatch.
Import ListNotations.

(* ================================================================== 1. the score identities *)
Definition zn (l : list nat) : list Z := map Z.of_nat l.

(* integer facts about the numerators, three arrays of one length *)
Lemma sums_identities : forall tp r e : list nat, length tp = length r -> length e = length r ->
  let T := zsum (zn tp) in let R := zsum (zn r) in let E := zsum (zn e) in
  let Ssub := zsum (zip3 (fun r e t => Z.min r e - t)%Z (zn r) (zn e) (zn tp)) in
  let Smiss := zsum (zip2 (fun r e => if (r - e <? 0)%Z then 0 else r - e)%Z (zn r) (zn e)) in
  let Sfa := zsum (zip2 (fun r e => if (e - r <? 0)%Z then 0 else e - r)%Z (zn r) (zn e)) in
  let Stot := zsum (zip3 (fun r e t => Z.max r e - t)%Z (zn r) (zn e) (zn tp)) in
  let Sden := zsum (zip3 (fun e r t => e + r - t)%Z (zn e) (zn r) (zn tp)) in
  (Stot = Ssub + Smiss + Sfa /\ Sden = E + R - T /\ 0 <= Smiss /\ 0 <= Sfa /\ 0 <= R /\ 0 <= E /\ 0 <= T)%Z.
Proof.
  induction tp as [|t tp IH]; intros [|r0 r] [|e0 e] H1 H2; try discriminate; cbn in H1, H2.
  - cbn. lia.
  - injection H1 as H1. injection H2 as H2. specialize (IH r e H1 H2). cbv zeta in IH |- *.
    cbn [zn map zip3 zip2 zsum fold_right] in IH |- *. unfold zsum, zn in IH.
    destruct IH as (I1 & I2 & I3 & I4 & I5 & I6 & I7). unfold zsum, zn. rewrite I1, I2.
    destruct (Z.of_nat r0 - Z.of_nat e0 <? 0)%Z eqn:A; destruct (Z.of_nat e0 - Z.of_nat r0 <? 0)%Z eqn:B; lia.
Qed.
Lemma sums_nonneg : forall tp r e : list nat, Forall2 le tp r -> Forall2 le tp e ->
  let T := zsum (zn tp) in let R := zsum (zn r) in let E := zsum (zn e) in
  let Ssub := zsum (zip3 (fun r e t => Z.min r e - t)%Z (zn r) (zn e) (zn tp)) in
  let Stot := zsum (zip3 (fun r e t => Z.max r e - t)%Z (zn r) (zn e) (zn tp)) in
  (0 <= Ssub /\ 0 <= Stot /\ T <= R /\ T <= E)%Z.
Proof.
  intros tp r e H1. revert e. induction H1 as [|t r0 tp r Hl H1 IH]; intros e H2; inversion H2 as [|? e0 ? e' Hl2 H2']; subst.
  - cbn. lia.
  - specialize (IH e' H2'). cbv zeta in IH |- *. cbn [zn map zip3 zsum fold_right] in IH |- *. unfold zsum, zn in IH.
    unfold zsum, zn. lia.
Qed.
Lemma Forall2_length_le {A B} (R : A -> B -> Prop) l1 l2 : Forall2 R l1 l2 -> length l1 = length l2.
Proof. induction 1; cbn; auto. Qed.

Lemma zq_pos z : (0 <? z)%Z = true <-> 0 < zq z.
Proof. unfold zq. rewrite Z.ltb_lt, Zlt_Qlt. reflexivity. Qed.
Lemma zq_le a b : (a <= b)%Z <-> zq a <= zq b.
Proof. unfold zq. now rewrite Zle_Qle. Qed.

(* E_tot = E_sub + E_miss + E_fa *)
Theorem etot_is_sum tp n_ref n_est : length tp = length n_ref -> length n_est = length n_ref ->
  let s := scores_of tp n_ref n_est in e_tot s == e_sub s + e_miss s + e_fa s.
Proof.
  intros H1 H2. destruct (sums_identities tp n_ref n_est H1 H2) as (I1 & _). cbv zeta in *.
  unfold scores_of, compute_err_score. fold (zn tp) (zn n_ref) (zn n_est).
  destruct (zsum (zn n_ref) =? 0)%Z; cbn [e_tot e_sub e_miss e_fa compute_accuracy]; [reflexivity|].
  rewrite I1. unfold zq. rewrite !inject_Z_plus. unfold Qdiv. ring.
Qed.
Example etot_is_sum_ex : let s := scores_of [1; 0]%nat [2; 1]%nat [1; 3]%nat in
  e_tot s == 4 # 3 /\ e_sub s == 1 # 3 /\ e_miss s == 1 # 3 /\ e_fa s == 2 # 3.
Proof. vm_compute. repeat split; reflexivity. Qed.

Lemma div_nonneg a b : 0 <= a -> 0 < b -> 0 <= a / b.
Proof. intros Ha Hb. apply Qle_shift_div_l; [exact Hb|lra]. Qed.
(* each of the four error scores is >= 0 (needs tp_k <= min(r_k, e_k), see tp_le_min) *)
Theorem errs_nonneg tp n_ref n_est : Forall2 le tp n_ref -> Forall2 le tp n_est ->
  let s := scores_of tp n_ref n_est in 0 <= e_sub s /\ 0 <= e_miss s /\ 0 <= e_fa s /\ 0 <= e_tot s.
Proof.
  intros H1 H2. pose proof (Forall2_length_le _ _ _ H1) as L1. pose proof (Forall2_length_le _ _ _ H2) as L2.
  destruct (sums_identities tp n_ref n_est L1 (eq_trans (eq_sym L2) L1)) as (_ & _ & I3 & I4 & I5 & _).
  destruct (sums_nonneg tp n_ref n_est H1 H2) as (N1 & N2 & _). cbv zeta in *.
  unfold scores_of, compute_err_score. fold (zn tp) (zn n_ref) (zn n_est).
  destruct (compute_accuracy (zn tp) (zn n_ref) (zn n_est)) as [[p0 r0] a0].
  destruct (zsum (zn n_ref) =? 0)%Z eqn:Ez; cbn [e_tot e_sub e_miss e_fa]; [repeat split; lra|].
  apply Z.eqb_neq in Ez. assert (Hp : 0 < zq (zsum (zn n_ref))) by (apply zq_pos; apply Z.ltb_lt; lia).
  repeat split; (apply div_nonneg; [|exact Hp]); change 0 with (zq 0); apply (proj1 (zq_le _ _)); assumption.
Qed.
Example errs_nonneg_ex : Forall2 le [1; 0]%nat [2; 1]%nat /\ Forall2 le [1; 0]%nat [1; 3]%nat.
Proof. split; repeat constructor. Qed.

Lemma div_le_div_den (t d e : Q) : 0 <= t -> 0 < e -> e <= d -> t / d <= t / e.
Proof.
  intros Ht He Hd. apply Qle_shift_div_l; [exact He|].
  assert (H1 : e / d <= 1) by (apply Qle_shift_div_r; lra).
  assert (H0 : 0 <= e / d) by (apply div_nonneg; lra).
  assert (E : t / d * e == t * (e / d)) by (field; lra). rewrite E. set (x := e / d) in *. nra.
Qed.
(* accuracy <= min(precision, recall), with the code's zero-denominator guards *)
Theorem acc_le_min_p_r tp n_ref n_est : Forall2 le tp n_ref -> Forall2 le tp n_est ->
  let s := scores_of tp n_ref n_est in accuracy s <= Qmin (precision s) (recall s).
Proof.
  intros H1 H2. pose proof (Forall2_length_le _ _ _ H1) as L1. pose proof (Forall2_length_le _ _ _ H2) as L2.
  destruct (sums_identities tp n_ref n_est L1 (eq_trans (eq_sym L2) L1)) as (_ & I2 & _ & _ & I5 & I6 & I7).
  destruct (sums_nonneg tp n_ref n_est H1 H2) as (_ & _ & N3 & N4). cbv zeta in *.
  unfold scores_of, compute_accuracy. fold (zn tp) (zn n_ref) (zn n_est). rewrite I2.
  set (T := zsum (zn tp)) in *. set (R := zsum (zn n_ref)) in *. set (E := zsum (zn n_est)) in *.
  destruct (compute_err_score (zn tp) (zn n_ref) (zn n_est)) as [[[s0 m0] f0] t0]. cbn [accuracy precision recall].
  assert (QT : 0 <= zq T) by (change 0 with (zq 0); apply (proj1 (zq_le _ _)); assumption).
  assert (QR : zq T <= zq R) by (apply (proj1 (zq_le _ _)); assumption). assert (QE : zq T <= zq E) by (apply (proj1 (zq_le _ _)); assumption).
  assert (QD : zq (E + R - T) == zq E + zq R - zq T).
  { unfold zq, Z.sub. rewrite !inject_Z_plus, inject_Z_opp. ring. }
  assert (Hzero : zq T == 0 -> (if (0 <? E + R - T)%Z then zq T / zq (E + R - T) else 0) == 0).
  { intros Z0. destruct (0 <? E + R - T)%Z; [|reflexivity]. rewrite Z0. unfold Qdiv. ring. }
  apply Q.min_glb.
  - destruct (0 <? E)%Z eqn:PE.
    + apply zq_pos in PE. assert (PD : (0 <? E + R - T)%Z = true) by (apply zq_pos; lra). rewrite PD.
      apply div_le_div_den; lra.
    + rewrite Hzero; [lra|]. assert (~ 0 < zq E) by (rewrite <- zq_pos; congruence). lra.
  - destruct (0 <? R)%Z eqn:PR.
    + apply zq_pos in PR. assert (PD : (0 <? E + R - T)%Z = true) by (apply zq_pos; lra). rewrite PD.
      apply div_le_div_den; lra.
    + rewrite Hzero; [lra|]. assert (~ 0 < zq R) by (rewrite <- zq_pos; congruence). lra.
Qed.
Example acc_le_min_p_r_ex : let s := scores_of [1; 0]%nat [2; 1]%nat [1; 3]%nat in
  accuracy s == 1 # 6 /\ precision s == 1 # 4 /\ recall s == 1 # 3.
Proof. vm_compute. repeat split; reflexivity. Qed.

(* all seven scores of one kind together *)
Definition accounting_ok (s : mscores) : Prop :=
  e_tot s == e_sub s + e_miss s + e_fa s /\ 0 <= e_sub s /\ 0 <= e_miss s /\ 0 <= e_fa s /\ 0 <= e_tot s /\
  accuracy s <= Qmin (precision s) (recall s).
Lemma scores_accounting tp n_ref n_est : Forall2 le tp n_ref -> Forall2 le tp n_est -> accounting_ok (scores_of tp n_ref n_est).
Proof.
  intros H1 H2. pose proof (Forall2_length_le _ _ _ H1) as L1. pose proof (Forall2_length_le _ _ _ H2) as L2.
  unfold accounting_ok. split; [apply etot_is_sum; congruence|].
  destruct (errs_nonneg tp n_ref n_est H1 H2) as (A & B & C & D). repeat split; auto. now apply acc_le_min_p_r.
Qed.

(* ================================================================== 2. true positives of one frame *)
Notation cntp := compute_num_true_positives.
Definition nan_free (f : list mv) : Prop := Forall (fun x => x <> None) f.

(* per frame: TP <= min(#reference, #estimated) -- raw and chroma, nan or not *)
Theorem tp_le_min chroma w ref est n : tp_frame chroma w ref est = Some n -> (n <= Nat.min (length ref) (length est))%nat.
Proof.
  intros H. apply tp_frame_max_size in H. rewrite Nat.min_comm. eapply max_size_le_min; [|exact H].
  intros u v. apply Erel_bounds.
Qed.
Example tp_le_min_ex : tp_frame false (1 # 2) [Some 60; Some 61] [Some (121 # 2)] = Some 1%nat
                       /\ tp_frame true (1 # 2) [Some 0; Some (47 # 4)] [Some (1 # 4); Some (23 # 2)] = Some 2%nat.
Proof. split; vm_compute; reflexivity. Qed.

Lemma near_raw_abs w x y : near_raw w (Some x) (Some y) <-> Qabs (x - y) <= w.
Proof. cbn [near_raw]. rewrite Qabs_Qle_condition. split; intros [A B]; split; lra. Qed.
Lemma near_raw_circ w r e : (r <> None \/ e <> None) -> near_raw w r e -> near_circ w r e.
Proof. destruct r as [x|], e as [y|]; cbn [near_circ]; try (cbn; tauto); try (intros [H|H] _; congruence).
  intros _ H. apply abs_le_circ. now apply near_raw_abs. Qed.
Lemma nan_free_nth f i x : nan_free f -> nth_error f i = Some x -> x <> None.
Proof. intros H E. apply nth_error_In in E. unfold nan_free in H. rewrite Forall_forall in H. now apply H. Qed.

(* per frame: the chroma count is never below the raw count -- provided one of the two frames has no nan *)
Theorem tp_raw_le_chroma w ref est n m : nan_free ref \/ nan_free est ->
  tp_frame false w ref est = Some n -> tp_frame true w (wrap12 ref) (wrap12 est) = Some m -> (n <= m)%nat.
Proof.
  intros Hn H1 H2. apply tp_frame_raw_max_size in H1.
  pose proof (tp_frame_chroma_max_size w ref est m (or_intror H2)) as H3.
  eapply max_size_mono; [|exact H1|exact H3]. intros u v (r & e & A & B & C). exists r, e. repeat split; auto.
  apply near_raw_circ; [|exact C]. destruct Hn as [Hn|Hn]; [left|right]; eapply nan_free_nth; eauto.
Qed.
Example tp_raw_le_chroma_ex : nan_free [Some 60; Some 72] /\ tp_frame false (1 # 2) [Some 60; Some 72] [Some 48; Some (145 # 2)] = Some 1%nat
  /\ tp_frame true (1 # 2) (wrap12 [Some 60; Some 72]) (wrap12 [Some 48; Some (145 # 2)]) = Some 2%nat.
Proof. split; [repeat constructor; discriminate|]. split; vm_compute; reflexivity. Qed.
(* ... and it fails with nan on both sides: _fast_hit_windows pairs nan with nan (sort order), the distance-based chroma
   matching does not.  nan arises from negative frequencies, which `validate` accepts (see metrics_raw_le_chroma_refuted). *)
Theorem tp_raw_le_chroma_nan_refuted : exists w ref est n m,
  tp_frame false w ref est = Some n /\ tp_frame true w (wrap12 ref) (wrap12 est) = Some m /\ (m < n)%nat.
Proof. exists (1 # 2), [None], [None], 1%nat, 0%nat. repeat split; vm_compute; reflexivity. Qed.

Lemma frame_rel_mono c w1 w2 ref est u v : w1 <= w2 -> frame_rel c w1 ref est u v -> frame_rel c w2 ref est u v.
Proof.
  intros Hw (r & e & A & B & C). exists r, e. repeat split; auto. destruct c, r as [x|], e as [y|]; cbn in *; try tauto; lra.
Qed.
(* widening the window never lowers the count *)
Theorem tp_window_mono c w1 w2 ref est n1 n2 : w1 <= w2 ->
  tp_frame c w1 ref est = Some n1 -> tp_frame c w2 ref est = Some n2 -> (n1 <= n2)%nat.
Proof.
  intros Hw H1 H2. apply tp_frame_max_size in H1, H2. eapply max_size_mono; [|exact H1|exact H2].
  intros u v. now apply frame_rel_mono.
Qed.
Example tp_window_mono_ex : tp_frame false (1 # 4) [Some 60] [Some (121 # 2)] = Some 0%nat
                            /\ tp_frame false (1 # 2) [Some 60] [Some (121 # 2)] = Some 1%nat.
Proof. split; vm_compute; reflexivity. Qed.

(* elementwise maps of the two frames *)
Lemma Erel_map (f g : mv -> mv) (near near' : mv -> mv -> Prop) ref est u v :
  (forall r e, near' (f r) (g e) <-> near r e) -> (Erel near' (map f ref) (map g est) u v <-> Erel near ref est u v).
Proof.
  intros H. unfold Erel, mv in *. split.
  - intros (r' & e' & A & B & C). rewrite nth_error_map in A, B.
    destruct (nth_error ref v) as [r|]; [|cbn in A; discriminate A]. destruct (nth_error est u) as [e|]; [|cbn in B; discriminate B].
    cbn [option_map] in A, B. injection A as <-. injection B as <-. exists r, e. repeat split; auto. now apply H.
  - intros (r & e & A & B & C). exists (f r), (g e). rewrite !nth_error_map, A, B. repeat split; auto. now apply H.
Qed.
Definition shift (s : Q) (f : list mv) : list mv := map (option_map (fun x => x + s)) f.
(* adding the same rational to every MIDI value of both frames changes nothing; raw ... *)
Theorem tp_shift_invariant_raw w s ref est n n' :
  tp_frame false w ref est = Some n -> tp_frame false w (shift s ref) (shift s est) = Some n' -> n = n'.
Proof.
  intros H1 H2. apply tp_frame_raw_max_size in H1, H2. eapply max_size_unique; [exact H1|].
  eapply max_size_ext; [|exact H2]. intros u v. apply Erel_map.
  intros [x|] [y|]; cbn; try tauto. split; intros [A B]; split; lra.
Qed.
(* ... and chroma (wrapped to one octave after the shift, as metrics does) *)
Theorem tp_shift_invariant_chroma w s ref est n n' :
  tp_frame true w (wrap12 ref) (wrap12 est) = Some n -> tp_frame true w (wrap12 (shift s ref)) (wrap12 (shift s est)) = Some n' -> n = n'.
Proof.
  intros H1 H2. pose proof (tp_frame_chroma_max_size w _ _ _ (or_intror H1)) as M1.
  pose proof (tp_frame_chroma_max_size w _ _ _ (or_intror H2)) as M2. eapply max_size_unique; [exact M1|].
  eapply max_size_ext; [|exact M2]. intros u v. apply Erel_map.
  intros [x|] [y|]; cbn; try tauto. apply (circ_near_shift w x y _ _ 0%Z). change (inject_Z 0) with 0. lra.
Qed.
Theorem tp_shift_invariant c w s ref est n n' :
  tp_frame c w (if c then wrap12 ref else ref) (if c then wrap12 est else est) = Some n ->
  tp_frame c w (if c then wrap12 (shift s ref) else shift s ref) (if c then wrap12 (shift s est) else shift s est) = Some n' -> n = n'.
Proof. destruct c; [apply tp_shift_invariant_chroma|apply tp_shift_invariant_raw]. Qed.
Example tp_shift_invariant_ex :
  tp_frame false (1 # 2) [Some 60; Some 64] [Some (121 # 2); Some 70] = Some 1%nat
  /\ tp_frame false (1 # 2) (shift (7 # 3) [Some 60; Some 64]) (shift (7 # 3) [Some (121 # 2); Some 70]) = Some 1%nat
  /\ tp_frame true (1 # 2) (wrap12 [Some 60; Some 64]) (wrap12 [Some (145 # 2); Some 70]) = Some 1%nat
  /\ tp_frame true (1 # 2) (wrap12 (shift (7 # 3) [Some 60; Some 64])) (wrap12 (shift (7 # 3) [Some (145 # 2); Some 70])) = Some 1%nat.
Proof. repeat split; vm_compute; reflexivity. Qed.

(* whole octaves, possibly a different number for every estimated value *)
Definition oct_equiv (e e' : mv) : Prop :=
  match e, e' with Some x, Some y => exists k : Z, y == x + 12 * inject_Z k | None, None => True | _, _ => False end.
Lemma Forall2_nth_l {A B} (S : A -> B -> Prop) l l' : Forall2 S l l' ->
  forall u e, nth_error l u = Some e -> exists e', nth_error l' u = Some e' /\ S e e'.
Proof. induction 1 as [|a b l l' Hab H IH]; intros [|u] e E; cbn in *; try discriminate.
  - injection E as <-. eauto. - eauto. Qed.
Lemma Forall2_nth_r {A B} (S : A -> B -> Prop) l l' : Forall2 S l l' ->
  forall u e', nth_error l' u = Some e' -> exists e, nth_error l u = Some e /\ S e e'.
Proof. induction 1 as [|a b l l' Hab H IH]; intros [|u] e E; cbn in *; try discriminate.
  - injection E as <-. eauto. - eauto. Qed.
Lemma Erel_Forall2_est (S : mv -> mv -> Prop) near ref est est' u v : Forall2 S est est' ->
  (forall r e e', S e e' -> (near r e <-> near r e')) -> (Erel near ref est u v <-> Erel near ref est' u v).
Proof.
  intros HF HS. split; intros (r & e & A & B & C).
  - destruct (Forall2_nth_l _ _ _ HF _ _ B) as (e' & B' & Se). exists r, e'. repeat split; auto. now apply (HS r e e' Se).
  - destruct (Forall2_nth_r _ _ _ HF _ _ B) as (e0 & B' & Se). exists r, e0. repeat split; auto. now apply (HS r e0 e Se).
Qed.
Theorem chroma_tp_octave_invariant w ref est est' n n' : Forall2 oct_equiv est est' ->
  tp_frame true w (wrap12 ref) (wrap12 est) = Some n -> tp_frame true w (wrap12 ref) (wrap12 est') = Some n' -> n = n'.
Proof.
  intros HF H1 H2. pose proof (tp_frame_chroma_max_size w _ _ _ (or_intror H1)) as M1.
  pose proof (tp_frame_chroma_max_size w _ _ _ (or_intror H2)) as M2. eapply max_size_unique; [exact M1|].
  eapply max_size_ext; [|exact M2]. intros u v. symmetry. apply (Erel_Forall2_est oct_equiv); [exact HF|].
  intros [x|] [y|] [y'|]; cbn; try tauto. intros [k Hk]. symmetry.
  apply (circ_near_shift w x y x y' (- k)%Z). rewrite inject_Z_opp. lra.
Qed.
Example chroma_tp_octave_invariant_ex : Forall2 oct_equiv [Some 60; Some (129 # 2)] [Some 84; Some (81 # 2)]
  /\ tp_frame true (1 # 2) (wrap12 [Some 60; Some 64]) (wrap12 [Some 60; Some (129 # 2)]) = Some 2%nat
  /\ tp_frame true (1 # 2) (wrap12 [Some 60; Some 64]) (wrap12 [Some 84; Some (81 # 2)]) = Some 2%nat.
Proof.
  split; [constructor; [exists 2%Z; reflexivity|constructor; [exists (-2)%Z; reflexivity|constructor]]|].
  split; vm_compute; reflexivity.
Qed.

(* exchanging the roles of reference and estimate *)
Lemma near_sym (c : bool) (w : Q) (r e : mv) : (if c then near_dist (outer_distance_mod_n 12) w else near_raw w) r e ->
                         (if c then near_dist (outer_distance_mod_n 12) w else near_raw w) e r.
Proof.
  destruct c.
  - rewrite !near_dist_circ. destruct r, e; cbn; try tauto. apply circ_near_sym.
  - destruct r, e; cbn; try tauto. intros [A B]; split; lra.
Qed.
Theorem tp_frame_sym c w ref est n n' : tp_frame c w ref est = Some n -> tp_frame c w est ref = Some n' -> n = n'.
Proof.
  intros H1 H2. apply tp_frame_max_size in H1, H2. apply max_size_transpose in H1.
  eapply max_size_unique; [exact H1|]. eapply max_size_ext; [|exact H2].
  intros u v. unfold frame_rel. split; intros (r & e & A & B & C); exists e, r; repeat split; auto; now apply near_sym.
Qed.

(* ================================================================== 3. compute_num_true_positives on lists of frames *)
Lemma cntp_cons_inv w c r ref e est tps : cntp w c (r :: ref) (e :: est) = Ok tps ->
  exists t ts, tp_frame c w r e = Some t /\ cntp w c ref est = Ok ts /\ tps = t :: ts.
Proof.
  cbn [compute_num_true_positives]. destruct (tp_frame c w r e) as [t|]; [|discriminate].
  destruct (cntp w c ref est) as [ts|ex]; cbn [bind]; [|discriminate]. intros [= <-]. eauto.
Qed.
Lemma cntp_length w c : forall ref est tps, cntp w c ref est = Ok tps -> length tps = length ref.
Proof.
  induction ref as [|r ref IH]; intros [|e est] tps H.
  - injection H as <-. reflexivity.
  - injection H as <-. reflexivity.
  - injection H as <-. cbn [length]. now rewrite map_length.
  - apply cntp_cons_inv in H. destruct H as (t & ts & _ & H & ->). cbn [length]. f_equal. eauto.
Qed.
Lemma zeros_le {A} (l : list (list A)) : Forall2 le (map (fun _ => 0%nat) l) (map (@length A) l).
Proof. induction l; cbn [map]; constructor; auto. lia. Qed.
Lemma cntp_le_ref w c : forall ref est tps, cntp w c ref est = Ok tps -> Forall2 le tps (map (@length mv) ref).
Proof.
  induction ref as [|r ref IH]; intros [|e est] tps H.
  - injection H as <-. constructor.
  - injection H as <-. constructor.
  - injection H as <-. apply (zeros_le (r :: ref)).
  - apply cntp_cons_inv in H. destruct H as (t & ts & Ht & H & ->). cbn [map]. constructor; [|eauto].
    apply tp_le_min in Ht. lia.
Qed.
Lemma cntp_le_est w c : forall ref est tps, length est = length ref -> cntp w c ref est = Ok tps -> Forall2 le tps (map (@length mv) est).
Proof.
  induction ref as [|r ref IH]; intros [|e est] tps L H; try discriminate.
  - injection H as <-. constructor.
  - apply cntp_cons_inv in H. destruct H as (t & ts & Ht & H & ->). cbn [map]. injection L as L. constructor; [|eauto].
    apply tp_le_min in Ht. lia.
Qed.
Lemma zeros_rel {A B} (R : nat -> nat -> Prop) (l : list A) (l' : list B) : R 0%nat 0%nat -> length l = length l' ->
  Forall2 R (map (fun _ => 0%nat) l) (map (fun _ => 0%nat) l').
Proof. intros R0. revert l'. induction l; intros [|b l'] H; try discriminate; cbn [map]; constructor; auto. Qed.
(* two runs whose frames are related frame by frame *)
Lemma cntp_compare (R : nat -> nat -> Prop) (P : list mv -> Prop) w1 c1 w2 c2 (f g : list mv -> list mv) :
  R 0%nat 0%nat ->
  (forall r e n1 n2, P r -> tp_frame c1 w1 r e = Some n1 -> tp_frame c2 w2 (f r) (g e) = Some n2 -> R n1 n2) ->
  forall ref est t1 t2, Forall P ref -> cntp w1 c1 ref est = Ok t1 -> cntp w2 c2 (map f ref) (map g est) = Ok t2 -> Forall2 R t1 t2.
Proof.
  intros R0 HR. induction ref as [|r ref IH]; intros [|e est] t1 t2 HP H1 H2; cbn [map] in H2.
  - injection H1 as <-. injection H2 as <-. constructor.
  - injection H1 as <-. injection H2 as <-. constructor.
  - injection H1 as <-. injection H2 as <-. apply (zeros_rel R (r :: ref) (f r :: map f ref) R0). cbn. now rewrite map_length.
  - apply cntp_cons_inv in H1, H2. destruct H1 as (a & ta & Ha & H1 & ->). destruct H2 as (b & tb & Hb & H2 & ->).
    inversion HP; subst. constructor; eauto.
Qed.
Lemma cntp_swap w c : forall ref est t1 t2, length est = length ref ->
  cntp w c ref est = Ok t1 -> cntp w c est ref = Ok t2 -> t1 = t2.
Proof.
  induction ref as [|r ref IH]; intros [|e est] t1 t2 L H1 H2; try discriminate.
  - injection H1 as <-. injection H2 as <-. reflexivity.
  - apply cntp_cons_inv in H1, H2. destruct H1 as (a & ta & Ha & H1 & ->). destruct H2 as (b & tb & Hb & H2 & ->).
    injection L as L. f_equal; [eapply tp_frame_sym; eauto|eauto].
Qed.

(* ================================================================== 4. resample_multipitch: nearest source frame *)
Lemma take_while_nth (p : Q -> bool) : forall l j, (j < length (take_while p l))%nat -> p (nth j l 0) = true.
Proof.
  induction l as [|a l IH]; intros j H; cbn [take_while] in H; [cbn in H; lia|].
  destruct (p a) eqn:E; [|cbn in H; lia]. destruct j as [|j]; cbn [nth]; [exact E|]. apply IH. cbn in H. lia.
Qed.
Lemma take_while_stop (p : Q -> bool) : forall l, (length (take_while p l) < length l)%nat -> p (nth (length (take_while p l)) l 0) = false.
Proof.
  induction l as [|a l IH]; intros H; cbn [take_while] in *; [cbn in H; lia|].
  destruct (p a) eqn:E; cbn [length nth] in *; [apply IH; lia|exact E].
Qed.
Lemma take_while_length_le {A} (p : A -> bool) l : (length (take_while p l) <= length l)%nat.
Proof. induction l as [|a l IH]; cbn [take_while]; [lia|]. destruct (p a); cbn [length]; lia. Qed.
Lemma midpoints_length l : length (midpoints l) = (length l - 1)%nat.
Proof. induction l as [|a [|b l] IH]; cbn [midpoints length] in *; try lia. Qed.
Lemma midpoints_nth : forall l j, (S j < length l)%nat -> nth j (midpoints l) 0 = nth (S j) l 0 / 2 + nth j l 0 / 2.
Proof.
  induction l as [|a [|b l] IH]; intros j H; cbn [length] in H; try lia.
  destruct j as [|j]; [reflexivity|]. change (midpoints (a :: b :: l)) with ((b / 2 + a / 2) :: midpoints (b :: l)).
  cbn [nth]. rewrite IH by (cbn [length]; lia). reflexivity.
Qed.
Lemma sorted_nth_le l : StronglySorted Qle l -> forall j k, (j <= k)%nat -> (k < length l)%nat -> nth j l 0 <= nth k l 0.
Proof.
  induction 1 as [|a l Hs IH Ha]; intros j k Hjk Hk; cbn [length] in Hk; [lia|].
  destruct k as [|k]; [replace j with 0%nat by lia; apply Qle_refl|]. destruct j as [|j]; cbn [nth].
  - rewrite Forall_forall in Ha. apply Ha, nth_In. lia.
  - apply IH; lia.
Qed.
Lemma sorted_nth_lt l : StronglySorted Qlt l -> forall j k, (j < k)%nat -> (k < length l)%nat -> nth j l 0 < nth k l 0.
Proof.
  induction 1 as [|a l Hs IH Ha]; intros j k Hjk Hk; cbn [length] in Hk; [lia|].
  destruct k as [|k]; [lia|]. destruct j as [|j]; cbn [nth].
  - rewrite Forall_forall in Ha. apply Ha, nth_In. lia.
  - apply IH; lia.
Qed.
Lemma sorted_lt_le l : StronglySorted Qlt l -> StronglySorted Qle l.
Proof. induction 1 as [|a l Hs IH Ha]; constructor; auto. rewrite Forall_forall in *. intros x Hx. apply Qlt_le_weak. auto. Qed.
Lemma last_nth (l : list Q) d : l <> [] -> last l d = nth (length l - 1) l 0.
Proof.
  induction l as [|a [|b l] IH]; intros H; [congruence|reflexivity|].
  change (last (a :: b :: l) d) with (last (b :: l) d). rewrite IH by discriminate. cbn [length].
  replace (S (length l) - 1)%nat with (length l) by lia.
  replace (S (S (length l)) - 1)%nat with (S (length l)) by lia. reflexivity.
Qed.

Definition first_time (times : list Q) := nth 0 times 0.
Definition last_time (times : list Q) := nth (length times - 1) times 0.
(* the index chosen by the interpolator for an in-range target *)
Theorem nearest_index_spec times t : times <> [] -> StronglySorted Qle times -> first_time times <= t -> t <= last_time times ->
  let i := nearest_index times (length times) t in
  (i < length times)%nat
  /\ (forall j, (j < length times)%nat -> Qabs (nth i times 0 - t) <= Qabs (nth j times 0 - t))
  /\ (StronglySorted Qlt times -> forall j, (j < i)%nat -> Qabs (nth i times 0 - t) < Qabs (nth j times 0 - t)).
Proof.
  intros Hne Hs Hlo Hhi. unfold nearest_index. destruct times as [|t0 rest] eqn:Et; [congruence|]. rewrite <- Et in *.
  rewrite (last_nth times t0 Hne). fold (last_time times).
  assert (Hf : first_time times = t0) by (subst times; reflexivity). rewrite Hf in Hlo.
  assert (C1 : qltb t t0 = false) by (now apply qltb_false). assert (C2 : qltb (last_time times) t = false) by (now apply qltb_false).
  rewrite C1, C2. cbn [orb]. unfold searchsorted_left.
  set (mids := midpoints times). set (c := length (take_while (fun y => qltb y t) mids)).
  assert (Hn : (0 < length times)%nat) by (subst times; cbn; lia).
  assert (Hc : (c <= length times - 1)%nat) by (unfold c; rewrite <- (midpoints_length times); apply take_while_length_le).
  rewrite Nat.min_l by exact Hc. cbv zeta.
  assert (Hbefore : forall j, (j < c)%nat -> nth (S j) times 0 / 2 + nth j times 0 / 2 < t).
  { intros j Hj. rewrite <- midpoints_nth by lia. apply qltb_true. now apply (take_while_nth (fun y => qltb y t) mids). }
  assert (Hafter : (S c < length times)%nat -> t <= nth (S c) times 0 / 2 + nth c times 0 / 2).
  { intros H. rewrite <- midpoints_nth by lia. apply qltb_false. apply (take_while_stop (fun y => qltb y t) mids).
    fold c. unfold mids. rewrite midpoints_length. lia. }
  split; [lia|]. split.
  - intros j Hj. destruct (Nat.lt_trichotomy j c) as [L|[->|G]]; [| apply Qle_refl |].
    + pose proof (Hbefore (c - 1)%nat ltac:(lia)) as Hb. replace (S (c - 1)) with c in Hb by lia.
      pose proof (sorted_nth_le times Hs j (c - 1)%nat ltac:(lia) ltac:(lia)) as S1.
      pose proof (sorted_nth_le times Hs (c - 1)%nat c ltac:(lia) ltac:(lia)) as S2.
      set (a := nth c times 0) in *. set (b := nth (c - 1) times 0) in *. set (d := nth j times 0) in *.
      assert (Hb' : a + b < 2 * t) by (assert (E : a / 2 + b / 2 == (a + b) * (1 # 2)) by field; lra).
      assert (E2 : Qabs (d - t) == - (d - t)) by (apply Qabs_neg; lra).
      destruct (Qlt_le_dec (a - t) 0) as [N|N].
      * assert (E1 : Qabs (a - t) == - (a - t)) by (apply Qabs_neg; lra). lra.
      * assert (E1 : Qabs (a - t) == a - t) by (apply Qabs_pos; lra). lra.
    + pose proof (Hafter ltac:(lia)) as Ha.
      pose proof (sorted_nth_le times Hs (S c) j ltac:(lia) ltac:(lia)) as S1.
      pose proof (sorted_nth_le times Hs c (S c) ltac:(lia) ltac:(lia)) as S2.
      set (a := nth c times 0) in *. set (b := nth (S c) times 0) in *. set (d := nth j times 0) in *.
      assert (Ha' : 2 * t <= b + a) by (assert (E : b / 2 + a / 2 == (b + a) * (1 # 2)) by field; lra).
      assert (E2 : Qabs (d - t) == d - t) by (apply Qabs_pos; lra).
      destruct (Qlt_le_dec (a - t) 0) as [N|N].
      * assert (E1 : Qabs (a - t) == - (a - t)) by (apply Qabs_neg; lra). lra.
      * assert (E1 : Qabs (a - t) == a - t) by (apply Qabs_pos; lra). lra.
  - intros Hst j L.
    pose proof (Hbefore (c - 1)%nat ltac:(lia)) as Hb. replace (S (c - 1)) with c in Hb by lia.
    pose proof (sorted_nth_le times Hs j (c - 1)%nat ltac:(lia) ltac:(lia)) as S1.
    pose proof (sorted_nth_lt times Hst j c ltac:(lia) ltac:(lia)) as S2.
    set (a := nth c times 0) in *. set (b := nth (c - 1) times 0) in *. set (d := nth j times 0) in *.
    assert (Hb' : a + b < 2 * t) by (assert (E : a / 2 + b / 2 == (a + b) * (1 # 2)) by field; lra).
    assert (E2 : Qabs (d - t) == - (d - t)) by (apply Qabs_neg; lra).
    destruct (Qlt_le_dec (a - t) 0) as [N|N].
    + assert (E1 : Qabs (a - t) == - (a - t)) by (apply Qabs_neg; lra). lra.
    + assert (E1 : Qabs (a - t) == a - t) by (apply Qabs_pos; lra). lra.
Qed.
Lemma nearest_index_out times n t : times = [] \/ t < first_time times \/ last_time times < t -> nearest_index times n t = n.
Proof.
  unfold nearest_index. destruct times as [|t0 rest] eqn:Et; [reflexivity|]. rewrite <- Et.
  assert (Hne : times <> []) by (subst; discriminate). rewrite (last_nth times t0 Hne). fold (last_time times).
  intros [H|[H|H]]; [congruence| |].
  - assert (Hf : first_time times = t0) by (subst times; reflexivity). rewrite Hf in H. apply qltb_true in H. now rewrite H.
  - apply qltb_true in H. rewrite H. now rewrite orb_true_r.
Qed.

(* resample_multipitch: every target time gets the frame of the nearest source time; at an exact midpoint between two
   source times the EARLIER one (lower index) wins; targets before the first / after the last source time (and every
   target when there are no source times) get the empty frame; no targets give the empty list. *)
Theorem resample_nearest_spec {A} (times : list Q) (freqs : list (list A)) (targets : list Q) out :
  resample_multipitch times freqs targets = Ok out ->
  length out = length targets /\
  forall k t, nth_error targets k = Some t ->
    exists fr, nth_error out k = Some fr /\
      (times = [] \/ t < first_time times \/ last_time times < t -> fr = []) /\
      (times <> [] -> StronglySorted Qle times -> first_time times <= t -> t <= last_time times ->
         exists i, (i < length times)%nat /\ nth_error freqs i = Some fr
           /\ (forall j, (j < length times)%nat -> Qabs (nth i times 0 - t) <= Qabs (nth j times 0 - t))
           /\ (StronglySorted Qlt times -> forall j, (j < i)%nat -> Qabs (nth i times 0 - t) < Qabs (nth j times 0 - t))).
Proof.
  unfold resample_multipitch. destruct targets as [|tg0 tgs] eqn:Etg.
  - intros [= <-]. split; [reflexivity|]. intros [|k] t H; discriminate.
  - rewrite <- Etg. clear Etg tg0 tgs. destruct times as [|t0 rest] eqn:Et.
    + intros [= <-]. rewrite map_length. split; [reflexivity|]. intros k t Hk. exists []. rewrite nth_error_map, Hk.
      split; [reflexivity|]. split; [reflexivity|]. congruence.
    + rewrite <- Et. assert (Hne : times <> []) by (subst; discriminate). clear Et t0 rest.
      destruct (length times =? length freqs)%nat eqn:El; cbn [negb]; [|discriminate]. apply Nat.eqb_eq in El.
      intros [= <-]. rewrite map_length. split; [reflexivity|]. intros k t Hk. rewrite nth_error_map, Hk. cbn [option_map].
      eexists. split; [reflexivity|]. split.
      * intros Ho. rewrite (nearest_index_out times (length freqs) t Ho). rewrite app_nth2 by lia. now rewrite Nat.sub_diag.
      * intros _ Hs Hlo Hhi. rewrite <- El. destruct (nearest_index_spec times t Hne Hs Hlo Hhi) as (I1 & I2 & I3). cbv zeta in *.
        set (i := nearest_index times (length times) t) in *. exists i. split; [exact I1|]. split; [|split; assumption].
        rewrite app_nth1 by lia. apply nth_error_nth'. lia.
Qed.
Example resample_nearest_ex :
  resample_multipitch [0; 1; 4] [[100]; [200]; [300]] [1 # 2; 5 # 2; 9 # 4; 11 # 4; -1; 4; 5; 0]
  = Ok [[100]; [200]; [200]; [300]; []; [300]; []; [100]]
  /\ resample_multipitch [1] [[100]] [0; 1; 2] = Ok [[]; [100]; []]
  /\ resample_multipitch [] ([] : list (list Q)) [0; 1] = Ok [[]; []]
  /\ resample_multipitch [0; 1] [[100]; [200]] [] = Ok []
  /\ resample_multipitch [0; 1] [[100]] [0] = Raise ValueError.
Proof. repeat split; vm_compute; reflexivity. Qed.

(* ================================================================== 5. multipitch.metrics *)
Ltac bind_inv H :=
  match type of H with bind ?x _ = Ok _ => let E := fresh "E" in destruct x eqn:E; cbn [bind] in H; [|discriminate H] end.

Lemma validate_inv rt rf et ef : validate rt rf et ef = Ok tt ->
  length rt = length rf /\ length et = length ef /\ nondecreasing rt = true /\ nondecreasing et = true.
Proof.
  unfold validate, validate_events. intros H.
  destruct (existsb (fun t => qltb MAX_TIME t) rt); [discriminate H|]. destruct (nondecreasing rt); [|discriminate H].
  cbn [negb bind] in H. destruct (existsb (fun t => qltb MAX_TIME t) et); [discriminate H|]. destruct (nondecreasing et); [|discriminate H].
  cbn [negb bind] in H. destruct (length rt =? length rf)%nat eqn:E1; [|discriminate H].
  destruct (length et =? length ef)%nat eqn:E2; [|discriminate H]. apply Nat.eqb_eq in E1, E2. auto.
Qed.
Lemma nondecreasing_sorted l : nondecreasing l = true -> StronglySorted Qle l.
Proof.
  induction l as [|a [|b l] IH]; intros H; [constructor|repeat constructor|].
  change (nondecreasing (a :: b :: l)) with (qleb a b && nondecreasing (b :: l)) in H. apply andb_prop in H. destruct H as [H1 H2].
  specialize (IH H2). constructor; [exact IH|]. apply Qle_bool_iff in H1. inversion IH as [|? ? Hs Hb]; subst.
  constructor; [exact H1|]. rewrite Forall_forall in *. intros x Hx. eapply Qle_trans; [exact H1|auto].
Qed.
Lemma resample_length {A} times (freqs : list (list A)) targets out : resample_multipitch times freqs targets = Ok out -> length out = length targets.
Proof. intros H. now destruct (resample_nearest_spec times freqs targets out H). Qed.

Lemma metrics_trace_inv hz w rt rf et ef t : metrics_trace hz w rt rf et ef = Ok t ->
  validate rt rf et ef = Ok tt /\
  (if resample_needed et rt then resample_multipitch et ef rt else Ok ef) = Ok (est_used t) /\
  resampled t = resample_needed et rt /\
  cntp w false (frequencies_to_midi hz rf) (frequencies_to_midi hz (est_used t)) = Ok (tp_raw t) /\
  cntp w true (midi_to_chroma (frequencies_to_midi hz rf)) (midi_to_chroma (frequencies_to_midi hz (est_used t))) = Ok (tp_chroma t) /\
  raw t = scores_of (tp_raw t) (compute_num_freqs (frequencies_to_midi hz rf)) (compute_num_freqs (frequencies_to_midi hz (est_used t))) /\
  chroma t = scores_of (tp_chroma t) (compute_num_freqs (frequencies_to_midi hz rf)) (compute_num_freqs (frequencies_to_midi hz (est_used t))).
Proof.
  unfold metrics_trace. intros H. bind_inv H. destruct a. bind_inv H. bind_inv H. bind_inv H.
  injection H as <-. cbn [est_used resampled tp_raw tp_chroma raw chroma]. repeat split; auto.
Qed.
Lemma metrics_est_len hz w rt rf et ef t : metrics_trace hz w rt rf et ef = Ok t -> length (est_used t) = length rf.
Proof.
  intros H. apply metrics_trace_inv in H. destruct H as (Hv & He & _). apply validate_inv in Hv. destruct Hv as (L1 & L2 & _).
  destruct (resample_needed et rt) eqn:Er.
  - apply resample_length in He. congruence.
  - injection He as <-. unfold resample_needed in Er. apply orb_false_elim in Er. destruct Er as [Er _].
    apply negb_false_iff, Nat.eqb_eq in Er. congruence.
Qed.
Lemma num_freqs_midi hz fs : compute_num_freqs (frequencies_to_midi hz fs) = map (@length Q) fs.
Proof. unfold compute_num_freqs, frequencies_to_midi. rewrite map_map. apply map_ext. intros a. apply map_length. Qed.
Lemma lengths_chroma fs : map (@length mv) (midi_to_chroma fs) = map (@length mv) fs.
Proof. unfold midi_to_chroma. rewrite map_map. apply map_ext. intros a. apply map_length. Qed.

(* per frame, raw and chroma: TP_k <= #ref_k and TP_k <= #est_k (est = the possibly resampled estimate) *)
Theorem metrics_tp_le_min hz w rt rf et ef t : metrics_trace hz w rt rf et ef = Ok t ->
  Forall2 le (tp_raw t) (map (@length Q) rf) /\ Forall2 le (tp_raw t) (map (@length Q) (est_used t)) /\
  Forall2 le (tp_chroma t) (map (@length Q) rf) /\ Forall2 le (tp_chroma t) (map (@length Q) (est_used t)).
Proof.
  intros H. pose proof (metrics_est_len _ _ _ _ _ _ _ H) as L. apply metrics_trace_inv in H.
  destruct H as (_ & _ & _ & H1 & H2 & _). rewrite <- !num_freqs_midi with (hz := hz). unfold compute_num_freqs.
  assert (L' : length (frequencies_to_midi hz (est_used t)) = length (frequencies_to_midi hz rf))
    by (unfold frequencies_to_midi; now rewrite !map_length).
  repeat split.
  - eapply cntp_le_ref; eauto.
  - eapply cntp_le_est; eauto.
  - rewrite <- lengths_chroma. eapply cntp_le_ref; eauto.
  - rewrite <- lengths_chroma. eapply cntp_le_est; [|eauto]. unfold midi_to_chroma. now rewrite !map_length.
Qed.
(* the C18 identities for every successful call of metrics: raw scores and chroma scores *)
Theorem metrics_accounting hz w rt rf et ef t : metrics_trace hz w rt rf et ef = Ok t ->
  accounting_ok (raw t) /\ accounting_ok (chroma t).
Proof.
  intros H. destruct (metrics_tp_le_min _ _ _ _ _ _ _ H) as (A & B & C & D). apply metrics_trace_inv in H.
  destruct H as (_ & _ & _ & _ & _ & -> & ->). rewrite !num_freqs_midi. split; now apply scores_accounting.
Qed.
Definition demo_hz (f : Q) : Q := if Qeq_bool f 440 then 69 else if Qeq_bool f 880 then 81 else if Qeq_bool f 220 then 57 else 60.
Example metrics_accounting_ex :
  option_map (fun t => (tp_raw t, tp_chroma t, map Qred (scores_list (raw t)), map Qred (scores_list (chroma t))))
    (match metrics_trace demo_hz (1 # 2) [0; 1] [[440; 220]; [880]] [0; 1] [[880]; [880; 440; 220]] with Ok t => Some t | Raise _ => None end)
  = Some ([0; 1]%nat, [1; 1]%nat, [1 # 4; 1 # 3; 1 # 6; 1 # 3; 1 # 3; 2 # 3; 4 # 3], [1 # 2; 2 # 3; 2 # 5; 0; 1 # 3; 2 # 3; 1]).
Proof. vm_compute. reflexivity. Qed.

(* chroma TP >= raw TP in every frame, when no reference frequency is negative *)
Lemma to_midi_nan_free hz (fr : list Q) : Forall (fun f => 0 <= f) fr -> nan_free (map (to_midi hz) fr).
Proof.
  intros H. unfold nan_free. rewrite Forall_forall in *. intros x Hx. apply in_map_iff in Hx. destruct Hx as (f & <- & Hf).
  unfold to_midi. assert (E : qltb f 0 = false) by (apply qltb_false; auto). rewrite E. discriminate.
Qed.
Theorem metrics_tp_raw_le_chroma hz w rt rf et ef t : Forall (Forall (fun f => 0 <= f)) rf ->
  metrics_trace hz w rt rf et ef = Ok t -> Forall2 le (tp_raw t) (tp_chroma t).
Proof.
  intros Hp H. apply metrics_trace_inv in H. destruct H as (_ & _ & _ & H1 & H2 & _). rewrite !midi_to_chroma_wrap in H2.
  eapply (cntp_compare le nan_free w false w true wrap12 wrap12); [lia| |  |exact H1|exact H2].
  - intros r e n1 n2 Hr A B. exact (tp_raw_le_chroma w r e n1 n2 (or_introl Hr) A B).
  - unfold frequencies_to_midi. apply Forall_forall. intros x Hx. apply in_map_iff in Hx. destruct Hx as (fr & <- & Hfr).
    apply to_midi_nan_free. rewrite Forall_forall in Hp. now apply Hp.
Qed.
(* ... and a counterexample with negative frequencies, which `validate` lets through (allow_negatives=False only bounds |f|):
   raw precision 1, chroma precision 0, whatever the Hz -> MIDI map is. *)
Definition neg_rt : list Q := [0]. Definition neg_rf : list (list Q) := [[-(100)]]. Definition neg_ef : list (list Q) := [[-(200)]].
Theorem metrics_raw_le_chroma_refuted : validate neg_rt neg_rf neg_rt neg_ef = Ok tt /\
  forall hz, exists t, metrics_trace hz (1 # 2) neg_rt neg_rf neg_rt neg_ef = Ok t /\ tp_raw t = [1%nat] /\ tp_chroma t = [0%nat]
                       /\ precision (raw t) == 1 /\ precision (chroma t) == 0.
Proof.
  split; [vm_compute; reflexivity|]. intros hz. eexists. split; [vm_compute; reflexivity|]. cbn. repeat split; reflexivity.
Qed.

(* ------------------------------------------------------------------ two runs of compute_num_true_positives, related frame by frame *)
Lemma cntp_rel (R : nat -> nat -> Prop) (Sr Se : list mv -> list mv -> Prop) w1 c1 w2 c2 :
  R 0%nat 0%nat ->
  (forall r r' e e' n1 n2, Sr r r' -> Se e e' -> tp_frame c1 w1 r e = Some n1 -> tp_frame c2 w2 r' e' = Some n2 -> R n1 n2) ->
  forall ref ref', Forall2 Sr ref ref' -> forall est est' t1 t2, Forall2 Se est est' ->
  cntp w1 c1 ref est = Ok t1 -> cntp w2 c2 ref' est' = Ok t2 -> Forall2 R t1 t2.
Proof.
  intros R0 HR ref ref' Hr. induction Hr as [|r r' ref ref' Hrr Hr IH]; intros est est' t1 t2 He H1 H2.
  - destruct est, est'; injection H1 as <-; injection H2 as <-; constructor.
  - inversion He as [|e e' est0 est0' Hee He']; subst.
    + injection H1 as <-. injection H2 as <-. apply (zeros_rel R (r :: ref) (r' :: ref') R0). cbn [length]. f_equal.
      eapply Forall2_length_le; eauto.
    + apply cntp_cons_inv in H1, H2. destruct H1 as (a & ta & Ha & H1 & ->). destruct H2 as (b & tb & Hb & H2 & ->).
      constructor; eauto.
Qed.
Lemma Forall2_refl {A} (l : list A) : Forall2 eq l l. Proof. induction l; constructor; auto. Qed.
Lemma Forall2_eq {A} (l l' : list A) : Forall2 eq l l' -> l = l'. Proof. induction 1; congruence. Qed.
Lemma Forall2_map2 {A B C} (f1 : A -> B) (f2 : A -> C) l : Forall2 (fun b c => exists a, b = f1 a /\ c = f2 a) (map f1 l) (map f2 l).
Proof. induction l; cbn [map]; constructor; eauto. Qed.

Lemma est_used_indep hz1 w1 hz2 w2 rt rf et ef t1 t2 :
  metrics_trace hz1 w1 rt rf et ef = Ok t1 -> metrics_trace hz2 w2 rt rf et ef = Ok t2 -> est_used t1 = est_used t2.
Proof. intros H1 H2. apply metrics_trace_inv in H1, H2. destruct H1 as (_ & A & _). destruct H2 as (_ & B & _). congruence. Qed.

(* widening `window` never lowers a true-positive count of metrics(..., window=w) *)
Theorem metrics_tp_window_mono hz w1 w2 rt rf et ef t1 t2 : w1 <= w2 ->
  metrics_trace hz w1 rt rf et ef = Ok t1 -> metrics_trace hz w2 rt rf et ef = Ok t2 ->
  Forall2 le (tp_raw t1) (tp_raw t2) /\ Forall2 le (tp_chroma t1) (tp_chroma t2).
Proof.
  intros Hw H1 H2. pose proof (est_used_indep _ _ _ _ _ _ _ _ _ _ H1 H2) as Eu. apply metrics_trace_inv in H1, H2.
  destruct H1 as (_ & _ & _ & A1 & B1 & _). destruct H2 as (_ & _ & _ & A2 & B2 & _). rewrite <- Eu in A2, B2.
  split.
  - eapply (cntp_rel le eq eq w1 false w2 false); [lia| |apply Forall2_refl|apply Forall2_refl|exact A1|exact A2].
    intros r r' e e' n1 n2 <- <-. now apply tp_window_mono.
  - eapply (cntp_rel le eq eq w1 true w2 true); [lia| |apply Forall2_refl|apply Forall2_refl|exact B1|exact B2].
    intros r r' e e' n1 n2 <- <-. now apply tp_window_mono.
Qed.

(* a different tuning reference (hz2midi shifted by a constant s, e.g. another ref_frequency) changes no count *)
Lemma f2m_shift hz s fs : frequencies_to_midi (fun f => hz f + s) fs = map (shift s) (frequencies_to_midi hz fs).
Proof.
  unfold frequencies_to_midi, shift. rewrite map_map. apply map_ext. intros fr. rewrite map_map. apply map_ext. intros f.
  unfold to_midi. destruct (qltb f 0); reflexivity.
Qed.
Theorem metrics_tp_shift_invariant hz s w rt rf et ef t1 t2 :
  metrics_trace hz w rt rf et ef = Ok t1 -> metrics_trace (fun f => hz f + s) w rt rf et ef = Ok t2 ->
  tp_raw t1 = tp_raw t2 /\ tp_chroma t1 = tp_chroma t2.
Proof.
  intros H1 H2. pose proof (est_used_indep _ _ _ _ _ _ _ _ _ _ H1 H2) as Eu. apply metrics_trace_inv in H1, H2.
  destruct H1 as (_ & _ & _ & A1 & B1 & _). destruct H2 as (_ & _ & _ & A2 & B2 & _). rewrite <- Eu in A2, B2.
  rewrite !f2m_shift in A2, B2. rewrite !midi_to_chroma_wrap in B1, B2. split; apply Forall2_eq.
  - rewrite <- (map_id (frequencies_to_midi hz rf)) in A1. rewrite <- (map_id (frequencies_to_midi hz (est_used t1))) in A1.
    eapply (cntp_rel eq _ _ w false w false);
      [reflexivity| |apply (Forall2_map2 (fun x : list mv => x) (shift s))|apply (Forall2_map2 (fun x : list mv => x) (shift s))|exact A1|exact A2].
    intros r r' e e' n1 n2 (x & -> & ->) (y & -> & ->). apply tp_shift_invariant_raw.
  - rewrite (map_map (shift s) wrap12) in B2. rewrite (map_map (shift s) wrap12) in B2.
    eapply (cntp_rel eq _ _ w true w true);
      [reflexivity| |apply (Forall2_map2 wrap12 (fun x => wrap12 (shift s x)))|apply (Forall2_map2 wrap12 (fun x => wrap12 (shift s x)))|exact B1|exact B2].
    intros r r' e e' n1 n2 (x & -> & ->) (y & -> & ->). apply tp_shift_invariant_chroma.
Qed.
(* whole-octave changes of estimated values leave every chroma count unchanged *)
Theorem cntp_chroma_octave_invariant w ref est est' t t' : Forall2 (Forall2 oct_equiv) est est' ->
  cntp w true (midi_to_chroma ref) (midi_to_chroma est) = Ok t -> cntp w true (midi_to_chroma ref) (midi_to_chroma est') = Ok t' -> t = t'.
Proof.
  intros HF H1 H2. rewrite !midi_to_chroma_wrap in H1, H2. apply Forall2_eq.
  eapply (cntp_rel eq (fun r r' => exists x, r = wrap12 x /\ r' = wrap12 x)
                      (fun e e' => exists x x', e = wrap12 x /\ e' = wrap12 x' /\ Forall2 oct_equiv x x') w true w true);
    [reflexivity| |apply (Forall2_map2 wrap12 wrap12)| |exact H1|exact H2].
  - intros r r' e e' n1 n2 (x & -> & ->) (y & y' & -> & -> & Hy). now apply chroma_tp_octave_invariant.
  - clear H1 H2. induction HF; cbn [map]; constructor; eauto.
Qed.

(* ------------------------------------------------------------------ when does metrics resample? *)
Lemma ATOL_pos : 0 < ATOL. Proof. reflexivity. Qed.
Lemma RTOL_pos : 0 < RTOL. Proof. reflexivity. Qed.
Definition not_close (a b : Q) : Prop := ATOL + RTOL * Qabs b < Qabs (a - b).
Lemma close_test a b : qleb (Qabs (a - b)) (ATOL + RTOL * Qabs b) = false <-> not_close a b.
Proof.
  unfold qleb, not_close. split.
  - intros H. destruct (Qlt_le_dec (ATOL + RTOL * Qabs b) (Qabs (a - b))) as [L|L]; [exact L|]. apply Qle_bool_iff in L. congruence.
  - intros H. destruct (Qle_bool (Qabs (a - b)) (ATOL + RTOL * Qabs b)) eqn:E; [|reflexivity]. apply Qle_bool_iff in E.
    set (u := Qabs (a - b)) in *. set (v := ATOL + RTOL * Qabs b) in *. lra.
Qed.
Lemma combine_nth_iff {A B} (l : list A) (l' : list B) a b :
  In (a, b) (combine l l') <-> exists k, nth_error l k = Some a /\ nth_error l' k = Some b.
Proof.
  revert l'. induction l as [|x l IH]; intros [|y l']; cbn [combine In].
  - split; [tauto|]. intros ([|k] & H & _); discriminate.
  - split; [tauto|]. intros ([|k] & H & _); discriminate.
  - split; [tauto|]. intros ([|k] & _ & H); discriminate.
  - rewrite IH. split.
    + intros [[= <- <-]|(k & H1 & H2)]; [exists 0%nat; auto|exists (S k); auto].
    + intros ([|k] & H1 & H2); cbn in H1, H2; [left; congruence|right; eauto].
Qed.
Lemma allclose_false_iff a b : allclose a b = false <-> exists k x y, nth_error a k = Some x /\ nth_error b k = Some y /\ not_close x y.
Proof.
  unfold allclose. split.
  - intros H. assert (Hex : exists p, In p (combine a b) /\ qleb (Qabs (fst p - snd p)) (ATOL + RTOL * Qabs (snd p)) = false).
    { induction (combine a b) as [|p l IH]; [discriminate|]. cbn [forallb] in H. apply andb_false_iff in H. destruct H as [H|H].
      - exists p. split; [now left|exact H]. - destruct (IH H) as (q & Hq & Hf). exists q. split; [now right|exact Hf]. }
    destruct Hex as ([x y] & Hin & Hf). apply combine_nth_iff in Hin. destruct Hin as (k & H1 & H2).
    exists k, x, y. repeat split; auto. now apply close_test.
  - intros (k & x & y & H1 & H2 & Hn). destruct (forallb _ (combine a b)) eqn:E; [|reflexivity]. rewrite forallb_forall in E.
    assert (Hin : In (x, y) (combine a b)) by (apply combine_nth_iff; eauto). apply E in Hin. cbn [fst snd] in Hin.
    apply close_test in Hn. congruence.
Qed.
(* metrics resamples the estimate  iff  the two time bases have different sizes or some estimate time is not within
   atol + rtol*|ref time| (np.allclose: atol = 1e-8, rtol = 1e-5) of the reference time; then the estimate used is the
   nearest-frame resampling onto the reference times, otherwise the estimate itself. *)
Theorem metrics_resamples_iff_timebases_differ hz w rt rf et ef t : metrics_trace hz w rt rf et ef = Ok t ->
  (resampled t = true <-> (length et <> length rt \/ exists k a b, nth_error et k = Some a /\ nth_error rt k = Some b /\ not_close a b))
  /\ (resampled t = true -> resample_multipitch et ef rt = Ok (est_used t))
  /\ (resampled t = false -> est_used t = ef).
Proof.
  intros H. apply metrics_trace_inv in H. destruct H as (_ & He & -> & _). split; [|split].
  - unfold resample_needed. rewrite orb_true_iff, !negb_true_iff, Nat.eqb_neq, allclose_false_iff. reflexivity.
  - intros E. now rewrite E in He.
  - intros E. rewrite E in He. congruence.
Qed.
(* "differ" really means "not allclose": a late time base that is off by a whole 1/64 s everywhere is NOT resampled
   (|dt| = 0.015625 <= 1e-8 + 1e-5 * 2000), the same offset near t = 0 is. *)
Theorem resample_iff_times_unequal_refuted : exists rt et : list Q,
  length et = length rt /\ (forall a b, In (a, b) (combine et rt) -> ~ a == b) /\ resample_needed et rt = false.
Proof.
  exists [2000; 2000 + (1 # 64)], [2000 + (1 # 64); 2000 + (2 # 64)]. split; [reflexivity|]. split; [|vm_compute; reflexivity].
  intros a b [[= <- <-]|[[= <- <-]|[]]]; intros E; vm_compute in E; discriminate.
Qed.
Example allclose_shifted_timebase_ex :
  (* identical frequency content; estimate = reference delayed by one hop of 1/64 s *)
  let rf := [[440]; [880]] in let ef := [[880]; [440]] in
  option_map (fun t => (resampled t, tp_raw t)) (match metrics_trace demo_hz (1 # 2) [2000; 2000 + (1 # 64)] rf [2000 + (1 # 64); 2000 + (2 # 64)] ef with Ok t => Some t | _ => None end)
    = Some (false, [0; 0]%nat)
  /\ option_map (fun t => (resampled t, est_used t, tp_raw t)) (match metrics_trace demo_hz (1 # 2) [0; 1 # 64] rf [1 # 64; 2 # 64] ef with Ok t => Some t | _ => None end)
    = Some (true, [[]; [880]], [0; 1]%nat).
Proof. split; vm_compute; reflexivity. Qed.

(* what the resampled estimate is, inside metrics (validate guarantees the non-decreasing time base) *)
Theorem metrics_resample_spec hz w rt rf et ef t : metrics_trace hz w rt rf et ef = Ok t -> resampled t = true ->
  length (est_used t) = length rt /\
  forall k tr, nth_error rt k = Some tr ->
    exists fr, nth_error (est_used t) k = Some fr /\
      (et = [] \/ tr < first_time et \/ last_time et < tr -> fr = []) /\
      (et <> [] -> first_time et <= tr -> tr <= last_time et ->
         exists i, (i < length et)%nat /\ nth_error ef i = Some fr
           /\ (forall j, (j < length et)%nat -> Qabs (nth i et 0 - tr) <= Qabs (nth j et 0 - tr))
           /\ (StronglySorted Qlt et -> forall j, (j < i)%nat -> Qabs (nth i et 0 - tr) < Qabs (nth j et 0 - tr))).
Proof.
  intros H Hr. destruct (metrics_resamples_iff_timebases_differ _ _ _ _ _ _ _ H) as (_ & Hres & _). specialize (Hres Hr).
  apply metrics_trace_inv in H. destruct H as (Hv & _). apply validate_inv in Hv. destruct Hv as (_ & _ & _ & Hs).
  apply nondecreasing_sorted in Hs. destruct (resample_nearest_spec et ef rt _ Hres) as (L & Hk). split; [exact L|].
  intros k tr Hk'. destruct (Hk k tr Hk') as (fr & A & B & C). exists fr. repeat split; auto.
Qed.

(* ------------------------------------------------------------------ swapping reference and estimate (common time base) *)
Lemma allclose_refl l : allclose l l = true.
Proof.
  unfold allclose. induction l as [|x l IH]; [reflexivity|]. cbn [combine forallb fst snd]. rewrite IH, andb_true_r.
  apply Qle_bool_iff. assert (E : Qabs (x - x) == 0) by (assert (E0 : x - x == 0) by ring; now rewrite E0).
  pose proof (Qabs_nonneg x) as N. pose proof ATOL_pos as PA. pose proof RTOL_pos as PR.
  set (ax := Qabs x) in *. set (A := ATOL) in *. set (R := RTOL) in *. rewrite E. nra.
Qed.
Lemma resample_needed_same l : resample_needed l l = false.
Proof. unfold resample_needed. now rewrite Nat.eqb_refl, allclose_refl. Qed.
Lemma scores_of_pra tp r e :
  precision (scores_of tp r e) = (if (0 <? zsum (zn e))%Z then zq (zsum (zn tp)) / zq (zsum (zn e)) else 0) /\
  recall (scores_of tp r e) = (if (0 <? zsum (zn r))%Z then zq (zsum (zn tp)) / zq (zsum (zn r)) else 0) /\
  accuracy (scores_of tp r e) = (if (0 <? zsum (zip3 (fun e r t => e + r - t)%Z (zn e) (zn r) (zn tp)))%Z
                                 then zq (zsum (zn tp)) / zq (zsum (zip3 (fun e r t => e + r - t)%Z (zn e) (zn r) (zn tp))) else 0).
Proof.
  unfold scores_of, compute_accuracy. fold (zn tp) (zn r) (zn e).
  destruct (compute_err_score (zn tp) (zn r) (zn e)) as [[[s0 m0] f0] t0]. cbn [precision recall accuracy]. auto.
Qed.
Lemma zip3_swap : forall a b c, zsum (zip3 (fun e r t => e + r - t)%Z a b c) = zsum (zip3 (fun e r t => e + r - t)%Z b a c).
Proof. induction a as [|x a IH]; intros [|y b] [|z c]; cbn [zip3 zsum fold_right]; try reflexivity. unfold zsum in IH. rewrite (IH b c). lia. Qed.
Lemma scores_swap tp r e : let s := scores_of tp r e in let s' := scores_of tp e r in
  precision s = recall s' /\ recall s = precision s' /\ accuracy s = accuracy s'.
Proof.
  cbv zeta. destruct (scores_of_pra tp r e) as (P1 & R1 & A1). destruct (scores_of_pra tp e r) as (P2 & R2 & A2).
  rewrite P1, R1, A1, P2, R2, A2. rewrite (zip3_swap (zn r) (zn e) (zn tp)). auto.
Qed.
(* same time base for both: exchanging reference and estimate exchanges precision and recall and keeps accuracy
   (raw and chroma); the true-positive arrays are the same *)
Theorem precision_recall_swap hz w times rf ef t1 t2 :
  metrics_trace hz w times rf times ef = Ok t1 -> metrics_trace hz w times ef times rf = Ok t2 ->
  tp_raw t1 = tp_raw t2 /\ tp_chroma t1 = tp_chroma t2 /\
  precision (raw t1) == recall (raw t2) /\ recall (raw t1) == precision (raw t2) /\ accuracy (raw t1) == accuracy (raw t2) /\
  precision (chroma t1) == recall (chroma t2) /\ recall (chroma t1) == precision (chroma t2) /\ accuracy (chroma t1) == accuracy (chroma t2).
Proof.
  intros H1 H2. pose proof (metrics_est_len _ _ _ _ _ _ _ H1) as L1. apply metrics_trace_inv in H1, H2.
  destruct H1 as (_ & E1 & _ & A1 & B1 & -> & ->). destruct H2 as (_ & E2 & _ & A2 & B2 & -> & ->).
  rewrite resample_needed_same in E1, E2. injection E1 as E1. injection E2 as E2. rewrite <- E1 in *. rewrite <- E2 in *.
  assert (T1 : tp_raw t1 = tp_raw t2).
  { eapply cntp_swap; [|exact A1|exact A2]. unfold frequencies_to_midi. now rewrite !map_length. }
  assert (T2 : tp_chroma t1 = tp_chroma t2).
  { eapply cntp_swap; [|exact B1|exact B2]. unfold frequencies_to_midi, midi_to_chroma. now rewrite !map_length. }
  rewrite T1, T2. split; [reflexivity|]. split; [reflexivity|].
  destruct (scores_swap (tp_raw t2) (compute_num_freqs (frequencies_to_midi hz rf)) (compute_num_freqs (frequencies_to_midi hz ef))) as (X1 & X2 & X3).
  destruct (scores_swap (tp_chroma t2) (compute_num_freqs (frequencies_to_midi hz rf)) (compute_num_freqs (frequencies_to_midi hz ef))) as (Y1 & Y2 & Y3).
  cbv zeta in *. rewrite X1, X2, X3, Y1, Y2, Y3. repeat split; reflexivity.
Qed.
Example precision_recall_swap_ex :
  option_map (fun t => map Qred [precision (raw t); recall (raw t); accuracy (raw t)])
    (match metrics_trace demo_hz (1 # 2) [0; 1] [[440; 220]; [880]] [0; 1] [[440]; [880; 440; 220]] with Ok t => Some t | _ => None end)
    = Some [1 # 2; 2 # 3; 2 # 5]
  /\ option_map (fun t => map Qred [precision (raw t); recall (raw t); accuracy (raw t)])
    (match metrics_trace demo_hz (1 # 2) [0; 1] [[440]; [880; 440; 220]] [0; 1] [[440; 220]; [880]] with Ok t => Some t | _ => None end)
    = Some [2 # 3; 1 # 2; 2 # 5].
Proof. split; vm_compute; reflexivity. Qed.

(* ------------------------------------------------------------------ names of the frame-level facts as requested *)
Print Assumptions etot_is_sum.
Print Assumptions errs_nonneg.
Print Assumptions acc_le_min_p_r.
Print Assumptions metrics_accounting.
Print Assumptions tp_le_min.
Print Assumptions metrics_tp_le_min.
Print Assumptions tp_raw_le_chroma.
Print Assumptions tp_raw_le_chroma_nan_refuted.
Print Assumptions metrics_tp_raw_le_chroma.
Print Assumptions metrics_raw_le_chroma_refuted.
Print Assumptions resample_nearest_spec.
Print Assumptions nearest_index_spec.
Print Assumptions metrics_resample_spec.
Print Assumptions metrics_resamples_iff_timebases_differ.
Print Assumptions resample_iff_times_unequal_refuted.
Print Assumptions precision_recall_swap.
Print Assumptions tp_frame_sym.
Print Assumptions tp_window_mono.
Print Assumptions metrics_tp_window_mono.
Print Assumptions tp_shift_invariant.
Print Assumptions metrics_tp_shift_invariant.
Print Assumptions chroma_tp_octave_invariant.
Print Assumptions cntp_chroma_octave_invariant.
Print Assumptions match_hits_size_order_independent.
