(* C15, layer 1: every in-place write site of mir_eval (as translated from /repo on this run) writes into an object
   allocated by the function itself, except for the individually justified sites below; no function writes to
   module-level state; inside loops both branches of an if/else store into the same np.empty buffers. *)
From Coq Require Import List String Bool Arith.
From ME Require Import Model.Purity Gen.WriteSites.
Import ListNotations.
Open Scope string_scope.

Definition allowed : list allow := [
  (* str is immutable: `chord_label += ...` rebinds the local name to a new string *)
  ("chord", "join", "augassign-name", "chord_label");
  (* `contingency[nnz]` is advanced (index-array) indexing, which always copies: `contingency_nm /= ...` divides the copy *)
  ("segment", "_mutual_info_score", "augassign-name", "contingency_nm");
  (* merged_ivs is a list created in this call whose items are the list literals [s, e] appended just above (s, e are NumPy scalars);
     the analysis cannot separate the components of the zip() tuples, hence the parameter tags *)
  ("chord", "merge_chord_intervals", "store", "merged_ivs[-1]");
  (* columns = tuple(list() for _ in converters): lists created in this call; `column` is one of them (zip element) *)
  ("io", "load_delimited", "method-append", "column");
  (* pairs = [list(), list()]: created in this call *)
  ("util", "intersect_files", "method-append", "pairs[0]");
  ("util", "intersect_files", "method-append", "pairs[1]");
  (* new_layer is a dict created in this call; setdefault(v, []) returns a list stored only in it *)
  ("util", "_bipartite_match", "method-append", "new_layer.setdefault(v, [])");
  (* closure over preds / pred, dicts created by the enclosing call of _bipartite_match *)
  ("util", "_bipartite_match.<locals>.recurse", "delete", "preds");
  ("util", "_bipartite_match.<locals>.recurse", "delete", "pred") ].

Definition first_offending : option (string * string * string * string) :=
  option_map (fun s => (s_module s, s_function s, s_kind s, s_target s)) (hd_error (offending allowed write_sites)).

Theorem write_sites_classified : offending allowed write_sites = [].
Proof. vm_compute. reflexivity. Qed.

Theorem no_write_to_module_state :
  filter writes_global write_sites = [] /\ filter (fun s => String.eqb (s_kind s) "global-statement") write_sites = [].
Proof. vm_compute. split; reflexivity. Qed.

(* the only module-level containers are the documented constant tables (never written: previous theorem) *)
Theorem module_objects_are_the_constant_tables :
  map (fun r => (fst (fst r), snd (fst r))) module_objects =
  [("chord", "PITCH_CLASSES"); ("chord", "SCALE_DEGREES"); ("chord", "QUALITIES"); ("chord", "EXTENDED_QUALITY_REDUX"); ("chord", "CHORD_RE");
   ("key", "KEY_TO_SEMITONE")].
Proof. vm_compute. reflexivity. Qed.

Theorem buffers_stored_on_all_branches : forallb branch_ok buffer_branches = true.
Proof. vm_compute. reflexivity. Qed.

(* the analysis really covered the library (guards against a translator that silently analyses nothing) *)
Theorem analysis_is_not_vacuous : Nat.leb 150 functions_analysed = true /\ Nat.leb 250 (List.length write_sites) = true /\ Nat.leb 6 (List.length buffer_branches) = true.
Proof. vm_compute. repeat split; reflexivity. Qed.
