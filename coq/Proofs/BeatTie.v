(* The beat metrics of mir_eval/beat.py, tied to the hand-written model by TRANSLATION
   (this file: trim_beats, _get_reference_beat_variations, cemgil; BeatTieGoto.v: goto; BeatTieCont.v: continuity).

   translator/beatfuncs.py turns the bodies of
     trim_beats, _get_reference_beat_variations, cemgil, goto, continuity
   into programs of the Python / NumPy sub-language of Model/BeatExp.v (Gen/BeatGen.v, regenerated on every check).
   These files prove, for ALL inputs (all rational beat arrays and thresholds), that running each generated program
   gives what the model function of Model/Beat.v gives, including which exception is raised.
     trim_beats_tie(_int)      program = Beat.trim_beats                         (Leibniz equality of the arrays)
     variations_tie(_all)      program = (ref, odds d, d, evens ref, odds ref) with d == Beat.double_beats ref entrywise
                               (np.arange / np.interp index arithmetic by induction over the beats)
     cemgil_tie                program == Beat.cemgil g with g d = fexp (-(d*d) / (2 * (sigma*sigma))), fexp = np.exp arbitrary,
                               sigma <> 0 (both loops by induction; the normaliser; accuracies[0] and np.max)
     goto_tie, continuity_tie  (BeatTieGoto.v, BeatTieCont.v)
   Callees. The calls of `validate` and `_get_reference_beat_variations` are opaque; call sites are bound to the callee
   signatures read from the source in the same run (beat_sigs, pinned by beat_sigs_expected). The *_tie theorems
   instantiate the callees by the MODEL's functions (beat_ext). The *_tie_gen theorems hold for every [ext] that answers
   validate as the model does and the variations call with any tuple of arrays [vars_of ref]; the *_tie_prog theorems
   instantiate the variations callee by the TRANSLATED program itself (prog_ext; through variations_tie and the invariance of
   the model under == of the annotation times), so that the chain continuity -> _get_reference_beat_variations is closed.
   Float results are compared up to == of Q (the program and the model associate the same arithmetic differently);
   every comparison / branch of the programs is decided exactly as in the model. *)
From Coq Require Import String.
From Coq Require Import List Bool Arith ZArith QArith Qabs Qminmax Qround Lia Lqa.
From ME Require Import Model.Prelude Model.BeatExp Gen.BeatGen.
From ME Require Model.Beat Proofs.BeatProps.
Import ListNotations.
Open Scope Q_scope.

Definition beat_sigs : list (string * option sigv) := sigs_of (fun_params beat_funs ++ beat_prims).
Definition lift_unit (r : res unit) : out bv := match r with Ok _ => OK VNone | Raise e => EXN e end.
Definition v_vars (ref : list Q) : bv := VTup (map VArrQ (Beat.variations ref)).
Local Open Scope string_scope.
Definition beat_ext (f : string) (vs : list bv) : out bv :=
  if f =? "validate" then match vs with [VArrQ r; VArrQ e] => lift_unit (Beat.validate r e) | _ => UNM end
  else if f =? "_get_reference_beat_variations" then match vs with [VArrQ r] => OK (v_vars r) | _ => UNM end
  else UNM.
Local Close Scope string_scope.
(* a run with the callees given by [ext]; [run] = the callees are the model's functions *)
Definition runx (ext : string -> list bv -> out bv) (fexp : Q -> Q) (f : fdef) (args : list bv) : out bv :=
  run_fun beat_sigs ext fexp f args.
Definition run (fexp : Q -> Q) (f : fdef) (args : list bv) : out bv := runx beat_ext fexp f args.

(* results up to == *)
Definition xeq (a b : xval) : Prop :=
  match a, b with Fin x, Fin y => x == y | PInf, PInf | NInf, NInf | NaN, NaN => True | _, _ => False end.
Definition leq (a b : list Q) : Prop := Forall2 Qeq a b.
(* the floats of a returned float / tuple of floats *)
Fixpoint floats_of (l : list bv) : option (list xval) :=
  match l with [] => Some [] | VFlt _ x :: t => option_map (cons x) (floats_of t) | _ => None end.
Definition out_floats (o : out bv) : out (list xval) :=
  match o with
  | OK (VFlt _ x) => OK [x]
  | OK (VTup l) => match floats_of l with Some xs => OK xs | None => UNM end
  | OK _ => UNM | EXN e => EXN e | UNM => UNM
  end.
Definition out_eq (a b : out (list xval)) : Prop :=
  match a, b with OK l, OK m => Forall2 xeq l m | EXN e, EXN f => e = f | _, _ => False end.

(* ---------- lists ---------- *)
Lemma vselect_map_filter {A} (p : A -> bool) l : vselect (map p l) l = filter p l.
Proof. induction l as [|x t IH]; [reflexivity|]. cbn [map vselect filter]. destruct (p x); rewrite IH; reflexivity. Qed.

(* ================================================================== trim_beats *)
Theorem trim_beats_tie : forall ext fexp (b : list Q) (m : Q) (py : bool),
  runx ext fexp gen_trim_beats [VArrQ b; VFlt py (Fin m)] = OK (VArrQ (Beat.trim_beats b m)).
Proof.
  intros. unfold runx, run_fun. cbn. rewrite map_length, Nat.eqb_refl, vselect_map_filter. reflexivity.
Qed.
Theorem trim_beats_tie_int : forall ext fexp (b : list Q) (m : Z) (py : bool),
  runx ext fexp gen_trim_beats [VArrQ b; VInt py m] = OK (VArrQ (Beat.trim_beats b (inject_Z m))).
Proof.
  intros. unfold runx, run_fun. cbn. rewrite map_length, Nat.eqb_refl, vselect_map_filter. reflexivity.
Qed.

(* ================================================================== _get_reference_beat_variations *)
Lemma every2_evens {A} : forall l : list A, every_from 2 0 l = Beat.evens l /\ every_from 2 1 l = Beat.evens (tl l).
Proof.
  fix IH 1. intros [|a [|b t]]; [split; reflexivity|split; reflexivity|].
  destruct (IH t) as [H0 H1]. split.
  - cbn [every_from Beat.evens Nat.sub]. rewrite H0. reflexivity.
  - cbn [every_from tl]. change (every_from 2 0 (b :: t) = Beat.evens (b :: t)).
    destruct t as [|c t']; [reflexivity|]. cbn [every_from Beat.evens Nat.sub].
    destruct (IH t') as [H0' _]. cbn [tl] in H1. f_equal.
    destruct t' as [|d t'']; [reflexivity|]. cbn [every_from]. cbn [every_from] in H1. exact H1.
Qed.
Lemma py_slice_all {A} (l : list A) : py_slice 0 (Z.of_nat (length l)) l = l.
Proof.
  unfold py_slice, py_norm. cbn [Z.ltb Z.compare]. replace (Z.of_nat (length l) <? 0)%Z with false by (symmetry; apply Z.ltb_ge; lia).
  rewrite Z.min_id, Z.min_l by lia. cbn [Z.to_nat skipn]. rewrite Z.sub_0_r, Nat2Z.id. apply firstn_all.
Qed.
Lemma py_slice_tl {A} (l : list A) : py_slice 1 (Z.of_nat (length l)) l = tl l.
Proof.
  destruct l as [|a t]; [reflexivity|]. unfold py_slice, py_norm.
  replace (1 <? 0)%Z with false by reflexivity. replace (Z.of_nat (length (a :: t)) <? 0)%Z with false by (symmetry; apply Z.ltb_ge; lia).
  rewrite Z.min_id, Z.min_l by (cbn [length]; lia). change (Z.to_nat 1) with 1%nat. cbn [skipn tl].
  replace (Z.to_nat (Z.of_nat (length (a :: t)) - 1)) with (length t) by (cbn [length]; lia). apply firstn_all.
Qed.
Lemma slice_evens {A} (l : list A) : slice_list None None 2 l = Beat.evens l.
Proof. unfold slice_list. rewrite py_slice_all. change (Z.to_nat 2) with 2%nat. apply every2_evens. Qed.
Lemma slice_odds {A} (l : list A) : slice_list (Some 1%Z) None 2 l = Beat.odds l.
Proof. unfold slice_list, Beat.odds. rewrite py_slice_tl. change (Z.to_nat 2) with 2%nat. apply every2_evens. Qed.

Lemma Forall2_seq_shift {A} (R : A -> nat -> Prop) k : forall n a l,
  Forall2 R l (seq (a + k) n) -> Forall2 (fun x i => R x (i + k)%nat) l (seq a n).
Proof.
  induction n as [|n IH]; intros a l H; cbn [seq] in *.
  - inversion H. constructor.
  - inversion H as [|x i l' s' Hx Hl]; subst. constructor; [exact Hx|]. apply IH. exact Hl.
Qed.
Lemma Forall2_map_l {A B C} (R : B -> C -> Prop) (f : A -> B) : forall l m, Forall2 (fun x y => R (f x) y) l m -> Forall2 R (map f l) m.
Proof. induction 1; cbn [map]; constructor; auto. Qed.
Lemma Forall2_diag {A B} (R : B -> A -> Prop) (f : A -> B) l : (forall x, R (f x) x) -> Forall2 R (map f l) l.
Proof. intros H. induction l; cbn [map]; constructor; auto. Qed.
Lemma Forall2_impl {A B} (R S : A -> B -> Prop) l m : (forall x y, R x y -> S x y) -> Forall2 R l m -> Forall2 S l m.
Proof. intros H. induction 1; constructor; auto. Qed.
Lemma qltb_t a b : a < b -> qltb a b = true. Proof. intros H. apply BeatProps.qltb_true. exact H. Qed.
Lemma qltb_f a b : b <= a -> qltb a b = false. Proof. intros H. apply BeatProps.qltb_false. exact H. Qed.
Lemma qeqb_t a b : a == b -> qeqb a b = true. Proof. intros H. apply BeatProps.qeqb_true. exact H. Qed.
Lemma qeqb_f a b : ~ a == b -> qeqb a b = false. Proof. intros H. apply BeatProps.qeqb_false. exact H. Qed.
Lemma injZ_S n : inject_Z (Z.of_nat (S n)) == inject_Z (Z.of_nat n) + 1.
Proof. rewrite Nat2Z.inj_succ. unfold Z.succ. rewrite inject_Z_plus. reflexivity. Qed.
Lemma injZ_nonneg n : 0 <= inject_Z (Z.of_nat n).
Proof. change 0 with (inject_Z 0). rewrite <- Zle_Qle. lia. Qed.

Lemma interp_seg_double : forall t (s : Q) a x0 xs samples,
  x0 == s ->
  Forall2 (fun p i => p == s + inject_Z (Z.of_nat i)) xs (seq 1 (length t)) ->
  Forall2 (fun x j => x == s + inject_Z (Z.of_nat j) * (1#2)) samples (seq 0 (2 * length t + 1)) ->
  leq (map (fun x => interp_seg x x0 a xs t) samples) (Beat.double_beats (a :: t)).
Proof.
  induction t as [|b t IH]; intros s a x0 xs samples Hx0 Hxs Hsm.
  - cbn [length seq Nat.mul Nat.add] in *. inversion Hxs; subst. inversion Hsm as [|y j l' s' Hy Hl]; subst. inversion Hl; subst.
    cbn [map interp_seg Beat.double_beats]. constructor; [reflexivity|constructor].
  - cbn [length] in *. replace (2 * S (length t) + 1)%nat with (S (S (2 * length t + 1))) in Hsm by lia.
    cbn [seq] in Hxs, Hsm.
    inversion Hxs as [|x1 i1 xs' s1 Hx1 Hxs']; subst.
    inversion Hsm as [|y0 j0 l0 s0 Hy0 Hl0]; subst. inversion Hl0 as [|y1 j1 rest s2 Hy1 Hrest]; subst.
    change (Beat.double_beats (a :: b :: t)) with (a :: Beat.interp_half a b :: Beat.double_beats (b :: t)).
    cbn [map]. change (inject_Z (Z.of_nat 0)) with 0 in Hy0. change (inject_Z (Z.of_nat 1)) with 1 in Hy1, Hx1.
    constructor; [|constructor].
    + cbn [interp_seg]. rewrite qltb_t by (rewrite Hy0, Hx1; lra). rewrite qeqb_t by (rewrite Hy0, Hx0; lra). reflexivity.
    + cbn [interp_seg]. rewrite qltb_t by (rewrite Hy1, Hx1; lra). rewrite qeqb_f by (rewrite Hy1, Hx0; lra).
      unfold Beat.interp_half. rewrite Hy1, Hx1, Hx0. field. intros HH. lra.
    + assert (E : map (fun x => interp_seg x x0 a (x1 :: xs') (b :: t)) rest = map (fun x => interp_seg x x1 b xs' t) rest).
      { assert (Hge : Forall2 (fun (x : Q) (j : nat) => x1 <= x) rest (seq 0 (2 * length t + 1))).
        { apply (Forall2_seq_shift _ 2 (2 * length t + 1) 0) in Hrest. eapply Forall2_impl; [|exact Hrest].
          intros x j Hx. cbn beta in Hx. rewrite Hx, Hx1. replace (j + 2)%nat with (S (S j)) by lia. rewrite !injZ_S.
          pose proof (injZ_nonneg j). lra. }
        assert (P : forall y, x1 <= y -> interp_seg y x0 a (x1 :: xs') (b :: t) = interp_seg y x1 b xs' t).
        { intros y Hy. cbn [interp_seg]. rewrite (qltb_f _ _ Hy). reflexivity. }
        clear - Hge P. induction Hge as [|y j r q Hy Hr IHr]; [reflexivity|]. cbn [map]. rewrite (P y Hy), IHr. reflexivity. }
      rewrite E. apply (IH (s + 1)).
      * rewrite Hx1. reflexivity.
      * apply (Forall2_seq_shift _ 1 (length t) 1) in Hxs'. eapply Forall2_impl; [|exact Hxs'].
        intros p i Hp. cbn beta in Hp. rewrite Hp. replace (i + 1)%nat with (S i) by lia. rewrite injZ_S. ring.
      * apply (Forall2_seq_shift _ 2 (2 * length t + 1) 0) in Hrest. eapply Forall2_impl; [|exact Hrest].
        intros x j Hx. cbn beta in Hx. rewrite Hx. replace (j + 2)%nat with (S (S j)) by lia. rewrite !injZ_S. ring.
Qed.

Local Arguments Qplus : simpl never.
Local Arguments Qminus : simpl never.
Local Arguments Qmult : simpl never.
Local Arguments Qdiv : simpl never.
Local Arguments Qabs : simpl never.
Local Arguments Qopp : simpl never.
Local Arguments inject_Z : simpl never.
Local Arguments qltb !_ !_.
Local Arguments qleb !_ !_.
Local Arguments qeqb !_ !_.
Local Arguments qsum : simpl never.
Local Arguments arange_q : simpl never.
Local Arguments zrange : simpl never.
Local Arguments interp1 : simpl never.
Local Arguments slice_list : simpl never.
Local Arguments Z.of_nat : simpl never.
Local Arguments Z.to_nat !_.
Local Arguments Z.sub !_ !_.
Local Arguments Z.add !_ !_.
Local Arguments Z.mul !_ !_.
Local Arguments Z.ltb !_ !_.
Local Arguments Z.leb !_ !_.
Local Arguments Z.eqb !_ !_.
Local Arguments Nat.eqb !_ !_.
Local Arguments Nat.ltb !_ !_.
Local Arguments Nat.leb !_ !_.


Lemma zrange_0 n : zrange 0 (Z.of_nat n) = map Z.of_nat (seq 0 n).
Proof. unfold zrange. rewrite Z.sub_0_r, Nat2Z.id. apply map_ext. intros i. apply Z.add_0_l. Qed.
Lemma arange_half n : arange_q (inject_Z 0) (inject_Z (Z.of_nat (S n)) - (1 # 2)) (1 # 2)
  = map (fun i => inject_Z 0 + inject_Z (Z.of_nat i) * (1#2)) (seq 0 (2 * n + 1)).
Proof.
  unfold arange_q. f_equal. f_equal.
  assert (E : (inject_Z (Z.of_nat (S n)) - (1 # 2) - inject_Z 0) / (1 # 2) == inject_Z (Z.of_nat (2 * n + 1))).
  { replace (2 * n + 1)%nat with (S (n + n)) by lia. rewrite !injZ_S, Nat2Z.inj_add, inject_Z_plus. change (inject_Z 0) with 0. field. }
  rewrite (Qceiling_comp _ _ E), Qceiling_Z, Nat2Z.id. reflexivity.
Qed.

Theorem variations_tie : forall ext fexp ref, exists d,
  runx ext fexp gen_get_reference_beat_variations [VArrQ ref]
  = OK (VTup [VArrQ ref; VArrQ (Beat.odds d); VArrQ d; VArrQ (Beat.evens ref); VArrQ (Beat.odds ref)])
  /\ leq d (Beat.double_beats ref).
Proof.
  intros ext fexp ref. unfold runx, run_fun. destruct ref as [|a t].
  - exists []. split; [vm_compute; reflexivity|constructor].
  - cbn. rewrite map_length, zrange_0, map_length, seq_length.
    rewrite Nat.eqb_refl. cbn [negb seq map]. cbn.
    rewrite !slice_odds, slice_evens. eexists. split; [reflexivity|].
    rewrite arange_half, map_map.
    assert (E : forall l, Forall (fun x => 0 <= x) l ->
              map (interp1 (inject_Z (Z.of_nat 0) :: map inject_Z (map Z.of_nat (seq 1 (length t)))) (a :: t)) l
              = map (fun x => interp_seg x (inject_Z (Z.of_nat 0)) a (map inject_Z (map Z.of_nat (seq 1 (length t)))) t) l).
    { induction 1 as [|x l Hx _ IH]; [reflexivity|]. cbn [map]. rewrite IH. f_equal. unfold interp1.
      rewrite qltb_f by exact Hx. reflexivity. }
    rewrite <- map_map, E.
    + apply (interp_seg_double t 0); [reflexivity| |].
      * rewrite map_map. apply Forall2_diag. intros i. ring.
      * apply Forall2_diag. intros j. change (inject_Z 0) with 0. ring.
    + apply Forall_forall. intros x Hx. apply in_map_iff in Hx. destruct Hx as (j & <- & _).
      pose proof (injZ_nonneg j). change (inject_Z 0) with 0. lra.
Qed.

Theorem variations_tie_all : forall ext fexp ref, exists v1 v2,
  runx ext fexp gen_get_reference_beat_variations [VArrQ ref]
  = OK (VTup [VArrQ ref; VArrQ v1; VArrQ v2; VArrQ (Beat.evens ref); VArrQ (Beat.odds ref)])
  /\ Forall2 leq [ref; v1; v2; Beat.evens ref; Beat.odds ref] (Beat.variations ref).
Proof.
  intros ext fexp ref. destruct (variations_tie ext fexp ref) as (d & E & Hd). exists (Beat.odds d), d. split; [exact E|].
  assert (R : forall l, leq l l) by (intros l; induction l; constructor; [reflexivity|assumption]).
  unfold Beat.variations. repeat constructor; try apply R; [apply BeatProps.F2_odds|]; exact Hd.
Qed.

(* ================================================================== cemgil *)
Local Arguments for_loop : simpl never.
Local Arguments Beat.validate : simpl never.
Local Arguments Beat.variations : simpl never.

Fixpoint before_for (l : list stmt) : list stmt :=
  match l with [] => [] | SFor _ _ _ :: _ => [] | s :: t => s :: before_for t end.
Fixpoint from_for (l : list stmt) : list stmt :=
  match l with [] => [] | SFor _ _ _ :: _ => l | _ :: t => from_for t end.
Definition for_body (l : list stmt) : list stmt := match from_for l with SFor _ _ b :: _ => b | _ => [] end.
Definition after_for (l : list stmt) : list stmt := List.tl (from_for l).

Definition cem_outer : list stmt := for_body (f_body gen_cemgil).
Definition cem_inner : list stmt := for_body cem_outer.
(* The callees: any [ext] that answers `validate` as the model does and `_get_reference_beat_variations(r)` with the
   tuple of arrays [vars_of r]. The instance used by the property theorems is [beat_ext] (vars_of = Beat.variations);
   [prog_ext] below answers with the TRANSLATED variations program instead. *)
Section Callees.
Variable ext : string -> list bv -> out bv.
Variable vars_of : list Q -> list (list Q).
Hypothesis Hval : forall r e, ext "validate"%string [VArrQ r; VArrQ e] = lift_unit (Beat.validate r e).
Hypothesis Hvars : forall r, ext "_get_reference_beat_variations"%string [VArrQ r] = OK (VTup (map VArrQ (vars_of r))).
Definition F fexp := exec beat_sigs ext fexp.
Definition cem_env (var est : list Q) (sg accs acc b bd : bv) : env :=
  [("reference_beats", VArrQ var); ("estimated_beats", VArrQ est); ("cemgil_sigma", sg); ("accuracies", accs);
   ("accuracy", acc); ("beat", b); ("beat_diff", bd)]%string.
Definition gauss (fexp : Q -> Q) (sigma d : Q) : Q := fexp (- (d * d) / ((2#1) * (sigma * sigma))).
Definition acc_v (o : option Q) : bv := match o with None => VInt true 0 | Some q => VFlt false (Fin q) end.
Definition acc_add (o : option Q) (g : Q) : option Q := Some (match o with None => inject_Z 0 + g | Some q => q + g end).

Lemma cem_inner_step fexp var e0 et sigma py accs o b bd x : ~ sigma == 0 ->
  for_step (run_block (F fexp)) "beat" cem_inner (VFlt false (Fin x)) (cem_env var (e0 :: et) (VFlt py (Fin sigma)) accs (acc_v o) b bd)
  = SNorm (cem_env var (e0 :: et) (VFlt py (Fin sigma)) accs (acc_v (acc_add o (gauss fexp sigma (Beat.min_abs_diff x e0 et))))
             (VFlt false (Fin x)) (VFlt false (Fin (Beat.min_abs_diff x e0 et)))).
Proof.
  intros Hs. unfold for_step, cem_inner, cem_outer, cem_env, F. cbn.
  assert (Hd : qeqb (2 * (sigma * sigma)) 0 = false).
  { apply qeqb_f. intros H. apply Hs. nra. }
  unfold xdiv. rewrite Hd. rewrite map_map. destruct o; cbn; reflexivity.
Qed.
Ltac use_loop E :=
  match type of E with _ = ?R =>
    match goal with |- context [for_loop ?st ?els ?en] => replace (for_loop st els en) with R by (symmetry; exact E) end end.
Lemma for_loop_cons step v t en :
  for_loop step (v :: t) en = match step v en with SNorm en' => for_loop step t en' | r => r end.
Proof. reflexivity. Qed.

Definition cem_fold fexp sigma e0 et (l : list Q) (o : option Q) : option Q :=
  fold_left (fun o x => acc_add o (gauss fexp sigma (Beat.min_abs_diff x e0 et))) l o.
Lemma cem_inner_loop fexp var e0 et sigma py accs : ~ sigma == 0 -> forall l o b bd, exists b' bd',
  for_loop (for_step (run_block (F fexp)) "beat" cem_inner) (map (fun q => VFlt false (Fin q)) l)
    (cem_env var (e0 :: et) (VFlt py (Fin sigma)) accs (acc_v o) b bd)
  = SNorm (cem_env var (e0 :: et) (VFlt py (Fin sigma)) accs (acc_v (cem_fold fexp sigma e0 et l o)) b' bd').
Proof.
  intros Hs. induction l as [|x t IH]; intros o b bd.
  - exists b, bd. reflexivity.
  - cbn [map]. rewrite for_loop_cons, (cem_inner_step fexp var e0 et sigma py accs o b bd x Hs). apply IH.
Qed.
Definition acc_q (o : option Q) : Q := match o with None => inject_Z 0 | Some q => q end.
Lemma cem_fold_sum fexp sigma e0 et l : forall o,
  acc_q (cem_fold fexp sigma e0 et l o) == acc_q o + qsum (map (gauss fexp sigma) (map (fun b => Beat.min_abs_diff b e0 et) l)).
Proof.
  induction l as [|x t IH]; intros o.
  - unfold qsum. cbn. ring.
  - change (cem_fold fexp sigma e0 et (x :: t) o) with (cem_fold fexp sigma e0 et t (acc_add o (gauss fexp sigma (Beat.min_abs_diff x e0 et)))).
    rewrite IH. cbn [map]. unfold qsum. cbn [fold_right]. destruct o; cbn [acc_add acc_q]; change (inject_Z 0) with 0; ring.
Qed.

Definition accs_v (l : list (bool * Q)) : bv := VList (map (fun pq => VFlt (fst pq) (Fin (snd pq))) l).
Lemma cem_outer_step fexp var0 var e0 et sigma py accs a0 b0 bd0 : ~ sigma == 0 -> exists p q b bd,
  for_step (run_block (F fexp)) "reference_beats" cem_outer (VArrQ var)
    (cem_env var0 (e0 :: et) (VFlt py (Fin sigma)) (accs_v accs) a0 b0 bd0)
  = SNorm (cem_env var (e0 :: et) (VFlt py (Fin sigma)) (accs_v (accs ++ [(p, q)])) (VFlt p (Fin q)) b bd)
  /\ q == Beat.cemgil_acc (gauss fexp sigma) var (e0 :: et).
Proof.
  intros Hs. unfold for_step, cem_outer, cem_env, F. cbn.
  destruct (cem_inner_loop fexp var e0 et sigma py (accs_v accs) Hs var None b0 bd0) as (b' & bd' & E).
  unfold cem_env, cem_inner, cem_outer, acc_v in E. use_loop E. cbn.
  pose proof (cem_fold_sum fexp sigma e0 et var None) as Hsum. cbn [acc_q] in Hsum.
  set (d := (1 # 2) * inject_Z (Z.of_nat (S (length et)) + Z.of_nat (length var))).
  assert (Hdpos : 0 < d).
  { unfold d. rewrite inject_Z_plus. pose proof (injZ_nonneg (length var)). rewrite injZ_S. pose proof (injZ_nonneg (length et)). lra. }
  assert (Hd : qeqb d 0 = false) by (apply qeqb_f; lra).
  assert (Hm : d == (1 # 2) * (Beat.qnat (length (e0 :: et)) + Beat.qnat (length var))).
  { unfold d, Beat.qnat. rewrite inject_Z_plus. reflexivity. }
  destruct (cem_fold fexp sigma e0 et var None) as [q0|]; cbn; unfold xdiv; rewrite Hd; cbn.
  - exists false, (q0 / d), b', bd'. split.
    + unfold accs_v. rewrite map_app. reflexivity.
    + unfold Beat.cemgil_acc, Beat.dists. rewrite <- Hm. cbn [acc_q] in Hsum. rewrite Hsum. change (inject_Z 0) with 0. field. lra.
  - exists true, (inject_Z 0 / d), b', bd'. split.
    + unfold accs_v. rewrite map_app. reflexivity.
    + unfold Beat.cemgil_acc, Beat.dists. rewrite <- Hm. cbn [acc_q] in Hsum. rewrite Hsum. change (inject_Z 0) with 0. field. lra.
Qed.
Lemma cem_outer_loop fexp e0 et sigma py : ~ sigma == 0 -> forall vs accs var0 a0 b0 bd0, exists qs var' a b bd,
  for_loop (for_step (run_block (F fexp)) "reference_beats" cem_outer) (map VArrQ vs)
    (cem_env var0 (e0 :: et) (VFlt py (Fin sigma)) (accs_v accs) a0 b0 bd0)
  = SNorm (cem_env var' (e0 :: et) (VFlt py (Fin sigma)) (accs_v (accs ++ qs)) a b bd)
  /\ leq (map snd qs) (map (fun v => Beat.cemgil_acc (gauss fexp sigma) v (e0 :: et)) vs).
Proof.
  intros Hs. induction vs as [|v vs IH]; intros accs var0 a0 b0 bd0.
  - exists [], var0, a0, b0, bd0. rewrite app_nil_r. split; [reflexivity|constructor].
  - cbn [map]. rewrite for_loop_cons.
    destruct (cem_outer_step fexp var0 v e0 et sigma py accs a0 b0 bd0 Hs) as (p & q & b & bd & E & Hq). rewrite E.
    destruct (IH (accs ++ [(p, q)]) v (VFlt p (Fin q)) b bd) as (qs & var' & a' & b' & bd' & E' & Hqs).
    exists ((p, q) :: qs), var', a', b', bd'. split.
    + rewrite E'. rewrite <- app_assoc. reflexivity.
    + cbn [map snd]. constructor; assumption.
Qed.

Definition lift_pair (r : res (Q * Q)) : out (list xval) :=
  match r with Ok (a, b) => OK [Fin a; Fin b] | Raise e => EXN e end.
Lemma zof_S_eq0 n : (Z.of_nat (S n) =? 0)%Z = false. Proof. apply Z.eqb_neq. lia. Qed.

(* Beat.cemgil with the metrical variations taken from [vs] *)
Definition cemgil_on (g : Q -> Q) (vs : list (list Q)) (ref est : list Q) : res (Q * Q) :=
  bind (Beat.validate ref est) (fun _ =>
  if Beat.is_nil est || Beat.is_nil ref then Ok (0, 0)
  else match map (fun v => Beat.cemgil_acc g v est) vs with
       | a0 :: t => Ok (a0, fold_left Qmax t a0)
       | [] => Raise IndexError
       end).
Theorem cemgil_tie_gen : forall fexp ref est sigma py, ~ sigma == 0 ->
  out_eq (out_floats (runx ext fexp gen_cemgil [VArrQ ref; VArrQ est; VFlt py (Fin sigma)]))
         (lift_pair (cemgil_on (gauss fexp sigma) (vars_of ref) ref est)).
Proof.
  intros fexp ref est sigma py Hs. unfold runx, run_fun, cemgil_on. cbn. rewrite Hval.
  destruct (Beat.validate ref est) as [[]|e]; cbn; [|reflexivity].
  destruct est as [|e0 et]; [cbn; repeat constructor; reflexivity|].
  cbn [length]. rewrite zof_S_eq0. cbn.
  destruct ref as [|r0 rt]; [cbn; repeat constructor; reflexivity|].
  cbn [length]. rewrite zof_S_eq0. cbn. rewrite Hvars. cbn.
  destruct (cem_outer_loop fexp e0 et sigma py Hs (vars_of (r0 :: rt)) [] (r0 :: rt) VUnbound VUnbound VUnbound)
    as (qs & var' & a & b & bd & E & Hqs).
  unfold cem_env, cem_outer, accs_v in E. cbn [map app] in E. use_loop E. clear E. cbn.
  destruct (map (fun v => Beat.cemgil_acc (gauss fexp sigma) v (e0 :: et)) (vars_of (r0 :: rt))) as [|a0 t] eqn:Em.
  - inversion Hqs as [E0|]. destruct qs; [|discriminate]. cbn. reflexivity.
  - destruct qs as [|[p1 q1] qs]; [inversion Hqs|]. cbn [map snd fst] in *.
    assert (H1 : q1 == a0) by (inversion Hqs; assumption). assert (Hr : leq (map snd qs) t) by (inversion Hqs; assumption).
    cbn. replace (all_fins (map (fun pq : bool * Q => VFlt (fst pq) (Fin (snd pq))) qs)) with (Some (map snd qs)).
    2:{ clear. induction qs as [|[p q] r IH]; [reflexivity|]. cbn [map all_fins fst snd]. rewrite <- IH. reflexivity. }
    cbn. constructor; [exact H1|]. constructor; [|constructor]. cbn [xeq]. apply BeatProps.fold_Qmax_leq; assumption.
Qed.
End Callees.

Lemma leq_refl l : leq l l. Proof. induction l; constructor; [reflexivity|assumption]. Qed.
Lemma beat_ext_val r e : beat_ext "validate"%string [VArrQ r; VArrQ e] = lift_unit (Beat.validate r e). Proof. reflexivity. Qed.
Lemma beat_ext_vars r : beat_ext "_get_reference_beat_variations"%string [VArrQ r] = OK (VTup (map VArrQ (Beat.variations r))). Proof. reflexivity. Qed.
Theorem cemgil_tie : forall fexp ref est sigma py, ~ sigma == 0 ->
  out_eq (out_floats (run fexp gen_cemgil [VArrQ ref; VArrQ est; VFlt py (Fin sigma)]))
         (lift_pair (Beat.cemgil (gauss fexp sigma) ref est)).
Proof. intros fexp ref est sigma py Hs. exact (cemgil_tie_gen beat_ext Beat.variations beat_ext_val beat_ext_vars fexp ref est sigma py Hs). Qed.

(* ---- the callee `_get_reference_beat_variations` answered by the translated program itself ---- *)
Fixpoint arrays_of (l : list bv) : list (list Q) := match l with VArrQ a :: t => a :: arrays_of t | _ => [] end.
Definition vars_prog (fexp : Q -> Q) (r : list Q) : list (list Q) :=
  match runx beat_ext fexp gen_get_reference_beat_variations [VArrQ r] with OK (VTup l) => arrays_of l | _ => [] end.
Local Open Scope string_scope.
Definition prog_ext (fexp : Q -> Q) (f : string) (vs : list bv) : out bv :=
  if f =? "_get_reference_beat_variations" then runx beat_ext fexp gen_get_reference_beat_variations vs else beat_ext f vs.
Local Close Scope string_scope.
Lemma prog_ext_val fexp r e : prog_ext fexp "validate"%string [VArrQ r; VArrQ e] = lift_unit (Beat.validate r e). Proof. reflexivity. Qed.
Lemma prog_ext_vars fexp r :
  prog_ext fexp "_get_reference_beat_variations"%string [VArrQ r] = OK (VTup (map VArrQ (vars_prog fexp r))).
Proof.
  unfold prog_ext, vars_prog. change ("_get_reference_beat_variations" =? "_get_reference_beat_variations")%string with true. cbv iota.
  destruct (variations_tie_all beat_ext fexp r) as (v1 & v2 & E & _). rewrite E. reflexivity.
Qed.
Lemma vars_prog_leq fexp r : Forall2 leq (vars_prog fexp r) (Beat.variations r).
Proof. unfold vars_prog. destruct (variations_tie_all beat_ext fexp r) as (v1 & v2 & E & H). rewrite E. exact H. Qed.
Lemma cemgil_acc_leq g v' v est : (forall a b, a == b -> g a == g b) -> leq v' v ->
  Beat.cemgil_acc g v' est == Beat.cemgil_acc g v est.
Proof.
  intros Hg Hv. unfold Beat.cemgil_acc.
  assert (Hd : leq (Beat.dists v' est) (Beat.dists v est)).
  { apply (BeatProps.dists_shl 0).
    - eapply Forall2_impl; [|exact Hv]. intros a b Hab. cbn beta. rewrite Hab. ring.
    - clear. induction est; constructor; [ring|assumption]. }
  rewrite (BeatProps.qsum_leq _ _ (BeatProps.leq_map g _ _ Hg Hd)), (BeatProps.F2_length _ _ _ Hv). reflexivity.
Qed.
(* cemgil calling the translated variations program: the model's value, for every np.exp that is a function of the number *)
Theorem cemgil_tie_prog : forall fexp ref est sigma py, ~ sigma == 0 -> (forall a b, a == b -> fexp a == fexp b) ->
  out_eq (out_floats (runx (prog_ext fexp) fexp gen_cemgil [VArrQ ref; VArrQ est; VFlt py (Fin sigma)]))
         (lift_pair (Beat.cemgil (gauss fexp sigma) ref est)).
Proof.
  intros fexp ref est sigma py Hs Hf.
  pose proof (cemgil_tie_gen (prog_ext fexp) (vars_prog fexp) (prog_ext_val fexp) (prog_ext_vars fexp) fexp ref est sigma py Hs) as T.
  assert (Hg : forall a b, a == b -> gauss fexp sigma a == gauss fexp sigma b).
  { intros a b Hab. unfold gauss. apply Hf. rewrite Hab. reflexivity. }
  assert (Hm : leq (map (fun v => Beat.cemgil_acc (gauss fexp sigma) v est) (vars_prog fexp ref))
                   (map (fun v => Beat.cemgil_acc (gauss fexp sigma) v est) (Beat.variations ref))).
  { generalize (vars_prog_leq fexp ref). generalize (Beat.variations ref). generalize (vars_prog fexp ref). clear T.
    induction 1; cbn [map]; constructor; [apply cemgil_acc_leq; assumption|assumption]. }
  unfold cemgil_on in T. unfold Beat.cemgil. destruct (Beat.validate ref est) as [[]|e]; cbn [bind Prelude.bind] in *; [|exact T].
  destruct (Beat.is_nil est || Beat.is_nil ref); [exact T|].
  destruct Hm as [|a a' l l' Ha Hl]; [exact T|].
  destruct (out_floats _) as [xs| |]; cbn [lift_pair out_eq] in *; try contradiction.
  inversion T as [|x y xs' ys' Hx T' E1 E2]; subst. inversion T' as [|x2 y2 xs2 ys2 Hx2 T2 E3 E4]; subst. inversion T2; subst.
  destruct x as [qx| | |]; cbn [xeq] in Hx; try contradiction. destruct x2 as [qx2| | |]; cbn [xeq] in Hx2; try contradiction.
  constructor; [cbn [xeq]; rewrite Hx; exact Ha|]. constructor; [|constructor].
  cbn [xeq]. rewrite Hx2. apply BeatProps.fold_Qmax_leq; assumption.
Qed.

(* the hypothesis of cemgil_tie is satisfiable (the documented default is 0.04) *)
Example cemgil_sigma_default_nonzero : ~ (4 # 100) == 0. Proof. intros H. discriminate H. Qed.

(* ================================================================== signatures, spot checks of the reading *)
(* the parameter lists and literal defaults against which the call sites were bound (and which a caller relying on the
   defaults gets): a renamed, reordered or re-defaulted parameter shows up here. The defaults are the exact binary values
   of the float literals 5.0, 0.04, 0.35, 0.2, 0.2, 0.175, 0.175. *)
Theorem beat_sigs_expected :
  beat_sigs =
  [("trim_beats", Some [("beats", None); ("min_beat_time", Some (VFlt true (Fin 5)))]);
   ("_get_reference_beat_variations", Some [("reference_beats", None)]);
   ("cemgil", Some [("reference_beats", None); ("estimated_beats", None);
                    ("cemgil_sigma", Some (VFlt true (Fin (5764607523034235 # 144115188075855872))))]);
   ("goto", Some [("reference_beats", None); ("estimated_beats", None);
                  ("goto_threshold", Some (VFlt true (Fin (3152519739159347 # 9007199254740992))));
                  ("goto_mu", Some (VFlt true (Fin (3602879701896397 # 18014398509481984))));
                  ("goto_sigma", Some (VFlt true (Fin (3602879701896397 # 18014398509481984))))]);
   ("continuity", Some [("reference_beats", None); ("estimated_beats", None);
                        ("continuity_phase_threshold", Some (VFlt true (Fin (3152519739159347 # 18014398509481984))));
                        ("continuity_period_threshold", Some (VFlt true (Fin (3152519739159347 # 18014398509481984))))]);
   ("validate", Some [("reference_beats", None); ("estimated_beats", None)])]%string.
Proof. vm_compute. reflexivity. Qed.
(* values observed on the real implementation (NumPy 2.x) for the degenerate inputs the reading of the language was
   checked on: np.interp of no points on no sample points; a single beat; the first two beats of a doubled grid *)
Definition fx0 (x : Q) : Q := 0.
Example variations_empty :
  run fx0 gen_get_reference_beat_variations [VArrQ []] = OK (VTup [VArrQ []; VArrQ []; VArrQ []; VArrQ []; VArrQ []]).
Proof. vm_compute. reflexivity. Qed.
Example variations_single :
  run fx0 gen_get_reference_beat_variations [VArrQ [3]] = OK (VTup [VArrQ [3]; VArrQ []; VArrQ [3]; VArrQ [3]; VArrQ []]).
Proof. vm_compute. reflexivity. Qed.
Example trim_example : run fx0 gen_trim_beats [VArrQ [4; 5; 11 # 2]; VInt true 5] = OK (VArrQ [5; 11 # 2]).
Proof. vm_compute. reflexivity. Qed.

Print Assumptions trim_beats_tie.
Print Assumptions variations_tie.
Print Assumptions variations_tie_all.
Print Assumptions cemgil_tie_gen.
Print Assumptions cemgil_tie.
Print Assumptions cemgil_tie_prog.
Print Assumptions beat_sigs_expected.
