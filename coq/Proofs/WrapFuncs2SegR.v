(* The guarded quotients of the NCE / V-measure skeleton and the normalisation of the NMI skeleton
   (Proofs/WrapFuncs2SegTie.v: [guarded], [nmi_skel]) read in R are the shapes of the R formulas of Proofs/SegmentEntropy.v:
     score_under = if 0 < z_ref then 1 - true_given_est / z_ref else 0          (and the same for score_over)
     nmi         = mi / Rmax (sqrt (h_true * h_pred)) (1 / 10^10)
   The skeletons are stated over exact rationals with the entropy terms opaque, so the reading is stated for rational values
   of those terms: it shows which quantity is divided by which and where the guards sit, not the value of an entropy.
   THIS FILE USES Coq's Reals (the four standard axioms, listed by Print Assumptions); nothing depends on it. *)
From Coq Require Import QArith Qreals Reals Lra.
From ME Require Import Model.Prelude Model.WrapExp Proofs.SegmentEntropy Proofs.WrapFuncs2SegTie.
Local Open Scope R_scope.

Definition xR (x : xval) : option R := match x with Fin q => Some (Q2R q) | _ => None end.

Lemma qltb_R a b : qltb a b = true <-> Q2R a < Q2R b.
Proof.
  unfold qltb. split.
  - intros H. apply Bool.negb_true_iff in H. apply Qlt_Rlt. apply Qnot_le_lt. intros L. apply Qle_bool_iff in L. congruence.
  - intros H. apply Bool.negb_true_iff. destruct (Qle_bool b a) eqn:E; [|reflexivity].
    apply Qle_bool_iff in E. apply Qle_Rle in E. lra.
Qed.
(* guarded(num, z) on finite values = the guarded quotient of SegmentEntropy.score_under / score_over *)
Theorem guarded_reading : forall num z : Q,
  xR (guarded (Fin num) (Fin z)) = Some (if Rlt_dec 0 (Q2R z) then 1 - Q2R num / Q2R z else 0).
Proof.
  intros num z. unfold guarded, x_ltb. destruct (qltb 0 z) eqn:E.
  - assert (Hz : 0 < Q2R z) by (apply qltb_R in E; rewrite RMicromega.Q2R_0 in E; exact E).
    destruct (Rlt_dec 0 (Q2R z)) as [_|N]; [|contradiction].
    assert (Hq : ~ (z == 0)%Q) by (intros Hq; rewrite Hq, RMicromega.Q2R_0 in Hz; lra).
    unfold x_div, xdiv, qeqb. destruct (Qeq_bool z 0) eqn:Ez; [apply Qeq_bool_iff in Ez; contradiction|].
    cbn [xsubx xR]. f_equal. rewrite Q2R_minus, Q2R_div by exact Hq. rewrite RMicromega.Q2R_1. reflexivity.
  - destruct (Rlt_dec 0 (Q2R z)) as [P|_].
    + exfalso. rewrite <- RMicromega.Q2R_0 in P. apply qltb_R in P. congruence.
    + cbn [xR]. rewrite RMicromega.Q2R_0. reflexivity.
Qed.
(* ... which is how SegmentEntropy writes the two scores *)
Theorem score_under_shape : forall n nr nc nframes marginal,
  score_under n nr nc nframes marginal =
  if Rlt_dec 0 (z_ref n nr nc nframes marginal) then 1 - true_given_est n nr nc nframes / z_ref n nr nc nframes marginal else 0.
Proof. reflexivity. Qed.
Theorem score_over_shape : forall n nr nc nframes marginal,
  score_over n nr nc nframes marginal =
  if Rlt_dec 0 (z_est n nr nc nframes marginal) then 1 - pred_given_ref n nr nc nframes / z_est n nr nc nframes marginal else 0.
Proof. reflexivity. Qed.

(* the NMI normalisation: mi / max(h, 1e-10) on finite values = mi / Rmax h (1 / 10^10) *)
Theorem nmi_norm_reading : forall mi h : Q,
  xR (x_div (Fin mi) (if x_ltb (Fin h) (Fin (1#10000000000)) then Fin (1#10000000000) else Fin h))
  = Some (Q2R mi / Rmax (Q2R h) (1 / 10000000000)).
Proof.
  intros mi h. unfold x_ltb.
  assert (He : Q2R (1#10000000000) = 1 / 10000000000) by (unfold Q2R; cbn; lra).
  destruct (qltb h (1#10000000000)) eqn:E.
  - apply qltb_R in E. rewrite He in E. rewrite Rmax_right by lra.
    cbn [x_div]. unfold xdiv. change (qeqb (1#10000000000) 0) with false. cbn [xR]. f_equal.
    rewrite Q2R_div by (intros H; discriminate H). rewrite He. reflexivity.
  - assert (L : 1 / 10000000000 <= Q2R h).
    { destruct (Rle_dec (1 / 10000000000) (Q2R h)) as [L|N]; [exact L|]. exfalso.
      assert (P : Q2R h < Q2R (1#10000000000)) by (rewrite He; lra). apply qltb_R in P. congruence. }
    rewrite Rmax_left by lra.
    assert (Hq : ~ (h == 0)%Q) by (intros Hq; rewrite Hq, RMicromega.Q2R_0 in L; lra).
    cbn [x_div]. unfold xdiv, qeqb. destruct (Qeq_bool h 0) eqn:Eh; [apply Qeq_bool_iff in Eh; contradiction|].
    cbn [xR]. f_equal. apply Q2R_div. exact Hq.
Qed.
(* ... the shape of SegmentEntropy.nmi outside its limit case *)
Theorem nmi_shape : forall n nr nc nlabels,
  ((nr =? nc)%nat && (nc =? 1)%nat || (nr =? nc)%nat && (nc =? 0)%nat)%bool = false ->
  nmi n nr nc nlabels =
  mi n nr nc / Rmax (sqrt (entropy (fun i => nsumf (fun j => n i j) nc) nr nlabels * entropy (fun j => nsumf (fun i => n i j) nr) nc nlabels))
                    (1 / 10000000000).
Proof. intros n nr nc nlabels H. unfold nmi. rewrite H. reflexivity. Qed.

Print Assumptions guarded_reading.
Print Assumptions nmi_norm_reading.
Print Assumptions nmi_shape.
