(* Soundness of the bisimulation equivalence checker and of its distinguishing strings. *)
From Coq Require Import List Bool Arith Lia.
From ME Require Import Model.Regex Proofs.RegexLang.
Import ListNotations.

Lemma rmatch_Emp s : rmatch Emp s = false. Proof. induction s; simpl; auto. Qed.
Lemma deriv_foreign c r : ~ In c (chars r) -> deriv c r = Emp.
Proof. induction r; simpl; intros H; auto.
  - destruct (Nat.eqb c c0) eqn:E; auto. apply Nat.eqb_eq in E. subst. tauto.
  - rewrite in_app_iff in H. rewrite IHr1, IHr2 by tauto. reflexivity.
  - rewrite in_app_iff in H. rewrite IHr1, IHr2 by tauto. destruct (nullable r1); reflexivity.
  - rewrite IHr by tauto. reflexivity. Qed.
Lemma memn_In x l : memn x l = true <-> In x l.
Proof. unfold memn. rewrite existsb_exists. split; [intros (y & H & E); apply Nat.eqb_eq in E; now subst| intros H; exists x; split; auto using Nat.eqb_refl]. Qed.
Lemma closed_in_spec sigma r : closed_in sigma r = true -> forall c, ~ In c sigma -> ~ In c (chars r).
Proof. unfold closed_in. rewrite forallb_forall. intros H c Hc Hin. apply H, memn_In in Hin. tauto. Qed.
Lemma pmem_In p l : pmem p l = true -> In p l.
Proof. unfold pmem. rewrite existsb_exists. intros ([a b] & Hin & E). apply andb_true_iff in E. destruct E as [E1 E2].
  apply reqb_eq in E1, E2. destruct p; simpl in *; now subst. Qed.

Definition bisim (sigma : list nat) (R : list (re * re)) := forall a b, In (a, b) R ->
  nullable a = nullable b /\ closed_in sigma a = true /\ closed_in sigma b = true /\
  forall c, In c sigma -> In (deriv c a, deriv c b) R.
Lemma bisim_sound sigma R : bisim sigma R -> forall s a b, In (a, b) R -> rmatch a s = rmatch b s.
Proof. intros HB. induction s as [|c s IH]; intros a b Hin; simpl; destruct (HB a b Hin) as (Hn & Ca & Cb & Hd); auto.
  destruct (in_dec Nat.eq_dec c sigma) as [Hc|Hc]; [apply IH; auto|].
  rewrite (deriv_foreign c a), (deriv_foreign c b) by (eapply closed_in_spec; eauto). reflexivity. Qed.

Lemma explore_sound sigma fuel : forall todo seen n,
  (forall a b, In (a, b) seen -> nullable a = nullable b /\ closed_in sigma a = true /\ closed_in sigma b = true /\
     forall c, In c sigma -> In (deriv c a, deriv c b) seen \/ In (deriv c a, deriv c b) (map snd todo)) ->
  explore fuel sigma todo seen = Equal n ->
  exists R, bisim sigma R /\ incl seen R /\ incl (map snd todo) R.
Proof. induction fuel as [|f IH]; intros todo seen n Hpre; simpl; [discriminate|].
  destruct todo as [|[path [a b]] rest].
  - intros _. exists seen. split; [|split; [apply incl_refl|intros x []]].
    intros a b Hin. destruct (Hpre a b Hin) as (H1 & H2 & H3 & H4). repeat split; auto. intros c Hc. destruct (H4 c Hc) as [H|[]]; auto.
  - destruct (pmem (a, b) seen) eqn:Em.
    + apply pmem_In in Em. intros H. destruct (IH rest seen n) as (R & HB & I1 & I2); auto.
      * intros a' b' Hin. destruct (Hpre a' b' Hin) as (H1 & H2 & H3 & H4). repeat split; auto. intros c Hc.
        destruct (H4 c Hc) as [H0|H0]; [now left|]. simpl in H0. destruct H0 as [<-|H0]; [now left|now right].
      * exists R. split; [exact HB|]. split; [exact I1|]. intros x [<-|Hx]; [now apply I1| now apply I2].
    + destruct (negb (eqb (nullable a) (nullable b))) eqn:En; [discriminate|].
      destruct (negb (closed_in sigma a && closed_in sigma b)) eqn:Ec; [discriminate|].
      apply negb_false_iff in En, Ec. apply eqb_prop in En. apply andb_true_iff in Ec. destruct Ec as [Ca Cb].
      intros H. destruct (IH (rest ++ map (fun c : nat => (c :: path, (deriv c a, deriv c b))) sigma) ((a, b) :: seen) n) as (R & HB & I1 & I2); [|exact H|].
      * intros a' b' [E|Hin].
        -- injection E as <- <-. repeat split; auto. intros c Hc. right. rewrite map_app, in_app_iff. right.
           rewrite map_map. simpl. apply in_map_iff. exists c. auto.
        -- destruct (Hpre a' b' Hin) as (H1 & H2 & H3 & H4). repeat split; auto. intros c Hc.
           destruct (H4 c Hc) as [H0|H0]; [left; now right|]. simpl in H0. destruct H0 as [<-|H0]; [left; now left|].
           right. rewrite map_app, in_app_iff. now left.
      * exists R. split; [exact HB|]. split; [intros x Hx; apply I1; now right|].
        intros x [<-|Hx]; [apply I1; now left| apply I2; rewrite map_app, in_app_iff; now left]. Qed.

Lemma bool_iff (x y : bool) : (x = true <-> y = true) -> x = y.
Proof. destruct x, y; intuition. Qed.
Lemma rmatch_norm a s : rmatch (mkAlt a Emp) s = rmatch a s.
Proof. apply bool_iff. rewrite !rmatch_iff_lang, mkAlt_lang. split; [intros [H|H]; [auto|inversion H]| auto]. Qed.

Theorem equiv_sound fuel a b n : equiv fuel a b = Equal n -> forall s, rmatch a s = rmatch b s.
Proof. unfold equiv. intros H s. destruct (explore_sound _ _ _ _ _ (fun a b (F : In (a, b) []) => match F with end) H) as (R & HB & _ & I2).
  rewrite <- (rmatch_norm a), <- (rmatch_norm b). eapply bisim_sound; eauto. apply I2. now left. Qed.

(* a Differ verdict carries a genuinely distinguishing string *)
Fixpoint derivs (w : list nat) (r : re) : re := match w with [] => r | c :: t => derivs t (deriv c r) end.
Lemma rmatch_derivs w r : rmatch r w = nullable (derivs w r). Proof. revert r; induction w; simpl; auto. Qed.
Lemma derivs_app u w r : derivs (u ++ w) r = derivs w (derivs u r). Proof. revert r; induction u; simpl; auto. Qed.
Lemma explore_witness sigma a0 b0 fuel : forall todo seen w,
  (forall path a b, In (path, (a, b)) todo -> a = derivs (rev path) a0 /\ b = derivs (rev path) b0) ->
  explore fuel sigma todo seen = Differ w -> rmatch a0 w <> rmatch b0 w.
Proof. induction fuel as [|f IH]; intros todo seen w Hpre; simpl; [discriminate|].
  destruct todo as [|[path [a b]] rest]; [discriminate|].
  destruct (pmem (a, b) seen); [apply IH; intros; apply Hpre; now right|].
  destruct (negb (eqb (nullable a) (nullable b))) eqn:En.
  - intros [= <-]. destruct (Hpre path a b (or_introl eq_refl)) as (-> & ->). rewrite !rmatch_derivs.
    apply negb_true_iff in En. intros E. rewrite E in En. now rewrite eqb_reflx in En.
  - destruct (negb (closed_in sigma a && closed_in sigma b)); [discriminate|]. apply IH.
    intros p a' b' Hin. apply in_app_iff in Hin. destruct Hin as [Hin|Hin]; [apply Hpre; now right|].
    apply in_map_iff in Hin. destruct Hin as (c & E & _). injection E as <- <- <-.
    destruct (Hpre path a b (or_introl eq_refl)) as (-> & ->). simpl. now rewrite !derivs_app. Qed.
Theorem equiv_witness fuel a b w : equiv fuel a b = Differ w -> rmatch a w <> rmatch b w.
Proof. unfold equiv. intros H. rewrite <- (rmatch_norm a), <- (rmatch_norm b).
  eapply explore_witness; [|exact H]. intros p a' b' [E|[]]. injection E as <- <- <-. auto. Qed.
