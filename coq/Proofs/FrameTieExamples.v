(* Spot checks of the reading of Python / NumPy / SciPy in Model/FrameExp.v: the generated programs of Gen/FrameGen.v
   run by the evaluator on degenerate inputs, compared with what the real interpreter returned for the same calls
   (recorded by hand from /repo; see the comment above each Example). *)
From Coq Require Import String.
From Coq Require Import List Bool Arith ZArith QArith.
From ME Require Import Model.Prelude Model.Events Model.FrameExp Gen.FrameGen Proofs.FrameTie.
Import ListNotations.
Open Scope Q_scope.

Definition lg0 (x : Q) : Q := 0.
(* resample_multipitch(times=[1,2,2,3], [[100],[200],[300],[400]], targets=[0,1,1.5,2,2.5,3,4])
   = [[], [100], [100], [200], [300], [400], []]  (duplicate time stamp, ties to the earlier frame, out of range on both sides) *)
Example ex_resample :
  run lg0 gen_mp_resample_multipitch
      [VArrQ [1; 2; 2; 3]; v_frames [[100]; [200]; [300]; [400]]; VArrQ [0; 1; 3#2; 2; 5#2; 3; 4]]
  = OK (v_frames [[]; [100]; [100]; [200]; [300]; [400]; []]).
Proof. vm_compute. reflexivity. Qed.
(* resample_multipitch(times=[], [], targets=[1,2]) = [array([]), array([])];  targets=[] -> [] *)
Example ex_resample_empty :
  run lg0 gen_mp_resample_multipitch [VArrQ []; v_frames []; VArrQ [1; 2]] = OK (v_frames [[]; []])
  /\ run lg0 gen_mp_resample_multipitch [VArrQ [1]; v_frames [[5]]; VArrQ []] = OK (VList []).
Proof. split; vm_compute; reflexivity. Qed.
(* interp1d raises ValueError when len(times) != len(frequencies) *)
Example ex_resample_len : run lg0 gen_mp_resample_multipitch [VArrQ [1; 2]; v_frames [[5]]; VArrQ [1]] = EXN ValueError.
Proof. vm_compute. reflexivity. Qed.
(* compute_num_freqs([]) = array([], dtype=float64);  compute_num_freqs([[1,2],[]]) = array([2, 0]) *)
Example ex_num_freqs :
  run lg0 gen_mp_compute_num_freqs [v_frames []] = OK (VArrQ [])
  /\ run lg0 gen_mp_compute_num_freqs [v_frames [[1; 2]; []]] = OK (VArrZ [2; 0]%Z).
Proof. split; vm_compute; reflexivity. Qed.
(* compute_num_true_positives([[60,64],[60],[61]], [[60.4,70],[72]]) = [1., 0., 0.]  (zip truncates; zeros beyond) *)
Example ex_tp_raw :
  run lg0 gen_mp_compute_num_true_positives
      [v_mframes [[Some 60; Some 64]; [Some 60]; [Some 61]]; v_mframes [[Some (302#5); Some 70]; [Some 72]]; VFlt (1#2); VBool false]
  = OK (VArrQ [1; 0; 0]).
Proof. vm_compute. reflexivity. Qed.
(* compute_num_true_positives([[0.2,4],[11.9]], [[0.4,4.6],[0.1]], chroma=True) = [1., 1.]  (11.9 and 0.1 are 0.2 apart mod 12) *)
Example ex_tp_chroma :
  run lg0 gen_mp_compute_num_true_positives
      [v_mframes [[Some (1#5); Some 4]; [Some (119#10)]]; v_mframes [[Some (2#5); Some (23#5)]; [Some (1#10)]]; VFlt (1#2); VBool true]
  = OK (VArrQ [1; 1])
  /\ run lg0 gen_mp_compute_num_true_positives
      [v_mframes [[Some (1#5); Some 4]; [Some (119#10)]]; v_mframes [[Some (2#5); Some (23#5)]; [Some (1#10)]]; VFlt (1#2); VBool false]
  = OK (VArrQ [1; 0]).
Proof. split; vm_compute; reflexivity. Qed.
(* midi_to_chroma([[-1.5, 13.0, nan]]) = [[10.5, 1.0, nan]] *)
Example ex_chroma : run lg0 gen_mp_midi_to_chroma [v_mframes [[Some (-3#2); Some 13; None]]] = OK (v_mframes [[Some (21#2); Some 1; None]]).
Proof. vm_compute. reflexivity. Qed.

(* ---------------------------------------------------------------- melody helpers (values compared up to == of Q) *)
From ME Require Import Proofs.FrameTieMelody.
Fixpoint leqb (a b : list Q) : bool :=
  match a, b with [], [] => true | x :: a', y :: b' => Qeq_bool x y && leqb a' b' | _, _ => false end.
Definition veqb (a b : out fv) : bool :=
  match a, b with
  | OK (VArrQ x), OK (VArrQ y) => leqb x y
  | OK (VTup [VArrQ x1; VArrQ x2]), OK (VTup [VArrQ y1; VArrQ y2]) => leqb x1 y1 && leqb x2 y2
  | EXN e, EXN f => exn_eqb e f
  | _, _ => false
  end.
Definition run0 := runx (fun _ _ => UNM) lg0.
(* constant_hop_timebase(0.25, 1.1) = [0, .25, .5, .75, 1];  (0.5, 0.0) = [0.];  (-0.5, -1.0) = [0, -0.5, -1];  (0.5, -1.0): ValueError *)
Example ex_hop :
  veqb (run0 gen_mel_constant_hop_timebase [VFlt (1#4); VFlt (11#10)]) (OK (VArrQ [0; 1#4; 1#2; 3#4; 1])) = true
  /\ veqb (run0 gen_mel_constant_hop_timebase [VFlt (1#2); VFlt 0]) (OK (VArrQ [0])) = true
  /\ veqb (run0 gen_mel_constant_hop_timebase [VFlt (-1#2); VFlt (-1)]) (OK (VArrQ [0; -1#2; -1])) = true
  /\ veqb (run0 gen_mel_constant_hop_timebase [VFlt (1#2); VFlt (-1)]) (EXN ValueError) = true.
Proof. repeat split; vm_compute; reflexivity. Qed.
(* freq_to_voicing([0, -100, 200]) = ([0, 100, 200], [0, 0, 1]);  with voicing [.5, .5, .25]: ([0, 100, 200], [0, .5, .25]) *)
Example ex_ftv :
  veqb (run0 gen_mel_freq_to_voicing [VArrQ [0; -100; 200]; VNone]) (OK (VTup [VArrQ [0; 100; 200]; VArrQ [0; 0; 1]])) = true
  /\ veqb (run0 gen_mel_freq_to_voicing [VArrQ [0; -100; 200]; VArrQ [1#2; 1#2; 1#4]])
          (OK (VTup [VArrQ [0; 100; 200]; VArrQ [0; 1#2; 1#4]])) = true.
Proof. split; vm_compute; reflexivity. Qed.
(* resample_melody_series([0,1,2], [100,0,300], [1,0,1], [0,.5,1.5,2.5]) = ([100,100,0,0], [1,1,0,0])   (extra sample, zero retention,
   binary voicing -> zero order);  voicing [1,.5,1], times_new [0,.5,1.5,2] -> ([100,100,0,300], [1,.75,.75,1]) (linear voicing);
   duplicate time stamps [0,1,1] -> ValueError *)
Example ex_resample_melody :
  veqb (run0 gen_mel_resample_melody_series [VArrQ [0; 1; 2]; VArrQ [100; 0; 300]; VArrQ [1; 0; 1]; VArrQ [0; 1#2; 3#2; 5#2]; VStr "linear"])
       (OK (VTup [VArrQ [100; 100; 0; 0]; VArrQ [1; 1; 0; 0]])) = true
  /\ veqb (run0 gen_mel_resample_melody_series [VArrQ [0; 1; 2]; VArrQ [100; 0; 300]; VArrQ [1; 1#2; 1]; VArrQ [0; 1#2; 3#2; 2]; VStr "linear"])
       (OK (VTup [VArrQ [100; 100; 0; 300]; VArrQ [1; 3#4; 3#4; 1]])) = true
  /\ veqb (run0 gen_mel_resample_melody_series [VArrQ [0; 1; 1]; VArrQ [100; 0; 300]; VArrQ [1; 0; 1]; VArrQ [0; 1#2]; VStr "linear"])
       (EXN ValueError) = true.
Proof. repeat split; vm_compute; reflexivity. Qed.
