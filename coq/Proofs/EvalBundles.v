(* Per task: the symbolic normal form of evaluate() as translated from /repo on this run equals the documented bundle, and
   the return arities of the callees agree with the targets that receive them. Each proof is a kernel-checked computation. *)
From Coq Require Import List String ZArith.
From ME Require Import Model.EvalLang Model.EvalSpec Gen.Evaluate.
Import ListNotations.
Open Scope string_scope.
Lemma alignment_bundle : symexec alignment_sigs alignment_prog = alignment_spec.
Proof. vm_compute. reflexivity. Qed.
Lemma alignment_arities_ok : first_bad_arity alignment_arities alignment_prog = None.
Proof. vm_compute. reflexivity. Qed.
Lemma beat_bundle : symexec beat_sigs beat_prog = beat_spec.
Proof. vm_compute. reflexivity. Qed.
Lemma beat_arities_ok : first_bad_arity beat_arities beat_prog = None.
Proof. vm_compute. reflexivity. Qed.
Lemma chord_bundle : symexec chord_sigs chord_prog = chord_spec.
Proof. vm_compute. reflexivity. Qed.
Lemma chord_arities_ok : first_bad_arity chord_arities chord_prog = None.
Proof. vm_compute. reflexivity. Qed.
Lemma hierarchy_bundle : symexec hierarchy_sigs hierarchy_prog = hierarchy_spec.
Proof. vm_compute. reflexivity. Qed.
Lemma hierarchy_arities_ok : first_bad_arity hierarchy_arities hierarchy_prog = None.
Proof. vm_compute. reflexivity. Qed.
Lemma key_bundle : symexec key_sigs key_prog = key_spec.
Proof. vm_compute. reflexivity. Qed.
Lemma key_arities_ok : first_bad_arity key_arities key_prog = None.
Proof. vm_compute. reflexivity. Qed.
Lemma melody_bundle : symexec melody_sigs melody_prog = melody_spec.
Proof. vm_compute. reflexivity. Qed.
Lemma melody_arities_ok : first_bad_arity melody_arities melody_prog = None.
Proof. vm_compute. reflexivity. Qed.
Lemma multipitch_bundle : symexec multipitch_sigs multipitch_prog = multipitch_spec.
Proof. vm_compute. reflexivity. Qed.
Lemma multipitch_arities_ok : first_bad_arity multipitch_arities multipitch_prog = None.
Proof. vm_compute. reflexivity. Qed.
Lemma onset_bundle : symexec onset_sigs onset_prog = onset_spec.
Proof. vm_compute. reflexivity. Qed.
Lemma onset_arities_ok : first_bad_arity onset_arities onset_prog = None.
Proof. vm_compute. reflexivity. Qed.
Lemma pattern_bundle : symexec pattern_sigs pattern_prog = pattern_spec.
Proof. vm_compute. reflexivity. Qed.
Lemma pattern_arities_ok : first_bad_arity pattern_arities pattern_prog = None.
Proof. vm_compute. reflexivity. Qed.
Lemma segment_bundle : symexec segment_sigs segment_prog = segment_spec.
Proof. vm_compute. reflexivity. Qed.
Lemma segment_arities_ok : first_bad_arity segment_arities segment_prog = None.
Proof. vm_compute. reflexivity. Qed.
Lemma separation_bundle : symexec separation_sigs separation_prog = separation_spec.
Proof. vm_compute. reflexivity. Qed.
Lemma separation_arities_ok : first_bad_arity separation_arities separation_prog = None.
Proof. vm_compute. reflexivity. Qed.
Lemma tempo_bundle : symexec tempo_sigs tempo_prog = tempo_spec.
Proof. vm_compute. reflexivity. Qed.
Lemma tempo_arities_ok : first_bad_arity tempo_arities tempo_prog = None.
Proof. vm_compute. reflexivity. Qed.
Lemma transcription_bundle : symexec transcription_sigs transcription_prog = transcription_spec.
Proof. vm_compute. reflexivity. Qed.
Lemma transcription_arities_ok : first_bad_arity transcription_arities transcription_prog = None.
Proof. vm_compute. reflexivity. Qed.
Lemma transcription_velocity_bundle : symexec transcription_velocity_sigs transcription_velocity_prog = transcription_velocity_spec.
Proof. vm_compute. reflexivity. Qed.
Lemma transcription_velocity_arities_ok : first_bad_arity transcription_velocity_arities transcription_velocity_prog = None.
Proof. vm_compute. reflexivity. Qed.
