(* transcription.average_overlap_ratio, tied to the hand-written model by TRANSLATION (see NoteTie.v for the matchers).

   The program Gen/NoteGen.gen_average_overlap_ratio (the loop over the matched pairs, the row / entry indexing, min / max,
   the quotient, ratios.append, `len(ratios) == 0`, np.mean) is run with the EXACT reading of the float operations
   ([run_exact]: rnd = identity; scores are exact rationals in the model and compared up to 1e-9 by the sampling units)
   and proved equal to Transcription.average_overlap_ratio for all interval arrays and all lists of index pairs:
   IndexError for a pair out of range, the xval (inf / nan on a zero denominator) of the mean otherwise; the Python int 0
   returned for an empty matching is identified with the float 0 ([as_x]).  The loop is handled by induction
   ([for_loop_res], [afold_ratios]); the loop body is evaluated by computation on the generated text. *)
From Coq Require Import String.
From Coq Require Import List Bool Arith ZArith QArith Qabs Qminmax Qround Lia Lqa.
From ME Require Import Model.Prelude Model.Dict Model.Matching Model.Events Model.Transcription Model.NoteExp Gen.NoteGen.
From ME Require Import Proofs.NoteTie.
Import ListNotations.
Open Scope Q_scope.

(* the exact reading of the floats: no rounding (scores are compared up to 1e-9 by the sampling units) *)
Definition run_exact (f : fdef) (args : list nv) : out nv := run_fun (fun x => x) note_globals note_sigs note_ext f args.
Definition as_x (v : nv) : nv := match v with NInt z => NX (Fin (inject_Z z)) | NFlt q => NX (Fin q) | _ => v end.
Definition omap {A B} (f : A -> B) (o : out A) : out B := match o with OK a => OK (f a) | EXN e => EXN e | FUEL => FUEL | UNM => UNM end.
Definition lift_x (r : res xval) : out nv := match r with Ok x => OK (NX x) | Raise e => EXN e end.

Lemma for_loop_res {S A} (step : nv -> env -> sres) (f : S -> A -> res S) (mk : S -> env) (inj : A -> nv) :
  (forall s a, step (inj a) (mk s) = match f s a with Ok s' => SNorm (mk s') | Raise e => SExn e end) ->
  forall l s, for_loop step (map inj l) (mk s) =
              match fold_left (fun r a => match r with Ok s => f s a | Raise e => Raise e end) l (Ok s) with
              | Ok s' => SNorm (mk s') | Raise e => SExn e end.
Proof.
  intros H. induction l as [|a t IH]; intros s; cbn [map for_loop fold_left]; [reflexivity|]. rewrite H.
  destruct (f s a) as [s'|e]; [apply IH|].
  clear. induction t as [|b t IH]; cbn [fold_left]; [reflexivity|exact IH].
Qed.

Definition astate := (list xval * (nv * nv * nv * nv))%type.
Definition astep (ref est : list ivl) (s : astate) (h : nat * nat) : res astate :=
  match nth_error ref (fst h) with
  | Some r => match nth_error est (snd h) with
              | Some e => Ok (fst s ++ [overlap_ratio r e], (pair_tup h, NRow r, NRow e, NX (overlap_ratio r e)))
              | None => Raise IndexError end
  | None => Raise IndexError
  end.
Definition afold ref est m (r : res astate) := fold_left (fun r a => match r with Ok s => astep ref est s a | Raise e => Raise e end) m r.
Lemma afold_raise ref est m e : afold ref est m (Raise e) = Raise e.
Proof. induction m; cbn; auto. Qed.
Lemma afold_ratios ref est m : forall s,
  match afold ref est m (Ok s), ratios ref est m with
  | Ok s', Ok rs => fst s' = fst s ++ rs
  | Raise e, Raise e' => e = e'
  | _, _ => False
  end.
Proof.
  induction m as [|[i j] t IH]; intros s; cbn [afold fold_left ratios].
  - now rewrite app_nil_r.
  - unfold astep at 2. cbn [fst snd]. destruct (nth_error ref i) as [r|]; [|fold (afold ref est t (Raise IndexError)); now rewrite afold_raise].
    destruct (nth_error est j) as [e|]; [|fold (afold ref est t (Raise IndexError)); now rewrite afold_raise].
    specialize (IH (fst s ++ [overlap_ratio r e], (pair_tup (i, j), NRow r, NRow e, NX (overlap_ratio r e)))).
    fold (afold ref est t (Ok (fst s ++ [overlap_ratio r e], (pair_tup (i, j), NRow r, NRow e, NX (overlap_ratio r e))))).
    destruct (afold ref est t _) as [s'|x], (ratios ref est t) as [rs|y]; cbn [bind]; try contradiction; [|exact IH].
    rewrite IH. cbn [fst]. now rewrite <- app_assoc.
Qed.
Lemma xvals_of_NX l : xvals_of (map NX l) = Some l.
Proof. induction l as [|x t IH]; [reflexivity|]. cbn [map xvals_of]. now rewrite IH. Qed.

Definition mk_aenv (xs x1 x2 x3 x4 : string) (en0 : env) (s : astate) : env :=
  let '(acc, (v1, v2, v3, v4)) := s in
  upd xs (NList (map NX acc)) (upd x1 v1 (upd x2 v2 (upd x3 v3 (upd x4 v4 en0)))).

Local Arguments for_loop : simpl never.
Local Arguments overlap_ratio : simpl never.
Local Arguments xmean : simpl never.


Theorem average_overlap_ratio_tie : forall ref est m,
  omap as_x (run_exact gen_average_overlap_ratio [NIvs ref; NIvs est; NPairs m]) = lift_x (average_overlap_ratio ref est m).
Proof.
  intros. unfold run_exact, run_fun, average_overlap_ratio. cbn.
  match goal with
  | |- context [for_loop (for_step ?blk [?x1] ?body) (map pair_tup m) ?en0] =>
      match body with
      | [SAssign ?x2 _; SAssign ?x3 _; SAssign ?x4 _; SAppend ?xs _] =>
          change en0 with (mk_aenv xs x1 x2 x3 x4 en0 ([], (NUnbound, NUnbound, NUnbound, NUnbound)));
          rewrite (for_loop_res (for_step blk [x1] body) (astep ref est) (mk_aenv xs x1 x2 x3 x4 en0) pair_tup)
      end
  end.
  2:{ intros [acc [[[v1 v2] v3] v4]] [i j]. unfold mk_aenv, upd, astep. cbn.
      destruct (nth_error ref i) as [r|]; cbn; [|reflexivity]. change (Pos.to_nat 1) with 1%nat; cbn.
      destruct (nth_error est j) as [e|]; cbn; [|reflexivity].
      rewrite map_app. reflexivity. }
  pose proof (afold_ratios ref est m ([], (NUnbound, NUnbound, NUnbound, NUnbound))) as H. unfold afold in H.
  destruct (fold_left _ m _) as [[acc [[[v1 v2] v3] v4]]|x], (ratios ref est m) as [rs|y]; try contradiction; cbn [bind lift_x].
  - cbn [fst app] in H. subst acc. unfold mk_aenv, upd. cbn. destruct rs as [|x t]; cbn; [reflexivity|].
    rewrite xvals_of_NX. reflexivity.
  - subst. reflexivity.
Qed.

(* outcomes observed on the real mir_eval: 0.625; 0; IndexError; nan *)
Definition x_is (q : Q) (o : out nv) : bool := match o with OK (NX (Fin p)) => Qeq_bool p q | OK (NInt z) => Qeq_bool (inject_Z z) q | _ => false end.
Example aor_ex1 : x_is (5#8) (run_exact gen_average_overlap_ratio [NIvs [(1, 2); (1#2, 1)]; NIvs [(5#4, 2); (1#2, 3#2)]; NPairs [(0, 0); (1, 1)]%nat]) = true.
Proof. vm_compute. reflexivity. Qed.
Example aor_ex2 : run_exact gen_average_overlap_ratio [NIvs [(1, 2); (1#2, 1)]; NIvs [(5#4, 2); (1#2, 3#2)]; NPairs []] = OK (NInt 0).
Proof. vm_compute. reflexivity. Qed.
Example aor_ex3 : run_exact gen_average_overlap_ratio [NIvs [(1, 2); (1#2, 1)]; NIvs [(5#4, 2); (1#2, 3#2)]; NPairs [(0, 2)]%nat] = EXN IndexError.
Proof. vm_compute. reflexivity. Qed.
Example aor_ex4 : run_exact gen_average_overlap_ratio [NIvs [(1, 1)]; NIvs [(1, 1)]; NPairs [(0, 0)]%nat] = OK (NX NaN).
Proof. vm_compute. reflexivity. Qed.
Print Assumptions average_overlap_ratio_tie.
