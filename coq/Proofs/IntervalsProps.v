(* C13 -- interval pre-processing preserves the annotation it re-expresses.  Entry point: re-exports
   Proofs/IntervalsBase (label_at, ordered, valid_ivs), IntervalsAdjust, IntervalsMerge, IntervalsInterp,
   IntervalsBoundaries, and adds the one-sided (t_min only / t_max only) label theorems and the adjust_events facts. *)
From Coq Require Import List Bool Arith ZArith QArith Qminmax Qabs Lia Lqa.
From ME Require Import Model.Prelude Model.Intervals.
From ME Require Export Proofs.IntervalsBase Proofs.IntervalsAdjust Proofs.IntervalsMerge Proofs.IntervalsInterp
  Proofs.IntervalsBoundaries.
Import ListNotations.
Open Scope Q_scope.

Section OneSided.
Context {L : Type}.
Variables sl el : L.

(* t_max = None: labels kept, start fill before the first interval, never an end fill *)
Theorem adjust_label_at_tmin_only ivs labs a out olabs t :
  ordered ivs -> ivs <> [] -> length labs = length ivs -> a <= t ->
  adjust_intervals sl el ivs (Some labs) (Some a) None = Ok (out, olabs) ->
  exists labs', olabs = Some labs' /\ length labs' = length out /\
    (forall l, label_at ivs labs t = Some l -> label_at out labs' t = Some l) /\
    ((forall v, In v ivs -> t < fst v) -> label_at out labs' t = Some sl) /\
    ((exists v, In v ivs /\ a < snd v /\ snd v <= t) -> label_at ivs labs t = None -> label_at out labs' t = None) /\
    ((forall v, In v ivs -> snd v <= t) -> label_at out labs' t = None).
Proof.
  intros ho hne hl hat H.
  destruct (adjust_inv sl el _ _ _ _ _ _ hne H) as [mid [mlabs [e1 e2]]]. cbn in e1, e2. injection e2 as <- <-.
  destruct (step_min_label sl a ivs labs mid mlabs t hl hat e1) as [ml [-> [hlm [hA hB]]]].
  exists ml. split; [reflexivity|]. split; [exact hlm|]. split; [|split; [|split]].
  - intros l hlab. destruct (label_with_some_in _ _ _ _ _ hlab) as [v [hv hc]]. unfold in_ho in hc. qb.
    rewrite hB; [exact hlab|]. exists v. split; [apply crop_min_keeps; [exact hv|lra]|left; assumption].
  - intros hbefore. destruct hA as [mn [rest [_ [_ hs]]]]; [|exact hs].
    intros v hv. apply in_skipn in hv. pose proof (hbefore _ hv). pose proof (ordered_in _ _ ho hv). lra.
  - intros [v [hv [hv1 hv2]]] hnone. rewrite hB; [exact hnone|].
    exists v. split; [apply crop_min_keeps; assumption|right; assumption].
  - intros hafter.
    assert (hnone : label_at ivs labs t = None).
    { apply label_with_none. apply Forall_forall. intros v hv. pose proof (hafter _ hv).
      unfold in_ho. apply andb_false_iff. right. apply qltb_false. assumption. }
    rewrite hB; [exact hnone|].
    pose proof (crop_min_nonempty a ivs hne) as hk.
    destruct (skipn (crop_min a ivs) ivs) as [|v r] eqn:E; [congruence|].
    assert (hv : In v ivs) by (apply (in_skipn v (crop_min a ivs)); rewrite E; left; reflexivity).
    exists v. split; [left; reflexivity|]. right. apply hafter. exact hv.
Qed.

(* t_min = None: labels kept, end fill after the last interval, never a start fill *)
Theorem adjust_label_at_tmax_only ivs labs b out olabs t d :
  ordered ivs -> ivs <> [] -> length labs = length ivs -> t < b ->
  adjust_intervals sl el ivs (Some labs) None (Some b) = Ok (out, olabs) ->
  exists labs', olabs = Some labs' /\ length labs' = length out /\
    (forall l, label_at ivs labs t = Some l -> label_at out labs' t = Some l) /\
    ((forall v, In v ivs -> snd v <= t) -> label_at out labs' t = Some el) /\
    ((exists w, In w ivs /\ t < fst w /\ fst w < b) -> label_at ivs labs t = None -> label_at out labs' t = None) /\
    (fst (hd d ivs) < b -> (forall v, In v ivs -> t < fst v) -> label_at out labs' t = None).
Proof.
  intros ho hne hl htb H.
  destruct (adjust_inv sl el _ _ _ _ _ _ hne H) as [mid [mlabs [e1 e2]]]. cbn in e1, e2. injection e1 as <- <-.
  destruct (step_max_label el b ivs labs out olabs t hl htb ho e2) as [labs' [-> [hlo [hC hD]]]].
  exists labs'. split; [reflexivity|]. split; [exact hlo|]. split; [|split; [|split]].
  - intros l hlab. destruct (label_with_some_in _ _ _ _ _ hlab) as [v [hv hc]]. unfold in_ho in hc. qb.
    rewrite hD; [exact hlab|]. exists v. split; [apply crop_max_keeps; [exact ho|exact hv|lra]|right; assumption].
  - intros hafter. apply hC. intros v hv. apply in_firstn in hv. pose proof (hafter _ hv). pose proof (ordered_in _ _ ho hv). lra.
  - intros [w [hw [hw1 hw2]]] hnone. rewrite hD; [exact hnone|].
    exists w. split; [apply crop_max_keeps; assumption|left; assumption].
  - intros hfb hbefore.
    assert (hnone : label_at ivs labs t = None).
    { apply label_with_none. apply Forall_forall. intros v hv. pose proof (hbefore _ hv).
      unfold in_ho. apply andb_false_iff. left. apply qleb_false. assumption. }
    rewrite hD; [exact hnone|]. destruct ivs as [|v r]; [congruence|]. cbn [hd] in hfb.
    exists v. split; [apply crop_max_keeps; [exact ho|left; reflexivity|exact hfb]|left; apply hbefore; left; reflexivity].
Qed.
End OneSided.

(* ---------------------------------------------------------------------------------------- *)
(* adjust_events                                                                             *)
(* ---------------------------------------------------------------------------------------- *)
Section Events.
Context {L : Type}.
Variables sl el : L.

(* events[0] / events[-1] on an empty array *)
Theorem adjust_events_empty_tmin (labs : option (list L)) a tmax :
  adjust_events sl el [] labs (Some a) tmax = Raise IndexError.
Proof. reflexivity. Qed.
Theorem adjust_events_empty_tmax (labs : option (list L)) b :
  adjust_events sl el [] labs None (Some b) = Raise IndexError.
Proof. reflexivity. Qed.
Theorem adjust_events_empty_none (labs : option (list L)) :
  adjust_events sl el [] labs None None = Ok ([], labs).
Proof. reflexivity. Qed.
End Events.

(* "Any event times outside of the specified range will be removed": not when ALL events lie below t_min
   util.adjust_events(np.array([1., 2., 3.]), None, t_min=5, t_max=6) -> [1., 2., 3., 6.] *)
Theorem adjust_events_all_below_refuted :
  exists ev a b out (labs' : option (list nat)),
    a < b /\ adjust_events 100%nat 200%nat ev None (Some a) (Some b) = Ok (out, labs') /\ exists e, In e out /\ e < a.
Proof.
  exists [1; 2; 3], 5, 6, [1; 2; 3; 6], None. split; [lra|]. split; [vm_compute; reflexivity|].
  exists 1. split; [left; reflexivity|lra].
Qed.
(* a crop that removes every event raises: util.adjust_events(np.array([5.]), ['a'], t_min=0, t_max=-1) -> IndexError *)
Example adjust_events_cropped_empty_raises :
  adjust_events 100%nat 200%nat [5] (Some [1%nat]) (Some 0) (Some (-1)) = Raise IndexError.
Proof. vm_compute. reflexivity. Qed.
Example adjust_events_example :
  adjust_events 100%nat 200%nat [1; 2; 3] (Some [1; 2; 3]%nat) (Some 0) (Some (5 # 2)) = Ok ([0; 1; 2; 5 # 2], Some [100; 1; 2; 200]%nat).
Proof. vm_compute. reflexivity. Qed.

Print Assumptions adjust_label_at_tmin_only.
Print Assumptions adjust_label_at_tmax_only.
Print Assumptions adjust_events_empty_tmin.
Print Assumptions adjust_events_all_below_refuted.
Print Assumptions adjust_events_empty_tmax.
Print Assumptions adjust_events_empty_none.
