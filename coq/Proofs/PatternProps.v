(* Properties of Model.Pattern (mir_eval.pattern): ranges (C01) with the refutation for standard_FPR precision, perfect
   estimate (C02), reference/estimate swap (C06), invariance under a common onset shift and under permuting the
   reference patterns (C08). *)
From Coq Require Import List Bool Arith ZArith QArith Qabs Qminmax Qreduction Lia Lqa Permutation.
From ME Require Import Model.Prelude Model.Events Proofs.EventsSpec Model.Pattern Proofs.PatternBase.
Import ListNotations.
Open Scope Q_scope.

(* ------------------------------------------------------------------------------------------ *)
(* inversion of successful runs                                                                *)
(* ------------------------------------------------------------------------------------------ *)
Definition est_fpr (ref est : list pattern) : fpr :=
  mk_fpr (qmean (col_maxes est_score ref est)) (qmean (row_maxes est_score ref est)).
Definition occ_prec (thres : Q) (rel : list (pattern * pattern)) : Q :=
  qmean (map (fun b => qmaxl (map (fun a => occ_P thres (fst a) (snd b)) rel)) rel).
Definition occ_rec (thres : Q) (rel : list (pattern * pattern)) : Q :=
  qmean (map (fun a => qmaxl (map (fun b => occ_R thres (fst a) (snd b)) rel)) rel).
Definition occ_fpr (thres : Q) (ref est : list pattern) : fpr :=
  let rel := rel_pairs thres ref est in
  if is_nil rel then mk_fpr 0 0 else mk_fpr (occ_prec thres rel) (occ_rec thres rel).
Definition tl_fpr (ref est : list pattern) : fpr :=
  mk_fpr (qmean (col_maxes layer2_F ref est)) (qmean (row_maxes layer2_F ref est)).

Lemma establishment_unfold ref est : establishment_FPR ref est =
  _ <- validate ref est ;; if no_notes ref est then Ok zero_fpr else
  if sm_raises ref est then Raise ZeroDivisionError else Ok (est_fpr ref est).
Proof. reflexivity. Qed.
Lemma occurrence_unfold ref est thres : occurrence_FPR ref est thres =
  _ <- validate ref est ;; if no_notes ref est then Ok zero_fpr else
  if sm_raises ref est then Raise ZeroDivisionError else Ok (occ_fpr thres ref est).
Proof. unfold occurrence_FPR, occ_fpr, occ_prec, occ_rec. destruct (validate ref est); [|reflexivity]. cbn [bind].
  destruct (no_notes ref est); [reflexivity|]. destruct (sm_raises ref est); [reflexivity|].
  now destruct (is_nil (rel_pairs thres ref est)). Qed.
Lemma three_layer_unfold ref est : three_layer_FPR ref est =
  _ <- validate ref est ;; if no_notes ref est then Ok zero_fpr else
  if tl_raises ref est then Raise ZeroDivisionError else Ok (tl_fpr ref est).
Proof. reflexivity. Qed.

Lemma establishment_inv ref est t : establishment_FPR ref est = Ok t -> t = zero_fpr \/ t = est_fpr ref est.
Proof. rewrite establishment_unfold. destruct (validate ref est); [|discriminate]. cbn [bind].
  destruct (no_notes ref est); [intros H; injection H as <-; now left|].
  destruct (sm_raises ref est); [discriminate|]. intros H; injection H as <-. now right. Qed.
Lemma occurrence_inv ref est thres t : occurrence_FPR ref est thres = Ok t -> t = zero_fpr \/ t = occ_fpr thres ref est.
Proof. rewrite occurrence_unfold. destruct (validate ref est); [|discriminate]. cbn [bind].
  destruct (no_notes ref est); [intros H; injection H as <-; now left|].
  destruct (sm_raises ref est); [discriminate|]. intros H; injection H as <-. now right. Qed.
Lemma three_layer_inv ref est t : three_layer_FPR ref est = Ok t -> t = zero_fpr \/ t = tl_fpr ref est.
Proof. rewrite three_layer_unfold. destruct (validate ref est); [|discriminate]. cbn [bind].
  destruct (no_notes ref est); [intros H; injection H as <-; now left|].
  destruct (tl_raises ref est); [discriminate|]. intros H; injection H as <-. now right. Qed.

(* ------------------------------------------------------------------------------------------ *)
(* C01: ranges                                                                                 *)
(* ------------------------------------------------------------------------------------------ *)
Definition in01 (t : fpr) : Prop := let '(f, p, r) := t in 0 <= f <= 1 /\ 0 <= p <= 1 /\ 0 <= r <= 1.
Lemma zero_in01 : in01 zero_fpr.
Proof. cbn. lra. Qed.
Lemma mk_fpr_01 p r : 0 <= p <= 1 -> 0 <= r <= 1 -> in01 (mk_fpr p r).
Proof. intros Hp Hr. unfold mk_fpr, in01. split; [apply f_measure_range; lra|tauto]. Qed.

Lemma row_maxes_01 {A B} (sc : A -> B -> Q) rs es : (forall r e, 0 <= sc r e <= 1) ->
  forall x, In x (row_maxes sc rs es) -> 0 <= x <= 1.
Proof. intros H x Hx. unfold row_maxes in Hx. apply in_map_iff in Hx. destruct Hx as (r & <- & _).
  apply qmaxl_01. intros y Hy. apply in_map_iff in Hy. destruct Hy as (e & <- & _). apply H. Qed.
Lemma col_maxes_01 {A B} (sc : A -> B -> Q) rs es : (forall r e, 0 <= sc r e <= 1) ->
  forall x, In x (col_maxes sc rs es) -> 0 <= x <= 1.
Proof. intros H x Hx. unfold col_maxes in Hx. apply in_map_iff in Hx. destruct Hx as (e & <- & _).
  apply qmaxl_01. intros y Hy. apply in_map_iff in Hy. destruct Hy as (r & <- & _). apply H. Qed.
Lemma maxes_fpr_01 {A B} (sc : A -> B -> Q) rs es : (forall r e, 0 <= sc r e <= 1) ->
  in01 (mk_fpr (qmean (col_maxes sc rs es)) (qmean (row_maxes sc rs es))).
Proof. intros H. apply mk_fpr_01; apply qmean_01; [now apply col_maxes_01|now apply row_maxes_01]. Qed.

Lemma in_concat_sm p q x : In x (concat (score_matrix p q)) <-> exists oP oQ, In oP p /\ In oQ q /\ x = card_score oP oQ.
Proof. unfold score_matrix. rewrite in_concat. split.
  - intros (row & Hrow & Hx). apply in_map_iff in Hrow. destruct Hrow as (oP & <- & HP).
    apply in_map_iff in Hx. destruct Hx as (oQ & <- & HQ). now exists oP, oQ.
  - intros (oP & oQ & HP & HQ & ->). exists (map (card_score oP) q).
    split; [exact (in_map (fun o => map (card_score o) q) p oP HP)|now apply in_map]. Qed.
Lemma est_score_01 p q : 0 <= est_score p q <= 1.
Proof. unfold est_score. apply qmaxl_01. intros x Hx. apply in_concat_sm in Hx. destruct Hx as (oP & oQ & _ & _ & ->).
  apply card_score_01. Qed.

Theorem establishment_range ref est f p r : establishment_FPR ref est = Ok (f, p, r) ->
  0 <= f <= 1 /\ 0 <= p <= 1 /\ 0 <= r <= 1.
Proof. intros H. apply establishment_inv in H. change (in01 (f, p, r)). destruct H as [->| ->]; [apply zero_in01|].
  apply maxes_fpr_01, est_score_01. Qed.

Lemma occ_P_01 thres p q : 0 <= occ_P thres p q <= 1.
Proof. unfold occ_P. destruct (occ_rel thres p q); [|lra]. apply qmean_01, col_maxes_01, card_score_01. Qed.
Lemma occ_R_01 thres p q : 0 <= occ_R thres p q <= 1.
Proof. unfold occ_R. destruct (occ_rel thres p q); [|lra]. apply qmean_01, row_maxes_01, card_score_01. Qed.
Theorem occurrence_range ref est thres f p r : occurrence_FPR ref est thres = Ok (f, p, r) ->
  0 <= f <= 1 /\ 0 <= p <= 1 /\ 0 <= r <= 1.
Proof. intros H. apply occurrence_inv in H. change (in01 (f, p, r)). destruct H as [->| ->]; [apply zero_in01|].
  unfold occ_fpr. destruct (is_nil (rel_pairs thres ref est)); [apply mk_fpr_01; lra|].
  apply mk_fpr_01; unfold occ_prec, occ_rec; apply qmean_01; intros x Hx; apply in_map_iff in Hx; destruct Hx as (b & <- & _);
    apply qmaxl_01; intros y Hy; apply in_map_iff in Hy; destruct Hy as (a & <- & _); [apply occ_P_01|apply occ_R_01]. Qed.

Lemma layer1_F_01 o1 o2 : 0 <= layer1_F o1 o2 <= 1.
Proof. unfold layer1_F. apply f_measure_range; [apply ratio_01, inter_count_le_l|apply ratio_01, inter_count_le_r|lra]. Qed.
Lemma layer2_P_01 p q : 0 <= layer2_P p q <= 1.
Proof. apply qmean_01, col_maxes_01, layer1_F_01. Qed.
Lemma layer2_R_01 p q : 0 <= layer2_R p q <= 1.
Proof. apply qmean_01, row_maxes_01, layer1_F_01. Qed.
Lemma layer2_F_01 p q : 0 <= layer2_F p q <= 1.
Proof. unfold layer2_F. apply f_measure_range; [apply layer2_P_01|apply layer2_R_01|lra]. Qed.
Theorem three_layer_range ref est f p r : three_layer_FPR ref est = Ok (f, p, r) ->
  0 <= f <= 1 /\ 0 <= p <= 1 /\ 0 <= r <= 1.
Proof. intros H. apply three_layer_inv in H. change (in01 (f, p, r)). destruct H as [->| ->]; [apply zero_in01|].
  apply maxes_fpr_01, layer2_F_01. Qed.

Theorem first_n_range ref est n v :
  first_n_three_layer_P ref est n = Ok v \/ first_n_target_proportion_R ref est n = Ok v -> 0 <= v <= 1.
Proof. unfold first_n_three_layer_P, first_n_target_proportion_R. intros [H|H];
  (destruct (validate ref est); [|discriminate]); cbn [bind] in H;
  (destruct (no_notes ref est); [injection H as <-; lra|]).
  - destruct (three_layer_FPR ref (first_n n est)) as [[[f p] r]|] eqn:E; [|discriminate]. cbn [bind fst snd] in H.
    injection H as <-. now apply three_layer_range in E.
  - destruct (establishment_FPR ref (first_n n est)) as [[[f p] r]|] eqn:E; [|discriminate]. cbn [bind fst snd] in H.
    injection H as <-. now apply establishment_range in E. Qed.

(* standard_FPR: each reference pattern counts at most once, so recall is bounded; precision is not *)
Lemma count_matches_le tol refs ests k : count_matches tol refs ests = Ok k -> (k <= length refs)%nat.
Proof. revert k. induction refs as [|r t IH]; intros k; cbn [count_matches length].
  - intros H. injection H as <-. lia.
  - destruct (proto r); [|discriminate]. cbn [bind]. destruct (scan_est tol a ests) as [b|]; [|discriminate]. cbn [bind].
    destruct (count_matches tol t ests) as [k'|]; [|discriminate]. cbn [bind]. intros H. injection H as <-.
    specialize (IH k' eq_refl). destruct b; lia. Qed.
Theorem standard_recall_range ref est tol f p r : standard_FPR ref est tol = Ok (f, p, r) -> 0 <= r <= 1 /\ 0 <= p /\ 0 <= f.
Proof. unfold standard_FPR. destruct (validate ref est); [|discriminate]. cbn [bind].
  destruct (no_notes ref est); [intros H; injection H as <- <- <-; lra|].
  destruct (count_matches tol ref est) as [k|] eqn:K; [|discriminate]. cbn [bind]. intros H. injection H as <- <- <-.
  apply count_matches_le in K. pose proof (ratio_01 k (length ref) K) as R.
  assert (P : 0 <= qnat k / qnat (length est)) by (apply Qdiv_nonneg; apply qnat_nonneg).
  split; [exact R|]. split; [exact P|]. set (pp := qnat k / qnat (length est)) in *. set (rr := qnat k / qnat (length ref)) in *.
  unfold f_measure. destruct (qeqb pp 0 && qeqb rr 0); [lra|]. apply Qdiv_nonneg; nra. Qed.

(* C01 REFUTED for standard_FPR precision: two reference patterns that are translations of each other, one estimate *)
Definition wit_A : occ := [(0, 60); (1, 62); (2, 64)].
Definition wit_B : occ := [(10, 60); (11, 62); (12, 64)].
Theorem standard_FPR_gt_1_refuted :
  exists ref est tol f p r, standard_FPR ref est tol = Ok (f, p, r) /\ p == 2 /\ r == 1 /\ f == 4 # 3 /\ ~ (p <= 1) /\ ~ (f <= 1).
Proof. exists [[wit_A]; [wit_B]], [[wit_A]], (1 # 100000). eexists _, _, _. split; [vm_compute; reflexivity|].
  repeat split; try (intros H; vm_compute in H; now apply H). Qed.

(* ------------------------------------------------------------------------------------------ *)
(* C06: exchanging reference and estimate                                                      *)
(* ------------------------------------------------------------------------------------------ *)
(* _compute_score_matrix(Q, P) is the transpose of _compute_score_matrix(P, Q) *)
Lemma nth_map_in {A B} (f : A -> B) l i d d' : (i < length l)%nat -> nth i (map f l) d' = f (nth i l d).
Proof. intros H. rewrite (nth_indep _ d' (f d)) by now rewrite map_length. apply map_nth. Qed.
Theorem score_matrix_transpose p q i j :
  nth j (nth i (score_matrix p q) []) 0 = nth i (nth j (score_matrix q p) []) 0.
Proof. unfold score_matrix.
  destruct (Nat.lt_ge_cases i (length p)) as [Hi|Hi]; destruct (Nat.lt_ge_cases j (length q)) as [Hj|Hj].
  - rewrite (nth_map_in _ p i []) by exact Hi. rewrite (nth_map_in _ q j []) by exact Hj.
    rewrite (nth_map_in _ q j []) by exact Hj. rewrite (nth_map_in _ p i []) by exact Hi. apply card_score_sym.
  - rewrite (nth_map_in _ p i []) by exact Hi. rewrite (nth_overflow (map _ q)) by now rewrite map_length.
    rewrite (nth_overflow (map _ q)) by now rewrite map_length. now destruct i.
  - rewrite (nth_overflow (map _ p)) by now rewrite map_length. rewrite (nth_map_in _ q j []) by exact Hj.
    rewrite (nth_overflow (map _ p)) by now rewrite map_length. now destruct j.
  - rewrite (nth_overflow (map _ p)) by now rewrite map_length. rewrite (nth_overflow (map _ q)) by now rewrite map_length.
    now destruct i, j. Qed.

Lemma est_score_sym p q : est_score q p == est_score p q.
Proof. unfold est_score. apply qmaxl_same; intros x Hx; apply in_concat_sm in Hx; destruct Hx as (o1 & o2 & H1 & H2 & ->);
  exists (card_score o2 o1); (split; [apply in_concat_sm; now exists o2, o1|rewrite card_score_sym; lra]). Qed.

(* column maxima of the transposed matrix are the row maxima *)
Lemma col_row_swap {A B} (sc : A -> B -> Q) (sc' : B -> A -> Q) rs es : (forall r e, In r rs -> In e es -> sc' e r == sc r e) ->
  qmean (col_maxes sc' es rs) == qmean (row_maxes sc rs es) /\ qmean (row_maxes sc' es rs) == qmean (col_maxes sc rs es).
Proof. intros H. unfold col_maxes, row_maxes. split; apply qmean_map_ext; intros x Hx; apply qmaxl_map_ext; intros y Hy; now apply H. Qed.

Definition fpr_swap (a b : fpr) : Prop := let '(f, p, r) := a in let '(f', p', r') := b in f' == f /\ p' == r /\ r' == p.
Definition res_swap (a b : res fpr) : Prop :=
  match a, b with Ok x, Ok y => fpr_swap x y | Raise e, Raise e' => e = e' | _, _ => False end.
Lemma mk_fpr_swap p r p' r' : p' == r -> r' == p -> fpr_swap (mk_fpr p r) (mk_fpr p' r').
Proof. intros Hp Hr. unfold mk_fpr, fpr_swap. split; [|tauto]. rewrite (f_measure_ext p' r r' p Hp Hr). apply f_measure_sym. Qed.
Lemma zero_swap : fpr_swap zero_fpr zero_fpr.
Proof. cbn. lra. Qed.

Lemma validate_swap ref est : validate est ref = validate ref est.
Proof. unfold validate. now rewrite !existsb_app, orb_comm. Qed.
Lemma no_notes_swap ref est : no_notes est ref = no_notes ref est.
Proof. unfold no_notes. apply orb_comm. Qed.
Lemma sm_raises_swap ref est : sm_raises est ref = sm_raises ref est.
Proof. unfold sm_raises. apply andb_comm. Qed.
Lemma tl_raises_swap ref est : tl_raises est ref = tl_raises ref est.
Proof. unfold tl_raises. apply orb_comm. Qed.

Theorem establishment_swap ref est : res_swap (establishment_FPR ref est) (establishment_FPR est ref).
Proof. rewrite !establishment_unfold, (validate_swap ref est), (no_notes_swap ref est), (sm_raises_swap ref est).
  destruct (validate ref est); [|reflexivity]. cbn [bind]. destruct (no_notes ref est); [apply zero_swap|].
  destruct (sm_raises ref est); [reflexivity|]. cbn [res_swap]. unfold est_fpr.
  destruct (col_row_swap est_score est_score ref est) as [E1 E2]; [intros; apply est_score_sym|]. now apply mk_fpr_swap. Qed.

(* three-layer *)
Lemma layer1_F_sym o1 o2 : layer1_F o2 o1 == layer1_F o1 o2.
Proof. unfold layer1_F. rewrite (inter_count_sym o2 o1). apply f_measure_sym. Qed.
Lemma layer2_swap p q : layer2_P q p == layer2_R p q /\ layer2_R q p == layer2_P p q.
Proof. unfold layer2_P, layer2_R. apply col_row_swap. intros; apply layer1_F_sym. Qed.
Lemma layer2_F_sym p q : layer2_F q p == layer2_F p q.
Proof. unfold layer2_F. destruct (layer2_swap p q) as [E1 E2]. rewrite (f_measure_ext _ _ _ _ E1 E2). apply f_measure_sym. Qed.
Theorem three_layer_swap ref est : res_swap (three_layer_FPR ref est) (three_layer_FPR est ref).
Proof. rewrite !three_layer_unfold, (validate_swap ref est), (no_notes_swap ref est), (tl_raises_swap ref est).
  destruct (validate ref est); [|reflexivity]. cbn [bind]. destruct (no_notes ref est); [apply zero_swap|].
  destruct (tl_raises ref est); [reflexivity|]. cbn [res_swap]. unfold tl_fpr.
  destruct (col_row_swap layer2_F layer2_F ref est) as [E1 E2]; [intros; apply layer2_F_sym|]. now apply mk_fpr_swap. Qed.

(* occurrence *)
Definition pswap {A B} (x : A * B) : B * A := (snd x, fst x).
Lemma list_prod_cons_r {A B} (l2 : list B) (a : A) (l1 : list A) :
  Permutation (list_prod l2 (a :: l1)) (map (fun y => (y, a)) l2 ++ list_prod l2 l1).
Proof. induction l2 as [|y l2 IH]; [reflexivity|]. cbn [list_prod map app]. apply perm_skip.
  rewrite IH. rewrite !app_assoc. apply Permutation_app_tail, Permutation_app_comm. Qed.
Lemma list_prod_swap {A B} (l1 : list A) (l2 : list B) : Permutation (list_prod l2 l1) (map pswap (list_prod l1 l2)).
Proof. induction l1 as [|a l1 IH].
  - cbn [list_prod map]. induction l2 as [|y l2 IH2]; [reflexivity|exact IH2].
  - rewrite list_prod_cons_r. cbn [list_prod]. rewrite map_app, map_map. cbn [pswap fst snd].
    apply Permutation_app_head, IH. Qed.
Lemma filter_perm {A} (f : A -> bool) l1 l2 : Permutation l1 l2 -> Permutation (filter f l1) (filter f l2).
Proof. induction 1 as [|x l1 l2 P IH|x y l|l1 l2 l3 P1 IH1 P2 IH2]; cbn [filter].
  - reflexivity.
  - destruct (f x); [now apply perm_skip|exact IH].
  - destruct (f x), (f y); try reflexivity. apply perm_swap.
  - now rewrite IH1. Qed.
Lemma filter_map_comm {A B} (g : A -> B) (f : B -> bool) l : filter f (map g l) = map g (filter (fun x => f (g x)) l).
Proof. induction l as [|a t IH]; [reflexivity|]. cbn [map filter]. destruct (f (g a)); cbn [map]; now rewrite IH. Qed.

Lemma occ_rel_sym thres p q : occ_rel thres q p = occ_rel thres p q.
Proof. unfold occ_rel. apply qleb_ext; [reflexivity|apply est_score_sym]. Qed.
Lemma occ_PR_swap thres p q : occ_P thres q p == occ_R thres p q /\ occ_R thres q p == occ_P thres p q.
Proof. unfold occ_P, occ_R. rewrite (occ_rel_sym thres p q). destruct (occ_rel thres p q); [|split; reflexivity].
  apply col_row_swap. intros. now rewrite card_score_sym. Qed.
Lemma rel_pairs_swap thres ref est : Permutation (rel_pairs thres est ref) (map pswap (rel_pairs thres ref est)).
Proof. unfold rel_pairs. rewrite (filter_perm _ _ _ (list_prod_swap ref est)), filter_map_comm.
  cbn [pswap fst snd]. erewrite filter_ext; [reflexivity|]. intros [p q]. cbn [fst snd]. apply occ_rel_sym. Qed.

(* the double mean-of-max over the relevant pairs depends on the list of pairs only up to permutation *)
Lemma mean_max_perm {A} (h : A -> A -> Q) l l' : Permutation l l' ->
  qmean (map (fun b => qmaxl (map (fun a => h a b) l)) l) == qmean (map (fun b => qmaxl (map (fun a => h a b) l')) l').
Proof. intros P. rewrite (qmean_perm _ _ (Permutation_map (fun b => qmaxl (map (fun a => h a b) l)) P)).
  apply qmean_map_ext. intros b _. apply qmaxl_perm, Permutation_map, P. Qed.

Theorem occurrence_swap ref est thres : res_swap (occurrence_FPR ref est thres) (occurrence_FPR est ref thres).
Proof. rewrite !occurrence_unfold, (validate_swap ref est), (no_notes_swap ref est), (sm_raises_swap ref est).
  destruct (validate ref est); [|reflexivity]. cbn [bind]. destruct (no_notes ref est); [apply zero_swap|].
  destruct (sm_raises ref est); [reflexivity|]. cbn [res_swap]. unfold occ_fpr.
  pose proof (rel_pairs_swap thres ref est) as P. set (rel := rel_pairs thres ref est) in *. set (rel' := rel_pairs thres est ref) in *.
  assert (N : is_nil rel' = is_nil rel).
  { destruct rel as [|x t].
    - cbn [map] in P. symmetry in P. apply Permutation_nil in P. now rewrite P.
    - destruct rel'; [|reflexivity]. cbn [map] in P. apply Permutation_nil in P. discriminate. }
  rewrite N. destruct (is_nil rel); [apply mk_fpr_swap; reflexivity|].
  apply mk_fpr_swap; unfold occ_prec, occ_rec.
  - rewrite (mean_max_perm (fun a b => occ_P thres (fst a) (snd b)) _ _ P), map_map.
    apply qmean_map_ext. intros u _. rewrite map_map. apply qmaxl_map_ext. intros v _. cbn [pswap fst snd]. apply occ_PR_swap.
  - rewrite (mean_max_perm (fun b a => occ_R thres (fst a) (snd b)) _ _ P), map_map.
    apply qmean_map_ext. intros u _. rewrite map_map. apply qmaxl_map_ext. intros v _. cbn [pswap fst snd]. apply occ_PR_swap. Qed.

(* ------------------------------------------------------------------------------------------ *)
(* C02: a perfect estimate                                                                     *)
(* ------------------------------------------------------------------------------------------ *)
(* every occurrence is non-empty and has no repeated note (a repeated note makes |set| < len and the score < 1, see
   pattern_self_dup_refuted below); every pattern has an occurrence; there is a pattern *)
Definition good_occ (o : occ) : Prop := o <> [] /\ NoDup (map canon o).
Definition good_pat (p : pattern) : Prop := p <> [] /\ forall o, In o p -> good_occ o.
Definition good (ps : list pattern) : Prop := ps <> [] /\ forall p, In p ps -> good_pat p.

Lemma existsb_false {A} (f : A -> bool) l : (forall x, In x l -> f x = false) -> existsb f l = false.
Proof. induction l as [|a t IH]; intros H; [reflexivity|]. cbn [existsb]. rewrite (H a) by now left.
  apply IH. intros; apply H; now right. Qed.
Lemma is_nil_false {A} (l : list A) : l <> [] -> is_nil l = false.
Proof. destruct l; [congruence|reflexivity]. Qed.

Lemma good_validate ps : good ps -> validate ps ps = Ok tt.
Proof. intros [_ G]. unfold validate. rewrite existsb_false; [reflexivity|]. intros p Hp. apply is_nil_false.
  apply in_app_or in Hp. destruct Hp as [Hp|Hp]; now apply G. Qed.
Lemma good_no_notes ps : good ps -> no_notes ps ps = false.
Proof. intros [N G]. unfold no_notes, n_onset_midi. destruct ps as [|p t]; [congruence|].
  destruct (G p (or_introl eq_refl)) as [Np Go]. destruct p as [|o p']; [congruence|].
  destruct (Go o (or_introl eq_refl)) as [No _]. destruct o as [|n o']; [congruence|]. reflexivity. Qed.
Lemma good_no_empty_occ ps : good ps -> existsb is_nil (concat ps) = false.
Proof. intros [_ G]. apply existsb_false. intros o Ho. apply in_concat in Ho. destruct Ho as (p & Hp & Ho).
  apply is_nil_false. now apply (G p Hp). Qed.

(* a square score matrix with ones on the diagonal and entries <= 1 *)
Lemma diag_means {A} (sc : A -> A -> Q) l : l <> [] -> (forall a b, sc a b <= 1) -> (forall a, In a l -> sc a a == 1) ->
  qmean (row_maxes sc l l) == 1 /\ qmean (col_maxes sc l l) == 1.
Proof. intros N H1 Hd. unfold row_maxes, col_maxes. split; (apply qmean_ones; [now destruct l|]);
  intros x Hx; apply in_map_iff in Hx; destruct Hx as (a & <- & Ha); apply qmaxl_eq1.
  - intros y Hy. apply in_map_iff in Hy. destruct Hy as (b & <- & _). apply H1.
  - exists (sc a a). split; [now apply in_map|now apply Hd].
  - intros y Hy. apply in_map_iff in Hy. destruct Hy as (b & <- & _). apply H1.
  - exists (sc a a). split; [exact (in_map (fun r => sc r a) l a Ha)|now apply Hd]. Qed.
Lemma mk_fpr_ones p r : p == 1 -> r == 1 -> let '(f, p', r') := mk_fpr p r in f == 1 /\ p' == 1 /\ r' == 1.
Proof. intros Hp Hr. unfold mk_fpr. split; [now apply f_measure_11|tauto]. Qed.

Lemma est_score_self p : good_pat p -> est_score p p == 1.
Proof. intros [N G]. unfold est_score. apply qmaxl_eq1.
  - intros x Hx. apply in_concat_sm in Hx. destruct Hx as (o1 & o2 & _ & _ & ->). apply card_score_01.
  - destruct p as [|o t]; [congruence|]. exists (card_score o o). split.
    + apply in_concat_sm. exists o, o. repeat split; now left.
    + apply card_score_self; apply (G o); now left. Qed.

Definition all_ones (t : fpr) : Prop := let '(f, p, r) := t in f == 1 /\ p == 1 /\ r == 1.

Theorem establishment_self ref : good ref -> exists t, establishment_FPR ref ref = Ok t /\ all_ones t.
Proof. intros G. rewrite establishment_unfold, (good_validate ref G). cbn [bind]. rewrite (good_no_notes ref G).
  unfold sm_raises. rewrite (good_no_empty_occ ref G). cbn [andb]. eexists. split; [reflexivity|].
  destruct G as [N G]. destruct (diag_means est_score ref N) as [E1 E2]; [intros; apply est_score_01|intros; now apply est_score_self, G|].
  apply (mk_fpr_ones _ _ E2 E1). Qed.

Lemma layer1_F_self o : good_occ o -> layer1_F o o == 1.
Proof. intros [N D]. unfold layer1_F. rewrite (inter_count_self o D).
  assert (E : qnat (length o) / qnat (length o) == 1) by (apply Qdiv_same, qnat_pos; destruct o; [congruence|cbn; lia]).
  now apply f_measure_11. Qed.
Lemma layer2_F_self p : good_pat p -> layer2_F p p == 1.
Proof. intros [N G]. unfold layer2_F, layer2_P, layer2_R.
  destruct (diag_means layer1_F p N) as [E1 E2]; [intros; apply layer1_F_01|intros; now apply layer1_F_self, G|].
  now apply f_measure_11. Qed.
Theorem three_layer_self ref : good ref -> exists t, three_layer_FPR ref ref = Ok t /\ all_ones t.
Proof. intros G. rewrite three_layer_unfold, (good_validate ref G). cbn [bind]. rewrite (good_no_notes ref G).
  unfold tl_raises. rewrite (good_no_empty_occ ref G). cbn [orb]. eexists. split; [reflexivity|].
  destruct G as [N G]. destruct (diag_means layer2_F ref N) as [E1 E2]; [intros; apply layer2_F_01|intros; now apply layer2_F_self, G|].
  apply (mk_fpr_ones _ _ E2 E1). Qed.

Lemma occ_rel_self thres p : thres <= 1 -> good_pat p -> occ_rel thres p p = true.
Proof. intros Ht G. unfold occ_rel. apply qleb_true. rewrite (est_score_self p G). exact Ht. Qed.
Lemma occ_PR_self thres p : thres <= 1 -> good_pat p -> occ_P thres p p == 1 /\ occ_R thres p p == 1.
Proof. intros Ht G. unfold occ_P, occ_R. rewrite (occ_rel_self thres p Ht G). destruct G as [N G].
  destruct (diag_means card_score p N) as [E1 E2]; [intros; apply card_score_01|intros a Ha; now apply card_score_self; apply (G a Ha)|].
  tauto. Qed.
Lemma rel_pairs_diag thres ref p : thres <= 1 -> good ref -> In p ref -> In (p, p) (rel_pairs thres ref ref).
Proof. intros Ht [_ G] Hp. unfold rel_pairs. apply filter_In. split; [now apply in_prod|]. cbn [fst snd].
  apply occ_rel_self; auto. Qed.
Theorem occurrence_self ref thres : thres <= 1 -> good ref -> exists t, occurrence_FPR ref ref thres = Ok t /\ all_ones t.
Proof. intros Ht G. rewrite occurrence_unfold, (good_validate ref G). cbn [bind]. rewrite (good_no_notes ref G).
  unfold sm_raises. rewrite (good_no_empty_occ ref G). cbn [andb]. eexists. split; [reflexivity|].
  unfold occ_fpr. pose proof (rel_pairs_diag thres ref) as D. set (rel := rel_pairs thres ref ref) in *.
  assert (Hin : forall b, In b rel -> In (fst b) ref /\ In (snd b) ref).
  { intros [p q] Hb. unfold rel, rel_pairs in Hb. apply filter_In in Hb. destruct Hb as [Hb _]. now apply in_prod_iff in Hb. }
  destruct (is_nil rel) eqn:N.
  { exfalso. destruct G as [Nr G]. destruct ref as [|p t]; [congruence|].
    assert (In (p, p) rel) by (apply D; auto; [split; auto|now left]). destruct rel; [contradiction|discriminate]. }
  assert (Nn : rel <> []) by (intros E; rewrite E in N; discriminate).
  apply mk_fpr_ones; unfold occ_prec, occ_rec; (apply qmean_ones; [now destruct rel|]);
    intros x Hx; apply in_map_iff in Hx; destruct Hx as (b & <- & Hb); apply qmaxl_eq1.
  - intros y Hy. apply in_map_iff in Hy. destruct Hy as (a & <- & _). apply occ_P_01.
  - exists (occ_P thres (snd b) (snd b)). split.
    + apply (in_map (fun a => occ_P thres (fst a) (snd b)) rel (snd b, snd b)). apply D; auto. now apply Hin.
    + apply occ_PR_self; [exact Ht|]. destruct G as [_ G]. apply G. now apply Hin.
  - intros y Hy. apply in_map_iff in Hy. destruct Hy as (a & <- & _). apply occ_R_01.
  - exists (occ_R thres (fst b) (fst b)). split.
    + apply (in_map (fun a => occ_R thres (fst b) (snd a)) rel (fst b, fst b)). apply D; auto. now apply Hin.
    + apply occ_PR_self; [exact Ht|]. destruct G as [_ G]. apply G. now apply Hin. Qed.

Theorem pattern_self ref thres : thres <= 1 -> good ref ->
  (exists t, establishment_FPR ref ref = Ok t /\ all_ones t)
  /\ (exists t, occurrence_FPR ref ref thres = Ok t /\ all_ones t)
  /\ (exists t, three_layer_FPR ref ref = Ok t /\ all_ones t).
Proof. intros Ht G. split; [now apply establishment_self|]. split; [now apply occurrence_self|now apply three_layer_self]. Qed.
Example pattern_self_ex : good [[wit_A; wit_B]; [wit_B]].
Proof. split; [discriminate|]. intros p [<-|[<-|[]]]; (split; [discriminate|]); intros o Ho; cbn [In] in Ho;
  repeat (destruct Ho as [<-|Ho]; [split; [discriminate|vm_compute; repeat constructor; cbn; intuition discriminate]|]); destruct Ho. Qed.

(* first-n metrics: a perfect estimate with at most n patterns *)
Lemma first_n_all {A} (n : Z) (l : list A) : (Z.of_nat (length l) <= n)%Z -> first_n n l = l.
Proof. intros H. unfold first_n. destruct (n <? 0)%Z eqn:E; [apply Z.ltb_lt in E; lia|]. apply firstn_all2. lia. Qed.
Theorem first_n_self ref n : good ref -> (Z.of_nat (length ref) <= n)%Z ->
  (exists v, first_n_three_layer_P ref ref n = Ok v /\ v == 1) /\ (exists v, first_n_target_proportion_R ref ref n = Ok v /\ v == 1).
Proof. intros G Hn. unfold first_n_three_layer_P, first_n_target_proportion_R.
  rewrite (good_validate ref G), (good_no_notes ref G), (first_n_all n ref Hn). cbn [bind].
  destruct (three_layer_self ref G) as ([[f p] r] & -> & _ & Hp & _). destruct (establishment_self ref G) as ([[f' p'] r'] & -> & _ & _ & Hr).
  cbn [bind fst snd]. split; eexists; split; try reflexivity; assumption. Qed.

(* without the no-repeated-note condition the perfect estimate does not score 1 *)
Theorem pattern_self_dup_refuted : exists ref f p r, establishment_FPR ref ref = Ok (f, p, r) /\ f == 1 # 2 /\ p == 1 # 2 /\ r == 1 # 2.
Proof. exists [[[(1, 60); (1, 60)]]]. eexists _, _, _. split; [vm_compute; reflexivity|]. repeat split; vm_compute; reflexivity. Qed.

(* ------------------------------------------------------------------------------------------ *)
(* C08: the same onset offset on every note of the reference and of the estimate               *)
(* ------------------------------------------------------------------------------------------ *)
Lemma row_maxes_map {A B A' B'} (sc : A -> B -> Q) (sc' : A' -> B' -> Q) (fa : A -> A') (fb : B -> B') rs es :
  (forall r e, sc' (fa r) (fb e) = sc r e) -> row_maxes sc' (map fa rs) (map fb es) = row_maxes sc rs es.
Proof. intros H. unfold row_maxes. rewrite map_map. apply map_ext. intros r. f_equal. rewrite map_map. apply map_ext. intros e. apply H. Qed.
Lemma col_maxes_map {A B A' B'} (sc : A -> B -> Q) (sc' : A' -> B' -> Q) (fa : A -> A') (fb : B -> B') rs es :
  (forall r e, sc' (fa r) (fb e) = sc r e) -> col_maxes sc' (map fa rs) (map fb es) = col_maxes sc rs es.
Proof. intros H. unfold col_maxes. rewrite map_map. apply map_ext. intros e. f_equal. rewrite map_map. apply map_ext. intros r. apply H. Qed.

Lemma is_nil_map {A B} (f : A -> B) l : is_nil (map f l) = is_nil l.
Proof. now destruct l. Qed.
Lemma existsb_map_comm {A B} (f : B -> bool) (g : A -> B) l : existsb f (map g l) = existsb (fun x => f (g x)) l.
Proof. induction l as [|a t IH]; [reflexivity|]. cbn [map existsb]. now rewrite IH. Qed.
Lemma existsb_nil_shift_pat d (l : list pattern) : existsb is_nil (map (shift_pat d) l) = existsb is_nil l.
Proof. induction l as [|p t IH]; [reflexivity|]. cbn [map existsb]. unfold shift_pat at 1. now rewrite is_nil_map, IH. Qed.
Lemma existsb_nil_shift_occ d (l : list occ) : existsb is_nil (map (shift_occ d) l) = existsb is_nil l.
Proof. induction l as [|p t IH]; [reflexivity|]. cbn [map existsb]. unfold shift_occ at 1. now rewrite is_nil_map, IH. Qed.

Lemma validate_shift d ref est : validate (shift_pats d ref) (shift_pats d est) = validate ref est.
Proof. unfold validate, shift_pats. now rewrite <- map_app, existsb_nil_shift_pat. Qed.
Lemma concat_shift d ps : concat (shift_pats d ps) = map (shift_occ d) (concat ps).
Proof. induction ps as [|p t IH]; [reflexivity|]. cbn [shift_pats map concat]. fold (shift_pats d t). rewrite IH, map_app. reflexivity. Qed.
Lemma length_concat_shift_occ d (l : list occ) : length (concat (map (shift_occ d) l)) = length (concat l).
Proof. induction l as [|o t IH]; [reflexivity|]. cbn [map concat]. now rewrite !app_length, shift_occ_length, IH. Qed.
Lemma n_onset_shift d ps : n_onset_midi (shift_pats d ps) = n_onset_midi ps.
Proof. unfold n_onset_midi. rewrite concat_shift. apply length_concat_shift_occ. Qed.
Lemma no_notes_shift d ref est : no_notes (shift_pats d ref) (shift_pats d est) = no_notes ref est.
Proof. unfold no_notes. now rewrite !n_onset_shift. Qed.
Lemma empty_occ_shift d ps : existsb is_nil (concat (shift_pats d ps)) = existsb is_nil (concat ps).
Proof. rewrite concat_shift. apply existsb_nil_shift_occ. Qed.
Lemma sm_raises_shift d ref est : sm_raises (shift_pats d ref) (shift_pats d est) = sm_raises ref est.
Proof. unfold sm_raises. now rewrite !empty_occ_shift. Qed.
Lemma tl_raises_shift d ref est : tl_raises (shift_pats d ref) (shift_pats d est) = tl_raises ref est.
Proof. unfold tl_raises. now rewrite !empty_occ_shift. Qed.

Lemma score_matrix_shift d p q : score_matrix (shift_pat d p) (shift_pat d q) = score_matrix p q.
Proof. unfold score_matrix, shift_pat. rewrite map_map. apply map_ext. intros oP. rewrite map_map. apply map_ext. intros oQ.
  apply card_score_shift. Qed.
Lemma est_score_shift d p q : est_score (shift_pat d p) (shift_pat d q) = est_score p q.
Proof. unfold est_score. now rewrite score_matrix_shift. Qed.

Theorem establishment_shift d ref est : establishment_FPR (shift_pats d ref) (shift_pats d est) = establishment_FPR ref est.
Proof. rewrite !establishment_unfold, validate_shift, no_notes_shift, sm_raises_shift. unfold est_fpr, shift_pats.
  rewrite (row_maxes_map est_score est_score _ _ ref est (est_score_shift d)),
          (col_maxes_map est_score est_score _ _ ref est (est_score_shift d)). reflexivity. Qed.

Lemma layer1_F_shift d o1 o2 : layer1_F (shift_occ d o1) (shift_occ d o2) = layer1_F o1 o2.
Proof. unfold layer1_F. now rewrite inter_count_shift, !shift_occ_length. Qed.
Lemma layer2_F_shift d p q : layer2_F (shift_pat d p) (shift_pat d q) = layer2_F p q.
Proof. unfold layer2_F, layer2_P, layer2_R, shift_pat.
  rewrite (row_maxes_map layer1_F layer1_F _ _ p q (layer1_F_shift d)), (col_maxes_map layer1_F layer1_F _ _ p q (layer1_F_shift d)).
  reflexivity. Qed.
Theorem three_layer_shift d ref est : three_layer_FPR (shift_pats d ref) (shift_pats d est) = three_layer_FPR ref est.
Proof. rewrite !three_layer_unfold, validate_shift, no_notes_shift, tl_raises_shift. unfold tl_fpr, shift_pats.
  rewrite (row_maxes_map layer2_F layer2_F _ _ ref est (layer2_F_shift d)),
          (col_maxes_map layer2_F layer2_F _ _ ref est (layer2_F_shift d)). reflexivity. Qed.

Lemma occ_rel_shift thres d p q : occ_rel thres (shift_pat d p) (shift_pat d q) = occ_rel thres p q.
Proof. unfold occ_rel. now rewrite est_score_shift. Qed.
Lemma occ_P_shift thres d p q : occ_P thres (shift_pat d p) (shift_pat d q) = occ_P thres p q.
Proof. unfold occ_P. rewrite occ_rel_shift. unfold shift_pat. now rewrite (col_maxes_map card_score card_score _ _ p q (card_score_shift d)). Qed.
Lemma occ_R_shift thres d p q : occ_R thres (shift_pat d p) (shift_pat d q) = occ_R thres p q.
Proof. unfold occ_R. rewrite occ_rel_shift. unfold shift_pat. now rewrite (row_maxes_map card_score card_score _ _ p q (card_score_shift d)). Qed.
Lemma list_prod_map {A B A' B'} (f : A -> A') (g : B -> B') l1 l2 :
  list_prod (map f l1) (map g l2) = map (fun pq => (f (fst pq), g (snd pq))) (list_prod l1 l2).
Proof. induction l1 as [|a t IH]; [reflexivity|]. cbn [map list_prod]. rewrite map_app, IH, !map_map. reflexivity. Qed.
Lemma rel_pairs_shift thres d ref est : rel_pairs thres (shift_pats d ref) (shift_pats d est)
  = map (fun pq => (shift_pat d (fst pq), shift_pat d (snd pq))) (rel_pairs thres ref est).
Proof. unfold rel_pairs, shift_pats. rewrite list_prod_map, filter_map_comm. f_equal. apply filter_ext. intros [p q]. cbn [fst snd].
  apply occ_rel_shift. Qed.
Theorem occurrence_shift d ref est thres :
  occurrence_FPR (shift_pats d ref) (shift_pats d est) thres = occurrence_FPR ref est thres.
Proof. rewrite !occurrence_unfold, validate_shift, no_notes_shift, sm_raises_shift. unfold occ_fpr. rewrite rel_pairs_shift, is_nil_map.
  set (rel := rel_pairs thres ref est). set (F := fun pq : pattern * pattern => (shift_pat d (fst pq), shift_pat d (snd pq))).
  assert (EP : occ_prec thres (map F rel) = occ_prec thres rel).
  { unfold occ_prec. rewrite map_map. f_equal. apply map_ext. intros b. f_equal. rewrite map_map. apply map_ext. intros a.
    unfold F. cbn [fst snd]. apply occ_P_shift. }
  assert (ER : occ_rec thres (map F rel) = occ_rec thres rel).
  { unfold occ_rec. rewrite map_map. f_equal. apply map_ext. intros a. f_equal. rewrite map_map. apply map_ext. intros b.
    unfold F. cbn [fst snd]. apply occ_R_shift. }
  now rewrite EP, ER. Qed.

(* standard_FPR: the differences P - Q are unchanged up to == *)
Definition note_eq (a b : note) : Prop := fst a == fst b /\ snd a == snd b.
Lemma row_diffs_F2 l l' : Forall2 note_eq l l' -> Forall2 Qeq (row_diffs l) (row_diffs l').
Proof. induction 1 as [|a a' t t' Ha Ht IH]; [constructor|]. destruct Ht as [|b b' u u' Hb Hu]; [constructor|].
  cbn [row_diffs] in *. destruct Ha as [A1 A2], Hb as [B1 B2]. constructor; [now rewrite A1, B1|]. constructor; [now rewrite A2, B2|].
  exact IH. Qed.
Lemma qmaxl_F2 l l' : Forall2 Qeq l l' -> qmaxl l == qmaxl l'.
Proof. intros H. apply qmaxl_same.
  - induction H as [|a a' t t' Ha Ht IH]; intros x Hx; [destruct Hx|]. destruct Hx as [<-|Hx].
    + exists a'. split; [now left|lra]. + destruct (IH x Hx) as (y & Hy & Hxy). exists y. split; [now right|exact Hxy].
  - induction H as [|a a' t t' Ha Ht IH]; intros x Hx; [destruct Hx|]. destruct Hx as [<-|Hx].
    + exists a. split; [now left|lra]. + destruct (IH x Hx) as (y & Hy & Hxy). exists y. split; [now right|exact Hxy]. Qed.
Lemma map_Qabs_F2 l l' : Forall2 Qeq l l' -> Forall2 Qeq (map Qabs l) (map Qabs l').
Proof. induction 1 as [|a a' t t' Ha Ht IH]; cbn [map]; constructor; [now rewrite Ha|exact IH]. Qed.
Lemma sub_shift_F2 d P Qo : Forall2 note_eq (map (fun pq => nsub (fst pq) (snd pq)) (combine (shift_occ d P) (shift_occ d Qo)))
                                           (map (fun pq => nsub (fst pq) (snd pq)) (combine P Qo)).
Proof. revert Qo. induction P as [|a P IH]; intros [|b Qo]; cbn [shift_occ map combine]; try constructor; [|apply IH].
  unfold nsub, shift_note, note_eq. cbn [fst snd]. split; ring. Qed.
Lemma proto_match_shift tol d P Qo : proto_match tol (shift_occ d P) (shift_occ d Qo) = proto_match tol P Qo.
Proof. unfold proto_match. rewrite !shift_occ_length. destruct (negb (length P =? length Qo)%nat); [reflexivity|].
  destruct (length P =? 1)%nat; [reflexivity|].
  pose proof (row_diffs_F2 _ _ (sub_shift_F2 d P Qo)) as F. 
  destruct F as [|x y l l' Hxy Hl]; [reflexivity|]. f_equal. apply qltb_ext; [|reflexivity].
  apply qmaxl_F2, map_Qabs_F2. now constructor. Qed.
Lemma proto_shift d p : proto (shift_pat d p) = match proto p with Ok o => Ok (shift_occ d o) | Raise e => Raise e end.
Proof. now destruct p. Qed.
Lemma scan_est_shift tol d P ests : scan_est tol (shift_occ d P) (shift_pats d ests) = scan_est tol P ests.
Proof. induction ests as [|e t IH]; [reflexivity|]. cbn [shift_pats map scan_est]. rewrite proto_shift.
  destruct (proto e) as [o|]; [|reflexivity]. cbn [bind]. rewrite proto_match_shift.
  destruct (proto_match tol P o) as [[|]|]; cbn [bind]; [reflexivity|exact IH|reflexivity]. Qed.
Lemma count_matches_shift tol d refs ests : count_matches tol (shift_pats d refs) (shift_pats d ests) = count_matches tol refs ests.
Proof. induction refs as [|r t IH]; [reflexivity|]. cbn [shift_pats map count_matches]. rewrite proto_shift.
  destruct (proto r) as [o|]; [|reflexivity]. cbn [bind]. rewrite scan_est_shift. fold (shift_pats d t). now rewrite IH. Qed.
Theorem standard_shift d ref est tol : standard_FPR (shift_pats d ref) (shift_pats d est) tol = standard_FPR ref est tol.
Proof. unfold standard_FPR. rewrite validate_shift, no_notes_shift, count_matches_shift. unfold shift_pats. now rewrite !map_length. Qed.

Theorem pattern_shift d ref est tol thres :
  standard_FPR (shift_pats d ref) (shift_pats d est) tol = standard_FPR ref est tol
  /\ establishment_FPR (shift_pats d ref) (shift_pats d est) = establishment_FPR ref est
  /\ occurrence_FPR (shift_pats d ref) (shift_pats d est) thres = occurrence_FPR ref est thres
  /\ three_layer_FPR (shift_pats d ref) (shift_pats d est) = three_layer_FPR ref est.
Proof. split; [apply standard_shift|]. split; [apply establishment_shift|]. split; [apply occurrence_shift|apply three_layer_shift]. Qed.

(* ------------------------------------------------------------------------------------------ *)
(* C08: permuting the list of reference patterns                                               *)
(* ------------------------------------------------------------------------------------------ *)
Definition fpr_eq (a b : fpr) : Prop := let '(f, p, r) := a in let '(f', p', r') := b in f == f' /\ p == p' /\ r == r'.
Definition res_fpr_eq (a b : res fpr) : Prop :=
  match a, b with Ok x, Ok y => fpr_eq x y | Raise e, Raise e' => e = e' | _, _ => False end.
Lemma mk_fpr_eq p r p' r' : p == p' -> r == r' -> fpr_eq (mk_fpr p r) (mk_fpr p' r').
Proof. intros Hp Hr. unfold mk_fpr, fpr_eq. split; [now apply f_measure_ext|tauto]. Qed.
Lemma zero_fpr_eq : fpr_eq zero_fpr zero_fpr.
Proof. cbn. lra. Qed.

Lemma existsb_perm {A} (f : A -> bool) l l' : Permutation l l' -> existsb f l = existsb f l'.
Proof. induction 1 as [|x l1 l2 P IH|x y l|l1 l2 l3 P1 IH1 P2 IH2]; cbn [existsb]; [reflexivity|now rewrite IH| |congruence].
  destruct (f x), (f y); reflexivity. Qed.
Lemma concat_perm {A} (l l' : list (list A)) : Permutation l l' -> Permutation (concat l) (concat l').
Proof. induction 1 as [|x l1 l2 P IH|x y l|l1 l2 l3 P1 IH1 P2 IH2]; cbn [concat]; [reflexivity|now apply Permutation_app_head| |now rewrite IH1].
  rewrite !app_assoc. apply Permutation_app_tail, Permutation_app_comm. Qed.
Lemma validate_perm ref ref' est : Permutation ref ref' -> validate ref' est = validate ref est.
Proof. intros P. unfold validate. now rewrite (existsb_perm (@is_nil occ) _ _ (Permutation_app_tail est P)). Qed.
Lemma n_onset_perm ps ps' : Permutation ps ps' -> n_onset_midi ps' = n_onset_midi ps.
Proof. intros P. unfold n_onset_midi. symmetry. apply Permutation_length, concat_perm, concat_perm, P. Qed.
Lemma no_notes_perm ref ref' est : Permutation ref ref' -> no_notes ref' est = no_notes ref est.
Proof. intros P. unfold no_notes. now rewrite (n_onset_perm _ _ P). Qed.
Lemma empty_occ_perm (ps ps' : list pattern) : Permutation ps ps' -> existsb is_nil (concat ps') = existsb is_nil (concat ps).
Proof. intros P. symmetry. apply existsb_perm, concat_perm, P. Qed.

Lemma row_maxes_perm {A B} (sc : A -> B -> Q) rs rs' es : Permutation rs rs' ->
  qmean (row_maxes sc rs' es) == qmean (row_maxes sc rs es).
Proof. intros P. unfold row_maxes. symmetry. apply qmean_perm, Permutation_map, P. Qed.
Lemma col_maxes_perm {A B} (sc : A -> B -> Q) rs rs' es : Permutation rs rs' ->
  qmean (col_maxes sc rs' es) == qmean (col_maxes sc rs es).
Proof. intros P. unfold col_maxes. apply qmean_map_ext. intros e _. symmetry. apply qmaxl_perm, Permutation_map, P. Qed.

Lemma list_prod_perm_l {A B} (l1 l1' : list A) (l2 : list B) : Permutation l1 l1' -> Permutation (list_prod l1 l2) (list_prod l1' l2).
Proof. induction 1 as [|x la lb P IH|x y l|la lb lc P1 IH1 P2 IH2]; cbn [list_prod]; [reflexivity|now apply Permutation_app_head| |now rewrite IH1].
  rewrite !app_assoc. apply Permutation_app_tail, Permutation_app_comm. Qed.
Lemma rel_pairs_perm thres ref ref' est : Permutation ref ref' -> Permutation (rel_pairs thres ref est) (rel_pairs thres ref' est).
Proof. intros P. unfold rel_pairs. apply filter_perm, list_prod_perm_l, P. Qed.
Lemma is_nil_perm {A} (l l' : list A) : Permutation l l' -> is_nil l' = is_nil l.
Proof. intros P. destruct l as [|a t].
  - apply Permutation_nil in P. now rewrite P.
  - destruct l'; [|reflexivity]. symmetry in P. apply Permutation_nil in P. discriminate. Qed.

Theorem establishment_ref_perm ref ref' est : Permutation ref ref' ->
  res_fpr_eq (establishment_FPR ref est) (establishment_FPR ref' est).
Proof. intros P. rewrite !establishment_unfold, (validate_perm _ _ est P), (no_notes_perm _ _ est P).
  unfold sm_raises. rewrite (empty_occ_perm _ _ P).
  destruct (validate ref est); [|reflexivity]. cbn [bind]. destruct (no_notes ref est); [apply zero_fpr_eq|].
  destruct (existsb is_nil (concat ref) && existsb is_nil (concat est)); [reflexivity|]. cbn [res_fpr_eq]. unfold est_fpr.
  apply mk_fpr_eq; symmetry; [now apply col_maxes_perm|now apply row_maxes_perm]. Qed.
Theorem three_layer_ref_perm ref ref' est : Permutation ref ref' ->
  res_fpr_eq (three_layer_FPR ref est) (three_layer_FPR ref' est).
Proof. intros P. rewrite !three_layer_unfold, (validate_perm _ _ est P), (no_notes_perm _ _ est P).
  unfold tl_raises. rewrite (empty_occ_perm _ _ P).
  destruct (validate ref est); [|reflexivity]. cbn [bind]. destruct (no_notes ref est); [apply zero_fpr_eq|].
  destruct (existsb is_nil (concat ref) || existsb is_nil (concat est)); [reflexivity|]. cbn [res_fpr_eq]. unfold tl_fpr.
  apply mk_fpr_eq; symmetry; [now apply col_maxes_perm|now apply row_maxes_perm]. Qed.
Theorem occurrence_ref_perm ref ref' est thres : Permutation ref ref' ->
  res_fpr_eq (occurrence_FPR ref est thres) (occurrence_FPR ref' est thres).
Proof. intros P. rewrite !occurrence_unfold, (validate_perm _ _ est P), (no_notes_perm _ _ est P).
  unfold sm_raises. rewrite (empty_occ_perm _ _ P).
  destruct (validate ref est); [|reflexivity]. cbn [bind]. destruct (no_notes ref est); [apply zero_fpr_eq|].
  destruct (existsb is_nil (concat ref) && existsb is_nil (concat est)); [reflexivity|]. cbn [res_fpr_eq]. unfold occ_fpr.
  pose proof (rel_pairs_perm thres _ _ est P) as R. rewrite (is_nil_perm _ _ R).
  destruct (is_nil (rel_pairs thres ref est)); [apply mk_fpr_eq; reflexivity|].
  apply mk_fpr_eq; unfold occ_prec, occ_rec.
  - apply (mean_max_perm (fun a b => occ_P thres (fst a) (snd b)) _ _ R).
  - apply (mean_max_perm (fun b a => occ_R thres (fst a) (snd b)) _ _ R). Qed.

Theorem pattern_ref_perm ref ref' est thres : Permutation ref ref' ->
  res_fpr_eq (establishment_FPR ref est) (establishment_FPR ref' est)
  /\ res_fpr_eq (occurrence_FPR ref est thres) (occurrence_FPR ref' est thres)
  /\ res_fpr_eq (three_layer_FPR ref est) (three_layer_FPR ref' est).
Proof. intros P. split; [now apply establishment_ref_perm|]. split; [now apply occurrence_ref_perm|now apply three_layer_ref_perm]. Qed.
Example pattern_ref_perm_ex : Permutation [[wit_A]; [wit_B]] [[wit_B]; [wit_A]].
Proof. apply perm_swap. Qed.

Print Assumptions establishment_range.
Print Assumptions occurrence_range.
Print Assumptions three_layer_range.
Print Assumptions first_n_range.
Print Assumptions standard_recall_range.
Print Assumptions standard_FPR_gt_1_refuted.
Print Assumptions score_matrix_transpose.
Print Assumptions establishment_swap.
Print Assumptions occurrence_swap.
Print Assumptions three_layer_swap.
Print Assumptions pattern_self.
Print Assumptions first_n_self.
Print Assumptions pattern_self_dup_refuted.
Print Assumptions pattern_shift.
Print Assumptions pattern_ref_perm.

(* ------------------------------------------------------------------------------------------ *)
(* standard_FPR: a perfect estimate (C02) and what is counted (C04)                            *)
(* ------------------------------------------------------------------------------------------ *)
Lemma row_diffs_zero l : (forall n, In n l -> fst n == 0 /\ snd n == 0) -> forall x, In x (row_diffs l) -> x == 0.
Proof. induction l as [|a t IH]; intros H x Hx; [destruct Hx|]. destruct t as [|b t]; [destruct Hx|].
  cbn [row_diffs] in Hx. destruct (H a (or_introl eq_refl)) as [A1 A2]. destruct (H b (or_intror (or_introl eq_refl))) as [B1 B2].
  destruct Hx as [<-|[<-|Hx]]; [lra|lra|]. apply IH; [|exact Hx]. intros n Hn. apply H. now right. Qed.
Lemma row_diffs_nonempty l : (2 <= length l)%nat -> row_diffs l <> [].
Proof. destruct l as [|a [|b t]]; cbn [length]; try lia. intros _. discriminate. Qed.
Lemma sub_self_zero (o : occ) n : In n (map (fun pq => nsub (fst pq) (snd pq)) (combine o o)) -> fst n == 0 /\ snd n == 0.
Proof. intros H. apply in_map_iff in H. destruct H as ([a b] & <- & Hi).
  assert (a = b). { clear -Hi. induction o as [|c t IH]; [destruct Hi|]. destruct Hi as [E|Hi]; [congruence|auto]. }
  subst b. unfold nsub. cbn [fst snd]. split; ring. Qed.
Lemma sub_length (P Qo : occ) : length Qo = length P -> length (map (fun pq => nsub (fst pq) (snd pq)) (combine P Qo)) = length P.
Proof. intros L. rewrite map_length, combine_length, L. apply Nat.min_id. Qed.

Lemma proto_match_self tol o : o <> [] -> 0 < tol -> proto_match tol o o = Ok true.
Proof. intros N Ht. unfold proto_match. rewrite Nat.eqb_refl. cbn [negb]. destruct (length o =? 1)%nat eqn:L1; [reflexivity|].
  apply Nat.eqb_neq in L1. set (D := map (fun pq => nsub (fst pq) (snd pq)) (combine o o)).
  assert (LD : (2 <= length D)%nat). { unfold D. rewrite sub_length by reflexivity. destruct o as [|a [|b t]]; [congruence|cbn in L1; lia|cbn; lia]. }
  pose proof (row_diffs_zero D (sub_self_zero o)) as Z. destruct (row_diffs D) as [|x l] eqn:E; [now apply row_diffs_nonempty in LD|].
  f_equal. apply qltb_true. assert (Nn : map Qabs (x :: l) <> []) by discriminate.
  destruct (qmaxl_in _ Nn) as (y & Hy & ->). apply in_map_iff in Hy. destruct Hy as (z & <- & Hz). rewrite (Z z Hz). exact Ht. Qed.
Lemma proto_match_ok tol P Qo : P <> [] -> exists b, proto_match tol P Qo = Ok b.
Proof. intros N. unfold proto_match. destruct (length P =? length Qo)%nat eqn:L; cbn [negb]; [|now eexists].
  destruct (length P =? 1)%nat eqn:L1; [now eexists|]. apply Nat.eqb_eq in L. apply Nat.eqb_neq in L1.
  set (D := map (fun pq => nsub (fst pq) (snd pq)) (combine P Qo)).
  assert (LD : (2 <= length D)%nat). { unfold D. rewrite sub_length by auto. destruct P as [|a [|b t]]; [congruence|cbn in L1; lia|cbn; lia]. }
  destruct (row_diffs D) as [|x l] eqn:E; [now apply row_diffs_nonempty in LD|]. now eexists. Qed.
Lemma proto_ok (e : pattern) : e <> [] -> exists o, proto e = Ok o /\ In o e.
Proof. destruct e as [|o t]; [congruence|]. intros _. exists o. split; [reflexivity|now left]. Qed.

Lemma scan_est_true tol P ests e o : P <> [] -> (forall x, In x ests -> x <> []) -> In e ests -> proto e = Ok o ->
  proto_match tol P o = Ok true -> scan_est tol P ests = Ok true.
Proof. intros N. induction ests as [|e0 t IH]; intros Hne Hi Hp Hm; [destruct Hi|]. cbn [scan_est].
  destruct (proto_ok e0) as (o0 & Hp0 & _); [apply Hne; now left|]. rewrite Hp0. cbn [bind].
  destruct (proto_match_ok tol P o0 N) as ([|] & Hb); rewrite Hb; cbn [bind]; [reflexivity|].
  destruct Hi as [E|Hi].
  - subst e0. rewrite Hp in Hp0. injection Hp0 as <-. congruence.
  - apply IH; auto. intros x Hx. apply Hne. now right. Qed.

Lemma count_matches_all tol refs ests : 0 < tol -> (forall x, In x ests -> x <> []) ->
  (forall r, In r refs -> In r ests /\ forall o, In o r -> o <> []) -> count_matches tol refs ests = Ok (length refs).
Proof. intros Ht Hne. induction refs as [|r t IH]; intros H; [reflexivity|]. cbn [count_matches length].
  destruct (H r (or_introl eq_refl)) as [Hr Ho]. destruct (proto_ok r (Hne r Hr)) as (o & Hp & Hin). rewrite Hp. cbn [bind].
  rewrite (scan_est_true tol o ests r o (Ho o Hin) Hne Hr Hp (proto_match_self tol o (Ho o Hin) Ht)). cbn [bind].
  rewrite IH; [reflexivity|]. intros x Hx. apply H. now right. Qed.

Theorem standard_self ref tol : good ref -> 0 < tol -> exists t, standard_FPR ref ref tol = Ok t /\ all_ones t.
Proof. intros G Ht. unfold standard_FPR. rewrite (good_validate ref G), (good_no_notes ref G). cbn [bind].
  destruct G as [N G]. rewrite count_matches_all; [|exact Ht|intros x Hx; apply (G x Hx)|].
  - cbn [bind]. eexists. split; [reflexivity|]. apply mk_fpr_ones; apply Qdiv_same, qnat_pos; destruct ref; [congruence|cbn; lia| congruence|cbn; lia].
  - intros r Hr. split; [exact Hr|]. intros o Ho. apply (G r Hr). exact Ho. Qed.

(* what standard_FPR counts: the reference patterns whose prototype matches the prototype of some estimated pattern *)
Lemma scan_est_spec tol P ests b : scan_est tol P ests = Ok b ->
  (b = true <-> exists e o, In e ests /\ proto e = Ok o /\ proto_match tol P o = Ok true).
Proof. revert b. induction ests as [|e t IH]; intros b; cbn [scan_est].
  - intros H. injection H as <-. split; [discriminate|]. intros (e & o & [] & _).
  - destruct (proto e) as [o|] eqn:Hp; [|discriminate]. cbn [bind]. destruct (proto_match tol P o) as [[|]|] eqn:Hm; [| |discriminate]; cbn [bind].
    + intros H. injection H as <-. split; [|reflexivity]. intros _. exists e, o. repeat split; auto. now left.
    + intros H. rewrite (IH b H). split; intros (e' & o' & Hi & Hp' & Hm').
      * exists e', o'. repeat split; auto. now right.
      * destruct Hi as [<-|Hi]; [congruence|]. now exists e', o'. Qed.
Definition proto_hit (tol : Q) (ests : list pattern) (r : pattern) : bool :=
  match proto r with Ok P => match scan_est tol P ests with Ok true => true | _ => false end | Raise _ => false end.
Lemma count_matches_spec tol refs ests k : count_matches tol refs ests = Ok k -> k = length (filter (proto_hit tol ests) refs).
Proof. revert k. induction refs as [|r t IH]; intros k; cbn [count_matches filter].
  - intros H. now injection H as <-.
  - unfold proto_hit at 1. destruct (proto r) as [P|]; [|discriminate]. cbn [bind]. destruct (scan_est tol P ests) as [b|]; [|discriminate].
    cbn [bind]. destruct (count_matches tol t ests) as [k'|]; [|discriminate]. cbn [bind]. intros H. injection H as <-.
    rewrite (IH k' eq_refl). now destruct b. Qed.
Theorem standard_def ref est tol f p r : standard_FPR ref est tol = Ok (f, p, r) -> no_notes ref est = false ->
  let k := length (filter (proto_hit tol est) ref) in
  p = qnat k / qnat (length est) /\ r = qnat k / qnat (length ref) /\ f = f_measure p r 1.
Proof. unfold standard_FPR. destruct (validate ref est); [|discriminate]. cbn [bind]. intros H Hn. rewrite Hn in H.
  destruct (count_matches tol ref est) as [k|] eqn:K; [|discriminate]. cbn [bind] in H. injection H as <- <- <-.
  apply count_matches_spec in K. subst k. cbv zeta. auto. Qed.

(* C04: the three Collins metrics, written out on the primitive notions: |set(P) & set(Q)| = inter_count, lengths, maxima, means *)
Theorem canon_eq a b : canon a = canon b <-> fst a == fst b /\ snd a == snd b.
Proof. unfold canon. split.
  - intros H. apply pair_equal_spec in H. destruct H as [H1 H2].
    split; [rewrite <- (Qred_correct (fst a)), <- (Qred_correct (fst b)), H1|rewrite <- (Qred_correct (snd a)), <- (Qred_correct (snd b)), H2]; reflexivity.
  - intros [H1 H2]. apply pair_equal_spec. split; now apply Qred_complete. Qed.
Theorem inter_count_def P Qo : exists l, NoDup l /\ (forall x, In x l <-> In x (map canon P) /\ In x (map canon Qo)) /\ inter_count P Qo = length l.
Proof. exists (inter_set P Qo). split; [apply inter_set_NoDup|]. split; [apply inter_set_In|reflexivity]. Qed.

Theorem establishment_def ref est f p r : establishment_FPR ref est = Ok (f, p, r) -> no_notes ref est = false ->
  let card := fun oP oQ => qnat (inter_count oP oQ) / qnat (Nat.max (length oP) (length oQ)) in
  let S := fun P Qp => qmaxl (concat (map (fun oP => map (card oP) Qp) P)) in
  p = qmean (map (fun Qp => qmaxl (map (fun P => S P Qp) ref)) est)
  /\ r = qmean (map (fun P => qmaxl (map (fun Qp => S P Qp) est)) ref)
  /\ f = f_measure p r 1.
Proof. rewrite establishment_unfold. destruct (validate ref est); [|discriminate]. cbn [bind]. intros H Hn. rewrite Hn in H.
  destruct (sm_raises ref est); [discriminate|]. injection H as <- <- <-. cbv zeta. repeat split. Qed.
Theorem three_layer_def ref est f p r : three_layer_FPR ref est = Ok (f, p, r) -> no_notes ref est = false ->
  let F1 := fun o1 o2 => f_measure (qnat (inter_count o1 o2) / qnat (length o1)) (qnat (inter_count o1 o2) / qnat (length o2)) 1 in
  let P2 := fun P Qp => qmean (map (fun oQ => qmaxl (map (fun oP => F1 oP oQ) P)) Qp) in
  let R2 := fun P Qp => qmean (map (fun oP => qmaxl (map (fun oQ => F1 oP oQ) Qp)) P) in
  let F2 := fun P Qp => f_measure (P2 P Qp) (R2 P Qp) 1 in
  p = qmean (map (fun Qp => qmaxl (map (fun P => F2 P Qp) ref)) est)
  /\ r = qmean (map (fun P => qmaxl (map (fun Qp => F2 P Qp) est)) ref)
  /\ f = f_measure p r 1.
Proof. rewrite three_layer_unfold. destruct (validate ref est); [|discriminate]. cbn [bind]. intros H Hn. rewrite Hn in H.
  destruct (tl_raises ref est); [discriminate|]. injection H as <- <- <-. cbv zeta. repeat split. Qed.
Theorem occurrence_def ref est thres f p r : occurrence_FPR ref est thres = Ok (f, p, r) -> no_notes ref est = false ->
  let card := fun oP oQ => qnat (inter_count oP oQ) / qnat (Nat.max (length oP) (length oQ)) in
  let relevant := fun P Qp => Qle_bool thres (qmaxl (concat (map (fun oP => map (card oP) Qp) P))) in
  let OP := fun P Qp => if relevant P Qp then qmean (map (fun oQ => qmaxl (map (fun oP => card oP oQ) P)) Qp) else 0 in
  let OR := fun P Qp => if relevant P Qp then qmean (map (fun oP => qmaxl (map (fun oQ => card oP oQ) Qp)) P) else 0 in
  let rel := filter (fun pq => relevant (fst pq) (snd pq)) (list_prod ref est) in
  (rel = [] -> p = 0 /\ r = 0) /\
  (rel <> [] -> p = qmean (map (fun b => qmaxl (map (fun a => OP (fst a) (snd b)) rel)) rel)
                /\ r = qmean (map (fun a => qmaxl (map (fun b => OR (fst a) (snd b)) rel)) rel))
  /\ f = f_measure p r 1.
Proof. rewrite occurrence_unfold. destruct (validate ref est); [|discriminate]. cbn [bind]. intros H Hn. rewrite Hn in H.
  destruct (sm_raises ref est); [discriminate|]. cbv zeta. unfold occ_fpr in H.
  change (filter (fun pq => Qle_bool thres (qmaxl (concat (map (fun oP => map (fun oQ => qnat (inter_count oP oQ) / qnat (Nat.max (length oP) (length oQ))) (snd pq)) (fst pq)))))
                 (list_prod ref est)) with (rel_pairs thres ref est).
  destruct (rel_pairs thres ref est) as [|x t] eqn:E; cbn [is_nil] in H; injection H as <- <- <-.
  - split; [intros _; split; reflexivity|]. split; [intros C; now contradiction C|reflexivity].
  - split; [discriminate|]. split; [|reflexivity]. intros _. split; reflexivity. Qed.

Print Assumptions standard_self.
Print Assumptions standard_def.
Print Assumptions establishment_def.
Print Assumptions three_layer_def.
Print Assumptions occurrence_def.
Print Assumptions inter_count_def.
Print Assumptions canon_eq.
