(* The interval pre-processing helpers of mir_eval/util.py, tied to the hand-written model by TRANSLATION
   (this file: adjust_intervals, adjust_events; IntervalTieMerge.v: merge_labeled_intervals, sort_labeled_intervals;
   IntervalTieInterp.v: interpolate_intervals, intervals_to_samples, index_labels).

   translator/intervalfuncs.py turns the function bodies into programs of the Python / NumPy sub-language of
   Model/IvExp.v (Gen/IntervalGen.v, regenerated on every check). These files prove, for ALL inputs, that running each
   generated program gives what the model function of Model/Intervals.v gives, including which exception is raised.
   Labels are arbitrary values of the language (the model is instantiated at L := val). A list PARAMETER is passed as
   [VList false _] (not owned): an in-place operation on it would be [UNM], so each tie also says that the program never
   modifies the caller's label list; the lists it returns are owned ([VList true _]). *)
From Coq Require Import String.
From Coq Require Import List Bool Arith ZArith QArith Qabs Qminmax Qround Lia Lqa.
From ME Require Import Model.Prelude Model.IvExp Gen.IntervalGen.
From ME Require Model.Intervals.
Import ListNotations.
Open Scope Q_scope.

Definition iv_sigs : list (string * option sigv) := sigs_of (fun_params interval_funs).
Definition lab_val (own : bool) (o : option (list val)) : val := match o with None => VNone | Some l => VList own l end.
Definition opt_flt (py : bool) (o : option Q) : val := match o with None => VNone | Some q => VFlt py (Fin q) end.
Definition bound (v : val) : Prop := v <> VUnbound.

Lemma nz_from_find {A} (p : A -> bool) : forall l i,
  nz_from i (map p l) = match find_idx p l with
                        | Some k => (i + Z.of_nat k)%Z :: nz_from (i + Z.of_nat k + 1)%Z (map p (skipn (S k) l))
                        | None => [] end.
Proof.
  induction l as [|x t IH]; intros i; [reflexivity|]. cbn [map nz_from find_idx]. destruct (p x).
  - cbn [skipn]. rewrite Z.add_0_r. reflexivity.
  - rewrite IH. destruct (find_idx p t) as [k|]; cbn [option_map]; [|reflexivity].
    cbn [skipn]. replace (i + 1 + Z.of_nat k)%Z with (i + Z.of_nat (S k))%Z by lia. reflexivity.
Qed.

Lemma py_slice_from {A} (k : nat) (l : list A) : py_slice (Some (Z.of_nat k)) None l = skipn k l.
Proof.
  unfold py_slice, py_norm. replace (Z.of_nat k <? 0)%Z with false by (symmetry; apply Z.ltb_ge; lia).
  destruct (Nat.le_gt_cases k (length l)) as [H|H].
  - rewrite Z.min_l by lia. rewrite Nat2Z.id. replace (Z.to_nat (Z.of_nat (length l) - Z.of_nat k)) with (length (skipn k l)) by (rewrite skipn_length; lia).
    apply firstn_all.
  - rewrite Z.min_r by lia. rewrite Nat2Z.id, Z.sub_diag. rewrite skipn_all. rewrite skipn_all2 by lia. reflexivity.
Qed.
Lemma py_slice_to {A} (k : nat) (l : list A) : py_slice None (Some (Z.of_nat k)) l = firstn k l.
Proof.
  unfold py_slice, py_norm. replace (Z.of_nat k <? 0)%Z with false by (symmetry; apply Z.ltb_ge; lia).
  cbn [Z.to_nat skipn]. rewrite Z.sub_0_r.
  destruct (Nat.le_gt_cases k (length l)) as [H|H].
  - rewrite Z.min_l by lia. rewrite Nat2Z.id. reflexivity.
  - rewrite Z.min_r by lia. rewrite Nat2Z.id. rewrite firstn_all. rewrite firstn_all2 by lia. reflexivity.
Qed.
Lemma py_insert_0 {A} (v : A) l : py_insert 0 v l = v :: l.
Proof. unfold py_insert, py_norm. cbn [Z.ltb Z.compare]. rewrite Z.min_l by lia. reflexivity. Qed.

Local Arguments nz_from : simpl never.
Local Arguments py_slice : simpl never.
Local Arguments py_insert : simpl never.
Local Arguments qmin_list : simpl never.
Local Arguments qmax_list : simpl never.
Local Arguments Intervals.flat : simpl never.
Local Arguments Qmax : simpl never.
Local Arguments Qmin : simpl never.
Local Arguments qltb : simpl never.
Local Arguments qleb : simpl never.
Local Arguments qeqb : simpl never.
Local Arguments Z.ltb !_ !_.
Local Arguments Z.leb !_ !_.
Local Arguments Z.eqb !_ !_.
Local Arguments Z.mul !_ !_.
Local Arguments Nat.eqb !_ !_.
Local Arguments Nat.ltb !_ !_.
Local Arguments Nat.leb !_ !_.
Local Arguments norm_idx !_ !_.
Local Arguments iv_sigs : simpl never.
Local Arguments get_col : simpl never.
Lemma get_item2_idx00 z r p1 p2 : get_item2 (VIdx (z :: r)) (VInt p1 0) (VInt p2 0) = OK (VInt false z).
Proof. reflexivity. Qed.
Local Arguments get_item2 : simpl never.
Lemma get_col_0 l : get_col (VMat l) 0 = OK (VArrQ (map fst l)). Proof. reflexivity. Qed.
Lemma get_col_1 l : get_col (VMat l) 1 = OK (VArrQ (map snd l)). Proof. reflexivity. Qed.


Definition ai_env (ivs : list (Q*Q)) (labv tminv tmaxv sl el fi li : val) : env :=
  [("intervals", VMat ivs); ("labels", labv); ("t_min", tminv); ("t_max", tmaxv); ("start_label", sl); ("end_label", el);
   ("first_idx", fi); ("last_idx", li)]%string.
Definition ai_min_stmt := nth 2 (f_body gen_adjust_intervals) SPass.
Definition ai_max_stmt := nth 3 (f_body gen_adjust_intervals) SPass.

Lemma nz_cases {A} (p : A -> bool) l :
  (find_idx p l = None /\ nz_from 0 (map p l) = []) \/
  (exists k r, find_idx p l = Some k /\ nz_from 0 (map p l) = Z.of_nat k :: r).
Proof.
  rewrite nz_from_find. destruct (find_idx p l) as [k|]; [right|left; split; reflexivity].
  eexists k, _. split; reflexivity.
Qed.

Ltac kill_unbound H := exfalso; apply H; reflexivity.
Ltac fin := rewrite ?app_nil_r, ?py_insert_0; reflexivity.
Lemma ai_min_block : forall ext ivs labs p a tmaxv sl el fi li, bound sl ->
  exec iv_sigs ext ai_min_stmt (ai_env ivs (lab_val true labs) (VFlt p (Fin a)) tmaxv sl el fi li)
  = match Intervals.step_min sl a ivs labs with
    | Ok (ivs', labs') => SNorm (ai_env ivs' (lab_val true labs') (VFlt p (Fin a)) tmaxv sl el
                                   (VIdx (nz_from 0 (map (fun i : Q * Q => qltb a (snd i)) ivs))) li)
    | Raise e => SExn e end.
Proof.
  intros ext ivs labs p a tmaxv sl el fi li Hsl. unfold Intervals.step_min.
  unfold ai_min_stmt. cbn. rewrite get_col_1. cbn. rewrite map_map.
  destruct (nz_cases (fun i : Q * Q => qltb a (snd i)) ivs) as [[Ef En]|(k & r & Ef & En)]; rewrite Ef, En; cbn.
  - destruct (qmin_list _) as [mn|] eqn:Em; cbn; [|reflexivity].
    destruct (qltb a mn); cbn; [rewrite Em; cbn|fin].
    destruct labs as [l|]; cbn; [|fin].
    destruct sl; try kill_unbound Hsl; cbn; fin.
  - destruct labs as [l|]; cbn; rewrite !get_item2_idx00; cbn; rewrite ?get_item2_idx00; cbn; rewrite !py_slice_from.
    + destruct (qmin_list _) as [mn|] eqn:Em; cbn; [|reflexivity].
      destruct (qltb a mn); cbn; [rewrite Em; cbn|fin].
      destruct sl; try kill_unbound Hsl; cbn; fin.
    + destruct (qmin_list _) as [mn|] eqn:Em; cbn; [|reflexivity].
      destruct (qltb a mn); cbn; [rewrite Em; cbn|]; fin.
Qed.

Lemma ai_max_block : forall ext ivs labs p b tminv sl el fi li, bound el ->
  exec iv_sigs ext ai_max_stmt (ai_env ivs (lab_val true labs) tminv (VFlt p (Fin b)) sl el fi li)
  = match Intervals.step_max el b ivs labs with
    | Ok (ivs', labs') => SNorm (ai_env ivs' (lab_val true labs') tminv (VFlt p (Fin b)) sl el fi
                                   (VIdx (nz_from 0 (map (fun i : Q * Q => Qle_bool b (fst i)) ivs))))
    | Raise e => SExn e end.
Proof.
  intros ext ivs labs p b tminv sl el fi li Hel. unfold Intervals.step_max.
  unfold ai_max_stmt. cbn. rewrite get_col_0. cbn. rewrite map_map. unfold qleb.
  destruct (nz_cases (fun i : Q * Q => Qle_bool b (fst i)) ivs) as [[Ef En]|(k & r & Ef & En)]; rewrite Ef, En; cbn.
  - destruct (qmax_list _) as [mx|] eqn:Em; cbn; [|reflexivity].
    destruct (qltb mx b); cbn; [rewrite Em; cbn|fin].
    destruct labs as [l|]; cbn; [|fin].
    destruct el; try kill_unbound Hel; cbn; fin.
  - destruct labs as [l|]; cbn; rewrite !get_item2_idx00; cbn; rewrite ?get_item2_idx00; cbn; rewrite !py_slice_to.
    + destruct (qmax_list _) as [mx|] eqn:Em; cbn; [|reflexivity].
      destruct (qltb mx b); cbn; [rewrite Em; cbn|fin].
      destruct el; try kill_unbound Hel; cbn; fin.
    + destruct (qmax_list _) as [mx|] eqn:Em; cbn; [|reflexivity].
      destruct (qltb mx b); cbn; [rewrite Em; cbn|]; fin.
Qed.
Lemma ai_min_none : forall ext ivs labv tmaxv sl el fi li,
  exec iv_sigs ext ai_min_stmt (ai_env ivs labv VNone tmaxv sl el fi li) = SNorm (ai_env ivs labv VNone tmaxv sl el fi li).
Proof. reflexivity. Qed.
Lemma ai_max_none : forall ext ivs labv tminv sl el fi li,
  exec iv_sigs ext ai_max_stmt (ai_env ivs labv tminv VNone sl el fi li) = SNorm (ai_env ivs labv tminv VNone sl el fi li).
Proof. intros. unfold ai_max_stmt. cbn. destruct tminv; reflexivity. Qed.

Definition ai_s0 := nth 0 (f_body gen_adjust_intervals) SPass.
Definition ai_s1 := nth 1 (f_body gen_adjust_intervals) SPass.
Definition ai_s4 := nth 4 (f_body gen_adjust_intervals) SPass.
Lemma ai_body : f_body gen_adjust_intervals = [ai_s0; ai_s1; ai_min_stmt; ai_max_stmt; ai_s4].
Proof. reflexivity. Qed.
Lemma ai_s0_run : forall ext ivs labs tminv tmaxv sl el fi li,
  exec iv_sigs ext ai_s0 (ai_env ivs (lab_val false labs) tminv tmaxv sl el fi li)
  = SNorm (ai_env ivs (lab_val true labs) tminv tmaxv sl el fi li).
Proof. intros. destruct labs; reflexivity. Qed.
Lemma ai_s1_run : forall ext ivs labv p1 p2 tmin tmax sl el fi li, bound sl ->
  exec iv_sigs ext ai_s1 (ai_env ivs labv (opt_flt p1 tmin) (opt_flt p2 tmax) sl el fi li)
  = match ivs, tmin, tmax with
    | [], Some a, Some b => SRet (VTup [VMat [(a, b)]; VList true [sl]])
    | [], _, _ => SExn ValueError
    | _, _, _ => SNorm (ai_env ivs labv (opt_flt p1 tmin) (opt_flt p2 tmax) sl el fi li)
    end.
Proof.
  intros ext ivs labv p1 p2 tmin tmax sl el fi li Hsl.
  destruct ivs as [|v t]; destruct tmin as [a|]; destruct tmax as [b|]; try reflexivity.
  destruct sl; try kill_unbound Hsl; reflexivity.
Qed.
Lemma ai_s4_run : forall ext ivs labs tminv tmaxv sl el fi li,
  exec iv_sigs ext ai_s4 (ai_env ivs (lab_val true labs) tminv tmaxv sl el fi li)
  = SRet (VTup [VMat ivs; lab_val true labs]).
Proof. intros. destruct labs; reflexivity. Qed.
Lemma run_block_cons f s r en :
  run_block f (s :: r) en = match f s en with SNorm en' => run_block f r en' | o => o end.
Proof. reflexivity. Qed.

Definition res_ai (r : res (list Intervals.iv * option (list val))) : out val :=
  match r with Ok (ivs, labs) => OK (VTup [VMat ivs; lab_val true labs]) | Raise e => EXN e end.


Definition fin_out (r : sres) : out val :=
  match r with SNorm _ => OK VNone | SRet v => OK v | SExn e => EXN e | SUnm => UNM end.
Lemma ai_tail : forall ext ivs labs tminv p2 tmax sl el fi li, bound el ->
  fin_out (run_block (exec iv_sigs ext) [ai_max_stmt; ai_s4] (ai_env ivs (lab_val true labs) tminv (opt_flt p2 tmax) sl el fi li))
  = res_ai (match tmax with Some b => Intervals.step_max el b ivs labs | None => Ok (ivs, labs) end).
Proof.
  intros ext ivs labs tminv p2 tmax sl el fi li Hel. rewrite run_block_cons. destruct tmax as [b|]; cbn [opt_flt].
  - rewrite ai_max_block by exact Hel. destruct (Intervals.step_max el b ivs labs) as [[ivs' labs']|e]; [|reflexivity].
    rewrite run_block_cons, ai_s4_run. reflexivity.
  - rewrite ai_max_none, run_block_cons, ai_s4_run. reflexivity.
Qed.
Theorem adjust_intervals_tie : forall ext ivs labs tmin tmax p1 p2 sl el, bound sl -> bound el ->
  run_fun iv_sigs ext gen_adjust_intervals [VMat ivs; lab_val false labs; opt_flt p1 tmin; opt_flt p2 tmax; sl; el]
  = res_ai (Intervals.adjust_intervals sl el ivs labs tmin tmax).
Proof.
  intros ext ivs labs tmin tmax p1 p2 sl el Hsl Hel.
  unfold run_fun, exec_block. rewrite ai_body.
  change (init_env gen_adjust_intervals [VMat ivs; lab_val false labs; opt_flt p1 tmin; opt_flt p2 tmax; sl; el])
    with (ai_env ivs (lab_val false labs) (opt_flt p1 tmin) (opt_flt p2 tmax) sl el VUnbound VUnbound).
  change (Nat.eqb _ _) with true. cbv iota.
  rewrite run_block_cons, ai_s0_run, run_block_cons, ai_s1_run by exact Hsl.
  unfold Intervals.adjust_intervals.
  destruct ivs as [|v t].
  { destruct tmin as [a|]; destruct tmax as [b|]; reflexivity. }
  set (ivs := v :: t). clearbody ivs. cbv iota.
  change (match ?r with SNorm _ => OK VNone | SRet v0 => OK v0 | SExn e => EXN e | SUnm => UNM end) with (fin_out r).
  rewrite run_block_cons. destruct tmin as [a|]; cbn [opt_flt].
  - rewrite ai_min_block by exact Hsl. destruct (Intervals.step_min sl a ivs labs) as [[ivs' labs']|e]; [|reflexivity].
    cbv beta iota. cbn [bind fst snd]. apply ai_tail; exact Hel.
  - rewrite ai_min_none. cbv beta iota. cbn [bind fst snd]. apply (ai_tail ext ivs labs VNone); exact Hel.
Qed.
Print Assumptions adjust_intervals_tie.

Local Arguments nz_from : simpl never.
Local Arguments py_slice : simpl never.
Local Arguments py_insert : simpl never.
Local Arguments qltb : simpl never.
Local Arguments qleb : simpl never.
Local Arguments qeqb : simpl never.
Local Arguments Z.ltb !_ !_.
Local Arguments Z.leb !_ !_.
Local Arguments Z.eqb !_ !_.
Local Arguments Z.mul !_ !_.
Local Arguments Nat.eqb !_ !_.
Local Arguments Nat.ltb !_ !_.
Local Arguments Nat.leb !_ !_.
Local Arguments norm_idx !_ !_.
Local Arguments iv_sigs : simpl never.
Local Arguments get_item2 : simpl never.
Local Arguments get_item : simpl never.
Local Arguments fmt_s : simpl never.

Definition T_MIN : str := [84; 95; 77; 73; 78]%nat.
Definition T_MAX : str := [84; 95; 77; 65; 88]%nat.
Lemma fmt_min p : fmt_s ([37; 115; 84; 95; 77; 73; 78])%nat (VStr p) = OK (VStr (p ++ T_MIN)).
Proof. reflexivity. Qed.
Lemma fmt_max p : fmt_s ([37; 115; 84; 95; 77; 65; 88])%nat (VStr p) = OK (VStr (p ++ T_MAX)).
Proof. reflexivity. Qed.
Lemma get_item_first l p : get_item (VArrQ l) (VInt p 0)
  = match l with [] => EXN IndexError | e0 :: _ => OK (VFlt false (Fin e0)) end.
Proof. destruct l; reflexivity. Qed.
Lemma get_item_last l p : get_item (VArrQ l) (VInt p (-1))
  = match l with [] => EXN IndexError | e0 :: _ => OK (VFlt false (Fin (last l e0))) end.
Proof.
  destruct l as [|e0 t]; [reflexivity|]. unfold get_item, norm_idx.
  replace (Pos.to_nat 1 <=? length (e0 :: t))%nat with true by (symmetry; apply Nat.leb_le; cbn [length]; lia).
  replace (length (e0 :: t) - Pos.to_nat 1)%nat with (length t) by (cbn [length]; lia).
  assert (D : forall (t : list Q) x d d', last (x :: t) d = last (x :: t) d').
  { clear. induction t as [|y t IH]; intros x d d'; [reflexivity|]. change (last (y :: t) d = last (y :: t) d'). apply IH. }
  assert (E : forall (t : list Q) e0, nth_error (e0 :: t) (length t) = Some (last (e0 :: t) e0)).
  { clear - D. induction t as [|x t IH]; intros e0; [reflexivity|]. cbn [length nth_error]. rewrite IH.
    f_equal. change (last (x :: t) x = last (x :: t) e0). apply D. }
  rewrite E. reflexivity.
Qed.

Definition ae_env (ev : list Q) (labv tminv tmaxv pre fi li : val) : env :=
  [("events", VArrQ ev); ("labels", labv); ("t_min", tminv); ("t_max", tmaxv); ("label_prefix", pre);
   ("first_idx", fi); ("last_idx", li)]%string.
Definition ae_s0 := nth 0 (f_body gen_adjust_events) SPass.
Definition ae_min_stmt := nth 1 (f_body gen_adjust_events) SPass.
Definition ae_max_stmt := nth 2 (f_body gen_adjust_events) SPass.
Definition ae_s3 := nth 3 (f_body gen_adjust_events) SPass.
Lemma ae_body : f_body gen_adjust_events = [ae_s0; ae_min_stmt; ae_max_stmt; ae_s3].
Proof. reflexivity. Qed.

Lemma ae_min_block : forall ext ev labs p a tmaxv pre fi li,
  exec iv_sigs ext ae_min_stmt (ae_env ev (lab_val true labs) (VFlt p (Fin a)) tmaxv (VStr pre) fi li)
  = match Intervals.ev_step_min (VStr (pre ++ T_MIN)) a ev labs with
    | Ok (ev', labs') => SNorm (ae_env ev' (lab_val true labs') (VFlt p (Fin a)) tmaxv (VStr pre)
                                  (VIdx (nz_from 0 (map (fun e : Q => Qle_bool a e) ev))) li)
    | Raise e => SExn e end.
Proof.
  intros ext ev labs p a tmaxv pre fi li. unfold Intervals.ev_step_min.
  unfold ae_min_stmt. cbn. unfold qleb.
  destruct (nz_cases (fun e : Q => Qle_bool a e) ev) as [[Ef En]|(k & r & Ef & En)]; rewrite Ef, En; cbn.
  - rewrite get_item_first. destruct ev as [|e0 t]; cbn; [reflexivity|].
    destruct (qltb a e0); cbn; [|fin].
    destruct labs as [l|]; cbn; [rewrite fmt_min; cbn|]; fin.
  - destruct labs as [l|]; cbn; rewrite !get_item2_idx00; cbn; rewrite ?get_item2_idx00; cbn; rewrite !py_slice_from;
      rewrite get_item_first; destruct (skipn k ev) as [|e0 t]; cbn; try reflexivity;
      (destruct (qltb a e0); cbn; [|fin]); [rewrite fmt_min; cbn|]; fin.
Qed.
Lemma ae_max_block : forall ext ev labs p b tminv pre fi li,
  exec iv_sigs ext ae_max_stmt (ae_env ev (lab_val true labs) tminv (VFlt p (Fin b)) (VStr pre) fi li)
  = match Intervals.ev_step_max (VStr (pre ++ T_MAX)) b ev labs with
    | Ok (ev', labs') => SNorm (ae_env ev' (lab_val true labs') tminv (VFlt p (Fin b)) (VStr pre) fi
                                  (VIdx (nz_from 0 (map (fun e : Q => qltb b e) ev))))
    | Raise e => SExn e end.
Proof.
  intros ext ev labs p b tminv pre fi li. unfold Intervals.ev_step_max.
  unfold ae_max_stmt. cbn.
  destruct (nz_cases (fun e : Q => qltb b e) ev) as [[Ef En]|(k & r & Ef & En)]; rewrite Ef, En; cbn.
  - rewrite get_item_last. destruct ev as [|e0 t]; [reflexivity|]. cbn [lift_e obind cmp_op xcmp qcmp truth].
    destruct (qltb (last (e0 :: t) e0) b); cbn; [|fin].
    destruct labs as [l|]; cbn; [rewrite fmt_max; cbn|]; fin.
  - destruct labs as [l|]; cbn; rewrite !get_item2_idx00; cbn; rewrite ?get_item2_idx00; cbn; rewrite !py_slice_to;
      rewrite get_item_last; destruct (firstn k ev) as [|e0 t]; try reflexivity; cbn [lift_e obind cmp_op xcmp qcmp truth];
      (destruct (qltb (last (e0 :: t) e0) b); cbn; [|fin]); [rewrite fmt_max; cbn|]; fin.
Qed.

Lemma ae_min_none : forall ext ev labv tmaxv pre fi li,
  exec iv_sigs ext ae_min_stmt (ae_env ev labv VNone tmaxv pre fi li) = SNorm (ae_env ev labv VNone tmaxv pre fi li).
Proof. reflexivity. Qed.
Lemma ae_max_none : forall ext ev labv tminv pre fi li,
  exec iv_sigs ext ae_max_stmt (ae_env ev labv tminv VNone pre fi li) = SNorm (ae_env ev labv tminv VNone pre fi li).
Proof. intros. unfold ae_max_stmt. cbn. destruct tminv; reflexivity. Qed.
Lemma ae_s0_run : forall ext ev labs tminv tmaxv pre fi li,
  exec iv_sigs ext ae_s0 (ae_env ev (lab_val false labs) tminv tmaxv pre fi li)
  = SNorm (ae_env ev (lab_val true labs) tminv tmaxv pre fi li).
Proof. intros. destruct labs; reflexivity. Qed.
Lemma ae_s3_run : forall ext ev labs tminv tmaxv pre fi li,
  exec iv_sigs ext ae_s3 (ae_env ev (lab_val true labs) tminv tmaxv pre fi li)
  = SRet (VTup [VArrQ ev; lab_val true labs]).
Proof. intros. destruct labs; reflexivity. Qed.
Definition res_ae (r : res (list Q * option (list val))) : out val :=
  match r with Ok (ev, labs) => OK (VTup [VArrQ ev; lab_val true labs]) | Raise e => EXN e end.
Lemma ae_tail : forall ext ev labs tminv p2 tmax pre fi li,
  fin_out (run_block (exec iv_sigs ext) [ae_max_stmt; ae_s3] (ae_env ev (lab_val true labs) tminv (opt_flt p2 tmax) (VStr pre) fi li))
  = res_ae (match tmax with Some b => Intervals.ev_step_max (VStr (pre ++ T_MAX)) b ev labs | None => Ok (ev, labs) end).
Proof.
  intros ext ev labs tminv p2 tmax pre fi li. rewrite run_block_cons. destruct tmax as [b|]; cbn [opt_flt].
  - rewrite ae_max_block. destruct (Intervals.ev_step_max _ b ev labs) as [[ev' labs']|e]; [|reflexivity].
    rewrite run_block_cons, ae_s3_run. reflexivity.
  - rewrite ae_max_none, run_block_cons, ae_s3_run. reflexivity.
Qed.

Theorem adjust_events_tie : forall ext ev labs tmin tmax p1 p2 pre,
  run_fun iv_sigs ext gen_adjust_events [VArrQ ev; lab_val false labs; opt_flt p1 tmin; opt_flt p2 tmax; VStr pre]
  = res_ae (Intervals.adjust_events (VStr (pre ++ T_MIN)) (VStr (pre ++ T_MAX)) ev labs tmin tmax).
Proof.
  intros ext ev labs tmin tmax p1 p2 pre.
  unfold run_fun, exec_block. rewrite ae_body.
  change (init_env gen_adjust_events [VArrQ ev; lab_val false labs; opt_flt p1 tmin; opt_flt p2 tmax; VStr pre])
    with (ae_env ev (lab_val false labs) (opt_flt p1 tmin) (opt_flt p2 tmax) (VStr pre) VUnbound VUnbound).
  change (Nat.eqb _ _) with true. cbv iota.
  change (match ?r with SNorm _ => OK VNone | SRet v0 => OK v0 | SExn e => EXN e | SUnm => UNM end) with (fin_out r).
  rewrite run_block_cons, ae_s0_run. cbv beta iota. unfold Intervals.adjust_events.
  rewrite run_block_cons. destruct tmin as [a|]; cbn [opt_flt].
  - rewrite ae_min_block. destruct (Intervals.ev_step_min _ a ev labs) as [[ev' labs']|e]; [|reflexivity].
    cbv beta iota. cbn [bind fst snd]. apply ae_tail.
  - rewrite ae_min_none. cbv beta iota. cbn [bind fst snd]. apply (ae_tail ext ev labs VNone).
Qed.
Print Assumptions adjust_events_tie.
