(* C19, part 2: the permutation search of bss_eval_sources / bss_eval_images.
   perms n enumerates exactly the permutations of 0..n-1; best_perm returns one of them, with maximal mean SIR, the
   first such in enumeration order; it follows a swap of two estimates (unique maximiser); a table whose diagonal
   dominates its columns gives the identity. *)
From Coq Require Import List Bool Arith ZArith QArith Lia Lqa Permutation.
From ME Require Import Model.Prelude Model.Separation.
Import ListNotations.
Open Scope Q_scope.

(* ------------------------------------------------------------------------------------------------------------ *)
(* enumeration                                                                                                   *)
(* ------------------------------------------------------------------------------------------------------------ *)
Lemma nth_map_lt {A B} (f : A -> B) l i d d' : (i < length l)%nat -> nth i (map f l) d = f (nth i l d').
Proof. revert i; induction l; intros [|i] H; cbn in *; try lia; auto. apply IHl; lia. Qed.

Lemma selects_sound : forall l x r, In (x, r) (selects l) -> Permutation l (x :: r).
Proof.
  induction l as [|y t IH]; intros x r H; cbn in H; [contradiction|].
  destruct H as [H|H]; [inversion H; subst; reflexivity|].
  apply in_map_iff in H as ([x' r'] & E & H). cbn in E. inversion E; subst.
  rewrite (IH _ _ H). apply perm_swap.
Qed.

Lemma selects_complete : forall l x, In x l -> exists r, In (x, r) (selects l).
Proof.
  induction l as [|y t IH]; intros x H; [contradiction|].
  destruct (Nat.eq_dec y x) as [->|N].
  - exists t. left; reflexivity.
  - destruct H as [H|H]; [contradiction|]. destruct (IH _ H) as (r & Hr).
    exists (y :: r). right. apply in_map_iff. exists (x, r). split; auto.
Qed.

Lemma perms_fuel_sound : forall f l p, length l = f -> In p (perms_fuel f l) -> Permutation p l.
Proof.
  induction f as [|f IH]; intros l p HL H; cbn in H.
  - destruct l; [|discriminate]. destruct H as [<-|[]]. constructor.
  - apply in_flat_map in H as ([x r] & Hs & H). cbn in H.
    apply in_map_iff in H as (p' & <- & Hp').
    pose proof (selects_sound _ _ _ Hs) as P.
    assert (length r = f) by (apply Permutation_length in P; cbn in P; lia).
    rewrite P. constructor. apply IH; auto.
Qed.

Lemma perms_fuel_complete : forall f l p, length l = f -> Permutation p l -> In p (perms_fuel f l).
Proof.
  induction f as [|f IH]; intros l p HL P; cbn.
  - destruct l; [|discriminate]. apply Permutation_sym, Permutation_nil in P. subst. left; reflexivity.
  - destruct p as [|x p'].
    { apply Permutation_length in P. cbn in P. lia. }
    assert (Hx : In x l) by (eapply Permutation_in; [exact P | left; reflexivity]).
    destruct (selects_complete _ _ Hx) as (r & Hr).
    pose proof (selects_sound _ _ _ Hr) as P2.
    apply in_flat_map. exists (x, r). split; auto. cbn.
    apply in_map. apply IH.
    + apply Permutation_length in P2. cbn in P2. lia.
    + eapply Permutation_cons_inv. rewrite <- P2. exact P.
Qed.

(* every enumerated list is a permutation of 0..n-1 *)
Theorem perms_sound : forall n p, In p (perms n) -> Permutation p (seq 0 n).
Proof. intros n p H. apply (perms_fuel_sound n); auto. apply seq_length. Qed.

(* every permutation of 0..n-1 is enumerated *)
Theorem perms_complete : forall n p, Permutation p (seq 0 n) -> In p (perms n).
Proof. intros n p H. apply perms_fuel_complete; auto. apply seq_length. Qed.

(* the enumeration is Python's: itertools.permutations(range(3)) *)
Example perms_3 : perms 3 = [[0; 1; 2]; [0; 2; 1]; [1; 0; 2]; [1; 2; 0]; [2; 0; 1]; [2; 1; 0]]%nat.
Proof. reflexivity. Qed.
Example perms_0 : perms 0 = [[]].
Proof. reflexivity. Qed.

Lemma perms_identity_in n : In (seq 0 n) (perms n).
Proof. apply perms_complete. reflexivity. Qed.

Lemma perm_facts n p : In p (perms n) -> length p = n /\ (forall j, (j < n)%nat -> (nth j p 0 < n)%nat).
Proof.
  intros H. apply perms_sound in H. split.
  - apply Permutation_length in H. now rewrite seq_length in H.
  - intros j Hj. assert (L : length p = n) by (apply Permutation_length in H; now rewrite seq_length in H).
    assert (I : In (nth j p 0%nat) (seq 0 n)) by (eapply Permutation_in; [exact H | apply nth_In; lia]).
    apply in_seq in I. lia.
Qed.

(* ------------------------------------------------------------------------------------------------------------ *)
(* argmax = first maximum                                                                                        *)
(* ------------------------------------------------------------------------------------------------------------ *)
Lemma qltb_true a b : qltb a b = true <-> a < b.
Proof.
  unfold qltb. rewrite negb_true_iff. split; intros H.
  - apply Qnot_le_lt. intros C. apply Qle_bool_iff in C. congruence.
  - destruct (Qle_bool b a) eqn:E; auto. apply Qle_bool_iff in E. lra.
Qed.
Lemma qltb_false a b : qltb a b = false <-> b <= a.
Proof.
  unfold qltb. rewrite negb_false_iff. apply Qle_bool_iff.
Qed.

Lemma argmax_from_spec : forall l pre besti best i,
  length pre = i -> (besti < i)%nat -> nth besti (pre ++ l) 0 = best ->
  (forall k, (k < i)%nat -> nth k (pre ++ l) 0 <= best) ->
  (forall k, (k < besti)%nat -> nth k (pre ++ l) 0 < best) ->
  let r := argmax_from besti best i l in
  (r < length (pre ++ l))%nat /\
  (forall k, (k < length (pre ++ l))%nat -> nth k (pre ++ l) 0 <= nth r (pre ++ l) 0) /\
  (forall k, (k < r)%nat -> nth k (pre ++ l) 0 < nth r (pre ++ l) 0).
Proof.
  induction l as [|x t IH]; intros pre besti best i HL Hb Hn Hle Hlt; cbn [argmax_from].
  - rewrite app_nil_r in *. cbn zeta. rewrite Hn. repeat split; auto; try lia.
    intros k Hk. apply Hle. lia.
  - assert (E : pre ++ x :: t = (pre ++ [x]) ++ t) by (rewrite <- app_assoc; reflexivity).
    assert (Hx : nth i (pre ++ x :: t) 0 = x) by (rewrite app_nth2 by lia; rewrite HL, Nat.sub_diag; reflexivity).
    destruct (qltb best x) eqn:Q.
    + apply qltb_true in Q. rewrite E. apply IH.
      * rewrite app_length; cbn; lia.
      * lia.
      * rewrite <- E. exact Hx.
      * rewrite <- E. intros k Hk. destruct (Nat.eq_dec k i) as [->|N]; [rewrite Hx; lra|].
        specialize (Hle k ltac:(lia)). lra.
      * rewrite <- E. intros k Hk. specialize (Hle k Hk). lra.
    + apply qltb_false in Q. rewrite E. apply IH.
      * rewrite app_length; cbn; lia.
      * lia.
      * rewrite <- E. exact Hn.
      * rewrite <- E. intros k Hk. destruct (Nat.eq_dec k i) as [->|N]; [rewrite Hx; lra|].
        apply Hle. lia.
      * rewrite <- E. exact Hlt.
Qed.

Lemma argmax_spec l r : argmax l = Ok r ->
  (r < length l)%nat /\ (forall k, (k < length l)%nat -> nth k l 0 <= nth r l 0) /\
  (forall k, (k < r)%nat -> nth k l 0 < nth r l 0).
Proof.
  destruct l as [|x t]; [discriminate|]. cbn [argmax]. intros H; inversion H; clear H.
  change (x :: t) with ([x] ++ t).
  apply (argmax_from_spec t [x] 0%nat x 1%nat); auto.
  - intros k Hk. assert (k = 0%nat) by lia. subst. cbn. lra.
  - intros k Hk. lia.
Qed.
Lemma argmax_ok l : l <> [] -> exists r, argmax l = Ok r.
Proof. destruct l; [congruence|]. eexists; reflexivity. Qed.

(* ------------------------------------------------------------------------------------------------------------ *)
(* best_perm                                                                                                     *)
(* ------------------------------------------------------------------------------------------------------------ *)
Lemma best_perm_inv sir n p : best_perm sir n = Ok p ->
  exists i, argmax (map (mean_sir sir n) (perms n)) = Ok i /\ nth_error (perms n) i = Some p.
Proof.
  unfold best_perm. destruct (argmax _) as [i|e] eqn:A; cbn; [|discriminate].
  destruct (nth_error (perms n) i) eqn:N; [|discriminate]. intros H; inversion H; subst. eauto.
Qed.

(* the search never fails *)
Theorem best_perm_ok : forall sir n, exists p, best_perm sir n = Ok p.
Proof.
  intros sir n. unfold best_perm.
  destruct (argmax_ok (map (mean_sir sir n) (perms n))) as (i & Hi).
  { intros C. apply map_eq_nil in C. pose proof (perms_identity_in n) as I. rewrite C in I. contradiction. }
  rewrite Hi. cbn. apply argmax_spec in Hi as (Hlt & _). rewrite map_length in Hlt.
  destruct (nth_error (perms n) i) eqn:N; eauto. apply nth_error_None in N. lia.
Qed.

Lemma best_perm_in sir n p : best_perm sir n = Ok p -> In p (perms n).
Proof. intros H. apply best_perm_inv in H as (i & _ & N). eapply nth_error_In; eauto. Qed.

(* the result is a permutation of 0..n-1 *)
Theorem best_perm_is_perm : forall sir n p, best_perm sir n = Ok p -> Permutation p (seq 0 n).
Proof. intros. apply perms_sound. eapply best_perm_in; eauto. Qed.

Lemma nth_map_mean sir n k : (k < length (perms n))%nat ->
  nth k (map (mean_sir sir n) (perms n)) 0 = mean_sir sir n (nth k (perms n) []).
Proof. intros H. now apply nth_map_lt. Qed.

(* no permutation has a larger mean SIR *)
Theorem best_perm_maximises : forall sir n p, best_perm sir n = Ok p ->
  forall q, Permutation q (seq 0 n) -> mean_sir sir n q <= mean_sir sir n p.
Proof.
  intros sir n p H q Hq. apply perms_complete in Hq.
  apply best_perm_inv in H as (i & A & N). apply argmax_spec in A as (Hi & Hmax & _).
  rewrite map_length in *.
  apply In_nth with (d := []) in Hq as (k & Hk & <-).
  specialize (Hmax k Hk). rewrite !nth_map_mean in Hmax by auto.
  rewrite (nth_error_nth _ _ [] N) in Hmax. exact Hmax.
Qed.

(* ties: the first maximiser in enumeration order is returned *)
Theorem best_perm_first_max : forall sir n p, best_perm sir n = Ok p ->
  exists i, nth_error (perms n) i = Some p /\
    forall k q, (k < i)%nat -> nth_error (perms n) k = Some q -> mean_sir sir n q < mean_sir sir n p.
Proof.
  intros sir n p H. apply best_perm_inv in H as (i & A & N). exists i; split; auto.
  apply argmax_spec in A as (Hi & _ & Hfirst). rewrite map_length in *.
  intros k q Hk Nk. specialize (Hfirst k Hk). rewrite !nth_map_mean in Hfirst by lia.
  rewrite (nth_error_nth _ _ [] N), (nth_error_nth _ _ [] Nk) in Hfirst. exact Hfirst.
Qed.

(* compute_permutation = False: the identity *)
Lemma bss_eval_gen_no_perm nmet six n crit r p :
  bss_eval_gen nmet six n crit false = Ok (r, p) -> p = seq 0 n.
Proof.
  unfold bss_eval_gen. destruct (mapM _ _); cbn; [|discriminate]. intros H; inversion H; auto.
Qed.
Lemma bss_eval_gen_perm nmet six n crit r p :
  bss_eval_gen nmet six n crit true = Ok (r, p) -> Permutation p (seq 0 n) /\ length r = nmet.
Proof.
  unfold bss_eval_gen. destruct (mapM _ _) as [t|]; cbn; [|discriminate].
  destruct (best_perm _ n) as [q|] eqn:B; cbn; [|discriminate]. intros H; inversion H; subst.
  split; [eapply best_perm_is_perm; eauto | now rewrite map_length, seq_length].
Qed.

(* ------------------------------------------------------------------------------------------------------------ *)
(* equivariance under a swap of two estimates                                                                    *)
(* ------------------------------------------------------------------------------------------------------------ *)
Lemma swapi_invol a b i : swapi a b (swapi a b i) = i.
Proof.
  unfold swapi. destruct (i =? a)%nat eqn:E1; destruct (i =? b)%nat eqn:E2;
    repeat match goal with H : (_ =? _)%nat = true |- _ => apply Nat.eqb_eq in H
                         | H : (_ =? _)%nat = false |- _ => apply Nat.eqb_neq in H end; subst;
    rewrite ?Nat.eqb_refl; auto.
  - destruct (b =? a)%nat eqn:E; auto. apply Nat.eqb_eq in E; auto.
  - destruct (i =? a)%nat eqn:E3; [apply Nat.eqb_eq in E3; congruence|].
    destruct (i =? b)%nat eqn:E4; [apply Nat.eqb_eq in E4; congruence|]. reflexivity.
Qed.
Lemma swapi_lt a b n i : (a < n)%nat -> (b < n)%nat -> (i < n)%nat -> (swapi a b i < n)%nat.
Proof. unfold swapi; intros. destruct (i =? a)%nat; [lia|]. destruct (i =? b)%nat; lia. Qed.
Lemma map_swapi_invol a b p : map (swapi a b) (map (swapi a b) p) = p.
Proof. rewrite map_map. rewrite <- (map_id p) at 2. apply map_ext. apply swapi_invol. Qed.

Lemma swapi_perm_seq a b n : (a < n)%nat -> (b < n)%nat -> Permutation (map (swapi a b) (seq 0 n)) (seq 0 n).
Proof.
  intros Ha Hb. apply NoDup_Permutation_bis.
  - apply FinFun.Injective_map_NoDup; [|apply seq_NoDup].
    intros x y E. rewrite <- (swapi_invol a b x), <- (swapi_invol a b y). now rewrite E.
  - rewrite map_length. lia.
  - intros x Hx. apply in_map_iff in Hx as (y & <- & Hy). apply in_seq in Hy. apply in_seq.
    pose proof (swapi_lt a b n y Ha Hb). lia.
Qed.

Lemma map_swapi_in_perms a b n p : (a < n)%nat -> (b < n)%nat -> In p (perms n) -> In (map (swapi a b) p) (perms n).
Proof.
  intros Ha Hb H. apply perms_complete. apply perms_sound in H.
  rewrite (Permutation_map (swapi a b) H). apply swapi_perm_seq; auto.
Qed.

Lemma swap_rows_nth a b sir i : (a < length sir)%nat -> (b < length sir)%nat -> (i < length sir)%nat ->
  nth i (swap_rows a b sir) [] = nth (swapi a b i) sir [].
Proof.
  intros Ha Hb Hi. unfold swap_rows.
  rewrite (nth_map_lt _ _ _ _ 0%nat) by (now rewrite seq_length).
  rewrite seq_nth by auto. reflexivity.
Qed.

Lemma mean_swap a b n sir r : (a < n)%nat -> (b < n)%nat -> (n <= length sir)%nat ->
  length r = n -> (forall j, (j < n)%nat -> (nth j r 0 < n)%nat) ->
  mean_sir (swap_rows a b sir) n r = mean_sir sir n (map (swapi a b) r).
Proof.
  intros Ha Hb Hn HL Hr. unfold mean_sir, select_perm. f_equal. f_equal.
  apply map_ext_in. intros j Hj. apply in_seq in Hj. unfold sir_at.
  rewrite swap_rows_nth by (try lia; specialize (Hr j ltac:(lia)); lia).
  rewrite (nth_map_lt _ _ _ _ 0%nat) by lia. reflexivity.
Qed.

(* Reordering the estimates (estimate i of the new problem = estimate swapi a b i of the old one, i.e. rows a and b of
   the SIR table exchanged) reorders the answer accordingly, when the maximiser is unique. *)
Theorem best_perm_equivariant : forall sir n a b p,
  (a < n)%nat -> (b < n)%nat -> (n <= length sir)%nat ->
  best_perm sir n = Ok p ->
  (forall q, In q (perms n) -> q <> p -> mean_sir sir n q < mean_sir sir n p) ->
  best_perm (swap_rows a b sir) n = Ok (map (swapi a b) p).
Proof.
  intros sir n a b p Ha Hb Hn Hp Huniq.
  destruct (best_perm_ok (swap_rows a b sir) n) as (p' & Hp'). rewrite Hp'. f_equal.
  pose proof (best_perm_in _ _ _ Hp) as Ip. pose proof (best_perm_in _ _ _ Hp') as Ip'.
  destruct (perm_facts _ _ Ip) as (Lp & Fp). destruct (perm_facts _ _ Ip') as (Lp' & Fp').
  set (q := map (swapi a b) p').
  assert (Iq : In q (perms n)) by (apply map_swapi_in_perms; auto).
  assert (Isp : In (map (swapi a b) p) (perms n)) by (apply map_swapi_in_perms; auto).
  destruct (perm_facts _ _ Isp) as (Lsp & Fsp).
  assert (E1 : mean_sir (swap_rows a b sir) n p' = mean_sir sir n q) by (apply mean_swap; auto).
  assert (E2 : mean_sir (swap_rows a b sir) n (map (swapi a b) p) = mean_sir sir n p).
  { rewrite mean_swap; auto. now rewrite map_swapi_invol. }
  pose proof (best_perm_maximises _ _ _ Hp' _ (perms_sound _ _ Isp)) as M. rewrite E1, E2 in M.
  destruct (list_eq_dec Nat.eq_dec q p) as [E|N].
  - unfold q in E. rewrite <- E. now rewrite map_swapi_invol.
  - specialize (Huniq q Iq N). lra.
Qed.

Example best_perm_equivariant_example :
  let sir := [[1; 5]; [7; 2]] in
  best_perm sir 2 = Ok [1; 0]%nat /\ best_perm (swap_rows 0 1 sir) 2 = Ok [0; 1]%nat.
Proof. split; reflexivity. Qed.

(* ------------------------------------------------------------------------------------------------------------ *)
(* a dominant diagonal gives the identity                                                                        *)
(* ------------------------------------------------------------------------------------------------------------ *)
Lemma qsum_map_le (f g : nat -> Q) l : (forall j, In j l -> f j <= g j) -> qsum (map f l) <= qsum (map g l).
Proof.
  unfold qsum. induction l; cbn [map fold_right]; intros H; [lra|].
  specialize (IHl (fun j Hj => H j (or_intror Hj))). specialize (H a (or_introl eq_refl)). lra.
Qed.
Lemma qsum_map_lt (f g : nat -> Q) l : (forall j, In j l -> f j <= g j) -> (exists j, In j l /\ f j < g j) ->
  qsum (map f l) < qsum (map g l).
Proof.
  induction l; intros H (j & Hj & Hlt); [contradiction|].
  pose proof (qsum_map_le f g l (fun j Hj => H j (or_intror Hj))) as Hle.
  unfold qsum in *. cbn [map fold_right].
  destruct Hj as [->|Hj].
  - lra.
  - specialize (IHl (fun j Hj => H j (or_intror Hj)) (ex_intro _ j (conj Hj Hlt))).
    specialize (H a (or_introl eq_refl)). lra.
Qed.

Lemma differs_somewhere n p : length p = n -> p <> seq 0 n -> exists j, (j < n)%nat /\ nth j p 0%nat <> j.
Proof.
  intros HL HN.
  destruct (forallb (fun j => nth j p 0 =? j)%nat (seq 0 n)) eqn:F.
  - exfalso. apply HN. rewrite forallb_forall in F.
    apply (nth_ext _ _ 0%nat 0%nat); [now rewrite seq_length|].
    intros j Hj. rewrite HL in Hj. rewrite seq_nth by auto. cbn.
    apply Nat.eqb_eq. apply F. apply in_seq. lia.
  - assert (X : existsb (fun j => negb (nth j p 0 =? j)%nat) (seq 0 n) = true).
    { clear -F. induction (seq 0 n); cbn in *; [discriminate|].
      destruct (nth a p 0 =? a)%nat; cbn in *; auto. }
    apply existsb_exists in X as (j & Hj & Hne). apply in_seq in Hj. apply negb_true_iff, Nat.eqb_neq in Hne.
    exists j; split; auto; lia.
Qed.

Lemma select_identity sir n : select_perm sir n (seq 0 n) = map (fun j => sir_at sir j j) (seq 0 n).
Proof. unfold select_perm. apply map_ext_in. intros j Hj. apply in_seq in Hj. rewrite seq_nth by lia. reflexivity. Qed.

(* The "perfect estimate" case at the logic level: if every diagonal entry strictly exceeds the other entries of its
   column (estimate j is strictly the best one for reference j), the identity is returned.  (Dominance in the rows is
   not needed.) *)
Theorem identity_when_diagonal_dominates : forall sir n,
  (forall i j, (i < n)%nat -> (j < n)%nat -> i <> j -> sir_at sir i j < sir_at sir j j) ->
  best_perm sir n = Ok (seq 0 n).
Proof.
  intros sir n Hdom. destruct (best_perm_ok sir n) as (p & Hp). rewrite Hp. f_equal.
  destruct (list_eq_dec Nat.eq_dec p (seq 0 n)) as [E|N]; auto. exfalso.
  pose proof (best_perm_in _ _ _ Hp) as Ip. destruct (perm_facts _ _ Ip) as (Lp & Fp).
  destruct (differs_somewhere n p Lp N) as (j0 & Hj0 & Hne).
  assert (Hn : (0 < n)%nat) by lia.
  pose proof (best_perm_maximises _ _ _ Hp (seq 0 n) (Permutation_refl _)) as M.
  assert (S : qsum (select_perm sir n p) < qsum (select_perm sir n (seq 0 n))).
  { rewrite select_identity. unfold select_perm. apply qsum_map_lt.
    - intros j Hj. apply in_seq in Hj. destruct (Nat.eq_dec (nth j p 0%nat) j) as [->|D]; [lra|].
      apply Qlt_le_weak. apply Hdom; auto; try lia. apply Fp; lia.
    - exists j0. split; [apply in_seq; lia|]. apply Hdom; auto. }
  unfold mean_sir in M.
  assert (P : 0 < inject_Z (Z.of_nat n)).
  { change 0 with (inject_Z 0). rewrite <- Zlt_Qlt. lia. }
  apply (Qmult_lt_compat_r _ _ (/ inject_Z (Z.of_nat n))) in S; [|now apply Qinv_lt_0_compat].
  unfold Qdiv in M. lra.
Qed.

Example identity_when_diagonal_dominates_example :
  let sir := [[9; 1; 8]; [2; 7; 0]; [3; 6; 10]] in
  (forall i j, (i < 3)%nat -> (j < 3)%nat -> i <> j -> sir_at sir i j < sir_at sir j j) /\ best_perm sir 3 = Ok [0; 1; 2]%nat.
Proof.
  cbn zeta. split; [|reflexivity].
  intros i j Hi Hj N.
  destruct i as [|[|[|i]]]; destruct j as [|[|[|j]]]; try lia; cbn; reflexivity.
Qed.

(* ------------------------------------------------------------------------------------------------------------ *)
(* the enumeration order is Python's: itertools.permutations of a sorted input yields the permutations in          *)
(* strictly increasing lexicographic order; together with perms_sound / perms_complete this determines `perms n`.  *)
(* ------------------------------------------------------------------------------------------------------------ *)
From Coq Require Import Sorted.

Inductive lex_lt : list nat -> list nat -> Prop :=
| lex_nil : forall y l, lex_lt [] (y :: l)
| lex_head : forall x y l l', (x < y)%nat -> lex_lt (x :: l) (y :: l')
| lex_tail : forall x l l', lex_lt l l' -> lex_lt (x :: l) (x :: l').

Lemma StronglySorted_app {A} (R : A -> A -> Prop) l1 l2 :
  StronglySorted R l1 -> StronglySorted R l2 -> (forall a b, In a l1 -> In b l2 -> R a b) -> StronglySorted R (l1 ++ l2).
Proof.
  induction l1 as [|x l1 IH]; intros S1 S2 H; cbn; auto.
  inversion S1; subst. constructor.
  - apply IH; auto. intros a b Ha Hb. apply H; auto. now right.
  - apply Forall_app. split; auto. apply Forall_forall. intros b Hb. apply H; auto. now left.
Qed.

Lemma StronglySorted_map {A B} (RA : A -> A -> Prop) (RB : B -> B -> Prop) (g : A -> B) l :
  (forall a a', RA a a' -> RB (g a) (g a')) -> StronglySorted RA l -> StronglySorted RB (map g l).
Proof.
  intros Hg. induction 1; cbn; constructor; auto.
  apply Forall_forall. intros b Hb. apply in_map_iff in Hb as (a' & <- & Ha'). apply Hg.
  rewrite Forall_forall in H0. auto.
Qed.

Lemma flat_map_sorted {A B} (RA : A -> A -> Prop) (RB : B -> B -> Prop) (g : A -> list B) L :
  StronglySorted RA L -> (forall a, In a L -> StronglySorted RB (g a)) ->
  (forall a a' b b', RA a a' -> In b (g a) -> In b' (g a') -> RB b b') -> StronglySorted RB (flat_map g L).
Proof.
  intros HS Hg Hc. induction HS as [|a L HS IH HF]; cbn; [constructor|].
  apply StronglySorted_app.
  - apply Hg. now left.
  - apply IH. intros a' Ha'. apply Hg. now right.
  - intros b b' Hb Hb'. apply in_flat_map in Hb' as (a' & Ha' & Hb'). rewrite Forall_forall in HF.
    eapply Hc; eauto.
Qed.

Lemma selects_sorted : forall l, StronglySorted lt l ->
  StronglySorted (fun p q => (fst p < fst q)%nat) (selects l) /\
  forall y r, In (y, r) (selects l) -> StronglySorted lt r.
Proof.
  induction l as [|x t IH]; intros HS; cbn; [split; [constructor | intros ? ? []]|].
  inversion HS as [|? ? HSt HF]; subst. destruct (IH HSt) as (IH1 & IH2). split.
  - constructor.
    + apply (StronglySorted_map (fun p q => (fst p < fst q)%nat)); auto.
    + apply Forall_forall. intros q Hq. apply in_map_iff in Hq as ([y r] & <- & Hq). cbn.
      apply selects_sound in Hq. rewrite Forall_forall in HF. apply HF.
      eapply Permutation_in; [symmetry; exact Hq | now left].
  - intros y r [E|H].
    + inversion E; subst; auto.
    + apply in_map_iff in H as ([y' r'] & E & H). cbn in E. inversion E; subst.
      constructor; [eapply IH2; eauto|].
      apply selects_sound in H. rewrite Forall_forall in *. intros z Hz. apply HF.
      eapply Permutation_in; [symmetry; exact H | now right].
Qed.

Lemma perms_fuel_sorted : forall f l, length l = f -> StronglySorted lt l -> StronglySorted lex_lt (perms_fuel f l).
Proof.
  induction f as [|f IH]; intros l HL HS; cbn; [repeat constructor|].
  destruct (selects_sorted l HS) as (S1 & S2).
  apply (flat_map_sorted (fun p q => (fst p < fst q)%nat)); auto.
  - intros [y r] Ha. cbn. apply (StronglySorted_map lex_lt); [intros; now apply lex_tail|].
    apply IH; [|eapply S2; eauto].
    apply selects_sound, Permutation_length in Ha. cbn in Ha. lia.
  - intros [y r] [y' r'] b b' Hlt Hb Hb'. cbn in *.
    apply in_map_iff in Hb as (? & <- & _). apply in_map_iff in Hb' as (? & <- & _). now apply lex_head.
Qed.

Lemma seq_sorted : forall n a, StronglySorted lt (seq a n).
Proof.
  induction n; intros a; cbn; constructor; auto.
  apply Forall_forall. intros x Hx. apply in_seq in Hx. lia.
Qed.

Theorem perms_lex_sorted : forall n, StronglySorted lex_lt (perms n).
Proof. intros n. apply perms_fuel_sorted; [apply seq_length | apply seq_sorted]. Qed.
