(* Termination of the fuelled model of util._bipartite_match within its fuel:
   bipartite_match g is never None (for a graph with distinct keys, i.e. a Python dict).
   1. recurse: a call with fuel > |preds| succeeds whenever an alternating path back to a Free
      left vertex is still intact (DFS argument, purely structural), and is fuel-independent;
   2. layering: every continuing iteration inserts a new left vertex of g into pred, so
      S |g| iterations suffice; on exit every vertex of unmatched has an intact path;
   3. phases: a continuing phase strictly increases |m|, and |m| <= |g|. *)
From Coq Require Import List Arith Bool Lia.
From ME Require Import Model.Dict Model.Matching Proofs.HKRecurse Proofs.HKLayering Proofs.HKCorrect.
Import ListNotations.

(* ------------------------------------------------------------------ *)
(* generic facts                                                       *)
(* ------------------------------------------------------------------ *)
Lemma ddel_length_le {V} (d : dict V) k : length (ddel d k) <= length d.
Proof. induction d as [|[k' x] t IH]; simpl; [lia|]. destruct (Nat.eqb k k'); simpl; lia. Qed.
Lemma ddel_length_lt {V} (d : dict V) k x : dget d k = Some x -> length (ddel d k) < length d.
Proof. induction d as [|[k' y] t IH]; simpl; [discriminate|]. destruct (Nat.eqb k k').
  - intros _. pose proof (ddel_length_le t k). lia.
  - intros H. simpl. apply IH in H. lia. Qed.
Lemma sub_dset_new {V} (d : dict V) k x : dget d k = None -> sub d (dset d k x).
Proof. intros Hn k' y H. destruct (Nat.eq_dec k' k) as [->|N]; [congruence| now rewrite dget_dset_other]. Qed.
Lemma sub_isin {V} (d d' : dict V) k : sub d d' -> isin d k -> isin d' k.
Proof. unfold isin. intros S H. destruct (dget d k) eqn:E; [apply S in E; congruence|congruence]. Qed.
Lemma isin_dset_inv {V} (d : dict V) k x k' : isin (dset d k x) k' -> k' = k \/ isin d k'.
Proof. unfold isin. destruct (Nat.eq_dec k' k) as [->|N]; [now left| rewrite dget_dset_other by auto; now right]. Qed.
Lemma not_isin_none {V} (d : dict V) k : ~ isin d k -> dget d k = None.
Proof. unfold isin. destruct (dget d k); [intros H; exfalso; apply H; congruence|reflexivity]. Qed.
Lemma filter_length_le {A} (p q : A -> bool) l :
  (forall x, In x l -> q x = true -> p x = true) -> length (filter q l) <= length (filter p l).
Proof. induction l as [|x t IH]; simpl; intros H; [lia|].
  assert (IH' := IH (fun y Hy => H y (or_intror Hy))). pose proof (H x (or_introl eq_refl)) as Hx.
  destruct (q x); simpl; [rewrite Hx by reflexivity; simpl; lia| destruct (p x); simpl; lia]. Qed.
Lemma filter_length_lt {A} (p q : A -> bool) l x0 :
  (forall x, In x l -> q x = true -> p x = true) -> In x0 l -> p x0 = true -> q x0 = false ->
  length (filter q l) < length (filter p l).
Proof. induction l as [|x t IH]; simpl; intros H Hin Hp Hq; [destruct Hin|].
  assert (Hle := filter_length_le p q t (fun y Hy => H y (or_intror Hy))).
  pose proof (H x (or_introl eq_refl)) as Hx. destruct Hin as [->|Hin].
  - rewrite Hp, Hq. simpl. lia.
  - assert (IH' := IH (fun y Hy => H y (or_intror Hy)) Hin Hp Hq).
    destruct (q x); simpl; [rewrite Hx by reflexivity; simpl; lia| destruct (p x); simpl; lia]. Qed.

(* ------------------------------------------------------------------ *)
(* 1. recurse                                                           *)
(* ------------------------------------------------------------------ *)
(* gU preds pred u: from the left vertex u an alternating path  u -pred-> w -preds-> u' ... back to a
   Free left vertex is intact in the current (preds, pred).  gV: the same from a right vertex. *)
Inductive gU (preds : dict (list nat)) (pred : dict pu) : nat -> Prop :=
| gFree u : dget pred u = Some Free -> gU preds pred u
| gVia u w L u' : dget pred u = Some (Via w) -> dget preds w = Some L -> In u' L -> gU preds pred u' -> gU preds pred u.
Definition gV preds pred v := exists L u, dget preds v = Some L /\ In u L /\ gU preds pred u.

Lemma gU_mono preds pred preds' pred' u : sub preds preds' -> sub pred pred' -> gU preds pred u -> gU preds' pred' u.
Proof. intros S1 S2 H. induction H as [u H|u w L u' H1 H2 H3 _ IH]; [apply gFree; auto| eapply gVia; eauto]. Qed.
Lemma gV_mono preds pred preds' pred' v : sub preds preds' -> sub pred pred' -> gV preds pred v -> gV preds' pred' v.
Proof. intros S1 S2 (L & u & H1 & H2 & H3). exists L, u. repeat split; auto. eapply gU_mono; eauto. Qed.
Lemma gU_isin preds pred u : gU preds pred u -> isin pred u.
Proof. unfold isin. intros [u' H|u' w L u'' H _ _ _]; congruence. Qed.

(* deleting the left vertex u (whose pointer is w): every intact path survives, or w itself still has one *)
Lemma gU_del_u preds pred u w x : dget pred u = Some (Via w) -> gU preds pred x ->
  gU preds (ddel pred u) x \/ gV preds (ddel pred u) w.
Proof. intros Hu H. induction H as [x H|x w0 L u' H1 H2 H3 _ IH].
  - left. apply gFree. rewrite dget_ddel_other; [exact H|congruence].
  - destruct IH as [IH|IH]; [|now right]. destruct (Nat.eq_dec x u) as [->|N].
    + right. assert (w0 = w) by congruence. subst w0. exists L, u'. auto.
    + left. eapply gVia; eauto. now rewrite dget_ddel_other. Qed.
(* deleting the right vertex v (whose list is L): every intact path survives, or some u in L still has one *)
Lemma gU_del_v preds pred v L x : dget preds v = Some L -> gU preds pred x ->
  gU (ddel preds v) pred x \/ exists u, In u L /\ gU (ddel preds v) pred u.
Proof. intros Hv H. induction H as [x H|x w0 L0 u' H1 H2 H3 _ IH].
  - left. now apply gFree.
  - destruct IH as [IH|IH]; [|now right]. destruct (Nat.eq_dec w0 v) as [->|N].
    + right. assert (L0 = L) by congruence. subst L0. exists u'. auto.
    + left. eapply gVia; eauto. now rewrite dget_ddel_other. Qed.

Definition st_preds (st : state) := fst (fst st).
Definition st_pred (st : state) := snd (fst st).
Definition st_m (st : state) := snd st.

(* what a (sufficiently fuelled) recursive call does, as far as success is concerned *)
Definition rec_good (n : nat) (rec : nat -> state -> state * bool) :=
  forall w st, length (st_preds st) < n ->
    let r := rec w st in
    length (st_preds (fst r)) <= length (st_preds st) /\
    (gV (st_preds st) (st_pred st) w -> snd r = true) /\
    (snd r = false -> forall u, gU (st_preds st) (st_pred st) u -> gU (st_preds (fst r)) (st_pred (fst r)) u).

Lemma try_us_good n rec : rec_good n rec -> forall v L st, length (st_preds st) < n ->
  let r := try_us rec v L st in
  length (st_preds (fst r)) <= length (st_preds st) /\
  ((exists u, In u L /\ gU (st_preds st) (st_pred st) u) -> snd r = true) /\
  (snd r = false -> forall u, gU (st_preds st) (st_pred st) u -> gU (st_preds (fst r)) (st_pred (fst r)) u).
Proof.
  intros Hrec v L. induction L as [|u L' IH]; intros [[preds pred] m] Hlen; cbv zeta; cbn [try_us].
  - unfold st_preds, st_pred. cbn [fst snd]. split; [lia|]. split; [intros (u & [] & _)| auto].
  - unfold st_preds, st_pred in *. cbv zeta in IH. cbn [fst snd] in *.
    destruct (dget pred u) as [p|] eqn:Eu.
    2:{ specialize (IH (preds, pred, m) Hlen). cbn [fst snd] in IH. destruct IH as (A & B & C). split; [exact A|]. split; [|exact C].
        intros (u0 & [<-|Hin] & Hg); [apply gU_isin in Hg; unfold isin in Hg; congruence| apply B; eauto]. }
    destruct p as [|w]; [cbn; split; [lia|]; split; [auto|discriminate]|].
    pose proof (Hrec w (preds, ddel pred u, m) Hlen) as Hr. cbv zeta in Hr.
    destruct (rec w (preds, ddel pred u, m)) as [[[preds2 pred2] m2] ok] eqn:Er. unfold st_preds, st_pred in Hr. cbn [fst snd] in Hr.
    destruct Hr as (R1 & R2 & R3). destruct ok.
    + cbn. split; [exact R1|]. split; [auto|discriminate].
    + assert (Hnw : ~ gV preds (ddel pred u) w) by (intros H; apply R2 in H; discriminate).
      assert (Hpres : forall x, gU preds pred x -> gU preds2 pred2 x).
      { intros x Hx. apply R3; [reflexivity|]. destruct (gU_del_u preds pred u w x Eu Hx) as [H|H]; [exact H|contradiction]. }
      assert (Hlen2 : length preds2 < n) by lia.
      specialize (IH (preds2, pred2, m2) Hlen2). cbn [fst snd] in IH. destruct IH as (A & B & C).
      split; [lia|]. split.
      * intros (u0 & [<-|Hin] & Hg).
        -- exfalso. apply Hnw. destruct (gU_del_u preds pred u w u Eu Hg) as [H|H]; [|exact H].
           apply gU_isin in H. unfold isin in H. now rewrite dget_ddel_same in H.
        -- apply B. exists u0. split; [exact Hin| now apply Hpres].
      * intros Hb x Hx. apply C; [exact Hb| now apply Hpres].
Qed.

Lemma recurse_good f : rec_good f (recurse f).
Proof.
  induction f as [|f IH]; intros v [[preds pred] m] Hlen; unfold st_preds, st_pred in *; cbn [fst snd] in *; [lia|].
  cbn [recurse]. destruct (dget preds v) as [L|] eqn:EL.
  - pose proof (ddel_length_lt preds v L EL) as Hlt.
    assert (Hlen1 : length (st_preds (ddel preds v, pred, m)) < f) by (unfold st_preds; cbn [fst]; lia).
    pose proof (try_us_good f (recurse f) IH v L (ddel preds v, pred, m) Hlen1) as Ht.
    unfold st_preds, st_pred in Ht. cbn [fst snd] in Ht. cbv zeta in Ht. destruct Ht as (A & B & C).
    cbv zeta. split; [lia|]. split.
    + intros (L0 & u & H1 & H2 & H3). assert (L0 = L) by congruence. subst L0. apply B.
      destruct (gU_del_v preds pred v L u EL H3) as [H|H]; [eauto|exact H].
    + intros Hb x Hx. apply C; [exact Hb|]. destruct (gU_del_v preds pred v L x EL Hx) as [H|H]; [exact H|].
      apply B in H. congruence.
  - cbv zeta. cbn [fst snd]. split; [lia|]. split; [|auto]. intros (L0 & u & H1 & _). congruence.
Qed.

(** recurse with the model's fuel succeeds on every right vertex that still has an intact path *)
Theorem recurse_succeeds preds pred m v : gV preds pred v -> snd (recurse (S (length preds)) v (preds, pred, m)) = true.
Proof. intros H. pose proof (recurse_good (S (length preds)) v (preds, pred, m)) as R. unfold st_preds, st_pred in R. cbn [fst snd] in R.
  apply R; [lia|exact H]. Qed.

(* fuel independence: once fuel > |preds| more fuel changes nothing (so "fuel exhausted => False" in recurse is dead code) *)
Lemma try_us_fuel_irrel n rec1 rec2 :
  (forall w st, length (st_preds st) < n -> rec1 w st = rec2 w st) ->
  (forall w st, length (st_preds (fst (rec1 w st))) <= length (st_preds st)) ->
  forall v L st, length (st_preds st) < n -> try_us rec1 v L st = try_us rec2 v L st.
Proof. intros Heq Hle v L. induction L as [|u L' IH]; intros [[preds pred] m] Hlen; cbn [try_us]; [reflexivity|].
  destruct (dget pred u) as [[|w]|]; [reflexivity| |now apply IH].
  rewrite <- (Heq w (preds, ddel pred u, m) Hlen). pose proof (Hle w (preds, ddel pred u, m)) as H.
  destruct (rec1 w (preds, ddel pred u, m)) as [[[p2 q2] m2] ok]. destruct ok; [reflexivity|].
  apply IH. unfold st_preds in *. cbn [fst] in *. lia. Qed.
Lemma try_us_len rec : (forall w st, length (st_preds (fst (rec w st))) <= length (st_preds st)) ->
  forall v L st, length (st_preds (fst (try_us rec v L st))) <= length (st_preds st).
Proof. intros Hle v L. induction L as [|u L' IH]; intros [[preds pred] m]; cbn [try_us]; [cbn; lia|].
  destruct (dget pred u) as [[|w]|]; [cbn; lia| |apply IH].
  pose proof (Hle w (preds, ddel pred u, m)) as H.
  destruct (rec w (preds, ddel pred u, m)) as [[[p2 q2] m2] ok]. destruct ok; [exact H|].
  specialize (IH (p2, q2, m2)). unfold st_preds in *. cbn [fst] in *. lia. Qed.
Lemma recurse_len f : forall v st, length (st_preds (fst (recurse f v st))) <= length (st_preds st).
Proof. induction f as [|f IH]; intros v [[preds pred] m]; cbn [recurse]; [cbn; lia|].
  destruct (dget preds v) as [L|]; [|cbn; lia].
  pose proof (try_us_len (recurse f) IH v L (ddel preds v, pred, m)) as H. pose proof (ddel_length_le preds v).
  unfold st_preds in *. cbn [fst] in *. lia. Qed.
Theorem recurse_fuel_irrel f1 : forall f2 v st, length (st_preds st) < f1 -> f1 <= f2 -> recurse f1 v st = recurse f2 v st.
Proof. induction f1 as [|f1 IH]; intros f2 v [[preds pred] m] Hlen Hf; [lia|]. destruct f2 as [|f2]; [lia|].
  cbn [recurse]. destruct (dget preds v) as [L|] eqn:EL; [|reflexivity].
  pose proof (ddel_length_lt preds v L EL). unfold st_preds in *. cbn [fst] in *.
  apply (try_us_fuel_irrel f1); [|apply recurse_len|unfold st_preds; cbn [fst]; lia].
  intros w st H1. apply IH; [exact H1|lia]. Qed.

(* the matching's key set only grows; a successful call defines m[v] *)
Lemma try_us_keys rec : (forall w st k, isin (st_m st) k -> isin (st_m (fst (rec w st))) k) ->
  forall v L st, (forall k, isin (st_m st) k -> isin (st_m (fst (try_us rec v L st))) k) /\
                 (snd (try_us rec v L st) = true -> isin (st_m (fst (try_us rec v L st))) v).
Proof. intros Hrec v L. induction L as [|u L' IH]; intros [[preds pred] m]; cbn [try_us]; [cbn; split; [auto|discriminate]|].
  destruct (dget pred u) as [[|w]|]; [cbn; split; [intros; now apply isin_dset| intros; apply isin_dset_same]| |apply IH].
  pose proof (Hrec w (preds, ddel pred u, m)) as H.
  destruct (rec w (preds, ddel pred u, m)) as [[[p2 q2] m2] ok]. unfold st_m in *. cbn [fst snd] in *. destruct ok.
  - cbn. split; [intros; now apply isin_dset, H| intros; apply isin_dset_same].
  - destruct (IH (p2, q2, m2)) as (A & B). cbn [fst snd] in *. split; auto. Qed.
Lemma recurse_keys f : forall v st, (forall k, isin (st_m st) k -> isin (st_m (fst (recurse f v st))) k) /\
  (snd (recurse f v st) = true -> isin (st_m (fst (recurse f v st))) v).
Proof. induction f as [|f IH]; intros v [[preds pred] m]; cbn [recurse]; [cbn; split; [auto|discriminate]|].
  destruct (dget preds v) as [L|]; [|cbn; split; [auto|discriminate]].
  change (st_m (preds, pred, m)) with (st_m (ddel preds v, pred, m)).
  apply (try_us_keys (recurse f)). intros w st. apply IH. Qed.

(* ------------------------------------------------------------------ *)
(* 2. layering                                                          *)
(* ------------------------------------------------------------------ *)
Lemma edge_key g u v : edge g u v -> In u (keys g).
Proof. unfold edge, nbrs. intros H. apply dget_keys. destruct (dget g u); [congruence|destruct H]. Qed.
Lemma sub_dmem_false {V} (d d' : dict V) k : sub d d' -> dmem d' k = false -> dmem d k = false.
Proof. intros S H. destruct (dmem d k) eqn:E; [|reflexivity]. apply dmem_isin in E. apply (sub_isin _ _ _ S), dmem_isin in E. congruence. Qed.

Section LayerTotal.
Variable g : graph.
Variable m : matching.
Hypothesis Hinj : inj m.
Hypothesis Hedges : edges_ok g m.

(* scanning a layer: the keys of new_layer are not in preds, the lists are non-empty sublists of the layer *)
Definition nl_good (preds : dict (list nat)) (inS : nat -> Prop) (nl : dict (list nat)) :=
  forall v L, dget nl v = Some L -> ~ isin preds v /\ L <> [] /\ forall u, In u L -> inS u.
Lemma add_new_good preds (inS : nat -> Prop) nl v u : ~ isin preds v -> inS u -> nl_good preds inS nl -> nl_good preds inS (add_new nl v u).
Proof. intros Hv Hu H v' L' HL. unfold add_new in HL. destruct (dget nl v) as [l|] eqn:E; destruct (Nat.eq_dec v' v) as [->|N].
  - rewrite dget_dset_same in HL. injection HL as <-. split; [exact Hv|]. split; [destruct l; discriminate|].
    intros u' Hin. apply in_app_iff in Hin. destruct Hin as [Hin|[<-|[]]]; [|exact Hu]. now apply (H v l E).
  - rewrite dget_dset_other in HL by auto. now apply H.
  - rewrite dget_dset_same in HL. injection HL as <-. split; [exact Hv|]. split; [discriminate|]. intros u' [<-|[]]. exact Hu.
  - rewrite dget_dset_other in HL by auto. now apply H. Qed.
Lemma scan_u_good preds (inS : nat -> Prop) u : inS u -> forall nl, nl_good preds inS nl -> nl_good preds inS (scan_u g preds nl u).
Proof. intros Hu. unfold scan_u. generalize (nbrs g u). intros vs. induction vs as [|v vs IH]; intros nl H; cbn [fold_left]; [exact H|].
  apply IH. destruct (dmem preds v) eqn:E; [exact H|]. apply add_new_good; auto.
  intros Hi. apply dmem_isin in Hi. congruence. Qed.
Lemma scan_layer_good preds (inS : nat -> Prop) layer : (forall u, In u layer -> inS u) -> forall nl, nl_good preds inS nl ->
  nl_good preds inS (fold_left (scan_u g preds) layer nl).
Proof. induction layer as [|u layer IH]; intros Hl nl H; cbn [fold_left]; [exact H|].
  apply IH; [intros; apply Hl; now right|]. apply scan_u_good; [apply Hl; now left|exact H]. Qed.

(* the extra layering invariant: Via-pointers lead into preds, every right vertex of preds and every
   left vertex of the current layer has an intact path back to a Free vertex *)
Definition invD (preds : dict (list nat)) (pred : dict pu) := forall u w, dget pred u = Some (Via w) -> isin preds w.
Definition Ext (st : lstate) := let '(preds, pred, layer, unm) := st in
  invD preds pred /\ (forall v, isin preds v -> gV preds pred v) /\
  (forall u, In u layer -> gU preds pred u /\ In u (keys g)) /\ (forall v, In v unm -> isin preds v).

Lemma absorb_ext preds pred layer unm v L :
  LInv g m (preds, pred, layer, unm) -> Ext (preds, pred, layer, unm) ->
  ~ isin preds v -> L <> [] -> (forall u, In u L -> gU preds pred u) ->
  forall p1 q1 l1 u1, absorb m (preds, pred, layer, unm) (v, L) = (p1, q1, l1, u1) ->
  Ext (p1, q1, l1, u1) /\ sub preds p1 /\ sub pred q1 /\ (forall k, isin p1 k -> k = v \/ isin preds k) /\
  (forall u, In u l1 -> In u layer \/ ~ isin pred u).
Proof.
  intros (HA & HB & _) (HD & HG & HL & HU) Hv HLne HLg p1 q1 l1 u1.
  assert (S1 : sub preds (dset preds v L)) by (apply sub_dset_new, not_isin_none, Hv).
  assert (HG' : forall pred', sub pred pred' -> forall x, isin (dset preds v L) x -> gV (dset preds v L) pred' x).
  { intros pred' S2 x Hx. apply isin_dset_inv in Hx. destruct Hx as [->|Hx]; [|eapply gV_mono; eauto].
    destruct L as [|u0 L0]; [congruence|]. exists (u0 :: L0), u0. split; [apply dget_dset_same|]. split; [now left|].
    eapply gU_mono; eauto. apply HLg. now left. }
  unfold absorb. cbn [fst snd]. destruct (dget m v) as [u|] eqn:Em; intros [= <- <- <- <-].
  - assert (Hfresh : dget pred u = None).
    { destruct (dget pred u) as [[|w]|] eqn:E; [exfalso; exact (HA u E v Em)| |reflexivity].
      exfalso. apply Hv. assert (w = v) by (eapply Hinj; [apply HB; exact E|exact Em]). subst w. eapply HD; eauto. }
    assert (S2 : sub pred (dset pred u (Via v))) by (now apply sub_dset_new).
    split; [|split; [exact S1|split; [exact S2|split; [apply isin_dset_inv|]]]].
    + unfold Ext. split; [|split; [now apply HG'|split]].
      * intros u' w Hu'. destruct (Nat.eq_dec u' u) as [->|N].
        -- rewrite dget_dset_same in Hu'. injection Hu' as <-. apply isin_dset_same.
        -- rewrite dget_dset_other in Hu' by auto. apply isin_dset. eapply HD; eauto.
      * intros u' Hin. apply in_app_iff in Hin. destruct Hin as [Hin|[<-|[]]].
        -- destruct (HL u' Hin) as (a & b). split; [eapply gU_mono; eauto|exact b].
        -- split; [|eapply edge_key, Hedges; eauto]. destruct L as [|u0 L0]; [congruence|].
           apply (gVia _ _ u v (u0 :: L0) u0); [apply dget_dset_same|apply dget_dset_same|now left|].
           eapply gU_mono; eauto. apply HLg. now left.
      * intros v' Hin. apply isin_dset. auto.
    + intros u' Hin. apply in_app_iff in Hin. destruct Hin as [Hin|[<-|[]]]; [now left|right]. unfold isin. congruence.
  - split; [|split; [exact S1|split; [apply sub_refl|split; [apply isin_dset_inv|intros; now left]]]].
    unfold Ext. split; [|split; [apply HG', sub_refl|split]].
    + intros u' w Hu'. apply isin_dset. eapply HD; eauto.
    + intros u' Hin. destruct (HL u' Hin) as (a & b). split; [eapply gU_mono; eauto using sub_refl|exact b].
    + intros v' Hin. apply in_app_iff in Hin. destruct Hin as [Hin|[<-|[]]]; [apply isin_dset; auto|apply isin_dset_same].
Qed.

Lemma absorb_fold_ext nl : forall preds pred layer unm, NoDup (keys nl) ->
  LInv g m (preds, pred, layer, unm) -> Ext (preds, pred, layer, unm) ->
  (forall v L, In (v, L) nl -> ~ isin preds v /\ L <> [] /\ (forall u, In u L -> gU preds pred u) /\ (forall u, In u L -> edge g u v)) ->
  forall p' q' l' u', fold_left (absorb m) nl (preds, pred, layer, unm) = (p', q', l', u') ->
  LInv g m (p', q', l', u') /\ Ext (p', q', l', u') /\ sub pred q' /\ (forall u, In u l' -> In u layer \/ ~ isin pred u).
Proof.
  induction nl as [|[v L] nl IH]; intros preds pred layer unm ND HI HE Hnl p' q' l' u'; cbn [fold_left].
  - intros [= <- <- <- <-]. split; [exact HI|]. split; [exact HE|]. split; [apply sub_refl|intros; now left].
  - destruct (absorb m (preds, pred, layer, unm) (v, L)) as [[[p1 q1] l1] u1] eqn:Ea. intros Hf.
    destruct (Hnl v L (or_introl eq_refl)) as (n1 & n2 & n3 & n4).
    assert (HI1 : LInv g m (p1, q1, l1, u1)) by (rewrite <- Ea; apply absorb_LInv; [exact n4|exact HI]).
    destruct (absorb_ext _ _ _ _ v L HI HE n1 n2 n3 _ _ _ _ Ea) as (HE1 & S1 & S2 & Hk & Hl).
    cbn [keys map fst] in ND. inversion ND as [|? ? Hnin ND']; subst.
    destruct (IH p1 q1 l1 u1 ND' HI1 HE1) with (p' := p') (q' := q') (l' := l') (u' := u') as (A & B & C & D); [|exact Hf|].
    + intros v' L' Hin. destruct (Hnl v' L' (or_intror Hin)) as (a1 & a2 & a3 & a4).
      split; [|split; [exact a2|split; [intros; eapply gU_mono; eauto|exact a4]]].
      intros Hi. destruct (Hk _ Hi) as [->|Hi']; [|contradiction]. apply Hnin. change v with (fst (v, L')). now apply in_map.
    + split; [exact A|]. split; [exact B|]. split; [eapply sub_trans; eauto|].
      intros u Hin. destruct (D u Hin) as [H|H]; [apply Hl, H|]. right. intros Hi. apply H. eapply sub_isin; eauto.
Qed.

Definition mu (pred : dict pu) := length (filter (fun u => negb (dmem pred u)) (keys g)).
Definition cont (layer unm : list nat) : nat := match layer, unm with _ :: _, [] => 1 | _, _ => 0 end.

Lemma layering_total_aux fuel : forall preds pred layer unm,
  LInv g m (preds, pred, layer, unm) -> Ext (preds, pred, layer, unm) -> mu pred + cont layer unm < fuel ->
  exists preds' pred' unm', layering fuel g m preds pred layer unm = Some (preds', pred', unm') /\
    forall v, In v unm' -> gV preds' pred' v.
Proof.
  induction fuel as [|f IH]; intros preds pred layer unm HI HE Hmu; [lia|]. cbn [layering].
  assert (Hstop : exists preds' pred' unm', Some (preds, pred, unm) = Some (preds', pred', unm') /\ forall v, In v unm' -> gV preds' pred' v).
  { exists preds, pred, unm. split; [reflexivity|]. destruct HE as (_ & HG & _ & HU). auto. }
  destruct layer as [|u0 layer0] eqn:El; [exact Hstop|]. destruct unm as [|v0 unm0] eqn:Eu; [|exact Hstop].
  cbn [cont] in Hmu. clear Hstop. rewrite <- El in *. clear El u0 layer0.
  set (nl := fold_left (scan_u g preds) layer []).
  destruct (scan_layer g preds layer [] (nl_ok_nil g preds)) as (A & _ & _). fold nl in A.
  assert (ND : NoDup (keys nl)) by (apply scan_layer_nodup; constructor).
  assert (Gd : nl_good preds (fun u => In u layer) nl).
  { apply scan_layer_good; [auto|]. intros v L H. discriminate. }
  destruct (fold_left (absorb m) nl (preds, pred, [], [])) as [[[p1 q1] l1] u1] eqn:Ef.
  assert (Hent : forall v L, In (v, L) nl -> ~ isin preds v /\ L <> [] /\ (forall u, In u L -> gU preds pred u) /\ (forall u, In u L -> edge g u v)).
  { intros v L Hin. apply (In_dget _ _ _ ND) in Hin. destruct (Gd v L Hin) as (a & b & c).
    split; [exact a|]. split; [exact b|]. split; [|intros u Hu; eapply A; eauto].
    intros u Hu. destruct HE as (_ & _ & HL & _). apply HL. now apply c. }
  assert (HI0 : LInv g m (preds, pred, [], [])).
  { exact HI. }
  assert (HE0 : Ext (preds, pred, [], [])).
  { destruct HE as (a & b & c & d). unfold Ext. split; [exact a|]. split; [exact b|]. split; intros ? []. }
  destruct (absorb_fold_ext nl preds pred [] [] ND HI0 HE0 Hent _ _ _ _ Ef) as (I1 & E1 & S2 & Hnew).
  apply IH; [exact I1|exact E1|].
  assert (Hle : mu q1 <= mu pred).
  { unfold mu. apply filter_length_le. intros x _ Hx. apply negb_true_iff in Hx. apply negb_true_iff. eapply sub_dmem_false; eauto. }
  destruct l1 as [|u' l1']; [cbn [cont]; lia|]. destruct u1; [|cbn [cont]; lia]. cbn [cont].
  destruct E1 as (_ & _ & HL1 & _). destruct (HL1 u' (or_introl eq_refl)) as (Hg' & Hk').
  assert (mu q1 < mu pred); [|lia].
  unfold mu. apply (filter_length_lt _ _ _ u'); [| exact Hk' | |].
  - intros x _ Hx. apply negb_true_iff in Hx. apply negb_true_iff. eapply sub_dmem_false; eauto.
  - destruct (Hnew u' (or_introl eq_refl)) as [[]|Hn]. apply negb_true_iff. destruct (dmem pred u') eqn:E; [|reflexivity].
    apply dmem_isin in E. contradiction.
  - apply negb_false_iff. apply dmem_isin. eapply gU_isin; eauto.
Qed.
End LayerTotal.

Lemma filter_true_length {A} (l : list A) : length (filter (fun _ => true) l) = length l.
Proof. induction l; simpl; auto. Qed.

Lemma init_Ext g m : Ext g ([], init_pred g m, keys (init_pred g m), []).
Proof. unfold Ext. split; [|split; [|split]].
  - intros u w H. rewrite init_pred_spec in H. destruct (existsb _ m); [discriminate|]. destruct (dmem g u); discriminate.
  - intros v H. exfalso. apply H. reflexivity.
  - intros u Hin. apply dget_keys in Hin. rewrite init_pred_spec in Hin.
    assert (E : dget (init_pred g m) u = Some Free /\ dmem g u = true).
    { rewrite init_pred_spec. destruct (existsb _ m); [congruence|]. destruct (dmem g u); [auto|congruence]. }
    destruct E as (E1 & E2). split; [now apply gFree|]. apply dget_keys. unfold dmem in E2. destruct (dget g u); congruence.
  - intros v [].
Qed.

Lemma mu_le g pred : mu g pred <= length g.
Proof. unfold mu. replace (length g) with (length (filter (fun _ => true) (keys g))); [now apply filter_length_le|].
  rewrite filter_true_length. apply map_length. Qed.
Lemma mu_lt g pred u : In u (keys g) -> isin pred u -> mu g pred < length g.
Proof. intros Hin Hi. unfold mu. replace (length g) with (length (filter (fun _ => true) (keys g))).
  - apply (filter_length_lt _ _ _ u); auto. now apply negb_false_iff, dmem_isin.
  - rewrite filter_true_length. apply map_length. Qed.

(** (1) the layering loop never runs out of its fuel S |g|; moreover every vertex of the returned
    `unmatched` list has an intact alternating path back to a Free left vertex *)
Theorem layering_total g m : valid g m ->
  exists preds pred unm,
    layering (S (length g)) g m [] (init_pred g m) (keys (init_pred g m)) [] = Some (preds, pred, unm) /\
    forall v, In v unm -> gV preds pred v.
Proof.
  intros Hv. destruct (init_LInv g m Hv) as (HI0 & _). destruct Hv as (Hk & Hi & He).
  apply (layering_total_aux g m Hi He); [exact HI0|apply init_Ext|].
  pose proof (mu_le g (init_pred g m)) as Hle.
  destruct (keys (init_pred g m)) as [|u l] eqn:Ek; [cbn [cont]; lia|]. cbn [cont].
  destruct (init_Ext g m) as (_ & _ & HL & _). rewrite Ek in HL. destruct (HL u (or_introl eq_refl)) as (Hg & Hin).
  assert (mu g (init_pred g m) < length g); [|lia].
  apply (mu_lt g _ u Hin). eapply gU_isin; eauto.
Qed.

(* ------------------------------------------------------------------ *)
(* 3. phases                                                            *)
(* ------------------------------------------------------------------ *)
Lemma fold_recurse_keys F unm : forall st k, isin (st_m st) k ->
  isin (st_m (fold_left (fun st v => fst (recurse F v st)) unm st)) k.
Proof. induction unm as [|v unm IH]; intros st k H; cbn [fold_left]; [exact H|]. apply IH. now apply recurse_keys. Qed.

Lemma valid_length g m : valid g m -> length m <= length g.
Proof. intros Hv. pose proof (valid_list g m Hv) as (_ & N2 & He). destruct Hv as (_ & _ & He').
  rewrite <- (map_length snd m), <- (map_length fst g). apply NoDup_incl_length; [exact N2|].
  intros u Hu. apply in_map_iff in Hu. destruct Hu as ([v u'] & <- & Hin). cbn [snd]. eapply edge_key, He. exact Hin. Qed.

(** (3) a phase that continues (non-empty `unmatched`) keeps the matching valid and strictly enlarges it:
    the first call of recurse succeeds *)
Theorem phases_progress g m preds pred v0 unm0 : valid g m ->
  layering (S (length g)) g m [] (init_pred g m) (keys (init_pred g m)) [] = Some (preds, pred, v0 :: unm0) ->
  let m' := st_m (fold_left (fun st v => fst (recurse (S (length preds)) v st)) (v0 :: unm0) (preds, pred, m)) in
  valid g m' /\ length m < length m'.
Proof.
  intros Hv El. destruct (layering_total g m Hv) as (preds1 & pred1 & unm1 & El1 & Hpath). rewrite El in El1. injection El1 as <- <- <-.
  destruct (init_LInv g m Hv) as (HI0 & HF0). destruct Hv as (Hk & Hi & He).
  destruct (layering_spec g m _ _ _ _ _ _ _ _ HI0 HF0 El) as (layer' & HI & _ & _).
  destruct HI as (HA & HB & HC & H1 & H2 & H5).
  assert (HInv : Inv g (preds, pred, m)) by (unfold Inv; repeat split; auto).
  assert (Hn : forall v, In v (v0 :: unm0) -> noptr pred v).
  { intros v Hin u Hu. apply HB in Hu. rewrite (H5 v Hin) in Hu. discriminate. }
  pose proof (phase_fold g (S (length preds)) (v0 :: unm0) (preds, pred, m) pred HInv (sub_refl _) Hn) as HI'.
  cbv zeta. set (F := S (length preds)) in *.
  assert (Hkeys : incl (v0 :: keys m) (keys (st_m (fold_left (fun st v => fst (recurse F v st)) (v0 :: unm0) (preds, pred, m))))).
  { cbn [fold_left]. pose proof (recurse_succeeds preds pred m v0 (Hpath v0 (or_introl eq_refl))) as Hs. fold F in Hs.
    destruct (recurse_keys F v0 (preds, pred, m)) as (K1 & K2).
    intros k [<-|Hin]; apply dget_keys; apply fold_recurse_keys; [now apply K2|]. apply K1. now apply dget_keys. }
  destruct (fold_left (fun st v => fst (recurse F v st)) (v0 :: unm0) (preds, pred, m)) as [[p1 q1] m'].
  unfold st_m in *. cbn [snd] in *. destruct HI' as (a & b & c & _). split; [now repeat split|].
  apply NoDup_incl_length in Hkeys.
  - unfold keys in Hkeys. cbn [length] in Hkeys. rewrite !map_length in Hkeys. lia.
  - constructor; [|exact Hk]. intros Hin. apply dget_keys in Hin. apply Hin. apply H5. now left.
Qed.

Lemma phases_total_aux g : forall fuel m, valid g m -> length g < fuel + length m -> exists mf, phases fuel g m = Some mf.
Proof.
  induction fuel as [|f IH]; intros m Hv Hlen; [pose proof (valid_length g m Hv); lia|]. cbn [phases].
  destruct (layering_total g m Hv) as (preds & pred & unm & El & _). rewrite El.
  destruct unm as [|v0 unm0]; [eexists; reflexivity|].
  pose proof (phases_progress g m preds pred v0 unm0 Hv El) as Hp. cbv zeta in Hp.
  destruct (fold_left (fun st v => fst (recurse (S (length preds)) v st)) (v0 :: unm0) (preds, pred, m)) as [[p1 q1] m'].
  unfold st_m in Hp. cbn [snd] in Hp. destruct Hp as (Hv' & Hlt). apply IH; [exact Hv'|lia].
Qed.

(** Main theorem: the model never runs out of fuel.  NoDup (keys g) is what a Python dict guarantees
    (it is the hypothesis of greedy_valid / bipartite_match_correct); adjacency lists may contain
    duplicates, vertices are arbitrary nats, left and right name spaces may overlap. *)
Theorem bipartite_match_total : forall g, NoDup (keys g) -> exists m, bipartite_match g = Some m.
Proof. intros g Hg. unfold bipartite_match. apply phases_total_aux; [now apply greedy_valid|lia]. Qed.

(** total correctness, combining with HKCorrect *)
Corollary bipartite_match_total_correct g : NoDup (keys g) ->
  exists m, bipartite_match g = Some m /\ matching_ok g m /\ forall l, matching_ok g l -> length l <= length m.
Proof. intros Hg. destruct (bipartite_match_total g Hg) as (m & Hm). exists m. split; [exact Hm|]. now apply bipartite_match_correct. Qed.

(* ------------------------------------------------------------------ *)
(* examples: graphs on which the greedy initialisation is not maximum  *)
(* ------------------------------------------------------------------ *)
Definition ex1 : graph := [(0, [0; 1]); (1, [0])].
Example ex1_greedy : length (greedy ex1) = 1. Proof. vm_compute. reflexivity. Qed.
Example ex1_match : bipartite_match ex1 = Some [(0, 1); (1, 0)]. Proof. vm_compute. reflexivity. Qed.
Example ex1_hyp : NoDup (keys ex1). Proof. repeat constructor; simpl; intuition discriminate. Qed.
(* duplicate edges, overlapping name spaces *)
Definition ex2 : graph := [(5, [5; 5; 6; 5]); (6, [5; 5])].
Example ex2_greedy : greedy ex2 = [(5, 5)]. Proof. vm_compute. reflexivity. Qed.
Example ex2_match : bipartite_match ex2 = Some [(5, 6); (6, 5)]. Proof. vm_compute. reflexivity. Qed.
(* a chain that needs an augmenting path of length 7 (4 layers) *)
Definition ex3 : graph := [(0, [0; 1]); (1, [1; 2]); (2, [2; 3]); (3, [0])].
Example ex3_greedy : greedy ex3 = [(0, 0); (1, 1); (2, 2)]. Proof. vm_compute. reflexivity. Qed.
Example ex3_match : bipartite_match ex3 = Some [(0, 3); (1, 0); (2, 1); (3, 2)]. Proof. vm_compute. reflexivity. Qed.
(* several free left vertices competing; same result (and order) as the Python code *)
Definition ex4 : graph := [(0, [0; 1]); (1, [0; 2]); (2, [0]); (3, [1; 3]); (4, [1])].
Example ex4_greedy : greedy ex4 = [(0, 0); (2, 1); (1, 3)]. Proof. vm_compute. reflexivity. Qed.
Example ex4_match : bipartite_match ex4 = Some [(0, 0); (2, 1); (1, 4); (3, 3)]. Proof. vm_compute. reflexivity. Qed.
(* an isolated left vertex and the empty graph *)
Example ex5_match : bipartite_match [(7, [])] = Some []. Proof. vm_compute. reflexivity. Qed.
Example ex6_match : bipartite_match [] = Some []. Proof. vm_compute. reflexivity. Qed.

(* the fuel S |g| of the layering loop is tight: on ex3 (4 keys) the loop needs all 5 units *)
Example layering_fuel_tight : let m := greedy ex3 in let p := init_pred ex3 m in
  layering (length ex3) ex3 m [] p (keys p) [] = None /\ layering (S (length ex3)) ex3 m [] p (keys p) [] <> None.
Proof. vm_compute. split; [reflexivity|discriminate]. Qed.
(* NoDup (keys g) is needed: on an association list with a repeated key (not a Python dict) the greedy
   matching is not injective, a phase makes no progress and the model does run out of fuel *)
Example nodup_keys_needed : bipartite_match [(1, [2; 1; 0]); (1, [0; 0]); (2, [0; 0])] = None.
Proof. vm_compute. reflexivity. Qed.

Print Assumptions bipartite_match_total.
Print Assumptions bipartite_match_total_correct.
Print Assumptions layering_total.
Print Assumptions phases_progress.
Print Assumptions recurse_succeeds.
Print Assumptions recurse_fuel_irrel.
