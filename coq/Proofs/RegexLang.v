(* The derivative matcher decides the inductively defined language. *)
From Coq Require Import List Bool Arith Lia.
From ME Require Import Model.Regex.
Import ListNotations.

Inductive lang : re -> list nat -> Prop :=
| LEps : lang Eps []
| LChr c : lang (Chr c) [c]
| LAltL a b s : lang a s -> lang (Alt a b) s
| LAltR a b s : lang b s -> lang (Alt a b) s
| LCat a b s1 s2 : lang a s1 -> lang b s2 -> lang (Cat a b) (s1 ++ s2)
| LStar0 a : lang (Star a) []
| LStarS a s1 s2 : lang a s1 -> lang (Star a) s2 -> lang (Star a) (s1 ++ s2).
#[local] Hint Constructors lang : core.

Lemma lang_Emp s : ~ lang Emp s. Proof. intros H; inversion H. Qed.
Lemma lang_Eps s : lang Eps s <-> s = []. Proof. split; [intros H; now inversion H| intros ->; auto]. Qed.
Lemma lang_Alt a b s : lang (Alt a b) s <-> lang a s \/ lang b s.
Proof. split; [intros H; inversion H; auto| intros [H|H]; auto]. Qed.
Lemma lang_Cat a b s : lang (Cat a b) s <-> exists s1 s2, s = s1 ++ s2 /\ lang a s1 /\ lang b s2.
Proof. split; [intros H; inversion H; subst; eauto| intros (s1 & s2 & -> & H1 & H2); auto]. Qed.

(* comparison decides syntactic equality *)
Lemma cmp_eq x : forall y, cmp x y = Eq -> x = y.
Proof. induction x; destruct y; simpl; try discriminate; auto.
  - intros H. apply Nat.compare_eq in H. now subst.
  - destruct (cmp x1 y1) eqn:E; try discriminate. intros H. f_equal; auto.
  - destruct (cmp x1 y1) eqn:E; try discriminate. intros H. f_equal; auto.
  - intros H. f_equal; auto. Qed.
Lemma reqb_eq x y : reqb x y = true -> x = y.
Proof. unfold reqb. destruct (cmp x y) eqn:E; try discriminate. intros _. now apply cmp_eq. Qed.

(* smart alternative *)
Definition anyl (l : list re) s := exists r, In r l /\ lang r s.
Lemma alts_lang r s : anyl (alts r) s <-> lang r s.
Proof. unfold anyl. induction r; simpl; try (split; [intros (r' & [<-|[]] & H); auto| intros H; eexists; split; [left; reflexivity|auto]]).
  - split; [intros (r' & [] & _)| intros H; inversion H].
  - rewrite lang_Alt, <- IHr1, <- IHr2. split.
    + intros (r' & Hin & H). apply in_app_iff in Hin. destruct Hin; [left|right]; eauto.
    + intros [(r' & Hin & H)|(r' & Hin & H)]; exists r'; split; auto; apply in_app_iff; auto. Qed.
Lemma ins_In x l r : In r (ins x l) <-> r = x \/ In r l.
Proof. induction l as [|y t IH]; simpl; [intuition|]. destruct (cmp x y) eqn:E.
  - apply cmp_eq in E; subst. simpl. intuition.
  - simpl. intuition.
  - simpl. rewrite IH. intuition. Qed.
Lemma sortl_In l r : In r (fold_right ins [] l) <-> In r l.
Proof. induction l as [|x t IH]; simpl; [tauto|]. rewrite ins_In, IH. intuition. Qed.
Lemma build_lang l s : lang (build l) s <-> anyl l s.
Proof. unfold anyl. induction l as [|x t IH]; simpl.
  - split; [intros H; inversion H| intros (r & [] & _)].
  - destruct t as [|y t'].
    + split; [intros H; eauto| intros (r & [<-|[]] & H); auto].
    + rewrite lang_Alt, IH. split.
      * intros [H|(r & Hin & H)]; [exists x; auto| exists r; auto].
      * intros (r & [<-|Hin] & H); [auto| right; eauto]. Qed.
Lemma mkAlt_lang a b s : lang (mkAlt a b) s <-> lang a s \/ lang b s.
Proof. unfold mkAlt. rewrite build_lang, <- (alts_lang a), <- (alts_lang b). unfold anyl. split.
  - intros (r & Hin & H). apply sortl_In, in_app_iff in Hin. destruct Hin; [left|right]; eauto.
  - intros [(r & Hin & H)|(r & Hin & H)]; exists r; split; auto; apply sortl_In, in_app_iff; auto. Qed.
Lemma mkCat_lang a b s : lang (mkCat a b) s <-> lang (Cat a b) s.
Proof. rewrite lang_Cat. unfold mkCat.
  destruct a; try (destruct b; try (rewrite lang_Cat; reflexivity));
  try (split; [intros H; now inversion H| intros (s1 & s2 & _ & H1 & H2); solve [inversion H1|inversion H2]]).
  all: try (split; [intros H; exists [], s; split; [reflexivity|split; [constructor|exact H]]
                   | intros (s1 & s2 & -> & H1 & H2); inversion H1; subst; exact H2]).
  all: try (split; [intros H; exists s, []; rewrite app_nil_r; split; [reflexivity|split; [exact H|constructor]]
                   | intros (s1 & s2 & -> & H1 & H2); inversion H2; subst; rewrite app_nil_r; exact H1]).
Qed.
Lemma star_idem a s : lang (Star (Star a)) s -> lang (Star a) s.
Proof. intros H. remember (Star (Star a)) as r eqn:E. induction H; inversion E; subst; auto.
  clear IHlang1. specialize (IHlang2 eq_refl). clear H0 E.
  remember (Star a) as r eqn:E. induction H; inversion E; subst; auto. rewrite <- app_assoc. auto. Qed.
Lemma mkStar_lang a s : lang (mkStar a) s <-> lang (Star a) s.
Proof. unfold mkStar. destruct a; try reflexivity.
  - split; [intros H; inversion H; auto|]. intros H. remember (Star Emp) as r eqn:E. induction H; inversion E; subst; auto. inversion H.
  - split; [intros H; inversion H; auto|]. intros H. remember (Star Eps) as r eqn:E. induction H; inversion E; subst; auto.
    inversion H; subst. simpl. auto.
  - split; [|apply star_idem]. intros H. rewrite <- (app_nil_r s). auto. Qed.

Lemma nullable_lang r : nullable r = true <-> lang r [].
Proof. induction r; simpl.
  - split; [discriminate|intros H; inversion H].
  - split; auto.
  - split; [discriminate|intros H; inversion H].
  - rewrite orb_true_iff, IHr1, IHr2, lang_Alt. tauto.
  - rewrite andb_true_iff, IHr1, IHr2, lang_Cat. split.
    + intros [H1 H2]. exists [], []. auto.
    + intros (s1 & s2 & E & H1 & H2). symmetry in E. apply app_eq_nil in E. destruct E; subst. auto.
  - split; auto. Qed.

Lemma star_cons a c s : lang (Star a) (c :: s) -> exists s1 s2, s = s1 ++ s2 /\ lang a (c :: s1) /\ lang (Star a) s2.
Proof. intros H. remember (Star a) as r eqn:E. remember (c :: s) as w eqn:Ew. revert c s Ew.
  induction H; inversion E; subst; intros c s' Ew; try discriminate.
  destruct s1 as [|c1 s1]; simpl in Ew.
  - apply IHlang2; auto.
  - injection Ew as -> <-. eauto. Qed.

Lemma deriv_lang r : forall x s, lang (deriv x r) s <-> lang r (x :: s).
Proof. induction r as [| |d|r1 IHr1 r2 IHr2|r1 IHr1 r2 IHr2|r IHr]; intros x s; simpl.
  - split; intros H; inversion H.
  - split; intros H; inversion H.
  - destruct (Nat.eqb x d) eqn:E.
    + apply Nat.eqb_eq in E; subst. rewrite lang_Eps. split; [intros ->; auto| intros H; now inversion H].
    + apply Nat.eqb_neq in E. split; intros H; inversion H; congruence.
  - rewrite mkAlt_lang, IHr1, IHr2, lang_Alt. tauto.
  - assert (Hc : lang (mkCat (deriv x r1) r2) s <-> exists s1 s2, s = s1 ++ s2 /\ lang r1 (x :: s1) /\ lang r2 s2).
    { rewrite mkCat_lang, lang_Cat. split; intros (s1 & s2 & E & H1 & H2); exists s1, s2; (split; [auto|split; [apply IHr1; auto|auto]]). }
    rewrite lang_Cat. destruct (nullable r1) eqn:En.
    + rewrite mkAlt_lang, Hc, IHr2. split.
      * intros [(s1 & s2 & -> & H1 & H2)|H]; [exists (x :: s1), s2; auto| exists [], (x :: s); split; [auto|split; [now apply nullable_lang|auto]]].
      * intros (s1 & s2 & E & H1 & H2). destruct s1 as [|c1 s1]; simpl in E; [right; now subst|].
        injection E as <- ->. left; eauto.
    + rewrite Hc. split.
      * intros (s1 & s2 & -> & H1 & H2); exists (x :: s1), s2; auto.
      * intros (s1 & s2 & E & H1 & H2). destruct s1 as [|c1 s1]; simpl in E.
        -- apply nullable_lang in H1. congruence.
        -- injection E as <- ->. eauto.
  - rewrite mkCat_lang, lang_Cat. split.
    + intros (s1 & s2 & -> & H1 & H2). apply IHr in H1. apply mkStar_lang in H2. change (x :: s1 ++ s2) with ((x :: s1) ++ s2). auto.
    + intros H. apply star_cons in H. destruct H as (s1 & s2 & -> & H1 & H2). exists s1, s2. split; [auto|]. split; [now apply IHr| now apply mkStar_lang]. Qed.

Theorem rmatch_iff_lang r s : rmatch r s = true <-> lang r s.
Proof. revert r. induction s as [|c s IH]; intros r; simpl; [apply nullable_lang|]. rewrite IH. apply deriv_lang. Qed.
