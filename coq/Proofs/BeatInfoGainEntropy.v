(* The entropy / log2 step of beat.information_gain (Model.BeatEntropy) on top of the exact integer histograms of
   Model.Beat.information_gain_counts (Proofs.BeatInfoGain):

     0 <= hist_entropy h <= log2 (number of bins)            (Gibbs' inequality, from ln x <= x - 1)
     hist_entropy h = 0  <->  h has a single non-zero bin    (in particular the `spike` of a perfect estimate)
     log2 K - hist_entropy h = KL(p || uniform)              (the published definition of the information gain)
     0 <= information gain <= 1,  = 1 for a sequence against itself,  = 0 when a histogram is uniform,
     invariant under a common time shift;  bins = 1 is degenerate (0/0 = nan).

   The stdlib Reals (and their axioms) are used here by permission for this task. *)
From Coq Require Import List Arith Lia ZifyBool Reals Lra Bool QArith Sorted.
From ME Require Import Model.Prelude Model.Beat Model.BeatEntropy Proofs.BeatProps Proofs.BeatInfoGain
  Proofs.SegmentEntropy Proofs.SegmentEntropyBounds.
Import ListNotations.
Local Open Scope R_scope.

(* ================================================================================================== *)
(* 1. finite sums over lists                                                                            *)
(* ================================================================================================== *)
Lemma lsumR_map_le {A} (f g : A -> R) l : (forall x, In x l -> f x <= g x) -> lsumR (map f l) <= lsumR (map g l).
Proof. induction l as [|a l IH]; intros H; cbn [map lsumR]; [lra|].
  assert (H1 := H a (or_introl eq_refl)). assert (H2 := IH (fun x Hx => H x (or_intror Hx))). lra. Qed.
Lemma lsumR_map_ext {A} (f g : A -> R) l : (forall x, In x l -> f x = g x) -> lsumR (map f l) = lsumR (map g l).
Proof. induction l as [|a l IH]; intros H; cbn [map lsumR]; [reflexivity|].
  rewrite (H a (or_introl eq_refl)), (IH (fun x Hx => H x (or_intror Hx))). reflexivity. Qed.
Lemma lsumR_map_plus {A} (f g : A -> R) l : lsumR (map (fun x => f x + g x) l) = lsumR (map f l) + lsumR (map g l).
Proof. induction l as [|a l IH]; cbn [map lsumR]; [lra|]. rewrite IH. lra. Qed.
Lemma lsumR_map_scal {A} (f : A -> R) c l : lsumR (map (fun x => f x * c) l) = lsumR (map f l) * c.
Proof. induction l as [|a l IH]; cbn [map lsumR]; [lra|]. rewrite IH. lra. Qed.
Lemma lsumR_map_const {A} (c : R) (l : list A) : lsumR (map (fun _ => c) l) = INR (length l) * c.
Proof. induction l as [|a l IH]; [cbn; lra|]. cbn [map lsumR length]. rewrite IH, S_INR. lra. Qed.
Lemma lsumR_nonpos_zero {A} (f : A -> R) l : (forall x, In x l -> f x <= 0) -> lsumR (map f l) = 0 ->
  forall x, In x l -> f x = 0.
Proof. induction l as [|a l IH]; intros H H0 x Hx; [destruct Hx|]. cbn [map lsumR] in H0.
  assert (H1 := H a (or_introl eq_refl)).
  assert (H2 : lsumR (map f l) <= 0).
  { pose proof (lsumR_map_le f (fun _ => 0) l (fun y Hy => H y (or_intror Hy))) as L. rewrite lsumR_map_const in L. lra. }
  destruct Hx as [<-|Hx]; [lra|]. apply IH; auto. - intros y Hy. apply H. right. exact Hy. - lra. Qed.

Lemma In_le_total c l : In c l -> (c <= hist_total l)%nat.
Proof. induction l as [|a l IH]; intros H; [destruct H|]. cbn [hist_total fold_right]. fold (hist_total l).
  destruct H as [<-|H]; [lia|]. specialize (IH H). lia. Qed.
Lemma hist_total_pos_length l : (0 < hist_total l)%nat -> (0 < length l)%nat.
Proof. destruct l; cbn; lia. Qed.
Lemma INR_pos_ne n : (0 < n)%nat -> INR n <> 0.
Proof. intros H. apply not_0_INR. lia. Qed.
Lemma lsumR_pr N l : (0 < N)%nat -> lsumR (map (fun c => INR c / INR N) l) = INR (hist_total l) / INR N.
Proof. intros HN. pose proof (INR_pos_ne N HN) as Hne. induction l as [|a l IH].
  - cbn. unfold Rdiv. lra.
  - cbn [map lsumR hist_total fold_right]. fold (hist_total l). rewrite IH, plus_INR. field. exact Hne. Qed.

(* ================================================================================================== *)
(* 2. one bin                                                                                           *)
(* ================================================================================================== *)
(* the float test `raw_bin_values == 0` is the integer test `count == 0` *)
Lemma bin_prob_eq N c : (0 < N)%nat -> bin_prob N c = if (c =? 0)%nat then 1 else INR c / INR N.
Proof. intros HN. pose proof (lt_0_INR N HN) as Hn. unfold bin_prob. cbv zeta.
  destruct (c =? 0)%nat eqn:E.
  - apply Nat.eqb_eq in E. subst c. destruct (Req_EM_T (INR 0 / INR N) 0) as [_|Hne]; [reflexivity|].
    exfalso. apply Hne. cbn. unfold Rdiv. lra.
  - apply Nat.eqb_neq in E. destruct (Req_EM_T (INR c / INR N) 0) as [He|_]; [|reflexivity].
    exfalso. assert (Hc : 0 < INR c) by (apply lt_0_INR; lia).
    pose proof (Rdiv_lt_0_compat _ _ Hc Hn). lra. Qed.
Lemma pr_pos N c : (0 < N)%nat -> (0 < c)%nat -> 0 < INR c / INR N.
Proof. intros HN Hc. apply Rdiv_lt_0_compat; apply lt_0_INR; assumption. Qed.
Lemma pr_le1 N c : (0 < N)%nat -> (c <= N)%nat -> INR c / INR N <= 1.
Proof. intros HN Hc. apply div_le_1; [apply lt_0_INR; exact HN|apply le_INR; exact Hc]. Qed.
Lemma log2R_1 : log2R 1 = 0.
Proof. unfold log2R. rewrite ln_1. unfold Rdiv. lra. Qed.

(* a zero bin (replaced by 1) contributes 1 * log2 1 = 0 *)
Lemma hterm_zero N : (0 < N)%nat -> bin_prob N 0 * log2R (bin_prob N 0) = 0.
Proof. intros HN. rewrite (bin_prob_eq N 0 HN). cbn [Nat.eqb]. rewrite log2R_1. lra. Qed.
(* a bin holding everything contributes 1 * log2 1 = 0 *)
Lemma hterm_full N : (0 < N)%nat -> bin_prob N N * log2R (bin_prob N N) = 0.
Proof. intros HN. rewrite (bin_prob_eq N N HN). destruct (N =? 0)%nat eqn:E; [apply Nat.eqb_eq in E; lia|].
  assert (E1 : INR N / INR N = 1) by (field; apply INR_pos_ne; exact HN). rewrite E1, log2R_1. lra. Qed.
Lemma hterm_nonpos N c : (0 < N)%nat -> (c <= N)%nat -> bin_prob N c * log2R (bin_prob N c) <= 0.
Proof. intros HN Hc. destruct (Nat.eq_dec c 0) as [->|Hne]; [rewrite hterm_zero by exact HN; lra|].
  rewrite (bin_prob_eq N c HN). destruct (c =? 0)%nat eqn:E; [apply Nat.eqb_eq in E; lia|].
  assert (Hp : 0 < INR c / INR N) by (apply pr_pos; lia). assert (Hp1 := pr_le1 N c HN Hc).
  set (p := INR c / INR N) in *. pose proof (ln_le_minus_one p Hp) as Hl. pose proof ln2_pos as H2.
  assert (Hi : 0 < / ln 2) by (apply Rinv_0_lt_compat; exact H2).
  unfold log2R, Rdiv. assert (A : ln p * / ln 2 <= 0) by nra. nra. Qed.
(* a bin with 0 < c < N contributes a strictly negative term *)
Lemma hterm_zero_inv N c : (0 < N)%nat -> (c <= N)%nat -> bin_prob N c * log2R (bin_prob N c) = 0 -> c = 0%nat \/ c = N.
Proof. intros HN Hc H. destruct (Nat.eq_dec c 0) as [->|Hne]; [left; reflexivity|]. right.
  rewrite (bin_prob_eq N c HN) in H. destruct (c =? 0)%nat eqn:E; [apply Nat.eqb_eq in E; lia|].
  assert (Hp : 0 < INR c / INR N) by (apply pr_pos; lia).
  set (p := INR c / INR N) in *. pose proof ln2_pos as H2.
  assert (Hl : ln p = 0).
  { unfold log2R in H. apply Rmult_integral in H. destruct H as [H|H]; [lra|].
    unfold Rdiv in H. apply Rmult_integral in H. destruct H as [H|H]; [exact H|].
    exfalso. pose proof (Rinv_0_lt_compat _ H2). lra. }
  assert (Ep : p = 1) by (apply ln_inv; [exact Hp|lra|rewrite ln_1; exact Hl]).
  apply INR_eq. unfold p in Ep. pose proof (INR_pos_ne N HN) as Hn.
  assert (E2 : INR c = INR c / INR N * INR N) by (field; exact Hn). rewrite E2, Ep. lra. Qed.

(* Gibbs, one bin, against the uniform weight 1/k *)
Lemma gibbs_bin N c k : (0 < N)%nat -> 0 < k ->
  INR c / INR N <= (bin_prob N c * ln (bin_prob N c) + INR c / INR N * ln k) + / k.
Proof. intros HN Hk. pose proof (Rinv_0_lt_compat k Hk) as Hik. rewrite (bin_prob_eq N c HN).
  destruct (c =? 0)%nat eqn:E.
  - apply Nat.eqb_eq in E. subst c. cbn [INR]. rewrite ln_1. unfold Rdiv. lra.
  - apply Nat.eqb_neq in E. assert (Hp : 0 < INR c / INR N) by (apply pr_pos; lia).
    set (p := INR c / INR N) in *. pose proof (gibbs_cell p (/ k) Hp Hik) as G. rewrite (ln_Rinv k Hk) in G. lra. Qed.

(* ================================================================================================== *)
(* 3. the entropy of a histogram                                                                        *)
(* ================================================================================================== *)
Lemma hist_entropy_ln counts :
  hist_entropy counts
  = - lsumR (map (fun c => bin_prob (hist_total counts) c * ln (bin_prob (hist_total counts) c)) counts) / ln 2.
Proof. unfold hist_entropy. cbv zeta. set (N := hist_total counts).
  rewrite (lsumR_map_ext _ (fun c => (bin_prob N c * ln (bin_prob N c)) * / ln 2) counts)
    by (intros c _; unfold log2R, Rdiv; ring).
  rewrite lsumR_map_scal. unfold Rdiv. ring. Qed.

Lemma gibbs_sum N counts : (0 < N)%nat -> hist_total counts = N ->
  0 <= lsumR (map (fun c => bin_prob N c * ln (bin_prob N c)) counts) + ln (INR (length counts)).
Proof. intros HN EN. assert (HK : (0 < length counts)%nat) by (apply hist_total_pos_length; lia).
  pose proof (lt_0_INR _ HK) as Hk. set (k := INR (length counts)) in *.
  pose proof (lsumR_map_le _ _ counts (fun c _ => gibbs_bin N c k HN Hk)) as H.
  rewrite !lsumR_map_plus, lsumR_map_scal, lsumR_map_const, (lsumR_pr N counts HN), EN in H. fold k in H.
  assert (E1 : INR N / INR N = 1) by (field; apply INR_pos_ne; exact HN).
  assert (E2 : k * / k = 1) by (field; lra). rewrite E1, E2 in H. lra. Qed.

Theorem hist_entropy_nonneg counts : (0 < hist_total counts)%nat -> 0 <= hist_entropy counts.
Proof. intros HN. unfold hist_entropy. cbv zeta.
  pose proof (lsumR_map_le (fun c => bin_prob (hist_total counts) c * log2R (bin_prob (hist_total counts) c)) (fun _ => 0) counts
                (fun c Hc => hterm_nonpos _ c HN (In_le_total c counts Hc))) as H.
  rewrite lsumR_map_const in H. lra. Qed.

Theorem hist_entropy_le_log2K counts : (0 < hist_total counts)%nat -> hist_entropy counts <= log2R (INR (length counts)).
Proof. intros HN. rewrite hist_entropy_ln. pose proof (gibbs_sum _ counts HN eq_refl) as G.
  set (S := lsumR _) in *. unfold log2R, Rdiv. pose proof ln2_pos as H2.
  assert (Hi : 0 < / ln 2) by (apply Rinv_0_lt_compat; exact H2). nra. Qed.

(* entropy 0 <-> all beats in one bin *)
Theorem hist_entropy_single counts : (0 < hist_total counts)%nat ->
  (forall c, In c counts -> c = 0%nat \/ c = hist_total counts) -> hist_entropy counts = 0.
Proof. intros HN H. unfold hist_entropy. cbv zeta.
  rewrite (lsumR_map_ext _ (fun _ => 0) counts).
  - rewrite lsumR_map_const. lra.
  - intros c Hc. destruct (H c Hc) as [->| ->]; [apply hterm_zero|apply hterm_full]; exact HN. Qed.
Theorem hist_entropy_zero_inv counts : (0 < hist_total counts)%nat -> hist_entropy counts = 0 ->
  forall c, In c counts -> c = 0%nat \/ c = hist_total counts.
Proof. intros HN H0 c Hc. unfold hist_entropy in H0. cbv zeta in H0.
  apply (hterm_zero_inv _ c HN (In_le_total c counts Hc)).
  apply (lsumR_nonpos_zero (fun c => bin_prob (hist_total counts) c * log2R (bin_prob (hist_total counts) c)) counts); auto.
  - intros x Hx. apply hterm_nonpos; [exact HN|apply In_le_total; exact Hx].
  - lra. Qed.
Theorem hist_entropy_zero_iff counts : (0 < hist_total counts)%nat ->
  (hist_entropy counts = 0 <-> forall c, In c counts -> c = 0%nat \/ c = hist_total counts).
Proof. intros HN. split; [apply hist_entropy_zero_inv|apply hist_entropy_single]; exact HN. Qed.

(* the histogram of a perfect estimate (BeatInfoGain.spike: n beats in bin k, nothing elsewhere) *)
Lemma hist_total_spike_seq k n len : forall s,
  hist_total (map (fun j => if (j =? k)%nat then n else 0%nat) (seq s len))
  = if ((s <=? k)%nat && (k <? s + len)%nat)%bool then n else 0%nat.
Proof. induction len as [|len IH]; intros s.
  - cbn [seq map hist_total fold_right]. destruct ((s <=? k)%nat && (k <? s + 0)%nat)%bool eqn:E; [lia|reflexivity].
  - cbn [seq map hist_total fold_right]. fold (hist_total (map (fun j => if (j =? k)%nat then n else 0%nat) (seq (S s) len))).
    rewrite IH. destruct (s =? k)%nat eqn:E1; destruct ((S s <=? k)%nat && (k <? S s + len)%nat)%bool eqn:E2;
      destruct ((s <=? k)%nat && (k <? s + S len)%nat)%bool eqn:E3; lia. Qed.
Lemma hist_total_spike bins k n : (k < bins)%nat -> hist_total (spike bins k n) = n.
Proof. intros Hk. unfold spike. rewrite hist_total_spike_seq.
  destruct ((0 <=? k)%nat && (k <? 0 + bins)%nat)%bool eqn:E; [reflexivity|lia]. Qed.
Lemma spike_In bins k n c : In c (spike bins k n) -> c = 0%nat \/ c = n.
Proof. unfold spike. intros H. apply in_map_iff in H. destruct H as (j & <- & _). destruct (j =? k)%nat; auto. Qed.
Lemma spike_length bins k n : length (spike bins k n) = bins.
Proof. unfold spike. rewrite map_length, seq_length. reflexivity. Qed.

Theorem hist_entropy_spike bins k n : (k < bins)%nat -> (0 < n)%nat -> hist_entropy (spike bins k n) = 0.
Proof. intros Hk Hn. pose proof (hist_total_spike bins k n Hk) as ET. apply hist_entropy_single; rewrite ET; [exact Hn|].
  intros c. apply spike_In. Qed.

(* a uniform histogram has the maximal entropy *)
Lemma hist_total_repeat c K : hist_total (repeat c K) = (K * c)%nat.
Proof. induction K as [|K IH]; [reflexivity|]. cbn [repeat hist_total fold_right]. fold (hist_total (repeat c K)). rewrite IH. lia. Qed.
Theorem hist_entropy_uniform c K : (0 < c)%nat -> (0 < K)%nat -> hist_entropy (repeat c K) = log2R (INR K).
Proof. intros Hc HK. assert (HN : (0 < hist_total (repeat c K))%nat) by (rewrite hist_total_repeat; nia).
  unfold hist_entropy. cbv zeta. rewrite hist_total_repeat in *.
  pose proof (lt_0_INR _ Hc) as Hcr. pose proof (lt_0_INR _ HK) as Hkr.
  rewrite (lsumR_map_ext _ (fun _ => - (/ INR K * log2R (INR K))) (repeat c K)).
  - rewrite lsumR_map_const, repeat_length. field. lra.
  - intros x Hx. apply repeat_spec in Hx. subst x. rewrite (bin_prob_eq _ c HN).
    destruct (c =? 0)%nat eqn:E; [apply Nat.eqb_eq in E; lia|].
    assert (E1 : INR c / INR (K * c) = / INR K) by (rewrite mult_INR; field; lra).
    rewrite E1. unfold log2R. rewrite (ln_Rinv _ Hkr). unfold Rdiv. ring. Qed.

(* ================================================================================================== *)
(* 4. K-L divergence from the uniform histogram                                                         *)
(* ================================================================================================== *)
Theorem hist_entropy_is_KL counts : (0 < hist_total counts)%nat ->
  log2R (INR (length counts)) - hist_entropy counts = kl_uniform counts.
Proof. intros HN. pose proof (hist_total_pos_length _ HN) as HK. pose proof (lt_0_INR _ HK) as Hk.
  unfold kl_uniform, hist_entropy. cbv zeta. set (N := hist_total counts) in *. set (k := INR (length counts)) in *.
  rewrite (lsumR_map_ext (fun c => if (c =? 0)%nat then 0 else INR c / INR N * log2R (INR c / INR N * k))
             (fun c => bin_prob N c * log2R (bin_prob N c) + INR c / INR N * log2R k) counts).
  - rewrite lsumR_map_plus, lsumR_map_scal, (lsumR_pr N counts HN). fold N.
    assert (E1 : INR N / INR N = 1) by (field; apply INR_pos_ne; exact HN). rewrite E1. lra.
  - intros c _. rewrite (bin_prob_eq N c HN). destruct (c =? 0)%nat eqn:E.
    + apply Nat.eqb_eq in E. subst c. cbn [INR]. rewrite log2R_1. unfold Rdiv. lra.
    + apply Nat.eqb_neq in E. assert (Hp : 0 < INR c / INR N) by (apply pr_pos; lia).
      unfold log2R. rewrite (ln_mult _ _ Hp Hk). unfold Rdiv. ring. Qed.
Theorem kl_uniform_nonneg counts : (0 < hist_total counts)%nat -> 0 <= kl_uniform counts.
Proof. intros HN. rewrite <- (hist_entropy_is_KL counts HN). pose proof (hist_entropy_le_log2K counts HN). lra. Qed.

(* ================================================================================================== *)
(* 5. the score                                                                                         *)
(* ================================================================================================== *)
Lemma log2R_pos K : (2 <= K)%nat -> 0 < log2R (INR K).
Proof. intros HK. unfold log2R. apply Rdiv_lt_0_compat; [|exact ln2_pos].
  rewrite <- ln_1. apply ln_increasing; [lra|]. change 1 with (INR 1). apply lt_INR. lia. Qed.
Lemma Rmax_0_0 : Rmax 0 0 = 0.
Proof. unfold Rmax. destruct (Rle_dec 0 0); reflexivity. Qed.

(* `if forward > backward` picks the larger entropy *)
Theorem info_gain_select_eq K hf hb : info_gain_select K hf hb = info_gain_R K hf hb.
Proof. unfold info_gain_select, info_gain_R, Rmax. destruct (Rlt_dec hb hf) as [H|H]; destruct (Rle_dec hf hb) as [H'|H']; try reflexivity; exfalso; lra. Qed.

Theorem info_gain_self K : (2 <= K)%nat -> info_gain_R K 0 0 = 1.
Proof. intros HK. pose proof (log2R_pos K HK) as HL. unfold info_gain_R. rewrite Rmax_0_0. field. lra. Qed.

Lemma info_gain_R_bounds K hf hb : (2 <= K)%nat -> 0 <= hf <= log2R (INR K) -> 0 <= hb <= log2R (INR K) ->
  0 <= info_gain_R K hf hb <= 1.
Proof. intros HK Hf Hb. pose proof (log2R_pos K HK) as HL. unfold info_gain_R.
  assert (M1 : Rmax hf hb <= log2R (INR K)) by (apply Rmax_lub; lra).
  assert (M2 : 0 <= Rmax hf hb) by (pose proof (Rmax_l hf hb); lra).
  split; [apply div_nonneg; lra|apply div_le_1; lra]. Qed.

Theorem info_gain_range K hf hb : (2 <= K)%nat -> length hf = K -> length hb = K ->
  (0 < hist_total hf)%nat -> (0 < hist_total hb)%nat ->
  0 <= info_gain_R K (hist_entropy hf) (hist_entropy hb) <= 1.
Proof. intros HK Lf Lb Nf Nb. apply info_gain_R_bounds; [exact HK| |].
  - split; [apply hist_entropy_nonneg; exact Nf|rewrite <- Lf; apply hist_entropy_le_log2K; exact Nf].
  - split; [apply hist_entropy_nonneg; exact Nb|rewrite <- Lb; apply hist_entropy_le_log2K; exact Nb]. Qed.

(* the information gain is the smaller of the two K-L divergences from the uniform histogram, normalised by log2 K *)
Theorem info_gain_is_KL K hf hb : length hf = K -> length hb = K -> (0 < hist_total hf)%nat -> (0 < hist_total hb)%nat ->
  info_gain_R K (hist_entropy hf) (hist_entropy hb) = Rmin (kl_uniform hf) (kl_uniform hb) / log2R (INR K).
Proof. intros Lf Lb Nf Nb. rewrite <- (hist_entropy_is_KL hf Nf), <- (hist_entropy_is_KL hb Nb), Lf, Lb.
  unfold info_gain_R. f_equal. unfold Rmax, Rmin.
  destruct (Rle_dec (hist_entropy hf) (hist_entropy hb)); destruct (Rle_dec (log2R (INR K) - hist_entropy hf) (log2R (INR K) - hist_entropy hb)); lra. Qed.

(* score 1 exactly when both histograms are spikes *)
Theorem info_gain_one_iff K hf hb : (2 <= K)%nat -> (0 < hist_total hf)%nat -> (0 < hist_total hb)%nat ->
  (info_gain_R K (hist_entropy hf) (hist_entropy hb) = 1 <-> hist_entropy hf = 0 /\ hist_entropy hb = 0).
Proof. intros HK Nf Nb. pose proof (log2R_pos K HK) as HL.
  pose proof (hist_entropy_nonneg hf Nf) as Pf. pose proof (hist_entropy_nonneg hb Nb) as Pb.
  unfold info_gain_R. set (L := log2R (INR K)) in *. split.
  - intros H. assert (E : Rmax (hist_entropy hf) (hist_entropy hb) = 0).
    { assert (E1 : L - Rmax (hist_entropy hf) (hist_entropy hb) = (L - Rmax (hist_entropy hf) (hist_entropy hb)) / L * L) by (field; lra).
      rewrite H in E1. lra. }
    pose proof (Rmax_l (hist_entropy hf) (hist_entropy hb)). pose proof (Rmax_r (hist_entropy hf) (hist_entropy hb)). lra.
  - intros [-> ->]. rewrite Rmax_0_0. field. lra. Qed.

(* score 0 as soon as one of the two histograms is uniform *)
Theorem info_gain_uniform_zero K c h : (2 <= K)%nat -> (0 < c)%nat -> length h = K -> (0 < hist_total h)%nat ->
  info_gain_R K (hist_entropy (repeat c K)) (hist_entropy h) = 0 /\
  info_gain_R K (hist_entropy h) (hist_entropy (repeat c K)) = 0.
Proof. intros HK Hc Lh Nh. pose proof (log2R_pos K HK) as HL.
  rewrite (hist_entropy_uniform c K Hc) by lia.
  pose proof (hist_entropy_le_log2K h Nh) as Hle. rewrite Lh in Hle.
  unfold info_gain_R. rewrite (Rmax_left _ _ Hle), (Rmax_right _ _ Hle). split; field; lra. Qed.

(* bins = 1: norm = log2 1 = 0 and a one-bin histogram has entropy 0: the score is 0 / 0 (nan in NumPy) *)
Theorem info_gain_one_bin_degenerate c1 c2 : (0 < c1)%nat -> (0 < c2)%nat ->
  log2R (INR 1) = 0 /\ log2R (INR 1) - Rmax (hist_entropy [c1]) (hist_entropy [c2]) = 0.
Proof. intros H1 H2. assert (E : forall c, (0 < c)%nat -> hist_entropy [c] = 0).
  { intros c Hc. apply hist_entropy_single; cbn; [lia|]. intros x [<-|[]]. right. lia. }
  rewrite (E c1 H1), (E c2 H2), Rmax_0_0. cbn [INR]. rewrite log2R_1. split; lra. Qed.

(* ================================================================================================== *)
(* 6. composed with the histogram model                                                                 *)
(* ================================================================================================== *)
Lemma ig_counts_length bins errs : length (ig_counts bins errs) = bins.
Proof. unfold ig_counts. cbv zeta. rewrite map_length, seq_length. reflexivity. Qed.
Lemma entropy_counts_length ref est bins h : entropy_counts ref est bins = Ok h -> length h = bins.
Proof. unfold entropy_counts. destruct ref as [|r0 [|r1 rt]]; try discriminate. intros H. inversion H. apply ig_counts_length. Qed.
Lemma information_gain_counts_lengths ref est bins f b :
  information_gain_counts ref est bins = Ok (Some (f, b)) -> length f = bins /\ length b = bins.
Proof. unfold information_gain_counts. destruct (validate ref est); cbn [bind]; [|discriminate].
  destruct ((length est <=? 1)%nat || (length ref <=? 1)%nat)%bool; [discriminate|].
  destruct (entropy_counts ref est bins) as [f'|] eqn:Ef; cbn [bind]; [|discriminate].
  destruct (entropy_counts est ref bins) as [b'|] eqn:Eb; cbn [bind]; [|discriminate].
  intros H. inversion H. subst. split; eapply entropy_counts_length; eassumption. Qed.

(* C02: a beat sequence scored against itself has information gain exactly 1 (any number of bins >= 2) *)
Theorem information_gain_R_self ref bins :
  Sorted Qlt ref -> (2 <= length ref)%nat -> Forall (fun t => (t <= MAX_TIME)%Q) ref -> (2 <= bins)%nat ->
  information_gain_R ref ref bins = Ok (IGfin 1).
Proof. intros Hs Hl Hm Hb. unfold information_gain_R.
  rewrite (infogain_counts_self ref bins Hs Hl Hm) by lia. cbn [bind].
  assert (Hk : (bins / 2 < bins)%nat) by (apply Nat.div_lt; lia).
  unfold info_gain_val, entropy_val. rewrite (hist_total_spike _ _ _ Hk).
  destruct (length ref =? 0)%nat eqn:E; [apply Nat.eqb_eq in E; lia|].
  destruct (bins <=? 1)%nat eqn:E1; [apply Nat.leb_le in E1; lia|].
  rewrite (hist_entropy_spike _ _ _ Hk) by lia. rewrite info_gain_select_eq, (info_gain_self bins Hb). reflexivity. Qed.

(* C01: every finite score is in [0, 1] *)
Theorem information_gain_R_range ref est bins v : information_gain_R ref est bins = Ok (IGfin v) -> 0 <= v <= 1.
Proof. unfold information_gain_R. destruct (information_gain_counts ref est bins) as [[[f b]|]|] eqn:E; cbn [bind]; try discriminate.
  - destruct (information_gain_counts_lengths _ _ _ _ _ E) as [Lf Lb].
    unfold info_gain_val, entropy_val.
    destruct (hist_total b =? 0)%nat eqn:Eb; [discriminate|]. apply Nat.eqb_neq in Eb.
    destruct (bins <=? 1)%nat eqn:E1; [discriminate|]. apply Nat.leb_gt in E1.
    assert (Nb : (0 < hist_total b)%nat) by lia.
    assert (Hb : 0 <= hist_entropy b <= log2R (INR bins)).
    { split; [apply hist_entropy_nonneg; exact Nb|rewrite <- Lb; apply hist_entropy_le_log2K; exact Nb]. }
    destruct (hist_total f =? 0)%nat eqn:Ef; intros H; inversion H; subst v.
    + pose proof (log2R_pos bins E1) as HL. split; [apply div_nonneg; lra|apply div_le_1; lra].
    + apply Nat.eqb_neq in Ef. rewrite info_gain_select_eq. apply info_gain_range; auto; lia.
  - intros H. inversion H. lra. Qed.

(* C08: adding the same offset to all beats does not change the score *)
Theorem information_gain_R_shift s ref est bins :
  validate ref est = Ok tt -> validate (shift s ref) (shift s est) = Ok tt ->
  information_gain_R (shift s ref) (shift s est) bins = information_gain_R ref est bins.
Proof. intros V V'. unfold information_gain_R. rewrite (infogain_counts_shift s ref est bins V V'). reflexivity. Qed.

(* bins = 1: the early return 0.0 or nan, never another value *)
Theorem information_gain_R_one_bin ref est v : information_gain_R ref est 1 = Ok v -> v = IGfin 0 \/ v = IGnan.
Proof. unfold information_gain_R. destruct (information_gain_counts ref est 1) as [[[f b]|]|]; cbn [bind]; try discriminate.
  - unfold info_gain_val. destruct (entropy_val b); cbn [Nat.leb]; intros H; inversion H; auto.
  - intros H. inversion H. auto. Qed.

(* ================================================================================================== *)
(* 7. examples (the hypotheses are satisfiable; concrete values)                                        *)
(* ================================================================================================== *)
Example hist_entropy_spike_example : hist_entropy [0; 0; 4; 0; 0]%nat = 0.
Proof. apply (hist_entropy_spike 5 2 4); lia. Qed.
Example hist_entropy_two_equal_bins : hist_entropy [3; 3]%nat = 1.
Proof. change [3; 3]%nat with (repeat 3%nat 2). rewrite (hist_entropy_uniform 3 2) by lia. unfold log2R. replace (INR 2) with 2 by (cbn [INR]; lra). field. pose proof ln2_pos. lra. Qed.
Example info_gain_self_example :
  information_gain_R [5; 6; 7; 8]%Q [5; 6; 7; 8]%Q 41 = Ok (IGfin 1).
Proof. apply information_gain_R_self.
  - repeat constructor.
  - cbn. lia.
  - repeat constructor; discriminate.
  - lia. Qed.
(* duplicate annotations: the forward histogram is empty (entropy nan) and is silently ignored *)
Example info_gain_forward_nan_ignored : information_gain_R [5; 5]%Q [5; 6]%Q 4 = Ok (IGfin 1).
Proof. unfold information_gain_R.
  assert (E : information_gain_counts [5; 5]%Q [5; 6]%Q 4 = Ok (Some ([0; 0; 0; 0]%nat, [0; 0; 2; 0]%nat))) by (vm_compute; reflexivity).
  rewrite E. cbn [bind]. unfold info_gain_val, entropy_val. cbn [hist_total fold_right Nat.add Nat.eqb Nat.leb].
  rewrite (hist_entropy_spike 4 2 2 ltac:(lia) ltac:(lia) : hist_entropy [0; 0; 2; 0]%nat = 0).
  do 2 f_equal. pose proof (log2R_pos 4 ltac:(lia)). field. lra. Qed.
Example info_gain_backward_nan : information_gain_R [5; 6]%Q [5; 5]%Q 4 = Ok IGnan.
Proof. unfold information_gain_R.
  assert (E : information_gain_counts [5; 6]%Q [5; 5]%Q 4 = Ok (Some ([0; 0; 2; 0]%nat, [0; 0; 0; 0]%nat))) by (vm_compute; reflexivity).
  rewrite E. reflexivity. Qed.

Print Assumptions hist_entropy_nonneg.
Print Assumptions hist_entropy_le_log2K.
Print Assumptions hist_entropy_spike.
Print Assumptions hist_entropy_zero_iff.
Print Assumptions hist_entropy_uniform.
Print Assumptions hist_entropy_is_KL.
Print Assumptions info_gain_self.
Print Assumptions info_gain_range.
Print Assumptions info_gain_is_KL.
Print Assumptions info_gain_one_iff.
Print Assumptions info_gain_uniform_zero.
Print Assumptions info_gain_one_bin_degenerate.
Print Assumptions information_gain_R_self.
Print Assumptions information_gain_R_range.
Print Assumptions information_gain_R_shift.
