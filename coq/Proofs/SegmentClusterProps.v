(* C16 (Q part) and the related C01/C02/C06/C08 rows for the frame-clustering metrics of mir_eval/segment.py:
   properties of ME.Model.SegmentCluster.  Constructive, nat/Z/Q only. *)
From Coq Require Import List Bool Arith ZArith QArith Qabs Lia Lqa ZifyBool Permutation Sorted.
From ME Require Import Model.Prelude Model.SegmentCluster.
Import ListNotations.
Local Open Scope nat_scope.

(* ================================================================================================== *)
(* 0. small list / sum facts                                                                           *)
(* ================================================================================================== *)
Lemma nsum_app a b : nsum (a ++ b) = nsum a + nsum b.
Proof. induction a as [|x a IH]; cbn [nsum fold_right app] in *; [reflexivity|]. fold (nsum (a ++ b)). fold (nsum a). lia. Qed.
Lemma nsum_cons x l : nsum (x :: l) = x + nsum l. Proof. reflexivity. Qed.
Lemma nsum_map_add {A} (f g : A -> nat) l : nsum (map (fun x => f x + g x) l) = nsum (map f l) + nsum (map g l).
Proof. induction l as [|x l IH]; [reflexivity|]. cbn [map]. rewrite !nsum_cons, IH. lia. Qed.
Lemma nsum_map_mul {A} c (f : A -> nat) l : nsum (map (fun x => c * f x) l) = c * nsum (map f l).
Proof. induction l as [|x l IH]; [cbn; lia|]. cbn [map]. rewrite !nsum_cons, IH. lia. Qed.
Lemma nsum_map_const {A} c (l : list A) : nsum (map (fun _ => c) l) = c * length l.
Proof. induction l as [|x l IH]; [cbn; lia|]. cbn [map length]. rewrite nsum_cons, IH. lia. Qed.
Lemma nsum_map_ext_in {A} (f g : A -> nat) l : (forall x, In x l -> f x = g x) -> nsum (map f l) = nsum (map g l).
Proof. intros H. f_equal. apply map_ext_in. exact H. Qed.
Lemma nsum_map_le {A} (f g : A -> nat) l : (forall x, In x l -> f x <= g x) -> nsum (map f l) <= nsum (map g l).
Proof. induction l as [|x l IH]; intros H; [cbn; lia|]. cbn [map]. rewrite !nsum_cons.
  specialize (H x (or_introl eq_refl)) as Hx. specialize (IH (fun y Hy => H y (or_intror Hy))). lia. Qed.
Lemma nsum_concat (m : list (list nat)) : nsum (concat m) = nsum (map nsum m).
Proof. induction m as [|r m IH]; [reflexivity|]. cbn [concat map]. rewrite nsum_app, nsum_cons, IH. reflexivity. Qed.
Lemma map_seq_nth {A B} (f : A -> B) (l : list A) d : map (fun i => f (nth i l d)) (seq 0 (length l)) = map f l.
Proof. rewrite <- (map_map (fun i => nth i l d) f). f_equal.
  induction l as [|x l IH]; [reflexivity|]. cbn [length seq map nth]. f_equal. rewrite <- seq_shift, map_map. exact IH. Qed.
Lemma concat_map_prod {A B C} (f : A -> B -> C) la lb :
  concat (map (fun a => map (fun b => f a b) lb) la) = map (fun p => f (fst p) (snd p)) (list_prod la lb).
Proof. induction la as [|a la IH]; [reflexivity|]. cbn [map concat list_prod]. rewrite map_app, map_map, IH. reflexivity. Qed.
Lemma NoDup_app_intro {A} (a b : list A) : NoDup a -> NoDup b -> (forall x, In x a -> ~ In x b) -> NoDup (a ++ b).
Proof. intros Ha Hb Hd. induction Ha as [|x a Hn Ha IH]; [exact Hb|]. cbn [app]. constructor.
  - intros Hi. apply in_app_or in Hi. destruct Hi as [Hi|Hi]; [exact (Hn Hi)|]. exact (Hd x (or_introl eq_refl) Hi).
  - apply IH. intros y Hy. apply Hd. now right. Qed.
Lemma NoDup_list_prod' {A B} (la : list A) (lb : list B) : NoDup la -> NoDup lb -> NoDup (list_prod la lb).
Proof. intros Ha Hb. induction Ha as [|a la Hn Ha IH]; [constructor|]. cbn [list_prod].
  apply NoDup_app_intro; [|exact IH|].
  - clear -Hb. induction Hb as [|b lb Hn Hb IH]; [constructor|]. cbn [map]. constructor; [|exact IH].
    intros Hi. apply in_map_iff in Hi. destruct Hi as [b' [E Hi]]. inversion E; subst. exact (Hn Hi).
  - intros [a' b'] Hi Hj. apply in_map_iff in Hi. destruct Hi as [b'' [E _]]. inversion E; subst.
    apply in_prod_iff in Hj. exact (Hn (proj1 Hj)). Qed.
Lemma filter_length_map {A B} (f : A -> B) (p : B -> bool) l : length (filter p (map f l)) = length (filter (fun x => p (f x)) l).
Proof. induction l as [|x l IH]; [reflexivity|]. cbn [map filter]. destruct (p (f x)); cbn [length]; rewrite IH; reflexivity. Qed.
Lemma filter_length_ext_in {A} (p q : A -> bool) l : (forall x, In x l -> p x = q x) -> length (filter p l) = length (filter q l).
Proof. intros H. rewrite (filter_ext_in p q l H). reflexivity. Qed.
Lemma filter_length_le {A} (p : A -> bool) l : length (filter p l) <= length l.
Proof. induction l as [|x l IH]; [cbn; lia|]. cbn [filter]. destruct (p x); cbn [length]; lia. Qed.
Lemma zip_with_map {A B A' B' C} (f : A' -> B' -> C) (g : A -> A') (h : B -> B') a b :
  zip_with f (map g a) (map h b) = map (fun p => f (g (fst p)) (h (snd p))) (combine a b).
Proof. revert b. induction a as [|x a IH]; intros [|y b]; cbn [map zip_with combine]; try reflexivity. f_equal. apply IH. Qed.
Lemma map_fst_combine {A B} (a : list A) (b : list B) : length a = length b -> map fst (combine a b) = a.
Proof. revert b. induction a as [|x a IH]; intros [|y b] H; cbn in *; try lia; [reflexivity|]. f_equal. apply IH. lia. Qed.
Lemma map_snd_combine {A B} (a : list A) (b : list B) : length a = length b -> map snd (combine a b) = b.
Proof. revert b. induction a as [|x a IH]; intros [|y b] H; cbn in *; try lia; [reflexivity|]. f_equal. apply IH. lia. Qed.
Lemma combine_swap {A B} (a : list A) (b : list B) : combine b a = map (fun p => (snd p, fst p)) (combine a b).
Proof. revert b. induction a as [|x a IH]; intros [|y b]; cbn [combine map]; try reflexivity. f_equal. apply IH. Qed.

(* ================================================================================================== *)
(* 1. double counting: sums over ordered pairs of frames                                               *)
(* ================================================================================================== *)
Definition b2n (b : bool) : nat := if b then 1 else 0.
(* number of ordered pairs (p, q) of positions of l with h l_p l_q *)
Definition dcount {A} (h : A -> A -> bool) (l : list A) : nat := nsum (map (fun p => length (filter (h p) l)) l).

Lemma bcount_map {A} (h : A -> bool) l : bcount (map h l) = length (filter h l).
Proof. unfold bcount. rewrite (filter_length_map h (fun b => b)). reflexivity. Qed.
Lemma msum_rel {A} (h : A -> A -> bool) l : msum (map (fun p => map (h p) l) l) = dcount h l.
Proof. unfold msum, dcount. rewrite map_map. apply nsum_map_ext_in. intros p _. apply bcount_map. Qed.
Lemma dcount_map {A B} (f : A -> B) (h : B -> B -> bool) l : dcount h (map f l) = dcount (fun p q => h (f p) (f q)) l.
Proof. unfold dcount. rewrite map_map. apply nsum_map_ext_in. intros p _. apply filter_length_map. Qed.
Lemma dcount_ext_in {A} (h1 h2 : A -> A -> bool) l : (forall p q, In p l -> In q l -> h1 p q = h2 p q) -> dcount h1 l = dcount h2 l.
Proof. intros H. unfold dcount. apply nsum_map_ext_in. intros p Hp. apply filter_length_ext_in. intros q Hq. apply H; assumption. Qed.
Lemma filter_length_impl {A} (p q : A -> bool) l : (forall x, In x l -> p x = true -> q x = true) -> length (filter p l) <= length (filter q l).
Proof. induction l as [|x l IH]; intros H; [cbn; lia|]. cbn [filter].
  specialize (IH (fun y Hy => H y (or_intror Hy))). specialize (H x (or_introl eq_refl)).
  destruct (p x); [rewrite H by reflexivity|destruct (q x)]; cbn [length]; lia. Qed.
Lemma dcount_mono {A} (h1 h2 : A -> A -> bool) l : (forall p q, In p l -> In q l -> h1 p q = true -> h2 p q = true) -> dcount h1 l <= dcount h2 l.
Proof. intros H. unfold dcount. apply nsum_map_le. intros p Hp. apply filter_length_impl. intros q Hq. apply H; assumption. Qed.
Lemma dcount_le_sq {A} (h : A -> A -> bool) l : dcount h l <= length l * length l.
Proof. unfold dcount. rewrite <- (nsum_map_const (length l) l). apply nsum_map_le. intros p _. apply filter_length_le. Qed.
Lemma filter_incl_excl {A} (x y : A -> bool) l :
  length (filter (fun q => negb (x q) && negb (y q)) l) + length (filter x l) + length (filter y l)
  = length l + length (filter (fun q => x q && y q) l).
Proof. induction l as [|q l IH]; [reflexivity|]. cbn [filter]. destruct (x q), (y q); cbn [negb andb length]; lia. Qed.
Lemma dcount_incl_excl {A} (x y : A -> A -> bool) l :
  dcount (fun p q => negb (x p q) && negb (y p q)) l + dcount x l + dcount y l
  = length l * length l + dcount (fun p q => x p q && y p q) l.
Proof. unfold dcount. rewrite <- !nsum_map_add. rewrite <- (nsum_map_const (length l) l) at 1.
  rewrite <- nsum_map_add. apply nsum_map_ext_in. intros p _. apply filter_incl_excl. Qed.
Lemma dcount_diag {A} (h : A -> A -> bool) l : (forall p, In p l -> h p p = true) -> length l <= dcount h l.
Proof. intros H. unfold dcount. rewrite <- (Nat.mul_1_l (length l)), <- nsum_map_const. apply nsum_map_le. intros p Hp.
  specialize (H p Hp). clear -H Hp. induction l as [|q l IH]; [destruct Hp|]. cbn [filter]. destruct Hp as [->|Hp].
  - rewrite H. cbn [length]. lia.
  - specialize (IH Hp). destruct (h p q); cbn [length]; lia. Qed.

(* ================================================================================================== *)
(* 2. grouping: a sum over frames is a sum over classes weighted by class size                         *)
(* ================================================================================================== *)
Section Group.
Context {A : Type} (eqb : A -> A -> bool) (eqb_eq : forall a b, eqb a b = true <-> a = b).
Definition cnt (u : A) (l : list A) : nat := length (filter (eqb u) l).
Lemma cnt_cons u x l : cnt u (x :: l) = b2n (eqb u x) + cnt u l.
Proof. unfold cnt. cbn [filter]. destruct (eqb u x); reflexivity. Qed.
Lemma eqb_refl' a : eqb a a = true. Proof. apply eqb_eq. reflexivity. Qed.
Lemma eqb_neq a b : a <> b -> eqb a b = false.
Proof. intros H. destruct (eqb a b) eqn:E; [apply eqb_eq in E; contradiction|reflexivity]. Qed.
Lemma cnt_pos u l : In u l -> 1 <= cnt u l.
Proof. induction l as [|x l IH]; intros H; [destruct H|]. rewrite cnt_cons. destruct H as [->|H]; [rewrite eqb_refl'; cbn; lia|].
  specialize (IH H). lia. Qed.
Lemma cnt_notin u l : ~ In u l -> cnt u l = 0.
Proof. induction l as [|x l IH]; intros H; [reflexivity|]. rewrite cnt_cons, IH by (intros F; apply H; now right).
  rewrite eqb_neq; [reflexivity|]. intros ->. apply H. now left. Qed.
Lemma group_sum (g : A -> nat) U : NoDup U -> forall l, (forall x, In x l -> In x U) ->
  nsum (map g l) = nsum (map (fun u => cnt u l * g u) U).
Proof. intros ND. induction l as [|x l IH]; intros Hin.
  - cbn [map]. change (nsum []) with 0. symmetry. transitivity (nsum (map (fun _ : A => 0) U)); [apply nsum_map_ext_in; intros; reflexivity|]. rewrite nsum_map_const. lia.
  - cbn [map]. rewrite nsum_cons, IH by (intros; apply Hin; now right).
    assert (Hx : In x U) by (apply Hin; now left). clear IH Hin.
    transitivity (nsum (map (fun u => b2n (eqb u x) * g u + cnt u l * g u) U)).
    + rewrite nsum_map_add. f_equal. clear -ND Hx eqb_eq. induction ND as [|u U Hn ND IH]; [destruct Hx|].
      cbn [map]. rewrite nsum_cons. destruct Hx as [->|Hx].
      * rewrite eqb_refl'. cbn [b2n]. transitivity (g x + 0); [lia|]. f_equal; [lia|].
        symmetry. transitivity (nsum (map (fun _ : A => 0) U)); [|rewrite nsum_map_const; lia].
        apply nsum_map_ext_in. intros v Hv. rewrite eqb_neq; [reflexivity|]. intros ->. exact (Hn Hv).
      * rewrite eqb_neq; [|intros ->; exact (Hn Hx)]. cbn [b2n]. rewrite <- IH by exact Hx. lia.
    + apply nsum_map_ext_in. intros u _. rewrite cnt_cons. lia. Qed.
Lemma group_card U : NoDup U -> forall l, (forall x, In x l -> In x U) -> nsum (map (fun u => cnt u l) U) = length l.
Proof. intros ND l H. rewrite <- (Nat.mul_1_l (length l)), <- nsum_map_const. rewrite (group_sum (fun _ => 1) U ND l H).
  apply nsum_map_ext_in. intros; lia. Qed.
Lemma dcount_eqb l : dcount eqb l = nsum (map (fun p => cnt p l) l). Proof. reflexivity. Qed.
Lemma dcount_group U l : NoDup U -> (forall x, In x l -> In x U) -> dcount eqb l = nsum (map (fun u => cnt u l * cnt u l) U).
Proof. intros ND H. rewrite dcount_eqb. apply (group_sum (fun p => cnt p l) U ND l H). Qed.
End Group.
Arguments cnt {A} eqb u l.

(* ================================================================================================== *)
(* 3. np.unique and the class index                                                                    *)
(* ================================================================================================== *)
Lemma In_ins_nat x y l : In y (ins_nat x l) <-> y = x \/ In y l.
Proof. induction l as [|z l IH]; cbn [ins_nat].
  - cbn. intuition.
  - destruct (x <? z) eqn:E1; [cbn; intuition|]. destruct (x =? z) eqn:E2.
    + apply Nat.eqb_eq in E2. subst. cbn. intuition.
    + cbn [In]. rewrite IH. intuition. Qed.
Lemma In_uniq x l : In x (uniq l) <-> In x l.
Proof. induction l as [|a l IH]; [reflexivity|]. change (uniq (a :: l)) with (ins_nat a (uniq l)).
  rewrite In_ins_nat, IH. cbn. intuition. Qed.
Definition incr (l : list nat) : Prop := StronglySorted lt l.
Lemma ins_nat_sorted x l : incr l -> incr (ins_nat x l).
Proof. induction 1 as [|z l Hs IH Hf]; cbn [ins_nat]; [repeat constructor|].
  destruct (x <? z) eqn:E1.
  - apply Nat.ltb_lt in E1. constructor; [constructor; assumption|]. constructor; [exact E1|].
    rewrite Forall_forall in *. intros y Hy. specialize (Hf y Hy). lia.
  - destruct (x =? z) eqn:E2; [constructor; assumption|]. apply Nat.ltb_ge in E1. apply Nat.eqb_neq in E2.
    constructor; [exact IH|]. rewrite Forall_forall in *. intros y Hy. apply In_ins_nat in Hy. destruct Hy as [->|Hy]; [lia|auto]. Qed.
Lemma uniq_sorted l : incr (uniq l).
Proof. induction l as [|a l IH]; [constructor|]. change (uniq (a :: l)) with (ins_nat a (uniq l)). apply ins_nat_sorted, IH. Qed.
Lemma incr_NoDup l : incr l -> NoDup l.
Proof. induction 1 as [|z l Hs IH Hf]; constructor; [|exact IH]. intros Hi. rewrite Forall_forall in Hf. specialize (Hf z Hi). lia. Qed.
Lemma uniq_NoDup l : NoDup (uniq l). Proof. apply incr_NoDup, uniq_sorted. Qed.

Lemma class_idx_cons_eq y U : class_idx (y :: U) y = 0.
Proof. unfold class_idx. cbn [find_idx]. rewrite Nat.eqb_refl. reflexivity. Qed.
Lemma class_idx_cons_neq y U x : x <> y -> class_idx (y :: U) x = S (class_idx U x).
Proof. intros H. unfold class_idx. cbn [find_idx]. apply Nat.eqb_neq in H. rewrite H.
  destruct (find_idx (Nat.eqb x) U); reflexivity. Qed.
Lemma class_idx_eqb U : NoDup U -> forall x i, In x U -> i < length U -> (class_idx U x =? i) = (x =? nth i U 0).
Proof. induction 1 as [|y U Hn ND IH]; intros x i Hx Hi; [destruct Hx|]. cbn [length] in Hi.
  destruct (Nat.eq_dec x y) as [->|Ne].
  - rewrite class_idx_cons_eq. destruct i as [|i]; cbn [nth]; [rewrite !Nat.eqb_refl; reflexivity|].
    assert (In (nth i U 0) U) by (apply nth_In; lia).
    symmetry. apply Nat.eqb_neq. intros E. rewrite E in Hn. contradiction.
  - rewrite class_idx_cons_neq by exact Ne. destruct Hx as [E|Hx]; [congruence|]. destruct i as [|i]; cbn [nth].
    + symmetry. apply Nat.eqb_neq. exact Ne.
    + change (S (class_idx U x) =? S i) with (class_idx U x =? i). apply IH; [exact Hx|lia]. Qed.

(* ================================================================================================== *)
(* 4. the contingency table by class values                                                            *)
(* ================================================================================================== *)
Definition peqb (p q : nat * nat) : bool := (fst p =? fst q) && (snd p =? snd q).
Lemma peqb_eq p q : peqb p q = true <-> p = q.
Proof. destruct p as [a b], q as [c d]. unfold peqb. cbn [fst snd]. rewrite andb_true_iff, !Nat.eqb_eq. split; [intros [-> ->]; reflexivity|intros E; inversion E; auto]. Qed.
Lemma combine_map' {A B A' B'} (f : A -> A') (g : B -> B') a b :
  combine (map f a) (map g b) = map (fun p => (f (fst p), g (snd p))) (combine a b).
Proof. revert b. induction a as [|x a IH]; intros [|y b]; cbn [map combine]; try reflexivity. f_equal. apply IH. Qed.
Lemma nth_map' {A} (f : A -> nat) l d j : j < length l -> nth j (map f l) 0 = f (nth j l d).
Proof. intros H. rewrite (nth_indep _ 0 (f d)) by (rewrite map_length; exact H). apply map_nth. Qed.

(* number of frames k with yr_k = u and ye_k = v *)
Definition joint (yr ye : list nat) (u v : nat) : nat := cnt peqb (u, v) (combine yr ye).
Lemma joint_swap yr ye u v : joint ye yr v u = joint yr ye u v.
Proof. unfold joint, cnt. rewrite (combine_swap yr ye), filter_length_map. apply filter_length_ext_in.
  intros [a b] _. unfold peqb. cbn [fst snd]. apply andb_comm. Qed.
Lemma contingency_by_values yr ye :
  contingency_tab yr ye = map (fun u => map (fun v => joint yr ye u v) (uniq ye)) (uniq yr).
Proof. unfold contingency_tab. set (U := uniq yr). set (V := uniq ye).
  rewrite <- (map_seq_nth (fun u => map (fun v => joint yr ye u v) V) U 0). apply map_ext_in. intros i Hi. apply in_seq in Hi.
  rewrite <- (map_seq_nth (fun v => joint yr ye (nth i U 0) v) V 0). apply map_ext_in. intros j Hj. apply in_seq in Hj.
  unfold count_pair, joint, cnt. rewrite combine_map', filter_length_map. apply filter_length_ext_in.
  intros [a b] Hab. cbn [fst snd]. unfold peqb. cbn [fst snd].
  assert (Ha : In a U) by (apply In_uniq; exact (in_combine_l _ _ _ _ Hab)).
  assert (Hb : In b V) by (apply In_uniq; exact (in_combine_r _ _ _ _ Hab)).
  rewrite (class_idx_eqb U (uniq_NoDup yr) a i Ha) by lia. rewrite (class_idx_eqb V (uniq_NoDup ye) b j Hb) by lia.
  rewrite (Nat.eqb_sym a), (Nat.eqb_sym b). reflexivity. Qed.

Lemma indicator_sum V b : NoDup V -> In b V -> nsum (map (fun v => b2n (v =? b)) V) = 1.
Proof. intros ND Hb. rewrite <- (group_card Nat.eqb Nat.eqb_eq V ND [b]) at 1.
  - apply nsum_map_ext_in. intros v _. unfold cnt. cbn [filter]. destruct (v =? b); reflexivity.
  - intros x [<-|[]]. exact Hb. Qed.
Lemma joint_sum_r V : NoDup V -> forall yr ye u, (forall y, In y ye -> In y V) -> length yr = length ye ->
  nsum (map (fun v => joint yr ye u v) V) = cnt Nat.eqb u yr.
Proof. intros ND. induction yr as [|a yr IH]; intros [|b ye] u Hin Hl; cbn [length] in Hl; try discriminate.
  - unfold joint. cbn [combine]. unfold cnt. cbn [filter length]. rewrite nsum_map_const. lia.
  - unfold joint. cbn [combine]. rewrite cnt_cons.
    transitivity (nsum (map (fun v => b2n (peqb (u, v) (a, b)) + joint yr ye u v) V)).
    { apply nsum_map_ext_in. intros v _. unfold joint. rewrite cnt_cons. reflexivity. }
    rewrite nsum_map_add, IH; [|intros y Hy; apply Hin; now right|lia]. f_equal.
    unfold peqb. cbn [fst snd]. destruct (u =? a).
    + cbn [andb]. apply indicator_sum; [exact ND|]. apply Hin. now left.
    + cbn [andb b2n]. rewrite nsum_map_const. lia. Qed.

Lemma col_sums_transpose C m : col_sums C m = row_sums (transpose C m).
Proof. unfold col_sums, row_sums, transpose. rewrite map_map. reflexivity. Qed.

(* contingency_swap: exchanging the two labellings transposes the table *)
Theorem contingency_swap yr ye : contingency_tab ye yr = transpose (length (uniq ye)) (contingency_tab yr ye).
Proof. rewrite !contingency_by_values. unfold transpose. set (U := uniq yr). set (V := uniq ye).
  rewrite <- (map_seq_nth (fun v => map (fun u => joint ye yr v u) U) V 0). apply map_ext_in. intros j Hj. apply in_seq in Hj.
  rewrite map_map. apply map_ext. intros u. rewrite (nth_map' (fun v => joint yr ye u v) V 0) by lia. apply joint_swap. Qed.

Lemma row_sums_tab yr ye : length yr = length ye ->
  row_sums (contingency_tab yr ye) = map (fun u => cnt Nat.eqb u yr) (uniq yr).
Proof. intros Hl. rewrite contingency_by_values. unfold row_sums. rewrite map_map. apply map_ext. intros u.
  apply joint_sum_r; [apply uniq_NoDup|intros y Hy; apply In_uniq; exact Hy|exact Hl]. Qed.
Lemma col_sums_tab yr ye : length yr = length ye ->
  col_sums (length (uniq ye)) (contingency_tab yr ye) = map (fun v => cnt Nat.eqb v ye) (uniq ye).
Proof. intros Hl. rewrite col_sums_transpose, <- contingency_swap. apply row_sums_tab. symmetry. exact Hl. Qed.
Lemma concat_tab yr ye :
  concat (contingency_tab yr ye) = map (fun p => cnt peqb p (combine yr ye)) (list_prod (uniq yr) (uniq ye)).
Proof. rewrite contingency_by_values, concat_map_prod. apply map_ext. intros [u v]. reflexivity. Qed.

(* contingency_spec *)
Theorem contingency_spec yr ye : length yr = length ye ->
  let U := uniq yr in let V := uniq ye in let tab := contingency_tab yr ye in
  length tab = length U /\ (forall row, In row tab -> length row = length V) /\
  (forall i j, i < length U -> j < length V ->
     nth j (nth i tab []) 0 = length (filter (fun p => (fst p =? nth i U 0) && (snd p =? nth j V 0)) (combine yr ye))) /\
  row_sums tab = map (fun u => length (filter (Nat.eqb u) yr)) U /\
  col_sums (length V) tab = map (fun v => length (filter (Nat.eqb v) ye)) V /\
  nsum (row_sums tab) = length yr /\ nsum (col_sums (length V) tab) = length yr /\ nsum (concat tab) = length yr.
Proof. intros Hl U V tab. assert (HR := row_sums_tab yr ye Hl). assert (HC := col_sums_tab yr ye Hl). fold U V tab in HR, HC.
  repeat split.
  - unfold tab, contingency_tab. rewrite map_length, seq_length. reflexivity.
  - intros row Hr. unfold tab, contingency_tab in Hr. apply in_map_iff in Hr. destruct Hr as [i [<- _]]. rewrite map_length, seq_length. reflexivity.
  - intros i j Hi Hj. unfold tab. rewrite contingency_by_values. fold U V.
    rewrite (nth_indep _ [] ((fun u => map (fun v => joint yr ye u v) V) 0)) by (rewrite map_length; exact Hi).
    rewrite (map_nth (fun u => map (fun v => joint yr ye u v) V) U 0 i). rewrite (nth_map' (fun v => joint yr ye (nth i U 0) v) V 0) by exact Hj.
    unfold joint, cnt. apply filter_length_ext_in. intros [a b] _. unfold peqb. cbn [fst snd]. rewrite (Nat.eqb_sym a), (Nat.eqb_sym b). reflexivity.
  - exact HR.
  - exact HC.
  - rewrite HR. apply (group_card Nat.eqb Nat.eqb_eq U (uniq_NoDup yr) yr). intros x Hx. apply In_uniq. exact Hx.
  - rewrite HC, Hl. apply (group_card Nat.eqb Nat.eqb_eq V (uniq_NoDup ye) ye). intros x Hx. apply In_uniq. exact Hx.
  - rewrite nsum_concat. fold (row_sums tab). rewrite HR. apply (group_card Nat.eqb Nat.eqb_eq U (uniq_NoDup yr) yr). intros x Hx. apply In_uniq. exact Hx. Qed.

(* ================================================================================================== *)
(* 5. C(n,2) and the three pair-count identities                                                       *)
(* ================================================================================================== *)
Lemma comb2_S n : comb2 (S n) = comb2 n + n.
Proof. unfold comb2. destruct n as [|n]; [reflexivity|].
  replace (S (S n) * (S (S n) - 1)) with (S n * (S n - 1) + S n * 2) by (replace (S (S n) - 1) with (S n) by lia; replace (S n - 1) with n by lia; lia).
  apply Nat.div_add. lia. Qed.
Lemma sq_comb2 c : c * c = c + 2 * comb2 c.
Proof. induction c as [|c IH]; [reflexivity|]. rewrite comb2_S. lia. Qed.
Lemma comb2_add a b : comb2 (a + b) = comb2 a + comb2 b + a * b.
Proof. induction a as [|a IH]; [cbn; lia|]. change (S a + b) with (S (a + b)). rewrite !comb2_S, IH. lia. Qed.
Lemma comb2_zero c : comb2 c = 0 -> c <= 1.
Proof. destruct c as [|[|c]]; [lia|lia|]. rewrite !comb2_S. lia. Qed.
Lemma comb2_sum_le L : nsum (map comb2 L) <= comb2 (nsum L).
Proof. induction L as [|a L IH]; [cbn; lia|]. cbn [map]. rewrite !nsum_cons, comb2_add. lia. Qed.
Lemma comb2_sum_zero L : (forall x, In x L -> 1 <= x) -> nsum (map comb2 L) = 0 -> nsum L = length L.
Proof. induction L as [|a L IH]; intros Hp Hz; [reflexivity|]. cbn [map length] in *. rewrite nsum_cons in *.
  assert (Ha := Hp a (or_introl eq_refl)). assert (comb2 a = 0) by lia. apply comb2_zero in H.
  rewrite IH; [lia|intros x Hx; apply Hp; now right|lia]. Qed.
Lemma comb2_sum_full L : (forall x, In x L -> 1 <= x) -> nsum (map comb2 L) = comb2 (nsum L) -> length L <= 1.
Proof. destruct L as [|a [|b L]]; intros Hp He; cbn [length]; try lia. exfalso.
  cbn [map] in He. rewrite !nsum_cons in He. rewrite comb2_add in He.
  assert (Ha := Hp a (or_introl eq_refl)). assert (Hb := Hp b (or_intror (or_introl eq_refl))).
  assert (Hs := comb2_sum_le (b :: L)). cbn [map] in Hs. rewrite !nsum_cons in Hs.
  assert (1 <= a * (b + nsum L)) by nia. lia. Qed.

Lemma agree_msum y : msum (agree y) = dcount Nat.eqb y.
Proof. unfold agree. apply (msum_rel Nat.eqb y). Qed.
Lemma agree_length y : length (agree y) = length y. Proof. unfold agree. apply map_length. Qed.
Lemma and_agree yr ye :
  zip_with (zip_with andb) (agree yr) (agree ye) = map (fun p => map (peqb p) (combine yr ye)) (combine yr ye).
Proof. unfold agree. rewrite zip_with_map. apply map_ext. intros [a b]. cbn [fst snd]. rewrite zip_with_map. reflexivity. Qed.
Lemma and_bnot_agree yr ye :
  zip_with (zip_with andb) (bnot (agree yr)) (bnot (agree ye))
  = map (fun p => map (fun q => negb (fst p =? fst q) && negb (snd p =? snd q)) (combine yr ye)) (combine yr ye).
Proof. unfold agree, bnot. rewrite !map_map, zip_with_map. apply map_ext. intros [a b]. cbn [fst snd]. rewrite !map_map, zip_with_map. reflexivity. Qed.

(* the four ordered-pair counts of the code, over z = the frame-wise pairs of class labels *)
Section Counts.
Variables yr ye : list nat.
Hypothesis Hlen : length yr = length ye.
Let z := combine yr ye.
Let n := length yr.
Lemma z_length : length z = n. Proof. unfold z, n. rewrite combine_length, <- Hlen. apply Nat.min_id. Qed.
Lemma SA_z : msum (agree yr) = dcount (fun p q => fst p =? fst q) z.
Proof. rewrite agree_msum. rewrite <- (map_fst_combine yr ye Hlen) at 1. apply dcount_map. Qed.
Lemma SB_z : msum (agree ye) = dcount (fun p q => snd p =? snd q) z.
Proof. rewrite agree_msum. rewrite <- (map_snd_combine yr ye Hlen) at 1. apply dcount_map. Qed.
Lemma SM_z : msum (zip_with (zip_with andb) (agree yr) (agree ye)) = dcount peqb z.
Proof. rewrite and_agree. apply msum_rel. Qed.
Lemma SN_z : msum (zip_with (zip_with andb) (bnot (agree yr)) (bnot (agree ye)))
  = dcount (fun p q => negb (fst p =? fst q) && negb (snd p =? snd q)) z.
Proof. rewrite and_bnot_agree. apply (msum_rel (fun p q => negb (fst p =? fst q) && negb (snd p =? snd q)) z). Qed.

Let tab := contingency_tab yr ye.
Definition sumA := nsum (map comb2 (row_sums (contingency_tab yr ye))).
Definition sumB := nsum (map comb2 (col_sums (length (uniq ye)) (contingency_tab yr ye))).
Definition sumM := nsum (map comb2 (concat (contingency_tab yr ye))).

Lemma class_sq_sum (y : list nat) : dcount Nat.eqb y = length y + 2 * nsum (map comb2 (map (fun u => cnt Nat.eqb u y) (uniq y))).
Proof. rewrite (dcount_group Nat.eqb Nat.eqb_eq (uniq y) y (uniq_NoDup y)) by (intros x Hx; apply In_uniq; exact Hx).
  rewrite map_map, <- nsum_map_mul.
  rewrite <- (group_card Nat.eqb Nat.eqb_eq (uniq y) (uniq_NoDup y) y) at 1 by (intros x Hx; apply In_uniq; exact Hx).
  rewrite <- nsum_map_add. apply nsum_map_ext_in. intros u _. apply sq_comb2. Qed.
(* agreement counting = sums of binomials of the table margins / cells *)
Lemma SA_id : msum (agree yr) = n + 2 * sumA.
Proof. rewrite agree_msum, class_sq_sum. unfold sumA. rewrite (row_sums_tab yr ye Hlen). reflexivity. Qed.
Lemma SB_id : msum (agree ye) = n + 2 * sumB.
Proof. rewrite agree_msum, class_sq_sum. unfold sumB. rewrite (col_sums_tab yr ye Hlen). unfold n. rewrite Hlen. reflexivity. Qed.
Lemma z_in_prod p : In p z -> In p (list_prod (uniq yr) (uniq ye)).
Proof. destruct p as [a b]. intros H. apply in_prod_iff. split; apply In_uniq; [exact (in_combine_l _ _ _ _ H)|exact (in_combine_r _ _ _ _ H)]. Qed.
Lemma SM_id : msum (zip_with (zip_with andb) (agree yr) (agree ye)) = n + 2 * sumM.
Proof. rewrite SM_z. unfold sumM. rewrite concat_tab. fold z. set (P := list_prod (uniq yr) (uniq ye)).
  assert (ND : NoDup P) by (apply NoDup_list_prod'; apply uniq_NoDup).
  rewrite (dcount_group peqb peqb_eq P z ND z_in_prod). rewrite map_map, <- nsum_map_mul.
  rewrite <- z_length. rewrite <- (group_card peqb peqb_eq P ND z z_in_prod) at 1.
  rewrite <- nsum_map_add. apply nsum_map_ext_in. intros u _. apply sq_comb2. Qed.
Lemma SN_id : msum (zip_with (zip_with andb) (bnot (agree yr)) (bnot (agree ye))) + msum (agree yr) + msum (agree ye)
  = n * n + msum (zip_with (zip_with andb) (agree yr) (agree ye)).
Proof. rewrite SN_z, SA_z, SB_z, SM_z, <- z_length. apply (dcount_incl_excl (fun p q => fst p =? fst q) (fun p q => snd p =? snd q) z). Qed.
Lemma SM_le_SA : msum (zip_with (zip_with andb) (agree yr) (agree ye)) <= msum (agree yr).
Proof. rewrite SM_z, SA_z. apply dcount_mono. intros p q _ _ H. unfold peqb in H. apply andb_true_iff in H. tauto. Qed.
Lemma SM_le_SB : msum (zip_with (zip_with andb) (agree yr) (agree ye)) <= msum (agree ye).
Proof. rewrite SM_z, SB_z. apply dcount_mono. intros p q _ _ H. unfold peqb in H. apply andb_true_iff in H. tauto. Qed.
Lemma SA_le_sq : msum (agree yr) <= n * n. Proof. rewrite SA_z, <- z_length. apply dcount_le_sq. Qed.
Lemma SB_le_sq : msum (agree ye) <= n * n. Proof. rewrite SB_z, <- z_length. apply dcount_le_sq. Qed.
Lemma n_sq : n * n = n + 2 * comb2 n. Proof. apply sq_comb2. Qed.
Lemma sumM_le_A : sumM <= sumA. Proof. assert (H := SM_le_SA). rewrite SM_id, SA_id in H. lia. Qed.
Lemma sumM_le_B : sumM <= sumB. Proof. assert (H := SM_le_SB). rewrite SM_id, SB_id in H. lia. Qed.
Lemma sumA_le_T : sumA <= comb2 n. Proof. assert (H := SA_le_sq). rewrite SA_id, n_sq in H. lia. Qed.
Lemma sumB_le_T : sumB <= comb2 n. Proof. assert (H := SB_le_sq). rewrite SB_id, n_sq in H. lia. Qed.
(* pairs separated by both labellings: C(n,2) - A - B + M *)
Lemma SN_half : msum (zip_with (zip_with andb) (bnot (agree yr)) (bnot (agree ye))) + 2 * sumA + 2 * sumB = 2 * comb2 n + 2 * sumM.
Proof. assert (H := SN_id). rewrite SA_id, SB_id, SM_id, n_sq in H. lia. Qed.
End Counts.

(* ================================================================================================== *)
(* 6. rationals: injections, the value domain up to ==                                                 *)
(* ================================================================================================== *)
Local Open Scope Q_scope.
Lemma nQ_eq a b : a = b -> nQ a == nQ b. Proof. intros ->. reflexivity. Qed.
Lemma nQ_add a b : nQ (a + b) == nQ a + nQ b. Proof. unfold nQ. rewrite Nat2Z.inj_add, inject_Z_plus. reflexivity. Qed.
Lemma nQ_mul a b : nQ (a * b) == nQ a * nQ b. Proof. unfold nQ. rewrite Nat2Z.inj_mul, inject_Z_mult. reflexivity. Qed.
Lemma nQ_le a b : (a <= b)%nat -> nQ a <= nQ b. Proof. intros H. unfold nQ. rewrite <- Zle_Qle. lia. Qed.
Lemma nQ_lt a b : (a < b)%nat -> nQ a < nQ b. Proof. intros H. unfold nQ. rewrite <- Zlt_Qlt. lia. Qed.
Lemma nQ_nonneg a : 0 <= nQ a. Proof. change 0 with (nQ 0). apply nQ_le. lia. Qed.
Lemma nQ_pos a : (0 < a)%nat -> 0 < nQ a. Proof. intros H. change 0 with (nQ 0). apply nQ_lt. exact H. Qed.
Lemma nQ_inj a b : nQ a == nQ b -> a = b.
Proof. unfold nQ. intros H. rewrite inject_Z_injective in H. lia. Qed.
Lemma half_excess_id n k : half_excess (n + 2 * k) n == nQ k.
Proof. unfold half_excess, nQ. replace (Z.of_nat (n + 2 * k) - Z.of_nat n)%Z with (2 * Z.of_nat k)%Z by lia.
  rewrite inject_Z_mult. change (inject_Z 2) with 2. field. Qed.

Lemma qeqb_iff a b : qeqb a b = true <-> a == b. Proof. apply Qeq_bool_iff. Qed.
Lemma qeqb_false a b : qeqb a b = false <-> ~ a == b.
Proof. rewrite <- qeqb_iff. destruct (qeqb a b); split; congruence. Qed.
Lemma qltb_iff a b : qltb a b = true <-> a < b.
Proof. unfold qltb. rewrite negb_true_iff. split.
  - intros H. apply Qnot_le_lt. intros L. apply Qle_bool_iff in L. congruence.
  - intros H. destruct (Qle_bool b a) eqn:E; [|reflexivity]. apply Qle_bool_iff in E. exfalso. exact (Qlt_not_le _ _ H E). Qed.
Lemma qeqb_compat a a' b b' : a == a' -> b == b' -> qeqb a b = qeqb a' b'.
Proof. intros Ha Hb. destruct (qeqb a b) eqn:E1, (qeqb a' b') eqn:E2; try reflexivity.
  - apply qeqb_iff in E1. apply qeqb_false in E2. exfalso. apply E2. rewrite <- Ha, <- Hb. exact E1.
  - apply qeqb_iff in E2. apply qeqb_false in E1. exfalso. apply E1. rewrite Ha, Hb. exact E2. Qed.
Lemma qltb_compat a a' b b' : a == a' -> b == b' -> qltb a b = qltb a' b'.
Proof. intros Ha Hb. destruct (qltb a b) eqn:E1, (qltb a' b') eqn:E2; try reflexivity.
  - apply qltb_iff in E1. rewrite Ha, Hb in E1. apply qltb_iff in E1. congruence.
  - apply qltb_iff in E2. rewrite <- Ha, <- Hb in E2. apply qltb_iff in E2. congruence. Qed.

(* equality of values up to == on the finite ones *)
Definition xeq (a b : xval) : Prop :=
  match a, b with Fin x, Fin y => x == y | PInf, PInf | NInf, NInf | NaN, NaN => True | _, _ => False end.
Lemma xeq_refl a : xeq a a. Proof. destruct a; cbn; auto. reflexivity. Qed.
Lemma xeq_sym a b : xeq a b -> xeq b a. Proof. destruct a, b; cbn; auto. intros H. symmetry. exact H. Qed.
Lemma xeq_trans a b c : xeq a b -> xeq b c -> xeq a c.
Proof. destruct a, b, c; cbn; auto; try contradiction. intros H1 H2. rewrite H1. exact H2. Qed.
Lemma xdiv_compat a a' b b' : a == a' -> b == b' -> xeq (xdiv a b) (xdiv a' b').
Proof. intros Ha Hb. unfold xdiv. rewrite (qeqb_compat b b' 0 0 Hb (Qeq_refl 0)), (qeqb_compat a a' 0 0 Ha (Qeq_refl 0)), (qltb_compat 0 0 a a' (Qeq_refl 0) Ha).
  destruct (qeqb b' 0) eqn:E; [destruct (qeqb a' 0); [exact I|destruct (qltb 0 a'); exact I]|].
  cbn. apply qeqb_false in E. rewrite Ha, Hb. reflexivity. Qed.
Lemma xdiv_fin a b r : xdiv a b = Fin r -> ~ b == 0 /\ r = a / b.
Proof. unfold xdiv. destruct (qeqb b 0) eqn:E.
  - destruct (qeqb a 0); [discriminate|destruct (qltb 0 a); discriminate].
  - intros H. inversion H. split; [apply qeqb_false; exact E|reflexivity]. Qed.
Lemma xdiv_nonzero a b : ~ b == 0 -> xdiv a b = Fin (a / b).
Proof. intros H. unfold xdiv. apply qeqb_false in H. rewrite H. reflexivity. Qed.

(* ================================================================================================== *)
(* 7. pairwise / rand_index                                                                            *)
(* ================================================================================================== *)
Lemma logical_and_same (A B : bmat) : length A = length B -> logical_and A B = Ok (zip_with (zip_with andb) A B).
Proof. intros H. unfold logical_and. rewrite H, Nat.eqb_refl. reflexivity. Qed.
Lemma bnot_length m : length (bnot m) = length m. Proof. apply map_length. Qed.

(* pairwise_def, counting part: the code's agreement-matrix counts are the sums of C(.,2) over the rows, columns and
   cells of the contingency table *)
Theorem pairwise_counts yr ye : length yr = length ye ->
  let tab := contingency_tab yr ye in
  half_excess (msum (agree yr)) (length yr) == nQ (nsum (map comb2 (row_sums tab))) /\
  half_excess (msum (agree ye)) (length ye) == nQ (nsum (map comb2 (col_sums (length (uniq ye)) tab))) /\
  half_excess (msum (zip_with (zip_with andb) (agree yr) (agree ye))) (length yr) == nQ (nsum (map comb2 (concat tab))).
Proof. intros Hl tab. rewrite (SA_id yr ye Hl), (SB_id yr ye Hl), (SM_id yr ye Hl). rewrite <- Hl. repeat split; apply half_excess_id. Qed.

(* pairwise_def: precision = M / B, recall = M / A with the NumPy conventions for a zero divisor *)
Theorem pairwise_def yr ye beta : length yr = length ye ->
  let A := nQ (sumA yr ye) in let B := nQ (sumB yr ye) in let M := nQ (sumM yr ye) in
  exists p r, pairwise_idx yr ye beta = Ok (p, r, xf_measure p r beta) /\ xeq p (xdiv M B) /\ xeq r (xdiv M A).
Proof. intros Hl A B M. destruct (pairwise_counts yr ye Hl) as [HA [HB HM]].
  unfold pairwise_idx. rewrite logical_and_same by (rewrite !agree_length; exact Hl). cbn [bind].
  eexists. eexists. split; [reflexivity|]. split; apply xdiv_compat; assumption. Qed.

Theorem rand_def yr ye : length yr = length ye ->
  let A := nQ (sumA yr ye) in let B := nQ (sumB yr ye) in let M := nQ (sumM yr ye) in let T := nQ (comb2 (length yr)) in
  exists x, rand_idx yr ye = Ok x /\ xeq x (xdiv (M + (T - A - B + M)) T).
Proof. intros Hl A B M T. destruct (pairwise_counts yr ye Hl) as [_ [_ HM]].
  unfold rand_idx. rewrite !logical_and_same by (rewrite ?bnot_length, !agree_length; exact Hl). cbn [bind].
  eexists. split; [reflexivity|]. apply xdiv_compat.
  - rewrite HM. fold (sumM yr ye). fold M. assert (H := SN_half yr ye Hl). apply nQ_eq in H.
    rewrite !nQ_add, !nQ_mul in H. change (nQ 2) with 2 in H. fold A B M T in H.
    set (N := nQ (msum _)) in *. clearbody A B M T N. assert (HN : N == 2 * T + 2 * M - 2 * A - 2 * B) by lra. rewrite HN. field.
  - assert (H := n_sq yr). apply (f_equal Z.of_nat) in H. rewrite Nat2Z.inj_add, !Nat2Z.inj_mul in H.
    unfold T, nQ. set (n := Z.of_nat (length yr)) in *. set (t := Z.of_nat (comb2 (length yr))) in *.
    replace (n * (n - 1))%Z with (Z.of_nat 2 * t)%Z by lia. rewrite inject_Z_mult. change (inject_Z (Z.of_nat 2)) with 2. field. Qed.

(* ================================================================================================== *)
(* 8. adjusted Rand index                                                                              *)
(* ================================================================================================== *)
Definition ari_core (n R C a b m : nat) : res Q :=
  if ari_special n R C then Ok 1
  else if (comb2 n =? 0)%nat then Raise ZeroDivisionError
  else let prod_comb := nQ (a * b) / nQ (comb2 n) in
       let mean_comb := nQ (b + a) / 2 in
       if qeqb (mean_comb - prod_comb) 0 then Raise ZeroDivisionError
       else Ok ((nQ m - prod_comb) / (mean_comb - prod_comb)).
Lemma ari_idx_core yr ye : length yr = length ye ->
  ari_idx yr ye = ari_core (length yr) (length (uniq yr)) (length (uniq ye)) (sumA yr ye) (sumB yr ye) (sumM yr ye).
Proof. intros Hl. unfold ari_idx, ari_core, contingency. apply Nat.eqb_eq in Hl. rewrite Hl. reflexivity. Qed.

(* class sizes *)
Lemma sizes_pos y x : In x (map (fun u => cnt Nat.eqb u y) (uniq y)) -> (1 <= x)%nat.
Proof. intros H. apply in_map_iff in H. destruct H as [u [<- Hu]]. apply (cnt_pos Nat.eqb Nat.eqb_eq). apply In_uniq. exact Hu. Qed.
Lemma sizes_sum y : nsum (map (fun u => cnt Nat.eqb u y) (uniq y)) = length y.
Proof. apply (group_card Nat.eqb Nat.eqb_eq (uniq y) (uniq_NoDup y) y). intros x Hx. apply In_uniq. exact Hx. Qed.
Lemma len_le_sum L : (forall x, In x L -> (1 <= x)%nat) -> (length L <= nsum L)%nat.
Proof. induction L as [|a L IH]; intros H; [cbn; lia|]. cbn [length]. rewrite nsum_cons.
  assert (Ha := H a (or_introl eq_refl)). specialize (IH (fun x Hx => H x (or_intror Hx))). lia. Qed.
Lemma classes_le y : (length (uniq y) <= length y)%nat.
Proof. rewrite <- (sizes_sum y) at 1. rewrite <- (map_length (fun u => cnt Nat.eqb u y) (uniq y)). apply len_le_sum. apply sizes_pos. Qed.
Lemma classes_pos y : (1 <= length y)%nat -> (1 <= length (uniq y))%nat.
Proof. destruct y as [|a y]; cbn [length]; [lia|]. intros _. assert (H : In a (uniq (a :: y))) by (apply In_uniq; now left).
  destruct (uniq (a :: y)); [destruct H|cbn; lia]. Qed.
Lemma sumA_sizes yr ye : length yr = length ye -> sumA yr ye = nsum (map comb2 (map (fun u => cnt Nat.eqb u yr) (uniq yr))).
Proof. intros Hl. unfold sumA. rewrite (row_sums_tab yr ye Hl). reflexivity. Qed.
Lemma sumB_sizes yr ye : length yr = length ye -> sumB yr ye = nsum (map comb2 (map (fun v => cnt Nat.eqb v ye) (uniq ye))).
Proof. intros Hl. unfold sumB. rewrite (col_sums_tab yr ye Hl). reflexivity. Qed.
Lemma sizes_all_singletons y : nsum (map comb2 (map (fun u => cnt Nat.eqb u y) (uniq y))) = 0%nat -> length (uniq y) = length y.
Proof. intros H. apply comb2_sum_zero in H; [|apply sizes_pos]. rewrite sizes_sum, map_length in H. symmetry. exact H. Qed.
Lemma sizes_one_class y : nsum (map comb2 (map (fun u => cnt Nat.eqb u y) (uniq y))) = comb2 (length y) -> (length (uniq y) <= 1)%nat.
Proof. intros H. rewrite <- (sizes_sum y) in H at 1. apply comb2_sum_full in H; [|apply sizes_pos]. rewrite map_length in H. exact H. Qed.

(* outside the special cases neither Python division can raise *)
Lemma ari_denominators yr ye : length yr = length ye ->
  ari_special (length yr) (length (uniq yr)) (length (uniq ye)) = false ->
  (0 < comb2 (length yr))%nat /\ (2 * (sumA yr ye * sumB yr ye) < (sumA yr ye + sumB yr ye) * comb2 (length yr))%nat.
Proof. intros Hl Hs.
  assert (HRn := classes_le yr). assert (HCn := classes_le ye). rewrite <- Hl in HCn.
  assert (HR1 := classes_pos yr). assert (HC1 := classes_pos ye). rewrite <- Hl in HC1.
  assert (HAT := sumA_le_T yr ye Hl). assert (HBT := sumB_le_T yr ye Hl).
  assert (HA0 := sizes_all_singletons yr). rewrite <- (sumA_sizes yr ye Hl) in HA0.
  assert (HB0 := sizes_all_singletons ye). rewrite <- (sumB_sizes yr ye Hl), <- Hl in HB0.
  assert (HA1 := sizes_one_class yr). rewrite <- (sumA_sizes yr ye Hl) in HA1.
  assert (HB1 := sizes_one_class ye). rewrite <- (sumB_sizes yr ye Hl), <- Hl in HB1.
  set (n := length yr) in *. set (R := length (uniq yr)) in *. set (C := length (uniq ye)) in *.
  set (a := sumA yr ye) in *. set (b := sumB yr ye) in *. set (t := comb2 n) in *.
  assert (Hn2 : (2 <= n)%nat).
  { destruct n as [|[|n']]; [| |lia]; exfalso; unfold ari_special in Hs.
    - assert (R = 0%nat) by lia. assert (C = 0%nat) by lia. rewrite H, H0 in Hs. cbn in Hs. discriminate.
    - assert (R = 1%nat) by lia. assert (C = 1%nat) by lia. rewrite H, H0 in Hs. cbn in Hs. discriminate. }
  assert (Ht : (0 < t)%nat). { unfold t. destruct n as [|[|n']]; try lia; try (rewrite !comb2_S; lia). }
  split; [exact Ht|].
  destruct (Nat.eq_dec (2 * (a * b)) ((a + b) * t)) as [E|NE].
  - exfalso. assert (Hc : (a = 0 /\ b = 0)%nat \/ (a = t /\ b = t)).
    { assert (E2 : (a * (t - b) + b * (t - a) = 0)%nat) by nia.
      apply Nat.eq_add_0 in E2. destruct E2 as [H H0].
      apply Nat.eq_mul_0 in H. apply Nat.eq_mul_0 in H0. lia. }
    unfold ari_special in Hs. destruct Hc as [[Ea Eb]|[Ea Eb]].
    + rewrite (HA0 Ea), (HB0 Eb), !Nat.eqb_refl in Hs. cbn in Hs. rewrite !orb_true_r in Hs. discriminate.
    + assert (R = 1%nat) by (specialize (HA1 Ea); lia). assert (C = 1%nat) by (specialize (HB1 Eb); lia).
      rewrite H, H0 in Hs. cbn in Hs. discriminate.
  - assert ((2 * (a * b) <= (a + b) * t)%nat) by nia. lia. Qed.

Definition ari_formula (n R C a b m : nat) : Q :=
  if ari_special n R C then 1
  else (nQ m - nQ a * nQ b / nQ (comb2 n)) / ((nQ a + nQ b) / 2 - nQ a * nQ b / nQ (comb2 n)).
Lemma ari_den_pos a b t : (0 < t)%nat -> (2 * (a * b) < (a + b) * t)%nat -> 0 < (nQ a + nQ b) / 2 - nQ a * nQ b / nQ t.
Proof. intros Ht H. apply nQ_lt in H. rewrite !nQ_mul, nQ_add in H. change (nQ 2) with 2 in H. apply nQ_pos in Ht.
  set (x := nQ a) in *. set (y := nQ b) in *. set (u := nQ t) in *. clearbody x y u.
  assert (E : (x + y) / 2 - x * y / u == ((x + y) * u - 2 * (x * y)) / (2 * u)) by (field; lra).
  rewrite E. apply Qlt_shift_div_l; lra. Qed.

(* ari_def: the Hubert-Arabie formula on the sums of binomials of the table, 1 in the three special cases;
   no exception for sequences of equal length *)
Theorem ari_def yr ye : length yr = length ye ->
  exists q, ari_idx yr ye = Ok q /\
            q == ari_formula (length yr) (length (uniq yr)) (length (uniq ye)) (sumA yr ye) (sumB yr ye) (sumM yr ye).
Proof. intros Hl. rewrite (ari_idx_core yr ye Hl). unfold ari_core, ari_formula.
  destruct (ari_special _ _ _) eqn:Hs; [exists 1; split; reflexivity|].
  destruct (ari_denominators yr ye Hl Hs) as [Ht Hd]. set (a := sumA yr ye) in *. set (b := sumB yr ye) in *. set (t := comb2 (length yr)) in *.
  assert (Hp := ari_den_pos a b t Ht Hd).
  destruct (t =? 0)%nat eqn:Et; [apply Nat.eqb_eq in Et; lia|].
  assert (Hden : nQ (b + a) / 2 - nQ (a * b) / nQ t == (nQ a + nQ b) / 2 - nQ a * nQ b / nQ t).
  { rewrite nQ_add, nQ_mul. assert (0 < nQ t) by (apply nQ_pos; exact Ht). field. lra. }
  destruct (qeqb (nQ (b + a) / 2 - nQ (a * b) / nQ t) 0) eqn:Eq.
  - apply qeqb_iff in Eq. rewrite Hden in Eq. lra.
  - eexists. split; [reflexivity|]. rewrite Hden. rewrite nQ_mul. reflexivity. Qed.

Theorem ari_le_1 yr ye q : length yr = length ye -> ari_idx yr ye = Ok q -> q <= 1.
Proof. intros Hl Hq. destruct (ari_def yr ye Hl) as [q' [Hq' E]]. rewrite Hq in Hq'. inversion Hq'; subst q'. rewrite E.
  unfold ari_formula. destruct (ari_special _ _ _) eqn:Hs; [lra|].
  destruct (ari_denominators yr ye Hl Hs) as [Ht Hd]. assert (Hp := ari_den_pos _ _ _ Ht Hd).
  assert (HA := nQ_le _ _ (sumM_le_A yr ye Hl)). assert (HB := nQ_le _ _ (sumM_le_B yr ye Hl)).
  apply Qle_shift_div_r; [exact Hp|].
  set (P := nQ (sumA yr ye) * nQ (sumB yr ye) / nQ (comb2 (length yr))) in *.
  assert (E2 : (nQ (sumA yr ye) + nQ (sumB yr ye)) / 2 == (nQ (sumA yr ye) + nQ (sumB yr ye)) * (1 # 2)) by field.
  rewrite E2. clearbody P. lra. Qed.

Lemma ari_special_sym n R C : ari_special n C R = ari_special n R C.
Proof. unfold ari_special. destruct (Nat.eqb_spec R C) as [->|Ne]; [rewrite Nat.eqb_refl; reflexivity|].
  apply Nat.neq_sym in Ne. apply Nat.eqb_neq in Ne. rewrite Ne. reflexivity. Qed.
Lemma sumA_swap yr ye : sumA ye yr = sumB yr ye.
Proof. unfold sumA, sumB. rewrite col_sums_transpose, <- contingency_swap. reflexivity. Qed.
Lemma sumM_swap yr ye : length yr = length ye -> sumM ye yr = sumM yr ye.
Proof. intros Hl. assert (H1 := SM_id yr ye Hl). assert (H2 := SM_id ye yr (eq_sym Hl)).
  rewrite SM_z in H1. rewrite SM_z in H2. rewrite (combine_swap yr ye), dcount_map in H2.
  rewrite (dcount_ext_in _ peqb) in H2; [lia|]. intros [a b] [c d] _ _. unfold peqb. cbn [fst snd]. apply andb_comm. Qed.
Theorem ari_sym yr ye : length yr = length ye -> ari_idx ye yr = ari_idx yr ye.
Proof. intros Hl. rewrite (ari_idx_core yr ye Hl), (ari_idx_core ye yr (eq_sym Hl)).
  rewrite (sumA_swap yr ye), <- (sumA_swap ye yr), (sumM_swap yr ye Hl), <- Hl.
  unfold ari_core. rewrite ari_special_sym, (Nat.mul_comm (sumB yr ye)), (Nat.add_comm (sumA yr ye)). reflexivity. Qed.

(* ================================================================================================== *)
(* 9. ranges                                                                                           *)
(* ================================================================================================== *)
Lemma ratio_range m b : 0 <= m -> m <= b -> ~ b == 0 -> 0 <= m / b /\ m / b <= 1.
Proof. intros H0 H1 Hb. assert (0 < b) by (destruct (Qlt_le_dec 0 b); [assumption|exfalso; apply Hb; lra]).
  split; [apply Qle_shift_div_l; lra|apply Qle_shift_div_r; lra]. Qed.
Lemma xeq_fin_l p x : xeq (Fin p) x -> exists p', x = Fin p' /\ p == p'.
Proof. destruct x; cbn; try contradiction. intros H. eexists. split; [reflexivity|exact H]. Qed.

Lemma f_measure_range p r beta : 0 <= p <= 1 -> 0 <= r <= 1 -> 0 < beta ->
  exists f, xf_measure (Fin p) (Fin r) beta = Fin f /\ 0 <= f <= 1.
Proof. intros [Hp0 Hp1] [Hr0 Hr1] Hb. unfold xf_measure, xis_zero.
  destruct (qeqb p 0 && qeqb r 0) eqn:Ez; [exists 0; split; [reflexivity|lra]|].
  cbn [xmul xadd xdivx].
  assert (Hbb : 0 < beta * beta) by nra.
  assert (Hden : 0 < beta * beta * p + r).
  { apply andb_false_iff in Ez. destruct Ez as [Ez|Ez]; apply qeqb_false in Ez.
    - assert (0 < p) by (destruct (Qlt_le_dec 0 p); [assumption|exfalso; apply Ez; lra]). nra.
    - assert (0 < r) by (destruct (Qlt_le_dec 0 r); [assumption|exfalso; apply Ez; lra]). nra. }
  rewrite xdiv_nonzero by lra. eexists. split; [reflexivity|]. split.
  - apply Qle_shift_div_l; [exact Hden|]. set (c := beta * beta) in *. clearbody c.
    assert (0 <= p * r) by nra. assert (0 <= c * (p * r)) by nra. nra.
  - apply Qle_shift_div_r; [exact Hden|]. set (c := beta * beta) in *. clearbody c.
    assert (p * r <= p) by nra. assert (p * r <= r) by nra. assert (c * (p * r) <= c * p) by nra. nra. Qed.

Theorem pairwise_range_when_defined yr ye beta p r f : length yr = length ye ->
  pairwise_idx yr ye beta = Ok (Fin p, Fin r, f) ->
  0 <= p <= 1 /\ 0 <= r <= 1 /\ (0 < beta -> exists f', f = Fin f' /\ 0 <= f' <= 1).
Proof. intros Hl Hp. destruct (pairwise_def yr ye beta Hl) as [p0 [r0 [E [Xp Xr]]]]. rewrite Hp in E. injection E as Ep0 Er0 Ef. subst p0 r0.
  apply xeq_fin_l in Xp. destruct Xp as [p' [Ep Hpp]]. apply xeq_fin_l in Xr. destruct Xr as [r' [Er Hrr]].
  apply xdiv_fin in Ep. destruct Ep as [HB ->]. apply xdiv_fin in Er. destruct Er as [HA ->].
  assert (HMA := nQ_le _ _ (sumM_le_A yr ye Hl)). assert (HMB := nQ_le _ _ (sumM_le_B yr ye Hl)). assert (HM0 := nQ_nonneg (sumM yr ye)).
  destruct (ratio_range _ _ HM0 HMB HB) as [P0 P1]. destruct (ratio_range _ _ HM0 HMA HA) as [R0 R1].
  assert (Rp : 0 <= p <= 1) by (rewrite Hpp; split; assumption). assert (Rr : 0 <= r <= 1) by (rewrite Hrr; split; assumption).
  split; [exact Rp|]. split; [exact Rr|]. intros Hb. rewrite Ef. apply f_measure_range; assumption. Qed.
Example pairwise_range_satisfiable : exists p r f, pairwise_idx [0; 0; 1]%nat [0; 0; 0]%nat 1 = Ok (Fin p, Fin r, Fin f) /\ p == 1 # 3 /\ r == 1 /\ f == 1 # 2.
Proof. eexists. eexists. eexists. split; [vm_compute; reflexivity|]. repeat split; reflexivity. Qed.

Theorem rand_range yr ye r : length yr = length ye -> rand_idx yr ye = Ok (Fin r) -> 0 <= r <= 1.
Proof. intros Hl Hr. destruct (rand_def yr ye Hl) as [x [E X]]. rewrite Hr in E. inversion E; subst x. clear E.
  apply xeq_fin_l in X. destruct X as [r' [Er Hrr]]. apply xdiv_fin in Er. destruct Er as [HT ->]. rewrite Hrr.
  assert (HMA := nQ_le _ _ (sumM_le_A yr ye Hl)). assert (HMB := nQ_le _ _ (sumM_le_B yr ye Hl)). assert (HM0 := nQ_nonneg (sumM yr ye)).
  assert (H := SN_half yr ye Hl). apply nQ_eq in H. rewrite !nQ_add, !nQ_mul in H. change (nQ 2) with 2 in H.
  assert (HN := nQ_nonneg (msum (zip_with (zip_with andb) (bnot (agree yr)) (bnot (agree ye))))).
  apply ratio_range; [lra|lra|exact HT]. Qed.

(* where the scores are not defined: witnesses observed on mir_eval itself (unit seg_cluster_q, exhaustive part) *)
Theorem rand_single_frame a b : rand_idx [a] [b] = Ok NaN.
Proof. unfold rand_idx, agree. cbn [map logical_and length]. rewrite !Nat.eqb_refl. reflexivity. Qed.
(* "precision/recall/F in [0,1]", "self-score = 1": false for two frames carrying distinct labels (0/0 -> nan) *)
Theorem pairwise_defined_refuted : exists yr ye, length yr = length ye /\ yr <> [] /\ pairwise_idx yr ye 1 = Ok (NaN, NaN, NaN).
Proof. exists [0; 1]%nat, [0; 1]%nat. split; [reflexivity|]. split; [discriminate|reflexivity]. Qed.
Theorem pairwise_self_score_refuted : exists y, y <> [] /\ pairwise_idx y y 1 = Ok (NaN, NaN, NaN).
Proof. exists [0; 1]%nat. split; [discriminate|reflexivity]. Qed.
Theorem rand_self_score_refuted : exists y, y <> [] /\ rand_idx y y = Ok NaN.
Proof. exists [0]%nat. split; [discriminate|reflexivity]. Qed.
(* frame counts differing by rounding of the end time (end times pass np.allclose): the (1,1) agreement matrix is
   broadcast and the scores leave [0,1] *)
Theorem pairwise_broadcast_refuted :
  (exists r, pairwise_idx [0; 0]%nat [0]%nat 1 = Ok (PInf, Fin r, NaN) /\ r == 1) /\ pairwise_idx [0]%nat [] 1 = Ok (NInf, NInf, NaN)
  /\ rand_idx [0]%nat [] = Ok NInf.
Proof. split; [eexists; split; [vm_compute; reflexivity|reflexivity]|split; reflexivity]. Qed.

(* ================================================================================================== *)
(* 10. exchanging reference and estimate                                                               *)
(* ================================================================================================== *)
Lemma zip_with_comm {A B C} (f : A -> B -> C) (g : B -> A -> C) a b : (forall x y, f x y = g y x) -> zip_with f a b = zip_with g b a.
Proof. intros H. revert b. induction a as [|x a IH]; intros [|y b]; cbn [zip_with]; try reflexivity. rewrite H, IH. reflexivity. Qed.
Lemma and_matrix_comm (X Y : bmat) : zip_with (zip_with andb) Y X = zip_with (zip_with andb) X Y.
Proof. apply zip_with_comm. intros r1 r2. apply zip_with_comm. intros x y. apply andb_comm. Qed.

Lemma xf_measure_sym p r beta : beta == 1 ->
  match p, r with
  | PInf, _ | NInf, _ | _, PInf | _, NInf => True
  | _, _ => xeq (xf_measure r p beta) (xf_measure p r beta)
  end.
Proof. intros Hb. destruct p as [p| | |], r as [r| | |]; try exact I; try (cbn; exact I).
  - unfold xf_measure, xis_zero. rewrite (andb_comm (qeqb r 0)). destruct (qeqb p 0 && qeqb r 0); [apply xeq_refl|].
    cbn [xmul xadd xdivx]. apply xdiv_compat; rewrite Hb; ring.
  - unfold xf_measure, xis_zero. rewrite ?andb_false_r. cbn. exact I.
  - unfold xf_measure, xis_zero. rewrite ?andb_false_r. cbn. exact I. Qed.

Lemma pairwise_idx_eq yr ye beta : length yr = length ye ->
  pairwise_idx yr ye beta =
  let nm := half_excess (msum (zip_with (zip_with andb) (agree yr) (agree ye))) (length yr) in
  let p := xdiv nm (half_excess (msum (agree ye)) (length ye)) in
  let r := xdiv nm (half_excess (msum (agree yr)) (length yr)) in
  Ok (p, r, xf_measure p r beta).
Proof. intros Hl. unfold pairwise_idx. rewrite logical_and_same by (rewrite !agree_length; exact Hl). reflexivity. Qed.
Lemma xdiv_no_inf a b : 0 <= a -> a <= b -> xdiv a b <> PInf /\ xdiv a b <> NInf.
Proof. intros H0 H1. unfold xdiv. destruct (qeqb b 0) eqn:Eb; [|split; discriminate].
  apply qeqb_iff in Eb. assert (Ea : a == 0) by lra. apply qeqb_iff in Ea. rewrite Ea. split; discriminate. Qed.
(* with equal frame counts precision and recall are finite or nan, never infinite *)
Lemma pairwise_no_inf yr ye beta p r f : length yr = length ye -> pairwise_idx yr ye beta = Ok (p, r, f) ->
  p <> PInf /\ p <> NInf /\ r <> PInf /\ r <> NInf.
Proof. intros Hl H. rewrite (pairwise_idx_eq yr ye beta Hl) in H. cbv zeta in H. injection H as Hp Hr _.
  destruct (pairwise_counts yr ye Hl) as [HA [HB HM]]. cbv zeta in HA, HB, HM.
  set (nm := half_excess (msum (zip_with (zip_with andb) (agree yr) (agree ye))) (length yr)) in *.
  set (na := half_excess (msum (agree yr)) (length yr)) in *. set (nb := half_excess (msum (agree ye)) (length ye)) in *.
  assert (H0 : 0 <= nm) by (rewrite HM; apply nQ_nonneg).
  assert (H1 : nm <= na) by (rewrite HM, HA; apply nQ_le; apply (sumM_le_A yr ye Hl)).
  assert (H2 : nm <= nb) by (rewrite HM, HB; apply nQ_le; apply (sumM_le_B yr ye Hl)).
  destruct (xdiv_no_inf nm nb H0 H2). destruct (xdiv_no_inf nm na H0 H1). subst p r. tauto. Qed.

(* pairwise_swap: precision and recall are exchanged (and F is kept for beta = 1) *)
Theorem pairwise_swap yr ye beta p r f : length yr = length ye -> pairwise_idx yr ye beta = Ok (p, r, f) ->
  exists f', pairwise_idx ye yr beta = Ok (r, p, f') /\ (beta == 1 -> xeq f' f).
Proof. intros Hl H. destruct (pairwise_no_inf yr ye beta p r f Hl H) as [N1 [N2 [N3 N4]]].
  rewrite (pairwise_idx_eq yr ye beta Hl) in H. rewrite (pairwise_idx_eq ye yr beta (eq_sym Hl)).
  rewrite (and_matrix_comm (agree yr) (agree ye)). cbv zeta in *. rewrite <- Hl in H |- *.
  injection H as Hp Hr Hf. rewrite Hp, Hr. eexists. split; [reflexivity|]. intros Hb. rewrite <- Hf.
  assert (S := xf_measure_sym p r beta Hb). destruct p, r; try exact S; congruence. Qed.

Theorem rand_sym yr ye : length yr = length ye -> rand_idx ye yr = rand_idx yr ye.
Proof. intros Hl. unfold rand_idx. rewrite !logical_and_same by (rewrite ?bnot_length, !agree_length; auto). cbn [bind].
  rewrite (and_matrix_comm (agree yr) (agree ye)), (and_matrix_comm (bnot (agree yr)) (bnot (agree ye))), Hl. reflexivity. Qed.

(* ================================================================================================== *)
(* 11. identical partitions, relabelling                                                               *)
(* ================================================================================================== *)
(* the two sequences induce the same partition of the frames *)
Definition same_partition (y y' : list nat) : Prop :=
  length y = length y' /\
  forall k l, (k < length y)%nat -> (l < length y)%nat -> (nth k y 0%nat = nth l y 0%nat <-> nth k y' 0%nat = nth l y' 0%nat).
Lemma In_combine_nth (a b : list nat) p : length a = length b -> In p (combine a b) ->
  exists k, (k < length a)%nat /\ p = (nth k a 0%nat, nth k b 0%nat).
Proof. intros Hl H. destruct (In_nth _ _ (0%nat, 0%nat) H) as [k [Hk E]]. rewrite combine_length, <- Hl, Nat.min_id in Hk.
  exists k. split; [exact Hk|]. rewrite <- E. apply combine_nth. exact Hl. Qed.
Lemma same_partition_pairs y y' : same_partition y y' ->
  forall p q, In p (combine y y') -> In q (combine y y') -> (fst p =? fst q)%nat = (snd p =? snd q)%nat.
Proof. intros [Hl H] p q Hp Hq. destruct (In_combine_nth y y' p Hl Hp) as [k [Hk ->]]. destruct (In_combine_nth y y' q Hl Hq) as [l [Hl' ->]].
  cbn [fst snd]. specialize (H k l Hk Hl'). destruct (Nat.eqb_spec (nth k y 0%nat) (nth l y 0%nat)) as [E|E].
  - symmetry. apply Nat.eqb_eq. apply H. exact E.
  - symmetry. apply Nat.eqb_neq. intros E'. apply E. apply H. exact E'. Qed.
Lemma agree_via_fst (a b : list nat) : length a = length b ->
  agree a = map (fun p => map (fun q => (fst p =? fst q)%nat) (combine a b)) (combine a b).
Proof. intros Hl. unfold agree. assert (E : a = map fst (combine a b)) by (symmetry; apply map_fst_combine; exact Hl).
  set (z := combine a b) in *. clearbody z. rewrite E. rewrite map_map. apply map_ext. intros p. rewrite map_map. reflexivity. Qed.
Lemma agree_via_snd (a b : list nat) : length a = length b ->
  agree b = map (fun p => map (fun q => (snd p =? snd q)%nat) (combine a b)) (combine a b).
Proof. intros Hl. unfold agree. assert (E : b = map snd (combine a b)) by (symmetry; apply map_snd_combine; exact Hl).
  set (z := combine a b) in *. clearbody z. rewrite E. rewrite map_map. apply map_ext. intros p. rewrite map_map. reflexivity. Qed.
(* the agreement matrix only depends on the partition *)
Lemma agree_same_partition y y' : same_partition y y' -> agree y = agree y'.
Proof. intros H. assert (Hl := proj1 H). rewrite (agree_via_fst y y' Hl), (agree_via_snd y y' Hl).
  apply map_ext_in. intros p Hp. apply map_ext_in. intros q Hq. apply (same_partition_pairs y y' H); assumption. Qed.

Theorem pairwise_relabel yr ye yr' ye' beta : same_partition yr yr' -> same_partition ye ye' ->
  pairwise_idx yr' ye' beta = pairwise_idx yr ye beta.
Proof. intros Hr He. unfold pairwise_idx. rewrite <- (agree_same_partition _ _ Hr), <- (agree_same_partition _ _ He), <- (proj1 Hr), <- (proj1 He). reflexivity. Qed.
Theorem rand_relabel yr ye yr' ye' : same_partition yr yr' -> same_partition ye ye' -> rand_idx yr' ye' = rand_idx yr ye.
Proof. intros Hr He. unfold rand_idx. rewrite <- (agree_same_partition _ _ Hr), <- (agree_same_partition _ _ He), <- (proj1 Hr). reflexivity. Qed.
Example same_partition_satisfiable : same_partition [3; 3; 7; 3]%nat [1; 1; 0; 1]%nat.
Proof. split; [reflexivity|]. intros k l Hk Hl. cbn [length] in *.
  destruct k as [|[|[|[|k]]]]; try lia; destruct l as [|[|[|[|l]]]]; try lia; cbn; split; intros; try reflexivity; try discriminate. Qed.

(* number of classes only depends on the partition *)
Lemma ins_nat_length x l : incr l -> length (ins_nat x l) = if in_dec Nat.eq_dec x l then length l else S (length l).
Proof. induction 1 as [|z l Hs IH Hf]; cbn [ins_nat]; [destruct (in_dec _ x []) as [[]|]; reflexivity|].
  rewrite Forall_forall in Hf. destruct (x <? z)%nat eqn:E1.
  - apply Nat.ltb_lt in E1. destruct (in_dec Nat.eq_dec x (z :: l)) as [[->|Hi]|Hn]; [lia|specialize (Hf x Hi); lia|reflexivity].
  - apply Nat.ltb_ge in E1. destruct (x =? z)%nat eqn:E2.
    + apply Nat.eqb_eq in E2. subst. destruct (in_dec Nat.eq_dec z (z :: l)) as [_|Hn]; [reflexivity|exfalso; apply Hn; now left].
    + apply Nat.eqb_neq in E2. cbn [length]. rewrite IH. destruct (in_dec Nat.eq_dec x l) as [Hi|Hn], (in_dec Nat.eq_dec x (z :: l)) as [Hi'|Hn']; try reflexivity.
      * exfalso. apply Hn'. now right.
      * exfalso. destruct Hi' as [->|Hi']; [congruence|contradiction]. Qed.
Lemma uniq_cons_length x y : length (uniq (x :: y)) = if in_dec Nat.eq_dec x y then length (uniq y) else S (length (uniq y)).
Proof. change (uniq (x :: y)) with (ins_nat x (uniq y)). rewrite ins_nat_length by apply uniq_sorted.
  destruct (in_dec Nat.eq_dec x (uniq y)) as [H|H], (in_dec Nat.eq_dec x y) as [H'|H']; try reflexivity; exfalso.
  - apply H'. apply In_uniq. exact H.
  - apply H. apply In_uniq. exact H'. Qed.
Lemma same_partition_tail x y x' y' : same_partition (x :: y) (x' :: y') -> same_partition y y' /\ (In x y <-> In x' y').
Proof. intros [Hl H]. cbn [length] in *. assert (Hl' : length y = length y') by lia. split; [split; [exact Hl'|]|].
  - intros k l Hk Hl2. apply (H (S k) (S l)); lia.
  - split; intros Hi.
    + destruct (In_nth _ _ 0%nat Hi) as [k [Hk E]]. assert (E' : nth 0 (x' :: y') 0%nat = nth (S k) (x' :: y') 0%nat) by (apply (H 0%nat (S k)); [lia|lia|cbn; congruence]).
      cbn in E'. rewrite E'. apply nth_In. lia.
    + destruct (In_nth _ _ 0%nat Hi) as [k [Hk E]]. assert (E' : nth 0 (x :: y) 0%nat = nth (S k) (x :: y) 0%nat) by (apply (H 0%nat (S k)); [lia|lia|cbn; congruence]).
      cbn in E'. rewrite E'. apply nth_In. lia. Qed.
Lemma classes_same_partition y : forall y', same_partition y y' -> length (uniq y) = length (uniq y').
Proof. induction y as [|x y IH]; intros [|x' y'] H; try (destruct H as [H _]; discriminate H); [reflexivity|].
  destruct (same_partition_tail _ _ _ _ H) as [Ht Hi]. rewrite !uniq_cons_length, (IH y' Ht).
  destruct (in_dec Nat.eq_dec x y) as [H1|H1], (in_dec Nat.eq_dec x' y') as [H2|H2]; try reflexivity; exfalso; tauto. Qed.

Lemma sumA_via_agree yr ye : length yr = length ye -> (2 * sumA yr ye = msum (agree yr) - length yr)%nat.
Proof. intros Hl. rewrite (SA_id yr ye Hl). lia. Qed.
Lemma sumB_via_agree yr ye : length yr = length ye -> (2 * sumB yr ye = msum (agree ye) - length yr)%nat.
Proof. intros Hl. rewrite (SB_id yr ye Hl). lia. Qed.
Lemma sumM_via_agree yr ye : length yr = length ye -> (2 * sumM yr ye = msum (zip_with (zip_with andb) (agree yr) (agree ye)) - length yr)%nat.
Proof. intros Hl. rewrite (SM_id yr ye Hl). lia. Qed.
Theorem ari_relabel yr ye yr' ye' : length yr = length ye -> same_partition yr yr' -> same_partition ye ye' -> ari_idx yr' ye' = ari_idx yr ye.
Proof. intros Hl Hr He. assert (Hl' : length yr' = length ye') by (rewrite <- (proj1 Hr), <- (proj1 He); exact Hl).
  rewrite (ari_idx_core yr ye Hl), (ari_idx_core yr' ye' Hl').
  assert (EA := sumA_via_agree yr ye Hl). assert (EA' := sumA_via_agree yr' ye' Hl').
  assert (EB := sumB_via_agree yr ye Hl). assert (EB' := sumB_via_agree yr' ye' Hl').
  assert (EM := sumM_via_agree yr ye Hl). assert (EM' := sumM_via_agree yr' ye' Hl').
  rewrite <- (agree_same_partition _ _ Hr), <- (proj1 Hr) in EA'. rewrite <- (agree_same_partition _ _ He), <- (proj1 Hr) in EB'.
  rewrite <- (agree_same_partition _ _ Hr), <- (agree_same_partition _ _ He), <- (proj1 Hr) in EM'.
  replace (sumA yr' ye') with (sumA yr ye) by lia. replace (sumB yr' ye') with (sumB yr ye) by lia. replace (sumM yr' ye') with (sumM yr ye) by lia.
  rewrite <- (classes_same_partition _ _ Hr), <- (classes_same_partition _ _ He), <- (proj1 Hr). reflexivity. Qed.

Lemma zip_with_diag {A B} (f : A -> A -> B) l : zip_with f l l = map (fun x => f x x) l.
Proof. induction l as [|x l IH]; [reflexivity|]. cbn [zip_with map]. rewrite IH. reflexivity. Qed.
Lemma and_matrix_diag (X : bmat) : zip_with (zip_with andb) X X = X.
Proof. rewrite zip_with_diag. rewrite <- (map_id X) at 2. apply map_ext. intros r. rewrite zip_with_diag.
  rewrite <- (map_id r) at 2. apply map_ext. intros b. apply andb_diag. Qed.
(* ARI = 1 whenever the two labellings induce the same partition (special cases included) *)
Theorem ari_identical_partitions yr ye : same_partition yr ye -> exists q, ari_idx yr ye = Ok q /\ q == 1.
Proof. intros H. assert (Hl := proj1 H). destruct (ari_def yr ye Hl) as [q [Hq E]]. exists q. split; [exact Hq|]. rewrite E.
  unfold ari_formula. destruct (ari_special _ _ _) eqn:Hs; [reflexivity|].
  destruct (ari_denominators yr ye Hl Hs) as [Ht Hd]. assert (Hp := ari_den_pos _ _ _ Ht Hd).
  assert (EA := sumA_via_agree yr ye Hl). assert (EB := sumB_via_agree yr ye Hl). assert (EM := sumM_via_agree yr ye Hl).
  assert (Eag := agree_same_partition _ _ H).
  assert (Ez : zip_with (zip_with andb) (agree yr) (agree ye) = agree yr).
  { rewrite <- Eag. apply and_matrix_diag. }
  rewrite Ez in EM. rewrite <- Eag in EB.
  replace (sumB yr ye) with (sumA yr ye) in * by lia. replace (sumM yr ye) with (sumA yr ye) in * by lia.
  set (a := nQ (sumA yr ye)) in *. set (P := a * a / nQ (comb2 (length yr))) in *.
  assert (E2 : (a + a) / 2 == a) by field. rewrite E2 in *. apply Qmult_inv_r. clearbody P a. lra. Qed.

(* ================================================================================================== *)
(* 12. util.index_labels                                                                               *)
(* ================================================================================================== *)
Local Open Scope nat_scope.
Lemma seqb_eq a : forall b, seqb a b = true <-> a = b.
Proof. induction a as [|x a IH]; intros [|y b]; cbn [seqb]; try (split; [discriminate|discriminate]); [split; reflexivity|].
  rewrite andb_true_iff, Nat.eqb_eq, IH. split; [intros [-> ->]; reflexivity|intros E; inversion E; auto]. Qed.
Lemma lower_char_idem c : lower_char (lower_char c) = lower_char c.
Proof. unfold lower_char.
  destruct ((65 <=? c) && (c <=? 90) || (192 <=? c) && (c <=? 222) && negb (c =? 215)) eqn:E; [|rewrite E; reflexivity].
  destruct ((65 <=? c + 32) && (c + 32 <=? 90) || (192 <=? c + 32) && (c + 32 <=? 222) && negb (c + 32 =? 215)) eqn:E2; [|reflexivity].
  exfalso. lia. Qed.
Lemma lower_idem s : lower (lower s) = lower s.
Proof. unfold lower. rewrite map_map. apply map_ext. apply lower_char_idem. Qed.

(* case_insensitive: labels enter index_labels only through their lower-cased form *)
Theorem case_insensitive l : index_labels (map lower l) = index_labels l.
Proof. unfold index_labels, index_labels_cs. rewrite map_map. rewrite (map_ext _ _ lower_idem). reflexivity. Qed.
Theorem case_insensitive_general l l' : map lower l = map lower l' -> index_labels l = index_labels l'.
Proof. intros H. unfold index_labels, index_labels_cs. rewrite H. reflexivity. Qed.

Lemma In_ins_str s x l : In x (ins_str s l) <-> x = s \/ In x l.
Proof. induction l as [|t l IH]; cbn [ins_str]; [cbn; intuition|].
  destruct (str_ltb s t); [cbn; intuition|]. destruct (seqb s t) eqn:E.
  - apply seqb_eq in E. subst. cbn. intuition.
  - cbn [In]. rewrite IH. intuition. Qed.
Lemma In_sorted_set x l : In x (sorted_set l) <-> In x l.
Proof. induction l as [|a l IH]; [reflexivity|]. change (sorted_set (a :: l)) with (ins_str a (sorted_set l)).
  rewrite In_ins_str, IH. cbn. intuition. Qed.
Lemma label_index_In U s : In s U -> exists i, label_index U s = Ok i.
Proof. unfold label_index. induction U as [|t U IH]; intros H; [destruct H|]. cbn [find_idx].
  destruct (seqb s t) eqn:E; [eexists; reflexivity|]. destruct H as [->|H]; [rewrite (proj2 (seqb_eq s s) eq_refl) in E; discriminate|].
  destruct (IH H) as [i Hi]. destruct (find_idx (seqb s) U); [eexists; reflexivity|discriminate]. Qed.
Lemma label_index_nth U s i : label_index U s = Ok i -> nth_error U i = Some s.
Proof. unfold label_index. revert i. induction U as [|t U IH]; intros i H; [discriminate|]. cbn [find_idx] in H.
  destruct (seqb s t) eqn:E.
  - apply seqb_eq in E. subst. inversion H. reflexivity.
  - destruct (find_idx (seqb s) U) as [j|] eqn:F; [|discriminate]. cbn in H. inversion H. cbn. apply IH. reflexivity. Qed.
Lemma mapM_Forall2 {A B} (f : A -> res B) l : forall ys, mapM f l = Ok ys -> Forall2 (fun x y => f x = Ok y) l ys.
Proof. induction l as [|x l IH]; intros ys H; cbn [mapM] in H; [inversion H; constructor|].
  destruct (f x) as [y|e] eqn:E; [|discriminate]. cbn [bind] in H. destruct (mapM f l) as [ys'|e] eqn:E2; [|discriminate].
  cbn [bind] in H. inversion H. constructor; [exact E|]. apply IH. reflexivity. Qed.
Lemma mapM_total {A B} (f : A -> res B) l : (forall x, In x l -> exists y, f x = Ok y) -> exists ys, mapM f l = Ok ys.
Proof. induction l as [|x l IH]; intros H; [eexists; reflexivity|]. cbn [mapM].
  destruct (H x (or_introl eq_refl)) as [y Hy]. rewrite Hy. destruct (IH (fun z Hz => H z (or_intror Hz))) as [ys Hys]. rewrite Hys. eexists. reflexivity. Qed.
Lemma Forall2_nth {A B} (P : A -> B -> Prop) a b da db : Forall2 P a b -> length a = length b /\ forall k, k < length a -> P (nth k a da) (nth k b db).
Proof. induction 1 as [|x y a b Hxy H IH]; [split; [reflexivity|intros k Hk; cbn in Hk; lia]|]. destruct IH as [Hl IH]. split; [cbn; lia|].
  intros [|k] Hk; [exact Hxy|]. cbn [nth]. apply IH. cbn in Hk. lia. Qed.

(* the KeyError of the dict lookup is never raised *)
Theorem index_labels_total cs l : exists idx U, index_labels_cs cs l = Ok (idx, U) /\ length idx = length l.
Proof. unfold index_labels_cs. set (ls := if cs then l else map lower l). assert (Hlen : length ls = length l) by (unfold ls; destruct cs; [reflexivity|apply map_length]).
  destruct (mapM_total (label_index (sorted_set ls)) ls) as [idx H].
  - intros s Hs. apply label_index_In. apply In_sorted_set. exact Hs.
  - rewrite H. cbn [bind]. eexists. eexists. split; [reflexivity|]. apply mapM_Forall2 in H. apply (@Forall2_nth str nat _ _ _ [] 0) in H. destruct H as [H _]. lia. Qed.
(* index_to_label[indices[k]] is the (lower-cased) k-th label *)
Theorem index_labels_spec cs l idx U : index_labels_cs cs l = Ok (idx, U) ->
  let ls := if cs then l else map lower l in
  U = sorted_set ls /\ length idx = length l /\
  forall k, k < length l -> label_index U (nth k ls []) = Ok (nth k idx 0) /\ nth_error U (nth k idx 0) = Some (nth k ls []).
Proof. intros H ls. unfold index_labels_cs in H. fold ls in H. assert (Hlen : length ls = length l) by (unfold ls; destruct cs; [reflexivity|apply map_length]).
  destruct (mapM (label_index (sorted_set ls)) ls) as [idx'|e] eqn:E; [|discriminate]. cbn [bind] in H. inversion H; subst idx' U. clear H.
  apply mapM_Forall2 in E. apply (@Forall2_nth str nat _ _ _ [] 0) in E. destruct E as [El E]. split; [reflexivity|]. split; [lia|].
  intros k Hk. rewrite <- Hlen in Hk. specialize (E k Hk). split; [exact E|]. apply label_index_nth. exact E. Qed.
(* index_labels_equalities: two frames get the same index iff their labels agree up to case *)
Theorem index_labels_equalities l idx U : index_labels l = Ok (idx, U) ->
  forall k1 k2, k1 < length l -> k2 < length l -> (nth k1 idx 0 = nth k2 idx 0 <-> lower (nth k1 l []) = lower (nth k2 l [])).
Proof. intros H k1 k2 H1 H2. destruct (index_labels_spec false l idx U H) as [_ [_ S]]. cbv zeta in S.
  destruct (S k1 H1) as [A1 B1]. destruct (S k2 H2) as [A2 B2].
  assert (N : forall k, k < length l -> nth k (map lower l) [] = lower (nth k l [])).
  { intros k Hk. rewrite (nth_indep _ [] (lower [])) by (rewrite map_length; exact Hk). apply map_nth. }
  rewrite (N k1 H1) in A1, B1. rewrite (N k2 H2) in A2, B2.
  split; intros E.
  - rewrite E in B1. rewrite B1 in B2. inversion B2. reflexivity.
  - rewrite E in A1. rewrite A1 in A2. inversion A2. reflexivity. Qed.
Example index_labels_example : index_labels [[66]; [97]; [65]; [98]; [65; 98]; []] = Ok ([3; 1; 1; 3; 2; 0], [[]; [97]; [97; 98]; [98]]).
Proof. reflexivity. Qed.

(* two label lists with the same equality pattern up to case induce the same partition of the frames *)
Theorem index_labels_same_partition l l' idx U idx' U' : index_labels l = Ok (idx, U) -> index_labels l' = Ok (idx', U') ->
  length l = length l' ->
  (forall k1 k2, k1 < length l -> k2 < length l -> (lower (nth k1 l []) = lower (nth k2 l []) <-> lower (nth k1 l' []) = lower (nth k2 l' []))) ->
  same_partition idx idx'.
Proof. intros H H' Hl Hp. assert (L := proj1 (proj2 (index_labels_spec false l idx U H))). assert (L' := proj1 (proj2 (index_labels_spec false l' idx' U' H'))).
  split; [lia|]. intros k1 k2 H1 H2. rewrite L in H1, H2.
  rewrite (index_labels_equalities l idx U H k1 k2 H1 H2). rewrite (index_labels_equalities l' idx' U' H' k1 k2) by lia. apply Hp; assumption. Qed.
(* renaming the labels of either annotation by a map that is injective up to case changes no score *)
Definition injective_up_to_case (f : str -> str) : Prop := forall a b, lower (f a) = lower (f b) <-> lower a = lower b.
Lemma index_labels_rename f l idx U idx' U' : injective_up_to_case f -> index_labels l = Ok (idx, U) -> index_labels (map f l) = Ok (idx', U') ->
  same_partition idx idx'.
Proof. intros Hf H H'. apply (index_labels_same_partition l (map f l) idx U idx' U' H H'); [rewrite map_length; reflexivity|].
  intros k1 k2 H1 H2. rewrite !(nth_indep (map f l) [] (f [])) by (rewrite map_length; assumption). rewrite !map_nth. symmetry. apply Hf. Qed.
Theorem scores_label_bijection f g lr le yr Ur ye Ue yr' Ur' ye' Ue' beta :
  injective_up_to_case f -> injective_up_to_case g ->
  index_labels lr = Ok (yr, Ur) -> index_labels le = Ok (ye, Ue) ->
  index_labels (map f lr) = Ok (yr', Ur') -> index_labels (map g le) = Ok (ye', Ue') ->
  pairwise_idx yr' ye' beta = pairwise_idx yr ye beta /\ rand_idx yr' ye' = rand_idx yr ye /\
  (length lr = length le -> ari_idx yr' ye' = ari_idx yr ye).
Proof. intros Hf Hg H1 H2 H3 H4. assert (Pr := index_labels_rename f lr yr Ur yr' Ur' Hf H1 H3). assert (Pe := index_labels_rename g le ye Ue ye' Ue' Hg H2 H4).
  split; [apply pairwise_relabel; assumption|]. split; [apply rand_relabel; assumption|].
  intros Hl. apply ari_relabel; try assumption.
  rewrite (proj1 (proj2 (index_labels_spec false lr yr Ur H1))), (proj1 (proj2 (index_labels_spec false le ye Ue H2))). exact Hl. Qed.
Example injective_up_to_case_example : injective_up_to_case (fun s => 120 :: s).
Proof. intros a b. unfold lower. cbn [map]. split; [intros E; inversion E; reflexivity|intros ->; reflexivity]. Qed.

(* ================================================================================================== *)
(* 13. self-scores (C02) and the link with the Q-valued util.f_measure of Model.Events                 *)
(* ================================================================================================== *)
Local Open Scope Q_scope.
Lemma same_partition_refl y : same_partition y y. Proof. split; [reflexivity|]. intros; reflexivity. Qed.
Lemma self_sums y : sumB y y = sumA y y /\ sumM y y = sumA y y.
Proof. assert (HA := SA_id y y eq_refl). assert (HB := SB_id y y eq_refl). assert (HM := SM_id y y eq_refl).
  rewrite and_matrix_diag in HM. split; lia. Qed.
Lemma xdiv_self a : xdiv a a = NaN \/ xeq (xdiv a a) (Fin 1).
Proof. unfold xdiv. destruct (qeqb a 0) eqn:E; [left; reflexivity|]. right. cbn. apply qeqb_false in E. field. exact E. Qed.
(* the score of an annotation against itself is 1 - or nan when no two frames share a label *)
Theorem pairwise_self_score y beta : exists p, pairwise_idx y y beta = Ok (p, p, xf_measure p p beta) /\ (p = NaN \/ xeq p (Fin 1)).
Proof. rewrite (pairwise_idx_eq y y beta eq_refl). cbv zeta. rewrite and_matrix_diag. eexists. split; [reflexivity|]. apply xdiv_self. Qed.
Theorem rand_self_score y : exists x, rand_idx y y = Ok x /\ (x = NaN \/ xeq x (Fin 1)).
Proof. destruct (rand_def y y eq_refl) as [x [E X]]. exists x. split; [exact E|]. cbv zeta in X.
  destruct (self_sums y) as [EB EM]. rewrite EB, EM in X.
  set (a := nQ (sumA y y)) in *. set (t := nQ (comb2 (length y))) in *.
  assert (Et : a + (t - a - a + a) == t) by ring.
  assert (X' : xeq x (xdiv t t)) by (apply (xeq_trans _ _ _ X); apply xdiv_compat; [exact Et|reflexivity]).
  destruct (xdiv_self t) as [N|O]; [left; rewrite N in X'; destruct x; cbn in X'; try contradiction; reflexivity|right; exact (xeq_trans _ _ _ X' O)]. Qed.
Theorem ari_self_score y : exists q, ari_idx y y = Ok q /\ q == 1.
Proof. apply ari_identical_partitions, same_partition_refl. Qed.

(* ================================================================================================== *)
(* 14. index_labels produces dense indices: the classes of its output are 0 .. K-1, so that row i / column j of the
   contingency table is the class with index i / j                                                      *)
(* ================================================================================================== *)
Local Open Scope nat_scope.
Lemma str_ltb_irrefl a : str_ltb a a = false.
Proof. induction a as [|x a IH]; [reflexivity|]. cbn [str_ltb]. rewrite Nat.ltb_irrefl, Nat.eqb_refl, IH. reflexivity. Qed.
Lemma str_ltb_trans a : forall b c, str_ltb a b = true -> str_ltb b c = true -> str_ltb a c = true.
Proof. induction a as [|x a IH]; intros [|y b] [|z c]; cbn [str_ltb]; try discriminate; try reflexivity.
  intros H1 H2. apply orb_true_iff in H1. apply orb_true_iff in H2. apply orb_true_iff.
  destruct H1 as [H1|H1], H2 as [H2|H2].
  - left. apply Nat.ltb_lt in H1. apply Nat.ltb_lt in H2. apply Nat.ltb_lt. lia.
  - apply andb_true_iff in H2. destruct H2 as [E _]. apply Nat.eqb_eq in E. subst. left. exact H1.
  - apply andb_true_iff in H1. destruct H1 as [E _]. apply Nat.eqb_eq in E. subst. left. exact H2.
  - apply andb_true_iff in H1. apply andb_true_iff in H2. destruct H1 as [E1 L1], H2 as [E2 L2]. apply Nat.eqb_eq in E1. apply Nat.eqb_eq in E2. subst.
    right. rewrite Nat.eqb_refl. cbn [andb]. exact (IH b c L1 L2). Qed.
Lemma str_ltb_total a : forall b, str_ltb a b = false -> seqb a b = false -> str_ltb b a = true.
Proof. induction a as [|x a IH]; intros [|y b]; cbn [str_ltb seqb]; try discriminate; try reflexivity.
  intros H1 H2. apply orb_false_iff in H1. destruct H1 as [L E]. apply Nat.ltb_ge in L.
  destruct (Nat.eqb_spec x y) as [->|Ne].
  - cbn [andb] in *. rewrite Nat.eqb_refl, Nat.ltb_irrefl. cbn [orb andb]. apply IH; assumption.
  - apply orb_true_iff. left. apply Nat.ltb_lt. lia. Qed.
Definition sincr (l : list str) : Prop := StronglySorted (fun a b => str_ltb a b = true) l.
Lemma ins_str_sorted s l : sincr l -> sincr (ins_str s l).
Proof. induction 1 as [|t l Hs IH Hf]; cbn [ins_str]; [repeat constructor|].
  destruct (str_ltb s t) eqn:E1.
  - constructor; [constructor; assumption|]. constructor; [exact E1|]. rewrite Forall_forall in *. intros y Hy. exact (str_ltb_trans _ _ _ E1 (Hf y Hy)).
  - destruct (seqb s t) eqn:E2; [constructor; assumption|].
    constructor; [exact IH|]. rewrite Forall_forall in *. intros y Hy. apply In_ins_str in Hy. destruct Hy as [->|Hy]; [apply str_ltb_total; assumption|auto]. Qed.
Lemma sorted_set_sorted l : sincr (sorted_set l).
Proof. induction l as [|a l IH]; [constructor|]. change (sorted_set (a :: l)) with (ins_str a (sorted_set l)). apply ins_str_sorted, IH. Qed.
Lemma sincr_NoDup l : sincr l -> NoDup l.
Proof. induction 1 as [|t l Hs IH Hf]; constructor; [|exact IH]. intros Hi. rewrite Forall_forall in Hf. specialize (Hf t Hi). rewrite str_ltb_irrefl in Hf. discriminate. Qed.
(* sorted(set(labels)): strictly increasing in Python's string order, without repetition, same elements *)
Theorem sorted_set_spec l : sincr (sorted_set l) /\ NoDup (sorted_set l) /\ forall s, In s (sorted_set l) <-> In s l.
Proof. split; [apply sorted_set_sorted|]. split; [apply sincr_NoDup, sorted_set_sorted|]. intros s. apply In_sorted_set. Qed.

Lemma label_index_NoDup U : NoDup U -> forall i s, nth_error U i = Some s -> label_index U s = Ok i.
Proof. unfold label_index. induction 1 as [|t U Hn ND IH]; intros i s H; [destruct i; discriminate|]. cbn [find_idx]. destruct i as [|i]; cbn in H.
  - inversion H; subst. rewrite (proj2 (seqb_eq s s) eq_refl). reflexivity.
  - destruct (seqb s t) eqn:E; [apply seqb_eq in E; subst; exfalso; apply Hn; exact (nth_error_In _ _ H)|].
    specialize (IH i s H). destruct (find_idx (seqb s) U); [inversion IH; reflexivity|discriminate]. Qed.
Lemma incr_ext a : forall b, incr a -> incr b -> (forall x, In x a <-> In x b) -> a = b.
Proof. induction a as [|x a IH]; intros [|y b] Ha Hb H.
  - reflexivity.
  - exfalso. apply (proj2 (H y)). now left.
  - exfalso. apply (proj1 (H x)). now left.
  - inversion Ha as [|? ? Sa Fa]; subst. inversion Hb as [|? ? Sb Fb]; subst. rewrite Forall_forall in Fa, Fb.
    assert (E : x = y).
    { destruct (proj1 (H x) (or_introl eq_refl)) as [E|Hx]; [auto|]. destruct (proj2 (H y) (or_introl eq_refl)) as [E|Hy]; [auto|].
      specialize (Fa y Hy). specialize (Fb x Hx). lia. }
    subst y. f_equal. apply IH; [assumption|assumption|]. intros z. split; intros Hz.
    + destruct (proj1 (H z) (or_intror Hz)) as [E|Hz']; [|exact Hz']. subst z. specialize (Fa x Hz). lia.
    + destruct (proj2 (H z) (or_intror Hz)) as [E|Hz']; [|exact Hz']. subst z. specialize (Fb x Hz). lia. Qed.
Lemma seq_sorted n k : incr (seq n k).
Proof. revert n. induction k as [|k IH]; intros n; [constructor|]. cbn [seq]. constructor; [apply IH|]. apply Forall_forall. intros x Hx. apply in_seq in Hx. lia. Qed.

Theorem index_labels_dense cs l idx U : index_labels_cs cs l = Ok (idx, U) -> uniq idx = seq 0 (length U).
Proof. intros H. destruct (index_labels_spec cs l idx U H) as [EU [Hlen S]]. cbv zeta in EU, S. set (ls := if cs then l else map lower l) in *.
  assert (Hls : length ls = length l) by (unfold ls; destruct cs; [reflexivity|apply map_length]).
  apply incr_ext; [apply uniq_sorted|apply seq_sorted|]. intros x. rewrite In_uniq, in_seq. split.
  - intros Hx. destruct (In_nth _ _ 0 Hx) as [k [Hk <-]]. rewrite Hlen in Hk. destruct (S k Hk) as [_ B].
    assert (nth_error U (nth k idx 0) <> None) by congruence. apply nth_error_Some in H0. lia.
  - intros [_ Hx]. cbn in Hx. destruct (nth_error U x) as [s|] eqn:E; [|apply nth_error_None in E; lia].
    assert (Hs : In s ls) by (apply In_sorted_set; rewrite <- EU; exact (nth_error_In _ _ E)).
    destruct (@In_nth str ls s [] Hs) as [k [Hk Ek]]. assert (Hk' : k < length l) by (rewrite <- Hls; exact Hk). destruct (S k Hk') as [A _]. rewrite Ek in A.
    assert (ND : NoDup U) by (rewrite EU; apply sincr_NoDup, sorted_set_sorted).
    rewrite (label_index_NoDup U ND x s E) in A. injection A as Ex. rewrite Ex. apply nth_In. lia. Qed.

(* contingency_spec on index_labels outputs: cell (i, j) counts the frames with reference index i and estimated index j *)
Theorem contingency_spec_dense yr ye R C : length yr = length ye -> uniq yr = seq 0 R -> uniq ye = seq 0 C ->
  let tab := contingency_tab yr ye in
  length tab = R /\ (forall row, In row tab -> length row = C) /\
  forall i j, i < R -> j < C -> nth j (nth i tab []) 0 = length (filter (fun p => (fst p =? i) && (snd p =? j)) (combine yr ye)).
Proof. intros Hl HU HV tab. destruct (contingency_spec yr ye Hl) as [H1 [H2 [H3 _]]]. rewrite HU, HV, !seq_length in *.
  split; [exact H1|]. split; [exact H2|]. intros i j Hi Hj. fold tab in H3. rewrite (H3 i j Hi Hj). rewrite !seq_nth by assumption. reflexivity. Qed.
Theorem contingency_spec_index_labels lr le yr Ur ye Ue : index_labels lr = Ok (yr, Ur) -> index_labels le = Ok (ye, Ue) -> length lr = length le ->
  let tab := contingency_tab yr ye in
  length tab = length Ur /\ (forall row, In row tab -> length row = length Ue) /\
  forall i j, i < length Ur -> j < length Ue -> nth j (nth i tab []) 0 = length (filter (fun p => (fst p =? i) && (snd p =? j)) (combine yr ye)).
Proof. intros H1 H2 Hl. apply contingency_spec_dense.
  - rewrite (proj1 (proj2 (index_labels_spec false lr yr Ur H1))), (proj1 (proj2 (index_labels_spec false le ye Ue H2))). exact Hl.
  - exact (index_labels_dense false lr yr Ur H1).
  - exact (index_labels_dense false le ye Ue H2). Qed.

From ME Require Model.Events.
(* on finite arguments with a non-zero denominator the NumPy-valued F-measure is Model.Events.f_measure *)
Lemma xf_measure_is_f_measure p r beta : ~ beta * beta * p + r == 0 ->
  xf_measure (Fin p) (Fin r) beta = Fin (Model.Events.f_measure p r beta).
Proof. intros H. unfold xf_measure, Model.Events.f_measure, xis_zero. destruct (qeqb p 0 && qeqb r 0); [reflexivity|].
  cbn [xmul xadd xdivx]. apply xdiv_nonzero. exact H. Qed.

(* ================================================================================================== *)
Print Assumptions contingency_spec.
Print Assumptions contingency_swap.
Print Assumptions pairwise_counts.
Print Assumptions pairwise_def.
Print Assumptions rand_def.
Print Assumptions ari_def.
Print Assumptions ari_denominators.
Print Assumptions ari_le_1.
Print Assumptions ari_sym.
Print Assumptions ari_identical_partitions.
Print Assumptions ari_relabel.
Print Assumptions pairwise_range_when_defined.
Print Assumptions rand_range.
Print Assumptions pairwise_swap.
Print Assumptions rand_sym.
Print Assumptions pairwise_relabel.
Print Assumptions rand_relabel.
Print Assumptions case_insensitive.
Print Assumptions index_labels_total.
Print Assumptions index_labels_spec.
Print Assumptions index_labels_equalities.
Print Assumptions index_labels_same_partition.
Print Assumptions scores_label_bijection.
Print Assumptions pairwise_self_score.
Print Assumptions rand_self_score.
Print Assumptions ari_self_score.
Print Assumptions pairwise_defined_refuted.
Print Assumptions pairwise_self_score_refuted.
Print Assumptions rand_self_score_refuted.
Print Assumptions rand_single_frame.
Print Assumptions pairwise_broadcast_refuted.
Print Assumptions xf_measure_is_f_measure.
Print Assumptions sorted_set_spec.
Print Assumptions index_labels_dense.
Print Assumptions contingency_spec_dense.
Print Assumptions contingency_spec_index_labels.
