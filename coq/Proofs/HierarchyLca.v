(* C17, part 4: hierarchy._lca / _meet build "deepest level at which two frames lie in one segment / in equally
   labelled segments"; the quantiser on exact rationals; parameter validation and assembly of tmeasure / lmeasure. *)
From Coq Require Import List Arith Lia Bool ZArith QArith Qabs Qround Lqa.
From ME Require Import Model.Prelude Model.Events Model.Hierarchy Proofs.HierarchyInv Proofs.HierarchyRank Proofs.HierarchyGauc.
Import ListNotations.
Local Open Scope nat_scope.

(* ---------- block assignment ---------- *)
Lemma mapi_from_length {A B} (f : nat -> A -> B) l : forall k, length (mapi_from k f l) = length l.
Proof. induction l as [|x l IH]; intros k; [reflexivity|]. cbn [mapi_from length]. rewrite IH. reflexivity. Qed.
Lemma nth_mapi_from {A B} (f : nat -> A -> B) l (da : A) (db : B) : forall k i, i < length l ->
  nth i (mapi_from k f l) db = f (k + i) (nth i l da).
Proof.
  induction l as [|x l IH]; intros k i H; [cbn in H; lia|]. destruct i as [|i]; cbn [mapi_from nth].
  - rewrite Nat.add_0_r. reflexivity.
  - rewrite IH by (cbn [length] in H; lia). f_equal. lia.
Qed.
Lemma mapi_from_in {A B} (f : nat -> A -> B) l y : forall k, In y (mapi_from k f l) -> exists i x, In x l /\ y = f i x.
Proof.
  induction l as [|x l IH]; intros k H; [destruct H|]. cbn [mapi_from] in H. destruct H as [<-|H].
  - exists k, x. split; [now left|reflexivity].
  - destruct (IH _ H) as [i [x' [Hx' ->]]]. exists i, x'. split; [now right|reflexivity].
Qed.
Lemma assign_block_square n M r0 r1 c0 c1 v : square n M -> square n (assign_block M r0 r1 c0 c1 v).
Proof.
  intros [HL HR]. unfold assign_block. split; [rewrite mapi_from_length; exact HL|].
  intros r Hr. apply mapi_from_in in Hr. destruct Hr as [i [row [Hrow ->]]].
  destruct (in_rng r0 r1 i); [rewrite mapi_from_length|]; apply HR; exact Hrow.
Qed.
Lemma assign_block_entry n M r0 r1 c0 c1 v i j : square n M -> i < n -> j < n ->
  entry (assign_block M r0 r1 c0 c1 v) i j = if in_rng r0 r1 i && in_rng c0 c1 j then v else entry M i j.
Proof.
  intros HM Hi Hj. pose proof (square_row n M i HM Hi) as Hrow. destruct HM as [HL HR]. unfold entry, assign_block.
  rewrite (nth_mapi_from _ M [] []) by lia. cbn [Nat.add].
  destruct (in_rng r0 r1 i); cbn [andb]; [|reflexivity].
  rewrite (nth_mapi_from _ (nth i M []) 0 0) by lia. reflexivity.
Qed.
Lemma zeros_square n : square n (zeros n).
Proof.
  unfold zeros. split; [apply repeat_length|]. intros r Hr. apply repeat_spec in Hr. subst r. apply repeat_length.
Qed.
Lemma zeros_entry n i j : i < n -> j < n -> entry (zeros n) i j = 0.
Proof.
  intros Hi Hj. unfold entry, zeros.
  assert (Hr : nth i (repeat (repeat 0 n) n) [] = repeat 0 n).
  { apply (repeat_spec n). apply nth_In. rewrite repeat_length. exact Hi. }
  rewrite Hr. apply (repeat_spec n). apply nth_In. rewrite repeat_length. exact Hj.
Qed.

(* a sequence of assignments of one value *)
Definition step_ok {P} (n level : nat) (f : mat -> P -> mat) (wr : P -> nat -> nat -> bool) : Prop :=
  forall M p, square n M -> square n (f M p) /\
    forall i j, i < n -> j < n -> entry (f M p) i j = if wr p i j then level else entry M i j.
Lemma fold_assign {P} n level (f : mat -> P -> mat) wr : step_ok n level f wr ->
  step_ok n level (fun M ps => fold_left f ps M) (fun ps i j => existsb (fun p => wr p i j) ps).
Proof.
  intros Hf M ps. revert M. induction ps as [|p ps IH]; intros M HM; cbn [fold_left existsb].
  - split; [exact HM|reflexivity].
  - destruct (Hf M p HM) as [HS HE]. destruct (IH _ HS) as [HS' HE']. split; [exact HS'|].
    intros i j Hi Hj. rewrite (HE' i j Hi Hj), (HE i j Hi Hj).
    destruct (wr p i j); cbn [orb]; [destruct (existsb _ ps); reflexivity|reflexivity].
Qed.

(* levels: later (deeper) levels overwrite earlier ones *)
Fixpoint deepest_from {X} (wr : X -> bool) (level cur : nat) (H : list X) : nat :=
  match H with [] => cur | x :: H' => deepest_from wr (S level) (if wr x then level else cur) H' end.
Lemma levels_from_entry {X} n (step : nat -> mat -> X -> mat) (wr : X -> nat -> nat -> bool) :
  (forall level, step_ok n level (step level) wr) ->
  forall H level M, square n M ->
    square n (levels_from step level M H) /\
    forall i j, i < n -> j < n ->
      entry (levels_from step level M H) i j = deepest_from (fun x => wr x i j) level (entry M i j) H.
Proof.
  intros Hs H. induction H as [|x H IH]; intros level M HM; cbn [levels_from deepest_from].
  - split; [exact HM|reflexivity].
  - destruct (Hs level M x HM) as [HS HE]. destruct (IH (S level) _ HS) as [HS' HE']. split; [exact HS'|].
    intros i j Hi Hj. rewrite (HE' i j Hi Hj), (HE i j Hi Hj). reflexivity.
Qed.
(* deepest_from = the last position of the list at which wr holds (as a level number), cur if there is none *)
Lemma deepest_from_spec {X} (wr : X -> bool) H : forall level cur,
  let v := deepest_from wr level cur H in
  (v = cur /\ forall k x, nth_error H k = Some x -> wr x = false)
  \/ (exists k x, nth_error H k = Some x /\ wr x = true /\ v = level + k
                  /\ forall k' x', k < k' -> nth_error H k' = Some x' -> wr x' = false).
Proof.
  induction H as [|x H IH]; intros level cur; cbn [deepest_from].
  - left. split; [reflexivity|]. intros k y Hk. destruct k; discriminate.
  - cbv zeta in IH. destruct (IH (S level) (if wr x then level else cur)) as [[Hv Hnone]|[k [y [Hk [Hy [Hv Hlater]]]]]].
    + destruct (wr x) eqn:E.
      * right. exists 0, x. split; [reflexivity|]. split; [exact E|]. split; [rewrite Hv; lia|].
        intros k' x' Hlt Hk'. destruct k' as [|k']; [lia|]. cbn [nth_error] in Hk'. eapply Hnone; eassumption.
      * left. split; [exact Hv|]. intros k y Hk. destruct k as [|k]; cbn [nth_error] in Hk; [inversion Hk; subst; exact E|].
        eapply Hnone; eassumption.
    + right. exists (S k), y. split; [exact Hk|]. split; [exact Hy|]. split; [rewrite Hv; lia|].
      intros k' x' Hlt Hk'. destruct k' as [|k']; [lia|]. cbn [nth_error] in Hk'. apply (Hlater k' x'); [lia|exact Hk'].
Qed.

(* ---------- _lca ---------- *)
(* frame i lies in the (normalised) slice [s, e) *)
Definition in_slice (n : nat) (iv : Z * Z) (i : nat) : bool := in_rng (norm_idx n (fst iv)) (norm_idx n (snd iv)) i.
(* frames i and j lie in one segment of the level *)
Definition together (n : nat) (ivs : list (Z * Z)) (i j : nat) : bool :=
  existsb (fun iv => in_slice n iv i && in_slice n iv j) ivs.
Lemma in_slice_nonneg n s e i : (0 <= s)%Z -> (0 <= e)%Z -> i < n ->
  (in_slice n (s, e) i = true <-> (s <= Z.of_nat i < e)%Z).
Proof.
  intros Hs He Hi. unfold in_slice, in_rng, norm_idx. cbn [fst snd].
  destruct (s <? 0)%Z eqn:E1; [apply Z.ltb_lt in E1; lia|]. destruct (e <? 0)%Z eqn:E2; [apply Z.ltb_lt in E2; lia|].
  rewrite andb_true_iff, Nat.leb_le, Nat.ltb_lt. lia.
Qed.
Lemma assign_slices_ok n level : step_ok n level (fun M rc => assign_slices n M (fst rc) (snd rc) level)
                                                 (fun rc i j => in_slice n (fst rc) i && in_slice n (snd rc) j).
Proof.
  intros M rc HM. unfold assign_slices. split; [apply assign_block_square; exact HM|].
  intros i j Hi Hj. rewrite (assign_block_entry n) by assumption. reflexivity.
Qed.
Lemma lca_level_ok n level : step_ok n level (lca_level n level) (together n).
Proof.
  intros M ivs HM. unfold lca_level, together.
  apply (fold_assign n level (fun M iv => assign_slices n M iv iv level) (fun iv i j => in_slice n iv i && in_slice n iv j)); [|exact HM].
  intros M' iv HM'. apply (assign_slices_ok n level M' (iv, iv) HM').
Qed.
Lemma lca_frames_square n H : square n (lca_frames n H).
Proof. apply (levels_from_entry n (lca_level n) (together n) (lca_level_ok n) H 1 (zeros n) (zeros_square n)). Qed.

(* entry (i, j) of the LCA matrix = the deepest level (1-based; 0 = none) at which frames i and j lie in one segment *)
Theorem lca_spec : forall n (H : list (list (Z * Z))) i j, i < n -> j < n ->
  let v := entry (lca_frames n H) i j in
  (v = 0 /\ forall k ivs, nth_error H k = Some ivs -> together n ivs i j = false)
  \/ (exists ivs, 1 <= v /\ nth_error H (v - 1) = Some ivs /\ together n ivs i j = true
                  /\ forall k' ivs', v - 1 < k' -> nth_error H k' = Some ivs' -> together n ivs' i j = false).
Proof.
  intros n H i j Hi Hj. cbv zeta. unfold lca_frames.
  destruct (levels_from_entry n (lca_level n) (together n) (lca_level_ok n) H 1 (zeros n) (zeros_square n)) as [_ HE].
  rewrite (HE i j Hi Hj), zeros_entry by assumption.
  destruct (deepest_from_spec (fun x => together n x i j) H 1 0) as [[Hv Hnone]|[k [x [Hk [Hx [Hv Hlater]]]]]].
  - left. split; assumption.
  - right. exists x. rewrite Hv. replace (1 + k - 1) with k by lia. repeat split; [lia|exact Hk|exact Hx|exact Hlater].
Qed.
Print Assumptions lca_spec.
Example lca_spec_ex : lca_frames 4 [[(0, 4)%Z]; [(0, 2)%Z; (2, 4)%Z]] = [[2; 2; 1; 1]; [2; 2; 1; 1]; [1; 1; 2; 2]; [1; 1; 2; 2]].
Proof. reflexivity. Qed.

(* ---------- _meet ---------- *)
Lemma seqb_sym a : forall b, seqb a b = seqb b a.
Proof.
  induction a as [|x a IH]; intros [|y b]; cbn [seqb]; try reflexivity. rewrite IH, Nat.eqb_sym. reflexivity.
Qed.
Lemma lab_agree_sym a b : lab_agree a b = lab_agree b a.
Proof. apply seqb_sym. Qed.
(* frames i and j lie in segments of the level that carry the same (lower-cased) label *)
Definition agree (n : nat) (segs : list seg) (i j : nat) : bool :=
  existsb (fun A => existsb (fun B => lab_agree A B && in_slice n (seg_iv A) i && in_slice n (seg_iv B) j) segs) segs.
Definition pair_writes (n : nat) (ab : (nat * seg) * (nat * seg)) (i j : nat) : bool :=
  let '((a, sa), (b, sb)) := ab in
  (in_slice n (seg_iv sa) i && in_slice n (seg_iv sb) j)
  || (negb (a =? b) && (in_slice n (seg_iv sb) i && in_slice n (seg_iv sa) j)).
Lemma meet_pair_ok n level : step_ok n level
  (fun M (ab : (nat * seg) * (nat * seg)) =>
     let '((a, sa), (b, sb)) := ab in
     let M1 := assign_slices n M (seg_iv sa) (seg_iv sb) level in
     if a =? b then M1 else assign_slices n M1 (seg_iv sb) (seg_iv sa) level)
  (pair_writes n).
Proof.
  intros M [[a sa] [b sb]] HM. cbv zeta.
  destruct (assign_slices_ok n level M (seg_iv sa, seg_iv sb) HM) as [HS1 HE1]. cbn [fst snd] in HS1, HE1.
  destruct (a =? b) eqn:E.
  - split; [exact HS1|]. intros i j Hi Hj. rewrite (HE1 i j Hi Hj). unfold pair_writes. rewrite E. cbn [negb andb]. rewrite orb_false_r. reflexivity.
  - destruct (assign_slices_ok n level _ (seg_iv sb, seg_iv sa) HS1) as [HS2 HE2]. cbn [fst snd] in HS2, HE2.
    split; [exact HS2|]. intros i j Hi Hj. rewrite (HE2 i j Hi Hj), (HE1 i j Hi Hj). unfold pair_writes. rewrite E. cbn [negb andb].
    destruct (in_slice n (seg_iv sb) i && in_slice n (seg_iv sa) j); [rewrite orb_true_r; reflexivity|rewrite orb_false_r; reflexivity].
Qed.
Lemma in_indexed {A} (l : list A) x : In x l -> exists k, In (k, x) (combine (seq 0 (length l)) l).
Proof.
  intros H. destruct (In_nth l x x H) as [k [Hk Hn]]. exists k.
  assert (E : (k, x) = nth k (combine (seq 0 (length l)) l) (0, x)).
  { rewrite combine_nth by apply seq_length. rewrite seq_nth by exact Hk. rewrite Hn. reflexivity. }
  rewrite E. apply nth_In. rewrite combine_length, seq_length. lia.
Qed.
Lemma writes_agree n segs i j : existsb (fun ab => pair_writes n ab i j) (agree_pairs segs) = agree n segs i j.
Proof.
  apply eq_true_iff_eq. unfold agree. rewrite !existsb_exists. split.
  - intros [[[a sa] [b sb]] [Hin Hw]]. unfold agree_pairs in Hin. apply filter_In in Hin. destruct Hin as [Hin Hf].
    apply in_prod_iff in Hin. destruct Hin as [Ha Hb]. apply in_combine_r in Ha, Hb.
    cbn [fst snd] in Hf. apply andb_true_iff in Hf. destruct Hf as [_ Hl].
    unfold pair_writes in Hw. apply orb_true_iff in Hw. destruct Hw as [Hw|Hw].
    + apply andb_true_iff in Hw. destruct Hw as [Hi Hj]. exists sa. split; [exact Ha|]. apply existsb_exists. exists sb.
      split; [exact Hb|]. rewrite Hl, Hi, Hj. reflexivity.
    + apply andb_true_iff in Hw. destruct Hw as [_ Hw]. apply andb_true_iff in Hw. destruct Hw as [Hi Hj].
      exists sb. split; [exact Hb|]. apply existsb_exists. exists sa. split; [exact Ha|]. rewrite lab_agree_sym, Hl, Hi, Hj. reflexivity.
  - intros [A [HA HB]]. apply existsb_exists in HB. destruct HB as [B [HB Hc]].
    apply andb_true_iff in Hc. destruct Hc as [Hc Hj]. apply andb_true_iff in Hc. destruct Hc as [Hl Hi].
    destruct (in_indexed segs A HA) as [a Ha]. destruct (in_indexed segs B HB) as [b Hb].
    destruct (le_lt_dec a b) as [Hab|Hab].
    + exists ((a, A), (b, B)). split.
      * unfold agree_pairs. apply filter_In. split; [apply in_prod_iff; split; assumption|]. cbn [fst snd].
        apply Nat.leb_le in Hab. rewrite Hab, Hl. reflexivity.
      * unfold pair_writes. rewrite Hi, Hj. reflexivity.
    + exists ((b, B), (a, A)). split.
      * unfold agree_pairs. apply filter_In. split; [apply in_prod_iff; split; assumption|]. cbn [fst snd].
        assert (Hba : b <=? a = true) by (apply Nat.leb_le; lia). rewrite Hba, lab_agree_sym, Hl. reflexivity.
      * unfold pair_writes. assert (Hne : b =? a = false) by (apply Nat.eqb_neq; lia). rewrite Hne, Hi, Hj. cbn. apply orb_true_r.
Qed.
Lemma meet_level_ok n level : step_ok n level (meet_level n level) (agree n).
Proof.
  intros M segs HM.
  destruct (fold_assign n level _ _ (meet_pair_ok n level) M (agree_pairs segs) HM) as [HS HE]. split; [exact HS|].
  intros i j Hi Hj. rewrite <- writes_agree. exact (HE i j Hi Hj).
Qed.
Lemma meet_frames_square n H : square n (meet_frames n H).
Proof. apply (levels_from_entry n (meet_level n) (agree n) (meet_level_ok n) H 1 (zeros n) (zeros_square n)). Qed.

(* entry (i, j) of the meet matrix = the deepest level at which frames i and j lie in equally labelled segments *)
Theorem meet_spec : forall n (H : list (list seg)) i j, i < n -> j < n ->
  let v := entry (meet_frames n H) i j in
  (v = 0 /\ forall k segs, nth_error H k = Some segs -> agree n segs i j = false)
  \/ (exists segs, 1 <= v /\ nth_error H (v - 1) = Some segs /\ agree n segs i j = true
                   /\ forall k' segs', v - 1 < k' -> nth_error H k' = Some segs' -> agree n segs' i j = false).
Proof.
  intros n H i j Hi Hj. cbv zeta. unfold meet_frames.
  destruct (levels_from_entry n (meet_level n) (agree n) (meet_level_ok n) H 1 (zeros n) (zeros_square n)) as [_ HE].
  rewrite (HE i j Hi Hj), zeros_entry by assumption.
  destruct (deepest_from_spec (fun x => agree n x i j) H 1 0) as [[Hv Hnone]|[k [x [Hk [Hx [Hv Hlater]]]]]].
  - left. split; assumption.
  - right. exists x. rewrite Hv. replace (1 + k - 1) with k by lia. repeat split; [lia|exact Hk|exact Hx|exact Hlater].
Qed.
Print Assumptions meet_spec.
Example meet_spec_ex :
  meet_frames 3 [[((0, 1)%Z, [97]); ((1, 2)%Z, [66]); ((2, 3)%Z, [65])]] = [[1; 0; 1]; [0; 1; 0]; [1; 0; 1]].
Proof. reflexivity. Qed.

(* ---------- the quantiser on exact rationals ---------- *)
Lemma qtrunc_comp x y : (x == y)%Q -> qtrunc x = qtrunc y.
Proof. intros H. unfold qtrunc. rewrite (Qfloor_comp _ _ H), (Qceiling_comp _ _ H), H. reflexivity. Qed.
Lemma qtrunc_Z z : qtrunc (inject_Z z) = z.
Proof. unfold qtrunc. rewrite Qfloor_Z, Qceiling_Z. destruct (Qle_bool 0 (inject_Z z)); reflexivity. Qed.
Lemma hround_frames t fs : (0 < fs)%Q -> (hround t fs / fs == inject_Z (Qfloor (t / fs)))%Q.
Proof. intros H. unfold hround, qmod. field. lra. Qed.
(* int(_round(t, frame_size) / frame_size) = floor(t / frame_size) in exact arithmetic *)
Theorem quantise_exact : forall t fs, (0 < fs)%Q -> frame_of t fs = Qfloor (t / fs).
Proof. intros t fs H. unfold frame_of. rewrite (qtrunc_comp _ _ (hround_frames t fs H)). apply qtrunc_Z. Qed.
Print Assumptions quantise_exact.
Lemma n_frames_exact H fs lo hi : (0 < fs)%Q -> hier_bounds H = Ok (lo, hi) ->
  n_frames H fs = Ok (Z.to_nat (Qfloor (hi / fs) - Qfloor (lo / fs))).
Proof.
  intros Hfs Hb. unfold n_frames. rewrite Hb. cbn [bind fst snd]. f_equal. f_equal.
  transitivity (qtrunc (inject_Z (Qfloor (hi / fs) - Qfloor (lo / fs)))); [|apply qtrunc_Z].
  apply qtrunc_comp. unfold Z.sub. rewrite inject_Z_plus, inject_Z_opp. rewrite <- !hround_frames by exact Hfs. field. lra.
Qed.
Lemma window_frames_exact w fs : (0 < fs)%Q -> (fs <= w)%Q ->
  window_frames (Some w) fs = Ok (Some (Z.to_nat (Qfloor (w / fs)))).
Proof.
  intros Hfs Hw. unfold window_frames, qltb. apply Qle_bool_iff in Hw. rewrite Hw. cbn [negb].
  change (qtrunc (hround w fs / fs)) with (frame_of w fs). rewrite (quantise_exact w fs Hfs). reflexivity.
Qed.

(* ---------- parameter validation ---------- *)
Definition bad_params (window : option Q) (fs : Q) : Prop :=
  (fs <= 0)%Q \/ exists w, window = Some w /\ (w < fs)%Q.
(* frame_size <= 0 or window < frame_size  =>  ValueError, whatever the annotations are *)
Theorem hier_param_validation : forall ref est tr window fs beta,
  bad_params window fs -> tmeasure ref est tr window fs beta = Raise ValueError.
Proof.
  intros ref est tr window fs beta [H|[w [-> H]]]; unfold tmeasure.
  - apply Qle_bool_iff in H. unfold qleb. rewrite H. reflexivity.
  - destruct (qleb fs 0); [reflexivity|]. unfold window_frames, qltb.
    destruct (Qle_bool fs w) eqn:E; [apply Qle_bool_iff in E; lra|]. reflexivity.
Qed.
Theorem lmeasure_param_validation : forall ref est fs beta, (fs <= 0)%Q -> lmeasure ref est fs beta = Raise ValueError.
Proof. intros ref est fs beta H. unfold lmeasure. apply Qle_bool_iff in H. unfold qleb. rewrite H. reflexivity. Qed.

(* _lca can only fail in _hierarchy_bounds (min() of nothing) *)
Lemma lca_raise_kind H fs e : lca H fs = Raise e -> e = ValueError.
Proof.
  unfold lca, n_frames, hier_bounds. destruct (boundaries H); cbn [bind]; intros E; [inversion E; reflexivity|discriminate].
Qed.
Lemma validate_hier_raise_kind H e : validate_hier H = Raise e -> e = ValueError \/ (e = IndexError /\ H = []).
Proof.
  destruct H as [|top rest]; cbn [validate_hier]; intros E; [inversion E; right; split; reflexivity|]. left.
  induction rest as [|l t IH]; cbn [validate_levels] in E; [discriminate|].
  unfold validate_structure in E at 1. destruct (_ && _ && _); cbn [bind] in E; [apply IH; exact E|inversion E; reflexivity].
Qed.
(* ... and conversely: on valid annotations of a common span nothing else is rejected - with any exception *)
Theorem hier_param_validation_conv : forall ref est tr window fs beta rl el,
  validate_hier ref = Ok tt -> validate_hier est = Ok tt ->
  lca ref fs = Ok rl -> lca est fs = Ok el -> mshape rl = mshape el ->
  forall e, tmeasure ref est tr window fs beta = Raise e -> e = ValueError /\ bad_params window fs.
Proof.
  intros ref est tr window fs beta rl el Hvr Hve Hlr Hle Hs e H. unfold tmeasure in H.
  destruct (qleb fs 0) eqn:E0; [inversion H; split; [reflexivity|left; apply Qle_bool_iff; exact E0]|].
  assert (Hok : forall wf, (r <- gauc rl el tr wf ;; p <- gauc el rl tr wf ;; Ok (p, r, f_measure p r beta)) <> Raise e).
  { intros wf. destruct (gauc_total rl el tr wf Hs) as [r ->]. destruct (gauc_total el rl tr wf (eq_sym Hs)) as [p ->].
    cbn [bind]. discriminate. }
  destruct window as [w|]; cbn [window_frames] in H.
  - destruct (qltb w fs) eqn:Ew.
    + cbn [bind] in H. inversion H. split; [reflexivity|]. right. exists w. split; [reflexivity|].
      unfold qltb in Ew. apply negb_true_iff in Ew.
      destruct (Qlt_le_dec w fs) as [Hlt|Hge]; [exact Hlt|]. apply Qle_bool_iff in Hge. congruence.
    + cbn [bind] in H. rewrite Hvr, Hve, Hlr, Hle in H. cbn [bind] in H. exfalso. exact (Hok _ H).
  - cbn [bind] in H. rewrite Hvr, Hve, Hlr, Hle in H. cbn [bind] in H. exfalso. exact (Hok _ H).
Qed.
Print Assumptions hier_param_validation.
Print Assumptions hier_param_validation_conv.
Example hier_param_validation_ex :
  let ref := [[(0, 4)]; [(0, 2); (2, 4)]]%Q in let est := [[(0, 4)]; [(0, 1); (1, 4)]]%Q in
  tmeasure ref est false (Some (3 # 4)%Q) 1%Q 1%Q = Raise ValueError /\ tmeasure ref est false (Some 2%Q) 0%Q 1%Q = Raise ValueError
  /\ exists rl el, validate_hier ref = Ok tt /\ validate_hier est = Ok tt /\ lca ref 1%Q = Ok rl /\ lca est 1%Q = Ok el /\ mshape rl = mshape el.
Proof. cbv zeta. split; [vm_compute; reflexivity|]. split; [vm_compute; reflexivity|]. eexists. eexists. repeat split; vm_compute; reflexivity. Qed.

(* ---------- assembly ---------- *)
(* recall = gauc(ref, est), precision = gauc with the roles exchanged, F = util.f_measure *)
Theorem tmeasure_def : forall ref est tr window fs beta wf rl el,
  (0 < fs)%Q -> window_frames window fs = Ok wf ->
  validate_hier ref = Ok tt -> validate_hier est = Ok tt -> lca ref fs = Ok rl -> lca est fs = Ok el ->
  tmeasure ref est tr window fs beta =
    (r <- gauc rl el tr wf ;; p <- gauc el rl tr wf ;; Ok (p, r, f_measure p r beta)).
Proof.
  intros ref est tr window fs beta wf rl el Hfs Hw Hvr Hve Hlr Hle. unfold tmeasure.
  destruct (qleb fs 0) eqn:E0; [apply Qle_bool_iff in E0; lra|]. rewrite Hw, Hvr, Hve, Hlr, Hle. reflexivity.
Qed.
(* valid annotations of a common span and accepted parameters always get scores *)
Theorem tmeasure_total : forall ref est tr window fs beta rl el,
  ~ bad_params window fs -> validate_hier ref = Ok tt -> validate_hier est = Ok tt ->
  lca ref fs = Ok rl -> lca est fs = Ok el -> mshape rl = mshape el ->
  exists p r, tmeasure ref est tr window fs beta = Ok (p, r, f_measure p r beta).
Proof.
  intros ref est tr window fs beta rl el Hb Hvr Hve Hlr Hle Hs.
  destruct (tmeasure ref est tr window fs beta) as [[[p r] f]|e] eqn:E.
  - exists p, r. f_equal. unfold tmeasure in E.
    destruct (qleb fs 0); [discriminate|]. destruct (window_frames window fs) as [wf|]; cbn [bind] in E; [|discriminate].
    rewrite Hvr, Hve, Hlr, Hle in E. cbn [bind] in E.
    destruct (gauc rl el tr wf) as [r'|]; cbn [bind] in E; [|discriminate].
    destruct (gauc el rl tr wf) as [p'|]; cbn [bind] in E; [|discriminate]. inversion E; subst. reflexivity.
  - exfalso. destruct (hier_param_validation_conv ref est tr window fs beta rl el Hvr Hve Hlr Hle Hs e E) as [_ Hbp]. exact (Hb Hbp).
Qed.
Theorem lmeasure_def : forall ref est fs beta rm em,
  (0 < fs)%Q -> validate_hier (lh_intervals ref) = Ok tt -> validate_hier (lh_intervals est) = Ok tt ->
  meet ref fs = Ok rm -> meet est fs = Ok em ->
  lmeasure ref est fs beta =
    (r <- gauc rm em true None ;; p <- gauc em rm true None ;; Ok (p, r, f_measure p r beta)).
Proof.
  intros ref est fs beta rm em Hfs Hvr Hve Hmr Hme. unfold lmeasure.
  destruct (qleb fs 0) eqn:E0; [apply Qle_bool_iff in E0; lra|]. rewrite Hvr, Hve, Hmr, Hme. reflexivity.
Qed.
(* exchanging the annotations exchanges precision and recall *)
Theorem tmeasure_swap : forall a b tr window fs beta p r f,
  tmeasure a b tr window fs beta = Ok (p, r, f) -> exists f', tmeasure b a tr window fs beta = Ok (r, p, f').
Proof.
  intros a b tr window fs beta p r f H. unfold tmeasure in *.
  destruct (qleb fs 0); [discriminate|]. destruct (window_frames window fs) as [wf|]; cbn [bind] in *; [|discriminate].
  destruct (validate_hier a) as [[]|]; cbn [bind] in *; [|discriminate].
  destruct (validate_hier b) as [[]|]; cbn [bind] in *; [|discriminate].
  destruct (lca a fs) as [la|]; cbn [bind] in *; [|discriminate].
  destruct (lca b fs) as [lb|]; cbn [bind] in *; [|discriminate].
  destruct (gauc la lb tr wf) as [r'|]; cbn [bind] in *; [|discriminate].
  destruct (gauc lb la tr wf) as [p'|]; cbn [bind] in *; [|discriminate].
  inversion H; subst. eexists. reflexivity.
Qed.
(* all three scores lie in [0, 1] *)
Lemma f_measure_range p r beta : (0 <= p <= 1)%Q -> (0 <= r <= 1)%Q -> (0 < beta)%Q -> (0 <= f_measure p r beta <= 1)%Q.
Proof.
  intros Hp Hr Hb. unfold f_measure. destruct (qeqb p 0 && qeqb r 0) eqn:E; [lra|].
  assert (Hnz : ~ (p == 0 /\ r == 0)%Q).
  { intros [H1 H2]. unfold qeqb in E. apply Qeq_bool_iff in H1, H2. rewrite H1, H2 in E. discriminate. }
  assert (Hb2 : (0 < beta * beta)%Q) by nra.
  assert (Hd : (0 < beta * beta * p + r)%Q).
  { destruct (Qlt_le_dec 0 p) as [Hp0|Hp0]; [nra|]. destruct (Qlt_le_dec 0 r) as [Hr0|Hr0]; [nra|].
    exfalso. apply Hnz. split; lra. }
  assert (H1 : (0 <= p * r)%Q) by nra.
  assert (H2 : (0 <= beta * beta * (p * r))%Q) by nra.
  assert (H3 : (0 <= p * (1 - r))%Q) by nra.
  assert (H4 : (0 <= beta * beta * (p * (1 - r)))%Q) by nra.
  assert (H5 : (0 <= (1 - p) * r)%Q) by nra.
  split.
  - apply Qle_shift_div_l; [exact Hd|]. nra.
  - apply Qle_shift_div_r; [exact Hd|]. nra.
Qed.
Theorem tmeasure_range : forall a b tr window fs beta p r f, (0 < beta)%Q ->
  tmeasure a b tr window fs beta = Ok (p, r, f) -> (0 <= p <= 1 /\ 0 <= r <= 1 /\ 0 <= f <= 1)%Q.
Proof.
  intros a b tr window fs beta p r f Hb H. unfold tmeasure in H.
  destruct (qleb fs 0); [discriminate|]. destruct (window_frames window fs) as [wf|]; cbn [bind] in *; [|discriminate].
  destruct (validate_hier a) as [[]|]; cbn [bind] in *; [|discriminate].
  destruct (validate_hier b) as [[]|]; cbn [bind] in *; [|discriminate].
  destruct (lca a fs) as [la|]; cbn [bind] in *; [|discriminate].
  destruct (lca b fs) as [lb|]; cbn [bind] in *; [|discriminate].
  destruct (gauc la lb tr wf) as [r'|] eqn:G1; cbn [bind] in *; [|discriminate].
  destruct (gauc lb la tr wf) as [p'|] eqn:G2; cbn [bind] in *; [|discriminate].
  inversion H; subst. apply gauc_range in G1, G2. split; [exact G2|]. split; [exact G1|]. apply f_measure_range; assumption.
Qed.
Theorem lmeasure_range : forall a b fs beta p r f, (0 < beta)%Q ->
  lmeasure a b fs beta = Ok (p, r, f) -> (0 <= p <= 1 /\ 0 <= r <= 1 /\ 0 <= f <= 1)%Q.
Proof.
  intros a b fs beta p r f Hb H. unfold lmeasure in H.
  destruct (qleb fs 0); [discriminate|].
  destruct (validate_hier (lh_intervals a)) as [[]|]; cbn [bind] in *; [|discriminate].
  destruct (validate_hier (lh_intervals b)) as [[]|]; cbn [bind] in *; [|discriminate].
  destruct (meet a fs) as [la|]; cbn [bind] in *; [|discriminate].
  destruct (meet b fs) as [lb|]; cbn [bind] in *; [|discriminate].
  destruct (gauc la lb true None) as [r'|] eqn:G1; cbn [bind] in *; [|discriminate].
  destruct (gauc lb la true None) as [p'|] eqn:G2; cbn [bind] in *; [|discriminate].
  inversion H; subst. apply gauc_range in G1, G2. split; [exact G2|]. split; [exact G1|]. apply f_measure_range; assumption.
Qed.
Print Assumptions tmeasure_range.

(* ---------- the former witnesses of the squeeze defect (repository fix 53bf09e: squeeze -> ravel) ---------- *)
Lemma lca_square H fs M : lca H fs = Ok M -> exists n, square n M.
Proof.
  unfold lca. destruct (n_frames H fs) as [n|]; cbn [bind]; intros E; [|discriminate]. inversion E; subst.
  exists n. apply lca_frames_square.
Qed.
(* frame_size = window: accepted by the parameter check, and scored (every query sees at most one other frame,
   so no query frame has a reference triple: 0, 0, 0) *)
Theorem tmeasure_window_eq_frame_size_ok :
  let ref := [[(0, 4)]; [(0, 2); (2, 4)]]%Q in let est := [[(0, 4)]; [(0, 1); (1, 4)]]%Q in
  ~ bad_params (Some 1%Q) 1%Q /\ validate_hier ref = Ok tt /\ validate_hier est = Ok tt
  /\ tmeasure ref est false (Some 1%Q) 1%Q 1%Q = Ok (0%Q, 0%Q, 0%Q)
  /\ tmeasure ref est true (Some (3 # 2)%Q) 1%Q 1%Q = Ok (0%Q, 0%Q, 0%Q).
Proof.
  cbv zeta. split; [|repeat split; vm_compute; reflexivity].
  intros [H|[w [E H]]]; [lra|]. inversion E; subst. lra.
Qed.
(* a one-frame annotation: scored 0, 0, 0 by both measures *)
Theorem measures_one_frame_ok :
  let ref : hier := [[(0%Q, 1%Q)]] in let lref : lhier := [[(0%Q, 1%Q, [97])]] in
  validate_hier ref = Ok tt /\ tmeasure ref ref true None 1%Q 1%Q = Ok (0%Q, 0%Q, 0%Q)
  /\ validate_hier (lh_intervals lref) = Ok tt /\ lmeasure lref lref 1%Q 1%Q = Ok (0%Q, 0%Q, 0%Q).
Proof. cbv zeta. repeat split; vm_compute; reflexivity. Qed.
Print Assumptions tmeasure_total.
Print Assumptions tmeasure_window_eq_frame_size_ok.
Print Assumptions measures_one_frame_ok.
