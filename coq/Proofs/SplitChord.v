(* C12, the chord-specific parts: merge_chord_intervals fuses the two pieces of a cut interval back together (so the
   segmentation scores are unchanged), and everything chord.evaluate computes after adjust_intervals is unchanged when
   one row of the reference or of the (adjusted) estimate is cut. *)
From Coq Require Import List Bool Arith ZArith QArith Qminmax Qabs Lia Lqa.
From ME Require Import Model.Prelude Model.Intervals Model.ChordParse Model.ChordCmp Model.ChordScore Model.ChordPipeline.
From ME Require Import Proofs.ChordScoreProps Proofs.IntervalsBase Proofs.IntervalsMerge Proofs.IntervalsBoundaries.
From ME Require Import Proofs.SplitBase Proofs.SplitMerge Proofs.SplitAdjust.
Import ListNotations.
Open Scope Q_scope.

(* equality of evaluate outcomes: the same exception, or scores pairwise == *)
Definition sres_eq (a b : res (list xval)) : Prop :=
  match a, b with Ok x, Ok y => Forall2 xeq x y | Raise e, Raise f => e = f | _, _ => False end.
Lemma xeq_refl x : xeq x x.
Proof. destruct x; cbn; auto. reflexivity. Qed.
Lemma Forall2_xeq_refl l : Forall2 xeq l l.
Proof. induction l; constructor; [apply xeq_refl|assumption]. Qed.
Lemma sres_eq_refl a : sres_eq a a.
Proof. destruct a; cbn; [apply Forall2_xeq_refl|reflexivity]. Qed.

(* ---------------------------------------------------------------------------------------- *)
(* merge_chord_intervals                                                                     *)
(* ---------------------------------------------------------------------------------------- *)
Lemma leqb_refl l : leqb l l = true.
Proof. induction l as [|x l IH]; [reflexivity|]. cbn. rewrite Z.eqb_refl, IH. reflexivity. Qed.
Lemma enc_eqb_refl e : enc_eqb e e = true.
Proof. destruct e as [[r b] s]. cbn. rewrite !Z.eqb_refl, leqb_refl. reflexivity. Qed.

Lemma fuse_dup : forall p pe prev cur a m b s e se, length p = length pe ->
  fuse prev cur (combine (p ++ (a, m) :: (m, b) :: s) (pe ++ e :: e :: se)) =
  fuse prev cur (combine (p ++ (a, b) :: s) (pe ++ e :: se)).
Proof.
  induction p as [|v p IH]; intros pe prev cur a m b s e se hl; destruct pe as [|e0 pe]; try discriminate.
  - cbn [app combine fuse]. destruct (enc_eqb e prev) eqn:E.
    + cbn [fst]. reflexivity.
    + rewrite enc_eqb_refl. cbn [fst]. reflexivity.
  - cbn [app combine fuse]. destruct (enc_eqb e0 prev); rewrite IH by (cbn in hl; lia); reflexivity.
Qed.
Lemma fuse_rows_dup p pe a m b s e se : length p = length pe ->
  fuse_rows (combine (p ++ (a, m) :: (m, b) :: s) (pe ++ e :: e :: se)) = fuse_rows (combine (p ++ (a, b) :: s) (pe ++ e :: se)).
Proof.
  intros hl. destruct p as [|v p], pe as [|e0 pe]; try discriminate.
  - cbn [app combine fuse_rows fuse]. rewrite enc_eqb_refl. cbn [fst]. reflexivity.
  - cbn [app combine fuse_rows]. apply fuse_dup. cbn in hl. lia.
Qed.

Lemma mapM_app {A B} (f : A -> res B) : forall a b,
  mapM f (a ++ b) = match mapM f a with
                    | Raise e => Raise e
                    | Ok ra => match mapM f b with Raise e => Raise e | Ok rb => Ok (ra ++ rb) end
                    end.
Proof.
  induction a as [|x a IH]; intros b; cbn [app mapM].
  - destruct (mapM f b); reflexivity.
  - destruct (f x); [|reflexivity]. rewrite IH. destruct (mapM f a); [|reflexivity]. destruct (mapM f b); reflexivity.
Qed.
Lemma mapM_length {A B} (f : A -> res B) l r : mapM f l = Ok r -> length r = length l.
Proof. intros H. symmetry. eapply Forall2_len. apply (mapM_ok f l r H). Qed.

Lemma merge_chord_intervals_dup p a m b s pl l sl : length p = length pl ->
  merge_chord_intervals (p ++ (a, m) :: (m, b) :: s) (pl ++ l :: l :: sl) = merge_chord_intervals (p ++ (a, b) :: s) (pl ++ l :: sl).
Proof.
  intros hl. unfold merge_chord_intervals, encode_many. rewrite !mapM_app.
  destruct (mapM (fun s0 => encode s0 true false) pl) as [pe|e0] eqn:E; [|reflexivity].
  cbn [mapM]. destruct (encode l true false) as [e1|]; [|reflexivity].
  destruct (mapM (fun s0 => encode s0 true false) sl) as [se|]; [|reflexivity].
  cbn [bind]. f_equal. apply fuse_rows_dup. rewrite (mapM_length _ _ _ E). exact hl.
Qed.

(* fusing equal consecutive encodings: the merged chord intervals of the cut annotation are those of the original,
   whatever the labels are (an invalid label raises the same exception on both sides) -- no condition on m is needed *)
Theorem merge_chord_intervals_split i m ivs (labs : list str) : length labs = length ivs -> cuttable i m ivs ->
  merge_chord_intervals (fst (split_at i m ivs labs)) (snd (split_at i m ivs labs)) = merge_chord_intervals ivs labs.
Proof.
  intros hl hc. destruct (split_decomp i m ivs labs hl hc) as (p & a & b & s & pl & l & sl & -> & -> & hp & _ & h1 & h2 & e1 & e2).
  unfold split_at; cbn [fst snd]. rewrite e1, e2. apply merge_chord_intervals_dup. exact hp.
Qed.
(* hence overseg / underseg / seg of the merged chord intervals, as chord.evaluate computes them *)
Corollary seg_scores_split i m ri (rl : list str) j m' ei (el : list str) mr me mr' me' :
  length rl = length ri -> length el = length ei -> cuttable i m ri -> cuttable j m' ei ->
  merge_chord_intervals ri rl = Ok mr -> merge_chord_intervals ei el = Ok me ->
  merge_chord_intervals (fst (split_at i m ri rl)) (snd (split_at i m ri rl)) = Ok mr' ->
  merge_chord_intervals (fst (split_at j m' ei el)) (snd (split_at j m' ei el)) = Ok me' ->
  overseg mr' me' = overseg mr me /\ underseg mr' me' = underseg mr me /\ seg mr' me' = seg mr me.
Proof.
  intros h1 h2 c1 c2 e1 e2 e3 e4. rewrite merge_chord_intervals_split in e3, e4 by assumption.
  assert (mr' = mr) by congruence. assert (me' = me) by congruence. subst. auto.
Qed.

(* ---------------------------------------------------------------------------------------- *)
(* duplication patterns                                                                      *)
(* ---------------------------------------------------------------------------------------- *)
Fixpoint expand {A} (pat : list bool) (l : list A) : list A :=
  match pat, l with
  | false :: ps, x :: r => x :: expand ps r
  | true :: ps, x :: r => x :: x :: expand ps r
  | _, _ => []
  end.
Inductive ivr : list bool -> list iv -> list iv -> Prop :=
| ivr_nil : ivr [] [] []
| ivr_keep ps v v' r r' : pair_eq v v' -> ivr ps r r' -> ivr (false :: ps) (v :: r) (v' :: r')
| ivr_cut ps v v1 v2 r r' : fst v1 == fst v -> snd v1 == fst v2 -> snd v2 == snd v -> fst v < fst v2 -> fst v2 < snd v ->
    ivr ps r r' -> ivr (true :: ps) (v :: r) (v1 :: v2 :: r').

Lemma refines_pat {B} (rows rows' : list (iv * B)) : refines rows rows' ->
  exists pat, length pat = length rows /\ ivr pat (map fst rows) (map fst rows') /\ map snd rows' = expand pat (map snd rows).
Proof.
  induction 1 as [|v v' x r r' hv h [pat [i1 [i2 i3]]]|v v1 v2 x r r' e1 e2 e3 g1 g2 h [pat [i1 [i2 i3]]]].
  - exists []. repeat split. constructor.
  - exists (false :: pat). cbn [map fst snd expand length]. split; [lia|]. split; [constructor; assumption|]. rewrite i3. reflexivity.
  - exists (true :: pat). cbn [map fst snd expand length]. split; [lia|]. split; [apply ivr_cut; assumption|]. rewrite i3. reflexivity.
Qed.
Lemma ivr_refines {B} pat out out' : ivr pat out out' -> forall x : list B, length x = length out ->
  refines (combine out x) (combine out' (expand pat x)) /\ length (expand pat x) = length out'.
Proof.
  induction 1 as [|ps v v' r r' hv h IH|ps v v1 v2 r r' e1 e2 e3 g1 g2 h IH]; intros x hl.
  - destruct x; [|discriminate]. split; [constructor|reflexivity].
  - destruct x as [|y x]; [discriminate|]. destruct (IH x) as [i1 i2]; [cbn in hl; lia|].
    cbn [combine expand length]. split; [constructor; assumption|lia].
  - destruct x as [|y x]; [discriminate|]. destruct (IH x) as [i1 i2]; [cbn in hl; lia|].
    cbn [combine expand length]. split; [apply rf_cut; assumption|lia].
Qed.
Lemma ivr_length pat out out' : ivr pat out out' -> length pat = length out.
Proof. induction 1; cbn; lia. Qed.

Lemma map_expand {A B} (g : A -> B) : forall pat l, map g (expand pat l) = expand pat (map g l).
Proof.
  induction pat as [|[|] ps IH]; intros [|x l]; try reflexivity; cbn [expand map]; rewrite IH; reflexivity.
Qed.
Lemma combine_expand {A B} : forall pat (a : list A) (b : list B), combine (expand pat a) (expand pat b) = expand pat (combine a b).
Proof.
  induction pat as [|[|] ps IH]; intros [|x a] [|y b]; try reflexivity; cbn [expand combine]; rewrite ?IH; try reflexivity.
Qed.
Lemma expand_length_eq {A B} : forall pat (a : list A) (b : list B), length a = length b -> length (expand pat a) = length (expand pat b).
Proof.
  induction pat as [|[|] ps IH]; intros [|x a] [|y b] H; try discriminate; try reflexivity; cbn [expand length];
    rewrite (IH a b) by (cbn in H; lia); reflexivity.
Qed.
Lemma mapM_expand {A B} (f : A -> res B) : forall pat l, length l = length pat ->
  mapM f (expand pat l) = match mapM f l with Raise e => Raise e | Ok r => Ok (expand pat r) end.
Proof.
  induction pat as [|[|] ps IH]; intros [|x l] H; try discriminate; try reflexivity; cbn [expand mapM];
    destruct (f x); try reflexivity; rewrite IH by (cbn in H; lia); destruct (mapM f l); reflexivity.
Qed.

(* ---------------------------------------------------------------------------------------- *)
(* validate_intervals over refined rows                                                      *)
(* ---------------------------------------------------------------------------------------- *)
Lemma qltb_eq a b c e : a == b -> c == e -> qltb a c = qltb b e.
Proof. apply qltb_comp. Qed.
Lemma validate_ivr pat out out' : ivr pat out out' -> validate_intervals out' = validate_intervals out.
Proof.
  intros h.
  assert (e1 : existsb (fun v : iv => qltb (fst v) 0 || qltb (snd v) 0) out' = existsb (fun v : iv => qltb (fst v) 0 || qltb (snd v) 0) out).
  { induction h as [|ps v v' r r' [a1 a2] h IH|ps v v1 v2 r r' a1 a2 a3 g1 g2 h IH]; [reflexivity| |]; cbn [existsb]; rewrite IH.
    - rewrite (qltb_eq (fst v) (fst v') 0 0 a1 ltac:(reflexivity)), (qltb_eq (snd v) (snd v') 0 0 a2 ltac:(reflexivity)). reflexivity.
    - destruct (qltb (fst v1) 0) eqn:E1, (qltb (snd v1) 0) eqn:E2, (qltb (fst v2) 0) eqn:E3, (qltb (snd v2) 0) eqn:E4,
               (qltb (fst v) 0) eqn:E5, (qltb (snd v) 0) eqn:E6; cbn; try reflexivity; qb; lra. }
  assert (e2 : existsb (fun v : iv => Qle_bool (snd v) (fst v)) out' = existsb (fun v : iv => Qle_bool (snd v) (fst v)) out).
  { clear e1. induction h as [|ps v v' r r' [a1 a2] h IH|ps v v1 v2 r r' a1 a2 a3 g1 g2 h IH]; [reflexivity| |]; cbn [existsb]; rewrite IH.
    - f_equal. apply qleb_iff_eq. rewrite a1, a2. tauto.
    - destruct (Qle_bool (snd v1) (fst v1)) eqn:E1, (Qle_bool (snd v2) (fst v2)) eqn:E2, (Qle_bool (snd v) (fst v)) eqn:E3;
        cbn; try reflexivity; qb; lra. }
  unfold validate_intervals. unfold iv in *. rewrite e1, e2. reflexivity.
Qed.

(* ---------------------------------------------------------------------------------------- *)
(* the comparisons over expanded label lists                                                  *)
(* ---------------------------------------------------------------------------------------- *)
Lemma encode_pairs_expand pat (lx ly : list str) : length lx = length pat -> length ly = length pat ->
  encode_pairs (expand pat lx) (expand pat ly) =
  match encode_pairs lx ly with Raise e => Raise e | Ok encs => Ok (expand pat encs) end.
Proof.
  intros h1 h2. unfold encode_pairs, encode_many.
  rewrite (expand_length_eq pat lx ly) by lia. rewrite h1, h2, !Nat.eqb_refl. cbn [negb].
  rewrite !mapM_expand by assumption.
  destruct (mapM validate_label lx); [|reflexivity]. cbn [bind].
  destruct (mapM validate_label ly); [|reflexivity]. cbn [bind].
  destruct (mapM (fun s => encode s false false) lx) as [er|]; [|reflexivity]. cbn [bind].
  destruct (mapM (fun s => encode s false false) ly) as [ee|]; [|reflexivity]. cbn [bind].
  rewrite !map_expand, combine_expand. reflexivity.
Qed.
Lemma encode_pairs_length lx ly encs : encode_pairs lx ly = Ok encs -> length encs = length lx.
Proof.
  unfold encode_pairs, encode_many. destruct (Nat.eqb (length lx) (length ly)) eqn:E; cbn [negb]; [|discriminate].
  apply Nat.eqb_eq in E.
  destruct (mapM validate_label lx); [|discriminate]. cbn [bind].
  destruct (mapM validate_label ly); [|discriminate]. cbn [bind].
  destruct (mapM (fun s => encode s false false) lx) as [er|] eqn:E1; [|discriminate]. cbn [bind].
  destruct (mapM (fun s => encode s false false) ly) as [ee|] eqn:E2; [|discriminate]. cbn [bind].
  intros H. injection H as <-. rewrite combine_length, !map_length, (mapM_length _ _ _ E1), (mapM_length _ _ _ E2). lia.
Qed.

Lemma mapM_req {A} (f f' : A -> res xval) : forall l, (forall c, In c l -> req (f' c) (f c)) -> sres_eq (mapM f' l) (mapM f l).
Proof.
  induction l as [|c l IH]; intros H; [cbn; constructor|].
  cbn [mapM]. pose proof (H c (or_introl eq_refl)) as hc. specialize (IH (fun c0 h => H c0 (or_intror h))).
  destruct (f' c) as [x|e], (f c) as [y|e']; cbn in hc; try contradiction.
  - destruct (mapM f' l) as [r|e], (mapM f l) as [r'|e']; cbn in IH |- *; try contradiction; [constructor; assumption|exact IH].
  - exact hc.
Qed.

(* ---------------------------------------------------------------------------------------- *)
(* everything chord.evaluate does after the three merges, as a function of the merge result    *)
(* ---------------------------------------------------------------------------------------- *)
Definition scores_after (mr me : list iv) (m : res (list iv * list str * list str)) : res (list xval) :=
  m0 <- m ;;
  let '(ivs, rl2, el2) := m0 in
  durations <- intervals_to_durations ivs ;;
  encs <- encode_pairs rl2 el2 ;;
  accs <- mapM (fun c => wa (map (fun x => c (fst x) (snd x)) encs) durations) rules ;;
  d_u <- dhd_arrays me mr ;;
  d_o <- dhd_arrays mr me ;;
  let u := xone_minus d_u in let o := xone_minus d_o in
  Ok (accs ++ [u; o; py_min o u]).
Lemma chord_scores_unfold ri rl ei el :
  chord_scores ri rl ei el =
  (mr <- merge_chord_intervals ri rl ;; me <- merge_chord_intervals ei el ;; scores_after mr me (merge_labeled_intervals ri rl ei el)).
Proof. reflexivity. Qed.

Lemma wa_expand (c : cenc -> cenc -> Z) pat out out' (encs : list (cenc * cenc)) : ivr pat out out' -> length encs = length out ->
  req (wa (map (fun x => c (fst x) (snd x)) (expand pat encs)) (map dur out'))
      (wa (map (fun x => c (fst x) (snd x)) encs) (map dur out)).
Proof.
  intros h hl. destruct (ivr_refines pat out out' h encs hl) as [hr hl'].
  pose proof (wa_q_refines (fun p : cenc * cenc => inject_Z (c (fst p) (snd p))) _ _ hr) as H.
  unfold cs, ws in H.
  rewrite <- !(map_map snd (fun p : cenc * cenc => inject_Z (c (fst p) (snd p)))) in H.
  rewrite <- !(map_map fst dur) in H.
  rewrite !map_snd_combine, !map_fst_combine in H by assumption.
  unfold wa. rewrite !map_map.
  destruct (wa_q (map _ encs) (map dur out)) as [[]|], (wa_q (map _ (expand pat encs)) (map dur out')) as [[]|];
    cbn in *; try tauto; try (symmetry; exact H); try congruence.
Qed.

Lemma Forall2_xeq_app a a' b : Forall2 xeq a a' -> Forall2 xeq (a ++ b) (a' ++ b).
Proof. intros h. apply Forall2_app; [exact h|apply Forall2_xeq_refl]. Qed.

Lemma scores_after_refined mr me r r' : merge_refined r r' -> sres_eq (scores_after mr me r') (scores_after mr me r).
Proof.
  intros hm. unfold merge_refined in hm. destruct r as [[[out lx] ly]|e].
  2: { rewrite hm. cbn. reflexivity. }
  destruct hm as (out' & lx' & ly' & -> & h1 & h2 & h3 & h4 & hr).
  destruct (refines_pat _ _ hr) as [pat [hp [hi hs]]].
  rewrite !map_fst_combine in hi by (rewrite combine_length; lia).
  rewrite !map_snd_combine in hs by (rewrite combine_length; lia).
  assert (hpl : length pat = length out) by (rewrite hp, combine_length, combine_length; lia).
  assert (elx : lx' = expand pat lx).
  { rewrite <- (map_fst_combine lx' ly') by lia. rewrite hs, map_expand, map_fst_combine by lia. reflexivity. }
  assert (ely : ly' = expand pat ly).
  { rewrite <- (map_snd_combine lx' ly') by lia. rewrite hs, map_expand, map_snd_combine by lia. reflexivity. }
  unfold scores_after. cbn [bind]. unfold intervals_to_durations.
  rewrite (validate_ivr pat out out' hi). destruct (validate_intervals out); [|cbn; reflexivity]. cbn [bind].
  rewrite elx, ely, encode_pairs_expand by lia.
  destruct (encode_pairs lx ly) as [encs|] eqn:Ee; [|cbn; reflexivity]. cbn [bind].
  pose proof (encode_pairs_length lx ly encs Ee) as hle.
  pose proof (mapM_req (fun c => wa (map (fun x : cenc * cenc => c (fst x) (snd x)) encs) (map (fun v : iv => Qabs (snd v - fst v)) out))
                       (fun c => wa (map (fun x : cenc * cenc => c (fst x) (snd x)) (expand pat encs)) (map (fun v : iv => Qabs (snd v - fst v)) out'))
                       rules) as hacc.
  match type of hacc with ?P -> _ => assert (hP : P) end.
  { intros c _. apply (wa_expand c pat out out' encs hi). lia. }
  specialize (hacc hP).
  destruct (mapM _ rules) as [accs'|ea'], (mapM _ rules) as [accs|ea]; cbn in hacc; try contradiction; cbn [bind].
  - destruct (dhd_arrays me mr); [|cbn; reflexivity]. cbn [bind].
    destruct (dhd_arrays mr me); [|cbn; reflexivity]. cbn [bind sres_eq]. apply Forall2_xeq_app. exact hacc.
  - cbn. exact hacc.
Qed.

(* ---------------------------------------------------------------------------------------- *)
(* chord_scores is blind to a cut of the reference or of the (adjusted) estimate               *)
(* ---------------------------------------------------------------------------------------- *)
Lemma srel_inv (x x' : list iv * list str) : srel x x' -> length (snd x) = length (fst x) ->
  x' = x \/ exists p a m b s pl l sl, x = (p ++ (a, b) :: s, pl ++ l :: sl) /\ x' = (p ++ (a, m) :: (m, b) :: s, pl ++ l :: l :: sl) /\
                length p = length pl /\ length s = length sl /\ a <= m /\ m <= b.
Proof.
  intros [y|p a m b s pl l sl hp hs ham hmb] _; [left; reflexivity|right].
  exists p, a, m, b, s, pl, l, sl. repeat split; try assumption; apply le'_le; assumption.
Qed.

Theorem chord_scores_srel_est ri rl (x x' : list iv * list str) : srel x x' -> length (snd x) = length (fst x) ->
  sres_eq (chord_scores ri rl (fst x') (snd x')) (chord_scores ri rl (fst x) (snd x)).
Proof.
  intros hs hl. destruct (srel_inv x x' hs hl) as [->|(p & a & m & b & s & pl & l & sl & -> & -> & hp & hs' & ham & hmb)];
    [apply sres_eq_refl|]. cbn [fst snd].
  rewrite !chord_scores_unfold. rewrite merge_chord_intervals_dup by exact hp.
  destruct (merge_chord_intervals ri rl) as [mr|]; [|cbn; reflexivity]. cbn [bind].
  destruct (merge_chord_intervals _ _) as [me|]; [|cbn; reflexivity]. cbn [bind].
  apply scores_after_refined. apply merge_dup_y; assumption.
Qed.
Theorem chord_scores_srel_ref ei el (x x' : list iv * list str) : srel x x' -> length (snd x) = length (fst x) ->
  sres_eq (chord_scores (fst x') (snd x') ei el) (chord_scores (fst x) (snd x) ei el).
Proof.
  intros hs hl. destruct (srel_inv x x' hs hl) as [->|(p & a & m & b & s & pl & l & sl & -> & -> & hp & hs' & ham & hmb)];
    [apply sres_eq_refl|]. cbn [fst snd].
  rewrite !chord_scores_unfold. rewrite merge_chord_intervals_dup by exact hp.
  destruct (merge_chord_intervals _ _) as [mr|]; [|cbn; reflexivity]. cbn [bind].
  destruct (merge_chord_intervals ei el) as [me|]; [|cbn; reflexivity]. cbn [bind].
  apply scores_after_refined. apply merge_dup_x; assumption.
Qed.

Print Assumptions merge_chord_intervals_split.
Print Assumptions seg_scores_split.
Print Assumptions chord_scores_srel_est.
Print Assumptions chord_scores_srel_ref.
