(* Properties of Model.Beat: trim_beats, the metrical variations, goto, continuity, the cemgil skeleton (for an
   arbitrary function g standing for the Gaussian) and p_score.

   Time shifts are handled through the relation  shl s l' l  ("l' is l moved by s, up to Qeq"), which for s = 0 is
   pointwise Qeq; `shift s l = map (fun t => t + s) l`. *)
From Coq Require Import List Bool Arith ZArith QArith Qabs Qminmax Qround Lia ZifyBool Lqa Sorted Morphisms Setoid.
From ME Require Import Model.Prelude Model.Beat.
Import ListNotations.
Open Scope Q_scope.

(* ------------------------------------------------------------------------------------------ *)
(* generalities                                                                                *)
(* ------------------------------------------------------------------------------------------ *)
Definition shift (s : Q) (l : list Q) : list Q := map (fun t => t + s) l.
Notation shl s := (Forall2 (fun a b : Q => a == b + s)).
Notation leq := (Forall2 Qeq).

Lemma F2_length {A B} (R : A -> B -> Prop) l' l : Forall2 R l' l -> length l' = length l.
Proof. induction 1; simpl; auto. Qed.
Lemma shl_shift s l : shl s (shift s l) l.
Proof. induction l; constructor; auto. reflexivity. Qed.
Lemma shl_length s l' l : shl s l' l -> length l' = length l.
Proof. apply F2_length. Qed.
Lemma leq_refl l : leq l l.
Proof. induction l; constructor; auto. reflexivity. Qed.
Lemma leq_length l' l : leq l' l -> length l' = length l.
Proof. apply F2_length. Qed.

Lemma qleb_true a b : qleb a b = true <-> a <= b.
Proof. apply Qle_bool_iff. Qed.
Lemma qltb_true a b : qltb a b = true <-> a < b.
Proof. unfold qltb. rewrite negb_true_iff. split.
  - intros H. apply Qnot_le_lt. intros H1. apply Qle_bool_iff in H1. congruence.
  - intros H. destruct (Qle_bool b a) eqn:E; auto. apply Qle_bool_iff in E. lra. Qed.
Lemma qltb_false a b : qltb a b = false <-> b <= a.
Proof. unfold qltb. rewrite negb_false_iff. apply Qle_bool_iff. Qed.
Lemma qeqb_true a b : qeqb a b = true <-> a == b.
Proof. apply Qeq_bool_iff. Qed.
Lemma qeqb_false a b : qeqb a b = false <-> ~ a == b.
Proof. split.
  - intros H E. apply qeqb_true in E. congruence.
  - intros H. destruct (qeqb a b) eqn:E; auto. apply qeqb_true in E. contradiction. Qed.

Lemma qleb_ext a b c d : (a <= b <-> c <= d) -> qleb a b = qleb c d.
Proof. intros H. apply eq_true_iff_eq. now rewrite !qleb_true. Qed.
Lemma qltb_ext a b c d : (a < b <-> c < d) -> qltb a b = qltb c d.
Proof. intros H. apply eq_true_iff_eq. now rewrite !qltb_true. Qed.
Lemma qeqb_ext a b c d : (a == b <-> c == d) -> qeqb a b = qeqb c d.
Proof. intros H. apply eq_true_iff_eq. now rewrite !qeqb_true. Qed.

Lemma qsum_leq l' l : leq l' l -> qsum l' == qsum l.
Proof. induction 1; simpl; [reflexivity|]. rewrite H, IHForall2. reflexivity. Qed.
Lemma leq_map (f : Q -> Q) l' l : (forall a b, a == b -> f a == f b) -> leq l' l -> leq (map f l') (map f l).
Proof. intros Hf. induction 1; simpl; constructor; auto. Qed.
Lemma leq_app a' a b' b : leq a' a -> leq b' b -> leq (a' ++ b') (a ++ b).
Proof. apply Forall2_app. Qed.
Lemma leq_firstn n l' l : leq l' l -> leq (firstn n l') (firstn n l).
Proof. intros H. revert n. induction H; intros [|n]; simpl; constructor; auto. Qed.
Lemma leq_skipn n l' l : leq l' l -> leq (skipn n l') (skipn n l).
Proof. intros H. revert n. induction H; intros [|n]; simpl; auto; constructor; auto. Qed.
Lemma leq_py_slice a b l' l : leq l' l -> leq (py_slice a b l') (py_slice a b l).
Proof. intros H. unfold py_slice. rewrite (leq_length _ _ H). apply leq_firstn, leq_skipn, H. Qed.

Lemma qnat_nonneg n : 0 <= qnat n.
Proof. unfold qnat. change 0 with (inject_Z 0). rewrite <- Zle_Qle. lia. Qed.
Lemma qnat_le a b : (a <= b)%nat -> qnat a <= qnat b.
Proof. intros H. unfold qnat. rewrite <- Zle_Qle. lia. Qed.
Lemma qnat_pos n : (0 < n)%nat -> 0 < qnat n.
Proof. intros H. unfold qnat. change 0 with (inject_Z 0). rewrite <- Zlt_Qlt. lia. Qed.
Lemma qnat_S n : qnat (S n) == qnat n + 1.
Proof. unfold qnat. rewrite Nat2Z.inj_succ, <- Z.add_1_r, inject_Z_plus. reflexivity. Qed.
Lemma qnat_plus a b : qnat (a + b) == qnat a + qnat b.
Proof. unfold qnat. rewrite Nat2Z.inj_add, inject_Z_plus. reflexivity. Qed.

Lemma fold_Qmax_ge l a : a <= fold_left Qmax l a.
Proof. revert a. induction l as [|x l IH]; intros a; simpl; [lra|].
  eapply Qle_trans; [|apply IH]. apply Q.le_max_l. Qed.
Lemma fold_Qmax_le l a u : a <= u -> Forall (fun x => x <= u) l -> fold_left Qmax l a <= u.
Proof. revert a. induction l as [|x l IH]; intros a Ha Hl; simpl; auto.
  inversion Hl; subst. apply IH; auto. apply Q.max_lub; auto. Qed.
Lemma fold_Qmax_mono l1 l2 a b : a <= b -> Forall2 Qle l1 l2 -> fold_left Qmax l1 a <= fold_left Qmax l2 b.
Proof. intros Hab H. revert a b Hab. induction H; intros a b Hab; simpl; auto.
  apply IHForall2. apply Q.max_le_compat; auto. Qed.
Lemma fold_Qmax_leq l1 l2 a b : a == b -> leq l1 l2 -> fold_left Qmax l1 a == fold_left Qmax l2 b.
Proof. intros Hab H. revert a b Hab. induction H; intros a b Hab; simpl; auto.
  apply IHForall2. rewrite Hab, H. reflexivity. Qed.
Lemma fold_Qmin_leq l1 l2 a b : a == b -> leq l1 l2 -> fold_left Qmin l1 a == fold_left Qmin l2 b.
Proof. intros Hab H. revert a b Hab. induction H; intros a b Hab; simpl; auto.
  apply IHForall2. rewrite Hab, H. reflexivity. Qed.

(* ------------------------------------------------------------------------------------------ *)
(* trim_beats                                                                                  *)
(* ------------------------------------------------------------------------------------------ *)
Theorem trim_beats_spec beats m :
  (forall x, In x (trim_beats beats m) <-> In x beats /\ m <= x)
  /\ (forall a b, beats = a ++ b -> trim_beats beats m = trim_beats a m ++ trim_beats b m)
  /\ (Forall (fun x => m <= x) beats -> trim_beats beats m = beats)
  /\ trim_beats (trim_beats beats m) m = trim_beats beats m.
Proof. unfold trim_beats. split; [|split; [|split]].
  - intros x. rewrite filter_In, qleb_true. tauto.
  - intros a b ->. apply filter_app.
  - intros H. induction H as [|x l Hx H IH]; simpl; auto. apply qleb_true in Hx. rewrite Hx. now f_equal.
  - induction beats as [|x l IH]; simpl; auto. destruct (qleb m x) eqn:E; simpl; auto. rewrite E. now f_equal. Qed.

Lemma trim_beats_shift s beats m : trim_beats (shift s beats) (m + s) = shift s (trim_beats beats m).
Proof. unfold trim_beats, shift. induction beats as [|x l IH]; simpl; auto.
  assert (E : qleb (m + s) (x + s) = qleb m x) by (apply qleb_ext; lra).
  rewrite E. destruct (qleb m x); simpl; now rewrite IH. Qed.

(* ------------------------------------------------------------------------------------------ *)
(* variations                                                                                  *)
(* ------------------------------------------------------------------------------------------ *)
Lemma shl_double s l' l : shl s l' l -> shl s (double_beats l') (double_beats l).
Proof. induction 1 as [|a b l' l Hab H IH]; simpl; [constructor|].
  inversion H as [|a2 b2 l2' l2 Hab2 H2]; subst.
  - constructor; auto.
  - constructor; auto. constructor; auto. unfold interp_half. rewrite Hab, Hab2. ring. Qed.
Lemma F2_evens {A B} (R : A -> B -> Prop) l' l : Forall2 R l' l -> Forall2 R (evens l') (evens l).
Proof. revert l'. induction l as [l IH] using (well_founded_induction (Wf_nat.well_founded_ltof _ (@length B))).
  intros l' H. destruct H as [|a b l' l Hab H]; simpl; [constructor|].
  constructor; auto. destruct H as [|a2 b2 l2' l2 Hab2 H2]; [constructor|].
  apply IH; auto. unfold Wf_nat.ltof. simpl. lia. Qed.
Lemma F2_odds {A B} (R : A -> B -> Prop) l' l : Forall2 R l' l -> Forall2 R (odds l') (odds l).
Proof. intros H. unfold odds. apply F2_evens. destruct H; simpl; auto. Qed.

Lemma shl_variations s ref' ref : shl s ref' ref -> Forall2 (shl s) (variations ref') (variations ref).
Proof. intros H. unfold variations. pose proof (shl_double _ _ _ H) as Hd.
  repeat constructor; auto; try (apply F2_odds; auto); try (apply F2_evens; auto). Qed.

(* np.interp commutes with a shift: every metrical variation of the shifted beats is the shifted variation *)
Theorem variations_shift s ref : Forall2 leq (variations (shift s ref)) (map (shift s) (variations ref)).
Proof. pose proof (shl_variations s _ _ (shl_shift s ref)) as H.
  remember (variations (shift s ref)) as v'. remember (variations ref) as v. clear -H.
  induction H; simpl; constructor; auto.
  clear -H. induction H; simpl; constructor; auto. Qed.

Lemma variations_length ref : length (variations ref) = 5%nat.
Proof. reflexivity. Qed.

(* ------------------------------------------------------------------------------------------ *)
(* Qeq-compatibility of the boolean comparisons; validation                                    *)
(* ------------------------------------------------------------------------------------------ *)
Global Instance qltb_proper : Proper (Qeq ==> Qeq ==> eq) qltb.
Proof. intros a b H c d H1. apply qltb_ext. rewrite H, H1. tauto. Qed.
Global Instance qleb_proper : Proper (Qeq ==> Qeq ==> eq) qleb.
Proof. intros a b H c d H1. apply qleb_ext. rewrite H, H1. tauto. Qed.
Global Instance qeqb_proper : Proper (Qeq ==> Qeq ==> eq) qeqb.
Proof. intros a b H c d H1. apply qeqb_ext. rewrite H, H1. tauto. Qed.

Lemma leq_map2 (f g : Q -> Q) l' l : (forall a b, a == b -> f a == g b) -> leq l' l -> leq (map f l') (map g l).
Proof. intros Hf. induction 1; simpl; constructor; auto. Qed.
Lemma F2_filter {A B} (R : A -> B -> Prop) (p' : A -> bool) (p : B -> bool) l' l :
  (forall a b, R a b -> p' a = p b) -> Forall2 R l' l -> Forall2 R (filter p' l') (filter p l).
Proof. intros Hp. induction 1 as [|a b l' l Hab H IH]; simpl; [constructor|].
  rewrite (Hp _ _ Hab). destruct (p b); auto. Qed.
Lemma F2_map_eq {A B C} (R : A -> B -> Prop) (f' : A -> C) (f : B -> C) l' l :
  (forall a b, R a b -> f' a = f b) -> Forall2 R l' l -> map f' l' = map f l.
Proof. intros Hf. induction 1; simpl; auto. f_equal; auto. Qed.
Lemma is_nil_F2 {A B} (R : A -> B -> Prop) l' l : Forall2 R l' l -> is_nil l' = is_nil l.
Proof. destruct 1; reflexivity. Qed.
Lemma qsum_zero l : Forall (fun x => x == 0) l -> qsum l == 0.
Proof. induction 1 as [|x l Hx H IH]; simpl; [reflexivity|]. rewrite Hx, IH. ring. Qed.

Lemma validate_ok ref est : validate ref est = Ok tt <-> validate_events ref = Ok tt /\ validate_events est = Ok tt.
Proof. unfold validate. destruct (validate_events ref) as [[]|]; simpl; split; try tauto; try discriminate. Qed.
Lemma nondecreasing_sorted l : Sorted Qle l -> nondecreasing l = true.
Proof. unfold nondecreasing. induction 1 as [|a l H IH Hd]; simpl; auto.
  destruct l as [|b l]; simpl; auto. inversion Hd; subst. simpl in IH. rewrite IH, andb_true_r.
  apply negb_true_iff. now apply qltb_false. Qed.
Lemma Sorted_lt_le l : Sorted Qlt l -> Sorted Qle l.
Proof. induction 1 as [|a l H IH Hd]; constructor; auto. destruct Hd; constructor. now apply Qlt_le_weak. Qed.
Lemma validate_events_ok l : Forall (fun t => t <= MAX_TIME) l -> Sorted Qle l -> validate_events l = Ok tt.
Proof. intros Hm Hs. unfold validate_events.
  assert (E : existsb (fun x => qltb MAX_TIME x) l = false).
  { induction Hm as [|x l Hx H IH]; simpl; auto. inversion Hs; subst. rewrite IH; auto.
    rewrite orb_false_r. now apply qltb_false. }
  rewrite E, nondecreasing_sorted; auto. Qed.

(* ------------------------------------------------------------------------------------------ *)
(* goto                                                                                        *)
(* ------------------------------------------------------------------------------------------ *)
(* C01: Goto's score is exactly 0 or 1 *)
Theorem goto_binary ref est thr mu sigma v : goto ref est thr mu sigma = Ok v -> v = 0 \/ v = 1.
Proof. unfold goto. destruct (validate ref est); simpl; [|discriminate].
  destruct (is_nil est || is_nil ref); [inversion 1; auto|].
  destruct (goto_track _ _ _) as [[tr|]|]; simpl; try discriminate.
  - destruct (goto_stats_ok tr mu sigma); inversion 1; auto.
  - inversion 1; auto. Qed.

Lemma goto_beat_error_shl s p' p c' c n' n est' est :
  p' == p + s -> c' == c + s -> n' == n + s -> shl s est' est ->
  goto_beat_error p' c' n' est' == goto_beat_error p c n est.
Proof. intros Hp Hc Hn He. unfold goto_beat_error.
  set (f' := filter _ est'). set (f := filter _ est).
  assert (Hf : shl s f' f).
  { apply F2_filter; auto. intros a b Hab. cbv beta.
    rewrite Hp, Hc, Hn, Hab. f_equal; [apply qleb_ext|apply qltb_ext]; lra. }
  destruct Hf as [|a b f2' f2 Hab Hf]; [reflexivity|]. destruct Hf; [|reflexivity].
  assert (E : a - c' == b - c) by lra. rewrite E.
  destruct (qltb (b - c) 0); rewrite E.
  - assert (E1 : (1#2) * (c' - p') == (1#2) * (c - p)) by lra. rewrite E1. reflexivity.
  - assert (E1 : (1#2) * (n' - c') == (1#2) * (n - c)) by lra. rewrite E1. reflexivity. Qed.

Lemma goto_interior_shl s l' l est' est : shl s l' l -> shl s est' est ->
  leq (goto_interior l' est') (goto_interior l est).
Proof. intros H He. induction H as [|a b l' l Hab H IH]; simpl; [constructor|].
  destruct H as [|a2 b2 l2' l2 Hab2 H2]; [constructor|]. destruct H2 as [|a3 b3 l3' l3 Hab3 H3]; [constructor|].
  constructor; auto. now apply (goto_beat_error_shl s). Qed.

Lemma goto_beat_errors_shl s l' l est' est : shl s l' l -> shl s est' est ->
  leq (goto_beat_errors l' est') (goto_beat_errors l est).
Proof. intros H He. pose proof (goto_interior_shl _ _ _ _ _ H He) as Hi. unfold goto_beat_errors.
  destruct H as [|a b l' l Hab H]; [constructor|]. destruct H as [|a2 b2 l2' l2 Hab2 H2].
  - constructor; [reflexivity|constructor].
  - constructor; [reflexivity|]. apply Forall2_app; auto. constructor; [reflexivity|constructor]. Qed.

Inductive track_rel : res (option (list Q)) -> res (option (list Q)) -> Prop :=
| TR_some t' t : leq t' t -> track_rel (Ok (Some t')) (Ok (Some t))
| TR_none : track_rel (Ok None) (Ok None)
| TR_raise e : track_rel (Raise e) (Raise e).
Lemma goto_track_leq n be' be inc : leq be' be -> track_rel (goto_track n be' inc) (goto_track n be inc).
Proof. intros H. unfold goto_track. destruct (length inc <? 3)%nat.
  - destruct inc; constructor. now apply leq_py_slice.
  - destruct (find_idx _ _); [|constructor]. destruct (qltb _ _); constructor. now apply leq_py_slice. Qed.

Lemma goto_stats_ok_leq t' t mu sigma : leq t' t -> goto_stats_ok t' mu sigma = goto_stats_ok t mu sigma.
Proof. intros H. pose proof (leq_length _ _ H) as Hl. unfold goto_stats_ok.
  destruct H as [|a b t' t Hab H]; auto. destruct H as [|a2 b2 t2' t2 Hab2 H2]; auto.
  assert (H : leq (a :: a2 :: t2') (b :: b2 :: t2)) by (repeat constructor; auto).
  remember (a :: a2 :: t2') as u'. remember (b :: b2 :: t2) as u. rewrite Hl.
  assert (Es : qsum u' == qsum u) by now apply qsum_leq.
  assert (Ea : qsum (map Qabs u') == qsum (map Qabs u)).
  { apply qsum_leq, leq_map; auto. intros x y Hxy. now rewrite Hxy. }
  assert (Ev : qsum (map (fun x => (x - qsum u' / qnat (length u)) * (x - qsum u' / qnat (length u))) u')
            == qsum (map (fun x => (x - qsum u / qnat (length u)) * (x - qsum u / qnat (length u))) u)).
  { apply qsum_leq, leq_map2; auto. intros x y Hxy. rewrite Hxy, Es. reflexivity. }
  rewrite Ea, Ev. reflexivity. Qed.

(* C08: adding the same offset to all reference and estimated beats (both inputs staying valid) *)
Theorem goto_shift s ref est thr mu sigma :
  validate ref est = Ok tt -> validate (shift s ref) (shift s est) = Ok tt ->
  goto (shift s ref) (shift s est) thr mu sigma = goto ref est thr mu sigma.
Proof. intros V V'. unfold goto. rewrite V, V'. simpl.
  pose proof (shl_shift s ref) as Hr. pose proof (shl_shift s est) as He.
  rewrite (is_nil_F2 _ _ _ Hr), (is_nil_F2 _ _ _ He). destruct (is_nil est || is_nil ref); auto.
  pose proof (goto_beat_errors_shl _ _ _ _ _ Hr He) as Hb.
  assert (Ef : map (fun e => qltb thr (Qabs e)) (goto_beat_errors (shift s ref) (shift s est))
             = map (fun e => qltb thr (Qabs e)) (goto_beat_errors ref est)).
  { eapply F2_map_eq; [|exact Hb]. intros a b Hab. cbv beta. now rewrite Hab. }
  rewrite Ef. unfold shift at 1. rewrite map_length.
  destruct (goto_track_leq (length ref) _ _ (flatnonzero (map (fun e => qltb thr (Qabs e)) (goto_beat_errors ref est))) Hb)
    as [t' t Ht| |e]; simpl; auto.
  now rewrite (goto_stats_ok_leq _ _ mu sigma Ht). Qed.

(* --- a perfect estimate --- *)
Lemma SS_app_inv {A} (R : A -> A -> Prop) l1 l2 : StronglySorted R (l1 ++ l2) ->
  StronglySorted R l1 /\ StronglySorted R l2 /\ (forall x y, In x l1 -> In y l2 -> R x y).
Proof. induction l1 as [|a l1 IH]; simpl; intros H.
  - repeat split; auto. constructor. intros x y [].
  - inversion H as [|a' l' Hs Hf]; subst. destruct (IH Hs) as (H1 & H2 & H3).
    rewrite Forall_app in Hf. destruct Hf as [Hf1 Hf2]. repeat split; auto.
    + constructor; auto.
    + intros x y [<-|Hx] Hy; auto. rewrite Forall_forall in Hf2. auto. Qed.
Lemma Sorted_Qlt_SS l : Sorted Qlt l -> StronglySorted Qlt l.
Proof. apply Sorted_StronglySorted. intros x y z. apply Qlt_trans. Qed.
Lemma filter_none {A} (p : A -> bool) l : (forall x, In x l -> p x = false) -> filter p l = [].
Proof. induction l as [|a l IH]; simpl; intros H; auto. rewrite (H a); auto. Qed.

Lemma goto_beat_error_self p a b c q :
  StronglySorted Qlt (p ++ a :: b :: c :: q) -> goto_beat_error a b c (p ++ a :: b :: c :: q) == 0.
Proof. intros H. apply SS_app_inv in H. destruct H as (_ & H2 & H3).
  inversion H2 as [|? ? Ha Hfa]; subst. inversion Ha as [|? ? Hb Hfb]; subst. inversion Hb as [|? ? Hc Hfc]; subst.
  assert (Hab : a < b) by (inversion Hfa; auto). assert (Hbc : b < c) by (inversion Hfb; auto).
  unfold goto_beat_error. rewrite filter_app. rewrite filter_none.
  2:{ intros x Hx. assert (x < a) by (apply H3; simpl; auto). apply andb_false_intro1. apply not_true_is_false.
      rewrite qleb_true. lra. }
  simpl.
  assert (E1 : qleb (b - (1#2) * (b - a)) a = false) by (apply not_true_is_false; rewrite qleb_true; lra).
  assert (E2 : qleb (b - (1#2) * (b - a)) b && qltb b (b + (1#2) * (c - b)) = true).
  { apply andb_true_intro. rewrite qleb_true, qltb_true. lra. }
  assert (E3 : qltb c (b + (1#2) * (c - b)) = false) by (apply qltb_false; lra).
  rewrite E1, E2, E3, andb_false_r. simpl. rewrite filter_none.
  2:{ intros x Hx. assert (c < x) by (rewrite Forall_forall in Hfc; auto). apply andb_false_intro2. apply qltb_false. lra. }
  assert (E : b - b == 0) by ring. rewrite E. destruct (qltb 0 0); unfold Qdiv; ring. Qed.

Lemma goto_interior_self l p : StronglySorted Qlt (p ++ l) -> Forall (fun e => e == 0) (goto_interior l (p ++ l)).
Proof. revert p. induction l as [|a t IH]; intros p H; simpl; [constructor|].
  destruct t as [|b [|c t']]; try constructor.
  - now apply goto_beat_error_self.
  - specialize (IH (p ++ [a])). rewrite <- app_assoc in IH. simpl in IH. apply IH. exact H. Qed.
Lemma goto_interior_length l est : length (goto_interior l est) = (length l - 2)%nat.
Proof. induction l as [|a t IH]; simpl; auto. destruct t as [|b [|c t']]; simpl; auto. simpl in IH. rewrite IH. lia. Qed.

Lemma flags_zero thr zs : 0 <= thr -> Forall (fun e => e == 0) zs ->
  map (fun e => qltb thr (Qabs e)) zs = repeat false (length zs).
Proof. intros Ht. induction 1 as [|x l Hx H IH]; simpl; auto. rewrite IH. f_equal.
  rewrite Hx. apply qltb_false. exact Ht. Qed.
Lemma flatnonzero_from_false i k l : flatnonzero_from i (repeat false k ++ l) = flatnonzero_from (i + k) l.
Proof. revert i. induction k as [|k IH]; intros i; simpl; [now rewrite Nat.add_0_r|]. rewrite IH. f_equal. lia. Qed.

Lemma goto_stats_zero t mu sigma : Forall (fun e => e == 0) t -> (2 <= length t)%nat -> 0 < mu -> 0 < sigma ->
  goto_stats_ok t mu sigma = true.
Proof. intros H Hl Hm Hs. unfold goto_stats_ok. destruct t as [|a [|b t]]; simpl in Hl; try lia.
  remember (a :: b :: t) as u.
  assert (E1 : qsum u == 0) by now apply qsum_zero.
  assert (E2 : qsum (map Qabs u) == 0).
  { apply qsum_zero. clear -H. induction H as [|x l Hx H IH]; simpl; constructor; auto. now rewrite Hx. }
  assert (E3 : qsum (map (fun x => (x - qsum u / qnat (length u)) * (x - qsum u / qnat (length u))) u) == 0).
  { apply qsum_zero. set (m := qsum u / qnat (length u)).
    assert (Em : m == 0) by (unfold m; rewrite E1; unfold Qdiv; ring). clearbody m.
    clear -H Em. induction H as [|x l Hx H IH]; simpl; constructor; auto. rewrite Hx, Em. ring. }
  rewrite E2, E3. apply andb_true_intro. split; [apply andb_true_intro; split|]; apply qltb_true.
  - unfold Qdiv. lra. - exact Hs. - unfold Qdiv. nra. Qed.

Lemma firstn_In_sub {A} n (l : list A) x : In x (firstn n l) -> In x l.
Proof. revert l. induction n as [|n IH]; intros l H; simpl in H; [contradiction|].
  destruct l as [|a l]; simpl in *; [contradiction|]. destruct H; auto. Qed.
Lemma goto_track_two n be i0 i1 :
  goto_track n be [i0; i1] = Ok (Some (py_slice (Z.of_nat i0 + 1) (Z.of_nat i1 - 1) be)).
Proof. reflexivity. Qed.
Lemma py_slice_interior (x y : Q) zs : (1 <= length zs)%nat ->
  py_slice (Z.of_nat 0 + 1) (Z.of_nat (S (length zs)) - 1) (x :: zs ++ [y]) = firstn (length zs - 1) zs.
Proof. intros Hk. unfold py_slice. set (k := length zs) in *.
  assert (En : Z.of_nat (length (x :: zs ++ [y])) = (Z.of_nat k + 2)%Z).
  { cbn [length]. rewrite app_length. cbn [length]. fold k. lia. }
  rewrite En.
  assert (E1 : py_norm (Z.of_nat k + 2) (Z.of_nat 0 + 1) = 1%Z).
  { unfold py_norm. change (Z.of_nat 0 + 1)%Z with 1%Z. change (1 <? 0)%Z with false. cbv iota. lia. }
  assert (E2 : py_norm (Z.of_nat k + 2) (Z.of_nat (S k) - 1) = Z.of_nat k).
  { unfold py_norm. destruct (Z.of_nat (S k) - 1 <? 0)%Z eqn:E; lia. }
  rewrite E1, E2. change (Z.to_nat 1) with 1%nat. cbn [skipn].
  replace (Z.to_nat (Z.of_nat k - 1)) with (k - 1)%nat by lia.
  rewrite firstn_app. replace (k - 1 - length zs)%nat with 0%nat by (fold k; lia). cbn [firstn]. now rewrite app_nil_r. Qed.

(* C02: a perfect estimate of at least five strictly increasing beats has Goto score 1 *)
Theorem goto_self ref thr mu sigma :
  Sorted Qlt ref -> (5 <= length ref)%nat -> Forall (fun t => t <= MAX_TIME) ref ->
  0 <= thr -> thr < 1 -> 0 < mu -> 0 < sigma ->
  goto ref ref thr mu sigma = Ok 1.
Proof. intros Hs Hl Hm Ht0 Ht1 Hmu Hsg. unfold goto.
  assert (V : validate ref ref = Ok tt).
  { apply validate_ok. split; apply validate_events_ok; auto using Sorted_lt_le. }
  rewrite V. cbn [bind]. destruct ref as [|r0 [|r1 ref]]; simpl in Hl; try lia.
  remember (r0 :: r1 :: ref) as l. assert (En : is_nil l = false) by (subst; reflexivity). rewrite En. cbn [orb].
  pose proof (goto_interior_self l [] (Sorted_Qlt_SS _ Hs)) as Hz. cbn [app] in Hz.
  pose proof (goto_interior_length l l) as Hzl.
  assert (Eb : goto_beat_errors l l = 1 :: goto_interior l l ++ [1]) by (subst; reflexivity).
  rewrite Eb. set (zs := goto_interior l l) in *. clearbody zs.
  assert (El : length l = S (S (length zs))) by (rewrite Hzl, Heql; cbn [length]; lia).
  assert (Hk : (3 <= length zs)%nat) by (rewrite Hzl, Heql; cbn [length]; lia).
  assert (Ef : map (fun e => qltb thr (Qabs e)) (1 :: zs ++ [1]) = true :: repeat false (length zs) ++ [true]).
  { assert (E1 : qltb thr (Qabs 1) = true) by (apply qltb_true; exact Ht1).
    cbn [map]. rewrite map_app. cbn [map]. rewrite E1, flags_zero; auto. }
  rewrite Ef. unfold flatnonzero. cbn [flatnonzero_from]. rewrite flatnonzero_from_false. cbn [flatnonzero_from].
  replace (1 + length zs)%nat with (S (length zs)) by lia.
  rewrite goto_track_two. cbn [bind]. rewrite py_slice_interior by lia.
  rewrite goto_stats_zero; auto.
  - apply Forall_forall. intros x Hx. rewrite Forall_forall in Hz. apply Hz. eapply firstn_In_sub; eauto.
  - rewrite firstn_length. lia. Qed.
Example goto_self_example : goto [5; 6; 7; 8; 9] [5; 6; 7; 8; 9] (35#100) (2#10) (2#10) = Ok 1.
Proof. vm_compute. reflexivity. Qed.
(* four beats are not enough (the track beat_error[1:N-2] has one element, its sample deviation is nan) *)
Example goto_self_four_beats : goto [5; 6; 7; 8] [5; 6; 7; 8] (35#100) (2#10) (2#10) = Ok 0.
Proof. vm_compute. reflexivity. Qed.

(* ------------------------------------------------------------------------------------------ *)
(* continuity                                                                                  *)
(* ------------------------------------------------------------------------------------------ *)
Lemma gaps_bound l cur : Forall (fun g => (g <= cur + count_true l + 1)%nat) (gaps cur l).
Proof. revert cur. induction l as [|b l IH]; intros cur; simpl; [constructor|]. destruct b.
  - eapply Forall_impl; [|apply IH]. intros g Hg. unfold count_true in *. simpl. lia.
  - constructor; [lia|]. eapply Forall_impl; [|apply IH]. intros g Hg. unfold count_true in *. simpl in *. lia. Qed.
Lemma nat_max_le l u : Forall (fun g => (g <= u)%nat) l -> (nat_max l <= u)%nat.
Proof. induction 1; simpl; lia. Qed.
Lemma count_true_app a b : count_true (a ++ b) = (count_true a + count_true b)%nat.
Proof. unfold count_true. now rewrite filter_app, app_length. Qed.
Lemma count_true_le l : (count_true l <= length l)%nat.
Proof. unfold count_true. induction l as [|[] l IH]; simpl; lia. Qed.
Lemma longest_le_count succ : (nat_max (gaps 0 (succ ++ [false])) - 1 <= count_true succ)%nat.
Proof. pose proof (nat_max_le _ _ (gaps_bound (succ ++ [false]) 0)) as H.
  rewrite count_true_app in H. unfold count_true at 2 in H. simpl in H. lia. Qed.
Lemma cont_loop_length v0 vt pth qth eprev est used : length (cont_loop v0 vt pth qth eprev est used) = length est.
Proof. revert eprev used. induction est as [|e t IH]; intros eprev used; simpl; auto. Qed.

Lemma Qdiv_le_1 a b : 0 <= a -> a <= b -> 0 < b -> 0 <= a / b /\ a / b <= 1.
Proof. intros Ha Hab Hb. split.
  - apply Qle_shift_div_l; auto. lra.
  - apply Qle_shift_div_r; auto. lra. Qed.
Lemma Qdiv_le_div a b c : a <= b -> 0 < c -> a / c <= b / c.
Proof. intros Hab Hc. apply Qle_shift_div_l; auto. unfold Qdiv. rewrite <- Qmult_assoc, (Qmult_comm (/ c)), Qmult_inv_r; lra. Qed.

(* one metrical variation: 0 <= continuous <= total <= 1 *)
Lemma continuity_var_range var est pth qth c t : (1 <= length est)%nat ->
  continuity_var var est pth qth = Ok (c, t) -> 0 <= c /\ c <= t /\ t <= 1.
Proof. intros He. unfold continuity_var. destruct var as [|v0 vt]; [discriminate|].
  set (n := Nat.max (length (v0 :: vt)) (length est)).
  set (succ := cont_loop v0 vt pth qth None est [] ++ repeat false (n - length est)).
  intros H. inversion H; subst c t. clear H.
  assert (Hn : 0 < qnat n) by (apply qnat_pos; unfold n; lia).
  assert (Hl : length succ = n).
  { unfold succ. rewrite app_length, cont_loop_length, repeat_length. unfold n. lia. }
  pose proof (longest_le_count succ) as H1. pose proof (count_true_le succ) as H2. rewrite Hl in H2.
  split; [|split].
  - apply Qdiv_le_1; auto using qnat_nonneg. apply qnat_le. lia.
  - apply Qdiv_le_div; auto. now apply qnat_le.
  - apply Qdiv_le_1; auto using qnat_nonneg. now apply qnat_le. Qed.

Lemma map_res_F2 {A B} (f : A -> res B) l rs : map_res f l = Ok rs -> Forall2 (fun x r => f x = Ok r) l rs.
Proof. revert rs. induction l as [|x l IH]; simpl; intros rs H.
  - inversion H. constructor.
  - destruct (f x) as [y|] eqn:E; simpl in H; [|discriminate].
    destruct (map_res f l) as [ys|]; simpl in H; [|discriminate]. inversion H; subst. constructor; auto. Qed.

Definition in01 (x : Q) : Prop := 0 <= x /\ x <= 1.

Lemma continuity_inv ref est pth qth a b c d : continuity ref est pth qth = Ok (a, b, c, d) ->
  (a == 0 /\ b == 0 /\ c == 0 /\ d == 0) \/
  ((2 <= length est)%nat /\ exists rest, Forall (fun r => 0 <= fst r /\ fst r <= snd r /\ snd r <= 1) ((a, b) :: rest)
     /\ c = fold_left Qmax (map fst rest) a /\ d = fold_left Qmax (map snd rest) b).
Proof. unfold continuity. destruct (validate ref est); cbn [bind]; [|discriminate].
  destruct ((length est <=? 1)%nat || (length ref <=? 1)%nat) eqn:E.
  - inversion 1. left. repeat split; reflexivity.
  - apply orb_false_elim in E. destruct E as [E1 E2]. apply Nat.leb_gt in E1.
    destruct (map_res (fun v => continuity_var v est pth qth) (variations ref)) as [rs|] eqn:Er; cbn [bind]; [|discriminate].
    apply map_res_F2 in Er. destruct rs as [|[c0 t0] rest]; [discriminate|]. inversion 1; subst.
    right. split; [lia|]. exists rest. repeat split; auto.
    clear -Er E1. remember (variations ref) as vs. clear Heqvs.
    induction Er as [|v [cv tv] vs rs Hv H IH]; constructor; auto. simpl.
    eapply continuity_var_range; [|exact Hv]. lia. Qed.

(* C01: each of the four continuity scores is in [0, 1] *)
Theorem continuity_range ref est pth qth a b c d : continuity ref est pth qth = Ok (a, b, c, d) ->
  in01 a /\ in01 b /\ in01 c /\ in01 d.
Proof. intros H. apply continuity_inv in H. unfold in01. destruct H as [(Ha & Hb & Hc & Hd)|(_ & rest & Hf & -> & ->)].
  - rewrite Ha, Hb, Hc, Hd. lra.
  - inversion Hf as [|? ? H0 Hr]; subst. simpl in H0.
    assert (Hr1 : Forall (fun x => x <= 1) (map fst rest)).
    { clear -Hr. induction Hr as [|[x y] l Hx H IH]; simpl; constructor; auto. simpl in Hx. lra. }
    assert (Hr2 : Forall (fun x => x <= 1) (map snd rest)).
    { clear -Hr. induction Hr as [|[x y] l Hx H IH]; simpl; constructor; auto. simpl in Hx. lra. }
    pose proof (fold_Qmax_ge (map fst rest) a) as G1. pose proof (fold_Qmax_ge (map snd rest) b) as G2.
    assert (L1 : fold_left Qmax (map fst rest) a <= 1) by (apply fold_Qmax_le; auto; lra).
    assert (L2 : fold_left Qmax (map snd rest) b <= 1) by (apply fold_Qmax_le; auto; lra).
    repeat split; lra. Qed.

(* C07: correct metric level <= any metric level (continuous and total) *)
Theorem cml_le_aml ref est pth qth a b c d : continuity ref est pth qth = Ok (a, b, c, d) -> a <= c /\ b <= d.
Proof. intros H. apply continuity_inv in H. destruct H as [(Ha & Hb & Hc & Hd)|(_ & rest & Hf & -> & ->)].
  - rewrite Ha, Hb, Hc, Hd. lra.
  - split; apply fold_Qmax_ge. Qed.

(* C07: continuous <= total (at the correct and at any metric level) *)
Theorem continuous_le_total ref est pth qth a b c d : continuity ref est pth qth = Ok (a, b, c, d) -> a <= b /\ c <= d.
Proof. intros H. apply continuity_inv in H. destruct H as [(Ha & Hb & Hc & Hd)|(_ & rest & Hf & -> & ->)].
  - rewrite Ha, Hb, Hc, Hd. lra.
  - inversion Hf as [|? ? H0 Hr]; subst. simpl in H0. split; [lra|].
    apply fold_Qmax_mono; [lra|]. clear -Hr.
    induction Hr as [|[x y] l Hx H IH]; simpl; constructor; auto. simpl in Hx. lra. Qed.

(* --- time shift --- *)
Definition opt_shl (s : Q) (o' o : option Q) : Prop :=
  match o', o with Some a, Some b => a == b + s | None, None => True | _, _ => False end.
Definition cand_shl (s : Q) (c' c : cand) : Prop :=
  c_idx c' = c_idx c /\ c_diff c' == c_diff c /\ opt_shl s (c_prev c') (c_prev c)
  /\ c_val c' == c_val c + s /\ opt_shl s (c_next c') (c_next c).
Lemma hd_error_shl s l' l : shl s l' l -> opt_shl s (hd_error l') (hd_error l).
Proof. destruct 1; simpl; auto. Qed.
Lemma scan_shl s x' x i p' p l' l b' b : x' == x + s -> p' == p + s -> shl s l' l -> cand_shl s b' b ->
  cand_shl s (scan x' i p' l' b') (scan x i p l b).
Proof. intros Hx Hp H. revert i p' p Hp b' b. induction H as [|v' v l' l Hv H IH]; intros i p' p Hp b' b Hb; cbn [scan]; auto.
  apply IH; auto. destruct Hb as (Hb1 & Hb2 & Hb3 & Hb4 & Hb5).
  assert (E : Qabs (x' - v') == Qabs (x - v)) by (assert (E0 : x' - v' == x - v) by lra; now rewrite E0).
  assert (Eb : qltb (Qabs (x' - v')) (c_diff b') = qltb (Qabs (x - v)) (c_diff b)) by now rewrite E, Hb2.
  rewrite Eb. destruct (qltb (Qabs (x - v)) (c_diff b)).
  - unfold cand_shl. cbn [c_idx c_diff c_prev c_val c_next]. repeat split; auto. now apply hd_error_shl.
  - unfold cand_shl. repeat split; auto. Qed.
Lemma nearest_shl s x' x v0' v0 vt' vt : x' == x + s -> v0' == v0 + s -> shl s vt' vt ->
  cand_shl s (nearest x' v0' vt') (nearest x v0 vt).
Proof. intros Hx Hv H. unfold nearest. apply scan_shl; auto.
  unfold cand_shl. cbn [c_idx c_diff c_prev c_val c_next]. repeat split; auto.
  - assert (E0 : x' - v0' == x - v0) by lra. now rewrite E0.
  - now apply hd_error_shl. Qed.

Global Instance ratio_ok_proper : Proper (Qeq ==> Qeq ==> Qeq ==> Qeq ==> Qeq ==> eq) ratio_ok.
Proof. intros d d' Hd e e' He r r' Hr p p' Hp q q' Hq. unfold ratio_ok. now rewrite Hd, He, Hr, Hp, Hq. Qed.

Definition ri_fwd (c : cand) : Q :=
  match c_next c with Some vn => vn - c_val c
  | None => c_val c - match c_prev c with Some vp => vp | None => c_val c end end.
Definition ei_fwd (ep : option Q) (e : Q) (en : option Q) : Q :=
  match en with Some en => en - e | None => e - match ep with Some ep => ep | None => e end end.
Definition first_branch (ep : option Q) (e : Q) (en : option Q) (c : cand) (pth qth : Q) : bool :=
  if qeqb (ri_fwd c) 0 then qeqb (c_diff c) 0 && qltb 1 pth && qeqb (ei_fwd ep e en) 0 && qltb 0 qth
  else ratio_ok (c_diff c) (ei_fwd ep e en) (ri_fwd c) pth qth.
Lemma cont_success_eq ep e en c pth qth :
  cont_success ep e en c pth qth =
  match ep, c_idx c with
  | Some ep0, S _ => match c_prev c with
                     | Some vp => if qeqb (c_val c - vp) 0 then false else ratio_ok (c_diff c) (e - ep0) (c_val c - vp) pth qth
                     | None => false end
  | _, _ => first_branch ep e en c pth qth
  end.
Proof. reflexivity. Qed.
Lemma ri_fwd_shl s c' c : cand_shl s c' c -> ri_fwd c' == ri_fwd c.
Proof. intros (Hc1 & Hc2 & Hc3 & Hc4 & Hc5). unfold ri_fwd.
  destruct (c_next c'), (c_next c); simpl in Hc5; try contradiction; [lra|].
  destruct (c_prev c'), (c_prev c); simpl in Hc3; try contradiction; lra. Qed.
Lemma ei_fwd_shl s ep' ep e' e en' en : opt_shl s ep' ep -> e' == e + s -> opt_shl s en' en ->
  ei_fwd ep' e' en' == ei_fwd ep e en.
Proof. intros Hp He Hn. unfold ei_fwd. destruct en', en; simpl in Hn; try contradiction; [lra|].
  destruct ep', ep; simpl in Hp; try contradiction; lra. Qed.
Lemma first_branch_shl s ep' ep e' e en' en c' c pth qth :
  opt_shl s ep' ep -> e' == e + s -> opt_shl s en' en -> cand_shl s c' c ->
  first_branch ep' e' en' c' pth qth = first_branch ep e en c pth qth.
Proof. intros Hp He Hn Hc. unfold first_branch.
  pose proof (ri_fwd_shl s c' c Hc) as E1. pose proof (ei_fwd_shl s ep' ep e' e en' en Hp He Hn) as E2.
  destruct Hc as (_ & Hc2 & _).
  assert (B1 : qeqb (ri_fwd c') 0 = qeqb (ri_fwd c) 0) by now rewrite E1.
  assert (B2 : qeqb (c_diff c') 0 = qeqb (c_diff c) 0) by now rewrite Hc2.
  assert (B3 : qeqb (ei_fwd ep' e' en') 0 = qeqb (ei_fwd ep e en) 0) by now rewrite E2.
  assert (B4 : ratio_ok (c_diff c') (ei_fwd ep' e' en') (ri_fwd c') pth qth = ratio_ok (c_diff c) (ei_fwd ep e en) (ri_fwd c) pth qth)
    by now rewrite E1, E2, Hc2.
  now rewrite B1, B2, B3, B4. Qed.

Lemma cont_success_shl s ep' ep e' e en' en c' c pth qth :
  opt_shl s ep' ep -> e' == e + s -> opt_shl s en' en -> cand_shl s c' c ->
  cont_success ep' e' en' c' pth qth = cont_success ep e en c pth qth.
Proof. intros Hp He Hn Hc. rewrite !cont_success_eq.
  pose proof (first_branch_shl s ep' ep e' e en' en c' c pth qth Hp He Hn Hc) as First.
  destruct Hc as (Hc1 & Hc2 & Hc3 & Hc4 & Hc5). rewrite Hc1.
  destruct ep' as [a'|], ep as [a|]; simpl in Hp; try contradiction; [|exact First].
  destruct (c_idx c); [exact First|].
  destruct (c_prev c') as [vp'|], (c_prev c) as [vp|]; simpl in Hc3; try contradiction; auto.
  assert (Eri : c_val c' - vp' == c_val c - vp) by lra. assert (Eei : e' - a' == e - a) by lra.
  assert (B1 : qeqb (c_val c' - vp') 0 = qeqb (c_val c - vp) 0) by now rewrite Eri.
  assert (B2 : ratio_ok (c_diff c') (e' - a') (c_val c' - vp') pth qth = ratio_ok (c_diff c) (e - a) (c_val c - vp) pth qth)
    by now rewrite Eri, Eei, Hc2.
  now rewrite B1, B2. Qed.

Lemma cont_loop_shl s v0' v0 vt' vt pth qth est' est : v0' == v0 + s -> shl s vt' vt -> shl s est' est ->
  forall ep' ep used, opt_shl s ep' ep ->
  cont_loop v0' vt' pth qth ep' est' used = cont_loop v0 vt pth qth ep est used.
Proof. intros Hv Hvt H. induction H as [|e' e t' t He H IH]; intros ep' ep used Hp; simpl; auto.
  pose proof (nearest_shl s e' e v0' v0 vt' vt He Hv Hvt) as Hc.
  rewrite (cont_success_shl s ep' ep e' e (hd_error t') (hd_error t) _ _ pth qth Hp He (hd_error_shl _ _ _ H) Hc).
  destruct Hc as (Hc1 & _). rewrite Hc1. f_equal. apply IH. exact He. Qed.

Lemma continuity_var_shl s var' var est' est pth qth : shl s var' var -> shl s est' est ->
  continuity_var var' est' pth qth = continuity_var var est pth qth.
Proof. intros Hv He. unfold continuity_var. pose proof (F2_length _ _ _ Hv) as Lv. pose proof (F2_length _ _ _ He) as Le.
  destruct Hv as [|v0' v0 vt' vt H0 Hv]; auto.
  rewrite (cont_loop_shl s v0' v0 vt' vt pth qth est' est H0 Hv He None None [] I). rewrite Lv, Le. reflexivity. Qed.

Lemma map_res_F2_eq {A A' B} (R : A' -> A -> Prop) (f' : A' -> res B) (f : A -> res B) l' l :
  (forall a b, R a b -> f' a = f b) -> Forall2 R l' l -> map_res f' l' = map_res f l.
Proof. intros Hf. induction 1 as [|a b l' l Hab H IH]; simpl; auto. now rewrite (Hf _ _ Hab), IH. Qed.

(* C08: adding the same offset to all reference and estimated beats (both inputs staying valid) *)
Theorem continuity_shift s ref est pth qth :
  validate ref est = Ok tt -> validate (shift s ref) (shift s est) = Ok tt ->
  continuity (shift s ref) (shift s est) pth qth = continuity ref est pth qth.
Proof. intros V V'. unfold continuity. rewrite V, V'. cbn [bind]. unfold shift at 1 2. rewrite !map_length.
  destruct ((length est <=? 1)%nat || (length ref <=? 1)%nat); auto.
  rewrite (map_res_F2_eq (shl s) (fun v => continuity_var v (shift s est) pth qth) (fun v => continuity_var v est pth qth)
             (variations (shift s ref)) (variations ref)); auto.
  - intros a b Hab. apply (continuity_var_shl s); auto. apply shl_shift.
  - apply shl_variations, shl_shift. Qed.

(* --- a perfect estimate --- *)
Definition olast (p : list Q) : option Q := fold_left (fun _ v => Some v) p None.
Lemma olast_snoc p e : olast (p ++ [e]) = Some e.
Proof. unfold olast. now rewrite fold_left_app. Qed.
Lemma fold_some p a : fold_left (fun (_ : option Q) v => Some v) p (Some a) = Some (fold_left (fun _ v => v) p a).
Proof. revert a. induction p as [|v p IH]; intros a; simpl; auto. Qed.

Lemma scan_stay x i prev l best : c_diff best == 0 -> scan x i prev l best = best.
Proof. intros H. revert i prev. induction l as [|v l IH]; intros i prev; cbn [scan]; auto.
  assert (E : qltb (Qabs (x - v)) (c_diff best) = false) by (apply qltb_false; rewrite H; apply Qabs_nonneg).
  rewrite E. apply IH. Qed.
Lemma Qabs_self x : Qabs (x - x) == 0.
Proof. assert (E : x - x == 0) by ring. rewrite E. reflexivity. Qed.
Lemma Qabs_pos_neq x v : ~ v == x -> 0 < Qabs (x - v).
Proof. intros H. destruct (Qlt_le_dec 0 (Qabs (x - v))) as [|Hle]; auto.
  exfalso. apply H. pose proof (Qabs_nonneg (x - v)) as H0.
  assert (E : Qabs (x - v) == 0) by lra. destruct (Qlt_le_dec (x - v) 0) as [Hn|Hp].
  - rewrite Qabs_neg in E; lra. - rewrite Qabs_pos in E; lra. Qed.
Lemma scan_find x t p : forall i prev best, Forall (fun v => ~ v == x) p -> 0 < c_diff best ->
  scan x i prev (p ++ x :: t) best
  = mk_cand (i + length p) (Qabs (x - x)) (Some (fold_left (fun _ v => v) p prev)) x (hd_error t).
Proof. induction p as [|v p IH]; intros i prev best Hp Hb; cbn [app scan].
  - assert (E : qltb (Qabs (x - x)) (c_diff best) = true) by (apply qltb_true; rewrite Qabs_self; exact Hb).
    rewrite E, scan_stay; [|apply Qabs_self]. simpl. now rewrite Nat.add_0_r.
  - inversion Hp as [|? ? Hv Hp']; subst. rewrite IH; auto.
    + simpl. f_equal. lia.
    + destruct (qltb (Qabs (x - v)) (c_diff best)); auto. simpl. now apply Qabs_pos_neq. Qed.
Lemma nearest_at p x t v0 vt : v0 :: vt = p ++ x :: t -> Forall (fun v => ~ v == x) p ->
  nearest x v0 vt = mk_cand (length p) (Qabs (x - x)) (olast p) x (hd_error t).
Proof. intros E Hp. unfold nearest. destruct p as [|a p]; simpl in E; inversion E; subst.
  - rewrite scan_stay; [reflexivity|apply Qabs_self].
  - inversion Hp as [|? ? Hv Hp']; subst. rewrite scan_find; auto.
    + unfold olast. simpl. now rewrite fold_some.
    + simpl. now apply Qabs_pos_neq. Qed.

Lemma ratio_ok_self d ri pth qth : d == 0 -> ~ ri == 0 -> 0 < pth -> 0 < qth -> ratio_ok d ri ri pth qth = true.
Proof. intros Hd Hr Hp Hq. unfold ratio_ok. apply andb_true_intro. split; apply qltb_true.
  - assert (E : d / ri == 0) by (rewrite Hd; unfold Qdiv; ring). rewrite E. exact Hp.
  - assert (E : 1 - ri / ri == 0) by (field; exact Hr). rewrite E. exact Hq. Qed.

Lemma cont_loop_self v0 vt pth qth : 0 < pth -> 0 < qth -> StronglySorted Qlt (v0 :: vt) -> (2 <= length (v0 :: vt))%nat ->
  forall t p used, v0 :: vt = p ++ t -> Forall (fun i => (i < length p)%nat) used ->
  cont_loop v0 vt pth qth (olast p) t used = repeat true (length t).
Proof. intros Hp Hq Hs Hl. induction t as [|e t IH]; intros p used E Hu; cbn [cont_loop length repeat]; auto.
  assert (Hs' := Hs). rewrite E in Hs'. apply SS_app_inv in Hs'. destruct Hs' as (_ & Hs2 & Hs3).
  assert (Hne : Forall (fun v => ~ v == e) p).
  { apply Forall_forall. intros v Hv. assert (v < e) by (apply Hs3; simpl; auto). lra. }
  rewrite (nearest_at p e t v0 vt E Hne). cbn [c_idx].
  assert (Eu : existsb (Nat.eqb (length p)) used = false).
  { clear -Hu. induction Hu as [|i l Hi H IH]; simpl; auto. rewrite IH, orb_false_r. apply Nat.eqb_neq. lia. }
  rewrite Eu. cbn [negb andb].
  assert (Es : cont_success (olast p) e (hd_error t) (mk_cand (length p) (Qabs (e - e)) (olast p) e (hd_error t)) pth qth = true).
  { rewrite cont_success_eq. cbn [c_idx c_prev c_val c_diff].
    destruct p as [|a p].
    - (* the first beat: look forward *)
      unfold olast. cbn [fold_left]. unfold first_branch, ri_fwd, ei_fwd. cbn [c_next c_val c_prev c_diff].
      destruct t as [|e2 t]. { simpl in E. rewrite E in Hl. simpl in Hl. lia. }
      cbn [hd_error]. inversion Hs2 as [|? ? _ Hf]; subst. inversion Hf as [|? ? He2 _]; subst.
      assert (N : qeqb (e2 - e) 0 = false) by (apply qeqb_false; lra). rewrite N.
      apply ratio_ok_self; auto using Qabs_self. lra.
    - unfold olast. cbn [fold_left length]. rewrite fold_some.
      set (ep := fold_left (fun _ v => v) p a).
      assert (Hin : In ep (a :: p)).
      { unfold ep. clear. revert a. induction p as [|b p IH]; intros a; simpl; auto. destruct (IH b); auto. }
      assert (Hlt : ep < e) by (apply Hs3; simpl; auto).
      assert (N : qeqb (e - ep) 0 = false) by (apply qeqb_false; lra). rewrite N.
      apply ratio_ok_self; auto using Qabs_self. lra. }
  rewrite Es. f_equal. rewrite <- (olast_snoc p e). apply IH.
  - rewrite <- app_assoc. exact E.
  - rewrite app_length. simpl. constructor; [lia|]. eapply Forall_impl; [|exact Hu]. intros i Hi. simpl in Hi. lia. Qed.

Lemma gaps_all_true n cur : gaps cur (repeat true n ++ [false]) = [S (cur + n)].
Proof. revert cur. induction n as [|n IH]; intros cur; simpl; [now rewrite Nat.add_0_r|]. rewrite IH. f_equal. lia. Qed.
Lemma count_true_repeat n : count_true (repeat true n) = n.
Proof. unfold count_true. induction n; simpl; auto. Qed.

Lemma continuity_var_self ref pth qth : 0 < pth -> 0 < qth -> Sorted Qlt ref -> (2 <= length ref)%nat ->
  exists c t, continuity_var ref ref pth qth = Ok (c, t) /\ c == 1 /\ t == 1.
Proof. intros Hp Hq Hs Hl. destruct ref as [|v0 vt]; [simpl in Hl; lia|]. unfold continuity_var.
  rewrite Nat.max_id, Nat.sub_diag. cbn [repeat]. rewrite app_nil_r.
  change None with (olast []).
  rewrite (cont_loop_self v0 vt pth qth Hp Hq (Sorted_Qlt_SS _ Hs) Hl (v0 :: vt) [] [] eq_refl (Forall_nil _)).
  rewrite gaps_all_true, count_true_repeat. unfold nat_max. cbn [fold_right]. rewrite Nat.max_0_r.
  do 2 eexists. split; [reflexivity|].
  assert (Hpos : 0 < qnat (length (v0 :: vt))) by (apply qnat_pos; simpl; lia).
  assert (Hn : ~ qnat (length (v0 :: vt)) == 0) by lra.
  replace (S (0 + length (v0 :: vt)) - 1)%nat with (length (v0 :: vt)) by lia.
  split; field; exact Hn. Qed.

Lemma continuity_var_nonempty v0 vt est pth qth : exists c t, continuity_var (v0 :: vt) est pth qth = Ok (c, t).
Proof. unfold continuity_var. do 2 eexists. reflexivity. Qed.

Lemma continuity_first ref est pth qth a b c d : (2 <= length ref)%nat -> (2 <= length est)%nat ->
  continuity ref est pth qth = Ok (a, b, c, d) -> continuity_var ref est pth qth = Ok (a, b).
Proof. intros Hr He. unfold continuity. destruct (validate ref est); cbn [bind]; [|discriminate].
  destruct (length est <=? 1)%nat eqn:E1; [apply Nat.leb_le in E1; lia|].
  destruct (length ref <=? 1)%nat eqn:E2; [apply Nat.leb_le in E2; lia|]. cbn [orb].
  destruct (map_res (fun v => continuity_var v est pth qth) (variations ref)) as [rs|] eqn:Er; cbn [bind]; [|discriminate].
  apply map_res_F2 in Er. unfold variations in Er. inversion Er as [|? r ? rs' Hf _]; subst. destruct r as [c0 t0].
  inversion 1; subst. exact Hf. Qed.

Lemma variations_nonempty ref : (2 <= length ref)%nat -> Forall (fun v => v <> []) (variations ref).
Proof. intros H. destruct ref as [|r0 [|r1 ref]]; simpl in H; try lia.
  unfold variations. repeat constructor; simpl; discriminate. Qed.
Lemma map_res_cont_total est pth qth vs : Forall (fun v => v <> []) vs ->
  exists rs, map_res (fun v => continuity_var v est pth qth) vs = Ok rs /\ length rs = length vs.
Proof. induction 1 as [|v vs Hv H (rs & IH & IHl)]; cbn [map_res].
  - exists []. auto.
  - destruct v as [|v0 vt]; [congruence|]. destruct (continuity_var_nonempty v0 vt est pth qth) as (c & t & ->).
    rewrite IH. cbn [bind]. eexists. split; [reflexivity|]. simpl. now rewrite IHl. Qed.
Lemma continuity_total ref est pth qth : validate ref est = Ok tt -> (2 <= length ref)%nat ->
  exists q, continuity ref est pth qth = Ok q.
Proof. intros V Hr. unfold continuity. rewrite V. cbn [bind].
  destruct ((length est <=? 1)%nat || (length ref <=? 1)%nat); [eexists; reflexivity|].
  destruct (map_res_cont_total est pth qth _ (variations_nonempty ref Hr)) as (rs & -> & Hl). cbn [bind].
  destruct rs as [|[c0 t0] rest]; [simpl in Hl; discriminate|]. eexists. reflexivity. Qed.

(* C02: a perfect estimate (strictly increasing, at least two beats) has all four continuity scores equal to 1 *)
Theorem continuity_self ref pth qth :
  Sorted Qlt ref -> (2 <= length ref)%nat -> Forall (fun t => t <= MAX_TIME) ref -> 0 < pth -> 0 < qth ->
  exists a b c d, continuity ref ref pth qth = Ok (a, b, c, d) /\ a == 1 /\ b == 1 /\ c == 1 /\ d == 1.
Proof. intros Hs Hl Hm Hp Hq.
  assert (V : validate ref ref = Ok tt).
  { apply validate_ok. split; apply validate_events_ok; auto using Sorted_lt_le. }
  destruct (continuity_total ref ref pth qth V Hl) as ([[[a b] c] d] & E).
  exists a, b, c, d. split; auto.
  pose proof (continuity_first _ _ _ _ _ _ _ _ Hl Hl E) as E1.
  destruct (continuity_var_self ref pth qth Hp Hq Hs Hl) as (c0 & t0 & E2 & Hc & Ht).
  rewrite E2 in E1. inversion E1; subst.
  pose proof (continuity_range _ _ _ _ _ _ _ _ E) as (_ & _ & [_ Hc1] & [_ Hd1]).
  pose proof (cml_le_aml _ _ _ _ _ _ _ _ E) as [H1 H2].
  repeat split; auto; lra. Qed.
Example continuity_self_example :
  match continuity [5; 6; 7] [5; 6; 7] (175#1000) (175#1000) with
  | Ok (a, b, c, d) => qeqb a 1 && qeqb b 1 && qeqb c 1 && qeqb d 1 | Raise _ => false end = true.
Proof. vm_compute. reflexivity. Qed.

(* ------------------------------------------------------------------------------------------ *)
(* cemgil (skeleton; g d stands for exp(-d^2 / (2 sigma^2)))                                   *)
(* ------------------------------------------------------------------------------------------ *)
Lemma min_abs_diff_shl s x' x e0' e0 et' et : x' == x + s -> e0' == e0 + s -> shl s et' et ->
  min_abs_diff x' e0' et' == min_abs_diff x e0 et.
Proof. intros Hx H0 H. unfold min_abs_diff. apply fold_Qmin_leq.
  - assert (E : x' - e0' == x - e0) by lra. now rewrite E.
  - clear -Hx H. induction H as [|a b l' l Hab H IH]; cbn [map]; constructor; auto.
    assert (E : x' - a == x - b) by lra. now rewrite E. Qed.
Lemma dists_shl s var' var est' est : shl s var' var -> shl s est' est -> leq (dists var' est') (dists var est).
Proof. intros Hv He. unfold dists. destruct He as [|e0' e0 et' et H0 He]; [constructor|].
  induction Hv as [|a b l' l Hab H IH]; simpl; constructor; auto. now apply (min_abs_diff_shl s). Qed.

Lemma fold_Qmin_le_init l a : fold_left Qmin l a <= a.
Proof. revert a. induction l as [|x l IH]; intros a; simpl; [lra|]. eapply Qle_trans; [apply IH|]. apply Q.le_min_l. Qed.
Lemma fold_Qmin_le_in l a x : In x l -> fold_left Qmin l a <= x.
Proof. revert a. induction l as [|y l IH]; intros a; simpl; [tauto|]. intros [->|H]; auto.
  eapply Qle_trans; [apply fold_Qmin_le_init|]. apply Q.le_min_r. Qed.
Lemma fold_Qmin_ge l a u : u <= a -> Forall (fun x => u <= x) l -> u <= fold_left Qmin l a.
Proof. revert a. induction l as [|y l IH]; intros a Ha Hl; simpl; auto. inversion Hl; subst.
  apply IH; auto. apply Q.min_glb; auto. Qed.
Lemma min_abs_diff_nonneg x e0 et : 0 <= min_abs_diff x e0 et.
Proof. unfold min_abs_diff. apply fold_Qmin_ge; [apply Qabs_nonneg|].
  apply Forall_forall. intros y Hy. apply in_map_iff in Hy. destruct Hy as (e & <- & _). apply Qabs_nonneg. Qed.
(* the distance from a beat that is itself an estimate is 0 *)
Lemma min_abs_diff_self x e0 et : In x (e0 :: et) -> min_abs_diff x e0 et == 0.
Proof. intros H. apply Qle_antisym; [|apply min_abs_diff_nonneg]. unfold min_abs_diff. destruct H as [->|H].
  - eapply Qle_trans; [apply fold_Qmin_le_init|]. rewrite Qabs_self. lra.
  - eapply Qle_trans; [apply (fold_Qmin_le_in _ _ (Qabs (x - x)))|rewrite Qabs_self; lra].
    apply in_map_iff. exists x. auto. Qed.
Lemma dists_length var est : est <> [] -> length (dists var est) = length var.
Proof. unfold dists. destruct est; [congruence|]. intros _. apply map_length. Qed.

Section CemgilProps.
  Variable g : Q -> Q.
  Hypothesis g_range : forall x, 0 <= g x /\ g x <= 1.
  Hypothesis g_zero : g 0 == 1.
  Hypothesis g_proper : forall x y, x == y -> g x == g y.

  Lemma qsum_g_bounds l : 0 <= qsum (map g l) /\ qsum (map g l) <= qnat (length l).
  Proof. induction l as [|x l [IH1 IH2]]; [split; [apply Qle_refl|apply qnat_nonneg]|].
    change (qsum (map g (x :: l))) with (g x + qsum (map g l)). cbn [length]. rewrite qnat_S. pose proof (g_range x). lra. Qed.

  Lemma norm_pos (var est : list Q) : est <> [] -> 0 < (1#2) * (qnat (length est) + qnat (length var)).
  Proof. intros H. destruct est; [congruence|]. pose proof (qnat_pos (length (q :: est))). pose proof (qnat_nonneg (length var)).
    assert (0 < qnat (length (q :: est))) by (apply H0; simpl; lia). lra. Qed.

  Lemma cemgil_acc_nonneg var est : est <> [] -> 0 <= cemgil_acc g var est.
  Proof. intros H. unfold cemgil_acc. apply Qle_shift_div_l; [now apply norm_pos|].
    pose proof (qsum_g_bounds (dists var est)). lra. Qed.

  (* the bound that always holds: accuracy <= 2|var| / (|var| + |est|)  (< 2) *)
  Theorem cemgil_le_2r_over_r_plus_e var est : est <> [] ->
    cemgil_acc g var est <= 2 * qnat (length var) / (qnat (length var) + qnat (length est)).
  Proof. intros H. unfold cemgil_acc. pose proof (norm_pos var est H) as Hn.
    pose proof (qsum_g_bounds (dists var est)) as [_ Hb]. rewrite dists_length in Hb; auto.
    apply Qle_shift_div_r; auto.
    assert (Hd : ~ qnat (length var) + qnat (length est) == 0) by lra.
    assert (E : 2 * qnat (length var) / (qnat (length var) + qnat (length est)) * ((1 # 2) * (qnat (length est) + qnat (length var)))
              == qnat (length var)) by (field; exact Hd).
    rewrite E. exact Hb. Qed.

  (* with no more reference beats than estimates the accuracy is a proportion *)
  Lemma cemgil_acc_le_1 var est : est <> [] -> (length var <= length est)%nat -> cemgil_acc g var est <= 1.
  Proof. intros H Hl. eapply Qle_trans; [apply cemgil_le_2r_over_r_plus_e; auto|].
    pose proof (norm_pos var est H) as Hn. apply Qle_shift_div_r; [lra|]. apply qnat_le in Hl. lra. Qed.

  (* index of the nearest estimate (first minimum), as np.argmin would return it *)
  Fixpoint argmin_from (x : Q) (i : nat) (l : list Q) (bi : nat) (bd : Q) : nat :=
    match l with
    | [] => bi
    | e :: t => if qltb (Qabs (x - e)) bd then argmin_from x (S i) t i (Qabs (x - e)) else argmin_from x (S i) t bi bd
    end.
  Definition nearest_est (est : list Q) (x : Q) : nat :=
    match est with [] => 0%nat | e0 :: et => argmin_from x 1 et 0 (Qabs (x - e0)) end.
  Lemma argmin_from_lt x l : forall i bi bd, (bi < i)%nat -> (argmin_from x i l bi bd < i + length l)%nat.
  Proof. induction l as [|e t IH]; intros i bi bd H; cbn [argmin_from length]; [lia|].
    destruct (qltb (Qabs (x - e)) bd); [specialize (IH (S i) i (Qabs (x - e)))|specialize (IH (S i) bi bd)]; lia. Qed.
  Lemma nearest_est_lt est x : est <> [] -> (nearest_est est x < length est)%nat.
  Proof. destruct est as [|e0 et]; [congruence|]. intros _. unfold nearest_est.
    pose proof (argmin_from_lt x et 1 0 (Qabs (x - e0))). cbn [length]. lia. Qed.

  (* distinct reference beats have distinct nearest estimates => no more reference beats than estimates *)
  Lemma injective_length var est : est <> [] -> NoDup (map (nearest_est est) var) -> (length var <= length est)%nat.
  Proof. intros He Hn. rewrite <- (map_length (nearest_est est) var), <- (seq_length (length est) 0).
    apply NoDup_incl_length; auto. intros i Hi. apply in_map_iff in Hi. destruct Hi as (x & <- & _).
    apply in_seq. pose proof (nearest_est_lt est x He). lia. Qed.

  Lemma cemgil_inv ref est a m : cemgil g ref est = Ok (a, m) ->
    (a == 0 /\ m == 0) \/
    (est <> [] /\ a = cemgil_acc g ref est
     /\ m = fold_left Qmax (map (fun v => cemgil_acc g v est) (tl (variations ref))) a).
  Proof. unfold cemgil. destruct (validate ref est); cbn [bind]; [|discriminate].
    destruct est as [|e0 et]; [inversion 1; left; split; reflexivity|].
    destruct ref as [|r0 rt]; [inversion 1; left; split; reflexivity|].
    cbn [is_nil orb]. unfold variations. cbn [map tl]. inversion 1; subst. right. split; [discriminate|auto]. Qed.

  (* C01 (conditional): Cemgil's score is a proportion when distinct reference beats have distinct nearest estimates *)
  Theorem cemgil_range_if_nearest_injective ref est a m : cemgil g ref est = Ok (a, m) ->
    NoDup (map (nearest_est est) ref) -> 0 <= a /\ a <= 1.
  Proof. intros H Hn. apply cemgil_inv in H. destruct H as [[Ha _]|(He & -> & _)]; [lra|]. split.
    - now apply cemgil_acc_nonneg.
    - apply cemgil_acc_le_1; auto. now apply injective_length. Qed.

  (* ... and the best-metric-level score when this holds for every metrical variation *)
  Theorem cemgil_max_range_if_nearest_injective ref est a m : cemgil g ref est = Ok (a, m) ->
    Forall (fun v => NoDup (map (nearest_est est) v)) (variations ref) -> 0 <= m /\ m <= 1.
  Proof. intros H Hn. apply cemgil_inv in H. destruct H as [[_ Hm]|(He & -> & ->)]; [lra|].
    unfold variations in *. inversion Hn as [|? ? H0 Hn']; subst. cbn [tl]. split.
    - eapply Qle_trans; [|apply fold_Qmax_ge]. now apply cemgil_acc_nonneg.
    - apply fold_Qmax_le; [apply cemgil_acc_le_1; auto; now apply injective_length|].
      clear -Hn' He g_range. induction Hn' as [|v vs Hv H IH]; simpl; constructor; auto.
      apply cemgil_acc_le_1; auto. now apply injective_length. Qed.

  (* the unconditional bound for both scores *)
  Theorem cemgil_lt_2 ref est a m : cemgil g ref est = Ok (a, m) -> 0 <= a /\ a <= m /\ m <= 2.
  Proof. intros H. apply cemgil_inv in H. destruct H as [[Ha Hm]|(He & -> & ->)]; [lra|].
    assert (B : forall v, cemgil_acc g v est <= 2).
    { intros v. eapply Qle_trans; [apply cemgil_le_2r_over_r_plus_e; auto|].
      pose proof (norm_pos v est He). pose proof (qnat_nonneg (length est)).
      apply Qle_shift_div_r; lra. }
    split; [now apply cemgil_acc_nonneg|]. split; [apply fold_Qmax_ge|].
    apply fold_Qmax_le; auto. apply Forall_forall. intros x Hx. apply in_map_iff in Hx. destruct Hx as (v & <- & _). auto. Qed.

  (* C07: Cemgil <= Cemgil at the best metric level *)
  Theorem cemgil_le_cemgil_max ref est a m : cemgil g ref est = Ok (a, m) -> a <= m.
  Proof. intros H. apply cemgil_lt_2 in H. tauto. Qed.

  (* C02: a perfect non-empty estimate has Cemgil score 1 (and best-metric-level score >= 1) *)
  Theorem cemgil_self ref : ref <> [] -> validate ref ref = Ok tt ->
    exists a m, cemgil g ref ref = Ok (a, m) /\ a == 1 /\ 1 <= m.
  Proof. intros Hne V. unfold cemgil. rewrite V. cbn [bind]. destruct ref as [|r0 rt]; [congruence|].
    cbn [is_nil orb]. unfold variations. cbn [map]. do 2 eexists. split; [reflexivity|].
    assert (E : cemgil_acc g (r0 :: rt) (r0 :: rt) == 1).
    { unfold cemgil_acc.
      assert (Es : qsum (map g (dists (r0 :: rt) (r0 :: rt))) == qnat (length (r0 :: rt))).
      { unfold dists. remember (r0 :: rt) as l. rewrite map_map.
        assert (Hin : forall x, In x l -> In x (r0 :: rt)) by (subst; auto). clear Heql Hne V.
        induction l as [|x l IH]; [reflexivity|].
        change (qsum (map (fun x0 => g (min_abs_diff x0 r0 rt)) (x :: l)))
          with (g (min_abs_diff x r0 rt) + qsum (map (fun x0 => g (min_abs_diff x0 r0 rt)) l)).
        cbn [length]. rewrite qnat_S, IH by (intros; apply Hin; simpl; auto).
        rewrite (g_proper _ 0), g_zero by (apply min_abs_diff_self, Hin; simpl; auto). ring. }
      rewrite Es. pose proof (qnat_pos (length (r0 :: rt))) as Hp.
      assert (Hpos : 0 < qnat (length (r0 :: rt))) by (apply Hp; simpl; lia).
      field. lra. }
    split; auto. rewrite <- E. apply fold_Qmax_ge. Qed.

  (* C08: adding the same offset to all reference and estimated beats (both inputs staying valid) *)
  Theorem cemgil_shift s ref est a m a' m' :
    validate ref est = Ok tt -> validate (shift s ref) (shift s est) = Ok tt ->
    cemgil g ref est = Ok (a, m) -> cemgil g (shift s ref) (shift s est) = Ok (a', m') -> a' == a /\ m' == m.
  Proof. intros V V' H H'.
    assert (A : forall v' v, shl s v' v -> cemgil_acc g v' (shift s est) == cemgil_acc g v est).
    { intros v' v Hv. unfold cemgil_acc. pose proof (dists_shl s _ _ _ _ Hv (shl_shift s est)) as Hd.
      assert (Es : qsum (map g (dists v' (shift s est))) == qsum (map g (dists v est))) by (apply qsum_leq, leq_map; auto).
      rewrite Es, (F2_length _ _ _ Hv). unfold shift. rewrite map_length. reflexivity. }
    unfold cemgil in H, H'. rewrite V in H. rewrite V' in H'. cbn [bind] in H, H'.
    pose proof (shl_shift s ref) as Hr.
    rewrite (is_nil_F2 _ _ _ Hr), (is_nil_F2 _ _ _ (shl_shift s est)) in H'.
    destruct (is_nil est || is_nil ref).
    - inversion H; inversion H'; subst. split; reflexivity.
    - pose proof (shl_double _ _ _ Hr) as Hd. unfold variations in H, H'. cbn [map] in H, H'.
      inversion H; inversion H'; subst. clear H H'. split; [now apply A|].
      rewrite (A _ _ Hr), (A _ _ (F2_odds _ _ _ Hd)), (A _ _ Hd), (A _ _ (F2_evens _ _ _ Hr)), (A _ _ (F2_odds _ _ _ Hr)).
      reflexivity. Qed.
End CemgilProps.

(* C01 refuted as an unconditional bound: four coinciding reference beats and one estimate on them give
   4 g(0) / ((4 + 1) / 2) = 8/5 for EVERY g with g 0 == 1 (mir_eval: cemgil([5,5,5,5],[5]) = (1.6, 1.75)) *)
Theorem cemgil_gt_1_refuted (g : Q -> Q) : g 0 == 1 ->
  exists ref est a m, validate ref est = Ok tt /\ cemgil g ref est = Ok (a, m) /\ 1 < a /\ 1 < m.
Proof. intros g0. exists [5; 5; 5; 5], [5]. do 2 eexists. split; [reflexivity|]. split; [reflexivity|].
  assert (Ha : 1 < cemgil_acc g [5; 5; 5; 5] [5]).
  { unfold cemgil_acc. change (dists [5; 5; 5; 5] [5]) with [0; 0; 0; 0].
    change (qsum (map g [0; 0; 0; 0])) with (g 0 + (g 0 + (g 0 + (g 0 + 0)))). rewrite g0. vm_compute. reflexivity. }
  split; [exact Ha|]. eapply Qlt_le_trans; [exact Ha|]. apply fold_Qmax_ge. Qed.

(* the hypotheses of the conditional theorems are satisfiable *)
Definition g_step (x : Q) : Q := if qeqb x 0 then 1 else 0.
Lemma g_step_ok : (forall x, 0 <= g_step x /\ g_step x <= 1) /\ g_step 0 == 1 /\ (forall x y, x == y -> g_step x == g_step y).
Proof. unfold g_step. repeat split.
  - destruct (qeqb x 0); lra. - destruct (qeqb x 0); lra.
  - intros x y H. rewrite H. reflexivity. Qed.
Example cemgil_injective_example :
  NoDup (map (nearest_est [5; 6; 7]) [5; 6; 7]) /\ Forall (fun v => NoDup (map (nearest_est [5; 6; 7; 8; 9]) v)) (variations [5; 7; 9]).
Proof. split.
  - change (map (nearest_est [5; 6; 7]) [5; 6; 7]) with [0; 1; 2]%nat. repeat constructor; simpl; intuition lia.
  - unfold variations. repeat constructor; vm_compute; intuition lia. Qed.

Print Assumptions trim_beats_spec.
Print Assumptions variations_shift.
Print Assumptions goto_binary.
Print Assumptions goto_self.
Print Assumptions goto_shift.
Print Assumptions continuity_range.
Print Assumptions cml_le_aml.
Print Assumptions continuous_le_total.
Print Assumptions continuity_self.
Print Assumptions continuity_shift.
Print Assumptions cemgil_le_2r_over_r_plus_e.
Print Assumptions cemgil_range_if_nearest_injective.
Print Assumptions cemgil_max_range_if_nearest_injective.
Print Assumptions cemgil_lt_2.
Print Assumptions cemgil_le_cemgil_max.
Print Assumptions cemgil_self.
Print Assumptions cemgil_shift.
Print Assumptions cemgil_gt_1_refuted.

(* C04 (skeleton): the per-beat quantity of Cemgil's score is the distance to the nearest estimate *)
Theorem min_abs_diff_spec x e0 et :
  (exists e, In e (e0 :: et) /\ min_abs_diff x e0 et == Qabs (x - e))
  /\ (forall e, In e (e0 :: et) -> min_abs_diff x e0 et <= Qabs (x - e)).
Proof. split.
  - unfold min_abs_diff. revert e0. induction et as [|e1 et IH]; intros e0; cbn [map fold_left].
    + exists e0. split; [now left|reflexivity].
    + destruct (Q.min_dec (Qabs (x - e0)) (Qabs (x - e1))) as [E|E].
      * destruct (IH e0) as (e & Hin & He). exists e. split.
        -- destruct Hin as [<-|Hin]; [now left|right; now right].
        -- eapply Qeq_trans; [|exact He]. apply fold_Qmin_leq; [exact E|apply leq_refl].
      * destruct (IH e1) as (e & Hin & He). exists e. split; [now right|].
        eapply Qeq_trans; [|exact He]. apply fold_Qmin_leq; [exact E|apply leq_refl].
  - intros e [<-|H]; unfold min_abs_diff.
    + apply fold_Qmin_le_init.
    + apply fold_Qmin_le_in. apply in_map_iff. exists e. auto. Qed.
Print Assumptions min_abs_diff_spec.
