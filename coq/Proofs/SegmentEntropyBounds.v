(* C01, real-valued layer: range theorems for the entropic scores of mir_eval/segment.py as defined in
   Proofs/SegmentEntropy.v (mi, entropy, nmi, score_over/score_under, nce, vmeasure), over ARBITRARY tables of
   non-negative integer counts with positive total (rows/columns that are entirely zero are allowed):
     mi_nonneg, mi_le_entropy_ref/est, mi_le_min_entropy, nmi_range,
     condent bounds (0 <= H(ref|est) <= H(ref) <= ln #ref), nce_over_range, nce_under_range, nce_f_range, v_range.
   THIS FILE USES Coq's Reals: its theorems depend on the standard axioms of the real numbers (listed by the
   Print Assumptions at the end); nothing outside this file depends on it. *)
From Coq Require Import List Arith Lia Reals Lra Bool.
From ME Require Import Model.Prelude Model.SegmentCluster Proofs.SegmentClusterProps Proofs.SegmentEntropy.
Import ListNotations.
Local Open Scope R_scope.

(* ================================================================================================== *)
(* 1. analytic core                                                                                     *)
(* ================================================================================================== *)
Lemma ln_le_minus_one x : 0 < x -> ln x <= x - 1.
Proof. intros Hx. pose proof (exp_ineq1_le (ln x)) as H. rewrite exp_ln in H by exact Hx. lra. Qed.

(* Gibbs, one term:  p - q <= p ln (p / q) *)
Lemma gibbs_cell p q : 0 < p -> 0 < q -> p - q <= p * (ln p - ln q).
Proof. intros Hp Hq.
  assert (Hqp : 0 < q / p) by (apply Rdiv_lt_0_compat; assumption).
  pose proof (ln_le_minus_one (q / p) Hqp) as H. rewrite (ln_div' q p Hq Hp) in H.
  assert (E : p * (q / p - 1) = q - p) by (field; lra).
  assert (H' : p * (ln q - ln p) <= p * (q / p - 1)) by (apply Rmult_le_compat_l; lra). lra. Qed.

Lemma div_nonneg x y : 0 <= x -> 0 < y -> 0 <= x / y.
Proof. intros Hx Hy. unfold Rdiv. apply Rmult_le_pos; [exact Hx|left; apply Rinv_0_lt_compat; exact Hy]. Qed.
Lemma div_le_1 x y : 0 < y -> x <= y -> x / y <= 1.
Proof. intros Hy Hxy. assert (Hi : 0 < / y) by (apply Rinv_0_lt_compat; exact Hy).
  assert (E : y / y = 1) by (field; lra). rewrite <- E. unfold Rdiv. apply Rmult_le_compat_r; lra. Qed.

(* finite sums *)
Lemma rsum_le f g n : (forall i, (i < n)%nat -> f i <= g i) -> rsum f n <= rsum g n.
Proof. induction n as [|n IH]; intros H; cbn [rsum]; [lra|]. assert (H1 := IH (fun i Hi => H i (Nat.lt_lt_succ_r _ _ Hi))). assert (H2 := H n (Nat.lt_succ_diag_r n)). lra. Qed.
Lemma rsum_zero f n : (forall i, (i < n)%nat -> f i = 0) -> rsum f n = 0.
Proof. induction n as [|n IH]; intros H; cbn [rsum]; [reflexivity|]. rewrite IH by (intros i Hi; apply H; lia). rewrite (H n) by lia. lra. Qed.
Lemma rsum_nonneg f n : (forall i, (i < n)%nat -> 0 <= f i) -> 0 <= rsum f n.
Proof. intros H. rewrite <- (rsum_zero (fun _ => 0) n) by reflexivity. apply rsum_le. exact H. Qed.
Lemma rsum_scal c f n : rsum (fun i => c * f i) n = c * rsum f n.
Proof. induction n as [|n IH]; cbn [rsum]; [lra|]. rewrite IH. lra. Qed.
Lemma rsum_div f c n : rsum (fun i => f i / c) n = rsum f n / c.
Proof. induction n as [|n IH]; cbn [rsum]; [unfold Rdiv; lra|]. rewrite IH. unfold Rdiv. lra. Qed.
Lemma rsum_opp f n : rsum (fun i => - f i) n = - rsum f n.
Proof. induction n as [|n IH]; cbn [rsum]; [lra|]. rewrite IH. lra. Qed.
Lemma rsum_minus f g n : rsum (fun i => f i - g i) n = rsum f n - rsum g n.
Proof. induction n as [|n IH]; cbn [rsum]; [lra|]. rewrite IH. lra. Qed.
Lemma rsum_const c n : rsum (fun _ => c) n = INR n * c.
Proof. induction n as [|n IH]; [cbn; lra|]. cbn [rsum]. rewrite IH, S_INR. lra. Qed.
Lemma rsum_term_le f n k : (forall i, (i < n)%nat -> 0 <= f i) -> (k < n)%nat -> f k <= rsum f n.
Proof. induction n as [|n IH]; intros H Hk; [lia|]. cbn [rsum].
  assert (H0 : 0 <= rsum f n) by (apply rsum_nonneg; intros i Hi; apply H; lia).
  destruct (Nat.eq_dec k n) as [->|Hne]; [assert (H1 := H n (Nat.lt_succ_diag_r n)); lra|].
  assert (H1 : f k <= rsum f n) by (apply IH; [intros i Hi; apply H; lia|lia]). assert (H2 := H n (Nat.lt_succ_diag_r n)). lra. Qed.
Lemma INR_nsumf f k : INR (nsumf f k) = rsum (fun i => INR (f i)) k.
Proof. induction k as [|k IH]; [reflexivity|]. cbn [nsumf rsum]. rewrite plus_INR, IH. reflexivity. Qed.

(* ================================================================================================== *)
(* 2. margins of a table                                                                                *)
(* ================================================================================================== *)
Lemma rowsum_nonneg n nc i : 0 <= rowsum n nc i.
Proof. unfold rowsum. apply rsum_nonneg. intros j _. apply pos_INR. Qed.
Lemma colsum_nonneg n nr j : 0 <= colsum n nr j.
Proof. unfold colsum. apply rsum_nonneg. intros i _. apply pos_INR. Qed.
Lemma cell_le_rowsum n nc i j : (j < nc)%nat -> INR (n i j) <= rowsum n nc i.
Proof. intros Hj. unfold rowsum. apply (rsum_term_le (fun j => INR (n i j)) nc j); [intros k _; apply pos_INR|exact Hj]. Qed.
Lemma cell_le_colsum n nr i j : (i < nr)%nat -> INR (n i j) <= colsum n nr j.
Proof. intros Hi. unfold colsum. apply (rsum_term_le (fun i => INR (n i j)) nr i); [intros k _; apply pos_INR|exact Hi]. Qed.
Lemma sum_colsum n nr nc : rsum (fun j => colsum n nr j) nc = total n nr nc.
Proof. unfold total, rowsum, colsum. symmetry. apply (rsum_swap (fun i j => INR (n i j)) nr nc). Qed.
Lemma colsum_swap n nc i : colsum (swap n) nc i = rowsum n nc i. Proof. reflexivity. Qed.
Lemma rowsum_swap n nr j : rowsum (swap n) nr j = colsum n nr j. Proof. reflexivity. Qed.
Lemma total_pos_dims n nr nc : 0 < total n nr nc -> (0 < nr)%nat /\ (0 < nc)%nat.
Proof. intros H. split.
  - destruct nr; [cbn in H; lra|lia].
  - destruct nc; [|lia]. unfold total in H. rewrite rsum_zero in H by reflexivity. lra. Qed.

(* ================================================================================================== *)
(* 3. MI >= 0                                                                                           *)
(* ================================================================================================== *)
Lemma mi_unfold n nr nc :
  mi n nr nc = rsum (fun i => rsum (fun j => mi_cell (total n nr nc) (total n nr nc) (total n nr nc) (rowsum n nc i) (colsum n nr j) (n i j)) nc) nr.
Proof. unfold mi. rewrite sum_colsum. reflexivity. Qed.

(* on every cell (also the empty ones) *)
Lemma mi_cell_form N a b c : 0 < N -> INR c <= a -> INR c <= b ->
  mi_cell N N N a b c = INR c / N * (ln (INR c) + ln N - ln a - ln b).
Proof. intros HN Ha Hb. unfold mi_cell. destruct (Nat.eqb_spec c 0) as [->|Hc]; [cbn [INR]; unfold Rdiv; ring|].
  assert (Hc' : 0 < INR c) by (apply lt_0_INR; lia).
  rewrite ln_mult by lra. field. lra. Qed.

Lemma mi_cell_lower N a b c : 0 < N -> INR c <= a -> INR c <= b -> 0 <= a -> 0 <= b ->
  INR c / N - a * b / (N * N) <= mi_cell N N N a b c.
Proof. intros HN Ha Hb Ha0 Hb0. unfold mi_cell. destruct (Nat.eqb_spec c 0) as [->|Hc].
  - cbn [INR]. assert (0 <= a * b / (N * N)) by (apply div_nonneg; [apply Rmult_le_pos; assumption|apply Rmult_lt_0_compat; assumption]).
    unfold Rdiv in *. lra.
  - assert (Hc' : 0 < INR c) by (apply lt_0_INR; lia).
    assert (Hp : 0 < INR c / N) by (apply Rdiv_lt_0_compat; assumption).
    assert (Hq : 0 < a * b / (N * N)) by (apply Rdiv_lt_0_compat; [apply Rmult_lt_0_compat; lra|apply Rmult_lt_0_compat; assumption]).
    pose proof (gibbs_cell _ _ Hp Hq) as G.
    rewrite (ln_div' (INR c) N Hc' HN) in G.
    rewrite (ln_div' (a * b) (N * N)) in G by (try apply Rmult_lt_0_compat; lra).
    rewrite (ln_mult N N HN HN) in G.
    replace (INR c / N * (ln (INR c) - ln N) + INR c / N * (- ln (a * b) + ln N + ln N))
      with (INR c / N * (ln (INR c) - ln N - (ln (a * b) - (ln N + ln N)))) by ring. exact G. Qed.

Theorem mi_nonneg n nr nc : 0 < total n nr nc -> 0 <= mi n nr nc.
Proof. intros HN. rewrite mi_unfold. set (N := total n nr nc) in *.
  rewrite <- (rsum_zero (fun i => rsum (fun j => INR (n i j) / N - rowsum n nc i * colsum n nr j / (N * N)) nc) nr).
  - apply rsum_le. intros i Hi. apply rsum_le. intros j Hj.
    apply mi_cell_lower; [exact HN|apply cell_le_rowsum; exact Hj|apply cell_le_colsum; exact Hi|apply rowsum_nonneg|apply colsum_nonneg].
  - intros i _. rewrite rsum_minus, rsum_div.
    rewrite (rsum_ext (fun j => rowsum n nc i * colsum n nr j / (N * N)) (fun j => rowsum n nc i / (N * N) * colsum n nr j)) by (intros; unfold Rdiv; ring).
    rewrite rsum_scal, sum_colsum. fold N. fold (rowsum n nc i). field. lra. Qed.

(* ================================================================================================== *)
(* 4. chain rule  MI + H(ref|est) = H(ref),  hence  MI <= H(ref), MI <= H(est)                          *)
(* ================================================================================================== *)
(* c ln (b / c); 0 on an empty cell because INR 0 = 0 *)
Definition cellH (c : nat) (b : R) : R := INR c * (ln b - ln (INR c)).
(* H(ref | est) in nats:  sum_ij n_ij/N ln (colsum_j / n_ij) *)
Definition condent (n : tabfn) (nr nc : nat) : R :=
  rsum (fun i => rsum (fun j => cellH (n i j) (colsum n nr j)) nc) nr / total n nr nc.
(* H(ref) in nats (the zero rows contribute 0 because 0 / N * _ = 0) *)
Definition hrow (n : tabfn) (nr nc : nat) : R :=
  - rsum (fun i => rowsum n nc i / total n nr nc * (ln (rowsum n nc i) - ln (total n nr nc))) nr.

Lemma cellH_nonneg c b : INR c <= b -> 0 <= cellH c b.
Proof. intros Hb. unfold cellH. destruct (Nat.eq_dec c 0) as [->|Hc]; [cbn [INR]; lra|].
  assert (Hc' : 0 < INR c) by (apply lt_0_INR; lia).
  assert (H : ln (INR c) <= ln b) by (destruct Hb as [Hb|Hb]; [left; apply ln_increasing; assumption|rewrite Hb; lra]).
  apply Rmult_le_pos; lra. Qed.

Lemma chain_cell N a b c : 0 < N -> INR c <= a -> INR c <= b ->
  mi_cell N N N a b c + cellH c b / N = - (ln a - ln N) / N * INR c.
Proof. intros HN Ha Hb. rewrite mi_cell_form by assumption. unfold cellH. field. lra. Qed.

(* the entropy of the code on the row counts is hrow; on the column counts it is hrow of the transposed table *)
Lemma entropy_rows n nr nc nlabels : nlabels <> 0%nat ->
  entropy (fun i => nsumf (fun j => n i j) nc) nr nlabels = hrow n nr nc.
Proof. intros Hl. unfold entropy. destruct (Nat.eqb_spec nlabels 0) as [E0|_]; [contradiction|]. cbv zeta. unfold hrow.
  assert (E : forall i, INR (nsumf (fun j => n i j) nc) = rowsum n nc i) by (intros i; apply INR_nsumf).
  assert (EN : rsum (fun i => INR (nsumf (fun j => n i j) nc)) nr = total n nr nc) by (unfold total; apply rsum_ext; intros; apply E).
  rewrite EN. f_equal. apply rsum_ext. intros i _. destruct (Nat.eqb_spec (nsumf (fun j => n i j) nc) 0) as [Ez|_].
  - rewrite <- E, Ez. cbn [INR]. unfold Rdiv. ring.
  - rewrite E. reflexivity. Qed.
Lemma entropy_cols n nr nc nlabels : nlabels <> 0%nat ->
  entropy (fun j => nsumf (fun i => n i j) nr) nc nlabels = hrow (swap n) nc nr.
Proof. intros Hl. exact (entropy_rows (swap n) nc nr nlabels Hl). Qed.

(* mi_chain: I(ref; est) + H(ref | est) = H(ref) *)
Theorem mi_chain n nr nc : 0 < total n nr nc -> mi n nr nc + condent n nr nc = hrow n nr nc.
Proof. intros HN. rewrite mi_unfold. unfold condent, hrow. set (N := total n nr nc) in *.
  rewrite <- rsum_div, <- rsum_plus, <- rsum_opp. apply rsum_ext. intros i Hi.
  rewrite <- rsum_div, <- rsum_plus.
  rewrite (rsum_ext _ (fun j => - (ln (rowsum n nc i) - ln N) / N * INR (n i j))).
  - rewrite rsum_scal. fold (rowsum n nc i). field. lra.
  - intros j Hj. apply chain_cell; [exact HN|apply cell_le_rowsum; exact Hj|apply cell_le_colsum; exact Hi]. Qed.

Theorem condent_nonneg n nr nc : 0 < total n nr nc -> 0 <= condent n nr nc.
Proof. intros HN. unfold condent. apply div_nonneg; [|exact HN]. apply rsum_nonneg. intros i Hi. apply rsum_nonneg. intros j Hj.
  apply cellH_nonneg, cell_le_colsum. exact Hi. Qed.
Theorem condent_le_hrow n nr nc : 0 < total n nr nc -> condent n nr nc <= hrow n nr nc.
Proof. intros HN. assert (H1 := mi_chain n nr nc HN). assert (H2 := mi_nonneg n nr nc HN). lra. Qed.
Theorem mi_le_hrow n nr nc : 0 < total n nr nc -> mi n nr nc <= hrow n nr nc.
Proof. intros HN. assert (H1 := mi_chain n nr nc HN). assert (H2 := condent_nonneg n nr nc HN). lra. Qed.
Theorem hrow_nonneg n nr nc : 0 < total n nr nc -> 0 <= hrow n nr nc.
Proof. intros HN. assert (H1 := mi_le_hrow n nr nc HN). assert (H2 := mi_nonneg n nr nc HN). lra. Qed.

(* MI <= H(ref), MI <= H(est) for the entropies exactly as _entropy computes them (labellings non-empty) *)
Theorem mi_le_entropy_ref n nr nc nlabels : 0 < total n nr nc -> nlabels <> 0%nat ->
  mi n nr nc <= entropy (fun i => nsumf (fun j => n i j) nc) nr nlabels.
Proof. intros HN Hl. rewrite entropy_rows by exact Hl. apply mi_le_hrow. exact HN. Qed.
Theorem mi_le_entropy_est n nr nc nlabels : 0 < total n nr nc -> nlabels <> 0%nat ->
  mi n nr nc <= entropy (fun j => nsumf (fun i => n i j) nr) nc nlabels.
Proof. intros HN Hl. rewrite entropy_cols by exact Hl. rewrite <- mi_sym. apply mi_le_hrow. rewrite total_swap. exact HN. Qed.
Theorem mi_le_min_entropy n nr nc nlabels : 0 < total n nr nc -> nlabels <> 0%nat ->
  mi n nr nc <= Rmin (entropy (fun i => nsumf (fun j => n i j) nc) nr nlabels) (entropy (fun j => nsumf (fun i => n i j) nr) nc nlabels).
Proof. intros HN Hl. apply Rmin_glb; [apply mi_le_entropy_ref|apply mi_le_entropy_est]; assumption. Qed.

(* H(ref) <= ln (number of reference classes): Gibbs against the uniform distribution *)
Lemma unif_cell N a k : 0 < N -> 0 <= a -> 0 < k -> a / N - / k <= a / N * (ln a - ln N) + a / N * ln k.
Proof. intros HN Ha Hk. assert (Hik : 0 < / k) by (apply Rinv_0_lt_compat; exact Hk).
  destruct (Req_dec a 0) as [->|Hne].
  - unfold Rdiv. rewrite !Rmult_0_l. lra.
  - assert (Ha' : 0 < a) by lra. assert (Hp : 0 < a / N) by (apply Rdiv_lt_0_compat; assumption).
    pose proof (gibbs_cell _ _ Hp Hik) as G. rewrite (ln_div' a N Ha' HN), (ln_Rinv k Hk) in G. lra. Qed.
Theorem hrow_le_ln n nr nc : 0 < total n nr nc -> hrow n nr nc <= ln (INR nr).
Proof. intros HN. destruct (total_pos_dims n nr nc HN) as [Hr _]. assert (Hk : 0 < INR nr) by (apply lt_0_INR; exact Hr).
  unfold hrow. set (N := total n nr nc) in *.
  assert (S1 : rsum (fun i => rowsum n nc i / N) nr = 1) by (rewrite rsum_div; change (N / N = 1); field; lra).
  assert (L : rsum (fun i => rowsum n nc i / N - / INR nr) nr
              <= rsum (fun i => rowsum n nc i / N * (ln (rowsum n nc i) - ln N) + rowsum n nc i / N * ln (INR nr)) nr)
    by (apply rsum_le; intros i _; apply unif_cell; [exact HN|apply rowsum_nonneg|exact Hk]).
  rewrite rsum_minus, S1, rsum_const, rsum_plus in L.
  rewrite (rsum_ext (fun i => rowsum n nc i / N * ln (INR nr)) (fun i => ln (INR nr) * (rowsum n nc i / N))) in L by (intros; ring).
  rewrite rsum_scal, S1 in L. assert (E : INR nr * / INR nr = 1) by (field; lra). lra. Qed.

(* ================================================================================================== *)
(* 5. NMI in [0, 1]                                                                                     *)
(* ================================================================================================== *)
Theorem nmi_range n nr nc nlabels : 0 < total n nr nc -> nlabels <> 0%nat -> 0 <= nmi n nr nc nlabels <= 1.
Proof. intros HN Hl. unfold nmi. destruct ((nr =? nc)%nat && (nc =? 1)%nat || (nr =? nc)%nat && (nc =? 0)%nat)%bool; [lra|]. cbv zeta.
  rewrite entropy_rows, entropy_cols by exact Hl.
  assert (HN' : 0 < total (swap n) nc nr) by (rewrite total_swap; exact HN).
  assert (M0 := mi_nonneg n nr nc HN). assert (M1 := mi_le_hrow n nr nc HN).
  assert (M2 : mi n nr nc <= hrow (swap n) nc nr) by (rewrite <- mi_sym; apply mi_le_hrow; exact HN').
  set (m := mi n nr nc) in *. set (h1 := hrow n nr nc) in *. set (h2 := hrow (swap n) nc nr) in *.
  set (d := Rmax (sqrt (h1 * h2)) (1 / 10000000000)).
  assert (Hd : 0 < d) by (assert (H := Rmax_r (sqrt (h1 * h2)) (1 / 10000000000)); fold d in H; lra).
  assert (Hm : m <= d).
  { apply Rle_trans with (sqrt (h1 * h2)); [|apply Rmax_l]. rewrite <- (sqrt_square m M0). apply sqrt_le_1_alt.
    apply Rmult_le_compat; assumption. }
  split; [apply div_nonneg; assumption|apply div_le_1; assumption]. Qed.

(* ================================================================================================== *)
(* 6. the conditional entropies of nce / vmeasure (scipy.stats.entropy form) and their bounds           *)
(* ================================================================================================== *)
Lemma ln2_pos : 0 < ln 2.
Proof. rewrite <- ln_1. apply ln_increasing; lra. Qed.
Lemma entr_eq x : entr x = - x * ln x.
Proof. unfold entr. destruct (Req_EM_T x 0) as [->|_]; ring. Qed.
Lemma entr_ratio x y : 0 <= x -> 0 < y -> entr (x / y) = - (x / y * (ln x - ln y)).
Proof. intros Hx Hy. rewrite entr_eq. destruct (Req_dec x 0) as [->|Hne]; [unfold Rdiv; ring|]. rewrite ln_div' by lra. ring. Qed.

Lemma p_est_eq n nr F j : p_est n nr F j = colsum n nr j / F.
Proof. unfold p_est, pcell, colsum. apply rsum_div. Qed.
Lemma p_ref_eq n nc F i : p_ref n nc F i = rowsum n nc i / F.
Proof. unfold p_ref, pcell, rowsum. apply rsum_div. Qed.

(* one term of  p_est.dot(scipy.stats.entropy(contingency, base=2)) *)
Lemma col_entropy n nr F j : 0 < F ->
  p_est n nr F j * entropy2 (fun i => pcell n F i j) nr = rsum (fun i => cellH (n i j) (colsum n nr j)) nr / F / ln 2.
Proof. intros HF. assert (L2 := ln2_pos). unfold entropy2. change (rsum (fun i => pcell n F i j) nr) with (p_est n nr F j).
  rewrite p_est_eq. assert (Hb := colsum_nonneg n nr j). destruct (Req_dec (colsum n nr j) 0) as [E|Hne].
  - rewrite E. rewrite (rsum_zero (fun i => cellH (n i j) 0) nr).
    + unfold Rdiv. ring.
    + intros i Hi. assert (H := cell_le_colsum n nr i j Hi). assert (H0 := pos_INR (n i j)). unfold cellH.
      replace (INR (n i j)) with 0 by lra. ring.
  - assert (Hb' : 0 < colsum n nr j) by lra.
    rewrite (rsum_ext (fun i => entr (pcell n F i j / (colsum n nr j / F))) (fun i => cellH (n i j) (colsum n nr j) / colsum n nr j)).
    + rewrite rsum_div. field. lra.
    + intros i Hi. unfold pcell. replace (INR (n i j) / F / (colsum n nr j / F)) with (INR (n i j) / colsum n nr j) by (field; lra).
      rewrite entr_ratio by (try apply pos_INR; exact Hb'). unfold cellH. field. lra. Qed.

(* true_given_est (with the table normalised by its own total, as the code does) is H(ref | est) in bits *)
Theorem true_given_est_eq n nr nc : 0 < total n nr nc -> true_given_est n nr nc (total n nr nc) = condent n nr nc / ln 2.
Proof. intros HN. unfold true_given_est, condent.
  rewrite (rsum_ext _ (fun j => rsum (fun i => cellH (n i j) (colsum n nr j)) nr / total n nr nc / ln 2)) by (intros j _; apply col_entropy; exact HN).
  rewrite !rsum_div. rewrite (rsum_swap (fun j i => cellH (n i j) (colsum n nr j)) nc nr). reflexivity. Qed.

(* the marginal normaliser (vmeasure): scipy.stats.entropy(p_ref, base=2) is H(ref) in bits *)
Theorem z_ref_marginal_eq n nr nc : 0 < total n nr nc -> z_ref n nr nc (total n nr nc) true = hrow n nr nc / ln 2.
Proof. intros HN. unfold z_ref, entropy2, hrow. set (N := total n nr nc) in *.
  assert (S1 : rsum (p_ref n nc N) nr = 1).
  { rewrite (rsum_ext _ (fun i => rowsum n nc i / N)) by (intros; apply p_ref_eq). rewrite rsum_div. change (N / N = 1). field. lra. }
  rewrite S1. rewrite <- rsum_opp. f_equal. apply rsum_ext. intros i _. rewrite p_ref_eq.
  replace (rowsum n nc i / N / 1) with (rowsum n nc i / N) by (field; lra). apply entr_ratio; [apply rowsum_nonneg|exact HN]. Qed.
Lemma z_ref_uniform_eq n nr nc F : z_ref n nr nc F false = ln (INR nr) / ln 2.
Proof. reflexivity. Qed.

(* 0 <= H(ref|est) <= z_ref for both normalisers *)
Theorem true_given_est_bounds n nr nc marginal : 0 < total n nr nc ->
  0 <= true_given_est n nr nc (total n nr nc) <= z_ref n nr nc (total n nr nc) marginal.
Proof. intros HN. assert (L2 := ln2_pos). assert (Hi : 0 < / ln 2) by (apply Rinv_0_lt_compat; exact L2).
  rewrite true_given_est_eq by exact HN.
  assert (C0 := condent_nonneg n nr nc HN). assert (C1 := condent_le_hrow n nr nc HN). assert (C2 := hrow_le_ln n nr nc HN).
  split; [apply div_nonneg; assumption|].
  destruct marginal; [rewrite z_ref_marginal_eq by exact HN|rewrite z_ref_uniform_eq]; unfold Rdiv; apply Rmult_le_compat_r; lra. Qed.
Corollary pred_given_ref_bounds n nr nc marginal : 0 < total n nr nc ->
  0 <= pred_given_ref n nr nc (total n nr nc) <= z_est n nr nc (total n nr nc) marginal.
Proof. intros HN. rewrite <- (total_swap n nr nc). apply (true_given_est_bounds (swap n) nc nr marginal). rewrite total_swap. exact HN. Qed.
(* in nats, as item 4 of the plan states it: 0 <= H(est | ref) <= ln (#est classes) *)
Corollary condent_est_le_ln n nr nc : 0 < total n nr nc -> 0 <= condent (swap n) nc nr <= ln (INR nc).
Proof. intros HN. assert (HN' : 0 < total (swap n) nc nr) by (rewrite total_swap; exact HN).
  assert (C0 := condent_nonneg _ _ _ HN'). assert (C1 := condent_le_hrow _ _ _ HN'). assert (C2 := hrow_le_ln _ _ _ HN'). lra. Qed.

(* ================================================================================================== *)
(* 7. the scores                                                                                        *)
(* ================================================================================================== *)
Lemma guard_range t z : 0 <= t <= z -> 0 <= (if Rlt_dec 0 z then 1 - t / z else 0) <= 1.
Proof. intros [Ht Hz]. destruct (Rlt_dec 0 z) as [Hp|_]; [|lra].
  assert (Hi : 0 < / z) by (apply Rinv_0_lt_compat; exact Hp).
  assert (H0 : 0 <= t / z) by (apply div_nonneg; assumption).
  assert (H1 : t / z <= 1) by (apply div_le_1; assumption). lra. Qed.

Theorem nce_under_range n nr nc marginal : 0 < total n nr nc -> 0 <= score_under n nr nc (total n nr nc) marginal <= 1.
Proof. intros HN. unfold score_under. apply guard_range. apply true_given_est_bounds. exact HN. Qed.
Theorem nce_over_range n nr nc marginal : 0 < total n nr nc -> 0 <= score_over n nr nc (total n nr nc) marginal <= 1.
Proof. intros HN. unfold score_over. apply guard_range. apply pred_given_ref_bounds. exact HN. Qed.

(* util.f_measure of two numbers of [0,1] is in [0,1] (beta <> 0 is enough) *)
Lemma f_measure_range_ne p r beta : 0 <= p <= 1 -> 0 <= r <= 1 -> beta <> 0 -> 0 <= f_measure_R p r beta <= 1.
Proof. intros [Hp0 Hp1] [Hr0 Hr1] Hb.
  assert (HB : 0 < beta ^ 2) by (simpl; destruct (Rdichotomy _ _ Hb); nra). set (B := beta ^ 2) in *.
  assert (Main : p <> 0 \/ r <> 0 -> 0 <= (1 + B) * p * r / (B * p + r) <= 1).
  { intros Hnz. assert (Hd : 0 < B * p + r) by (destruct Hnz; nra).
    assert (Hi : 0 < / (B * p + r)) by (apply Rinv_0_lt_compat; exact Hd).
    assert (Hn0 : 0 <= (1 + B) * p * r) by (apply Rmult_le_pos; [apply Rmult_le_pos|]; lra).
    assert (K1 : 0 <= B * p * (1 - r)) by (apply Rmult_le_pos; [apply Rmult_le_pos|]; lra).
    assert (K2 : 0 <= r * (1 - p)) by (apply Rmult_le_pos; lra).
    assert (Hn1 : (1 + B) * p * r <= B * p + r) by lra.
    split; [apply div_nonneg; assumption|].
    apply div_le_1; assumption. }
  unfold f_measure_R. fold B. destruct (Req_EM_T p 0) as [Ep|Ep]; [destruct (Req_EM_T r 0) as [Er|Er]; [lra|]|]; apply Main; tauto. Qed.
Lemma f_measure_range p r beta : 0 <= p <= 1 -> 0 <= r <= 1 -> 0 < beta -> 0 <= f_measure_R p r beta <= 1.
Proof. intros Hp Hr Hb. apply f_measure_range_ne; [assumption|assumption|lra]. Qed.

Theorem nce_f_range n nr nc beta marginal : 0 < total n nr nc -> 0 < beta ->
  0 <= f_measure_R (score_over n nr nc (total n nr nc) marginal) (score_under n nr nc (total n nr nc) marginal) beta <= 1.
Proof. intros HN Hb. apply f_measure_range; [apply nce_over_range|apply nce_under_range|]; assumption. Qed.

(* nce_range: the three outputs of nce (either normalisation) are in [0,1] *)
Theorem nce_range n nr nc beta marginal : 0 < total n nr nc -> 0 < beta ->
  let '(o, u, f) := nce n nr nc (total n nr nc) beta marginal in 0 <= o <= 1 /\ 0 <= u <= 1 /\ 0 <= f <= 1.
Proof. intros HN Hb. unfold nce. split; [apply nce_over_range; exact HN|]. split; [apply nce_under_range; exact HN|]. apply nce_f_range; assumption. Qed.
(* v_range: V-measure precision, recall and F are in [0,1] *)
Theorem v_range n nr nc beta : 0 < total n nr nc -> 0 < beta ->
  let '(p, r, f) := vmeasure n nr nc (total n nr nc) beta in 0 <= p <= 1 /\ 0 <= r <= 1 /\ 0 <= f <= 1.
Proof. intros HN Hb. exact (nce_range n nr nc beta true HN Hb). Qed.

(* ================================================================================================== *)
(* 8. the hypotheses are satisfiable; they are also needed                                              *)
(* ================================================================================================== *)
Definition ex_tab : tabfn := fun i j => if (i =? j)%nat then 1%nat else 0%nat.      (* two classes, perfect agreement *)
Example ex_tab_total : total ex_tab 2 2 = 2.
Proof. unfold total, rowsum, ex_tab. cbn. lra. Qed.
Example ex_tab_hyps : 0 < total ex_tab 2 2 /\ 2%nat <> 0%nat /\ 0 < 1.
Proof. rewrite ex_tab_total. repeat split; try lra. discriminate. Qed.

(* The two extra parameters of the formulas (nlabels of nmi, nframes of nce) are tied to the table by the code
   (nlabels = nframes = len(y_ref) = total).  Without that tie the range statements are FALSE for the formulas as
   defined -- an artefact of the parameterisation, not reachable from mir_eval (proved by hand, without the
   interval tactic, so that no primitive-float axioms enter): *)
Definition diag4 : tabfn := fun i j => if (i =? j)%nat then 1%nat else 0%nat.
Theorem nmi_range_free_nlabels_refuted : exists n nr nc nlabels, 0 < total n nr nc /\ 1 < nmi n nr nc nlabels.
Proof. exists diag4, 4%nat, 4%nat, 0%nat. split.
  - unfold total, rowsum, diag4. cbn. lra.
  - unfold nmi. cbn [Nat.eqb andb orb]. cbv zeta. unfold entropy. cbn [Nat.eqb].
    replace (Rmax (sqrt (1 * 1)) (1 / 10000000000)) with 1.
    2:{ rewrite Rmult_1_r, sqrt_1. symmetry. apply Rmax_left. lra. }
    unfold mi, total, rowsum, colsum, mi_cell, diag4. cbn.
    repeat rewrite ?Rplus_0_l, ?Rplus_0_r, ?Rmult_1_l, ?ln_1.
    replace (1 + 1 + 1 + 1) with (2 * 2) by lra. rewrite ln_mult by lra. assert (H := ln_lt_2). lra. Qed.
Definition row11 : tabfn := fun i j => 1%nat.
Theorem nce_range_free_nframes_refuted : exists n nr nc nframes, 0 < total n nr nc /\ 0 < nframes /\ score_over n nr nc nframes false < 0.
Proof. exists row11, 1%nat, 2%nat, 1. split; [|split; [lra|]].
  - unfold total, rowsum, row11. cbn. lra.
  - unfold score_over, z_est, pred_given_ref, p_ref, entropy2, pcell, row11. cbn [rsum INR]. rewrite !entr_eq.
    replace (1 / 1 / (0 + 1 / 1 + 1 / 1)) with (/ 2) by (field; lra). rewrite ln_Rinv by lra.
    assert (L := ln2_pos). set (l := ln 2) in *.
    replace (ln (1 + 1) / l) with 1 by (replace (1 + 1) with 2 by lra; fold l; field; lra).
    destruct (Rlt_dec 0 1) as [_|H]; [|lra].
    replace ((0 + - / 2 * - l + - / 2 * - l) / l) with 1 by (field; lra). lra. Qed.

(* ================================================================================================== *)
(* 9. the tables of actual frame-label sequences                                                        *)
(* ================================================================================================== *)
Lemma rsum_nth_map {A} (g : A -> nat) d l : rsum (fun i => INR (g (nth i l d))) (length l) = INR (nsum (map g l)).
Proof. induction l as [|x l IH] using rev_ind; [reflexivity|].
  rewrite app_length, Nat.add_1_r. cbn [rsum]. rewrite map_app, nsum_app, plus_INR.
  rewrite (rsum_ext _ (fun i => INR (g (nth i l d)))) by (intros i Hi; rewrite app_nth1 by exact Hi; reflexivity).
  rewrite IH, nth_middle. cbn [map nsum fold_right]. rewrite Nat.add_0_r. reflexivity. Qed.
Lemma total_tab_fn m C : (forall row, In row m -> length row = C) -> total (tab_fn m) (length m) C = INR (nsum (concat m)).
Proof. intros Hrow. unfold total, rowsum, tab_fn. rewrite nsum_concat, <- (rsum_nth_map nsum [] m).
  apply rsum_ext. intros i Hi. rewrite <- (Hrow (nth i m [])) by (apply nth_In; exact Hi).
  rewrite (rsum_nth_map (fun x => x) 0%nat). rewrite map_id. reflexivity. Qed.
Theorem total_contingency yr ye : length yr = length ye ->
  total (tab_fn (contingency_tab yr ye)) (length (uniq yr)) (length (uniq ye)) = INR (length yr).
Proof. intros Hl. destruct (contingency_spec yr ye Hl) as (H1 & H2 & _ & _ & _ & _ & _ & H3).
  rewrite <- H1, <- H3. apply total_tab_fn. exact H2. Qed.

(* all the ranges of C01 for two frame-label sequences of the same positive length; nframes = nlabels = len(y_ref) as in the code *)
Theorem entropy_scores_ranges_sequences yr ye beta marginal : length yr = length ye -> yr <> [] -> 0 < beta ->
  let T := tab_fn (contingency_tab yr ye) in let nr := length (uniq yr) in let nc := length (uniq ye) in
  0 <= mi_of yr ye /\
  0 <= nmi T nr nc (length yr) <= 1 /\
  (let '(o, u, f) := nce T nr nc (INR (length yr)) beta marginal in 0 <= o <= 1 /\ 0 <= u <= 1 /\ 0 <= f <= 1) /\
  (let '(p, r, f) := vmeasure T nr nc (INR (length yr)) beta in 0 <= p <= 1 /\ 0 <= r <= 1 /\ 0 <= f <= 1).
Proof. intros Hl Hne Hb T nr nc. assert (HT := total_contingency yr ye Hl). fold T nr nc in HT.
  assert (Hlen : length yr <> 0%nat) by (destruct yr; [contradiction|discriminate]).
  assert (HN : 0 < total T nr nc) by (rewrite HT; apply lt_0_INR; lia).
  rewrite <- HT. split; [apply (mi_nonneg T nr nc HN)|]. split; [apply nmi_range; assumption|].
  split; [apply nce_range; assumption|apply v_range; assumption]. Qed.
Example sequences_hyps : length [0; 0; 1]%nat = length [0; 1; 1]%nat /\ [0; 0; 1]%nat <> [] /\ 0 < 1.
Proof. repeat split; [discriminate|lra]. Qed.

Print Assumptions mi_nonneg.
Print Assumptions mi_chain.
Print Assumptions mi_le_entropy_ref.
Print Assumptions mi_le_entropy_est.
Print Assumptions mi_le_min_entropy.
Print Assumptions hrow_le_ln.
Print Assumptions nmi_range.
Print Assumptions true_given_est_bounds.
Print Assumptions pred_given_ref_bounds.
Print Assumptions condent_est_le_ln.
Print Assumptions nce_over_range.
Print Assumptions nce_under_range.
Print Assumptions nce_f_range.
Print Assumptions nce_range.
Print Assumptions v_range.
Print Assumptions nmi_range_free_nlabels_refuted.
Print Assumptions nce_range_free_nframes_refuted.
Print Assumptions total_contingency.
Print Assumptions entropy_scores_ranges_sequences.
